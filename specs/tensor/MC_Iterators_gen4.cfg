CONSTANTS N = 6  C = 1  MaxOps = 4
INIT Init
NEXT Next
INVARIANTS Partition LenExact AllConsumedWhenDone Emit
CHECK_DEADLOCK FALSE
