---------------------------- MODULE MC_Construct ----------------------------
(* Model checking and test-vector generation for the constructor part of C06. *)
(* Three sub-models in one TLC run, distinguished by `mode`:                    *)
(*  exact  every shape of rank <= MaxRank, sizes 0..MaxSize, strides            *)
(*         0..MaxStride and every storage length 0..MaxLen: the transcribed      *)
(*         acceptance tests in EXACT arithmetic imply Safe (and Injective for     *)
(*         the DisallowOverlap constructor); int and Word transcriptions agree.   *)
(*         Growing any axis by 1 or 2 is accepted by the transcription of         *)
(*         expanded_layout only if the grown layout is injective and fits.         *)
(*         Emits each layout with the storage lengths around its true extent.     *)
(*  kbit   the same tests on a machine whose usize has K bits (all sizes,         *)
(*         strides, lengths < 2^K): with CHECKED arithmetic (the current code)     *)
(*         acceptance implies Safe (invariant); with the WRAPPING arithmetic of     *)
(*         the code before the repair every acceptance that is not Safe is printed  *)
(*         as a CANDIDATE (boundary inputs; the count is reported).                 *)
(*  wide   grid of 64-bit corner sizes/strides; the storage lengths offered are   *)
(*         the ones the WRAPPING transcription would accept (when small enough    *)
(*         to allocate) plus fixed small lengths.  Emitted for replay.            *)
(*  chain  (view-operation part of C06) chains of <= Depth view operations of      *)
(*         the LayoutOps transcription starting from a contiguous tensor of n       *)
(*         elements: every reachable view keeps all its offsets inside the root      *)
(*         storage and inside its own storage window [base, base + min_data_len),    *)
(*         mutable chains (no broadcast) stay injective, and split_at_mut halves      *)
(*         are disjoint and cover the view.                                          *)
EXTENDS Construct, LayoutOps, Json

CONSTANTS MaxRank, MaxSize, MaxStride, MaxLen, K, KRank, Tier, Depth, ChainSize

VARIABLES lay, mode, depth, rootn, mut
vars == <<lay, mode, depth, rootn, mut>>
NoChain == depth = 0 /\ rootn = 0 /\ mut = FALSE

RECURSIVE SortedSeq(_)
SortedSeq(S) == IF S = {} THEN <<>>
                ELSE LET m == CHOOSE x \in S : \A y \in S : x <= y IN <<m>> \o SortedSeq(S \ {m})

\* ------------------------------------------------------------------ exact
\* (TLC computes initial states and their invariants in ONE thread; the spaces are
\* therefore reached in two steps from a single seed state: seed -> one bucket per
\* shape -> the layouts of that shape, so that the workers share the buckets.)
ShapesExact == UNION {[1..r -> 0..MaxSize] : r \in 0..MaxRank}
StridesExact(r) == [1..r -> 0..MaxStride]

Lens == 0..MaxLen
ExactOk ==
  LET sh == lay.shape  st == lay.strides  cs == ContigStridesM(sh, 0) IN
  /\ \A n \in Lens :
       /\ AcceptFromDataM(sh, n, 0, "exact") => (Safe(sh, cs, n) /\ InjectiveFast(sh, cs))
       /\ AcceptWithStridesM(sh, st, n, 0, "exact") => (Safe(sh, st, n) /\ InjectiveFast(sh, st))
       /\ AcceptSliceWithStridesM(sh, st, n, 0, "exact") => Safe(sh, st, n)
  \* Safe really is "every valid index lands inside the storage"
  /\ \A n \in {MinDataLen(sh, st), MinDataLen(sh, st) - 1} :
       n >= 0 => (Safe(sh, st, n) <=> \A o \in OffsetSet(sh, st, 0) : o < n)
\* growth of an owned tensor in place (expanded_layout): whenever the transcribed test accepts the
\* layout grown along ANY axis by 1 or 2 (same strides), that layout is injective and fits the capacity
GrowOk ==
  LET sh == lay.shape  st == lay.strides IN
  \A d \in 1..Len(sh) : \A extra \in 1..2 :
    LET g == SetAt(sh, d, sh[d] + extra) IN
    /\ ~MayOverlapImpl(g, st) => InjectiveFast(g, st)
    /\ \A cap \in {MinDataLen(g, st) - 1, MinDataLen(g, st)} :
         (cap >= 0 /\ AcceptGrowW(WSeq(sh), WSeq(st), d - 1, FromNat(sh[d] + extra), FromNat(cap), "checked"))
           => (InjectiveFast(g, st) /\ MinDataLen(g, st) <= cap)
AgreeOk ==
  LET sh == lay.shape  st == lay.strides  shW == WSeq(sh)  stW == WSeq(st) IN
  /\ NatSeq(ContigStridesW(shW, TRUE)) = ContigStridesM(sh, 0)
  /\ ToNat(MinDataLenW(shW, stW, "checked")) = MinDataLen(sh, st)
  /\ ToNat(MinDataLenW(shW, stW, "wrap")) = MinDataLen(sh, st)
  /\ ToNat(MinDataLenW(shW, stW, "exact")) = MinDataLenM(sh, st, 0, "exact")
  /\ ToNat(LenW(shW, "wrap")) = Prod(sh)
  /\ \A n \in {0, MinDataLen(sh, st), MaxLen} : \A am \in {"exact", "checked", "wrap"} :
       /\ AcceptFromDataW(shW, FromNat(n), am) = AcceptFromDataM(sh, n, 0, "exact")
       /\ AcceptWithStridesW(shW, stW, FromNat(n), am) = AcceptWithStridesM(sh, st, n, 0, "exact")
       /\ AcceptSliceWithStridesW(shW, stW, FromNat(n), am) = AcceptSliceWithStridesM(sh, st, n, 0, "exact")
       /\ SafeW(shW, stW, FromNat(n)) = Safe(sh, st, n)

Around(m) == {n \in {m - 1, m, m + 1} : n >= 0}
EmitExact ==
  LET sh == lay.shape  st == lay.strides IN
  PrintT(<<"REPLAY", ToJson([class |-> "small", shapeW |-> WSeq(sh), stridesW |-> WSeq(st),
                             lens |-> SortedSeq(Around(MinDataLen(sh, st)) \cup Around(Prod(sh)))])>>)

\* ------------------------------------------------------------------- kbit
M == 2 ^ K
ShapesKbit == UNION {[1..r -> 0..(M - 1)] : r \in 1..KRank}
StridesKbit(r) == [1..r -> 0..(M - 1)]
\* number of storage lengths at which each K-bit constructor accepts an unsafe layout
KbitCandidates ==
  LET sh == lay.shape  st == lay.strides  cs == ContigStridesM(sh, M) IN
  [from_data |-> Cardinality({n \in 0..(M - 1) : AcceptFromDataM(sh, n, M, "wrap") /\ ~Safe(sh, cs, n)}),
   with_strides |-> Cardinality({n \in 0..(M - 1) : AcceptWithStridesM(sh, st, n, M, "wrap") /\ ~Safe(sh, st, n)}),
   slice_with_strides |-> Cardinality({n \in 0..(M - 1) : AcceptSliceWithStridesM(sh, st, n, M, "wrap") /\ ~Safe(sh, st, n)})]
\* the repaired (checked) K-bit constructors accept only safe (and, with DisallowOverlap, injective) layouts
KbitCheckedOk ==
  LET sh == lay.shape  st == lay.strides  cs == ContigStridesM(sh, M) IN
  \A n \in 0..(M - 1) :
    /\ AcceptFromDataM(sh, n, M, "checked") => Safe(sh, cs, n)
    /\ AcceptWithStridesM(sh, st, n, M, "checked") => (Safe(sh, st, n) /\ InjectiveFast(sh, st))
    /\ AcceptSliceWithStridesM(sh, st, n, M, "checked") => Safe(sh, st, n)
EmitKbit ==
  LET c == KbitCandidates IN
  (c.from_data + c.with_strides + c.slice_with_strides > 0) =>
     PrintT(<<"CANDIDATE", ToJson([shape |-> lay.shape, strides |-> lay.strides, n |-> c])>>)

\* ------------------------------------------------------------------- wide
P16 == WPow2(16)
P32 == WPow2(32)
P63 == WPow2(63)
PlainSizes == {WZero, WOne, FromNat(2), FromNat(3), P16, P32, WAdd(P32, WOne), P63, WMax64}
StrSizes == {WOne, FromNat(2), FromNat(3), P32, P63}
StrStrides == {WZero, WOne, FromNat(2), P32, P63, WMax64}
AllocLimit == FromNat(4096)
SmallLens(S) == {ToNat(x) : x \in {y \in S : WLe(y, AllocLimit)}}
ShapesWidePlain == UNION {[1..r -> PlainSizes] : r \in 1..3}
ShapesWideStrided == UNION {[1..r -> StrSizes] : r \in 1..(IF Tier = "quick" THEN 2 ELSE 3)}
StridesWide(r) == [1..r -> StrStrides]
EmitWide ==
  LET sh == lay.shape
      plain == lay.strides = <<>> /\ Len(sh) > 0
      st == IF plain THEN ContigStridesW(sh, TRUE) ELSE lay.strides
      \* storage lengths the code before the repair would have accepted (boundary inputs)
      lens == SmallLens({MinDataLenW(sh, st, "wrap"), LenW(sh, "wrap")}) \cup {0, 1, 64}
  IN PrintT(<<"REPLAY", ToJson([class |-> (IF plain THEN "wide_plain" ELSE "wide_strided"),
                                shapeW |-> sh, stridesW |-> lay.strides, lens |-> SortedSeq(lens)])>>)

\* ------------------------------------------------------------------ chain
SeedChain ==
  /\ mode' = "chain" /\ depth' = 0
  /\ mut' \in BOOLEAN
  /\ \E r \in 0..MaxRank : \E sh \in [1..r -> 0..ChainSize] : lay' = ContigL(sh) /\ rootn' = Prod(sh)

OneDimSlices(l) ==
  UNION {
    LET sz == l.shape[d]
        pre == [j \in 1..(d - 1) |-> FullRange]
    IN {SliceL(l, Append(pre, RngItem(a, b, s))) : a \in 0..sz, b \in 0..sz, s \in 1..2}
       \cup {SliceL(l, Append(pre, RngItem(0 - a, 0 - b, 1))) : a \in 1..sz, b \in 1..sz}
       \cup {SliceL(l, Append(pre, IdxItem(i))) : i \in (0 - sz)..(sz - 1)}
       \cup {IndexAxisL(l, d - 1, i) : i \in 0..(sz - 1)}
       \cup {SplitLeftL(l, d - 1, m) : m \in 0..sz} \cup {SplitRightL(l, d - 1, m) : m \in 0..sz}
    : d \in 1..Rank(l)}
\* (SliceAxisL with a > b is not a valid call; keep only valid ones)
ValidSliceAxis(l) == UNION {UNION {{SliceAxisL(l, d - 1, a, b) : b \in a..l.shape[d]} : a \in 0..l.shape[d]} : d \in 1..Rank(l)}
Broadcasts(l) ==
  IF Rank(l) >= MaxRank + 1 THEN {}
  ELSE {BroadcastL(l, t) : t \in {tt \in UNION {[1..k -> 0..ChainSize] : k \in Rank(l)..(Rank(l) + 1)} : BroadcastOk(l, tt)}}
Succ(l, m) ==
  {PermuteL(l, p) : p \in Perms(Rank(l))}
  \cup OneDimSlices(l) \cup ValidSliceAxis(l)
  \cup (IF m THEN {} ELSE Broadcasts(l))
  \cup (IF m THEN {} ELSE {MergeAxesL(l), SqueezeL(l), TransposeL(l)}
                          \cup (IF Rank(l) < MaxRank + 1 THEN {InsertAxisL(l, d) : d \in 0..Rank(l)} ELSE {}))
  \cup (IF IsContiguousL(l) /\ Prod(l.shape) > 0 /\ Rank(l) > 0
        THEN {L(<<Prod(l.shape)>>, <<1>>, l.base)} ELSE {})          \* reshape(d) to 1-D
NextChain ==
  /\ mode = "chain" /\ depth < Depth
  /\ depth' = depth + 1 /\ UNCHANGED <<mode, rootn, mut>>
  /\ \E l2 \in Succ(lay, mut) : lay' = l2

Init == mode = "seed" /\ lay = <<>> /\ NoChain
NextSeed ==
  /\ mode = "seed"
  /\ \/ SeedChain
     \/ /\ mode' = "bucket" /\ UNCHANGED <<depth, rootn, mut>>
        /\ \/ \E sh \in ShapesExact : lay' = [target |-> "exact", shape |-> sh]
           \/ \E sh \in ShapesKbit : lay' = [target |-> "kbit", shape |-> sh]
           \/ \E sh \in ShapesWidePlain : lay' = [target |-> "wide_plain", shape |-> sh]
           \/ \E sh \in ShapesWideStrided : lay' = [target |-> "wide", shape |-> sh]
NextBucket ==
  /\ mode = "bucket" /\ UNCHANGED <<depth, rootn, mut>>
  /\ LET r == Len(lay.shape) IN
     CASE lay.target = "exact" -> mode' = "exact" /\ \E st \in StridesExact(r) : lay' = [shape |-> lay.shape, strides |-> st]
       [] lay.target = "kbit" -> mode' = "kbit" /\ \E st \in StridesKbit(r) : lay' = [shape |-> lay.shape, strides |-> st]
       [] lay.target = "wide_plain" -> mode' = "wide" /\ lay' = [shape |-> lay.shape, strides |-> <<>>]
       [] lay.target = "wide" -> mode' = "wide" /\ \E st \in StridesWide(r) : lay' = [shape |-> lay.shape, strides |-> st]
Next == NextSeed \/ NextBucket \/ NextChain

InBounds == LOffsetSet(lay) \subseteq 0..(rootn - 1)
WindowOk == lay.base >= 0 /\ lay.base + LMinDataLen(lay) <= rootn
MutInjective == mut => InjectiveFast(lay.shape, lay.strides)
SplitDisjoint ==
  mut => \A d \in 1..Rank(lay) : \A m \in 0..lay.shape[d] :
           LET a == LOffsetSet(SplitLeftL(lay, d - 1, m))  b == LOffsetSet(SplitRightL(lay, d - 1, m))
           IN a \cap b = {} /\ a \cup b = LOffsetSet(lay)
InvChain == mode = "chain" => (InBounds /\ WindowOk /\ MutInjective /\ SplitDisjoint)

\* -------------------------------------------------------- the combined model
InvExact == mode = "exact" => (ExactOk /\ AgreeOk /\ GrowOk)
InvKbit == mode = "kbit" => KbitCheckedOk
Emit == CASE mode = "exact" -> EmitExact
          [] mode = "kbit" -> EmitKbit
          [] mode = "wide" -> EmitWide
          [] mode \in {"chain", "seed", "bucket"} -> TRUE
=============================================================================
