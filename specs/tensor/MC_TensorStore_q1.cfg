\* exhaustive: every contiguous tensor of rank<=3, sizes 0..2, one operation from Menu (invariants also evaluate the whole menu on every result)
CONSTANTS MaxRank = 3  MaxSize = 2  MaxOps = 1
INIT Init
NEXT Next
INVARIANTS Refines ModelTotal FastIsRef AppendFastIsRef
CHECK_DEADLOCK FALSE
