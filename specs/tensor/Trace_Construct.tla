--------------------------- MODULE Trace_Construct ---------------------------
(* Trace validation for C06, constructors.  One `case` record per test vector  *)
(* with `runs`: what each real constructor did for each storage length, and     *)
(* for an accepted tensor what shape()/strides()/len() and the storage length    *)
(* are (64-bit values as base-2^15 limbs).  Judged HERE, in exact arithmetic:    *)
(*   P_safe   accepted => SafeW(rshape, rstrides, rstorage)                       *)
(*            (this covers every accepted shape whose maximum offset overflows,     *)
(*            and every accepted non-broadcast shape whose element count overflows) *)
(*   P_inj    accepted /\ mutable storage => the layout is injective              *)
(*            (flagged only when non-injectivity is certain, see Overlap.tla)     *)
(* Signature reason: "logic" if the transcribed acceptance test accepts even in     *)
(* exact arithmetic; "arithmetic_wrapped" if only the WRAPPING transcription (the     *)
(* code before the repair) accepts - a regression of that defect; otherwise            *)
(* "unexplained_accept".                                                              *)
(* DRIFT (not a violation): the real outcome differs from the transcription of the    *)
(* CURRENT code (checked 64-bit arithmetic).                                          *)
(* Counted only (STAT safe_count_overflow): an accepted layout that is Safe although    *)
(* its element count PROD rshape overflows 64 bits - only possible for broadcasting     *)
(* strides such as shape [2^63, 3], strides [0, 1]: every offset is in bounds, so the   *)
(* weakest reading of the statement does not make this a violation (len() reports a     *)
(* wrapped count); code and transcription agree on accepting it.                        *)
EXTENDS TraceLib, Construct

VARIABLES l, nbad, ndrift, ncase, nrun, nacc, nund

e == Rec[l]
Init == l = 1 /\ nbad = NoBad /\ ndrift = NoBad /\ ncase = 0 /\ nrun = 0 /\ nacc = 0 /\ nund = 0

Family(ctor) ==
  CASE ctor \in {"try_from_data.vec", "try_from_data.slice", "try_from_data.mut", "try_from_data.nd_vec",
                 "try_from_data.nd_slice", "from_data.vec", "zeros", "from_simple_fn"} -> "from_data"
    [] ctor \in {"from_data_with_strides.vec", "from_data_with_strides.mut", "from_data_with_strides.slice",
                 "from_data_with_strides.nd_mut"} -> "from_data_with_strides"
    [] ctor \in {"from_slice_with_strides", "from_slice_with_strides.nd"} -> "from_slice_with_strides"
    [] ctor \in {"from_storage_and_layout.vec", "from_storage_and_layout.view", "from_storage_and_layout.mut"}
         -> "from_storage_and_layout"

\* transcribed acceptance of the submitted (shape, strides, len) for a constructor family
AcceptFam(k, fam, mutable, len, wrap) ==
  CASE fam = "from_data" -> AcceptFromDataW(k.shapeW, len, wrap)
    [] fam = "from_data_with_strides" -> AcceptWithStridesW(k.shapeW, k.stridesW, len, wrap)
    [] fam = "from_slice_with_strides" -> AcceptSliceWithStridesW(k.shapeW, k.stridesW, len, wrap)
    [] fam = "from_storage_and_layout" -> AcceptStorageLayoutW(k.shapeW, k.stridesW, len, mutable, wrap)

Drift(dr, ok, sig, rec) ==
  IF ok THEN dr
  ELSE IF sig \in DOMAIN dr THEN [dr EXCEPT ![sig] = @ + 1]
  ELSE Print(<<"DRIFTCASE", ToJson(sig), ToJson(rec)>>, dr @@ (sig :> 1))

\* Per-vector table, evaluated ONCE (TLCEval) for each storage length in k.lens:
\* the transcribed verdicts in wrapping and in exact arithmetic, and Safe for the
\* two stride vectors an accepted tensor can report (contiguous / as submitted).
Fams == <<"from_data", "from_data_with_strides", "from_slice_with_strides", "from_storage_and_layout">>
Table(k) ==
  LET cs == ContigStridesW(k.shapeW, TRUE) IN   \* (wrapping: what the code computes)
  TLCEval([i \in 1..Len(k.lens) |->
    LET len == FromNat(k.lens[i]) IN
    [wrapm  |-> [f \in 1..4 |-> IF f > 1 /\ ~k.strided THEN FALSE ELSE AcceptFam(k, Fams[f], TRUE, len, "checked")],
     wrapi  |-> [f \in 1..4 |-> IF f > 1 /\ ~k.strided THEN FALSE ELSE AcceptFam(k, Fams[f], FALSE, len, "checked")],
     exactm |-> [f \in 1..4 |-> IF f > 1 /\ ~k.strided THEN FALSE ELSE AcceptFam(k, Fams[f], TRUE, len, "exact")],
     exacti |-> [f \in 1..4 |-> IF f > 1 /\ ~k.strided THEN FALSE ELSE AcceptFam(k, Fams[f], FALSE, len, "exact")],
     safec  |-> SafeW(k.shapeW, cs, len),
     safes  |-> IF k.strided THEN SafeW(k.shapeW, k.stridesW, len) ELSE FALSE]])
FamIx(fam) == CHOOSE f \in 1..4 : Fams[f] = fam
LenIx(k, n) == IF \E i \in 1..Len(k.lens) : k.lens[i] = n
               THEN CHOOSE i \in 1..Len(k.lens) : k.lens[i] = n ELSE 0

\* verdicts for one run r of vector k (tab = Table(k), cs = contiguous strides, injc/injs = injectivity verdicts);
\* cur = TRUE: the current (checked) code, FALSE: exact arithmetic
Want(k, tab, r, cur) ==
  LET i == LenIx(k, r.len)  f == FamIx(Family(r.ctor)) IN
  IF i = 0 THEN AcceptFam(k, Family(r.ctor), r.mutable, FromNat(r.len), IF cur THEN "checked" ELSE "exact")
  ELSE IF cur THEN (IF r.mutable THEN tab[i].wrapm[f] ELSE tab[i].wrapi[f])
  ELSE (IF r.mutable THEN tab[i].exactm[f] ELSE tab[i].exacti[f])
SafeOf(k, tab, cs, r) ==
  LET i == LenIx(k, r.rstorage) IN
  IF i # 0 /\ r.rshapeW = k.shapeW /\ r.rstridesW = cs THEN tab[i].safec
  ELSE IF i # 0 /\ r.rshapeW = k.shapeW /\ k.strided /\ r.rstridesW = k.stridesW THEN tab[i].safes
  ELSE SafeW(r.rshapeW, r.rstridesW, FromNat(r.rstorage))
InjOf(k, cs, injc, injs, r) ==
  IF r.rshapeW = k.shapeW /\ r.rstridesW = cs THEN injc
  ELSE IF r.rshapeW = k.shapeW /\ r.rstridesW = k.stridesW THEN injs
  ELSE InjectiveW(r.rshapeW, r.rstridesW)

JudgeOne(bad, k, tab, cs, injc, injs, r) ==
  IF r.outcome # "ok" THEN bad
  ELSE
    LET safe == SafeOf(k, tab, cs, r)
        inj == IF r.mutable /\ safe THEN InjOf(k, cs, injc, injs, r) ELSE "yes"
        reason == IF Want(k, tab, r, FALSE) THEN "logic"
                  ELSE IF AcceptFam(k, Family(r.ctor), r.mutable, FromNat(r.len), "wrap")
                  THEN "arithmetic_wrapped" ELSE "unexplained_accept"
        rec == [case |-> [class |-> k.class, shapeW |-> k.shapeW, stridesW |-> k.stridesW], run |-> r]
        b1 == IF safe THEN bad
              ELSE Flag(bad, FALSE, [kind |-> "unsafe_accept", ctor |-> Family(r.ctor), reason |-> reason], rec)
    IN IF inj # "no" THEN b1
       ELSE Flag(b1, FALSE, [kind |-> "aliasing_accept", ctor |-> Family(r.ctor), reason |-> reason], rec)

DriftOne(dr, k, tab, cs, r) ==
  LET want == Want(k, tab, r, TRUE)
      got == r.outcome = "ok"
      rec == [case |-> [class |-> k.class, shapeW |-> k.shapeW, stridesW |-> k.stridesW], run |-> r]
  IN Drift(dr, want = got, [kind |-> "outcome", ctor |-> r.ctor, transcription |-> want, real |-> r.outcome], rec)
SafeOverflowCount(k, tab, cs) ==
  Cardinality({i \in 1..Len(k.runs) : /\ k.runs[i].outcome = "ok"
                                       /\ ~CountFitsW(k.runs[i].rshapeW)
                                       /\ SafeOf(k, tab, cs, k.runs[i])})

RECURSIVE JudgeAll(_, _, _, _, _, _, _)
JudgeAll(bad, k, tab, cs, injc, injs, i) ==
  IF i > Len(k.runs) THEN bad
  ELSE JudgeAll(JudgeOne(bad, k, tab, cs, injc, injs, k.runs[i]), k, tab, cs, injc, injs, i + 1)
RECURSIVE DriftAll(_, _, _, _, _)
DriftAll(dr, k, tab, cs, i) ==
  IF i > Len(k.runs) THEN dr ELSE DriftAll(DriftOne(dr, k, tab, cs, k.runs[i]), k, tab, cs, i + 1)

Case == /\ e.ev = "case"
        /\ \E k \in {e} : \E tab \in {Table(k)} : \E cs \in {ContigStridesW(k.shapeW, TRUE)} :
           \E injc \in {InjectiveW(k.shapeW, cs)} :
           \E injs \in {IF k.strided THEN InjectiveW(k.shapeW, k.stridesW) ELSE "yes"} :
             /\ nbad' = JudgeAll(nbad, k, tab, cs, injc, injs, 1)
             /\ ndrift' = DriftAll(ndrift, k, tab, cs, 1)
             /\ nund' = nund + (IF CountFitsW(k.shapeW) THEN 0 ELSE SafeOverflowCount(k, tab, cs))
             /\ nrun' = nrun + Len(k.runs)
             /\ nacc' = nacc + Cardinality({i \in 1..Len(k.runs) : k.runs[i].outcome = "ok"})
        /\ ncase' = ncase + 1

Next == /\ l <= NRec /\ l' = l + 1 /\ Case

Report == l = NRec + 1 =>
            /\ ReportBad(nbad)
            /\ \A s \in DOMAIN ndrift : Print(<<"DRIFTSIG", ToJson(s), ndrift[s]>>, TRUE)
            /\ Stat("cases", ncase) /\ Stat("runs", nrun) /\ Stat("accepted", nacc) /\ Stat("safe_count_overflow", nund)
=============================================================================
