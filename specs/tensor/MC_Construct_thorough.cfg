\* exact: rank<=3 sizes 0..3 strides 0..7, lens 0..44; kbit: 4-bit usize rank<=2; wide grid (rank 3 strided); chains: sizes 0..3 depth 3
CONSTANTS MaxRank = 3  MaxSize = 3  MaxStride = 7  MaxLen = 44  K = 4  KRank = 2  Tier = "thorough"  Depth = 3  ChainSize = 3
INIT Init
NEXT Next
INVARIANTS InvExact InvKbit InvChain Emit
CHECK_DEADLOCK FALSE
