---------------------------- MODULE Trace_Chains ----------------------------
(* Trace validation for C06, marker-tensor chains.  The root storage holds     *)
(* element k at offset k (0 <= k < n), so a value obtained through the safe API  *)
(* IS the storage offset it was read from; a `&mut` is logged as its address     *)
(* offset from the root.  Every view logs its shape, strides and storage window  *)
(* [dbase, dbase + dlen) (from data_ptr() and the storage length).               *)
(*                                                                              *)
(* Contract predicates (direct formalisation of the C06 statement):             *)
(*  V_window  a view's storage window lies inside the root storage               *)
(*  V_extent  every valid index of a view maps inside the view's storage:        *)
(*            MinDataLen(shape, strides) <= dlen  (what makes the unchecked        *)
(*            accesses behind get()/[]/iterators in-bounds)                       *)
(*  V_read    every value returned by get(), `[]` or weakly-checked indexing -    *)
(*            for valid AND invalid indices - lies inside the view's storage       *)
(*            (None / panic are fine: documented precondition)                     *)
(*  V_alias   the `&mut` references alive at the same time are pairwise distinct   *)
(*  V_mutwin  ... and point inside the view's storage                              *)
(*  V_intact  the harness only takes addresses, so storage and guard bands stay    *)
(*            unchanged                                                            *)
(* DRIFT (exit 0): disagreement with the LayoutOps transcription that does not     *)
(* break the contract: an operation accepted/rejected unexpectedly, a view whose   *)
(* layout differs from the transcribed one, a value that is inside the storage      *)
(* but is not Offset(idx) of the expected layout (element identity is C09/C07),    *)
(* a set of `&mut` that does not cover the expected offset set.                     *)
EXTENDS TraceLib, LayoutOps

VARIABLES l, nbad, ndrift, ncase, nview, nread, nmut, lay, n, cid

e == Rec[l]
Init == /\ l = 1 /\ nbad = NoBad /\ ndrift = NoBad /\ ncase = 0 /\ nview = 0 /\ nread = 0 /\ nmut = 0
        /\ lay = ContigL(<<>>) /\ n = 0 /\ cid = 0

Drift(dr, ok, sig, rec) ==
  IF ok THEN dr
  ELSE IF sig \in DOMAIN dr THEN [dr EXCEPT ![sig] = @ + 1]
  ELSE Print(<<"DRIFTCASE", ToJson(sig), ToJson(rec)>>, dr @@ (sig :> 1))

Case == /\ e.ev = "case"
        /\ lay' = ContigL(e.shape) /\ n' = e.n /\ ncase' = ncase + 1 /\ cid' = e["case"]
        /\ UNCHANGED <<nbad, ndrift, nview, nread, nmut>>

InWindow(v, ev) == v >= ev.dbase /\ v < ev.dbase + ev.dlen
IsValue(v) == v # 0 - 1 /\ v # 0 - 2            \* -1 = None / not tried, -2 = panic
Logged(ev) == L(ev.shape, ev.strides, ev.dbase)
SameLayout(a, b) == a.shape = b.shape /\ a.strides = b.strides /\ (LEmpty(a) \/ a.base = b.base)

\* ---- a view was produced (or an operation was rejected)
ViewOk(ev) ==
  /\ ev.dbase >= 0 /\ ev.dbase + ev.dlen <= n
  /\ MinDataLen(ev.shape, ev.strides) <= ev.dlen
ReadsOk(ev) ==
  \A i \in 1..Len(ev.idxs) :
    /\ IsValue(ev.gets[i]) => InWindow(ev.gets[i], ev)
    /\ IsValue(ev.brackets[i]) => InWindow(ev.brackets[i], ev)
    /\ IsValue(ev.weak[i]) => InWindow(ev.weak[i], ev)
\* drift: element identity / precondition behaviour as transcribed
ReadsAsExpected(ev) ==
  LET lg == Logged(ev) IN
  \A i \in 1..Len(ev.idxs) :
    IF ValidIndex(ev.shape, ev.idxs[i])
    THEN /\ ev.gets[i] = LOffset(lg, ev.idxs[i])
         /\ ev.brackets[i] = ev.gets[i] /\ ev.weak[i] = ev.gets[i]
    ELSE ev.gets[i] = 0 - 1 /\ ev.brackets[i] \in {0 - 1, 0 - 2}

ViewEvent ==
  /\ e.ev \in {"op", "mop"}
  /\ \E ev \in {e} : \E want \in {OpOkL(lay, ev.op)} :
     LET ok == ev.outcome = "ok"
         sigv(kind) == [kind |-> kind, api |-> ev.op.op, mutable |-> ev.ev = "mop"]
         rec == [event |-> ev, expected_layout |-> lay, n |-> n, cid |-> cid]
         b1 == IF ~ok \/ ViewOk(ev) THEN nbad ELSE Flag(nbad, FALSE, sigv("view_exceeds_storage"), rec)
         b2 == IF ~ok \/ ev.ev = "mop" \/ ReadsOk(ev) THEN b1 ELSE Flag(b1, FALSE, sigv("read_outside_storage"), rec)
         d1 == Drift(ndrift, want = ok, [kind |-> "outcome", api |-> ev.op.op, expected_ok |-> want, real |-> ev.outcome], rec)
         d2 == IF ok /\ want THEN Drift(d1, SameLayout(ApplyOpL(lay, ev.op), Logged(ev)), [kind |-> "layout", api |-> ev.op.op], rec) ELSE d1
         d3 == IF ok /\ ev.ev = "op" THEN Drift(d2, ReadsAsExpected(ev), [kind |-> "wrong_element_or_precondition", api |-> ev.op.op], rec) ELSE d2
     IN /\ nbad' = b2
        /\ ndrift' = d3
        \* follow the view the real code produced (the contract predicates do not depend on `lay`)
        /\ lay' = IF ok THEN Logged(ev) ELSE lay
        /\ nview' = nview + (IF ok THEN 1 ELSE 0)
        /\ nread' = nread + (IF ev.ev = "op" THEN Len(ev.idxs) ELSE 0)
  /\ UNCHANGED <<ncase, nmut, n, cid>>

\* ---- many `&mut` alive at once
FullCover(op) == op \in {"iter_mut", "iter_mut_both_ends", "lanes_mut", "inner_iter_mut", "axis_iter_mut",
                         "axis_chunks_mut", "split_tree"}
\* the leaf was planned on a scratch tensor; when an earlier operation was rejected its
\* arguments may not fit the real view: a dimension argument >= rank is a documented panic
LeafArgsOk(ev) ==
  CASE ev.op.op \in {"lanes_mut", "axis_iter_mut", "axis_chunks_mut"} -> ev.op.args[1] < Len(ev.shape)
    [] ev.op.op = "inner_iter_mut" -> ev.op.args[1] <= Len(ev.shape)
    [] OTHER -> TRUE
Leaf ==
  /\ e.ev = "leaf"
  /\ \E ev \in {e} :
     LET offs == ev.offsets
         distinct == Cardinality(Range(offs)) = Len(offs)
         inside == \A i \in 1..Len(offs) : InWindow(offs[i], ev) /\ offs[i] >= 0 /\ offs[i] < n
         sigl(kind) == [kind |-> kind, api |-> ev.op.op, mutable |-> TRUE]
         rec == [event |-> ev, expected_layout |-> lay, n |-> n, cid |-> cid]
         b1 == IF distinct THEN nbad ELSE Flag(nbad, FALSE, sigl("mut_alias"), rec)
         b2 == IF inside THEN b1 ELSE Flag(b1, FALSE, sigl("mut_outside_storage"), rec)
         lg == Logged(ev)
         cover == IF ev.outcome # "ok" THEN ~LeafArgsOk(ev)
                  ELSE IF ~LeafArgsOk(ev) THEN FALSE
                  ELSE IF FullCover(ev.op.op) THEN Range(offs) = LOffsetSet(lg) /\ Len(offs) = Prod(ev.shape)
                  ELSE IF ev.op.op = "get_mut"
                       THEN (IF ValidIndex(ev.shape, ev.op.args) THEN offs = <<LOffset(lg, ev.op.args)>> ELSE offs = <<>>)
                  ELSE Range(offs) \subseteq LOffsetSet(lg)
     IN /\ nbad' = b2
        /\ ndrift' = Drift(ndrift, cover, [kind |-> "mut_cover", api |-> ev.op.op], rec)
        /\ nmut' = nmut + Len(offs)
  /\ UNCHANGED <<ncase, nview, nread, lay, n, cid>>

End == /\ e.ev = "end"
       /\ nbad' = Flag(nbad, e.intact, [kind |-> "storage_modified", api |-> "any", mutable |-> TRUE], [event |-> e, n |-> n, cid |-> cid])
       /\ UNCHANGED <<ndrift, ncase, nview, nread, nmut, lay, n, cid>>

Next == /\ l <= NRec /\ l' = l + 1 /\ (Case \/ ViewEvent \/ Leaf \/ End)

Report == l = NRec + 1 =>
            /\ ReportBad(nbad)
            /\ \A s \in DOMAIN ndrift : Print(<<"DRIFTSIG", ToJson(s), ndrift[s]>>, TRUE)
            /\ Stat("cases", ncase) /\ Stat("views", nview) /\ Stat("reads", nread) /\ Stat("mutrefs", nmut)
=============================================================================
