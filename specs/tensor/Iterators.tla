---------------------------- MODULE Iterators ----------------------------
(* Contract of a double-ended, exact-size, splittable iterator over a finite *)
(* sequence of N "units" that yields chunks of up to C units (C = 1 for all   *)
(* iterators except axis_chunks).  This is what C07 demands of every          *)
(* rten-tensor iterator: front yields in order, back yields in reverse,       *)
(* exact len, each unit exactly once, splits partition the remainder.         *)
EXTENDS Naturals, Integers, Sequences, FiniteSets

CONSTANTS N,      \* number of units
          C,      \* chunk size
          MaxOps  \* bound on history length (model checking only)

VARIABLES lo, hi,     \* remaining units are lo..hi-1 (0-based)
          front,      \* sequence of unit ranges <<a, b>> yielded from the front
          back,       \* sequence of unit ranges yielded from the back
          hist,       \* history of operations (for behaviour generation)
          done

vars == <<lo, hi, front, back, hist, done>>

Min(a, b) == IF a < b THEN a ELSE b
Max(a, b) == IF a > b THEN a ELSE b

\* ---- pure contract functions, shared with the trace spec ----
LenOf(l, h, c) == (h - l + c - 1) \div c            \* exact number of remaining yields
FrontEnd(l, h, c) == Min(l + c, h)                  \* next yields units l..FrontEnd-1
BackStart(l, h, c) == Max(l, h - c)                 \* next_back yields BackStart..h-1
Skip(l, h, c, n) == Min(l + n * c, h)               \* front cursor after discarding n yields
SplitPoint(l, h, c, k) == Min(l + k * c, h)         \* unit index where split_at(k) cuts

Init == /\ lo = 0 /\ hi = N /\ front = <<>> /\ back = <<>> /\ hist = <<>> /\ done = FALSE

Next_ == /\ ~done /\ Len(hist) < MaxOps
         /\ IF lo < hi THEN front' = Append(front, <<lo, FrontEnd(lo, hi, C)>>) ELSE front' = front
         /\ lo' = FrontEnd(lo, hi, C)
         /\ hist' = Append(hist, [op |-> "next"])
         /\ UNCHANGED <<hi, back, done>>

NextBack == /\ ~done /\ Len(hist) < MaxOps
            /\ IF lo < hi THEN back' = Append(back, <<BackStart(lo, hi, C), hi>>) ELSE back' = back
            /\ hi' = BackStart(lo, hi, C)
            /\ hist' = Append(hist, [op |-> "back"])
            /\ UNCHANGED <<lo, front, done>>

Nth(n) == /\ ~done /\ Len(hist) < MaxOps
          /\ LET s == Skip(lo, hi, C, n) IN
             \* skipped yields count as yielded from the front (they are consumed)
             /\ front' = IF s < hi THEN Append(Append(front, <<lo, s>>), <<s, FrontEnd(s, hi, C)>>)
                         ELSE Append(front, <<lo, s>>)
             /\ lo' = FrontEnd(s, hi, C)
          /\ hist' = Append(hist, [op |-> "nth", n |-> n])
          /\ UNCHANGED <<hi, back, done>>

\* split_at(k): keep one half, the other half is drained at once (and therefore yielded).
Split(k, keep) ==
  /\ ~done /\ Len(hist) < MaxOps /\ k <= LenOf(lo, hi, C)
  /\ LET m == SplitPoint(lo, hi, C, k) IN
       IF keep = "L"
       THEN /\ hi' = m /\ back' = Append(back, <<m, hi>>) /\ UNCHANGED <<lo, front>>
       ELSE /\ lo' = m /\ front' = Append(front, <<lo, m>>) /\ UNCHANGED <<hi, back>>
  /\ hist' = Append(hist, [op |-> "split", k |-> k, keep |-> keep])
  /\ UNCHANGED done

Terminal(t) == /\ ~done
               /\ front' = Append(front, <<lo, hi>>) /\ lo' = hi
               /\ hist' = Append(hist, [op |-> t])
               /\ done' = TRUE
               /\ UNCHANGED <<hi, back>>

Next == \/ Next_ \/ NextBack
        \/ \E n \in 0..2 : Nth(n)
        \/ \E k \in 0..N, keep \in {"L", "R"} : Split(k, keep)
        \/ \E t \in {"fold", "rdrain", "par", "drain"} : Terminal(t)

Spec == Init /\ [][Next]_vars

\* ---- properties of the contract itself ----
RECURSIVE Tiles(_, _)
\* the ranges in s are contiguous starting at a; returns the end (or -1)
Tiles(s, a) == IF s = <<>> THEN a
               ELSE IF Head(s)[1] = a /\ Head(s)[2] >= a THEN Tiles(Tail(s), Head(s)[2]) ELSE 0 - 1
Rev(s) == [i \in 1..Len(s) |-> s[Len(s) + 1 - i]]

\* front yields, then the remainder, then the back yields reversed tile 0..N exactly once.
Partition == /\ Tiles(front, 0) = lo
             /\ Tiles(Rev(back), hi) = N
             /\ 0 <= lo /\ lo <= hi /\ hi <= N
\* exact remaining length never negative and zero iff exhausted
LenExact == LenOf(lo, hi, C) >= 0 /\ (LenOf(lo, hi, C) = 0 <=> lo = hi)
AllConsumedWhenDone == done => lo = hi
=============================================================================
