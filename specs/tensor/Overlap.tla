------------------------------ MODULE Overlap ------------------------------
(* C08 - the overlap check never admits aliasing layouts.                    *)
(*                                                                          *)
(* CONTRACT (direct formalisation of the property statement):               *)
(*   accepted-as-non-overlapping(shape, strides)  =>  Injective(shape,      *)
(*   strides): no two distinct valid indices map to the same storage offset, *)
(*   offsets taken as the true (unbounded) sums  SUM idx[i]*strides[i];      *)
(*   and every layout derived from a contiguous layout by slicing,           *)
(*   permuting or reshaping is accepted.                                     *)
(*                                                                          *)
(* IMPLEMENTATION-SHAPED part: MayOverlapImpl* transcribe                    *)
(* rten-tensor/src/overlap.rs (is_contiguous, may_have_internal_overlap),    *)
(* once over TLC integers with an optional word size M (M = 0: exact          *)
(* arithmetic; M = 2^k: a k-bit usize), once over Word limbs (64-bit usize).   *)
(* The arithmetic MODE is                                                      *)
(*   "exact"    unbounded integers (the mathematics of the criterion),         *)
(*   "checked"  the CURRENT code: checked_mul / checked_add; an overflowing    *)
(*              running product makes is_contiguous return false, an            *)
(*              overflowing max_offset makes may_have_internal_overlap return    *)
(*              true (repaired in /repo commit "fix: overlap and contiguity      *)
(*              checks accepted aliasing layouts when arithmetic overflowed"),   *)
(*   "wrap"     the code BEFORE that repair (wrapping release-mode arithmetic); *)
(*              kept to generate wrap-around boundary inputs and to name a       *)
(*              regression ("..._wrapped") should it reappear.                   *)
EXTENDS Layout, Word, TLC

\* ------------------------------------------------------------------ ints
\* Injective (Layout.tla) is the contract.  InjectiveFast decides the same
\* thing by building the offset set one dimension at a time (native set
\* comprehensions instead of one recursive Unravel/Dot per index, ~20x faster in
\* TLC); MC_Overlap checks  InjectiveFast = Injective  on its whole space.
RECURSIVE OffSetR(_, _, _)
OffSetR(shape, strides, i) ==
  IF i = 0 THEN {0}
  ELSE {s + j * strides[i] : s \in OffSetR(shape, strides, i - 1), j \in 0..(shape[i] - 1)}
InjectiveFast(shape, strides) ==
  Cardinality(OffSetR(shape, strides, Len(shape))) = Prod(shape)

Wm(x, M) == IF M = 0 THEN x ELSE x % M
\* does x overflow a usize of size M (never in exact arithmetic)
OvM(x, M) == M # 0 /\ x >= M

\* is_contiguous: walk dims from the innermost, skipping size-1 dims; `product` is the
\* running product of the inner sizes (-1 stands for None = overflowed, mode "checked").
RECURSIVE ContigR(_, _, _, _, _, _)
ContigR(shape, strides, i, product, M, mode) ==
  IF i = 0 THEN TRUE
  ELSE IF shape[i] = 1 THEN ContigR(shape, strides, i - 1, product, M, mode)
  ELSE IF product < 0 \/ strides[i] # product THEN FALSE
  ELSE ContigR(shape, strides, i - 1,
               IF mode = "checked" /\ OvM(product * shape[i], M) THEN 0 - 1
               ELSE IF mode = "wrap" THEN Wm(product * shape[i], M) ELSE product * shape[i],
               M, mode)
IsContiguousImpl(shape, strides, M, mode) == ContigR(shape, strides, Len(shape), 1, M, mode)

\* (stride, size) pairs of the dims with size # 1, sorted ascending
\* lexicographically (sort_unstable on tuples).
PairLe(p, q) == p[1] < q[1] \/ (p[1] = q[1] /\ p[2] <= q[2])
RECURSIVE InsertPair(_, _)
InsertPair(p, s) == IF s = <<>> THEN <<p>>
                    ELSE IF PairLe(p, Head(s)) THEN <<p>> \o s
                    ELSE <<Head(s)>> \o InsertPair(p, Tail(s))
RECURSIVE SortedPairsR(_, _, _)
SortedPairsR(shape, strides, i) ==
  IF i = 0 THEN <<>>
  ELSE IF shape[i] = 1 THEN SortedPairsR(shape, strides, i - 1)
  ELSE InsertPair(<<strides[i], shape[i]>>, SortedPairsR(shape, strides, i - 1))
SortedPairs(shape, strides) == SortedPairsR(shape, strides, Len(shape))

\* the step-over loop on the usize `max_offset`
RECURSIVE StepOverR(_, _, _, _)
StepOverR(pairs, maxOff, M, mode) ==
  IF pairs = <<>> THEN FALSE
  ELSE LET stride == Head(pairs)[1]  size == Head(pairs)[2]
           term == (size - 1) * stride IN
       IF stride <= maxOff THEN TRUE
       ELSE IF mode = "checked" /\ (OvM(term, M) \/ OvM(maxOff + term, M)) THEN TRUE   \* overflow => may overlap
       ELSE StepOverR(Tail(pairs),
                      IF mode = "wrap" THEN Wm(maxOff + Wm(term, M), M) ELSE maxOff + term, M, mode)

\* may_have_internal_overlap.  `scaled` = TRUE models strides that are
\* multiples of 2^(64-k): the contiguous fast path then only fires when the
\* strides of all non-unit dims equal the (unscaled) products, which for
\* scaled strides happens only if there is no non-unit dim.
MayOverlapImplM(shape, strides, M, scaled, mode) ==
  IF IsEmpty(shape) THEN FALSE
  ELSE IF (IF scaled THEN \A i \in DOMAIN shape : shape[i] = 1
           ELSE IsContiguousImpl(shape, strides, M, mode)) THEN FALSE
  ELSE StepOverR(SortedPairs(shape, strides), 0, M, mode)

MayOverlapImpl(shape, strides) == MayOverlapImplM(shape, strides, 0, FALSE, "exact")

\* ----------------------------------------------------------------- Words
\* The same transcription over Word limbs for the 64-bit usize; mode as above.
Ww(x, mode) == IF mode = "wrap" THEN Wrap64(x) ELSE x
OvW(x, mode) == mode = "checked" /\ ~Fits64(x)
WNone == <<0 - 1>>          \* not a Word: the overflowed (None) running product

RECURSIVE ContigWR(_, _, _, _, _)
ContigWR(shape, strides, i, product, mode) ==
  IF i = 0 THEN TRUE
  ELSE IF shape[i] = WOne THEN ContigWR(shape, strides, i - 1, product, mode)
  ELSE IF product = WNone \/ strides[i] # product THEN FALSE
  ELSE LET p == WMul(product, shape[i]) IN
       ContigWR(shape, strides, i - 1, IF OvW(p, mode) THEN WNone ELSE Ww(p, mode), mode)
IsContiguousImplW(shape, strides, mode) == ContigWR(shape, strides, Len(shape), WOne, mode)

PairLeW(p, q) == WLt(p[1], q[1]) \/ (p[1] = q[1] /\ WLe(p[2], q[2]))
RECURSIVE InsertPairW(_, _)
InsertPairW(p, s) == IF s = <<>> THEN <<p>>
                     ELSE IF PairLeW(p, Head(s)) THEN <<p>> \o s
                     ELSE <<Head(s)>> \o InsertPairW(p, Tail(s))
RECURSIVE SortedPairsWR(_, _, _)
SortedPairsWR(shape, strides, i) ==
  IF i = 0 THEN <<>>
  ELSE IF shape[i] = WOne THEN SortedPairsWR(shape, strides, i - 1)
  ELSE InsertPairW(<<strides[i], shape[i]>>, SortedPairsWR(shape, strides, i - 1))
SortedPairsW(shape, strides) == SortedPairsWR(shape, strides, Len(shape))

RECURSIVE StepOverWR(_, _, _)
StepOverWR(pairs, maxOff, mode) ==
  IF pairs = <<>> THEN FALSE
  ELSE LET stride == Head(pairs)[1]  size == Head(pairs)[2]
           term == WMul(WSub(size, WOne), stride) IN
       IF WLe(stride, maxOff) THEN TRUE
       ELSE IF OvW(term, mode) \/ OvW(WAdd(maxOff, term), mode) THEN TRUE
       ELSE StepOverWR(Tail(pairs), Ww(WAdd(maxOff, Ww(term, mode)), mode), mode)

IsEmptyW(shape) == \E i \in DOMAIN shape : shape[i] = WZero

MayOverlapImplW(shape, strides, mode) ==
  IF IsEmptyW(shape) THEN FALSE
  ELSE IF IsContiguousImplW(shape, strides, mode) THEN FALSE
  ELSE StepOverWR(SortedPairsW(shape, strides), WZero, mode)

\* --------------------------------------------- injectivity of Word layouts
\* Exact decision by enumeration when the shape is small; otherwise a sound
\* three-valued answer: "no" needs an explicit pair of colliding indices,
\* "yes" needs the step-over criterion in exact arithmetic (whose soundness
\* is what MC_Overlap checks); anything else is "unknown" and never flagged.
RECURSIVE DotW(_, _)
DotW(idx, stridesW) ==
  IF idx = <<>> THEN WZero
  ELSE WAdd(WMulLimb(Head(stridesW), Head(idx)), DotW(Tail(idx), Tail(stridesW)))
\* idx components are small ints (< 2^15) here.
OffsetSetW(shape, stridesW) == {DotW(i, stridesW) : i \in Indices(shape)}
RECURSIVE OffSetWR(_, _, _)
OffSetWR(shape, stridesW, i) ==
  IF i = 0 THEN {WZero}
  ELSE {WAdd(s, WMulLimb(stridesW[i], j)) : s \in OffSetWR(shape, stridesW, i - 1), j \in 0..(shape[i] - 1)}
InjectiveSmallW(shape, stridesW) == Cardinality(OffSetWR(shape, stridesW, Len(shape))) = Prod(shape)
InjectiveSmallWRef(shape, stridesW) == Cardinality(OffsetSetW(shape, stridesW)) = Prod(shape)

EnumLimit == 4096
SmallShapeW(shapeW) ==
  /\ \A i \in DOMAIN shapeW : Len(shapeW[i]) <= 1
  /\ WLe(WProd(shapeW), FromNat(EnumLimit))

\* a colliding pair of valid indices exists for certain
CollisionWitnessW(shapeW, stridesW) ==
  LET nonunit == {i \in DOMAIN shapeW : WLt(WOne, shapeW[i])} IN
  \/ \E i \in nonunit : stridesW[i] = WZero                       \* 0 and e_i
  \/ \E i, j \in nonunit : i # j /\ stridesW[i] = stridesW[j]    \* e_i and e_j
  \/ \E i, j \in nonunit : \E m \in 2..8 :                         \* e_i and m*e_j
        i # j /\ WLt(FromNat(m), shapeW[j]) /\ stridesW[i] = WMulLimb(stridesW[j], m)

\* Injectivity is invariant under scaling all strides by a constant c > 0.
\* Dropping the low limbs that are zero in every stride divides by 2^(15 z);
\* when the reduced strides are small the int decision procedure applies.
LowZeros(w) == IF w = <<>> THEN 99
               ELSE LET nz == {i \in 1..Len(w) : w[i] # 0} IN
                    (CHOOSE i \in nz : \A j \in nz : i <= j) - 1
MinOfSet(S) == CHOOSE x \in S : \A y \in S : x <= y
CommonShift(stridesW) ==
  IF stridesW = <<>> THEN 0
  ELSE LET z == MinOfSet({LowZeros(stridesW[i]) : i \in 1..Len(stridesW)}) IN IF z = 99 THEN 0 ELSE z
DropLimbs(w, z) == IF w = <<>> THEN w ELSE SubSeq(w, z + 1, Len(w))

InjectiveW(shapeW, stridesW) ==
  IF IsEmptyW(shapeW) THEN "yes"
  ELSE IF SmallShapeW(shapeW)
       THEN LET z == CommonShift(stridesW)
                red == [i \in 1..Len(stridesW) |-> DropLimbs(stridesW[i], z)]
            IN IF WAllSmall(red)
               THEN (IF InjectiveFast(NatSeq(shapeW), NatSeq(red)) THEN "yes" ELSE "no")
               ELSE (IF InjectiveSmallW(NatSeq(shapeW), stridesW) THEN "yes" ELSE "no")
  ELSE IF CollisionWitnessW(shapeW, stridesW) THEN "no"
  ELSE IF ~MayOverlapImplW(shapeW, stridesW, "exact") THEN "yes"
  ELSE "unknown"
\* reference (no scaling shortcut), compared with InjectiveW by MC_Overlap
InjectiveWRef(shapeW, stridesW) ==
  IF IsEmptyW(shapeW) THEN "yes"
  ELSE IF InjectiveSmallW(NatSeq(shapeW), stridesW) THEN "yes" ELSE "no"
=============================================================================
