\* small: rank<=3 sizes 0..3 strides 0..5; wrap: 3-bit usize; derived closure depth 2; huge: rank<=2 grid + seeds
CONSTANTS MaxRank = 3  MaxSize = 3  MaxStride = 5  K = 3  Depth = 2  Tier = "quick"  AgreeRank = 2
INIT Init
NEXT Next
INVARIANTS InvSmall InvWrap InvDerived InvHuge Emit
CHECK_DEADLOCK FALSE
