CONSTANTS MaxRank = 3  MaxSize = 3  MaxOps = 4  FrontAware = FALSE
INIT Init
NEXT Next
INVARIANTS YieldsMatchContract LenExact CursorIsFront
CHECK_DEADLOCK FALSE
