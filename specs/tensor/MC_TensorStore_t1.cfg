CONSTANTS MaxRank = 3  MaxSize = 3  MaxOps = 1
INIT Init
NEXT Next
INVARIANTS Refines ModelTotal FastIsRef AppendFastIsRef
CHECK_DEADLOCK FALSE
