\* small: rank<=3 sizes 0..3 strides 0..9; wrap: 4-bit usize; derived closure depth 3; huge: larger grid
CONSTANTS MaxRank = 3  MaxSize = 3  MaxStride = 9  K = 4  Depth = 3  Tier = "thorough"  AgreeRank = 3
INIT Init
NEXT Next
INVARIANTS InvSmall InvWrap InvDerived InvHuge Emit
CHECK_DEADLOCK FALSE
