--------------------------- MODULE MC_TensorStore ---------------------------
(* Model checking and chain generation for C09.                                *)
(* State: a concrete tensor (storage + layout, operated on by the LayoutOps      *)
(* transcription of rten's stride arithmetic) and, in lockstep, the abstract      *)
(* tensor `a` (operated on by the TensorStore reference model).  From every       *)
(* contiguous tensor of rank <= MaxRank, sizes 0..MaxSize, all chains of MaxOps    *)
(* operations drawn from Menu are explored.                                        *)
(* Invariants:                                                                     *)
(*   Refines     Abs(storage, lay) = a      (the transcription refines the model)  *)
(*   ModelTotal  the code-shaped acceptance test OpOkL implies AbsOk, and the      *)
(*               model is defined but the transcription rejects only where rten     *)
(*               documents an error (strict slicing, view-reshape of a              *)
(*               non-contiguous tensor)                                             *)
(*   FastIsRef   the fast evaluation of every abstract operation equals its         *)
(*               index-by-index definition                                          *)
(* Every complete chain is emitted for replay on real tensors.                      *)
EXTENDS TensorStore, Json

CONSTANTS MaxRank, MaxSize, MaxOps

VARIABLES shape0, storage, lay, a, hist
vars == <<shape0, storage, lay, a, hist>>

Op(name, items, args) == [op |-> name, items |-> items, args |-> args]
Pre(d) == [j \in 1..(d - 1) |-> FullRange]

\* operations offered in a state whose abstract tensor is t (valid and invalid arguments)
Menu(t) ==
  LET r == ARank(t) IN
  UNION {
    LET n == t.shape[d] IN
    {Op("slice", Append(Pre(d), it), <<>>) :
       it \in {RngItem(1, n, 1), RngItem(0, 0 - 1, 1), RngItem(0 - 2, n, 1), RngItem(0, n, 2), RngItem(1, n, 3),
               RngItem(1, n + 1, 1), RngFrom(n - 1, 0 - 1), RngFrom(1, 2), RngItem(2, 1, 1),
               IdxItem(0), IdxItem(0 - 1), IdxItem(n)}}
    \cup {Op("slice_copy", Append(Pre(d), it), <<>>) :
       it \in {RngFrom(n - 1, 0 - 1), RngItem(0 - 1, 0 - n - 2, 0 - 2), RngItem(0 - 5, n + 3, 1), RngFrom(0, 2), IdxItem(0 - 1), IdxItem(n)}}
    \cup {Op("index_axis", <<>>, <<d - 1, i>>) : i \in {x \in {0, n - 1, n} : x >= 0}}
    \cup {Op("slice_axis", <<>>, <<d - 1, x, y>>) : x \in {0, 1}, y \in {n - 1, n, n + 1}}
    \cup {Op(s, <<>>, <<d - 1, m>>) : s \in {"split_left", "split_right"}, m \in {0, 1, n + 1} }
    \cup {Op("clip_dim", <<>>, <<d - 1, 1, n>>), Op("clip_dim", <<>>, <<d - 1, 0, n - 1>>)}
    \cup {Op("append", <<>>, <<d - 1, 1, 0>>), Op("append", <<>>, <<d - 1, 2, 1>>), Op("append_over", <<>>, <<d - 1, 1, 0>>)}
    \cup {Op("move_axis", <<>>, <<d - 1, 0>>), Op("move_axis", <<>>, <<0, d - 1>>), Op("remove_axis", <<>>, <<d - 1>>)}
    : d \in 1..r}
  \cup {Op("permute", <<>>, p) : p \in Perms(r)}
  \cup {Op("permute", <<>>, [i \in 1..r |-> 0]), Op("transpose", <<>>, <<>>), Op("move_axis", <<>>, <<0, r>>)}
  \cup {Op("broadcast", <<>>, <<2>> \o t.shape),
        Op("broadcast", <<>>, [i \in 1..r |-> IF t.shape[i] = 1 THEN 3 ELSE t.shape[i]]),
        Op("broadcast", <<>>, [i \in 1..r |-> t.shape[i] + 1])}
  \cup {Op("reshape", <<>>, <<Prod(t.shape)>>), Op("reshape", <<>>, <<Prod(t.shape), 1>>),
        Op("reshape", <<>>, <<1, Prod(t.shape) + 1>>), Op("reshape_view", <<>>, <<Prod(t.shape)>>),
        Op("reshape_owned", <<>>, <<1, Prod(t.shape)>>)}
  \cup {Op("squeeze", <<>>, <<>>), Op("merge_axes", <<>>, <<>>), Op("insert_axis", <<>>, <<0>>),
        Op("insert_axis", <<>>, <<r>>), Op("insert_axis", <<>>, <<r + 1>>)}
  \cup {Op(s, <<>>, <<>>) : s \in {"to_contiguous", "to_tensor", "map", "to_vec", "iter", "copy_into_slice", "make_contiguous"}}

\* ops whose concrete effect is modelled by the LayoutOps transcription on the same storage
IsViewOp(o) == o.op \in ViewOps
Observers == {"to_vec", "iter", "copy_into_slice"}
\* rten documents an error here (beyond StrictErr): view-reshape of a non-contiguous tensor
DocumentedErr(t, l, o) == StrictErr(t, o) \/ (o.op = "reshape_view" /\ ~IsContiguousL(l))

Init ==
  /\ \E r \in 0..MaxRank : \E sh \in [1..r -> 0..MaxSize] :
       /\ shape0 = sh /\ lay = ContigL(sh) /\ a = Iota(sh)
       /\ storage = Iota(sh).data
  /\ hist = <<>>

Step(o) ==
  /\ hist' = Append(hist, o)
  /\ UNCHANGED shape0
  /\ IF IsViewOp(o)
     THEN IF OpOkL(lay, o)
          THEN /\ lay' = ApplyOpL(lay, o) /\ UNCHANGED storage
               /\ a' = IF o.op = "merge_axes" THEN T(ApplyOpL(lay, o).shape, a.data) ELSE AbsOp(a, o)
          ELSE UNCHANGED <<lay, storage, a>>               \* rejected: nothing changes
     ELSE IF o.op \in Observers THEN UNCHANGED <<lay, storage, a>>
     ELSE IF o.op \in {"append", "append_over"}
          THEN LET oth == T(SetAt(a.shape, A(o, 1) + 1, A(o, 2)),
                            [k \in 1..Prod(SetAt(a.shape, A(o, 1) + 1, A(o, 2))) |-> 100000 + k - 1])
                   t2 == AAppend(a, oth, A(o, 1))
               IN a' = t2 /\ storage' = t2.data /\ lay' = ContigL(t2.shape)
     ELSE IF AbsOk(a, o)                                      \* copying operations: fresh contiguous storage
          THEN LET t2 == AbsOp(a, o) IN a' = t2 /\ storage' = t2.data /\ lay' = ContigL(t2.shape)
          ELSE UNCHANGED <<lay, storage, a>>

Next == Len(hist) < MaxOps /\ \E o \in Menu(a) : Step(o)

Refines == Abs(storage, lay) = a
ModelTotal ==
  \A o \in {x \in Menu(a) : IsViewOp(x)} :
    /\ OpOkL(lay, o) => AbsOk(a, o)
    /\ (AbsOk(a, o) /\ ~OpOkL(lay, o)) => DocumentedErr(a, lay, o)
    /\ (o.op = "merge_axes") => IsMergeOf(ApplyOpL(lay, o).shape, a.shape)
FastIsRef ==
  \A o \in {x \in Menu(a) : x.op \in GatherOps /\ AbsOk(a, x)} : AbsOp(a, o) = AbsOpRef(a, o)
AppendFastIsRef ==
  \A d \in 1..ARank(a) : AAppend(a, AMap(a), d - 1) = AAppendRef(a, AMap(a), d - 1)

Emit == (Len(hist) = MaxOps) => PrintT(<<"REPLAY", ToJson([shape |-> shape0, ops |-> hist])>>)
=============================================================================
