\* all chains of two operations on tensors of rank<=2, sizes 0..3
CONSTANTS MaxRank = 2  MaxSize = 3  MaxOps = 2
INIT Init
NEXT Next
INVARIANTS Refines ModelTotal FastIsRef
CHECK_DEADLOCK FALSE
