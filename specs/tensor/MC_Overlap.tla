----------------------------- MODULE MC_Overlap -----------------------------
(* Model checking and test-vector generation for C08.  One module, four      *)
(* sub-models distinguished by the variable `mode` and explored in ONE TLC     *)
(* run (a single seed state fans out into per-shape buckets and then into the    *)
(* layouts of each sub-model; every invariant is guarded by its mode):           *)
(*  small   every layout of rank <= MaxRank, sizes 0..MaxSize, strides        *)
(*          0..MaxStride: TLC checks  ~MayOverlapImpl => Injective  (exact     *)
(*          arithmetic) and that the int and Word transcriptions agree; every  *)
(*          layout is emitted for replay on the real code.                     *)
(*  wrap    the same criterion on a machine whose usize has K bits, strides    *)
(*          0..2^K-1: with CHECKED arithmetic (the current code) acceptance    *)
(*          implies injectivity; with WRAPPING arithmetic (the code before the  *)
(*          repair) TLC emits every layout that was accepted although it is not  *)
(*          injective and every layout on which wrapping changes the verdict     *)
(*          (boundary inputs, scaled to 64 bits: stride * 2^(64-K)).             *)
(*  derived closure of contiguous layouts under slice / step / index /        *)
(*          permute / insert-axis / squeeze / merge-axes (LayoutOps): TLC      *)
(*          checks each is accepted by the criterion and injective; emitted.   *)
(*  huge    grid of 64-bit corner values for sizes and strides, emitted.       *)
EXTENDS Overlap, LayoutOps, Json

CONSTANTS MaxRank, MaxSize, MaxStride, K, Depth, Tier,
          AgreeRank   \* the (expensive) cross-checks of the transcriptions run on layouts of rank <= AgreeRank

VARIABLES lay, depth, mode
vars == <<lay, depth, mode>>

\* ------------------------------------------------------------------ small
\* (TLC evaluates initial states and their invariants in ONE thread; the spaces are therefore
\* reached in two steps from a single seed state - seed -> one bucket per shape -> the layouts
\* of that shape - so that all workers share the work.)
ShapesSmall == UNION {[1..r -> 0..MaxSize] : r \in 0..MaxRank}
StridesSmall(r) == [1..r -> 0..MaxStride]

Sound == ~MayOverlapImpl(lay.shape, lay.strides) => Injective(lay.shape, lay.strides)
\* all transcriptions (int; Word exact / checked / wrapping) agree where no overflow can occur
AgreeW ==
  LET a == MayOverlapImpl(lay.shape, lay.strides) IN
  /\ a = MayOverlapImplW(WSeq(lay.shape), WSeq(lay.strides), "exact")
  /\ a = MayOverlapImplW(WSeq(lay.shape), WSeq(lay.strides), "checked")
  /\ a = MayOverlapImplW(WSeq(lay.shape), WSeq(lay.strides), "wrap")
  /\ InjectiveW(WSeq(lay.shape), WSeq(lay.strides))
       = (IF Injective(lay.shape, lay.strides) THEN "yes" ELSE "no")
  /\ InjectiveFast(lay.shape, lay.strides) = Injective(lay.shape, lay.strides)
  /\ InjectiveSmallWRef(lay.shape, WSeq(lay.strides)) = Injective(lay.shape, lay.strides)
EmitSmall == PrintT(<<"REPLAY", ToJson([class |-> "small", shape |-> lay.shape, strides |-> lay.strides])>>)

\* ------------------------------------------------------------------- wrap
M == 2 ^ K
ShapesWrap == UNION {[1..r -> 0..MaxSize] : r \in 1..MaxRank}
StridesWrap(r) == [1..r -> 0..(M - 1)]
\* the code before the repair (wrapping), the current code (checked) and exact arithmetic
WrapAccepts == ~MayOverlapImplM(lay.shape, lay.strides, M, TRUE, "wrap")
CheckedAccepts == ~MayOverlapImplM(lay.shape, lay.strides, M, TRUE, "checked")
ExactAccepts == ~MayOverlapImplM(lay.shape, lay.strides, 0, TRUE, "exact")
Candidate == WrapAccepts /\ ~Injective(lay.shape, lay.strides)
Scale == WPow2(64 - K)
EmitWrap ==
  (Candidate \/ WrapAccepts # ExactAccepts) =>
    PrintT(<<"REPLAY", ToJson([class |-> (IF Candidate THEN "wrap_candidate" ELSE "wrap_sensitive"),
                               shapeW |-> WSeq(lay.shape),
                               stridesW |-> [i \in 1..Len(lay.strides) |-> WMul(FromNat(lay.strides[i]), Scale)]])>>)
\* exact arithmetic never accepts a non-injective layout in this space either,
\* and neither does the K-bit machine with CHECKED arithmetic (the repaired code)
SoundExactScaled == /\ ExactAccepts => Injective(lay.shape, lay.strides)
                    /\ CheckedAccepts => Injective(lay.shape, lay.strides)
                    /\ CheckedAccepts => ExactAccepts
\* the Word-level decision (with its scaling shortcut) agrees with the contract on the scaled layout
ScaledW == [i \in 1..Len(lay.strides) |-> WMul(FromNat(lay.strides[i]), Scale)]
InjWScaledOk ==
  InjectiveW(WSeq(lay.shape), ScaledW) = (IF Injective(lay.shape, lay.strides) THEN "yes" ELSE "no")
InjWRefOk ==
  InjectiveWRef(WSeq(lay.shape), ScaledW) = (IF Injective(lay.shape, lay.strides) THEN "yes" ELSE "no")
\* and the Word transcriptions of the criterion at 2^64 on the scaled strides are the K-bit int
\* transcriptions (wrapping and checked)
WrapAgree == /\ MayOverlapImplW(WSeq(lay.shape), ScaledW, "wrap") = ~WrapAccepts
             /\ MayOverlapImplW(WSeq(lay.shape), ScaledW, "checked") = ~CheckedAccepts

\* ---------------------------------------------------------------- derived
Norm(l) == [l EXCEPT !.base = 0]
SeedDerived ==
  /\ depth' = 0 /\ mode' = "derived"
  /\ \E r \in 0..MaxRank : \E sh \in [1..r -> 0..MaxSize] : lay' = ContigL(sh)

SliceOneDim(l) ==
  UNION {
    LET sz == l.shape[d]
        pre == [j \in 1..(d - 1) |-> FullRange]
    IN {SliceL(l, Append(pre, RngItem(a, b, s))) : a \in 0..sz, b \in 0..sz, s \in 1..3}
       \cup {SliceL(l, Append(pre, RngItem(0 - a, 0 - b, s))) : a \in 1..sz, b \in 1..sz, s \in 1..2}
       \cup {SliceL(l, Append(pre, IdxItem(i))) : i \in (0 - sz)..(sz - 1)}
    : d \in 1..Rank(l)}

DeriveSet(l) ==
  {PermuteL(l, p) : p \in Perms(Rank(l))}
  \cup SliceOneDim(l)
  \cup (IF Rank(l) < MaxRank + 1 THEN {InsertAxisL(l, d) : d \in 0..Rank(l)} ELSE {})
  \cup {MergeAxesL(l), SqueezeL(l), TransposeL(l)}

NextDerived ==
  /\ mode = "derived" /\ UNCHANGED mode
  /\ depth < Depth
  /\ depth' = depth + 1
  /\ \E l2 \in DeriveSet(lay) : lay' = Norm(l2)

\* completeness of the criterion on the closure, and sanity of the closure itself
Complete == ~MayOverlapImpl(lay.shape, lay.strides)
DerivedInjective == Injective(lay.shape, lay.strides)
EmitDerived == PrintT(<<"REPLAY", ToJson([class |-> "derived", shape |-> lay.shape, strides |-> lay.strides])>>)

\* ------------------------------------------------------------------- huge
P32 == WPow2(32)
P63 == WPow2(63)
Third == <<21846, 10922, 21845, 10922, 5>>      \* ceil(2^64 / 3) = 0x5555555555555556
HugeSizesQ == {WOne, FromNat(2), FromNat(3), P32, P63}
HugeStridesQ == {WZero, WOne, FromNat(2), P32, P63, WMax64}
HugeSizesT == {WOne, FromNat(2), FromNat(3), FromNat(5), P32, WAdd(P32, WOne), P63, WMax64}
HugeStridesT == {WZero, WOne, FromNat(2), FromNat(3), P32, P63, WAdd(P63, WOne), Third, WMax64}
\* hand-picked rank-3 seeds: the running product in is_contiguous wraps to 0
\* (2 * 2^63 and 2^32 * 2^32), so a stride-0 outer dim looks contiguous
HugeSeeds == {[shape |-> <<FromNat(2), P63, FromNat(2)>>, strides |-> <<WZero, FromNat(2), WOne>>],
              [shape |-> <<FromNat(3), P32, P32>>, strides |-> <<WZero, P32, WOne>>],
              [shape |-> <<FromNat(3), FromNat(5)>>, strides |-> <<P63, P63>>]}
\* quick: rank <= 2 over the Q sets + seeds; thorough: rank <= 2 over the T sets, rank 3 over the Q sets + seeds
HugeShapes ==
  UNION {[1..r -> (IF Tier = "quick" THEN HugeSizesQ ELSE HugeSizesT)] : r \in 1..2}
  \cup (IF Tier = "quick" THEN {} ELSE [1..3 -> HugeSizesQ])
HugeStridesFor(sh) ==
  IF Len(sh) = 3 THEN [1..3 -> HugeStridesQ]
  ELSE [1..Len(sh) -> (IF Tier = "quick" THEN HugeStridesQ ELSE HugeStridesT)]
EmitHuge == PrintT(<<"REPLAY", ToJson([class |-> "huge", shapeW |-> lay.shape, stridesW |-> lay.strides])>>)
ThirdOk == WMul(Third, FromNat(3)) = WAdd(W2p64, FromNat(2))

\* -------------------------------------------------------- the combined model
Init == mode = "seed" /\ depth = 0 /\ lay = <<>>
NextSeed ==
  /\ mode = "seed"
  /\ \/ SeedDerived
     \/ /\ mode' = "huge" /\ depth' = 0 /\ lay' \in HugeSeeds
     \/ /\ mode' = "bucket" /\ depth' = 0
        /\ \/ \E sh \in ShapesSmall : lay' = [target |-> "small", shape |-> sh]
           \/ \E sh \in ShapesWrap : lay' = [target |-> "wrap", shape |-> sh]
           \/ \E sh \in HugeShapes : lay' = [target |-> "huge", shape |-> sh]
NextBucket ==
  /\ mode = "bucket" /\ mode' = lay.target /\ UNCHANGED depth
  /\ LET r == Len(lay.shape) IN
     \E st \in (CASE lay.target = "small" -> StridesSmall(r)
                  [] lay.target = "wrap" -> StridesWrap(r)
                  [] lay.target = "huge" -> HugeStridesFor(lay.shape)) :
        lay' = [shape |-> lay.shape, strides |-> st]
Next == NextSeed \/ NextBucket \/ NextDerived
LowRank == Len(lay.shape) <= AgreeRank
InvSmall == mode = "small" => (Sound /\ (LowRank => AgreeW))
InvWrap == mode = "wrap" => (SoundExactScaled /\ (LowRank => (InjWScaledOk /\ InjWRefOk /\ WrapAgree)))
InvDerived == mode = "derived" => (Complete /\ DerivedInjective)
InvHuge == mode = "huge" => ThirdOk
Emit == CASE mode = "small" -> EmitSmall
          [] mode = "wrap" -> EmitWrap
          [] mode = "derived" -> EmitDerived
          [] mode = "huge" -> EmitHuge
          [] mode \in {"seed", "bucket"} -> TRUE
=============================================================================
