CONSTANTS N = 6  C = 1  MaxOps = 3
INIT Init
NEXT Next
INVARIANTS Partition LenExact AllConsumedWhenDone Emit
CHECK_DEADLOCK FALSE
