------------------------------ MODULE Trace_Grow ------------------------------
(* Trace validation for C06, growth of OWNED (Vec-backed, mutable) tensors in     *)
(* place.  A `case` record carries `grows`: for one source layout, every attempt   *)
(* to grow an axis by `extra` through has_capacity / append (routes: from_data,     *)
(* from_data_with_strides with tied / huge strides on size-0 and size-1 axes,        *)
(* with_capacity + append, concat), with the Vec capacity below / at / above the      *)
(* grown layout's true extent.  Each attempt logs the layout before, what             *)
(* has_capacity answered, what append returned, the shape / strides / storage          *)
(* length of the RESULT and the address offsets (relative to the data pointer) of      *)
(* all `&mut` alive at once from iter_mut, axis_iter_mut and lanes_mut.                *)
(*                                                                                    *)
(* Contract predicates (C06: "no two live mutable references ever point to the same     *)
(* element"; growth builds a new layout over an existing mutable buffer), all decided   *)
(* here from the logged layouts in exact arithmetic over Word limbs:                     *)
(*   G_accept  has_capacity = TRUE  =>  the grown layout (same strides, axis size +        *)
(*             extra) is injective                                                        *)
(*   G_result  append returned Ok   =>  the result's layout is injective and its true        *)
(*             extent lies inside its storage                                              *)
(*   G_alias   the `&mut` handed out at once by iter_mut / axis_iter_mut / lanes_mut on      *)
(*             the result are pairwise distinct and inside the storage                       *)
(* DRIFT (exit 0): has_capacity / append differ from the transcription of                   *)
(* expanded_layout (AcceptGrowW, checked arithmetic), the result is not the grown layout, or  *)
(* the mutable iterators panic otherwise than transcribed: LanesMut::new and AxisIterMut::new  *)
(* assert !is_broadcast() (Layout::is_broadcast: non-empty and SOME stride is 0 - also when     *)
(* the zero stride belongs to a size-1 axis, e.g. from_data(&[1, 0], ..) has strides [0, 1]     *)
(* and still has them after growing axis 1), iter_mut has no such assertion.                    *)
EXTENDS TraceLib, Construct

VARIABLES l, nbad, ndrift, ncase, ngrow, nacc, nmut

e == Rec[l]
Init == l = 1 /\ nbad = NoBad /\ ndrift = NoBad /\ ncase = 0 /\ ngrow = 0 /\ nacc = 0 /\ nmut = 0

Drift(dr, ok, sig, rec) ==
  IF ok THEN dr
  ELSE IF sig \in DOMAIN dr THEN [dr EXCEPT ![sig] = @ + 1]
  ELSE Print(<<"DRIFTCASE", ToJson(sig), ToJson(rec)>>, dr @@ (sig :> 1))

RouteGroup(r) == IF r = "concat" THEN "concat"
                 ELSE IF r = "from_data" THEN "from_data"
                 ELSE IF SubSeq(r, 1, 13) = "with_capacity" THEN "with_capacity+append"
                 ELSE "from_data_with_strides"
Distinct(s) == Cardinality(Range(s)) = Len(s)
Inside(s, n) == \A i \in 1..Len(s) : s[i] >= 0 /\ s[i] < n
\* capacity is known exactly only where the harness allocated the Vec itself
CapKnown(g) == g.route = "from_data" \/ RouteGroup(g.route) = "from_data_with_strides"

\* All quantities of an attempt are small in almost every case: then the int definitions
\* (InjectiveFast, MinDataLen, MayOverlapImpl - no overflow possible) are used; otherwise Words.
SmallG(g) == WAllSmall(g.shapeW) /\ WAllSmall(g.stridesW) /\ WAllSmall(g.rshapeW) /\ WAllSmall(g.rstridesW)
GrownI(shape, axis, newSize) == [i \in 1..Len(shape) |-> IF i = axis + 1 THEN newSize ELSE shape[i]]
InjVerdict(b) == IF b THEN "yes" ELSE "no"

\* [grownInj, resultInj, resultSafe, want (with capacity), wantLayout (without)] for attempt g
Verdicts(g) ==
  IF SmallG(g)
  THEN LET sh == NatSeq(g.shapeW)  st == NatSeq(g.stridesW)
           gr == GrownI(sh, g.axis, sh[g.axis + 1] + g.extra)
           rsh == NatSeq(g.rshapeW)  rst == NatSeq(g.rstridesW)
           lay == ~MayOverlapImpl(gr, st)
       IN [grownInj |-> InjVerdict(InjectiveFast(gr, st)),
           resultInj |-> InjVerdict(InjectiveFast(rsh, rst)),
           resultSafe |-> Safe(rsh, rst, g.rlen),
           want |-> lay /\ MinDataLen(gr, st) <= g.cap,
           wantLayout |-> lay,
           resultIsGrown |-> rsh = gr /\ rst = st]
  ELSE LET newSize == WAdd(g.shapeW[g.axis + 1], FromNat(g.extra)) IN
       [grownInj |-> GrowInjectiveW(g.shapeW, g.stridesW, g.axis, newSize),
        resultInj |-> InjectiveW(g.rshapeW, g.rstridesW),
        resultSafe |-> SafeW(g.rshapeW, g.rstridesW, FromNat(g.rlen)),
        want |-> AcceptGrowW(g.shapeW, g.stridesW, g.axis, newSize, FromNat(g.cap), "checked"),
        wantLayout |-> AcceptGrowW(g.shapeW, g.stridesW, g.axis, newSize, W2p64, "checked"),
        resultIsGrown |-> g.rshapeW = GrownW(g.shapeW, g.axis, newSize) /\ g.rstridesW = g.stridesW]

JudgeOne(bad, g, v) ==
  LET ok == g.append = "ok"
      rec == [grow |-> g]
      sig(kind, api) == [kind |-> kind, api |-> api, route |-> RouteGroup(g.route)]
      \* G_accept
      b1 == IF g.has /\ g.route # "concat" /\ v.grownInj = "no"
            THEN Flag(bad, FALSE, sig("grown_layout_aliases", "has_capacity"), rec) ELSE bad
      \* G_result
      b2 == IF ok /\ v.resultInj = "no" THEN Flag(b1, FALSE, sig("result_layout_aliases", "append"), rec) ELSE b1
      b3 == IF ok /\ ~v.resultSafe THEN Flag(b2, FALSE, sig("result_exceeds_storage", "append"), rec) ELSE b2
      \* G_alias
      b4 == IF Distinct(g.iter_mut) /\ Inside(g.iter_mut, g.rlen) THEN b3
            ELSE Flag(b3, FALSE, sig("mut_alias", "iter_mut"), rec)
      b5 == IF Distinct(g.axis_iter_mut) /\ Inside(g.axis_iter_mut, g.rlen) THEN b4
            ELSE Flag(b4, FALSE, sig("mut_alias", "axis_iter_mut"), rec)
  IN IF Distinct(g.lanes_mut) /\ Inside(g.lanes_mut, g.rlen) THEN b5
     ELSE Flag(b5, FALSE, sig("mut_alias", "lanes_mut"), rec)

DriftOne(dr, g, v) ==
  IF g.route = "concat" THEN Drift(dr, g.append = "ok", [kind |-> "concat_failed"], [grow |-> g])
  ELSE
  LET rec == [grow |-> g]
      \* (routes whose Vec capacity the harness cannot read back are compared without the capacity term)
      d1 == IF CapKnown(g)
            THEN Drift(dr, g.has = v.want, [kind |-> "has_capacity", route |-> RouteGroup(g.route), transcription |-> v.want, real |-> g.has], rec)
            ELSE Drift(dr, g.has => v.wantLayout, [kind |-> "has_capacity", route |-> RouteGroup(g.route), transcription |-> v.wantLayout, real |-> g.has], rec)
      d2 == Drift(d1, (g.append = "ok") = g.has, [kind |-> "append_vs_has_capacity", route |-> RouteGroup(g.route), real |-> g.append], rec)
  IN IF g.append = "ok"
     THEN Drift(d2, v.resultIsGrown, [kind |-> "result_layout", route |-> RouteGroup(g.route)], rec)
     ELSE d2

\* Layout::is_broadcast as implemented
IsBroadcastImplW(shape, strides) == ~IsEmptyW(shape) /\ \E i \in DOMAIN strides : strides[i] = WZero
PanicDrift(dr, g) ==
  IF ~g.collected THEN dr
  ELSE LET b == IsBroadcastImplW(g.rshapeW, g.rstridesW) IN
       Drift(dr, g.mut_panics = <<FALSE, b, b>>,
             [kind |-> "mut_iterator_panic", route |-> RouteGroup(g.route), expected |-> <<FALSE, b, b>>, real |-> g.mut_panics], [grow |-> g])

\* the verdicts of every attempt are evaluated once (TLCEval) and shared by both folds
RECURSIVE JudgeAll(_, _, _, _)
JudgeAll(bad, gs, vs, i) == IF i > Len(gs) THEN bad ELSE JudgeAll(JudgeOne(bad, gs[i], vs[i]), gs, vs, i + 1)
RECURSIVE DriftAll(_, _, _, _)
DriftAll(dr, gs, vs, i) ==
  IF i > Len(gs) THEN dr ELSE DriftAll(PanicDrift(DriftOne(dr, gs[i], vs[i]), gs[i]), gs, vs, i + 1)

Case == /\ e.ev = "case"
        /\ \E gs \in {e.grows} : \E vs \in {TLCEval([i \in 1..Len(gs) |-> Verdicts(gs[i])])} :
             /\ nbad' = JudgeAll(nbad, gs, vs, 1)
             /\ ndrift' = DriftAll(ndrift, gs, vs, 1)
             /\ ngrow' = ngrow + Len(gs)
             /\ nacc' = nacc + Cardinality({i \in 1..Len(gs) : gs[i].append = "ok"})
             /\ nmut' = nmut + Cardinality({i \in 1..Len(gs) : gs[i].iter_mut # <<>>})
        /\ ncase' = ncase + 1

Next == /\ l <= NRec /\ l' = l + 1 /\ Case

Report == l = NRec + 1 =>
            /\ ReportBad(nbad)
            /\ \A s \in DOMAIN ndrift : Print(<<"DRIFTSIG", ToJson(s), ndrift[s]>>, TRUE)
            /\ Stat("cases", ncase) /\ Stat("grows", ngrow) /\ Stat("appended", nacc) /\ Stat("mut_sets", nmut)
=============================================================================
