---------------------------- MODULE TensorStore ----------------------------
(* C09 - layout transformations match a reference array model.                *)
(*                                                                            *)
(* ABSTRACT MODEL.  A tensor is a function from index tuples to values,        *)
(* represented as  [shape, data]  with data in row-major order:                *)
(*     At(t, idx) = t.data[1 + SUM idx[i] * RowMajorStrides(t.shape)[i]].       *)
(* Every layout-changing operation is specified by saying, for each dimension   *)
(* of the result, WHICH source coordinates it selects (a "gather"):             *)
(*     result[j_1..j_m] = source[coordinates determined by (j_1..j_m)]          *)
(* GatherRef evaluates that definition index by index (FromFn / At); Gather      *)
(* evaluates the same thing with native sequence constructors (fast) and         *)
(* MC_TensorStore checks the two agree.  No strides of the real tensor appear    *)
(* in the abstract model.                                                        *)
(*                                                                              *)
(* CONTRACT (C09): an operation either reports an error (Err result or panic)    *)
(* or produces exactly AbsOp(t, op).  An accepted call for which the reference    *)
(* model is undefined (AbsOk false) is a violation as well ("never silently       *)
(* lossy").  Errors on calls the model defines are permitted by the statement;    *)
(* StrictErr lists the ones rten documents, anything else is reported as drift.   *)
(*                                                                              *)
(* Documented choices (rten-tensor docs):                                        *)
(*  * slicing follows NumPy basic slicing: negative indices/endpoints count from  *)
(*    the end (slice_range.rs: "behaves similarly to using negative values in      *)
(*    NumPy"); steps may be negative only in slice_copy ("more flexible as it      *)
(*    supports ranges with negative steps").                                       *)
(*  * VIEW slicing (slice/try_slice/slice_mut) is strict: SliceRange::resolve      *)
(*    "Returns the range if resolved or None if out of bounds"; an endpoint         *)
(*    outside [0, size] or a negative step is SliceError (InvalidRange /            *)
(*    InvalidStep), an index outside [-size, size) is InvalidIndex, more items      *)
(*    than dims is TooManyDims.  slice_copy clamps like NumPy (resolve_clamped).    *)
(*  * index_axis / split_at / slice_axis / permuted / move_axis / remove_axis /     *)
(*    insert_axis / clip_dim panic on out-of-range arguments ("Panics if ...").     *)
(*  * broadcast follows ONNX/NumPy broadcasting to a target shape                   *)
(*    (can_broadcast_to); reshape requires equal element counts (panics            *)
(*    otherwise), returns a view if contiguous else a copy - the same abstract      *)
(*    tensor either way; merge_axes "minimizes the number of dimensions while       *)
(*    preserving the iteration order" - any consecutive-merge of the shape with     *)
(*    the same row-major data is accepted.                                          *)
(*  * append(axis, other) needs matching sizes off-axis (ShapeMismatch) and         *)
(*    spare capacity (InsufficientCapacity).                                        *)
EXTENDS LayoutOps, TLC

T(shape, data) == [shape |-> shape, data |-> data]
At(t, idx) == t.data[1 + Dot(idx, RowMajorStrides(t.shape))]
FromFn(shape, F(_)) == T(shape, [k \in 1..Prod(shape) |-> F(Unravel(k - 1, shape))])
Iota(shape) == T(shape, [k \in 1..Prod(shape) |-> k - 1])

\* ------------------------------------------------ NumPy selection of one item
Clamp(x, lo, hi) == IF x < lo THEN lo ELSE IF x > hi THEN hi ELSE x
\* coordinates selected by a range item on a dim of size n (NumPy semantics, any step # 0)
NpStart(it, n) == IF it.step > 0 THEN Clamp(FromStart(it.start, n), 0, n)
                  ELSE Clamp(FromStart(it.start, n), 0 - 1, n - 1)
NpEnd(it, n) == IF it.step > 0 THEN (IF it.hasEnd THEN Clamp(FromStart(it.end, n), 0, n) ELSE n)
                ELSE (IF it.hasEnd THEN Clamp(FromStart(it.end, n), 0 - 1, n - 1) ELSE 0 - 1)
NpCount(it, n) ==
  LET a == NpStart(it, n)  b == NpEnd(it, n) IN
  IF it.step > 0 THEN (IF b > a THEN CeilDiv(b - a, it.step) ELSE 0)
  ELSE (IF a > b THEN CeilDiv(a - b, 0 - it.step) ELSE 0)
SelRange(it, n) == [j \in 1..NpCount(it, n) |-> NpStart(it, n) + (j - 1) * it.step]
AllOf(n) == [j \in 1..n |-> j - 1]

\* ------------------------------------------------------------------ gather
\* dims: sequence over RESULT dims of [sel |-> Seq(source coordinate), st |-> source row-major stride];
\* off: constant source offset (dims fixed by an index).  The result has shape <<Len(dims[k].sel)>>.
GShape(dims) == [k \in 1..Len(dims) |-> Len(dims[k].sel)]
GatherRef(t, dims, off) ==
  LET F(idx) == t.data[1 + off + Dot([k \in 1..Len(dims) |-> dims[k].sel[idx[k] + 1]],
                                     [k \in 1..Len(dims) |-> dims[k].st])]
  IN FromFn(GShape(dims), F)
\* the same, one result dimension at a time (outer dims first, so the last dim varies fastest)
RECURSIVE GLin(_, _)
GLin(dims, k) ==
  IF k = 0 THEN <<0>>
  ELSE LET prev == GLin(dims, k - 1)  m == Len(dims[k].sel) IN
       [j \in 1..(Len(prev) * m) |-> prev[((j - 1) \div m) + 1] + dims[k].sel[((j - 1) % m) + 1] * dims[k].st]
Gather(t, dims, off) ==
  LET lin == GLin(dims, Len(dims)) IN
  T(GShape(dims), [j \in 1..Len(lin) |-> t.data[1 + off + lin[j]]])

Dim(sel, st) == [sel |-> sel, st |-> st]
RS(t) == RowMajorStrides(t.shape)
ARank(t) == Len(t.shape)
\* identity gather dims of t
IdDims(t) == [d \in 1..ARank(t) |-> Dim(AllOf(t.shape[d]), RS(t)[d])]

\* ------------------------------------------------------------ slicing (NumPy)
\* defined iff there are no more items than dims, every index item is in [-n, n) and no step is 0
ASliceOk(t, items) ==
  /\ Len(items) <= ARank(t)
  /\ \A d \in 1..Len(items) :
       IF items[d].idx THEN IndexOk(items[d], t.shape[d]) ELSE items[d].step # 0
ASliceDims(t, items) ==
  LET kept == SelectSeq([d \in 1..ARank(t) |-> d], LAMBDA d : ~ItemAt(items, d).idx)
  IN [i \in 1..Len(kept) |-> Dim(SelRange(ItemAt(items, kept[i]), t.shape[kept[i]]), RS(t)[kept[i]])]
RECURSIVE ASliceOffR(_, _, _)
ASliceOffR(t, items, d) ==
  IF d = 0 THEN 0
  ELSE (IF ItemAt(items, d).idx THEN FromStart(ItemAt(items, d).start, t.shape[d]) * RS(t)[d] ELSE 0)
       + ASliceOffR(t, items, d - 1)
\* rten's VIEW slicing reports an error although NumPy slicing is defined
StrictSliceErr(t, items) ==
  ASliceOk(t, items) /\ \E d \in 1..Len(items) : ~items[d].idx /\ ~RangeOk(items[d], t.shape[d])

\* ------------------------------------------------------------- other views
\* each gather-type operation as [dims, off] (see Gather)
G(dims, off) == [dims |-> dims, off |-> off]
ASliceG(t, items) ==
  LET dims == ASliceDims(t, items) IN
  G(dims, IF IsEmpty(GShape(dims)) THEN 0 ELSE ASliceOffR(t, items, ARank(t)))
APermuteG(t, p) == G([k \in 1..Len(p) |-> IdDims(t)[p[k] + 1]], 0)
ATransposeG(t) == G(Reverse(IdDims(t)), 0)
AMoveAxisG(t, from, to) == G(InsertAt(RemoveAt(IdDims(t), from + 1), to + 1, IdDims(t)[from + 1]), 0)
AIndexAxisG(t, axis, i) ==
  LET dims == RemoveAt(IdDims(t), axis + 1) IN
  G(dims, IF IsEmpty(GShape(dims)) THEN 0 ELSE i * RS(t)[axis + 1])
ASliceAxisG(t, axis, a, b) ==
  G(SetAt(IdDims(t), axis + 1, Dim([j \in 1..(b - a) |-> a + j - 1], RS(t)[axis + 1])), 0)
\* broadcast to `target` (ONNX/NumPy): align trailing dims; a source dim of size 1 is repeated
ABroadcastOk(t, target) ==
  /\ ARank(t) <= Len(target)
  /\ \A i \in 1..ARank(t) : t.shape[i] = target[i + Len(target) - ARank(t)] \/ t.shape[i] = 1
ABroadcastG(t, target) ==
  LET pad == Len(target) - ARank(t) IN
  G([k \in 1..Len(target) |->
       IF k <= pad \/ t.shape[k - pad] # target[k] THEN Dim([j \in 1..target[k] |-> 0], 0)
       ELSE IdDims(t)[k - pad]], 0)
GatherOps == {"slice", "slice_copy", "permute", "transpose", "move_axis", "index_axis", "slice_axis", "clip_dim",
              "split_left", "split_right", "broadcast"}
\* same elements in the same row-major order, new shape
AReshape(t, shape) == T(shape, t.data)
AReshapeOk(t, shape) == NonNeg(shape) /\ Prod(shape) = Prod(t.shape)
ASqueeze(t) == T(SelectSeq(t.shape, LAMBDA s : s # 1), t.data)
AInsertAxis(t, d) == T(InsertAt(t.shape, d + 1, 1), t.data)
ARemoveAxis(t, d) == T(RemoveAt(t.shape, d + 1), t.data)
\* shape b is obtained from shape a by merging groups of consecutive dims
RECURSIVE IsMergeOfR(_, _, _, _)
IsMergeOfR(b, a, i, j) ==   \* b[i..] merges a[j..]
  IF i > Len(b) THEN j > Len(a)
  ELSE \E k \in j..Len(a) : Prod(SubSeq(a, j, k)) = b[i] /\ IsMergeOfR(b, a, i + 1, k + 1)
IsMergeOf(b, a) == IF Len(a) = 0 THEN Len(b) = 0 ELSE Len(b) >= 1 /\ IsMergeOfR(b, a, 1, 1)
\* elementwise map used by the harness: x |-> x XOR 1 (never overflows, whatever the element is)
AMap(t) == T(t.shape, [k \in 1..Len(t.data) |-> IF t.data[k] % 2 = 0 THEN t.data[k] + 1 ELSE t.data[k] - 1])
\* concatenation along `axis`
AAppendOk(t, o, axis) ==
  /\ axis >= 0 /\ axis < ARank(t) /\ ARank(o) = ARank(t)
  /\ \A d \in 1..ARank(t) : d = axis + 1 \/ t.shape[d] = o.shape[d]
AAppendRef(t, o, axis) ==
  LET shape == SetAt(t.shape, axis + 1, t.shape[axis + 1] + o.shape[axis + 1])
      F(idx) == IF idx[axis + 1] < t.shape[axis + 1] THEN At(t, idx)
                ELSE At(o, SetAt(idx, axis + 1, idx[axis + 1] - t.shape[axis + 1]))
  IN FromFn(shape, F)
AAppend(t, o, axis) ==
  LET shape == SetAt(t.shape, axis + 1, t.shape[axis + 1] + o.shape[axis + 1])
      inner == Prod(Drop(t.shape, axis + 1))
      ba == t.shape[axis + 1] * inner   bo == o.shape[axis + 1] * inner
  IN T(shape, [k \in 1..Prod(shape) |->
                 LET q == (k - 1) \div (ba + bo)  r == (k - 1) % (ba + bo) IN
                 IF r < ba THEN t.data[q * ba + r + 1] ELSE o.data[q * bo + (r - ba) + 1]])

\* -------------------------------------------------- operation records (traces)
\* op records as in LayoutOps plus:  reshape(args = shape; view or copy)  slice_copy(items)
\* to_contiguous  to_tensor  map  clip_dim(dim, a, b)  append(axis; other given separately)
\* observers (to_vec, iter, copy_into_slice, to_slice, into_data): result = the flat data
ViewOps == {"slice", "permute", "transpose", "move_axis", "index_axis", "slice_axis", "split_left", "split_right",
            "broadcast", "reshape_view", "squeeze", "insert_axis", "remove_axis", "merge_axes", "nd_view", "as_dyn", "view"}
Identity == {"to_contiguous", "to_tensor", "make_contiguous", "nd_view", "as_dyn", "view", "to_vec", "iter",
             "copy_into_slice", "to_slice", "into_data", "merge_axes"}

AbsOk(t, o) ==
  CASE o.op \in {"slice", "slice_copy"} -> ASliceOk(t, o.items)
    [] o.op = "permute" -> IsPerm(ARank(t), o.args)
    [] o.op \in Identity \cup {"transpose", "squeeze", "map"} -> TRUE
    [] o.op = "move_axis" -> Len(o.args) = 2 /\ A(o, 1) >= 0 /\ A(o, 2) >= 0 /\ A(o, 1) < ARank(t) /\ A(o, 2) < ARank(t)
    [] o.op = "index_axis" -> A(o, 1) >= 0 /\ A(o, 1) < ARank(t) /\ A(o, 2) >= 0 /\ A(o, 2) < t.shape[A(o, 1) + 1]
    [] o.op \in {"slice_axis", "clip_dim"} ->
         A(o, 1) >= 0 /\ A(o, 1) < ARank(t) /\ 0 <= A(o, 2) /\ A(o, 2) <= A(o, 3) /\ A(o, 3) <= t.shape[A(o, 1) + 1]
    [] o.op \in {"split_left", "split_right"} ->
         A(o, 1) >= 0 /\ A(o, 1) < ARank(t) /\ A(o, 2) >= 0 /\ A(o, 2) <= t.shape[A(o, 1) + 1]
    [] o.op = "broadcast" -> NonNeg(o.args) /\ ABroadcastOk(t, o.args)
    [] o.op \in {"reshape", "reshape_view", "reshape_owned"} -> AReshapeOk(t, o.args)
    [] o.op = "insert_axis" -> A(o, 1) >= 0 /\ A(o, 1) <= ARank(t)
    [] o.op = "remove_axis" -> A(o, 1) >= 0 /\ A(o, 1) < ARank(t) /\ t.shape[A(o, 1) + 1] = 1

\* gather description of a gather-type operation
OpG(t, o) ==
  CASE o.op \in {"slice", "slice_copy"} -> ASliceG(t, o.items)
    [] o.op = "permute" -> APermuteG(t, o.args)
    [] o.op = "transpose" -> ATransposeG(t)
    [] o.op = "move_axis" -> AMoveAxisG(t, A(o, 1), A(o, 2))
    [] o.op = "index_axis" -> AIndexAxisG(t, A(o, 1), A(o, 2))
    [] o.op \in {"slice_axis", "clip_dim"} -> ASliceAxisG(t, A(o, 1), A(o, 2), A(o, 3))
    [] o.op = "split_left" -> ASliceAxisG(t, A(o, 1), 0, A(o, 2))
    [] o.op = "split_right" -> ASliceAxisG(t, A(o, 1), A(o, 2), t.shape[A(o, 1) + 1])
    [] o.op = "broadcast" -> ABroadcastG(t, o.args)

\* (merge_axes: the shape is implementation-chosen; see Conforms)
AbsOp(t, o) ==
  CASE o.op \in GatherOps -> LET g == OpG(t, o) IN Gather(t, g.dims, g.off)
    [] o.op \in {"reshape", "reshape_view", "reshape_owned"} -> AReshape(t, o.args)
    [] o.op = "squeeze" -> ASqueeze(t)
    [] o.op = "insert_axis" -> AInsertAxis(t, A(o, 1))
    [] o.op = "remove_axis" -> ARemoveAxis(t, A(o, 1))
    [] o.op = "map" -> AMap(t)
    [] o.op \in Identity -> t
\* the same through the index-by-index definition
AbsOpRef(t, o) ==
  IF o.op \in GatherOps THEN LET g == OpG(t, o) IN GatherRef(t, g.dims, g.off) ELSE AbsOp(t, o)

\* rten documents an error for this call although the reference model defines a result
StrictErr(t, o) ==
  CASE o.op = "slice" -> StrictSliceErr(t, o.items)
    [] OTHER -> FALSE

\* IMPLEMENTATION-SHAPED (not from the docs): calls the reference model defines but the current
\* code answers with a panic.  slice_copy with a negative-step range whose start lies before
\* the first element (start <= -size-1, which includes every start on a dimension of size 0):
\* SliceRange::index_range computes `dim_size - 1 - resolved.start` in usize with
\* resolved.start = dim_size; the subtraction underflows and trips `assert!(start <=
\* isize::MAX)` in IndexRange::new (NumPy returns an empty result).  An error is permitted by
\* the C09 statement; listing it here keeps DRIFT for deviations from the transcribed behaviour.
ImplErr(t, o) ==
  /\ o.op = "slice_copy" /\ ASliceOk(t, o.items)
  /\ \E d \in 1..Len(o.items) :
       ~o.items[d].idx /\ o.items[d].step < 0 /\ NpStart(o.items[d], t.shape[d]) = 0 - 1

\* does the logged result (shape, data) conform to the model for op o applied to t?
Conforms(t, o, shape, data) ==
  IF o.op = "merge_axes" THEN data = t.data /\ IsMergeOf(shape, t.shape)
  ELSE LET want == AbsOp(t, o) IN shape = want.shape /\ data = want.data

\* ------------------------------------------------------------ concrete layer
\* a concrete tensor is storage + layout; its abstraction reads the storage through the layout
Abs(storage, l) == T(l.shape, [k \in 1..Prod(l.shape) |-> storage[LOffsets(l)[k] + 1]])
=============================================================================
