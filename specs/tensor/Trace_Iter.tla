----------------------------- MODULE Trace_Iter -----------------------------
(* Trace validation for C07: every call on a real rten-tensor iterator is     *)
(* judged against the Iterators contract, with the expected items computed    *)
(* here from the layout (shape, strides, base) over marker tensors.           *)
EXTENDS TraceLib, Layout

VARIABLES l, nbad, ncase, k, lo, hi

\* --- contract functions (same definitions as Iterators.tla) ---
LenOf(a, h, c) == (h - a + c - 1) \div c
FrontEnd(a, h, c) == MinI(a + c, h)
BackStart(a, h, c) == MaxI(a, h - c)
Skip(a, h, c, n) == MinI(a + n * c, h)
SplitPoint(a, h, c, kk) == MinI(a + kk * c, h)

BaseKind(kind) ==
  CASE kind \in {"iter", "iter_mut"} -> "iter"
    [] kind \in {"lanes", "lanes_mut"} -> "lanes"
    [] kind \in {"inner", "inner_mut", "inner_dyn", "inner_dyn_mut"} -> "inner"
    [] kind \in {"axis", "axis_mut"} -> "axis"
    [] kind \in {"chunks", "chunks_mut"} -> "chunks"
    [] kind \in {"lane", "lane_mut"} -> "lane"

Rank(c) == Len(c.shape)
Units(c) ==
  LET bk == BaseKind(c.kind) d == c.dim + 1 IN
  CASE bk = "iter" -> Prod(c.shape)
    [] bk = "lanes" -> IF IsEmpty(c.shape) THEN 0 ELSE Prod(RemoveAt(c.shape, d))
    [] bk = "inner" -> Prod(Take(c.shape, Rank(c) - c.n))
    [] bk \in {"axis", "chunks"} -> c.shape[d]
    [] bk = "lane" -> IF IsEmpty(c.shape) THEN 0 ELSE c.shape[d]

\* Expected markers of the item covering units a..b-1.
Yield(c, a, b) ==
  LET bk == BaseKind(c.kind) d == c.dim + 1 r == Rank(c) IN
  CASE bk = "iter" -> <<Offsets(c.shape, c.strides, c.base)[a + 1]>>
    [] bk = "lanes" ->
         LET start == Offset(Unravel(a, RemoveAt(c.shape, d)), RemoveAt(c.strides, d), c.base)
         IN [j \in 1..c.shape[d] |-> start + (j - 1) * c.strides[d]]
    [] bk = "inner" ->
         Offsets(Drop(c.shape, r - c.n), Drop(c.strides, r - c.n),
                 Offset(Unravel(a, Take(c.shape, r - c.n)), Take(c.strides, r - c.n), c.base))
    [] bk = "axis" -> Offsets(RemoveAt(c.shape, d), RemoveAt(c.strides, d), c.base + a * c.strides[d])
    [] bk = "chunks" -> Offsets(SetAt(c.shape, d, b - a), c.strides, c.base + a * c.strides[d])
    [] bk = "lane" -> <<c.base + a * c.strides[d]>>

RECURSIVE FrontYields(_, _, _)
FrontYields(c, a, h) ==
  IF a >= h THEN <<>> ELSE <<Yield(c, a, FrontEnd(a, h, c.c))>> \o FrontYields(c, FrontEnd(a, h, c.c), h)
RECURSIVE BackYields(_, _, _)
BackYields(c, a, h) ==
  IF a >= h THEN <<>> ELSE <<Yield(c, BackStart(a, h, c.c), h)>> \o BackYields(c, a, BackStart(a, h, c.c))

NoCase == [kind |-> "none"]
Init == l = 1 /\ nbad = NoBad /\ ncase = 0 /\ k = NoCase /\ lo = 0 /\ hi = 0

e == Rec[l]
Sig(opname) == [kind |-> BaseKind(k.kind), op |-> opname,
                phase |-> IF lo > 0 THEN "after_front_step" ELSE "no_front_step"]
Judge(ok, opname) == nbad' = Flag(nbad, ok, Sig(opname), [case |-> k, event |-> e, lo |-> lo, hi |-> hi])

Case == /\ e.ev = "case"
        /\ k' = e /\ lo' = 0 /\ hi' = Units(e) /\ ncase' = ncase + 1
        /\ UNCHANGED nbad

Op ==
  /\ e.ev = "op"
  /\ UNCHANGED ncase /\ UNCHANGED k
  /\ LET c == k.c IN
     CASE e.op = "len" ->
            /\ Judge(e.len = LenOf(lo, hi, c), "len") /\ UNCHANGED <<lo, hi>>
       [] e.op = "next" ->
            LET nl == FrontEnd(lo, hi, c) IN
            /\ Judge(/\ e.some = (lo < hi)
                     /\ (lo < hi) => e.item = Yield(k, lo, nl)
                     /\ e.len = LenOf(nl, hi, c), "next")
            /\ lo' = nl /\ UNCHANGED hi
       [] e.op = "back" ->
            LET nh == BackStart(lo, hi, c) IN
            /\ Judge(/\ e.some = (lo < hi)
                     /\ (lo < hi) => e.item = Yield(k, nh, hi)
                     /\ e.len = LenOf(lo, nh, c), "next_back")
            /\ hi' = nh /\ UNCHANGED lo
       [] e.op = "nth" ->
            LET s == Skip(lo, hi, c, e.n) nl == FrontEnd(s, hi, c) IN
            /\ Judge(/\ e.some = (s < hi)
                     /\ (s < hi) => e.item = Yield(k, s, nl)
                     /\ e.len = LenOf(nl, hi, c), "nth")
            /\ lo' = nl /\ UNCHANGED hi
       [] e.op = "split" ->
            LET m == SplitPoint(lo, hi, c, e.k) IN
            IF e.keep = "L"
            THEN /\ Judge(/\ e.k <= LenOf(lo, hi, c)
                          /\ e.items = FrontYields(k, m, hi)
                          /\ e.n = LenOf(m, hi, c)
                          /\ e.len = LenOf(lo, m, c), "split_at")
                 /\ hi' = m /\ UNCHANGED lo
            ELSE /\ Judge(/\ e.k <= LenOf(lo, hi, c)
                          /\ e.items = FrontYields(k, lo, m)
                          /\ e.n = LenOf(lo, m, c)
                          /\ e.len = LenOf(m, hi, c), "split_at")
                 /\ lo' = m /\ UNCHANGED hi
       [] e.op \in {"fold", "drain", "par"} ->
            /\ Judge(e.items = FrontYields(k, lo, hi), e.op)
            /\ lo' = hi /\ UNCHANGED hi
       [] e.op = "rdrain" ->
            /\ Judge(e.items = BackYields(k, lo, hi), "rev")
            /\ lo' = hi /\ UNCHANGED hi
       [] e.op = "nolane" ->
            /\ Judge(IsEmpty(k.shape), "nolane") /\ UNCHANGED <<lo, hi>>
       [] e.op = "panic" ->
            /\ Judge(FALSE, "panic") /\ UNCHANGED <<lo, hi>>

Next == /\ l <= NRec /\ l' = l + 1 /\ (Case \/ Op)

Report == l = NRec + 1 =>
            /\ ReportBad(nbad)
            /\ Stat("cases", ncase)
=============================================================================
