--------------------------- MODULE IteratorsImpl ---------------------------
(* Implementation-shaped specification of OffsetsBase (rten-tensor/src/        *)
(* iterators.rs): per-dimension cursor positions, the remaining length `len`,  *)
(* next (step with carry), next_back (offset_from_linear_index), step_by /      *)
(* nth, split_at (clone + step_by on the right, truncate on the left).  It is   *)
(* model-checked against the Iterators contract: every yield is the element     *)
(* the contract says, for every shape in the bounds and every history.          *)
(* FrontAware = FALSE is the pinned code (next_back counted from the start of   *)
(* the tensor); TLC then finds next; next_back yielding the wrong element.      *)
EXTENDS Naturals, Integers, Sequences, FiniteSets, TLC, Layout

CONSTANTS MaxRank, MaxSize, MaxOps, FrontAware

VARIABLES shape,      \* sizes per dimension (all > 0; a zero-size tensor has len 0 and never reads positions)
          idx,        \* current index per dimension (IterPos::index)
          len,        \* remaining elements
          lo, hi,     \* contract state: remaining linear indices lo..hi-1
          nops, ok
vars == <<shape, idx, len, lo, hi, nops, ok>>

Shapes == UNION {[1..r -> 1..MaxSize] : r \in 0..MaxRank}
Total(s) == Prod(s)

\* linear index of the position `ix` (row-major)
RECURSIVE LinR(_, _, _)
LinR(ix, s, i) == IF i = 0 THEN 0 ELSE LinR(ix, s, i - 1) * s[i] + ix[i]
Lin(ix, s) == LinR(ix, s, Len(s))

\* IterPos stepping with carry, as OffsetsBase::next does (innermost first); wraps to all-zero at the end
RECURSIVE StepR(_, _, _)
StepR(ix, s, d) == IF d = 0 THEN ix
                   ELSE IF ix[d] + 1 < s[d] THEN [ix EXCEPT ![d] = @ + 1]
                   ELSE StepR([ix EXCEPT ![d] = 0], s, d - 1)
Step1(ix, s) == StepR(ix, s, Len(s))

\* OffsetsBase::step_by(n): add n to the innermost index and carry outwards
RECURSIVE StepByR(_, _, _, _)
StepByR(ix, s, d, rem) == IF d = 0 \/ rem = 0 THEN ix
                          ELSE LET ni == ix[d] + rem IN StepByR([ix EXCEPT ![d] = ni % s[d]], s, d - 1, ni \div s[d])
StepBy(ix, s, n) == StepByR(ix, s, Len(s), n)

Init == /\ shape \in Shapes /\ idx = [d \in 1..Len(shape) |-> 0] /\ len = Total(shape)
        /\ lo = 0 /\ hi = Total(shape) /\ nops = 0 /\ ok = TRUE

\* next(): yields the element at the cursor
DoNext == /\ nops < MaxOps /\ nops' = nops + 1
          /\ IF len = 0
             THEN ok' = (ok /\ lo = hi) /\ UNCHANGED <<idx, len, lo, hi>>
             ELSE /\ ok' = (ok /\ lo < hi /\ Lin(idx, shape) = lo)        \* yielded linear index = contract's front
                  /\ idx' = Step1(idx, shape) /\ len' = len - 1 /\ lo' = lo + 1 /\ UNCHANGED hi
          /\ UNCHANGED shape

\* next_back(): offset_from_linear_index(front + len - 1)  [pinned code: len - 1]
DoNextBack == /\ nops < MaxOps /\ nops' = nops + 1
              /\ IF len = 0
                 THEN ok' = (ok /\ lo = hi) /\ UNCHANGED <<idx, len, lo, hi>>
                 ELSE LET yielded == (IF FrontAware THEN Lin(idx, shape) ELSE 0) + len - 1 IN
                      /\ ok' = (ok /\ lo < hi /\ yielded = hi - 1)
                      /\ len' = len - 1 /\ hi' = hi - 1 /\ UNCHANGED <<idx, lo>>
              /\ UNCHANGED shape

\* nth(n) = step_by(n) then next()
DoNth(n) == /\ nops < MaxOps /\ nops' = nops + 1
            /\ LET r == IF n < len THEN n ELSE len
                   ix2 == StepBy(idx, shape, r)
                   len2 == len - r
                   lo2 == IF lo + n < hi THEN lo + n ELSE hi
               IN IF len2 = 0
                  THEN /\ ok' = (ok /\ lo2 = hi) /\ idx' = ix2 /\ len' = 0 /\ lo' = hi /\ UNCHANGED hi
                  ELSE /\ ok' = (ok /\ lo2 < hi /\ Lin(ix2, shape) = lo2)
                       /\ idx' = Step1(ix2, shape) /\ len' = len2 - 1 /\ lo' = lo2 + 1 /\ UNCHANGED hi
            /\ UNCHANGED shape

\* split_at(k), continuing with the left half (truncate) or the right half (clone + step_by)
DoSplit(k, keepLeft) ==
  /\ nops < MaxOps /\ nops' = nops + 1 /\ k <= len
  /\ IF keepLeft
     THEN /\ len' = (IF len < k THEN len ELSE k) /\ hi' = lo + k /\ UNCHANGED <<idx, lo>>
     ELSE /\ idx' = StepBy(idx, shape, k) /\ len' = len - k /\ lo' = lo + k /\ UNCHANGED hi
  /\ ok' = ok /\ UNCHANGED shape

Next == DoNext \/ DoNextBack \/ (\E n \in 0..2 : DoNth(n)) \/ (\E k \in 0..Total(shape), kl \in BOOLEAN : DoSplit(k, kl))
Spec == Init /\ [][Next]_vars

\* every yield was the contract's element, and the implementation state tracks the contract state
YieldsMatchContract == ok
LenExact == len = hi - lo
CursorIsFront == len > 0 => Lin(idx, shape) = lo
=============================================================================
