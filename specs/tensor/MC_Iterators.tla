---------------------------- MODULE MC_Iterators ----------------------------
EXTENDS Iterators, TLC, Json

\* Behaviour generator: print each complete history once.
Emit == (done \/ Len(hist) = MaxOps) => PrintT(<<"REPLAY", ToJson(hist)>>)
=============================================================================
