CONSTANTS N = 7  C = 3  MaxOps = 4
INIT Init
NEXT Next
INVARIANTS Partition LenExact AllConsumedWhenDone
CHECK_DEADLOCK FALSE
