---------------------------- MODULE Trace_Overlap ----------------------------
(* Trace validation for C08.  A `case` record carries a layout (ints when     *)
(* small, base-2^15 limbs always) and `subs`, what each real rten-tensor API   *)
(* answered when the layout was submitted to it as a non-overlapping layout.   *)
(* One record (one TLC state) per layout.  Injectivity is decided HERE, from the logged        *)
(* shape/strides, in exact arithmetic.                                          *)
(*                                                                              *)
(* Contract predicates (direct formalisation of the C08 statement):             *)
(*  P1  outcome = "ok"  =>  the layout is injective                             *)
(*      (flagged only when non-injectivity is certain; layouts too large to     *)
(*      enumerate for which neither a colliding index pair nor the exact         *)
(*      step-over criterion decides are counted as `undecided`, not flagged);   *)
(*  P2  the layout was derived from a contiguous layout by slicing, permuting   *)
(*      or reshaping (class "derived": by the TLA+ closure in MC_Overlap;        *)
(*      class "derived_api": by a chain of real API calls)  =>  outcome = "ok",  *)
(*      provided the storage/capacity handed to the API was at least the         *)
(*      layout's true extent (computed here).                                    *)
EXTENDS TraceLib, Overlap

VARIABLES l, nbad, ndrift, ncase, nsub, nacc, nund

e == Rec[l]

Init == l = 1 /\ nbad = NoBad /\ ndrift = NoBad /\ ncase = 0 /\ nsub = 0 /\ nacc = 0 /\ nund = 0

InjOf(c) == IF c.small
            THEN (IF InjectiveFast(c.shape, c.strides) THEN "yes" ELSE "no")
            ELSE InjectiveW(c.shapeW, c.stridesW)

Derived(k) == k.class \in {"derived", "derived_api"}
\* APIs that take no storage have storage = 0 logged and need none.
NeedsStorage(api) == api \notin {"dyn_layout", "nd_layout"}
\* need = true extent of the layout (computed once per case; -1 when not small)
EnoughStorage(s, need) == ~NeedsStorage(s.api) \/ (need >= 0 /\ s.storage >= need)

\* Why did the code accept a non-injective layout?  Computed from the transcription in
\* exact arithmetic, in the checked 64-bit arithmetic of the current code and in the
\* wrapping arithmetic of the code before the repair (to name a regression).
Reason(k) ==
  IF ~MayOverlapImplW(k.shapeW, k.stridesW, "exact") THEN "criterion_unsound"
  ELSE IF ~MayOverlapImplW(k.shapeW, k.stridesW, "checked") THEN "checked_transcription_accepts"
  ELSE IF ~MayOverlapImplW(k.shapeW, k.stridesW, "wrap")
       THEN (IF IsContiguousImplW(k.shapeW, k.stridesW, "wrap")
             THEN "contiguous_product_wrapped" ELSE "max_offset_wrapped")
  ELSE "accepted_despite_criterion"

ClassGroup(k) == IF Derived(k) THEN "derived" ELSE IF k.small THEN "small" ELSE "wide"

\* judge one submission s of case k (inj = injectivity verdict of k)
JudgeOne(bad, k, inj, need, s) ==
  LET accepted == s.outcome = "ok"
      \* P1 on the submitted layout, and for `append` on the layout the tensor really has afterwards
      p1 == accepted => /\ inj # "no"
                        /\ (s.api = "append" => InjectiveFast(s.rshape, s.rstrides))
      p2 == (Derived(k) /\ EnoughStorage(s, need)) => accepted
      rec == [case |-> [class |-> k.class, ops |-> k.ops, shapeW |-> k.shapeW, stridesW |-> k.stridesW,
                        shape |-> k.shape, strides |-> k.strides, small |-> k.small],
              event |-> s]
      b1 == IF p1 THEN bad
            ELSE Flag(bad, FALSE, [kind |-> "accepted_overlapping", api |-> s.api,
                                   class |-> ClassGroup(k), reason |-> Reason(k)], rec)
  IN IF p2 THEN b1
     ELSE Flag(b1, FALSE, [kind |-> "derived_rejected", api |-> s.api,
                           class |-> ClassGroup(k), reason |-> s.outcome], rec)

\* DRIFT (exit 0): the two storage-free APIs answer exactly what the transcription of the
\* current (checked) code predicts
Drift(dr, ok, sig, rec) ==
  IF ok THEN dr
  ELSE IF sig \in DOMAIN dr THEN [dr EXCEPT ![sig] = @ + 1]
  ELSE Print(<<"DRIFTCASE", ToJson(sig), ToJson(rec)>>, dr @@ (sig :> 1))
RECURSIVE DriftAll(_, _, _, _)
DriftAll(dr, k, predicted, i) ==
  IF i > Len(k.subs) THEN dr
  ELSE LET s == k.subs[i] IN
       DriftAll(IF s.api \in {"dyn_layout", "nd_layout"}
                THEN Drift(dr, (s.outcome = "ok") = predicted,
                           [kind |-> "outcome", api |-> s.api, transcription |-> predicted, real |-> s.outcome],
                           [shapeW |-> k.shapeW, stridesW |-> k.stridesW, class |-> k.class])
                ELSE dr, k, predicted, i + 1)

RECURSIVE JudgeAll(_, _, _, _, _)
JudgeAll(bad, k, inj, need, i) ==
  IF i > Len(k.subs) THEN bad ELSE JudgeAll(JudgeOne(bad, k, inj, need, k.subs[i]), k, inj, need, i + 1)

\* (\E x \in {expr} binds x to the VALUE of expr: TLC evaluates it once)
Case == /\ e.ev = "case"
        /\ \E k \in {e} : \E inj \in {InjOf(k)} :
           \E need \in {IF k.small THEN MinDataLen(k.shape, k.strides) ELSE 0 - 1} :
             /\ nund' = nund + (IF inj = "unknown" THEN 1 ELSE 0)
             /\ nbad' = JudgeAll(nbad, k, inj, need, 1)
             /\ \E predicted \in {~MayOverlapImplW(k.shapeW, k.stridesW, "checked")} :
                  ndrift' = DriftAll(ndrift, k, predicted, 1)
        /\ ncase' = ncase + 1
        /\ nsub' = nsub + Len(e.subs)
        /\ nacc' = nacc + Cardinality({i \in 1..Len(e.subs) : e.subs[i].outcome = "ok"})

Next == /\ l <= NRec /\ l' = l + 1 /\ Case

Report == l = NRec + 1 =>
            /\ ReportBad(nbad)
            /\ \A s \in DOMAIN ndrift : Print(<<"DRIFTSIG", ToJson(s), ndrift[s]>>, TRUE)
            /\ Stat("cases", ncase) /\ Stat("submits", nsub) /\ Stat("accepted", nacc)
            /\ Stat("undecided", nund)
=============================================================================
