\* exact: rank<=3 sizes 0..3 strides 0..3, lens 0..20; kbit: 2-bit usize rank<=2; wide grid; chains: sizes 0..2 depth 2
CONSTANTS MaxRank = 3  MaxSize = 3  MaxStride = 3  MaxLen = 20  K = 2  KRank = 2  Tier = "quick"  Depth = 2  ChainSize = 2
INIT Init
NEXT Next
INVARIANTS InvExact InvKbit InvChain Emit
CHECK_DEADLOCK FALSE
