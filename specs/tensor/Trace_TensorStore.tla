-------------------------- MODULE Trace_TensorStore --------------------------
(* Trace validation for C09.  `case` gives the abstract content of the source   *)
(* tensor (shape + logical row-major elements, read by explicit indexing); every  *)
(* `step` gives an operation, its outcome and - when it returned a result - the    *)
(* resulting shape and logical elements (for observers such as to_vec/iter/        *)
(* copy_into_slice: the flat output).  The abstract state `a` advances on the       *)
(* SPECIFIED successor (TensorStore.AbsOp), never on what the code returned.         *)
(*                                                                                  *)
(* Contract predicates (C09 statement: "either reports an error or produces          *)
(* exactly the shape and elements of the naive model; never silently lossy"):        *)
(*   wrong_result       outcome ok, model defined, result differs from AbsOp          *)
(*   accepted_undefined outcome ok with a NON-EMPTY result although the model defines   *)
(*                      no result (invalid index / permutation / axis / shape)          *)
(* DRIFT (exit 0): an error or panic on a call the model defines and rten does not     *)
(* document as an error (the statement permits reporting an error).                     *)
EXTENDS TraceLib, TensorStore

VARIABLES l, nbad, ndrift, ncase, nstep, nok, nnoop, a, cid, src, hist   \* src/hist: source and operations of the current chain (for replay)

e == Rec[l]
Init == /\ l = 1 /\ nbad = NoBad /\ ndrift = NoBad /\ ncase = 0 /\ nstep = 0 /\ nok = 0 /\ nnoop = 0
        /\ a = T(<<>>, <<0>>) /\ cid = 0 /\ src = [source |-> "", shape |-> <<>>] /\ hist = <<>>

Drift(dr, ok, sig, rec) ==
  IF ok THEN dr
  ELSE IF sig \in DOMAIN dr THEN [dr EXCEPT ![sig] = @ + 1]
  ELSE Print(<<"DRIFTCASE", ToJson(sig), ToJson(rec)>>, dr @@ (sig :> 1))

Case == /\ e.ev = "case"
        /\ a' = T(e.shape, e.data) /\ cid' = e["case"] /\ ncase' = ncase + 1
        /\ src' = [source |-> e.source, shape |-> e.shape] /\ hist' = <<>>
        /\ UNCHANGED <<nbad, ndrift, nstep, nok, nnoop>>

IsAppend(o) == o.op \in {"append", "append_over"}
Other(ev) == T(ev.other_shape, ev.other_data)
\* append: args = <<axis, size of other along axis, variant>>; the model is defined when the shapes agree off-axis
Defined(t, ev) ==
  IF IsAppend(ev.op) THEN ev.op.args[1] >= 0 /\ ev.op.args[1] < ARank(t)
  ELSE AbsOk(t, ev.op)
\* specified result (only evaluated when Defined)
Want(t, ev) ==
  IF IsAppend(ev.op) THEN AAppend(t, Other(ev), ev.op.args[1])
  ELSE IF ev.op.op = "merge_axes" THEN (IF IsMergeOf(ev.shape, t.shape) THEN T(ev.shape, t.data) ELSE t)
  ELSE AbsOp(t, ev.op)
ConformsEv(t, ev) ==
  IF IsAppend(ev.op)
  THEN /\ AAppendOk(t, Other(ev), ev.op.args[1])
       /\ ev.shape = Want(t, ev).shape /\ ev.data = Want(t, ev).data
  ELSE Conforms(t, ev.op, ev.shape, ev.data)
\* documented errors: strict view slicing; exceeding the capacity (append_over reports the failed third append)
Documented(t, ev) == StrictErr(t, ev.op) \/ ImplErr(t, ev.op) \/ ev.op.op = "append_over"
    \/ (ev.op.op = "reshape_view")   \* view-only reshape needs a contiguous source, which the abstract model does not see

Step ==
  /\ e.ev = "step"
  /\ \E ev \in {e} : \E def \in {Defined(a, ev)} :
     LET ok == ev.outcome = "ok"
         rec == [event |-> ev, before |-> a, cid |-> cid, source |-> src, ops |-> Append(hist, ev.op)]
         sig(kind, what) == [kind |-> kind, api |-> ev.op.op, what |-> what]
     IN
     IF ev.outcome = "skipped" THEN UNCHANGED <<nbad, ndrift, a, nok, nnoop>>
     ELSE IF ok /\ def
     THEN \E want \in {Want(a, ev)} :
            /\ nbad' = IF ConformsEv(a, ev) THEN nbad
                       ELSE Flag(nbad, FALSE, sig("wrong_result",
                                  \* a layout-changing operation can only return elements of its source
                                  IF ev.op.op # "map" /\ ~IsAppend(ev.op) /\ ~(Range(ev.data) \subseteq Range(a.data))
                                  THEN "elements_not_from_source"
                                  ELSE IF ev.shape # want.shape THEN "shape" ELSE "elements"), rec)
            \* a chain continues on the REAL result: after a flagged step resynchronise on what the
            \* code returned, otherwise advance on the specified successor
            /\ a' = IF ConformsEv(a, ev) THEN want ELSE T(ev.shape, ev.data)
            /\ ndrift' = ndrift /\ nok' = nok + 1 /\ nnoop' = nnoop
     ELSE IF ok /\ ~def
     THEN \* a non-empty result fabricated for a call the model rejects is a violation; an EMPTY
          \* result (no element was produced) for such a call is reported as drift only
          /\ nbad' = IF ev.data = <<>> THEN nbad
                     ELSE Flag(nbad, FALSE, sig("accepted_undefined", "model has no result"), rec)
          \* (an EMPTY tensor returned unchanged - e.g. append / clip_dim with an axis >= ndim, where the
          \* release build reads a stride as the size - is only counted: nothing was produced or lost)
          /\ ndrift' = Drift(ndrift, ev.data # <<>> \/ ev.shape = a.shape,
                             [kind |-> "accepted_undefined_empty", api |-> ev.op.op, outcome |-> "ok"], rec)
          /\ nnoop' = nnoop + (IF ev.data = <<>> /\ ev.shape = a.shape THEN 1 ELSE 0)
          \* resynchronise on what the code returned so that one failure does not cascade
          /\ a' = T(ev.shape, ev.data) /\ nok' = nok + 1
     ELSE /\ ndrift' = Drift(ndrift, ~def \/ Documented(a, ev),
                             [kind |-> "unexpected_error", api |-> ev.op.op, outcome |-> ev.outcome], rec)
          \* append_over: the two in-capacity appends succeeded, the third failed: the tensor holds a ++ other
          /\ a' = IF ev.op.op = "append_over" /\ def /\ ev.outcome = "err" /\ ev.shape # <<>> THEN Want(a, ev) ELSE a
          /\ nbad' = IF ev.op.op = "append_over" /\ def /\ ev.outcome = "err" /\ ev.shape # <<>> /\ ~ConformsEv(a, ev)
                     THEN Flag(nbad, FALSE, sig("wrong_result", "after rejected append"), rec) ELSE nbad
          /\ nok' = nok /\ nnoop' = nnoop
  /\ nstep' = nstep + 1 /\ hist' = Append(hist, e.op)
  /\ UNCHANGED <<ncase, cid, src>>

Next == /\ l <= NRec /\ l' = l + 1 /\ (Case \/ Step)

Report == l = NRec + 1 =>
            /\ ReportBad(nbad)
            /\ \A s \in DOMAIN ndrift : Print(<<"DRIFTSIG", ToJson(s), ndrift[s]>>, TRUE)
            /\ Stat("cases", ncase) /\ Stat("steps", nstep) /\ Stat("ok_steps", nok)
            /\ Stat("undefined_noop_on_empty", nnoop)
=============================================================================
