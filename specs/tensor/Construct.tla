----------------------------- MODULE Construct -----------------------------
(* C06, constructors.  CONTRACT (direct formalisation of the statement):     *)
(* a constructor that ACCEPTS (shape, strides, storage of length len) must    *)
(* guarantee                                                                  *)
(*   Safe:      every valid index maps to an offset inside the storage:        *)
(*              shape empty, or  SUM (size_i - 1) * stride_i  <  len           *)
(*              (strides are >= 0, so the maximum is at the last index), in     *)
(*              exact arithmetic, on the strides the accepted tensor reports;   *)
(*   CountFits: the element count PROD size_i does not overflow 64 bits         *)
(*              ("including shapes whose element count or maximum offset         *)
(*              overflows" must be rejected);                                   *)
(*   for mutable storage, Injective (no two valid indices share an offset).     *)
(*                                                                              *)
(* IMPLEMENTATION-SHAPED part: the acceptance tests of tensor.rs / layout.rs     *)
(* transcribed over Word limbs, evaluated either exactly (wrap = FALSE) or with   *)
(* the wrapping 64-bit arithmetic of a release build (wrap = TRUE), and over TLC  *)
(* ints modulo M for the K-bit exhaustive search in MC_Construct.                 *)
EXTENDS Overlap

\* ------------------------------------------------------------------ Words
\* contiguous strides as DynLayout::contiguous_shape_and_strides computes them
\* (stride *= shape[i] from the innermost dim, wrapping)
RECURSIVE ContigStridesWR(_, _, _, _)
ContigStridesWR(shape, i, acc, wrap) ==
  IF i = 0 THEN <<>>
  ELSE Append(ContigStridesWR(shape, i - 1, Ww(WMul(acc, shape[i]), wrap), wrap), acc)
ContigStridesW(shape, wrap) == ContigStridesWR(shape, Len(shape), WOne, wrap)

TrueMaxOffsetW(shape, strides) ==
  WSum([i \in 1..Len(shape) |-> WMul(WSub(shape[i], WOne), strides[i])])
\* Layout::min_data_len
MinDataLenW(shape, strides, wrap) ==
  IF IsEmptyW(shape) THEN WZero
  ELSE Ww(WAdd(TrueMaxOffsetW(shape, strides), WOne), wrap)
\* Layout::len
LenW(shape, wrap) == Ww(WProd(shape), wrap)

\* ---- the contract
SafeW(shape, strides, len) == IsEmptyW(shape) \/ WLt(TrueMaxOffsetW(shape, strides), len)
CountFitsW(shape) == Fits64(WProd(shape))

\* ---- acceptance tests, transcribed.  `len` is the storage length (a Word).
\* try_from_data / from_data:  layout.min_data_len() != data.len()  => error
AcceptFromDataW(shape, len, wrap) ==
  MinDataLenW(shape, ContigStridesW(shape, wrap), wrap) = len
\* from_data_with_strides: DisallowOverlap, then min_data_len() > len => error
AcceptWithStridesW(shape, strides, len, wrap) ==
  /\ ~MayOverlapImplW(shape, strides, wrap)
  /\ WLe(MinDataLenW(shape, strides, wrap), len)
\* from_slice_with_strides: AllowOverlap, min_data_len() > len => error
AcceptSliceWithStridesW(shape, strides, len, wrap) ==
  WLe(MinDataLenW(shape, strides, wrap), len)
\* from_storage_and_layout: assert len >= min_data_len; assert !MUTABLE || !may_overlap
AcceptStorageLayoutW(shape, strides, len, mutable, wrap) ==
  /\ WLe(MinDataLenW(shape, strides, wrap), len)
  /\ (mutable => ~MayOverlapImplW(shape, strides, wrap))

\* ------------------------------------------------------------------- ints
\* the same over TLC ints modulo M (M = 0: exact) for the exhaustive K-bit search
RECURSIVE ContigStridesMR(_, _, _, _)
ContigStridesMR(shape, i, acc, M) ==
  IF i = 0 THEN <<>>
  ELSE Append(ContigStridesMR(shape, i - 1, Wm(acc * shape[i], M), M), acc)
ContigStridesM(shape, M) == ContigStridesMR(shape, Len(shape), 1, M)
MinDataLenM(shape, strides, M) ==
  IF IsEmpty(shape) THEN 0 ELSE Wm(MaxOff(shape, strides) + 1, M)
Safe(shape, strides, len) == IsEmpty(shape) \/ MaxOff(shape, strides) < len
AcceptFromDataM(shape, len, M) == MinDataLenM(shape, ContigStridesM(shape, M), M) = len
AcceptWithStridesM(shape, strides, len, M) ==
  ~MayOverlapImplM(shape, strides, M, FALSE) /\ MinDataLenM(shape, strides, M) <= len
AcceptSliceWithStridesM(shape, strides, len, M) == MinDataLenM(shape, strides, M) <= len
=============================================================================
