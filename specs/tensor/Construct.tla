----------------------------- MODULE Construct -----------------------------
(* C06, constructors.  CONTRACT (direct formalisation of the statement):     *)
(* a constructor that ACCEPTS (shape, strides, storage of length len) must    *)
(* guarantee                                                                  *)
(*   Safe:      every valid index maps to an offset inside the storage:        *)
(*              shape empty, or  SUM (size_i - 1) * stride_i  <  len           *)
(*              (strides are >= 0, so the maximum is at the last index), in     *)
(*              exact arithmetic, on the strides the accepted tensor reports;   *)
(*   CountFits: the element count PROD size_i does not overflow 64 bits         *)
(*              ("including shapes whose element count or maximum offset         *)
(*              overflows" must be rejected);                                   *)
(*   for mutable storage, Injective (no two valid indices share an offset).     *)
(*                                                                              *)
(* IMPLEMENTATION-SHAPED part: the acceptance tests of tensor.rs / layout.rs     *)
(* transcribed over Word limbs (64-bit usize) and over TLC ints with word size M   *)
(* (K-bit exhaustive search in MC_Construct), in the arithmetic modes of           *)
(* Overlap.tla:  "exact";  "checked" = the CURRENT code, whose validation paths      *)
(* use LayoutExt::checked_min_data_len (None on overflow => reject; /repo commit     *)
(* "fix: tensor constructors accepted layouts whose element count or maximum          *)
(* offset overflows") while contiguous strides are still computed with wrapping       *)
(* multiplication;  "wrap" = the code before that repair (kept to generate            *)
(* wrap-around boundary inputs and to name a regression).                             *)
EXTENDS Overlap

\* ------------------------------------------------------------------ Words
\* contiguous strides as DynLayout::contiguous_shape_and_strides computes them
\* (stride *= shape[i] from the innermost dim; WRAPPING in the old and in the current code)
RECURSIVE ContigStridesWR(_, _, _, _)
ContigStridesWR(shape, i, acc, wrap) ==
  IF i = 0 THEN <<>>
  ELSE Append(ContigStridesWR(shape, i - 1, IF wrap THEN Wrap64(WMul(acc, shape[i])) ELSE WMul(acc, shape[i]), wrap), acc)
ContigStridesW(shape, wrap) == ContigStridesWR(shape, Len(shape), WOne, wrap)
CodeStridesW(shape, mode) == ContigStridesW(shape, mode # "exact")

TrueMaxOffsetW(shape, strides) ==
  WSum([i \in 1..Len(shape) |-> WMul(WSub(shape[i], WOne), strides[i])])
TrueMinLenW(shape, strides) == IF IsEmptyW(shape) THEN WZero ELSE WAdd(TrueMaxOffsetW(shape, strides), WOne)
\* Layout::min_data_len (wrapping) / LayoutExt::checked_min_data_len:
\* MinLenDefined is FALSE exactly when checked_min_data_len returns None (all terms are
\* non-negative, so some partial sum overflows iff the total does)
MinLenDefined(shape, strides, mode) == mode # "checked" \/ Fits64(TrueMinLenW(shape, strides))
MinDataLenW(shape, strides, mode) == Ww(TrueMinLenW(shape, strides), mode)
\* Layout::len
LenW(shape, mode) == Ww(WProd(shape), mode)

\* ---- the contract
SafeW(shape, strides, len) == IsEmptyW(shape) \/ WLt(TrueMaxOffsetW(shape, strides), len)
CountFitsW(shape) == Fits64(WProd(shape))

\* ---- acceptance tests, transcribed.  `len` is the storage length (a Word).
\* try_from_data / from_data:  checked_min_data_len() != Some(data.len())  => error
AcceptFromDataW(shape, len, mode) ==
  LET st == CodeStridesW(shape, mode) IN
  MinLenDefined(shape, st, mode) /\ MinDataLenW(shape, st, mode) = len
\* from_data_with_strides: DisallowOverlap, then checked_min_data_len() is None or > len => error
AcceptWithStridesW(shape, strides, len, mode) ==
  /\ ~MayOverlapImplW(shape, strides, mode)
  /\ MinLenDefined(shape, strides, mode) /\ WLe(MinDataLenW(shape, strides, mode), len)
\* from_slice_with_strides: AllowOverlap, same length test
AcceptSliceWithStridesW(shape, strides, len, mode) ==
  MinLenDefined(shape, strides, mode) /\ WLe(MinDataLenW(shape, strides, mode), len)
\* from_storage_and_layout: assert checked_min_data_len().is_some_and(<= len); assert !MUTABLE || !may_overlap
AcceptStorageLayoutW(shape, strides, len, mutable, mode) ==
  /\ MinLenDefined(shape, strides, mode) /\ WLe(MinDataLenW(shape, strides, mode), len)
  /\ (mutable => ~MayOverlapImplW(shape, strides, mode))


\* ------------------------------------------------ growth of an owned tensor in place
\* TensorBase<Vec<T>, L>::expanded_layout (has_capacity / append / concat): the layout keeps its
\* strides, the size of `axis` (0-based) becomes newSize; accepted iff checked_min_data_len of the
\* grown layout is defined and <= the Vec capacity and the grown layout passes the overlap test.
GrownW(shape, axis, newSize) == [i \in 1..Len(shape) |-> IF i = axis + 1 THEN newSize ELSE shape[i]]
AcceptGrowW(shape, strides, axis, newSize, cap, mode) ==
  LET g == GrownW(shape, axis, newSize) IN
  /\ MinLenDefined(g, strides, mode) /\ WLe(MinDataLenW(g, strides, mode), cap)
  /\ ~MayOverlapImplW(g, strides, mode)
\* CONTRACT for growth (C06: the owned tensor is mutable): an accepted grown layout is injective
\* (three-valued InjectiveW: a violation only when non-injectivity is certain)
GrowInjectiveW(shape, strides, axis, newSize) == InjectiveW(GrownW(shape, axis, newSize), strides)

\* ------------------------------------------------------------------- ints
\* the same over TLC ints with word size M (M = 0: exact) for the exhaustive K-bit search
RECURSIVE ContigStridesMR(_, _, _, _)
ContigStridesMR(shape, i, acc, M) ==
  IF i = 0 THEN <<>>
  ELSE Append(ContigStridesMR(shape, i - 1, Wm(acc * shape[i], M), M), acc)
ContigStridesM(shape, M) == ContigStridesMR(shape, Len(shape), 1, M)
TrueMinLen(shape, strides) == IF IsEmpty(shape) THEN 0 ELSE MaxOff(shape, strides) + 1
MinLenDefinedM(shape, strides, M, mode) == mode # "checked" \/ ~OvM(TrueMinLen(shape, strides), M)
MinDataLenM(shape, strides, M, mode) ==
  IF mode = "wrap" THEN Wm(TrueMinLen(shape, strides), M) ELSE TrueMinLen(shape, strides)
Safe(shape, strides, len) == IsEmpty(shape) \/ MaxOff(shape, strides) < len
AcceptFromDataM(shape, len, M, mode) ==
  LET st == ContigStridesM(shape, M) IN
  MinLenDefinedM(shape, st, M, mode) /\ MinDataLenM(shape, st, M, mode) = len
AcceptWithStridesM(shape, strides, len, M, mode) ==
  /\ ~MayOverlapImplM(shape, strides, M, FALSE, mode)
  /\ MinLenDefinedM(shape, strides, M, mode) /\ MinDataLenM(shape, strides, M, mode) <= len
AcceptSliceWithStridesM(shape, strides, len, M, mode) ==
  MinLenDefinedM(shape, strides, M, mode) /\ MinDataLenM(shape, strides, M, mode) <= len
=============================================================================
