\* chain generator (tlc -simulate): random chains of 4 operations, invariants checked along the way
CONSTANTS MaxRank = 3  MaxSize = 3  MaxOps = 4
INIT Init
NEXT Next
INVARIANTS Refines Emit
CHECK_DEADLOCK FALSE
