INIT Init
NEXT Next
INVARIANTS AddInv DivInv MulInv MulDistrib MulAssoc EvalInv
CHECK_DEADLOCK FALSE
