-------------------------- MODULE Trace_ShapeInfer --------------------------
(* C10: trace validation of operator shape inference against execution.       *)
(* One `case` record (operator, concrete inputs, symbolic inputs, assignment)  *)
(* and one `ret` record (what the inference rule returned, what execution      *)
(* produced) per operator application; see harness/vh-ops/src/infer.rs.        *)
(* A case is judged only when the inference rule returned outputs, execution   *)
(* succeeded and Unify accepts the assignment.  An inference error, a panic,   *)
(* an execution error are "no claim" / "nothing to compare with" (counted).    *)
EXTENDS TraceLib, ShapeInfer

VARIABLES l, nbad, k, cnt

NoCase == [id |-> -1]
Zero == [cases |-> 0, judged |-> 0, discarded |-> 0, no_rule |-> 0, infer_err |-> 0, infer_err_run_ok |-> 0,
         infer_panic |-> 0, run_fail |-> 0, claims |-> 0, undef_claims |-> 0, unknown_outs |-> 0, drv_diff |-> 0]
Init == l = 1 /\ nbad = NoBad /\ k = NoCase /\ cnt = Zero

ev == Rec[l]
B2N(b) == IF b THEN 1 ELSE 0

Case == /\ ev.ev = "case" /\ k' = ev /\ UNCHANGED <<nbad, cnt>>

Ret ==
  /\ ev.ev = "ret" /\ ev.id = k.id
  /\ LET both == ev.infer = "ok" /\ ev.run = "ok"
         cons == both /\ Consistent(k.ins, k.env)
         env == EnvOf(k.env)
         v == IF cons THEN Verdict(ev.so, ev.outs, env) ELSE NoVerdict
     IN /\ nbad' = Flag(nbad, v.what = "", [op |-> k.op, variant |-> k.variant, what |-> v.what, claim |-> v.claim, expr |-> v.expr, val |-> v.val],
                        [id |-> k.id, mode |-> k.mode, op |-> k.op, variant |-> k.variant, attrs |-> k.attrs,
                         env |-> k.env, ins |-> k.ins, so |-> ev.so, outs |-> ev.outs, replay |-> k.replay])
        /\ cnt' = [cases |-> cnt.cases + 1,
                   judged |-> cnt.judged + B2N(cons),
                   discarded |-> cnt.discarded + B2N(both /\ ~cons),
                   no_rule |-> cnt.no_rule + B2N(ev.infer = "none" /\ ev.run # "loaderr"),
                   infer_err |-> cnt.infer_err + B2N(ev.infer = "err"),
                   infer_err_run_ok |-> cnt.infer_err_run_ok + B2N(ev.infer = "err" /\ ev.run = "ok"),
                   infer_panic |-> cnt.infer_panic + B2N(ev.infer = "panic"),
                   run_fail |-> cnt.run_fail + B2N(ev.run # "ok"),
                   claims |-> cnt.claims + (IF cons THEN NClaims(ev.so, ev.outs) ELSE 0),
                   undef_claims |-> cnt.undef_claims + (IF cons THEN NUndef(ev.so, ev.outs, env) ELSE 0),
                   unknown_outs |-> cnt.unknown_outs + (IF cons THEN Cardinality({j \in 1..Len(ev.so) : ev.so[j].k = "unknown"}) ELSE 0),
                   drv_diff |-> cnt.drv_diff + B2N(ev.drv = "diff")]
  /\ UNCHANGED k

Next == /\ l <= NRec /\ l' = l + 1 /\ (Case \/ Ret)

Report == l = NRec + 1 =>
  /\ ReportBad(nbad)
  /\ Stat("cases", cnt.cases) /\ Stat("judged", cnt.judged) /\ Stat("discarded", cnt.discarded)
  /\ Stat("no_rule", cnt.no_rule) /\ Stat("infer_err", cnt.infer_err) /\ Stat("infer_err_run_ok", cnt.infer_err_run_ok)
  /\ Stat("infer_panic", cnt.infer_panic) /\ Stat("run_fail", cnt.run_fail) /\ Stat("claims", cnt.claims)
  /\ Stat("undef_claims", cnt.undef_claims) /\ Stat("unknown_outs", cnt.unknown_outs) /\ Stat("drv_diff", cnt.drv_diff)
=============================================================================
