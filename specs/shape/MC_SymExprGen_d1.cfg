CONSTANTS Mode = "all" Depth = 1 Count = 0 LeafSet = "full" Seed = 0
INIT Init
NEXT Next
INVARIANT Emit
CHECK_DEADLOCK FALSE
