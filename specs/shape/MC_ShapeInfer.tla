---------------------------- MODULE MC_ShapeInfer ----------------------------
(* Design-level check of the C10 contract machinery on a transcribed rule:     *)
(* the broadcasting rule of rten-shape-inference `BinaryOp` (used by every      *)
(* binary / variadic / Where operator) is transcribed below and checked, for    *)
(* EVERY pair of concrete shapes of rank <= 2 with dims 0..3 and EVERY          *)
(* abstraction of each dim (fixed / own positive symbol / symbol shared by       *)
(* equal sizes), against concrete ONNX broadcasting with ShapeInfer.Verdict.    *)
(* It also checks that Unify accepts every abstraction built this way.          *)
EXTENDS ShapeInfer, TLC

VARIABLES a, b, ka, kb

Dims == 0..3
Shapes == UNION {[1..n -> Dims] : n \in 0..2}
Init == /\ a \in Shapes /\ b \in Shapes
        /\ ka \in [DOMAIN a -> {"fix", "own", "shared"}]
        /\ kb \in [DOMAIN b -> {"fix", "own", "shared"}]
Next == UNCHANGED <<a, b, ka, kb>>

Shared == <<"n0", "n1", "n2", "n3">>
OwnA == <<"a1", "a2">>
OwnB == <<"b1", "b2">>
SymDim(own, j, d, kind) ==
  CASE kind = "fix" -> Val(d) [] kind = "own" -> Var(own[j], TRUE) [] kind = "shared" -> Var(Shared[d + 1], TRUE)
SymShape(s, kinds, own) == [j \in DOMAIN s |-> SymDim(own, j, s[j], kinds[j])]
EnvRecs(s, kinds, own) == {[s |-> SymDim(own, j, s[j], kinds[j]).s, v |-> s[j], pos |-> TRUE] : j \in {i \in DOMAIN s : kinds[i] # "fix"}}

SetToSeq(S) == CHOOSE q \in [1..Cardinality(S) -> S] : \A i, j \in DOMAIN q : i # j => q[i] # q[j]

\* --- transcription of BinaryOp::infer_shapes (rten-shape-inference/src/infer_shapes.rs) ---
Pad(s, n) == [i \in 1..n |-> IF i <= n - Len(s) THEN Val(1) ELSE s[i - (n - Len(s))]]
DimRule(x, y) ==
  IF x = y THEN x
  ELSE IF x = Val(1) THEN y
  ELSE IF y = Val(1) THEN x
  ELSE IF x.op = "Val" /\ y.op = "Val" THEN [op |-> "err"]
  ELSE IF x.op = "Var" /\ y.op = "Val" THEN y
  ELSE IF x.op = "Val" /\ y.op = "Var" THEN x
  ELSE Bin("Broadcast", x, y)
BinaryRule(sa, sb) ==
  LET n == IF Len(sa) >= Len(sb) THEN Len(sa) ELSE Len(sb)
      pa == Pad(sa, n)  pb == Pad(sb, n)
  IN [i \in 1..n |-> DimRule(pa[i], pb[i])]

\* --- concrete ONNX broadcasting ---
PadC(s, n) == [i \in 1..n |-> IF i <= n - Len(s) THEN 1 ELSE s[i - (n - Len(s))]]
ConcOK(x, y) == x = y \/ x = 1 \/ y = 1
ConcDim(x, y) == IF x = 1 THEN y ELSE x
Conc(ca, cb) ==
  LET n == IF Len(ca) >= Len(cb) THEN Len(ca) ELSE Len(cb)
      pa == PadC(ca, n)  pb == PadC(cb, n)
  IN [ok |-> \A i \in 1..n : ConcOK(pa[i], pb[i]), shape |-> [i \in 1..n |-> ConcDim(pa[i], pb[i])]]

CT(s) == [p |-> TRUE, dt |-> "f32", shape |-> s, hv |-> FALSE, vals |-> <<>>]
ST(x) == [k |-> "shape", x |-> x]

Sound ==
  LET sa == SymShape(a, ka, OwnA)  sb == SymShape(b, kb, OwnB)
      recs == EnvRecs(a, ka, OwnA) \cup EnvRecs(b, kb, OwnB)
      envrecs == SetToSeq(recs)
      ins == <<CT(a) @@ ST(sa), CT(b) @@ ST(sb)>>
      r == BinaryRule(sa, sb)
      c == Conc(a, b)
  IN /\ Consistent(ins, envrecs)
     /\ ((\A i \in DOMAIN r : r[i].op # "err") /\ c.ok)
          => Verdict(<<ST(r)>>, <<CT(c.shape)>>, EnvOf(envrecs)) = NoVerdict
\* The checker itself rejects a wrong claim (the rule with the operands' first dims swapped in the result).
Sensitive ==
  (Len(a) = 1 /\ Len(b) = 1 /\ a[1] = 2 /\ b[1] = 1 /\ ka[1] = "fix")
    => Verdict(<<ST(<<Val(1)>>)>>, <<CT(<<2>>)>>, <<>>) # NoVerdict
=============================================================================
