INIT Init
NEXT Next
INVARIANTS Sound Sensitive
CHECK_DEADLOCK FALSE
