--------------------------- MODULE MC_SymExprGen ---------------------------
(* Generator of C11 test vectors: TLC enumerates (Mode = "all") every         *)
(* expression tree of depth <= Depth over the chosen leaves, or draws         *)
(* (Mode = "rand") Count random trees of depth <= Depth, and prints each as   *)
(* JSON.  The harness replays them on SymExpr::{simplify, range, is_positive}.*)
EXTENDS SymExpr, TLC, Json

CONSTANTS Mode, Depth, Count, LeafSet, Seed

VARIABLES i, t, gen

X == Var("x", TRUE)  Y == Var("y", TRUE)  Z == Var("z", FALSE)
FullLeaves == <<Val(-2), Val(0), Val(1), Val(3), Val(MAXI), Val(MINI + 1), X, Y, Z>>
SmallLeaves == <<Val(-2), Val(1), X, Z>>
MidLeaves == <<Val(-2), Val(0), Val(1), X, Z>>
LeafSeq == CASE LeafSet = "full" -> FullLeaves [] LeafSet = "small" -> SmallLeaves [] LeafSet = "mid" -> MidLeaves
Leaves == {LeafSeq[j] : j \in DOMAIN LeafSeq}

\* Weighted choices of the pseudo-random mode: the i32 extremes and Broadcast (whose contract
\* makes most assignments fall outside the quantification) are rarer, divisions more frequent.
RandLeaves == <<Val(-2), Val(-2), Val(0), Val(1), Val(1), Val(3), Val(3), Val(MAXI), Val(MINI + 1),
                X, X, X, Y, Y, Z, Z>>
RandOps == <<"Add", "Add", "Sub", "Sub", "Mul", "Mul", "Mul", "Div", "Div", "Div",
             "DivCeil", "DivCeil", "DivCeil", "Max", "Min", "Broadcast">>

\* Pseudo-random trees, reproducible from Seed.  The generator state <<s1, s2, s3>> is a
\* Wichmann-Hill triple of small Lehmer generators (every product stays far below 2^31);
\* it advances once per tree.  The choice made at tree position j (heap numbering: root 1,
\* operands 2j and 2j+1) is a hash of the state and j, so no state is threaded through the
\* recursion.
G0 == <<(Seed % 30268) + 1, ((Seed \div 7) % 30306) + 1, ((Seed \div 11) % 30322) + 1>>
Step(g) == <<(171 * g[1]) % 30269, (172 * g[2]) % 30307, (170 * g[3]) % 30323>>
H(g, j, n) == (((g[1] * ((2 * j) + 1)) % 30269) + ((g[2] * ((3 * j) + 2)) % 30307)
               + ((g[3] * ((5 * j) + 3)) % 30323)) % n          \* in 0..n-1

RECURSIVE RandTree(_, _, _)
RandTree(d, g, j) ==
  LET k == H(g, 4 * j, 20) IN
  IF d = 0 \/ (j > 1 /\ k <= 1) THEN RandLeaves[H(g, (4 * j) + 1, Len(RandLeaves)) + 1]      \* (early) leaf
  ELSE IF k <= 3 THEN Neg(RandTree(d - 1, g, 2 * j))
  ELSE Bin(RandOps[H(g, (4 * j) + 2, Len(RandOps)) + 1], RandTree(d - 1, g, 2 * j), RandTree(d - 1, g, (2 * j) + 1))

Init == IF Mode = "all"
        THEN i = 0 /\ gen = G0 /\ t \in Trees(Leaves, BinOps, Depth)
        ELSE i = 1 /\ gen = Step(G0) /\ t = RandTree(Depth, G0, 1)
Next == /\ Mode = "rand" /\ i < Count
        /\ i' = i + 1 /\ t' = RandTree(Depth, gen, 1) /\ gen' = Step(gen)

Emit == PrintT(<<"REPLAY", ToJson(t)>>)
=============================================================================
