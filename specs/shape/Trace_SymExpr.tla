--------------------------- MODULE Trace_SymExpr ---------------------------
(* C11 - SymExprCheck.  Trace validation of what the real                     *)
(* rten_shape_inference::SymExpr::{simplify, range, is_positive} returned for  *)
(* TLC-generated expression trees.  The property                              *)
(*                                                                            *)
(*   for every assignment env of the symbols (>= 0 for positive symbols)      *)
(*   under which the original expression e evaluates without division by zero *)
(*   or overflow:  simplify(e) evaluates to the same value, range(e) contains *)
(*   it, and is_positive(e) implies it is >= 0                                *)
(*                                                                            *)
(* is evaluated HERE, for ALL assignments over -EnvNeg..EnvHi, with the       *)
(* reference semantics of specs/lib/SymExpr.tla.                              *)
(*                                                                            *)
(* Readings (the weakest that is still what the statement says):              *)
(*  R1 "e evaluates": checked i32 arithmetic (Eval); an assignment that breaks*)
(*     the documented contract of a Broadcast node of e (operands >= 0, equal *)
(*     or 1; also the pair {0,1}, where Max and tensor broadcasting disagree) *)
(*     is outside the quantification.                                         *)
(*  R2 "the simplified expression evaluates to the same value": the simplified*)
(*     expression is evaluated in checked arithmetic with Broadcast = Max (the*)
(*     documented meaning).  It is flagged when it yields ANOTHER value, when *)
(*     it divides by zero, or when it mentions a symbol e does not have.  When*)
(*     an intermediate result of the simplified expression overflows i32 the  *)
(*     case is NOT judged (its value over the integers is then unknown here); *)
(*     such cases are counted (simp_ovf), and those where the wrapping        *)
(*     evaluation of a release build differs from e's value as simp_ovf_diff. *)
(*  R3 range() and is_positive() are judged for every subexpression (each is  *)
(*     an expression in its own right); the signature names the innermost     *)
(*     (first in post-order) offending node, so an unsound operand is not     *)
(*     blamed on its parent.  simplify() is judged at the root; on failure the*)
(*     innermost subexpression whose own simplify() fails is named.           *)
(*  R4 a panic inside simplify/range/is_positive is "no result": counted,     *)
(*     never a violation (the statement does not mention panics).             *)
EXTENDS TraceLib, SymExpr

CONSTANTS EnvNeg, EnvHi     \* symbol values range over -EnvNeg..EnvHi (cfg files take no negative numbers)
EnvLo == -EnvNeg

VARIABLES l, nbad, k, cnt

NoCase == [id |-> -1]
Zero == [cases |-> 0, vacuous |-> 0, panics |-> 0, nodes |-> 0, envs |-> 0, changed |-> 0,
         simp_ovf |-> 0, simp_ovf_diff |-> 0]
Init == l = 1 /\ nbad = NoBad /\ k = NoCase /\ cnt = Zero

ev == Rec[l]

\* Subexpressions in post-order (operands before the node).
RECURSIVE PostOrder(_)
PostOrder(t) ==
  IF Len(t.a) = 0 THEN <<t>>
  ELSE IF Len(t.a) = 1 THEN PostOrder(t.a[1]) \o <<t>>
  ELSE PostOrder(t.a[1]) \o PostOrder(t.a[2]) \o <<t>>

EnvsOf(n) == Envs(Syms(n), EnvLo, EnvHi)

\* Verdict on simplify for (sub)expression n under env, given x = Eval(n, env):
\*   "ok", "skip" (x undefined, or simplify panicked), "ovf" / "ovf_diff" (not judged, see R2),
\*   "other_value", "no_value"
SimpClass(n, env, x) ==
  IF ~x.ok \/ ~n.sok THEN "skip"
  ELSE LET y == EvalMax(n.simp, env) IN
       IF y.ok THEN (IF y.v = x.v THEN "ok" ELSE "other_value")
       ELSE IF y.why = "ovf" THEN (IF EvalW(n.simp, env) = x THEN "ovf" ELSE "ovf_diff")
       ELSE "no_value"
SimpBad(c) == c \in {"other_value", "no_value"}

\* All assignments of (sub)expression n in one pass: the set of tuples
\*   <<defined, range() excludes the value, is_positive() but value < 0, simplify class>>
\* (the simplify class is computed at the root only, see R3).
Flags(n, root) ==
  {LET x == Eval(n, env) IN
   <<x.ok,
     x.ok /\ n.rok /\ ~(n.lo <= x.v /\ x.v <= n.hi),
     x.ok /\ n.iok /\ n.ip /\ x.v < 0,
     IF root THEN SimpClass(n, env, x) ELSE "skip">> : env \in EnvsOf(n)}

FirstWith(F, c) ==
  LET bad == {i \in DOMAIN F : \E f \in F[i] : f[c]} IN
  IF bad = {} THEN 0 ELSE CHOOSE i \in bad : \A j \in bad : i <= j

\* Blame for a failed simplify: the first node in post-order whose own simplify() result fails.
SimplifyClasses(n) == {SimpClass(n, env, Eval(n, env)) : env \in EnvsOf(n)}
FirstSimplifyBad(nodes) ==
  CHOOSE i \in 1..Len(nodes) :
    /\ \E c \in SimplifyClasses(nodes[i]) : SimpBad(c)
    /\ \A j \in 1..(i - 1) : \A c \in SimplifyClasses(nodes[j]) : ~SimpBad(c)

\* Kind of the i-th operand as simplify() sees it (simplify rewrites operands first).
OpOf(t, i) == IF Len(t.a) < i THEN ""
              ELSE IF t.a[i].sok THEN t.a[i].simp.op ELSE t.a[i].op
B2N(b) == IF b THEN 1 ELSE 0

Case == /\ ev.ev = "case"
        /\ k' = ev
        /\ UNCHANGED <<nbad, cnt>>

Res ==
  /\ ev.ev = "res" /\ ev.id = k.id
  /\ Plain(ev.t) = k.e                  \* the harness built the tree TLC generated
  /\ LET t == ev.t
         nodes == PostOrder(t)
         N == Len(nodes)
         F == [i \in 1..N |-> Flags(nodes[i], i = N)]      \* the root is last in post-order
         rb == FirstWith(F, 2)
         pb == FirstWith(F, 3)
         sc == {f[4] : f \in F[N]}           \* simplify is judged at the root (R3)
         sb == IF \E c \in sc : SimpBad(c) THEN FirstSimplifyBad(nodes) ELSE 0
         b1 == IF rb = 0 THEN nbad
               ELSE Flag(nbad, FALSE, [api |-> "range", node |-> nodes[rb].op],
                         [id |-> ev.id, e |-> k.e, sub |-> Plain(nodes[rb]),
                          lo |-> nodes[rb].lo, hi |-> nodes[rb].hi])
         b2 == IF pb = 0 THEN b1
               ELSE Flag(b1, FALSE, [api |-> "is_positive", node |-> nodes[pb].op],
                         [id |-> ev.id, e |-> k.e, sub |-> Plain(nodes[pb])])
         b3 == IF sb = 0 THEN b2
               ELSE LET n == nodes[sb] IN
                    Flag(b2, FALSE, [api |-> "simplify", node |-> n.op, lhs |-> OpOf(n, 1),
                                     how |-> IF "other_value" \in SimplifyClasses(n) THEN "other_value" ELSE "no_value"],
                         [id |-> ev.id, e |-> k.e, sub |-> Plain(n), simp |-> n.simp])
     IN /\ nbad' = b3
        /\ cnt' = [cases |-> cnt.cases + 1,
                   vacuous |-> cnt.vacuous + B2N(\A f \in F[N] : ~f[1]),
                   panics |-> cnt.panics + Cardinality({i \in 1..Len(nodes) :
                                 ~nodes[i].rok \/ ~nodes[i].iok \/ ~nodes[i].sok}),
                   nodes |-> cnt.nodes + N,
                   envs |-> cnt.envs + Cardinality(EnvsOf(t)),
                   changed |-> cnt.changed + B2N(t.sok /\ t.simp # Plain(t)),
                   simp_ovf |-> cnt.simp_ovf + B2N(sc \cap {"ovf", "ovf_diff"} # {}),
                   simp_ovf_diff |-> cnt.simp_ovf_diff + B2N("ovf_diff" \in sc)]
  /\ UNCHANGED k

Next == /\ l <= NRec /\ l' = l + 1 /\ (Case \/ Res)

Report == l = NRec + 1 =>
            /\ ReportBad(nbad)
            /\ Stat("cases", cnt.cases) /\ Stat("vacuous", cnt.vacuous) /\ Stat("panics", cnt.panics)
            /\ Stat("nodes", cnt.nodes) /\ Stat("envs", cnt.envs) /\ Stat("changed", cnt.changed)
            /\ Stat("simp_ovf", cnt.simp_ovf) /\ Stat("simp_ovf_diff", cnt.simp_ovf_diff)
=============================================================================
