----------------------------- MODULE ShapeInfer -----------------------------
(* C10 contract: shape inference never contradicts execution.                 *)
(*                                                                            *)
(* A symbolic tensor is [k, x]: k \in {"none","unknown","shape","vec",        *)
(* "scalar"} and x the sequence of dimension sizes (k = "shape") or of         *)
(* elements (k = "vec" / "scalar") as SymExpr trees.  A concrete tensor is     *)
(* [p, dt, shape, hv, vals]: present?, dtype, dims, values logged?, values.    *)
(*                                                                            *)
(* Unify: the assignment of the input symbols comes with the case (the        *)
(* abstraction that produced the symbolic inputs knows it); it is ACCEPTED    *)
(* only if every symbolic input dimension / element evaluates under it to the *)
(* concrete one, ranks and lengths agree and positive symbols are >= 0.       *)
(* Otherwise the concrete input is not an instance of the symbolic input and  *)
(* the case is outside the property (discarded, counted).                     *)
(*                                                                            *)
(* Contract, for every output both inferred and executed:                     *)
(*   rank  : an inferred shape/vector/scalar has the executed rank            *)
(*   len   : an inferred vector has the executed length                       *)
(*   fixed : an inferred fixed dim / element (a claimed constant) equals the  *)
(*           executed one                                                     *)
(*   expr  : an inferred expression evaluates (SymExpr.Eval, checked i32      *)
(*           arithmetic) to the executed dim / element; an expression that    *)
(*           has no value under the assignment (overflow, division by zero,   *)
(*           Broadcast outside its contract, a symbol that inference invented *)
(*           and that nothing determines) claims nothing                      *)
(*   fresh : a symbol invented by inference ("unknown_N") is existentially    *)
(*           quantified: it is bound by its bare occurrences in the outputs;  *)
(*           two bare occurrences with different executed values, or a        *)
(*           positive one with a negative value, have no satisfying           *)
(*           assignment                                                       *)
EXTENDS SymExpr

SeqRange(q) == {q[i] : i \in DOMAIN q}

EnvOf(envrecs) ==
  [n \in {e.s : e \in SeqRange(envrecs)} |-> (CHOOSE e \in SeqRange(envrecs) : e.s = n).v]

\* <<expression, executed value>> pairs an inferred tensor s makes claims about, given the
\* executed tensor c (only where rank / length agree; values only when they were logged).
Pairs(s, c) ==
  CASE s.k = "shape" -> IF Len(s.x) = Len(c.shape) THEN {<<s.x[j], c.shape[j], "dim">> : j \in DOMAIN s.x} ELSE {}
    [] s.k = "vec" -> IF c.shape = <<Len(s.x)>> /\ c.hv THEN {<<s.x[j], c.vals[j], "elem">> : j \in DOMAIN s.x} ELSE {}
    [] s.k = "scalar" -> IF c.shape = <<>> /\ c.hv THEN {<<s.x[1], c.vals[1], "elem">>} ELSE {}
    [] OTHER -> {}

RankOK(s, c) ==
  CASE s.k = "shape" -> Len(s.x) = Len(c.shape)
    [] s.k = "vec" -> Len(c.shape) = 1
    [] s.k = "scalar" -> Len(c.shape) = 0
    [] OTHER -> TRUE
LenOK(s, c) == (s.k = "vec" /\ Len(c.shape) = 1) => c.shape[1] = Len(s.x)

\* ---- Unify ----
SymbolsOK(t, env) == \A p \in Syms(t) : p[1] \in DOMAIN env /\ (p[2] => env[p[1]] >= 0)

InputMatches(i, env) ==
  IF ~i.p THEN i.k = "none"
  ELSE CASE i.k \in {"none", "unknown"} -> i.k = "unknown"
         [] OTHER ->
            /\ RankOK(i, i) /\ LenOK(i, i)
            /\ (i.k \in {"vec", "scalar"} => i.hv)
            /\ \A j \in DOMAIN i.x : SymbolsOK(i.x[j], env)
            /\ Cardinality(Pairs(i, i)) >= 0
            /\ \A pr \in Pairs(i, i) : Eval(pr[1], env) = Def(pr[2])
            \* every dim / element is covered by a pair when rank and length agree
            /\ (i.k = "shape" => Len(i.x) = Len(i.shape))

Consistent(ins, envrecs) ==
  LET env == EnvOf(envrecs) IN
  /\ \A e \in SeqRange(envrecs) : e.pos => e.v >= 0
  /\ \A a, b \in SeqRange(envrecs) : a.s = b.s => a = b
  /\ \A k \in DOMAIN ins : InputMatches(ins[k], env)

\* ---- contract ----
NOut(so, outs) == IF Len(so) <= Len(outs) THEN Len(so) ELSE Len(outs)
Judged(so, outs) == {j \in 1..NOut(so, outs) : outs[j].p /\ outs[j].dt # "seq" /\ so[j].k \notin {"none", "unknown"}}

AllPairs(so, outs) == UNION {Pairs(so[j], outs[j]) : j \in Judged(so, outs)}
Bare(t, env) == t.op = "Var" /\ t.s \notin DOMAIN env
FreshBinds(so, outs, env) == {<<p[1].s, p[2]>> : p \in {q \in AllPairs(so, outs) : Bare(q[1], env)}}
Env2(so, outs, env) ==
  LET fb == FreshBinds(so, outs, env) IN
  [n \in DOMAIN env \cup {b[1] : b \in fb} |->
     IF n \in DOMAIN env THEN env[n] ELSE (CHOOSE b \in fb : b[1] = n)[2]]

NoVerdict == [what |-> "", claim |-> "", expr |-> "", val |-> ""]
SignClass(x) == IF x < 0 THEN "neg" ELSE IF x = 0 THEN "zero" ELSE "pos"
\* The first broken claim in the order rank, len, fixed, expr, fresh; "" if none.
\* Result: [what, claim, expr]: what \in {"rank","len","dim","elem","fresh",""}, claim \in {"fixed","expr",""},
\* expr = root operator of the offending expression, val = sign class ("neg","zero","pos") of the value
\* inference claims (a negative dimension is a class of its own).
Verdict(so, outs, env) ==
  LET J == Judged(so, outs)
      P == AllPairs(so, outs)
      fb == FreshBinds(so, outs, env)
      env2 == Env2(so, outs, env)
      wrong(p) == LET e == Eval(p[1], env2) IN e.ok /\ e.v # p[2]
      fixedBad == {p \in P : p[1].op = "Val" /\ p[1].v # p[2]}
      exprBad == {p \in P : p[1].op # "Val" /\ ~Bare(p[1], env) /\ wrong(p)}
      freshBad == (\E a, b \in fb : a[1] = b[1] /\ a[2] # b[2])
                  \/ (\E p \in P : Bare(p[1], env) /\ p[1].pos /\ p[2] < 0)
  IN IF \E j \in J : ~RankOK(so[j], outs[j]) THEN [what |-> "rank", claim |-> "", expr |-> "", val |-> ""]
     ELSE IF \E j \in J : ~LenOK(so[j], outs[j]) THEN [what |-> "len", claim |-> "", expr |-> "", val |-> ""]
     ELSE IF fixedBad # {}
          THEN LET p == CHOOSE q \in fixedBad : TRUE IN
               [what |-> p[3], claim |-> "fixed", expr |-> "Val", val |-> SignClass(p[1].v)]
     ELSE IF freshBad THEN [what |-> "fresh", claim |-> "", expr |-> "", val |-> ""]
     ELSE IF exprBad # {}
          THEN LET p == CHOOSE q \in exprBad : TRUE IN
               [what |-> p[3], claim |-> "expr", expr |-> p[1].op, val |-> SignClass(Eval(p[1], env2).v)]
     ELSE NoVerdict

\* Counters for the evidence file.
NClaims(so, outs) == Cardinality(AllPairs(so, outs))
NUndef(so, outs, env) ==
  LET env2 == Env2(so, outs, env) IN
  Cardinality({p \in AllPairs(so, outs) : ~Eval(p[1], env2).ok})
=============================================================================
