--------------------------- MODULE MC_SymExprLib ---------------------------
(* Model-checks the arithmetic of specs/lib/SymExpr.tla against independent  *)
(* characterisations, on a value set containing the i32 extremes, powers of  *)
(* two and their neighbours and all small numbers.  One state; the work is   *)
(* in the invariants.                                                        *)
EXTENDS SymExpr, TLC

VARIABLE u
Init == u = 0
Next == UNCHANGED u

Small == -9..9
Big == {MAXI, MAXI - 1, MAXI - 2, MINI, MINI + 1, MINI + 2,
        65535, 65536, 65537, -65535, -65536, -65537,
        46340, 46341, -46340, -46341,            \* floor(sqrt(2^31)) and next
        32767, 32768, -32768, -32769, 255, 256, 257, -255, -256, -257,
        1073741823, 1073741824, -1073741824, -1073741825,
        715827882, 715827883, -715827882, -715827883,  \* 2^31 / 3
        123456789, -987654321}
S == Small \cup Big

Sign(a) == IF a > 0 THEN 1 ELSE IF a < 0 THEN -1 ELSE 0
AbsLe(a, b) == \* |a| <= |b| without negating MINI
  LET na == IF a > 0 THEN -a ELSE a  nb == IF b > 0 THEN -b ELSE b IN na >= nb
AbsLt(a, b) ==
  LET na == IF a > 0 THEN -a ELSE a  nb == IF b > 0 THEN -b ELSE b IN na > nb

\* Overflow of a + b  <=>  operands have the same sign and the wrapped sum has the other one.
AddInv == u = 0 => \A a, b \in S :
  /\ AddOK(a, b) = ~(((a >= 0) = (b >= 0)) /\ ((WAdd(a, b) >= 0) # (a >= 0)))
  /\ WAdd(a, b) = WAdd(b, a)
  /\ WSub(WAdd(a, b), b) = a
  /\ SubOK(a, b) = (IF b = MINI THEN a < 0 ELSE AddOK(a, -b))
  /\ WAdd(a, WNeg(b)) = WSub(a, b)

\* Truncating division: a = q * b + r, |r| < |b|, r = 0 or sign(r) = sign(a).
DivInv == u = 0 => \A a, b \in S : DivOK(a, b) =>
  LET q == TruncDiv(a, b) r == TruncRem(a, b) IN
  /\ MulOK(q, b) /\ AddOK(q * b, r) /\ q * b + r = a
  /\ AbsLt(r, b) /\ (r = 0 \/ Sign(r) = Sign(a))
  \* ceiling: q' = q or q + 1; q' * b is the first multiple at or beyond a in the direction of +b's quotient order
  /\ LET c == CeilDiv(a, b) IN
     /\ (c = q \/ (q < MAXI /\ c = q + 1))
     /\ (r = 0) => c = q
     /\ (r # 0) => (c # q) = (Sign(a) = Sign(b))      \* exact quotient positive => round up

\* Multiplication: the classic division test for overflow of the wrapped product, and ring laws.
MulInv == u = 0 => \A a, b \in S :
  /\ WMul(a, b) = WMul(b, a)
  /\ (b # 0 /\ ~(b = -1 /\ a = MINI)) =>
       (MulOK(a, b) = (IF DivOK(WMul(a, b), b)
                       THEN TruncDiv(WMul(a, b), b) = a /\ TruncRem(WMul(a, b), b) = 0
                       ELSE FALSE))
  /\ WMul(a, 2) = WAdd(a, a)
  /\ WMul(a, -1) = WNeg(a)
  /\ WMul(a, 3) = WAdd(a, WAdd(a, a))
MulDistrib == u = 0 => \A a, b \in S : \A c \in Small \cup {MAXI, MINI, 65536, 46341, 123456789} :
  WMul(a, WAdd(b, c)) = WAdd(WMul(a, b), WMul(a, c))
MulAssoc == u = 0 => \A a, b \in Big : \A c \in {3, -7, 65537, MAXI, MINI, 46341} :
  WMul(a, WMul(b, c)) = WMul(WMul(a, b), c)

\* Eval on hand-written expressions.
x == Var("x", TRUE)  z == Var("z", FALSE)
env == [x |-> 0, z |-> -3]
EvalInv ==
  /\ u = 0
  /\ Eval(Bin("Add", Val(MAXI), Val(1)), env) = Fail("ovf")
  /\ EvalW(Bin("Add", Val(MAXI), Val(1)), env) = Def(MINI)
  /\ Eval(Bin("Div", Val(-7), Val(2)), env) = Def(-3)
  /\ Eval(Bin("DivCeil", Val(-7), Val(2)), env) = Def(-3)
  /\ Eval(Bin("DivCeil", Val(7), Val(2)), env) = Def(4)
  /\ Eval(Bin("DivCeil", Val(7), Val(-2)), env) = Def(-3)
  /\ Eval(Bin("DivCeil", Val(-7), Val(-2)), env) = Def(4)
  /\ Eval(Bin("Div", Val(1), x), env) = Fail("div0")
  /\ Eval(Bin("Div", Val(MINI), Val(-1)), env) = Fail("ovf")
  /\ Eval(Neg(Val(MINI)), env) = Fail("ovf")
  /\ Eval(Bin("Mul", z, Val(715827883)), env) = Fail("ovf")
  /\ Eval(Bin("Mul", z, Val(715827882)), env) = Def(-2147483646)
  /\ Eval(Bin("Broadcast", x, Val(3)), env) = Fail("bcast")
  /\ EvalMax(Bin("Broadcast", x, Val(3)), env) = Def(3)
  /\ Eval(Bin("Add", Bin("Mul", Val(MAXI), Val(2)), Bin("Div", Val(1), x)), env) = Fail("div0")
  /\ Eval(Bin("Add", Var("w", TRUE), Val(2)), env) = Fail("unbound")
  /\ Eval(Bin("Broadcast", Val(1), Val(3)), env) = Def(3)
  /\ Eval(Bin("Broadcast", Val(1), x), env) = Fail("bcast")          \* {0,1}: unspecified
  /\ Eval(Bin("Max", z, Bin("Min", x, Val(3))), env) = Def(0)
  /\ Syms(Bin("Max", z, Bin("Min", x, Val(3)))) = {<<"x", TRUE>>, <<"z", FALSE>>}
  /\ Cardinality(Envs({<<"x", TRUE>>, <<"z", FALSE>>}, -3, 4)) = 40
  /\ Cardinality(Trees({Val(1), x}, {"Add", "Div"}, 1)) = 2 + 2 + 8
=============================================================================
