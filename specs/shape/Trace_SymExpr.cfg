CONSTANTS EnvNeg = 3 EnvHi = 4
INIT Init
NEXT Next
INVARIANT Report
POSTCONDITION Accepted
CHECK_DEADLOCK FALSE
