----------------------------- MODULE TypeRules -----------------------------
(* Semantics of the operator output-type rules (src/operator.rs OutputType)   *)
(* and of their propagation over a graph (src/infer_shapes.rs), C12.          *)
(*                                                                            *)
(* A value type is a string: "f32" "i32" "i8" "u8" (tensor of that element    *)
(* type), "seq_f32" ... (sequence of tensors), "none" (input not connected)   *)
(* or "unknown" (no prediction).                                              *)
(* A rule is a record [kind, vt, idx]:                                        *)
(*   kind "fixed"    -> the output has type vt          (OutputType::Fixed)   *)
(*        "copy"     -> type of input idx               (CopyFromInput)       *)
(*        "elem_of"  -> element tensor type of the sequence input idx         *)
(*                                               (ElementTypeOfInputSequence) *)
(*        "seq_of"   -> sequence with the element type of input idx           *)
(*                                           (SequenceWithElementTypeOfInput) *)
(* idx is 0-based as in the Rust code.                                        *)
EXTENDS Naturals, Sequences

Elem == {"f32", "i32", "i8", "u8"}
SeqOf(e) == "seq_" \o e
TensorTypes == Elem
SeqTypes == {SeqOf(e) : e \in Elem}
ValueTypes == TensorTypes \cup SeqTypes

ElemOf(t) == CHOOSE e \in Elem : t = e \/ t = SeqOf(e)
IsKnown(t) == t \in ValueTypes
ToTensor(t) == ElemOf(t)            \* ValueType::to_tensor_type
ToSequence(t) == SeqOf(ElemOf(t))   \* ValueType::to_sequence_type

\* Type of input idx (0-based) or "unknown" when it is absent / unknown.
InputType(inTypes, idx) ==
  IF idx + 1 \in DOMAIN inTypes /\ IsKnown(inTypes[idx + 1]) THEN inTypes[idx + 1] ELSE "unknown"

\* The prediction type inference makes for one output.
Predict(rule, inTypes) ==
  CASE rule.kind = "fixed"   -> IF IsKnown(rule.vt) THEN rule.vt ELSE "unknown"
    [] rule.kind = "copy"    -> InputType(inTypes, rule.idx)
    [] rule.kind = "elem_of" -> LET t == InputType(inTypes, rule.idx) IN
                                IF IsKnown(t) THEN ToTensor(t) ELSE "unknown"
    [] rule.kind = "seq_of"  -> LET t == InputType(inTypes, rule.idx) IN
                                IF IsKnown(t) THEN ToSequence(t) ELSE "unknown"
    [] OTHER                 -> "unknown"

\* C12 for one produced output: a prediction, when there is one, equals the
\* type the operator produced.
OutputTypeOk(rule, inTypes, actual) ==
  LET p == Predict(rule, inTypes) IN p = "unknown" \/ p = actual

\* Graph level (src/infer_shapes.rs:179).  `nodes` is a sequence of operator
\* nodes in execution order, each [ins, outs, rules, hasRules] with value ids;
\* `env` maps value ids to types (graph inputs / constants, "unknown" if the
\* model does not say).  Inferred types of later nodes use the inferred types
\* of earlier ones, exactly like the `types` map of infer_shapes().
RECURSIVE Propagate(_, _)
Propagate(nodes, env) ==
  IF nodes = <<>> THEN env
  ELSE LET nd == Head(nodes)
           inT == [i \in DOMAIN nd.ins |->
                     IF nd.ins[i] \in DOMAIN env THEN env[nd.ins[i]] ELSE "unknown"]
           k == IF nd.hasRules THEN (IF Len(nd.rules) < Len(nd.outs) THEN Len(nd.rules) ELSE Len(nd.outs)) ELSE 0
           upd == [o \in {nd.outs[i] : i \in 1..k} |->
                     LET i == CHOOSE j \in 1..k : nd.outs[j] = o IN Predict(nd.rules[i], inT)]
           env2 == [v \in DOMAIN env \cup DOMAIN upd |->
                     IF v \in DOMAIN upd /\ upd[v] # "unknown" THEN upd[v]
                     ELSE IF v \in DOMAIN env THEN env[v] ELSE "unknown"]
       IN Propagate(Tail(nodes), env2)
=============================================================================
