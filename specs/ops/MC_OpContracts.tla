--------------------------- MODULE MC_OpContracts ---------------------------
(* Small-scope check that the closed form ExecutorMayTake is exactly the set  *)
(* of calling conventions the transcription of run_plan can produce, and that *)
(* the transcription only ever hands out owned inputs.                        *)
EXTENDS OpContracts, TLC

CONSTANTS N, MaxLen

Pos == 1..N
InRec == [present : BOOLEAN, owned : BOOLEAN, len : 0..MaxLen]
Inputs == [Pos -> InRec]
PresentSet(ins) == {p \in Pos : ins[p].present}

VARIABLES D, comm, ins
vars == <<D, comm, ins>>
\* every configuration of one executor step is an initial state
Init == D \in SUBSET Pos /\ comm \in BOOLEAN /\ ins \in Inputs
Next == UNCHANGED vars

\* 1. soundness: whatever run_plan takes is allowed by the closed form, is
\*    owned, and is connected.
Sound ==
  LET T == Taken(D, comm, ins) IN
  T # {} => /\ ExecutorMayTake(D, comm, PresentSet(ins), T)
            /\ \A p \in T : ins[p].owned /\ ins[p].present

\* 2. completeness: every convention allowed by the closed form is produced by
\*    some ownership / size assignment (so the harness must exercise it).
Complete ==
  \A D0 \in SUBSET Pos : \A c0 \in BOOLEAN : \A P \in SUBSET Pos : \A T \in SUBSET Pos :
    ExecutorMayTake(D0, c0, P, T) =>
      \E i0 \in Inputs : PresentSet(i0) = P /\ Taken(D0, c0, i0) = T

\* 3. a commutative operator can receive a *smaller* operand in place while a
\*    larger one stays a view (the case C13's quantifier calls out).
SmallerTaken ==
  \E i0 \in Inputs :
    /\ N >= 2 /\ Taken({1}, TRUE, i0) = {2}
    /\ i0[1].present /\ i0[1].len > i0[2].len

ASSUME Complete
ASSUME SmallerTaken
=============================================================================
