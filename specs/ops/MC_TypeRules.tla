---------------------------- MODULE MC_TypeRules ----------------------------
(* Sanity properties of the rule semantics over all rules and all input type  *)
(* vectors of length <= 2: predictions are types or "unknown", Fixed ignores  *)
(* the inputs, Copy is the identity on the referenced input, elem_of/seq_of   *)
(* are mutually inverse on sequence/tensor types.                             *)
EXTENDS TypeRules, TLC

InT == ValueTypes \cup {"none", "unknown"}
Rules == [kind : {"fixed", "copy", "elem_of", "seq_of"}, vt : ValueTypes \cup {""}, idx : 0..2]

VARIABLES rule, inTypes
Init == rule \in Rules /\ inTypes \in UNION {[1..n -> InT] : n \in 0..2}
Next == UNCHANGED <<rule, inTypes>>

P == Predict(rule, inTypes)
TypeOrUnknown == P \in ValueTypes \cup {"unknown"}
FixedIgnoresInputs == rule.kind = "fixed" /\ rule.vt \in ValueTypes => P = rule.vt
CopyIsIdentity == rule.kind = "copy" /\ rule.idx + 1 \in DOMAIN inTypes /\ inTypes[rule.idx + 1] \in ValueTypes
                    => P = inTypes[rule.idx + 1]
AbsentIsUnknown == rule.kind # "fixed" /\ (rule.idx + 1 \notin DOMAIN inTypes \/ inTypes[rule.idx + 1] \notin ValueTypes)
                    => P = "unknown"
ElemSeq == rule.kind = "elem_of" /\ P # "unknown" => P \in TensorTypes /\ ToSequence(P) = ToSequence(inTypes[rule.idx + 1])
SeqElem == rule.kind = "seq_of" /\ P # "unknown" => P \in SeqTypes /\ ToTensor(P) = ToTensor(inTypes[rule.idx + 1])
Inv == TypeOrUnknown /\ FixedIgnoresInputs /\ CopyIsIdentity /\ AbsentIsUnknown /\ ElemSeq /\ SeqElem
=============================================================================
