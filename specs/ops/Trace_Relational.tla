-------------------------- MODULE Trace_Relational --------------------------
(* Trace validation for the relational operator properties                    *)
(*   C12  declared output types = produced types        (TypeRules)           *)
(*   C13  in-place / commuted execution = normal        (OpContracts)         *)
(*   C14  results independent of input memory layout    (OpContracts)         *)
(* Case-batch style: a `case` record carries the operator and its logical     *)
(* inputs, the following `run` records carry what the real operator returned  *)
(* for each way of calling it.  The first run of a case (mode "normal" /      *)
(* "base") is the reference the other runs are compared with.                 *)
EXTENDS TraceLib, OpContracts, TypeRules

VARIABLES l, bad, cur, base, cnt

NoCase == [prop |-> "none"]
NoRun == [outcome |-> "none", outputs |-> <<>>]
Cnt0 == [cases |-> 0, runs |-> 0, compared |-> 0, ref_failed |-> 0, bad_convention |-> 0, rounding_only |-> 0,
         err_became_ok |-> 0, typed_outputs |-> 0, untyped_outputs |-> 0, graph_values |-> 0]

Init == l = 1 /\ bad = NoBad /\ cur = NoCase /\ base = NoRun /\ cnt = Cnt0

e == Rec[l]
Bump(c, f) == [c EXCEPT ![f] = @ + 1]
BumpBy(c, f, n) == [c EXCEPT ![f] = @ + n]

Case ==
  /\ e.ev = "case"
  /\ e.prop \in {"C12", "C13", "C14", "C12G"}
  /\ cur' = e /\ base' = NoRun
  /\ cnt' = Bump(cnt, "cases")
  /\ UNCHANGED bad

\* ------------------------------------------------------------------ C13
Present(c) == {p \in 1..Len(c.inputs) : c.inputs[p].dtype # "none"}
OneBased(s) == {s[i] + 1 : i \in DOMAIN s}

Sig13(kind) == [prop |-> "C13", rel |-> e.mode, op |-> cur.op, kind |-> kind, cls |-> cur.cls,
                owned |-> e.owned, dt |-> cur.dt, present |-> cur.present, vals |-> cur.vals]

Run13 ==
  /\ e.ev = "run" /\ cur.prop = "C13"
  /\ CASE e.mode = "normal" ->
            /\ base' = e /\ UNCHANGED bad
            /\ cnt' = Bump(cnt, "runs")
       [] e.mode = "inplace" ->
            /\ base.outcome # "none"      \* a variant run needs its reference run (else: malformed trace)
            /\ UNCHANGED base
            /\ bad' = Flag(bad, InPlaceHolds(cur, base, e), Sig13(DeviationFor(cur, base, e)),
                           [case |-> cur, normal |-> base, run |-> e])
            \* the harness must only call run_in_place the way the executor can
            /\ cnt' = LET ok == ExecutorMayTake(OneBased(cur.in_place), cur.commutative,
                                                Present(cur), OneBased(e.taken))
                          c0 == IF RoundingOnly(cur, base, e) THEN Bump(cnt, "rounding_only") ELSE cnt
                      IN Bump(Bump(IF ok THEN c0 ELSE Bump(c0, "bad_convention"), "runs"),
                              IF base.outcome = "ok" THEN "compared" ELSE "ref_failed")
       [] e.mode = "commuted" ->
            /\ base.outcome # "none"
            /\ UNCHANGED base
            /\ bad' = Flag(bad, CommutedHolds(cur, base, e), Sig13(DeviationFor(cur, base, e)),
                           [case |-> cur, normal |-> base, run |-> e])
            /\ cnt' = Bump(Bump(IF cur.commutative THEN cnt ELSE Bump(cnt, "bad_convention"), "runs"),
                           IF base.outcome = "ok" THEN "compared" ELSE "ref_failed")

\* ------------------------------------------------------------------ C14
Sig14(kind) == [prop |-> "C14", rel |-> "layout", op |-> cur.op, kind |-> kind, cls |-> cur.cls,
                lays |-> e.laycls, dt |-> cur.dt]

Run14 ==
  /\ e.ev = "run" /\ cur.prop = "C14"
  /\ CASE e.mode = "base" ->
            /\ base' = e /\ UNCHANGED bad
            /\ cnt' = Bump(cnt, "runs")
       [] e.mode = "layout" ->
            /\ base.outcome # "none"
            /\ UNCHANGED base
            /\ bad' = Flag(bad, LayoutHolds(cur, base, e), Sig14(DeviationFor(cur, base, e)),
                           [case |-> cur, base |-> base, run |-> e])
            /\ cnt' = LET c0 == IF RoundingOnly(cur, base, e) THEN Bump(cnt, "rounding_only") ELSE cnt
                          c1 == Bump(Bump(c0, "runs"),
                                     IF base.outcome = "ok" THEN "compared" ELSE "ref_failed")
                      IN IF base.outcome # "ok" /\ e.outcome = "ok" THEN Bump(c1, "err_became_ok") ELSE c1

\* ------------------------------------------------------------------ C12
\* Outputs for which both a rule and a produced value exist.
Judged(c, r) == 1..(IF Len(c.rules) < Len(r.outputs) THEN Len(c.rules) ELSE Len(r.outputs))
BadOutputs(c, r) ==
  {i \in Judged(c, r) : ~OutputTypeOk(c.rules[i], c.in_types, r.outputs[i].dtype)}
FirstOf(S) == CHOOSE i \in S : \A j \in S : i <= j

Sig12(i) == [prop |-> "C12", rel |-> "type", op |-> cur.op, key |-> cur.key, out |-> i - 1,
             rule |-> cur.rules[i].kind, predicted |-> Predict(cur.rules[i], cur.in_types),
             actual |-> e.outputs[i].dtype]

Run12 ==
  /\ e.ev = "run" /\ cur.prop = "C12"
  /\ base' = e
  /\ IF e.outcome = "ok" /\ cur.has_rules
     THEN LET B == BadOutputs(cur, e)
              known == {i \in Judged(cur, e) : Predict(cur.rules[i], cur.in_types) # "unknown"}
          IN /\ bad' = IF B = {} THEN bad
                       ELSE Flag(bad, FALSE, Sig12(FirstOf(B)), [case |-> cur, run |-> e])
             /\ cnt' = BumpBy(BumpBy(Bump(Bump(cnt, "runs"), "compared"),
                                     "typed_outputs", Cardinality(known)),
                              "untyped_outputs", Len(e.outputs) - Cardinality(known))
     ELSE /\ UNCHANGED bad
          /\ cnt' = Bump(Bump(cnt, "runs"),
                         IF e.outcome = "ok" THEN "untyped_outputs" ELSE "ref_failed")

\* Graph level: the case carries the operator nodes in plan order with their
\* rule lists and the declared types of graph inputs / constants (env, as a
\* sequence of [id, vt]); the run carries the run-time type of every value the
\* execution produced (sequence of [id, vt]) and what the real infer_shapes()
\* reported (sequence of [id, vt]).
EnvOf(s) == [v \in {s[i].id : i \in DOMAIN s} |-> (LET i == CHOOSE j \in DOMAIN s : s[j].id = v IN s[i].vt)]

\* the operator node that produces value v, and v's position among its outputs
Producer(v) == CHOOSE i \in DOMAIN cur.nodes : \E j \in DOMAIN cur.nodes[i].outs : cur.nodes[i].outs[j] = v
OutIndex(v) == LET nd == cur.nodes[Producer(v)] IN (CHOOSE j \in DOMAIN nd.outs : nd.outs[j] = v) - 1

\* among wrongly labelled values report the one produced earliest in the plan
\* (the operator where the wrong label originates, not a consumer that copies it)
FirstByPlan(S) == CHOOSE v \in S : \A w \in S : Producer(v) < Producer(w) \/ (Producer(v) = Producer(w) /\ v <= w)

Sig12G(v, what, predicted, actual) ==
  [prop |-> "C12", rel |-> what, op |-> cur.nodes[Producer(v)].op, key |-> cur.key, out |-> OutIndex(v),
   rule |-> "", predicted |-> predicted, actual |-> actual]
Sig12Opt(d) == [prop |-> "C12", rel |-> "optimised_output_type", op |-> "graph", key |-> cur.key, out |-> 0,
                rule |-> "", predicted |-> d, actual |-> ""]

Run12G ==
  /\ e.ev = "run" /\ cur.prop = "C12G"
  /\ base' = e
  /\ IF e.outcome = "ok"
     THEN LET spec == Propagate(cur.nodes, EnvOf(cur.env))
              actual == EnvOf(e.actual)
              impl == EnvOf(e.inferred)
              \* contract: a type label (from the spec's propagation or from the
              \* real infer_shapes) never contradicts the run-time type
              wrongSpec == {v \in DOMAIN actual \cap DOMAIN spec :
                              spec[v] # "unknown" /\ actual[v] # "unknown" /\ spec[v] # actual[v]}
              wrongImpl == {v \in DOMAIN actual \cap DOMAIN impl :
                              impl[v] # "unknown" /\ actual[v] # "unknown" /\ impl[v] # actual[v]}
              \* the label the loaded, optimised model shows for a surviving value
              \* (Model::node_info(..).dtype(), written back by the optimiser)
              decl == EnvOf(e.declared)
              wrongDecl == {v \in DOMAIN actual \cap DOMAIN decl :
                              decl[v] # "unknown" /\ actual[v] # "unknown" /\ decl[v] # actual[v]}
              \* CastElimination deletes casts on the strength of the labels: the
              \* optimised model must still produce outputs of the same type
              optDiff == IF e.opt_ok THEN OutputsDiff(e.outs_unopt, e.outs_opt) ELSE "none"
              rec == [case |-> cur, run |-> e]
              b1 == IF wrongImpl # {}
                    THEN LET v == FirstByPlan(wrongImpl) IN
                         Flag(bad, FALSE, Sig12G(v, "graph_inferred", impl[v], actual[v]), rec)
                    ELSE bad
              b2 == IF wrongSpec # {}
                    THEN LET v == FirstByPlan(wrongSpec) IN
                         Flag(b1, FALSE, Sig12G(v, "graph_rules", spec[v], actual[v]), rec)
                    ELSE b1
              b3 == IF optDiff \in {"count", "dtype", "shape"}
                    THEN Flag(b2, FALSE, Sig12Opt(optDiff), rec)
                    ELSE b2
              b4 == IF wrongDecl # {}
                    THEN LET v == FirstByPlan(wrongDecl) IN
                         Flag(b3, FALSE, Sig12G(v, "graph_declared", decl[v], actual[v]), rec)
                    ELSE b3
          IN /\ bad' = b4
             /\ cnt' = BumpBy(Bump(Bump(cnt, "runs"), "compared"), "graph_values", Cardinality(DOMAIN actual))
     ELSE /\ UNCHANGED bad
          /\ cnt' = Bump(Bump(cnt, "runs"), "ref_failed")

Run == /\ (Run13 \/ Run14 \/ Run12 \/ Run12G)
       /\ UNCHANGED cur

Next == /\ l <= NRec /\ l' = l + 1 /\ (Case \/ Run)

Report == l = NRec + 1 =>
            /\ ReportBad(bad)
            /\ \A f \in DOMAIN cnt : Stat(f, cnt[f])
=============================================================================
