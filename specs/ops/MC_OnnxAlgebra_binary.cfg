CONSTANTS
  MaxRank = 2
  MaxDim = 2
  Vals <- ValsA
  YShapes <- YRank1
  YVals <- ValsY
INIT Init
NEXT Next
INVARIANTS
  BroadcastLaws
CHECK_DEADLOCK FALSE
