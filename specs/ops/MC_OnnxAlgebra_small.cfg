CONSTANTS
  MaxRank = 2
  MaxDim = 2
  Vals <- ValsA
  YShapes <- YScalar
  YVals <- ValsY1
INIT Init
NEXT Next
INVARIANTS
  TransposeInvolution ConcatSplitInverse SliceFullRangeIsIdentity ReverseTwiceIsIdentity
  SliceSplitsLikeSplit SliceStepPartition ReshapeRoundTrip SqueezeUnsqueezeInverse TileIsConcat ExpandIdentity
  GatherIdentity GatherElementsVsScatter GatherNDFullIndexIsElement PadThenCrop PadModesOn1D
  ReduceAllIsFold ReduceAxisByAxis CumSumLastIsReduceSum ArgMaxVsTopK ElementwiseLaws
  GeneratorLaws DepthToSpaceLaws DispatcherDefaults
  MatMulLaws ConvPoolLaws ResizeLaws MiscLaws EinsumLaws SequenceLaws
CHECK_DEADLOCK FALSE
