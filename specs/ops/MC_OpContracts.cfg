CONSTANTS
  N = 3
  MaxLen = 2
INIT Init
NEXT Next
INVARIANT Sound
