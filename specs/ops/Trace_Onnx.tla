----------------------------- MODULE Trace_Onnx -----------------------------
(* Trace validation for C15 "Operators conform to ONNX reference semantics".  *)
(* The harness (vh-ops onnxref) runs single-operator ONNX models through      *)
(* rten::Model::run and logs, per case, a `case` record (operator, attributes, *)
(* complete inputs) followed by a `ret` record (what rten did).  The expected  *)
(* outputs are computed HERE by OnnxOps.OnnxEval from the logged inputs and    *)
(* compared exactly (shape, dtype, every element).                             *)
(*                                                                             *)
(* Reading of the property statement (weakest that still says what it says):   *)
(*  * only cases the ONNX documentation defines and OnnxOps models exactly are  *)
(*    judged (OnnxEval .st = "ok"); "undefined"/"unmodelled" are only counted;  *)
(*  * the statement is about outputs produced: a load/run ERROR (`err`) is     *)
(*    rten declining the case (unsupported feature / dtype) and is counted,    *)
(*    never flagged;                                                           *)
(*  * a PANIC on an ONNX-defined case produces no output for an input the      *)
(*    statement quantifies over and is flagged with class "panic" (so is an    *)
(*    abort of the process);                                                   *)
(*  * ONNX bool outputs (stored as i32 by rten) are compared by truthiness    *)
(*    (v # 0): the weakest reading of "bool represented as i32";               *)
(*  * f32 outputs are compared through their exact integer value (all          *)
(*    modelled results are integers, so the documented tolerance is 0 here);   *)
(*    a non-integer / non-finite f32 output element is a data mismatch.        *)
EXTENDS TraceLib, OnnxOps

VARIABLES l, nbad, cur, cnt, per

NoCase == [op |-> "none"]
\* operators whose trailing outputs are optional: the harness may request fewer
OptionalTrailingOutputs == {"Dropout", "DynamicQuantizeLinear"}
Counters == [cases |-> 0, judged |-> 0, undefined |-> 0, unmodelled |-> 0, err |-> 0, panic_unjudged |-> 0]
\* per-operator counters (domain bounded by the number of operators: O(1) state)
PerZero == [judged |-> 0, undefined |-> 0, unmodelled |-> 0, err |-> 0]
Init == l = 1 /\ nbad = NoBad /\ cur = NoCase /\ cnt = Counters /\ per = <<>>
Bump(op, field) == per' = IF op \in DOMAIN per THEN [per EXCEPT ![op][field] = @ + 1]
                          ELSE per @@ (op :> [PerZero EXCEPT ![field] = 1])

e == Rec[l]

\* What the ret record says about output k, as a tensor record.
OutT(o) == Mk(o.shape, o.dtype, o.data)

\* First failing class of an "ok" outcome against the expected outputs, or "".
\* `isbool`: the outputs are ONNX bool tensors, compared by truthiness (v # 0).
Truth(d) == [k \in 1..Len(d) |-> IF d[k] # 0 THEN 1 ELSE 0]
Mismatch(exp, outs, isbool) ==
  IF Len(outs) # Len(exp) THEN "shape"          \* (exp is already cut to the number of requested outputs)
  ELSE IF \E k \in 1..Len(exp) : outs[k].shape # exp[k].shape THEN "shape"
  ELSE IF \E k \in 1..Len(exp) : outs[k].dtype # exp[k].dtype THEN "dtype"
  ELSE IF \E k \in 1..Len(exp) :
            \/ outs[k].nonint # 0
            \/ (IF isbool THEN Truth(outs[k].data) ELSE outs[k].data) # exp[k].data THEN "data"
  ELSE ""

\* The trace strictly alternates case / ret with matching ids (the engine closes
\* the case of a died process with an `abort` ret); anything else is a malformed
\* trace, which TLC does not accept (tool error, not a verdict).
Case == /\ e.ev = "case"
        /\ cur.op = "none"
        /\ cur' = e
        /\ cnt' = [cnt EXCEPT !.cases = @ + 1]
        /\ UNCHANGED <<nbad, per>>

Ret ==
  /\ e.ev = "ret"
  /\ cur.op # "none" /\ e.id = cur.id
  /\ cur' = NoCase
  /\ LET ref == OnnxEval(cur.op, cur.attrs, cur.ins)
         Sig(cls) == [op |-> cur.op, variant |-> cur.tag, class |-> cls]
         Bad(cls) == nbad' = Flag(nbad, FALSE, Sig(cls),
                                  [case |-> cur, ret |-> e, expected |-> ref.outs])
     IN
     IF ref.st = "unmodelled" THEN
        cnt' = [cnt EXCEPT !.unmodelled = @ + 1] /\ Bump(cur.op, "unmodelled") /\ UNCHANGED nbad
     ELSE IF ref.st = "undefined" THEN
        /\ cnt' = [cnt EXCEPT !.undefined = @ + 1,
                              !.panic_unjudged = @ + (IF e.outcome \in {"panic", "abort"} THEN 1 ELSE 0)]
        /\ Bump(cur.op, "undefined")
        /\ UNCHANGED nbad
     ELSE
       CASE e.outcome = "ok" ->
              /\ cnt' = [cnt EXCEPT !.judged = @ + 1] /\ Bump(cur.op, "judged")
              /\ LET want == IF cur.op \in OptionalTrailingOutputs /\ cur.nout < Len(ref.outs)
                              THEN SubSeq(ref.outs, 1, cur.nout) ELSE ref.outs
                     m == Mismatch(want, e.outs, OnnxBoolOutput(cur.op, cur.attrs)) IN IF m = "" THEN UNCHANGED nbad ELSE Bad(m)
         [] e.outcome \in {"panic", "abort"} ->
              /\ cnt' = [cnt EXCEPT !.judged = @ + 1] /\ Bump(cur.op, "judged")
              /\ Bad("panic")
         [] OTHER ->                                        \* "err", "loaderr"
              /\ cnt' = [cnt EXCEPT !.err = @ + 1] /\ Bump(cur.op, "err")
              /\ UNCHANGED nbad

Next == /\ l <= NRec /\ l' = l + 1 /\ (Case \/ Ret)

Report == l = NRec + 1 =>
            /\ ReportBad(nbad)
            /\ Stat("cases", cnt.cases)
            /\ Stat("judged", cnt.judged)
            /\ Stat("undefined", cnt.undefined)
            /\ Stat("unmodelled", cnt.unmodelled)
            /\ Stat("err", cnt.err)
            /\ Stat("panic_unjudged", cnt.panic_unjudged)
            /\ \A op \in DOMAIN per :
                 Print(<<"OPSTAT", op, per[op].judged, per[op].undefined, per[op].unmodelled, per[op].err>>, TRUE)
=============================================================================
