--------------------------- MODULE MC_OnnxAlgebra ---------------------------
(* Model checking of the ONNX reference itself: algebraic sanity properties   *)
(* of OnnxOps.tla, checked by TLC on EVERY tensor of the tiny shapes below    *)
(* (every initial state is one tensor x; the properties are invariants).      *)
(* A transcription slip in the index arithmetic of Transpose / Slice /        *)
(* Concat / Split / Gather / Scatter / Pad / Reduce / CumSum / TopK / ...     *)
(* breaks one of these identities on some tensor.                             *)
EXTENDS OnnxOps

CONSTANTS MaxRank, MaxDim, Vals,     \* x: shapes of rank 0..MaxRank, dims 0..MaxDim, elements in Vals
          YShapes, YVals             \* y: second operand of the broadcasting laws

ValsA == {-1, 0, 2}                  \* (cfg files cannot write negative numbers)
ValsB == {-1, 2}
ValsY == {-2, 1, 3}
ValsY1 == {1}
YScalar == {<<>>}
YRank1 == {<<>>, <<1>>, <<2>>}

VARIABLES x, y                       \* x: any tensor; y: any tensor of rank <= 1 (second operand)

RECURSIVE ShapesOfRank(_)
ShapesOfRank(r) == IF r = 0 THEN {<<>>} ELSE {Append(s, d) : s \in ShapesOfRank(r - 1), d \in 0..MaxDim}
Shapes == UNION {ShapesOfRank(r) : r \in 0..MaxRank}
TensorsOf(shapes, vals) == UNION {{Mk(s, "i32", d) : d \in [1..Prod(s) -> vals]} : s \in shapes}

Init == x \in TensorsOf(Shapes, Vals) /\ y \in TensorsOf(YShapes, YVals)
Next == UNCHANGED <<x, y>>

r == Rank(x)
Perms(n) == {p \in [1..n -> 0..(n - 1)] : IsPerm(p, n)}
InvPerm(p) == [j \in 1..Len(p) |-> (CHOOSE i \in 1..Len(p) : p[i] = j - 1) - 1]
Axes == 0..(r - 1)
I64(s) == Vec("i32", s)
Sum(s) == SeqSum(s)
Eval(op, attrs, ins) == OnnxEval(op, attrs, ins)
In(t) == [p |-> TRUE, shape |-> t.shape, dtype |-> t.dtype, data |-> t.data]
Out1(res) == res.outs[1]

\* --- data movement --------------------------------------------------------
TransposeInvolution ==
  /\ \A p \in Perms(r) : OnnxTranspose(OnnxTranspose(x, p), InvPerm(p)) = x
  /\ OnnxTranspose(OnnxTranspose(x, ReversePerm(r)), ReversePerm(r)) = x
  /\ \A p \in Perms(r) : NumEl(OnnxTranspose(x, p)) = NumEl(x)
  \* element-wise definition: out[i_0..] = x[i_perm^-1..]
  /\ r = 2 => \A i \in 0..(x.shape[1] - 1), j \in 0..(x.shape[2] - 1) :
                At(OnnxTranspose(x, <<1, 0>>), <<j, i>>) = At(x, <<i, j>>)

\* all ways to cut n into k non-negative parts (k <= 3)
Cuts3(n) == {s \in {<<a, b, n - a - b>> : a \in 0..n, b \in 0..n} : s[3] >= 0}
ValidCuts(n) == ({<<n>>} \cup {<<a, n - a>> : a \in 0..n}) \cup Cuts3(n)
ConcatSplitInverse ==
  \A a \in Axes : \A sizes \in ValidCuts(x.shape[a + 1]) :
    /\ DefSplitSizes(x, a, sizes)
    /\ LET parts == OnnxSplit(x, a, sizes) IN
       /\ DefConcat(parts, a) /\ OnnxConcat(parts, a) = x
       /\ OnnxConcat(parts, a - r) = x                    \* negative axis
       /\ \A k \in 1..Len(sizes) : parts[k].shape[a + 1] = sizes[k]
ASSUME EvenSplitSums ==
  \A n \in 1..4, dim \in 0..8 : (dim % n = 0 \/ EvenSplit(dim, n)[n] > 0) => Sum(EvenSplit(dim, n)) = dim

SliceFullRangeIsIdentity ==
  LET full == [d \in 1..r |-> x.shape[d]] IN
  /\ OnnxSlice(x, [d \in 1..r |-> 0], full, Iota(r), Ones(r)) = x
  /\ OnnxSlice(x, [d \in 1..r |-> -1000], [d \in 1..r |-> 1000], Iota(r), Ones(r)) = x   \* clamping
  /\ OnnxSlice(x, <<>>, <<>>, <<>>, <<>>) = x
ReverseTwiceIsIdentity ==
  \A a \in Axes : x.shape[a + 1] > 0 =>
    LET rev(t) == OnnxSlice(t, <<-1>>, <<-1000>>, <<a>>, <<-1>>) IN
    /\ rev(rev(x)) = x
    /\ rev(x).shape = x.shape
SliceSplitsLikeSplit ==
  \A a \in Axes : \A k \in 0..x.shape[a + 1] :
    OnnxSlice(x, <<0>>, <<k>>, <<a>>, <<1>>) = OnnxSplit(x, a, <<k, x.shape[a + 1] - k>>)[1]
SliceStepPartition ==      \* even + odd positions have all the elements
  \A a \in Axes :
    NumEl(OnnxSlice(x, <<0>>, <<1000>>, <<a>>, <<2>>)) + NumEl(OnnxSlice(x, <<1>>, <<1000>>, <<a>>, <<2>>)) = NumEl(x)

ReshapeRoundTrip ==
  /\ DefReshape(x, <<-1>>, FALSE) => OnnxReshape(OnnxReshape(x, <<-1>>, FALSE), x.shape, TRUE) = x
  /\ OnnxFlatten(x, 0).shape = <<1, NumEl(x)>>
  /\ \A a \in 0..r : Prod(OnnxFlatten(x, a).shape) = NumEl(x) /\ OnnxFlatten(x, a).data = x.data
  /\ \A a \in 0..r : OnnxFlatten(x, a) = OnnxFlatten(x, a - r) \/ a = r \/ r = 0
SqueezeUnsqueezeInverse ==
  \A a \in 0..r :
    /\ OnnxSqueeze(OnnxUnsqueeze(x, <<a>>), <<a>>) = x
    /\ OnnxUnsqueeze(x, <<a>>).shape[a + 1] = 1
    /\ OnnxUnsqueeze(x, <<a - (r + 1)>>) = OnnxUnsqueeze(x, <<a>>)
    /\ (\A d \in 1..r : x.shape[d] # 1) => OnnxSqueezeAll(OnnxUnsqueeze(x, <<a>>)) = x

TileIsConcat ==
  \A a \in Axes : OnnxTile(x, [d \in 1..r |-> IF d = a + 1 THEN 2 ELSE 1]) = OnnxConcat(<<x, x>>, a)
ExpandIdentity ==
  /\ OnnxExpand(x, x.shape) = x
  /\ OnnxExpand(x, <<>>) = x
  /\ OnnxExpand(x, Ones(r)) = x
  /\ OnnxExpand(x, <<2>> \o x.shape) = OnnxConcat(<<OnnxUnsqueeze(x, <<0>>), OnnxUnsqueeze(x, <<0>>)>>, 0)

GatherIdentity ==
  \A a \in Axes :
    /\ OnnxGather(x, I64(Iota(x.shape[a + 1])), a) = x
    /\ x.shape[a + 1] > 0 =>
         OnnxGather(x, Scalar("i32", -1), a) = OnnxSqueeze(OnnxSlice(x, <<-1>>, <<1000>>, <<a>>, <<1>>), <<a>>)
GatherElementsVsScatter ==
  \* gathering with a per-lane permutation and scattering back with the same indices restores x
  \A a \in Axes :
    LET n == x.shape[a + 1]
        F(idx) == (n - 1) - idx[a + 1]                  \* the reversal permutation, as an index tensor
        ind == FromFn(x.shape, "i32", F)
        g == OnnxGatherElements(x, ind, a)
    IN /\ DefGatherElements(x, ind, a)
       /\ DefScatterElements(x, ind, g, a, "none")
       /\ OnnxScatterElements(x, ind, g, a, "none") = x
       /\ OnnxScatterElements(OnnxSub(x, x), ind, g, a, "add") = x
       /\ OnnxGatherElements(g, ind, a) = x
GatherNDFullIndexIsElement ==
  r >= 1 /\ NumEl(x) > 0 =>
    \A k \in 1..NumEl(x) :
      LET idx == Unravel(k - 1, x.shape) IN
      /\ OnnxGatherND(x, Mk(<<r>>, "i32", idx), 0) = Scalar("i32", x.data[k])
      /\ OnnxScatterND(x, Mk(<<1, r>>, "i32", idx), Vec("i32", <<7>>), "none").data = [x.data EXCEPT ![k] = 7]
      /\ OnnxScatterND(x, Mk(<<2, r>>, "i32", idx \o idx), Vec("i32", <<7, 5>>), "add").data = [x.data EXCEPT ![k] = @ + 12]

PadThenCrop ==
  \A mode \in PadModes : \A a \in Axes : \A b \in 0..1, e \in 0..2 :
    LET pads == <<b, e>> IN
    DefPad(x, pads, NoT, <<a>>, mode) =>
      LET p == OnnxPad(x, pads, NoT, <<a>>, mode) IN
      /\ p.shape[a + 1] = x.shape[a + 1] + b + e
      /\ OnnxSlice(p, <<b>>, <<b + x.shape[a + 1]>>, <<a>>, <<1>>) = x
      /\ mode = "constant" => OnnxPad(p, <<-b, -e>>, NoT, <<a>>, "constant") = x    \* negative pads crop
PadModesOn1D ==
  x.shape = <<3>> =>
    LET v == x.data P(mode) == OnnxPad(x, <<2, 2>>, NoT, <<0>>, mode).data IN
    /\ P("constant") = <<0, 0, v[1], v[2], v[3], 0, 0>>
    /\ P("edge") = <<v[1], v[1], v[1], v[2], v[3], v[3], v[3]>>
    /\ P("reflect") = <<v[3], v[2], v[1], v[2], v[3], v[2], v[1]>>
    /\ P("wrap") = <<v[2], v[3], v[1], v[2], v[3], v[1], v[2]>>

\* --- arithmetic / reductions ---------------------------------------------
ReduceAllIsFold ==
  LET all == Iota(r) IN
  /\ OnnxReduce("ReduceSum", x, all, FALSE) = Scalar("i32", Sum(x.data))
  /\ OnnxReduce("ReduceSum", x, all, TRUE) = Mk(Ones(r), "i32", <<Sum(x.data)>>)
  /\ OnnxReduce("ReduceL1", x, all, FALSE) = Scalar("i32", Sum([k \in 1..Len(x.data) |-> AbsI(x.data[k])]))
  /\ OnnxReduce("ReduceSumSquare", x, all, FALSE) = Scalar("i32", Sum([k \in 1..Len(x.data) |-> x.data[k] * x.data[k]]))
  /\ NumEl(x) > 0 =>
       /\ \A k \in 1..NumEl(x) : OnnxReduce("ReduceMax", x, all, FALSE).data[1] >= x.data[k]
       /\ \E k \in 1..NumEl(x) : OnnxReduce("ReduceMax", x, all, FALSE).data[1] = x.data[k]
       /\ OnnxReduce("ReduceMin", x, all, FALSE) = OnnxNeg(OnnxReduce("ReduceMax", OnnxNeg(x), all, FALSE))
  /\ OnnxReduce("ReduceSum", x, <<>>, TRUE) = x            \* nothing reduced
ReduceAxisByAxis ==    \* reducing axes one after the other = reducing them together
  \A a, b \in Axes : a < b =>
    /\ OnnxReduce("ReduceSum", OnnxReduce("ReduceSum", x, <<b>>, FALSE), <<a>>, FALSE) = OnnxReduce("ReduceSum", x, <<a, b>>, FALSE)
    /\ OnnxReduce("ReduceSum", x, <<b, a>>, FALSE) = OnnxReduce("ReduceSum", x, <<a - r, b>>, FALSE)
    /\ OnnxReduce("ReduceProd", OnnxReduce("ReduceProd", x, <<a>>, TRUE), <<b>>, TRUE) = OnnxReduce("ReduceProd", x, <<a, b>>, TRUE)
    /\ OnnxSqueeze(OnnxReduce("ReduceMax", x, <<a, b>>, TRUE), <<a, b>>) = OnnxReduce("ReduceMax", x, <<a, b>>, FALSE)
      \/ x.shape[a + 1] = 0 \/ x.shape[b + 1] = 0
CumSumLastIsReduceSum ==
  \A a \in Axes : x.shape[a + 1] > 0 =>
    /\ OnnxSlice(OnnxCumSum(x, a, FALSE, FALSE), <<-1>>, <<1000>>, <<a>>, <<1>>) = OnnxReduce("ReduceSum", x, <<a>>, TRUE)
    /\ OnnxSlice(OnnxCumSum(x, a, FALSE, TRUE), <<0>>, <<1>>, <<a>>, <<1>>) = OnnxReduce("ReduceSum", x, <<a>>, TRUE)
    /\ OnnxAdd(OnnxCumSum(x, a, TRUE, FALSE), x) = OnnxCumSum(x, a, FALSE, FALSE)
    /\ OnnxAdd(OnnxCumSum(x, a, TRUE, FALSE), OnnxCumSum(x, a, FALSE, TRUE)) = OnnxExpand(OnnxReduce("ReduceSum", x, <<a>>, TRUE), x.shape)
ArgMaxVsTopK ==
  \A a \in Axes : x.shape[a + 1] > 0 =>
    LET tk == OnnxTopK(x, 1, a, TRUE) tmin == OnnxTopK(x, 1, a, FALSE)
        full == OnnxTopK(x, x.shape[a + 1], a, TRUE) IN
    /\ tk[2] = OnnxArg(TRUE, x, a, TRUE, FALSE)
    /\ tmin[2] = OnnxArg(FALSE, x, a, TRUE, FALSE)
    /\ tk[1] = OnnxReduce("ReduceMax", x, <<a>>, TRUE)
    /\ OnnxGatherElements(x, tk[2], a) = tk[1]
    \* full TopK is a sorted permutation of each lane
    /\ OnnxGatherElements(x, full[2], a) = full[1]
    /\ OnnxReduce("ReduceSum", full[1], <<a>>, TRUE) = OnnxReduce("ReduceSum", x, <<a>>, TRUE)
    /\ \A k \in 1..NumEl(x) : LET idx == Unravel(k - 1, x.shape) IN
         idx[a + 1] > 0 => At(full[1], idx) <= At(full[1], SetAt(idx, a + 1, idx[a + 1] - 1))
    \* select_last_index picks the other end of a run of ties
    /\ OnnxArg(TRUE, x, a, FALSE, TRUE) =
         OnnxSub(Scalar("i32", x.shape[a + 1] - 1), OnnxArg(TRUE, OnnxSlice(x, <<-1>>, <<-1000>>, <<a>>, <<-1>>), a, FALSE, FALSE))

ElementwiseLaws ==
  /\ OnnxNeg(OnnxNeg(x)) = x
  /\ OnnxAbs(x) = OnnxMax(<<x, OnnxNeg(x)>>)
  /\ OnnxMul(OnnxSign(x), OnnxAbs(x)) = x
  /\ OnnxRelu(x) = OnnxClip(x, Scalar("i32", 0), NoT)
  /\ OnnxSub(x, x) = OnnxMul(x, Scalar("i32", 0))
  /\ OnnxWhere(OnnxGreater(x, Scalar("i32", 0)), x, OnnxNeg(x)) = OnnxAbs(x)
  /\ OnnxNot(OnnxLess(x, Scalar("i32", 0))) = OnnxGreaterOrEqual(x, Scalar("i32", 0))
  /\ OnnxXor(OnnxEqual(x, x), OnnxLess(x, x)) = OnnxEqual(x, x)
  /\ OnnxSum(<<x, x, x>>) = OnnxMul(x, Scalar("i32", 3))
  /\ OnnxMean(<<x, x>>) = x
  /\ OnnxPow(x, Scalar("i32", 2)) = OnnxMul(x, x)
  /\ OnnxCast(OnnxCast(x, 9), 9) = OnnxAbs(OnnxSign(x))
  /\ OnnxMin(<<x>>) = x
BroadcastLaws ==     \* y has rank <= 1
  Broadcastable(x.shape, y.shape) =>
    /\ OnnxAdd(x, y) = OnnxAdd(y, x)
    /\ OnnxAdd(x, y).shape = BroadcastShape(x.shape, y.shape)
    /\ OnnxSub(OnnxAdd(x, y), y) = OnnxExpand(x, y.shape)
    /\ OnnxAdd(x, y) = OnnxAdd(OnnxExpand(x, y.shape), OnnxExpand(y, x.shape))
    /\ OnnxMax(<<x, y>>) = OnnxNeg(OnnxMin(<<OnnxNeg(x), OnnxNeg(y)>>))
    /\ OnnxEqual(x, y) = OnnxAnd(OnnxLessOrEqual(x, y), OnnxGreaterOrEqual(x, y))
    /\ (\A k \in 1..Len(y.data) : y.data[k] # 0) =>
         /\ OnnxAdd(OnnxMul(OnnxDiv(x, y), y), OnnxMod(x, y, 1)) = OnnxExpand(x, y.shape)     \* trunc div / fmod
         /\ \A k \in 1..NumEl(OnnxMod(x, y, 0)) :                                      \* result has the divisor's sign
              LET m == OnnxMod(x, y, 0).data[k] d == OnnxExpand(y, x.shape).data[k] IN m = 0 \/ SgnI(m) = SgnI(d)
ASSUME DivModSpotChecks ==
  /\ TruncDiv(-7, 2) = -3 /\ TruncDiv(7, -2) = -3 /\ TruncDiv(-7, -2) = 3
  /\ TruncRem(-7, 2) = -1 /\ TruncRem(7, -2) = 1
  /\ FloorMod(-7, 2) = 1 /\ FloorMod(7, -2) = -1 /\ FloorMod(-7, -2) = -1 /\ FloorMod(6, 3) = 0
  /\ CeilDiv(7, 2) = 4 /\ CeilDiv(-7, 2) = -3 /\ CeilDiv(7, -2) = -3 /\ CeilDiv(-7, -2) = 4

GeneratorLaws ==
  /\ OnnxNonZero(x).shape[2] = Sum(OnnxAbs(OnnxSign(x)).data) \/ r = 0
  /\ r >= 1 => \A m \in 1..OnnxNonZero(x).shape[2] :
                 At(x, [d \in 1..r |-> At(OnnxNonZero(x), <<d - 1, m - 1>>)]) # 0
  /\ r = 2 => /\ OnnxEyeLike(x, "i32", 0) = OnnxTranspose(OnnxEyeLike(OnnxTranspose(x, <<1, 0>>), "i32", 0), <<1, 0>>)
              /\ OnnxTrilu(x, 0, TRUE) = OnnxTranspose(OnnxTrilu(OnnxTranspose(x, <<1, 0>>), 0, FALSE), <<1, 0>>)
              /\ OnnxAdd(OnnxTrilu(x, 1, TRUE), OnnxTrilu(x, 0, FALSE)) = x
              /\ OnnxAdd(OnnxTrilu(x, 0, TRUE), OnnxTrilu(x, -1, FALSE)) = x
  /\ OnnxConstantOfShape(I64(x.shape), Vec("i32", <<0>>)) = OnnxSub(x, x)
  /\ OnnxShape(x, 0, r) = I64(x.shape) /\ OnnxShape(x, -1000, 1000) = I64(x.shape)
  /\ OnnxSize(x).data[1] = Len(x.data)
  \* OneHot of an ArgMax picks exactly the maximum
  /\ \A a \in Axes : x.shape[a + 1] > 0 =>
       LET oh == OnnxOneHot(OnnxArg(TRUE, x, a, FALSE, FALSE), Scalar("i32", x.shape[a + 1]), Vec("i32", <<0, 1>>), a)
       IN OnnxReduce("ReduceSum", OnnxMul(oh, x), <<a>>, FALSE) = OnnxReduce("ReduceMax", x, <<a>>, FALSE)
ASSUME RangeLaws ==
  \A s \in -2..2, n \in 0..4, d \in {-2, -1, 1, 2, 3} :
    LET t == OnnxRange(Scalar("i32", s), Scalar("i32", s + n * d), Scalar("i32", d)) IN
    /\ t.shape = <<n>>
    /\ \A i \in 1..n : t.data[i] = s + (i - 1) * d
    /\ OnnxRange(Scalar("i32", s), Scalar("i32", s + n * d + SgnI(d)), Scalar("i32", d)).shape = <<n + 1>>
DepthToSpaceLaws ==
  x.shape = <<2, 2>> =>      \* view x.data as a [1,4,1,1] tensor: blocksize 2 spreads channels over a 2x2 block
    LET t == Mk(<<1, 4, 1, 1>>, "i32", x.data) IN
    /\ OnnxDepthToSpace(t, 2, "DCR") = Mk(<<1, 1, 2, 2>>, "i32", x.data)
    /\ OnnxDepthToSpace(t, 2, "CRD") = Mk(<<1, 1, 2, 2>>, "i32", x.data)
    /\ OnnxDepthToSpace(t, 1, "DCR") = t

\* --- matrix products, convolution, pooling, resize (x of rank 1 or 2) ------
Eye(n) == OnnxEyeLike(Mk(<<n, n>>, "i32", [k \in 1..(n * n) |-> 0]), "i32", 0)
As4(t) == WithShape(t, <<1, 1>> \o (IF Rank(t) = 2 THEN t.shape ELSE <<1, t.shape[1]>>))    \* [1,1,h,w] view
W4(vals, h, w) == Mk(<<1, 1, h, w>>, "i32", vals)
MatMulLaws ==
  /\ r = 2 =>
       LET xt == OnnxTranspose(x, <<1, 0>>) IN
       /\ OnnxMatMul(x, Eye(x.shape[2])) = x /\ OnnxMatMul(Eye(x.shape[1]), x) = x
       /\ OnnxTranspose(OnnxMatMul(x, xt), <<1, 0>>) = OnnxMatMul(x, xt)
       /\ OnnxGemm(x, Eye(x.shape[2]), NoT, 1, 1, FALSE, FALSE) = x
       /\ OnnxGemm(xt, Eye(x.shape[2]), NoT, 1, 1, TRUE, FALSE) = x
       /\ OnnxGemm(x, xt, NoT, 1, 1, FALSE, FALSE) = OnnxGemm(x, x, NoT, 1, 1, FALSE, TRUE)
       /\ OnnxGemm(x, Eye(x.shape[2]), x, 2, 3, FALSE, FALSE) = OnnxMul(x, Scalar("i32", 5))
       /\ OnnxGemm(x, Eye(x.shape[2]), Scalar("i32", 1), 1, 2, FALSE, FALSE) = OnnxAdd(x, Scalar("i32", 2))
       /\ OnnxMatMulInteger(x, Eye(x.shape[2]), NoT, NoT).data = x.data
       /\ OnnxMatMulInteger(x, Eye(x.shape[2]), Scalar("i32", 2), NoT) = OnnxSub(x, Scalar("i32", 2))
       \* batched: a leading batch dimension of 2 on one side broadcasts
       /\ OnnxMatMul(OnnxExpand(x, <<2>> \o x.shape), Eye(x.shape[2])) = OnnxExpand(x, <<2>> \o x.shape)
       \* matrix x vector drops the appended dimension
       /\ x.shape[2] > 0 => OnnxMatMul(x, Vec("i32", Ones(x.shape[2]))) = OnnxReduce("ReduceSum", x, <<1>>, FALSE)
       /\ x.shape[1] > 0 => OnnxMatMul(Vec("i32", Ones(x.shape[1])), x) = OnnxReduce("ReduceSum", x, <<0>>, FALSE)
  /\ r = 1 => OnnxMatMul(x, x) = OnnxReduce("ReduceSumSquare", x, <<0>>, FALSE)
ConvPoolLaws ==
  (r \in {1, 2} /\ NumEl(x) > 0) =>
    LET X == As4(x) h == X.shape[3] w == X.shape[4]
        one == W4(<<1>>, 1, 1)
        none2 == <<1, 1>> zero4 == <<0, 0, 0, 0>>
    IN
    /\ DefConv(X, one, NoT, <<>>, none2, none2, 1, zero4, "NOTSET")
    /\ OnnxConv(X, one, NoT, none2, none2, 1, zero4, "NOTSET") = X
    /\ OnnxConv(X, one, Vec("i32", <<3>>), none2, none2, 1, zero4, "NOTSET") = OnnxAdd(X, Scalar("i32", 3))
    \* a full-size kernel of ones sums everything; padding a 1x1 kernel = Pad
    /\ OnnxConv(X, W4([k \in 1..(h * w) |-> 1], h, w), NoT, none2, none2, 1, zero4, "VALID").data = <<SeqSum(x.data)>>
    /\ OnnxConv(X, one, NoT, none2, none2, 1, <<1, 0, 0, 2>>, "NOTSET") = OnnxPad(X, <<1, 0, 0, 2>>, NoT, <<2, 3>>, "constant")
    \* SAME_UPPER / SAME_LOWER keep the extent at stride 1 and differ by where the odd pad goes
    /\ OnnxConv(X, W4(<<1, 0>>, 1, 2), NoT, none2, none2, 1, zero4, "SAME_UPPER") = X
    /\ OnnxConv(X, W4(<<0, 1>>, 1, 2), NoT, none2, none2, 1, zero4, "SAME_LOWER") = X
    /\ OnnxConv(X, W4(<<0, 1>>, 1, 2), NoT, none2, none2, 1, zero4, "SAME_UPPER")
         = OnnxSlice(OnnxPad(X, <<0, 1>>, NoT, <<3>>, "constant"), <<1>>, <<1000>>, <<3>>, <<1>>)
    \* stride 2 with a 1x1 kernel subsamples; dilation only matters for kernels > 1
    /\ OnnxConv(X, one, NoT, <<2, 2>>, none2, 1, zero4, "NOTSET") = OnnxSlice(X, <<0, 0>>, <<1000, 1000>>, <<2, 3>>, <<2, 2>>)
    /\ OnnxConv(X, one, NoT, none2, <<2, 3>>, 1, zero4, "NOTSET") = X
    \* ConvInteger without zero points is Conv; with x_zero_point z and kernel 1 it subtracts z
    /\ OnnxConvInteger(X, one, NoT, NoT, none2, none2, 1, zero4, "NOTSET").data = x.data
    /\ OnnxConvInteger(X, one, Scalar("i32", 2), NoT, none2, none2, 1, <<1, 1, 1, 1>>, "NOTSET")
         = OnnxPad(OnnxSub(X, Scalar("i32", 2)), <<1, 1, 1, 1>>, NoT, <<2, 3>>, "constant")
    \* ConvTranspose: 1x1 kernel is the identity; stride 2 stuffs zeros; it is the full correlation with the flipped kernel
    /\ OnnxConvTranspose(X, one, NoT, none2, none2, 1, zero4, <<0, 0>>) = X
    /\ LET t == OnnxConvTranspose(X, one, NoT, <<2, 2>>, none2, 1, zero4, <<0, 0>>) IN
       /\ t.shape = <<1, 1, 2 * h - 1, 2 * w - 1>>
       /\ OnnxSlice(t, <<0, 0>>, <<1000, 1000>>, <<2, 3>>, <<2, 2>>) = X
       /\ SeqSum(t.data) = SeqSum(x.data)
    /\ OnnxConvTranspose(X, W4(<<2, -1>>, 1, 2), NoT, none2, none2, 1, zero4, <<0, 0>>)
         = OnnxConv(OnnxPad(X, <<1, 1>>, NoT, <<3>>, "constant"), W4(<<-1, 2>>, 1, 2), NoT, none2, none2, 1, zero4, "NOTSET")
    /\ OnnxConvTranspose(X, W4(<<2, -1>>, 1, 2), NoT, none2, none2, 1, <<0, 1, 0, 0>>, <<0, 0>>)     \* pads crop the output
         = OnnxSlice(OnnxConvTranspose(X, W4(<<2, -1>>, 1, 2), NoT, none2, none2, 1, zero4, <<0, 0>>), <<1>>, <<1000>>, <<3>>, <<1>>)
    \* pooling
    /\ OnnxMaxPool(X, none2, none2, none2, zero4, "NOTSET", FALSE) = X
    /\ OnnxAveragePool(X, none2, none2, none2, zero4, "NOTSET", FALSE, FALSE) = X
    /\ OnnxMaxPool(X, <<h, w>>, none2, none2, zero4, "NOTSET", FALSE) = OnnxGlobalMaxPool(X)
    /\ OnnxMaxPool(X, <<h, w>>, none2, none2, zero4, "NOTSET", FALSE).data = <<SeqMax(x.data)>>
    /\ w >= 2 => OnnxMaxPool(X, <<1, 2>>, none2, none2, zero4, "NOTSET", FALSE)
                   = OnnxMax(<<OnnxSlice(X, <<0>>, <<-1>>, <<3>>, <<1>>), OnnxSlice(X, <<1>>, <<1000>>, <<3>>, <<1>>)>>)
    \* padding never wins a MaxPool and is not counted by AveragePool unless asked
    /\ OnnxMaxPool(X, <<1, 2>>, none2, none2, <<0, 1, 0, 0>>, "NOTSET", FALSE).data[1] = x.data[1]
    /\ OnnxAveragePool(X, <<1, 2>>, none2, none2, <<0, 1, 0, 0>>, "NOTSET", FALSE, FALSE).data[1] = x.data[1]
    /\ LET d == OnnxMul(X, Scalar("i32", 2)) IN
       OnnxAveragePool(d, <<1, 2>>, none2, none2, <<0, 1, 0, 0>>, "NOTSET", FALSE, TRUE).data[1] = x.data[1]
    /\ DefGlobalAveragePool(OnnxMul(X, Scalar("i32", h * w)))
    /\ OnnxGlobalAveragePool(OnnxMul(X, Scalar("i32", h * w))).data = <<SeqSum(x.data)>>
ResizeLaws ==
  (r \in {1, 2} /\ NumEl(x) > 0) =>
    LET one == [i \in 1..r |-> [n |-> 1, d |-> 1]]
        two == [i \in 1..r |-> [n |-> 2, d |-> 1]]
        half == [i \in 1..r |-> [n |-> 1, d |-> 2]]
        dbl == [i \in 1..r |-> 2 * x.shape[i]]
    IN
    /\ \A cm \in CoordModes, nm \in NearestModes :
         /\ DefResizeNearest(x, x.shape, one, cm, nm)
         /\ OnnxResizeNearest(x, x.shape, one, cm, nm) = x
    \* x2 with asymmetric/floor repeats every element; shrinking back restores x
    /\ LET up == OnnxResizeNearest(x, dbl, two, "asymmetric", "floor") IN
       /\ \A k \in 1..NumEl(up) : LET idx == Unravel(k - 1, dbl) IN up.data[k] = At(x, [i \in 1..r |-> idx[i] \div 2])
       /\ OnnxResizeNearest(up, x.shape, half, "asymmetric", "floor") = x
       /\ OnnxResizeNearest(up, x.shape, half, "half_pixel", "round_prefer_floor") = x
       /\ OnnxResizeNearest(x, dbl, two, "half_pixel", "round_prefer_floor") = up
       /\ OnnxResizeNearest(x, dbl, two, "half_pixel", "round_prefer_ceil") = up
       /\ OnnxResizeNearest(x, dbl, two, "pytorch_half_pixel", "floor") = OnnxResizeNearest(x, dbl, two, "half_pixel", "floor")
    \* align_corners keeps the corner elements
    /\ LET ac == OnnxResizeNearest(x, dbl, two, "align_corners", "round_prefer_floor") IN
       ac.data[1] = x.data[1] /\ ac.data[NumEl(ac)] = x.data[NumEl(x)]
EinsumLaws ==
  /\ r = 2 =>
       LET xt == OnnxTranspose(x, <<1, 0>>) IN
       /\ OnnxEinsum(<<x>>, <<<<1, 2>>>>, <<2, 1>>) = xt                                   \* "ij->ji"
       /\ OnnxEinsum(<<x>>, <<<<1, 2>>>>, <<>>) = OnnxReduce("ReduceSum", x, <<0, 1>>, FALSE)   \* "ij->"
       /\ OnnxEinsum(<<x>>, <<<<1, 2>>>>, <<1>>) = OnnxReduce("ReduceSum", x, <<1>>, FALSE)     \* "ij->i"
       /\ OnnxEinsum(<<x, xt>>, <<<<1, 2>>, <<2, 3>>>>, <<1, 3>>) = OnnxMatMul(x, xt)          \* "ij,jk->ik"
       /\ EinsumImplicitOut(<<<<1, 2>>, <<2, 3>>>>) = <<1, 3>>                                \* "ij,jk"
       /\ EinsumImplicitOut(<<<<3, 1>>>>) = <<1, 3>>                                          \* "ki" = "ki->ik"
       /\ OnnxEinsum(<<x, x>>, <<<<1, 2>>, <<1, 2>>>>, <<1, 2>>) = OnnxMul(x, x)               \* "ij,ij->ij"
       /\ x.shape[1] = x.shape[2] =>
            OnnxEinsum(<<x>>, <<<<1, 1>>>>, <<>>) = OnnxReduce("ReduceSum", OnnxMul(x, Eye(x.shape[1])), <<0, 1>>, FALSE)   \* trace "ii->"
  /\ r = 1 => /\ OnnxEinsum(<<x, x>>, <<<<1>>, <<1>>>>, <<>>) = OnnxMatMul(x, x)               \* "i,i->"
              /\ OnnxEinsum(<<x, x>>, <<<<1>>, <<2>>>>, <<1, 2>>) = OnnxMatMul(OnnxUnsqueeze(x, <<1>>), OnnxUnsqueeze(x, <<0>>))  \* outer product
SequenceLaws ==
  LET sq == <<x, OnnxNeg(x)>> t == OnnxAbs(x) IN
  /\ \A p \in 0..2 :
       /\ OnnxSequenceAt(OnnxSequenceInsert(sq, t, p), p) = t
       /\ OnnxSequenceErase(OnnxSequenceInsert(sq, t, p), p) = sq
       /\ Len(OnnxSequenceInsert(sq, t, p)) = 3
  /\ OnnxSequenceInsert(sq, t, -2) = OnnxSequenceInsert(sq, t, 0)       \* Python list.insert positions
  /\ OnnxSequenceInsert(sq, t, -1) = <<x, t, OnnxNeg(x)>>
  /\ OnnxSequenceAt(sq, -1) = OnnxNeg(x) /\ OnnxSequenceAt(sq, -2) = x
  /\ OnnxSequenceErase(sq, -1) = <<x>> /\ OnnxSequenceLength(sq).data = <<2>>
  /\ \A a \in Axes : x.shape[a + 1] > 0 =>
       /\ OnnxConcatFromSequence(OnnxSplitToSequenceOnes(x, a, TRUE), a, FALSE) = x
       /\ OnnxConcatFromSequence(OnnxSplitToSequenceOnes(x, a, FALSE), a, TRUE) = x
       /\ OnnxConcatFromSequence(OnnxSplit(x, a, ChunkSizes(x.shape[a + 1], 2)), a, FALSE) = x
  /\ \A a \in 0..r : /\ OnnxConcatFromSequence(<<x>>, a, TRUE) = OnnxUnsqueeze(x, <<a>>)
                     /\ OnnxConcatFromSequence(<<x, x>>, a - (r + 1), TRUE) = OnnxConcatFromSequence(<<x, x>>, a, TRUE)
  /\ ChunkSizes(5, 2) = <<2, 2, 1>> /\ ChunkSizes(4, 2) = <<2, 2>> /\ ChunkSizes(0, 2) = <<>>
\* Pooling output extent (the ONNX formula + "windows that would start in the
\* right padded region are ignored"), checked on the whole small parameter grid.
ASSUME PoolSizeLaws ==
  \A in \in 1..8, k \in 1..4, st \in 1..3, pb \in 0..2, pe \in 0..2, d \in {1, 2} :
    LET dk == (k - 1) * d + 1
        pd == [b |-> <<pb>>, e |-> <<pe>>]
        fo == PoolOutDims(<<in>>, <<k>>, <<st>>, <<d>>, pd, FALSE)[1]
        co == PoolOutDims(<<in>>, <<k>>, <<st>>, <<d>>, pd, TRUE)[1]
        total == in + pb + pe
    IN (total >= dk /\ pb < dk /\ pe < dk) =>
         \* floor: every window lies inside the padded input and one more would not
         /\ fo >= 1 /\ (fo - 1) * st + dk <= total /\ fo * st + dk > total
         \* ceil: at most one extra (partial) window, and only if it starts left of the end padding
         /\ co = fo + (IF (total - dk) % st # 0 /\ fo * st < in + pb THEN 1 ELSE 0)
         \* every window starts inside the input or the begin padding, and (d = 1) holds an input element
         /\ \A j \in 0..(co - 1) : j * st < in + pb
         /\ d = 1 => \A j \in 0..(co - 1) : PoolWindow(<<in>>, <<k>>, <<st>>, <<1>>, <<pb>>, <<j>>) # <<>>
         \* auto_pad SAME_*: ceil(in / stride) whatever ceil_mode says, total padding split as documented
         /\ \A auto \in {"SAME_UPPER", "SAME_LOWER"} :
              LET sp == ConvPads(auto, <<in>>, <<k>>, <<st>>, <<d>>, <<0, 0>>) IN
              /\ PoolOutDims(<<in>>, <<k>>, <<st>>, <<d>>, sp, FALSE)[1] = CeilDiv(in, st)
              /\ PoolOutDims(<<in>>, <<k>>, <<st>>, <<d>>, sp, TRUE)[1] = CeilDiv(in, st)
              /\ (IF auto = "SAME_UPPER" THEN sp.e[1] - sp.b[1] ELSE sp.b[1] - sp.e[1]) \in {0, 1}
ASSUME QuantizeSpotChecks ==
  \* ties go to even BEFORE the zero point is added; saturation after
  /\ OnnxQuantizeLinearD(Vec("f32", <<1, 3, 5, -1, -3>>), 2, Scalar("f32", 1), Scalar("i8", 3), 1).data = <<3, 5, 5, 3, 1>>
  /\ OnnxQuantizeLinearD(Vec("f32", <<1, 3, 5>>), 1, Scalar("f32", 2), Scalar("u8", 1), 1).data = <<1, 3, 3>>
  /\ OnnxQuantizeLinearD(Vec("f32", <<600, -600, 509, 511>>), 2, Scalar("f32", 1), NoT, 1).data = <<255, 0, 254, 255>>
  /\ OnnxQuantizeLinearD(Vec("f32", <<255, 257, -257, -259>>), 2, Scalar("f32", 1), Scalar("i8", 0), 1).data = <<127, 127, -128, -128>>
  \* DynamicQuantizeLinear: x in [-64, 63.5] (quarters) -> scale 1/2, zero point 128
  /\ LET q == OnnxDynamicQuantizeLinear(Vec("f32", <<-256, 254, 1, 3, 0>>), 4) IN
     /\ q.scale = [n |-> 510, d |-> 1020] /\ q.zp.data = <<128>>
     /\ q.y.data = <<0, 255, 128, 130, 128>>            \* 0.25/0.5 = 0.5 -> 0 ; 0.75/0.5 = 1.5 -> 2
  /\ LET q == OnnxDynamicQuantizeLinear(Vec("f32", <<0, 510, 1, 3>>), 2) IN q.zp.data = <<0>> /\ q.y.data = <<0, 255, 0, 2>>
ASSUME NearestSpotChecks ==
  /\ NearestIndex("round_prefer_floor", [p |-> 1, q |-> 2], 9) = 0 /\ NearestIndex("round_prefer_ceil", [p |-> 1, q |-> 2], 9) = 1
  /\ NearestIndex("round_prefer_floor", [p |-> 3, q |-> 4], 9) = 1 /\ NearestIndex("round_prefer_ceil", [p |-> 1, q |-> 4], 9) = 0
  /\ NearestIndex("floor", [p |-> -1, q |-> 4], 9) = 0 /\ NearestIndex("ceil", [p |-> 35, q |-> 4], 9) = 8
  /\ NearestIndex("round_prefer_floor", [p |-> -1, q |-> 2], 9) = 0 /\ NearestIndex("ceil", [p |-> 5, q |-> 4], 9) = 2
  /\ RoundHalfEven(1, 2) = 0 /\ RoundHalfEven(3, 2) = 2 /\ RoundHalfEven(5, 2) = 2 /\ RoundHalfEven(-1, 2) = 0
  /\ RoundHalfEven(-3, 2) = -2 /\ RoundHalfEven(7, 4) = 2 /\ RoundHalfEven(5, 4) = 1 /\ RoundHalfEven(-5, 4) = -1
MiscLaws ==
  /\ OnnxPRelu(x, Scalar("i32", 1)) = x
  /\ OnnxLeakyRelu(x, 1) = x /\ OnnxLeakyRelu(x, 0) = OnnxRelu(x)
  /\ OnnxPRelu(x, Scalar("i32", -1)) = OnnxAbs(x)
  /\ r = 2 =>
       LET full(ax) == Vec("i32", [i \in 1..x.shape[1 - ax + 1] |-> x.shape[ax + 1]]) IN
       /\ x.shape[1] > 0 => OnnxReverseSequence(x, full(0), 1, 0) = OnnxSlice(x, <<-1>>, <<-1000>>, <<0>>, <<-1>>)
       /\ x.shape[2] > 0 => OnnxReverseSequence(x, full(1), 0, 1) = OnnxSlice(x, <<-1>>, <<-1000>>, <<1>>, <<-1>>)
       /\ OnnxReverseSequence(x, Vec("i32", [i \in 1..x.shape[2] |-> 0]), 1, 0) = x
       /\ OnnxReverseSequence(OnnxReverseSequence(x, Vec("i32", [i \in 1..x.shape[2] |-> MinI(1, x.shape[1])]), 1, 0),
                              Vec("i32", [i \in 1..x.shape[2] |-> MinI(1, x.shape[1])]), 1, 0) = x
  \* quantize / dequantize with scale s and zero point z are inverse on multiples of s
  /\ LET f == WithDType(x, "f32") s2 == Vec("f32", <<2>>) z == Vec("u8", <<7>>) IN
     /\ OnnxDequantizeLinear(WithDType(OnnxQuantizeLinear(OnnxMul(f, Scalar("f32", 2)), s2, z, 1), "u8"), s2, z, 1) = OnnxMul(f, Scalar("f32", 2))
     /\ OnnxQuantizeLinear(f, Vec("f32", <<1>>), NoT, 1).data = [k \in 1..Len(x.data) |-> MaxI(x.data[k], 0)]    \* uint8 saturation

\* the dispatcher agrees with the operators and applies the ONNX defaults
DispatcherDefaults ==
  /\ Eval("Transpose", [perm |-> <<>>], <<In(x)>>) = Ok1(OnnxTranspose(x, ReversePerm(r)))
  /\ Eval("Identity", <<>>, <<In(x)>>) = Ok1(x)
  /\ Eval("ReduceSum", [keepdims |-> <<>>], <<In(x)>>) = Ok1(OnnxReduce("ReduceSum", x, Iota(r), TRUE))
  /\ Eval("ReduceSum", [keepdims |-> <<0>>, noop_with_empty_axes |-> <<1>>], <<In(x), In(I64(<<>>))>>) = Ok1(x)
  /\ Eval("Flatten", <<>>, <<In(x)>>) = (IF r >= 1 THEN Ok1(OnnxFlatten(x, 1)) ELSE Undefined)
  /\ Eval("NoSuchOperator", <<>>, <<In(x)>>) = Unmodelled
  /\ Eval("Div", <<>>, <<In(x), In(OnnxSub(x, x))>>) = (IF NumEl(x) = 0 THEN Ok1(x) ELSE Undefined)
  /\ Eval("Squeeze", <<>>, <<In(x)>>).st = "ok"
=============================================================================
