---------------------------- MODULE OpContracts ----------------------------
(* Relational operator contracts (C13, C14) and the executor's in-place      *)
(* calling convention.  Everything here is a pure operator; the trace spec   *)
(* Trace_Relational evaluates them on what the real operators returned.      *)
(*                                                                           *)
(* A *value* is a record [dtype, shape, bits, items]:                        *)
(*   dtype  "f32" | "i32" | "i8" | "u8" | "seq_<elem>"                        *)
(*   shape  sequence of naturals (<<>> for sequences)                        *)
(*   bits   the elements in logical (row-major) order; f32 as the i32        *)
(*          reinterpretation of its bit pattern                              *)
(*   items  for sequences: sequence of [shape, bits]                         *)
(* A *run* is a record with at least [outcome, outputs]; outcome is "ok",    *)
(* "err" (the operator returned Err) or "panic".                             *)
EXTENDS Naturals, Sequences, FiniteSets

\* ---------------------------------------------------------------- equality
\* f32 elements are logged as the i32 reinterpretation of their bits.  A NaN is
\* any pattern whose magnitude part exceeds that of infinity (0x7f800000).
\* Two NaNs are treated as the same element: which payload / sign a NaN result
\* carries is not part of the properties (no operator documents payload
\* propagation); NaN against a number, or +0 against -0, still differ.
Magnitude(b) == IF b >= 0 THEN b ELSE (b + 2147483647) + 1
IsNaNBits(b) == Magnitude(b) > 2139095040
SameElements(dtype, x, y) ==
  \/ x = y
  \/ /\ dtype = "f32" /\ Len(x) = Len(y)
     /\ \A i \in 1..Len(x) : x[i] = y[i] \/ (IsNaNBits(x[i]) /\ IsNaNBits(y[i]))

\* First aspect in which two values differ ("none" if identical in type,
\* shape and bits).
ValueDiff(a, b) ==
  IF a.dtype # b.dtype THEN "dtype"
  ELSE IF a.shape # b.shape THEN "shape"
  ELSE IF ~SameElements(a.dtype, a.bits, b.bits) \/ a.items # b.items THEN "bits"
  ELSE "none"

OutputsDiff(x, y) ==
  IF Len(x) # Len(y) THEN "count"
  ELSE LET D == {i \in 1..Len(x) : ValueDiff(x[i], y[i]) # "none"}
       IN IF D = {} THEN "none"
          ELSE ValueDiff(x[CHOOSE i \in D : \A j \in D : i <= j],
                         y[CHOOSE i \in D : \A j \in D : i <= j])

\* How a variant run `r` deviates from the reference run `n` that succeeded.
Deviation(n, r) == IF r.outcome # "ok" THEN "failed" ELSE OutputsDiff(n.outputs, r.outputs)

\* C13, first sentence: "for every input for which normal execution succeeds,
\* running it in place on an owned copy of the designated input succeeds and
\* returns an output identical in shape, type and bits".  Nothing is required
\* when normal execution did not succeed.
InPlaceEqualsNormal(n, r) == n.outcome = "ok" => Deviation(n, r) = "none"

\* C13, second sentence: "for operators marked commutative, swapping the
\* operands gives a bit-identical result".  Reading chosen (weakest that the
\* text supports): required only when the unswapped run succeeded.
CommutedEqualsNormal(n, r) == n.outcome = "ok" => Deviation(n, r) = "none"

\* C14: "passing an input as a contiguous tensor, a permuted view, a stepped
\* slice, or a broadcast view with the same logical shape and elements yields
\* an identical output".  The all-contiguous run is the reference; when it
\* produced no output (Err / panic) the statement is read as requiring nothing
\* (a layout that turns an error into a success is reported as drift only).
LayoutIndependent(base, r) == base.outcome = "ok" => Deviation(base, r) = "none"

\* ------------------------------------------------ float-rounding boundary
\* (DESIGN 6.2)  The three relations above are decided on the *bits* for every
\* operator, with one stated boundary: operators whose result is a float sum
\* of products computed by rten-gemm (case field num = 1: MatMul, Gemm, Einsum,
\* Conv, ConvTranspose, MatMulNBits and their TransformInputs wrappers) choose
\* a kernel (gemv / gemm, packing) from the operand layout, which may change
\* the *summation order*.  On integer-valued data (case field exact = TRUE)
\* every partial sum is exact, so any order gives the same bits and the bit
\* relation is still required.  On other float data, and for operators that
\* apply non-linear float maths around rten-gemm (num = 2: GRU, LSTM, the
\* attention operators), a difference that only perturbs rounding does not
\* falsify the property; what is required then is equal count, dtype and shape
\* and a distance (computed by the harness: ceil(2^20 * max|a-b| / max(max|ref|,
\* 2^-10)) over all float outputs, 2^30 if a non-float or non-finite element
\* differs) of at most RoundingBound.  An indexing / stride / blocking error
\* changes some element by O(1) of the output scale and exceeds the bound.
RoundingBound == 16
Tolerant(c) == c.num = 2 \/ (c.num = 1 /\ ~c.exact)

CloseDeviation(n, r) ==
  IF r.outcome # "ok" THEN "failed"
  ELSE LET d == OutputsDiff(n.outputs, r.outputs) IN
       IF d \in {"count", "dtype", "shape"} THEN d
       ELSE IF d = "none" THEN "none"
       ELSE IF r.dist >= 0 /\ r.dist <= RoundingBound THEN "none" ELSE "distance"

\* Deviation under the boundary above (c = the case record).
DeviationFor(c, n, r) == IF Tolerant(c) THEN CloseDeviation(n, r) ELSE Deviation(n, r)
\* The three relations with the boundary applied (they coincide as formulas:
\* each compares a variant run with the reference run of the same case).
InPlaceHolds(c, n, r) == IF Tolerant(c) THEN n.outcome = "ok" => CloseDeviation(n, r) = "none"
                                        ELSE InPlaceEqualsNormal(n, r)
CommutedHolds(c, n, r) == IF Tolerant(c) THEN n.outcome = "ok" => CloseDeviation(n, r) = "none"
                                         ELSE CommutedEqualsNormal(n, r)
LayoutHolds(c, n, r) == IF Tolerant(c) THEN n.outcome = "ok" => CloseDeviation(n, r) = "none"
                                       ELSE LayoutIndependent(n, r)
\* bits differed but within the rounding bound (counted, reported in evidence)
RoundingOnly(c, n, r) == /\ Tolerant(c) /\ n.outcome = "ok" /\ r.outcome = "ok"
                         /\ Deviation(n, r) = "bits" /\ CloseDeviation(n, r) = "none"

\* ------------------------------------------ executor calling convention
\* Transcription of the in-place decision of Graph::run_plan (src/graph.rs).
\*   D     designated positions, Operator::in_place_inputs() (1-based here)
\*   comm  Operator::is_commutative()
\*   ins   per connected input: [present, owned, len]; `owned` means "held in
\*         the executor's temp-value map (or a takeable capture) and this
\*         operator is its only remaining reader"; len = number of elements.
Key(ins, p) == IF ins[p].owned THEN ins[p].len ELSE 0

Candidates(D, comm, ins) ==
  LET P == {p \in 1..Len(ins) : ins[p].present} IN
  IF D = {} THEN {}
  ELSE IF comm
       THEN \* Iterator::max_by_key returns the *last* maximal element
            IF P = {} THEN {}
            ELSE {CHOOSE p \in P : \A q \in P :
                     Key(ins, q) < Key(ins, p) \/ (Key(ins, q) = Key(ins, p) /\ q <= p)}
       ELSE {p \in D : p <= Len(ins) /\ ins[p].present}

Taken(D, comm, ins) ==
  LET C == Candidates(D, comm, ins) IN
  IF C # {} /\ \A p \in C : ins[p].owned THEN C ELSE {}

\* Closed form used to validate the harness: may the executor call
\* run_in_place with exactly the positions `taken` moved out of the input list?
ExecutorMayTake(D, comm, present, taken) ==
  /\ D # {} /\ taken # {}
  /\ IF comm THEN \E p \in present : taken = {p}
             ELSE taken = D \cap present
=============================================================================
