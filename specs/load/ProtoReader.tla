---------------------------- MODULE ProtoReader ----------------------------
(* C38 - state machine of the reader stack the ONNX protobuf decoder drives:  *)
(* an arbitrary decoder (the environment) reads fields tag / value / length / *)
(* body from a reader with a stack of limits.                                 *)
(*                                                                            *)
(*  Wrapping = FALSE: the CONTRACT reader.  Lengths are checked against the   *)
(*    innermost limit and the file length in unbounded arithmetic.  TLC       *)
(*    checks Monotone, InBounds, Linear (with ProtoContract!OpBound) and       *)
(*    termination for every decoder behaviour.                                *)
(*  Wrapping = TRUE: the IMPLEMENTATION-SHAPED reader, transcribed from       *)
(*    rten-onnx/src/protobuf/{value.rs,field.rs} as compiled in release mode:  *)
(*    LimitReader::new/sub_limit compute `position() + len` modulo the word    *)
(*    size W and do not clamp to the parent limit; check_has_bytes compares    *)
(*    `position() + len <= end` modulo W; ValueReader::skip does               *)
(*    seek_relative(len as i64); read_bytes allocates len bytes and then       *)
(*    read_exact's.  W is 2^64 in the code and 2^4..2^6 here.  Steps that      *)
(*    break the contract are not invariant violations of this variant: they    *)
(*    are printed as CANDIDATES (kind of field, class of length relative to    *)
(*    the position) which the harness scales to 64-bit inputs and runs on the  *)
(*    real decoder; only the trace validation of those runs decides.           *)
EXTENDS ProtoContract, Integers, TLC, Json

CONSTANTS W, MaxFile, MaxDepth, Wrapping

VARIABLES fileLen,  \* length of the input
          pos,      \* position of the underlying reader
          ends,     \* stack of limit ends (LimitReader.end), innermost last
          phase,    \* what the decoder reads next: "tag" | "value" | "len" | "body" | "packed"
          curLen,   \* declared length of the current length-delimited field
          nops,     \* operations that reached the underlying reader
          status,   \* "run" | "ok" | "err"
          last      \* the last operation (observation used by the invariants)
vars == <<fileLen, pos, ends, phase, curLen, nops, status, last>>

Op(k, len, p0, p1, ok) == [k |-> k, len |-> len, p0 |-> p0, p1 |-> p1, ok |-> ok]
NoOp == Op("none", 0, 0, 0, TRUE)
Min(a, b) == IF a < b THEN a ELSE b

Top == ends[Len(ends)]
Plus(a, b) == IF Wrapping THEN (a + b) % W ELSE a + b
Avail == IF pos <= fileLen THEN fileLen - pos ELSE 0
\* LimitReader::check_has_bytes (contract: also against the real end of input)
Has(len) == IF Wrapping THEN Plus(pos, len) <= Top
            ELSE pos + len <= Min(Top, fileLen)

Init == /\ fileLen \in 0..MaxFile
        /\ pos = 0
        /\ ends = <<W - 1>>         \* Fields::new: LimitReader::new(reader, u64::MAX)
        /\ phase = "tag" /\ curLen = 0 /\ nops = 0 /\ status = "run" /\ last = NoOp

Pop == IF Len(ends) > 1
       THEN /\ ends' = SubSeq(ends, 1, Len(ends) - 1) /\ phase' = "tag" /\ UNCHANGED status
       ELSE /\ status' = "ok" /\ UNCHANGED <<ends, phase>>

Fail(op) == /\ status' = "err" /\ last' = op /\ nops' = nops + 1
            /\ UNCHANGED <<fileLen, pos, ends, phase, curLen>>

\* Fields::next: read the tag; Eof (from the limit or from the reader) ends the message.
ReadTag ==
  /\ status = "run" /\ phase = "tag"
  /\ UNCHANGED <<fileLen, curLen>>
  /\ IF ~Has(1)
     THEN /\ Pop /\ UNCHANGED <<pos, nops>> /\ last' = NoOp
     ELSE IF Avail = 0
     THEN /\ Pop /\ nops' = nops + 1 /\ UNCHANGED pos
          /\ last' = Op("varint", 0, pos, pos, FALSE)
     ELSE /\ pos' = pos + 1 /\ nops' = nops + 1
          /\ last' = Op("varint", 0, pos, pos + 1, TRUE)
          /\ phase' \in {"value", "len", "tag"}      \* "tag": group tags carry no value
          /\ UNCHANGED <<ends, status>>

\* varint (1 byte here) or fixed-width value (2 bytes here)
ReadValue ==
  /\ status = "run" /\ phase = "value"
  /\ \E nb \in {1, 2} :
       IF ~Has(nb) THEN /\ status' = "err" /\ last' = NoOp
                        /\ UNCHANGED <<fileLen, pos, ends, phase, curLen, nops>>
       ELSE IF Avail < nb THEN Fail(Op("fixed", nb, pos, pos, FALSE))
       ELSE /\ pos' = pos + nb /\ nops' = nops + 1 /\ phase' = "tag"
            /\ last' = Op("fixed", nb, pos, pos + nb, TRUE)
            /\ UNCHANGED <<fileLen, ends, curLen, status>>

\* the length varint: the value is chosen by the adversary
ReadLen ==
  /\ status = "run" /\ phase = "len"
  /\ IF ~Has(1) THEN /\ status' = "err" /\ last' = NoOp
                     /\ UNCHANGED <<fileLen, pos, ends, phase, curLen, nops>>
     ELSE IF Avail = 0 THEN Fail(Op("varint", 0, pos, pos, FALSE))
     ELSE /\ pos' = pos + 1 /\ nops' = nops + 1 /\ phase' = "body"
          /\ curLen' \in 0..(W - 1)
          /\ last' = Op("varint", 0, pos, pos + 1, TRUE)
          /\ UNCHANGED <<fileLen, ends, status>>

\* Field::skip -> LimitReader::skip -> ValueReader::skip
Skip ==
  /\ status = "run" /\ phase = "body"
  /\ IF Wrapping
     THEN \* the Field's own limit is position() + len, so its check always passes;
          \* seek_relative(len as i64): negative for len >= W/2; Cursor refuses
          \* negative and overflowing positions, but not positions past the end.
          LET off == IF curLen >= W \div 2 THEN curLen - W ELSE curLen
              np == pos + off
          IN IF np < 0 \/ np >= W THEN Fail(Op("skip", curLen, pos, pos, FALSE))
             ELSE /\ pos' = np /\ nops' = nops + 1 /\ phase' = "tag"
                  /\ last' = Op("skip", curLen, pos, np, TRUE)
                  /\ UNCHANGED <<fileLen, ends, curLen, status>>
     ELSE IF ~Has(curLen) THEN Fail(Op("skip", curLen, pos, pos, FALSE))
          ELSE /\ pos' = pos + curLen /\ nops' = nops + 1 /\ phase' = "tag"
               /\ last' = Op("skip", curLen, pos, pos + curLen, TRUE)
               /\ UNCHANGED <<fileLen, ends, curLen, status>>

\* Field::read_bytes / read_string
ReadBytes ==
  /\ status = "run" /\ phase = "body"
  /\ IF (Wrapping /\ curLen <= Avail /\ pos <= fileLen) \/ (~Wrapping /\ Has(curLen))
     THEN /\ pos' = pos + curLen /\ nops' = nops + 1 /\ phase' = "tag"
          /\ last' = Op("bytes", curLen, pos, pos + curLen, TRUE)
          /\ UNCHANGED <<fileLen, ends, curLen, status>>
     ELSE Fail(Op("bytes", curLen, pos, pos, FALSE))   \* implementation: after vec![0; len]

\* Field::read_message / packed repeated fields: a sub-limit of `len` bytes
Enter(k, nextPhase) ==
  /\ status = "run" /\ phase = "body" /\ Len(ends) <= MaxDepth
  /\ IF Wrapping \/ Has(curLen)
     THEN /\ ends' = Append(ends, Plus(pos, curLen)) /\ phase' = nextPhase
          /\ last' = Op(k, curLen, pos, pos, TRUE)
          /\ UNCHANGED <<fileLen, pos, curLen, nops, status>>
     ELSE /\ status' = "err" /\ last' = Op(k, curLen, pos, pos, FALSE)
          /\ UNCHANGED <<fileLen, pos, ends, phase, curLen, nops>>
EnterMessage == Enter("msg", "tag")
EnterPacked == Enter("packed", "packed")

\* one element of a packed field; Eof ends the field
ReadPacked ==
  /\ status = "run" /\ phase = "packed"
  /\ UNCHANGED <<fileLen, curLen>>
  /\ IF ~Has(1) THEN /\ Pop /\ UNCHANGED <<pos, nops>> /\ last' = NoOp
     ELSE IF Avail = 0 THEN /\ Pop /\ nops' = nops + 1 /\ UNCHANGED pos
                            /\ last' = Op("varint", 0, pos, pos, FALSE)
     ELSE /\ pos' = pos + 1 /\ nops' = nops + 1
          /\ last' = Op("varint", 0, pos, pos + 1, TRUE)
          /\ UNCHANGED <<ends, phase, status>>

Next == ReadTag \/ ReadValue \/ ReadLen \/ Skip \/ ReadBytes \/ EnterMessage \/ EnterPacked \/ ReadPacked

\* ---- the contract, on the state machine ----
Monotone == last.p1 >= last.p0
InBounds == (last.ok /\ last.k \in {"skip", "bytes", "msg", "packed"}) => last.p0 + last.len <= fileLen
Linear == nops <= OpBound(fileLen)
\* every behaviour ends: the only states without successor are final
Terminates == (ENABLED Next) \/ status \in {"ok", "err"}
Done == status \in {"ok", "err"}

\* ---- candidates of the implementation-shaped variant ----
\* explored up to one operation beyond the bound (the behaviour may be infinite)
Bounded == nops <= OpBound(MaxFile) + 1
Breaks == \/ last.p1 < last.p0
          \/ (last.k \in {"skip", "bytes", "msg", "packed"} /\ last.p0 + last.len > fileLen)
Candidate ==
  LET s == last.p0 + last.len IN
  [k |-> last.k,
   cls |-> IF s >= W THEN "negpos" ELSE IF last.len >= W \div 2 THEN "half" ELSE "rem",
   d |-> IF s >= W THEN s - W ELSE IF last.len >= W \div 2 THEN last.len - W \div 2
         ELSE last.len - (fileLen - last.p0),
   accepted |-> last.ok]
\* printed from shallow states only: a candidate describes one step, not its history
Emit == (Breaks /\ nops <= 6) => PrintT(<<"REPLAY", ToJson(Candidate)>>)
=============================================================================
