---------------------------- MODULE ProtoReader ----------------------------
(* C38 - state machine of the reader stack the ONNX protobuf decoder drives:  *)
(* an arbitrary decoder (the environment) reads fields tag / value / length / *)
(* body from a reader with a stack of limits (LimitReader over ValueReader).   *)
(*                                                                            *)
(* A varint (tag, length, varint value, packed element) is read as the code    *)
(* reads it: LimitReader::read_varint checks that ONE byte remains before the  *)
(* limit and the underlying reader then consumes up to MaxVar bytes, so a      *)
(* varint that straddles the end of an embedded message or packed field        *)
(* leaves the position BEYOND the limit ("overrun").  The contract for that    *)
(* state: no later operation through that limited reader may succeed           *)
(* (InLimit) - the next bounded read must report the end / an error.           *)
(*                                                                            *)
(*  Wrapping = FALSE, EndOf = "checked_add": the reader as the contract wants  *)
(*    it and as the current code implements it (LimitReader::end_of:           *)
(*    position.checked_add(len) <= end; sub-limits never exceed the parent;    *)
(*    skip / read_bytes verify that the bytes exist).  TLC checks Monotone,    *)
(*    InBounds, InLimit, Linear (ProtoContract!OpBound) and termination for    *)
(*    every decoder behaviour.                                                 *)
(*  Wrapping = FALSE, EndOf = "subtract": the alternative bounds test          *)
(*    `len <= end - position` (wrapping subtraction, as a release build        *)
(*    computes it).  It relies on position <= end, which the overrun state     *)
(*    breaks: TLC REFUTES InLimit for it (kept as a documented refuted         *)
(*    variant; with overflow checks the same expression panics).               *)
(*  Wrapping = TRUE: the reader of the PINNED tree (before the repairs),       *)
(*    transcribed from rten-onnx/src/protobuf/{value.rs,field.rs} as compiled  *)
(*    in release mode: `position() + len` modulo W, no clamp to the parent     *)
(*    limit, seek_relative(len as i64), allocate-then-read.  Its contract-      *)
(*    breaking steps are printed as CANDIDATES (kind of field, class of length  *)
(*    relative to the position) which the harness scales to 64-bit inputs and   *)
(*    runs on the real decoder; only the trace validation of those runs decides.*)
(* W is 2^64 in the code and 2^4..2^6 here; MaxVar is 10 in the code.          *)
EXTENDS ProtoContract, Integers, TLC, Json

CONSTANTS W, MaxFile, MaxDepth, MaxVar, Wrapping, EndOf

VARIABLES fileLen,  \* length of the input
          pos,      \* position of the underlying reader
          ends,     \* stack of limit ends (LimitReader.end), innermost last
          phase,    \* what the decoder reads next: "tag" | "value" | "len" | "body" | "packed"
          curLen,   \* declared length of the current length-delimited field
          nops,     \* operations that reached the underlying reader
          status,   \* "run" | "ok" | "err"
          last,     \* the last operation (observation used by the invariants)
          over      \* history: a region was entered whose declared end lies beyond the input
vars == <<fileLen, pos, ends, phase, curLen, nops, status, last, over>>

\* lim: the innermost limit in force when the operation was issued
\* alloc: bytes of memory reserved for the operation before its data was read
Op(k, len, p0, p1, ok, lim) == [k |-> k, len |-> len, p0 |-> p0, p1 |-> p1, ok |-> ok, lim |-> lim, alloc |-> 0]
OpA(k, len, p0, p1, ok, lim, a) == [k |-> k, len |-> len, p0 |-> p0, p1 |-> p1, ok |-> ok, lim |-> lim, alloc |-> a]
\* read_bytes allocates up to Unchecked bytes without verifying that they exist
\* (MAX_UNCHECKED_ALLOC = 2^20 in the code)
Unchecked == 2
NoOp == Op("none", 0, 0, 0, TRUE, 0)
Min(a, b) == IF a < b THEN a ELSE b

Top == ends[Len(ends)]
Plus(a, b) == IF Wrapping THEN (a + b) % W ELSE a + b
Avail == IF pos <= fileLen THEN fileLen - pos ELSE 0
\* LimitReader::end_of / check_has_bytes
Has(len) == IF Wrapping THEN Plus(pos, len) <= Top
            ELSE IF EndOf = "subtract" THEN len <= (Top - pos) % W
            ELSE pos + len <= Top
\* the bytes exist in the input (ValueReader: read_exact / verified skip)
InFile(len) == pos <= fileLen /\ len <= fileLen - pos

Init == /\ fileLen \in 0..MaxFile
        /\ pos = 0
        /\ ends = <<W - 1>>         \* Fields::new: the unbounded top-level reader (end = u64::MAX)
        /\ phase = "tag" /\ curLen = 0 /\ nops = 0 /\ status = "run" /\ last = NoOp /\ over = FALSE

Pop == IF Len(ends) > 1
       THEN /\ ends' = SubSeq(ends, 1, Len(ends) - 1) /\ phase' = "tag" /\ UNCHANGED status
       ELSE /\ status' = "ok" /\ UNCHANGED <<ends, phase>>

Fail(op) == /\ status' = "err" /\ last' = op /\ nops' = nops + 1
            /\ UNCHANGED <<fileLen, pos, ends, phase, curLen>>
Refuse == /\ status' = "err" /\ last' = NoOp
          /\ UNCHANGED <<fileLen, pos, ends, phase, curLen, nops>>

\* one varint: 1-byte limit check, then nb <= MaxVar bytes from the input
VarintBytes == 1..Min(MaxVar, Avail)

\* Fields::next: read the tag; Eof from the limit ends the message; the input
\* ending inside a bounded message is an error, at top level it ends the message.
ReadTag ==
  /\ status = "run" /\ phase = "tag" /\ UNCHANGED over
  /\ UNCHANGED <<fileLen, curLen>>
  /\ IF ~Has(1)
     THEN /\ Pop /\ UNCHANGED <<pos, nops>> /\ last' = NoOp
     ELSE IF Avail = 0
     THEN IF Wrapping \/ Len(ends) = 1
          THEN /\ Pop /\ nops' = nops + 1 /\ UNCHANGED pos
               /\ last' = Op("varint", 0, pos, pos, FALSE, Top)
          ELSE /\ status' = "err" /\ nops' = nops + 1 /\ UNCHANGED <<pos, ends, phase>>
               /\ last' = Op("varint", 0, pos, pos, FALSE, Top)
     ELSE \E nb \in VarintBytes :
          /\ pos' = pos + nb /\ nops' = nops + 1
          /\ last' = Op("varint", 0, pos, pos + nb, TRUE, Top)
          /\ phase' \in {"value", "len", "tag"}      \* "tag": group tags carry no value
          /\ UNCHANGED <<ends, status>>

\* varint value (1..MaxVar bytes, 1-byte check) or fixed-width value (2 bytes here, full check)
ReadValue ==
  /\ status = "run" /\ phase = "value" /\ UNCHANGED over
  /\ \/ IF ~Has(1) THEN Refuse
        ELSE IF Avail = 0 THEN Fail(Op("varint", 0, pos, pos, FALSE, Top))
        ELSE \E nb \in VarintBytes :
             /\ pos' = pos + nb /\ nops' = nops + 1 /\ phase' = "tag"
             /\ last' = Op("varint", 0, pos, pos + nb, TRUE, Top)
             /\ UNCHANGED <<fileLen, ends, curLen, status>>
     \/ IF ~Has(2) THEN Refuse
        ELSE IF ~InFile(2) THEN Fail(Op("fixed", 2, pos, pos, FALSE, Top))
        ELSE /\ pos' = pos + 2 /\ nops' = nops + 1 /\ phase' = "tag"
             /\ last' = Op("fixed", 2, pos, pos + 2, TRUE, Top)
             /\ UNCHANGED <<fileLen, ends, curLen, status>>

\* the length varint: the value is chosen by the adversary
ReadLen ==
  /\ status = "run" /\ phase = "len" /\ UNCHANGED over
  /\ IF ~Has(1) THEN Refuse
     ELSE IF Avail = 0 THEN Fail(Op("varint", 0, pos, pos, FALSE, Top))
     ELSE \E nb \in VarintBytes :
          /\ pos' = pos + nb /\ nops' = nops + 1 /\ phase' = "body"
          /\ curLen' \in 0..(W - 1)
          /\ last' = Op("varint", 0, pos, pos + nb, TRUE, Top)
          /\ UNCHANGED <<fileLen, ends, status>>

\* In the current code Fields::next already requires the field to end within
\* the message (sub_limit(len) for the Field's own reader).
FieldFits == Wrapping \/ Has(curLen)

\* Field::skip -> LimitReader::skip -> ValueReader::skip
Skip ==
  /\ status = "run" /\ phase = "body" /\ UNCHANGED over
  /\ IF Wrapping
     THEN \* pinned tree: the Field's own limit is position() + len, so its check
          \* always passes; seek_relative(len as i64): negative for len >= W/2;
          \* Cursor refuses negative and overflowing positions, not positions past the end.
          LET off == IF curLen >= W \div 2 THEN curLen - W ELSE curLen
              np == pos + off
          IN IF np < 0 \/ np >= W THEN Fail(Op("skip", curLen, pos, pos, FALSE, Top))
             ELSE /\ pos' = np /\ nops' = nops + 1 /\ phase' = "tag"
                  /\ last' = Op("skip", curLen, pos, np, TRUE, Top)
                  /\ UNCHANGED <<fileLen, ends, curLen, status>>
     ELSE IF ~FieldFits THEN Refuse
          \* lengths >= W/2 do not fit the signed offset; the last skipped byte must exist
          ELSE IF curLen >= W \div 2 \/ ~InFile(curLen) THEN Fail(Op("skip", curLen, pos, pos, FALSE, Top))
          ELSE /\ pos' = pos + curLen /\ nops' = nops + 1 /\ phase' = "tag"
               /\ last' = Op("skip", curLen, pos, pos + curLen, TRUE, Top)
               /\ UNCHANGED <<fileLen, ends, curLen, status>>

\* Field::read_bytes / read_string
ReadBytes ==
  /\ status = "run" /\ phase = "body" /\ UNCHANGED over
  /\ IF ~FieldFits THEN Refuse
     ELSE IF InFile(curLen)
     THEN /\ pos' = pos + curLen /\ nops' = nops + 1 /\ phase' = "tag"
          /\ last' = OpA("bytes", curLen, pos, pos + curLen, TRUE, Top, curLen)
          /\ UNCHANGED <<fileLen, ends, curLen, status>>
     \* pinned tree: vec![0; len] first; current code: verifies lengths > Unchecked first
     ELSE Fail(OpA("bytes", curLen, pos, pos, FALSE, Top, IF Wrapping \/ curLen <= Unchecked THEN curLen ELSE 0))

\* Field::read_message / packed repeated fields: a sub-limit of `len` bytes
Enter(k, nextPhase) ==
  /\ status = "run" /\ phase = "body" /\ Len(ends) <= MaxDepth
  /\ over' = (over \/ (FieldFits /\ pos + curLen > fileLen))
  /\ IF FieldFits
     THEN /\ ends' = Append(ends, Plus(pos, curLen)) /\ phase' = nextPhase
          /\ last' = Op(k, curLen, pos, pos, TRUE, Top)
          /\ UNCHANGED <<fileLen, pos, curLen, nops, status>>
     ELSE /\ status' = "err" /\ last' = Op(k, curLen, pos, pos, FALSE, Top)
          /\ UNCHANGED <<fileLen, pos, ends, phase, curLen, nops>>
EnterMessage == Enter("msg", "tag")
EnterPacked == Enter("packed", "packed")

\* one varint element of a packed field; Eof from the limit ends the field
ReadPacked ==
  /\ status = "run" /\ phase = "packed" /\ UNCHANGED over
  /\ UNCHANGED <<fileLen, curLen>>
  /\ IF ~Has(1) THEN /\ Pop /\ UNCHANGED <<pos, nops>> /\ last' = NoOp
     ELSE IF Avail = 0
     THEN IF Wrapping THEN /\ Pop /\ nops' = nops + 1 /\ UNCHANGED pos
                           /\ last' = Op("varint", 0, pos, pos, FALSE, Top)
          ELSE /\ status' = "err" /\ nops' = nops + 1 /\ UNCHANGED <<pos, ends, phase>>
               /\ last' = Op("varint", 0, pos, pos, FALSE, Top)
     ELSE \E nb \in VarintBytes :
          /\ pos' = pos + nb /\ nops' = nops + 1
          /\ last' = Op("varint", 0, pos, pos + nb, TRUE, Top)
          /\ UNCHANGED <<ends, phase, status>>

Next == ReadTag \/ ReadValue \/ ReadLen \/ Skip \/ ReadBytes \/ EnterMessage \/ EnterPacked \/ ReadPacked

\* ---- the contract, on the state machine ----
Monotone == last.p1 >= last.p0
InBounds == (last.ok /\ last.k \in {"skip", "bytes"}) => last.p0 + last.len <= fileLen
\* an embedded message / packed field longer than the remaining input can be
\* entered (its end is only a limit) but the decode must then end in an error
OverlongIsError == status = "ok" => ~over
\* The limit of an embedded message / packed field is enforced: no operation
\* succeeds once the position is beyond the limit, nothing but a varint may end
\* beyond it (by fewer than MaxVar bytes), and sub-regions lie within it.
InLimit == last.ok =>
             /\ last.p0 <= last.lim
             /\ (last.k = "varint" => last.p1 - last.lim < MaxVar)
             /\ (last.k \in {"fixed", "skip", "bytes"} => last.p1 <= last.lim)
             /\ (last.k \in {"msg", "packed"} => last.p0 + last.len <= last.lim)
\* memory reserved before reading a field is bounded by the bytes that remain
\* in the input (plus the fixed unchecked allowance), not by the declared length
BoundedAlloc == last.alloc <= (IF last.p0 <= fileLen THEN fileLen - last.p0 ELSE 0) + Unchecked
\* the state the varint model makes reachable (TLC must find it: see OverrunReachable)
Overrun == pos > Top
NoOverrun == ~Overrun
Linear == nops <= OpBound(fileLen)
\* every behaviour ends: the only states without successor are final
Terminates == (ENABLED Next) \/ status \in {"ok", "err"}
Done == status \in {"ok", "err"}

\* ---- candidates of the pinned-tree variant ----
\* explored up to one operation beyond the bound (the behaviour may be infinite)
Bounded == nops <= OpBound(MaxFile) + 1
Breaks == \/ last.p1 < last.p0
          \/ ~BoundedAlloc
          \/ (last.k \in {"skip", "bytes", "msg", "packed"} /\ last.p0 + last.len > fileLen)
Candidate ==
  LET s == last.p0 + last.len IN
  [k |-> last.k,
   cls |-> IF s >= W THEN "negpos" ELSE IF last.len >= W \div 2 THEN "half" ELSE "rem",
   d |-> IF s >= W THEN s - W ELSE IF last.len >= W \div 2 THEN last.len - W \div 2
         ELSE last.len - (fileLen - last.p0),
   accepted |-> last.ok]
\* printed from shallow states only: a candidate describes one step, not its history
Emit == (Breaks /\ nops <= 6) => PrintT(<<"REPLAY", ToJson(Candidate)>>)
=============================================================================
