CONSTANTS W = 32  MaxFile = 6  MaxDepth = 2  MaxVar = 3  Wrapping = FALSE  EndOf = "subtract"
INIT Init
NEXT Next
INVARIANTS InLimit
CHECK_DEADLOCK FALSE
