---------------------------- MODULE ExternalData ----------------------------
(* C21 - External tensor data cannot escape the model directory or its file   *)
(* bounds.                                                                     *)
(*                                                                            *)
(* Statement: "A model can only obtain external tensor data from a file        *)
(* directly inside the directory of the model file (a single plain filename    *)
(* with a recognised data extension), and only from byte ranges that lie       *)
(* within that file. Any other location, traversal, absolute path, or          *)
(* out-of-range offset/length is reported as a load error."                    *)
(*                                                                            *)
(* A location string is a sequence of TOKENS (pieces of text); the string is   *)
(* their concatenation.  Path semantics are those of Unix (std::path on the    *)
(* sandbox's platform): "/" separates, "\" and "C:" are ordinary characters.   *)
(* 64-bit offsets/lengths are Words (base-2^15 limbs, unbounded arithmetic).   *)
EXTENDS Naturals, Sequences, FiniteSets, Word

\* ------------------------------------------------------------------ tokens
\* s: the text; dot: contains a '.'; pre/ext: text before/after its last '.';
\* dataext: ext begins with "data" or "onnx_data" (what rten recognises:
\* src/model/external_data.rs - "data", "onnx_data", "onnx_data_N etc.",
\* implemented as a prefix test; the prefix reading is taken here).
T(s, dot, pre, ext, dataext) == [s |-> s, dot |-> dot, pre |-> pre, ext |-> ext, dataext |-> dataext]
Tok(t) ==
  CASE t = "w.data"        -> T("w.data", TRUE, "w", "data", TRUE)
    [] t = "in.data"       -> T("in.data", TRUE, "in", "data", TRUE)
    [] t = "secret.data"   -> T("secret.data", TRUE, "secret", "data", TRUE)
    [] t = "w.onnx_data_1" -> T("w.onnx_data_1", TRUE, "w", "onnx_data_1", TRUE)
    [] t = "u.data"        -> T("u.data", TRUE, "u", "data", TRUE)     \* harness: U+00E9 ".data"
    [] t = ".data"         -> T(".data", TRUE, "", "data", TRUE)
    [] t = "w.txt"         -> T("w.txt", TRUE, "w", "txt", FALSE)
    [] t = "w"             -> T("w", FALSE, "", "", FALSE)
    [] t = "sub"           -> T("sub", FALSE, "", "", FALSE)
    [] t = "."             -> T(".", TRUE, "", "", FALSE)
    [] t = ".."            -> T("..", TRUE, ".", "", FALSE)
    [] t = "\\"            -> T("\\", FALSE, "", "", FALSE)
    [] t = "C:"            -> T("C:", FALSE, "", "", FALSE)
    [] t = "ROOTDIR"       -> T("ROOTDIR", FALSE, "", "", FALSE)   \* absolute directory of root/
    [] t = "/"             -> T("/", FALSE, "", "", FALSE)
Tokens == {"w.data", "in.data", "secret.data", "w.onnx_data_1", "u.data", ".data", "w.txt", "w",
           "sub", ".", "..", "\\", "C:", "/", "ABS"}

\* "ABS" is the absolute path of root/secret.data
RECURSIVE Expand(_)
Expand(ts) == IF ts = <<>> THEN <<>>
              ELSE IF Head(ts) = "ABS" THEN <<"/", "ROOTDIR", "/", "secret.data">> \o Expand(Tail(ts))
              ELSE <<Head(ts)>> \o Expand(Tail(ts))

RECURSIVE Concat(_)
Concat(g) == IF g = <<>> THEN "" ELSE Tok(Head(g)).s \o Concat(Tail(g))

\* groups of tokens between separators (possibly empty groups)
RECURSIVE Groups(_, _)
Groups(ts, cur) ==
  IF ts = <<>> THEN <<cur>>
  ELSE IF Head(ts) = "/" THEN <<cur>> \o Groups(Tail(ts), <<>>)
  ELSE Groups(Tail(ts), Append(cur, Head(ts)))

\* std::path::Path::extension of a file name given as a group of tokens:
\* text after the last '.', none if there is no '.' or nothing before it.
LastDot(g) == IF \E i \in 1..Len(g) : Tok(g[i]).dot
              THEN CHOOSE i \in 1..Len(g) : Tok(g[i]).dot /\ \A j \in (i + 1)..Len(g) : ~Tok(g[j]).dot
              ELSE 0
HasExt(g) == LET i == LastDot(g) IN
             /\ i > 0
             /\ Concat(SubSeq(g, 1, i - 1)) \o Tok(g[i]).pre # ""
\* the extension begins with "data"/"onnx_data": decided by the token holding the
\* last '.', because no dot-free token of the alphabet begins with "data"
DataExt(g) == HasExt(g) /\ Tok(g[LastDot(g)]).dataext /\ Tok(g[LastDot(g)]).ext # ""

\* std::path::Path::components (Unix): RootDir for a leading "/", empty
\* components dropped, "." dropped except as the very first component of a
\* relative path, ".." is ParentDir, anything else Normal.
Comp(k, g) == [k |-> k, g |-> g]
RECURSIVE CompsOf(_, _, _)
CompsOf(gs, i, rooted) ==
  IF i > Len(gs) THEN <<>>
  ELSE LET g == gs[i] name == Concat(g) rest == CompsOf(gs, i + 1, rooted) IN
       IF g = <<>> THEN rest
       ELSE IF name = "." THEN (IF i = 1 /\ ~rooted THEN <<Comp("cur", g)>> \o rest ELSE rest)
       ELSE IF name = ".." THEN <<Comp("parent", g)>> \o rest
       ELSE <<Comp("normal", g)>> \o rest
Components(ts) ==
  LET e == Expand(ts) rooted == e # <<>> /\ e[1] = "/" IN
  (IF rooted THEN <<Comp("root", <<>>)>> ELSE <<>>) \o CompsOf(Groups(e, <<>>), 1, rooted)

\* ------------------------------------------------------------ requirement
\* The location denotes a single plain filename with a recognised extension.
Allowed(ts) == LET c == Components(ts) IN
               /\ Len(c) = 1 /\ c[1].k = "normal" /\ DataExt(c[1].g)
FileName(ts) == Concat(Components(ts)[1].g)

\* What the operating system opens for join(modelDir, location): the directory
\* stack reached (modelDir = <<"root", "model">>), then the last name.
RECURSIVE Walk(_, _, _)
Walk(stack, c, i) ==
  IF i > Len(c) THEN stack
  ELSE CASE c[i].k = "root" -> Walk(<<>>, c, i + 1)
         [] c[i].k = "cur" -> Walk(stack, c, i + 1)
         [] c[i].k = "parent" -> Walk(IF stack = <<>> THEN stack ELSE SubSeq(stack, 1, Len(stack) - 1), c, i + 1)
         [] OTHER -> Walk(Append(stack, Concat(c[i].g)), c, i + 1)
ModelDir == <<"root", "model">>
Resolved(ts) == Walk(ModelDir, Components(ts), 1)
DirectChild(ts) == LET r == Resolved(ts) IN
                   /\ Len(r) = 3 /\ SubSeq(r, 1, 2) = ModelDir
                   /\ Components(ts) # <<>> /\ Components(ts)[Len(Components(ts))].k = "normal"

\* Byte range within the file, in unbounded arithmetic.  An empty range holds
\* no byte, so it is within any file whatever its offset (weakest reading of
\* "byte ranges that lie within that file").
InRange(off, len, flen) == len = WZero \/ WLe(WAdd(off, len), flen)

\* Content of the test files: byte i (0-based) of file number id.
ByteOf(id, i) == (id * 37 + i * 7 + 11) % 251
Bytes(id, off, len) == [j \in 1..len |-> ByteOf(id, off + j - 1)]

\* --------------------------------------------- implementation-shaped layer
\* is_allowed_external_data_path: first component Normal, no second component,
\* extension (of the last component) begins with "data" or "onnx_data".
ImplAllowed(ts) == LET c == Components(ts) IN
                   /\ c # <<>> /\ c[1].k = "normal" /\ Len(c) = 1
                   /\ DataExt(c[Len(c)].g)

IsizeMax == WSub(WPow2(63), WOne)
SatAdd64(a, b) == LET s == WAdd(a, b) IN IF Fits64(s) THEN s ELSE WMax64
\* FileLoader::read: length <= isize::MAX, seek(Start(offset)) (the OS rejects
\* offsets >= 2^63), read up to `length` bytes, accept iff that many were read.
FileAccept(off, len, flen) ==
  /\ WLe(len, IsizeMax) /\ WLt(off, WPow2(63))
  /\ IF WLe(off, flen) THEN WLe(len, WSub(flen, off)) ELSE len = WZero
\* MmapLoader::load / MemLoader::load: offset.saturating_add(length) <= len
MapAccept(off, len, flen) == WLe(SatAdd64(off, len), flen)
ImplAccept(loader, off, len, flen) ==
  IF loader = "file" THEN FileAccept(off, len, flen) ELSE MapAccept(off, len, flen)
=============================================================================
