--------------------------- MODULE MC_ExternalData ---------------------------
(* Model checking + case generation for C21:                                   *)
(*  - every token sequence up to MaxLen: the transcribed path predicate implies *)
(*    the requirement (single plain filename, recognised extension, resolves    *)
(*    to a direct child of the model directory);                                *)
(*  - every (offset, length) pair of the boundary set, for the three loaders:   *)
(*    the transcribed acceptance predicate implies InRange (unbounded).         *)
(* Each enumerated case is printed for replay on the real loaders.              *)
EXTENDS ExternalData, TLC, Json

CONSTANTS MaxLen, FileLen
VARIABLES kind, ts, off, len

RECURSIVE SeqsUpTo(_)
SeqsUpTo(n) == IF n = 0 THEN {<<>>}
               ELSE LET s == SeqsUpTo(n - 1) IN s \cup {Append(x, t) : x \in {y \in s : Len(y) = n - 1}, t \in Tokens}

FL == FromNat(FileLen)
Bound == {WZero, WOne, FromNat(FileLen - 1), FL, FromNat(FileLen + 1), FromNat(8),
          WPow2(31), WPow2(32), WPow2(62), IsizeMax, WPow2(63), WAdd(WPow2(63), WOne),
          WSub(W2p64, FL), WSub(W2p64, FromNat(8)), WSub(WMax64, FL), WMax64}

Init == \/ /\ kind = "path" /\ ts \in SeqsUpTo(MaxLen) /\ off = WZero /\ len = FromNat(8)
        \/ /\ kind = "range" /\ ts = <<"w.data">> /\ off \in Bound /\ len \in Bound
Next == UNCHANGED <<kind, ts, off, len>>

PathSafe == kind = "path" =>
              (ImplAllowed(ts) => /\ Allowed(ts) /\ DirectChild(ts)
                                  /\ Resolved(ts) = ModelDir \o <<FileName(ts)>>)
\* (an empty range beyond the end of the file is accepted by FileLoader and
\* rejected by the other two; InRange holds for every empty range)
RangeSafe == kind = "range" =>
               \A loader \in {"file", "mmap", "mem"} : ImplAccept(loader, off, len, FL) => InRange(off, len, FL)
\* the loaders disagree only on empty ranges beyond the end
LoadersAgree == kind = "range" =>
                  (FileAccept(off, len, FL) # MapAccept(off, len, FL) => (len = WZero /\ ~WLe(off, FL)))

Emit == PrintT(<<"REPLAY", ToJson([kind |-> kind, t |-> ts, off |-> off, len |-> len])>>)
=============================================================================
