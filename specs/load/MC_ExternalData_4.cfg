CONSTANTS MaxLen = 4  FileLen = 64
INIT Init
NEXT Next
INVARIANTS PathSafe RangeSafe LoadersAgree Emit
CHECK_DEADLOCK FALSE
