CONSTANTS W = 16  Dims = {0, 1, 2, 3, 4, 15}  MaxRank = 4  HL = 4
INIT Init
NEXT Next
INVARIANTS HeaderSafe Emit
CHECK_DEADLOCK FALSE
