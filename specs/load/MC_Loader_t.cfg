CONSTANTS W = 64  Dims = {0, 1, 2, 3, 4, 8, 16, 32, 63}  MaxRank = 4  HL = 4
INIT Init
NEXT Next
INVARIANTS HeaderSafe Emit
CHECK_DEADLOCK FALSE
