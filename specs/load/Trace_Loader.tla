---------------------------- MODULE Trace_Loader ----------------------------
(* C05 - trace validation of the real model loaders.  Each case is one load   *)
(* of a byte string (structured mutation of a valid ONNX / .rten model, or a  *)
(* seeded flip / truncation) through Model::load, load_file or load_mmap in a *)
(* child process; for a loaded model the harness reports every constant's     *)
(* shape, reported element count and backing storage length (limbs), then the *)
(* outcome of a bounded smoke run.  The Loader contract decides.              *)
EXTENDS TraceLib, Loader

VARIABLES l, nbad, c, st
vars == <<l, nbad, c, st>>

NoCase == [ev |-> "none"]
Init == /\ l = 1 /\ nbad = NoBad /\ c = NoCase
        /\ st = [cases |-> 0, loaded |-> 0, errors |-> 0, constants |-> 0, runs_ok |-> 0, runs_err |-> 0,
                 runs_panic |-> 0, runs_other |-> 0, alloc_over |-> 0]

e == Rec[l]
Sig(class, detail) == [fmt |-> c.fmt, api |-> c.api, class |-> class, detail |-> detail, build |-> c.build]
Ctx == [case |-> [id |-> c.id, build |-> c.build, fmt |-> c.fmt, api |-> c.api, gen |-> c.gen, mutation |-> c.mutation, n |-> c.n],
        event |-> e]

Case == /\ e.ev = "case" /\ c' = e /\ st' = [st EXCEPT !.cases = @ + 1] /\ UNCHANGED nbad

\* "loading terminates and returns either a model or an error, without ... panics"
Load == /\ e.ev = "load" /\ UNCHANGED c
        /\ nbad' = Flag(nbad, LegalLoadOutcome(e.outcome),
                        Sig(e.outcome, e.errclass), Ctx)
        /\ st' = [st EXCEPT !.loaded = @ + (IF e.outcome = "ok" THEN 1 ELSE 0),
                            !.errors = @ + (IF e.outcome = "err" THEN 1 ELSE 0),
                            !.alloc_over = @ + (IF BoundedLoadAlloc(e.maxalloc, c.n) THEN 0 ELSE 1)]

\* "Every constant in a successfully loaded model has an element count that fits
\* in memory and matches its backing data"
ConstClass(k) ==
  LET p == ElemCount(k.shape) IN
  IF ~Fits64(p) THEN "dims product >= 2^64 accepted"
  ELSE IF ~FitsMemory(k.shape) THEN "dims product >= 2^63 accepted"
  ELSE IF p # k.backing THEN "dims product differs from the backing data length"
  ELSE "reported element count differs from the dims product"
Const == /\ e.ev = "const" /\ UNCHANGED c
         /\ nbad' = Flag(nbad, WellFormedConstant(e.shape, e.count, e.backing), Sig(ConstClass(e), e.dtype), Ctx)
         /\ st' = [st EXCEPT !.constants = @ + 1]

\* "... so that running the model cannot read outside that data": the smoke run
\* is judged only for a memory fault; its other outcomes are counted (run-time
\* errors and panics are the subject of other properties).
MemoryFault == e.outcome = "abort" /\ e.detail \in {"signal 11", "signal 7"}
Run == /\ e.ev = "run" /\ UNCHANGED c
       /\ nbad' = Flag(nbad, ~MemoryFault, Sig("smoke run: memory fault", e.detail), Ctx)
       /\ st' = [st EXCEPT !.runs_ok = @ + (IF e.outcome = "ok" THEN 1 ELSE 0),
                           !.runs_err = @ + (IF e.outcome = "err" THEN 1 ELSE 0),
                           !.runs_panic = @ + (IF e.outcome = "panic" THEN 1 ELSE 0),
                           !.runs_other = @ + (IF e.outcome \in {"abort", "timeout"} THEN 1 ELSE 0)]

Next == /\ l <= NRec /\ l' = l + 1 /\ (Case \/ Load \/ Const \/ Run)

Report == l = NRec + 1 =>
            /\ ReportBad(nbad)
            /\ Stat("cases", st.cases) /\ Stat("loaded", st.loaded) /\ Stat("errors", st.errors)
            /\ Stat("constants", st.constants) /\ Stat("runs_ok", st.runs_ok) /\ Stat("runs_err", st.runs_err)
            /\ Stat("runs_panic", st.runs_panic) /\ Stat("runs_other", st.runs_other)
            /\ Stat("alloc_over", st.alloc_over)
=============================================================================
