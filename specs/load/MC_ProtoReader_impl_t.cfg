CONSTANTS W = 32  MaxFile = 5  MaxDepth = 1  MaxVar = 1  Wrapping = TRUE  EndOf = "checked_add"
INIT Init
NEXT Next
CONSTRAINT Bounded
INVARIANTS Emit
CHECK_DEADLOCK FALSE
