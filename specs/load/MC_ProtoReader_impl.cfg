CONSTANTS W = 16  MaxFile = 5  MaxDepth = 1  Wrapping = TRUE
INIT Init
NEXT Next
CONSTRAINT Bounded
INVARIANTS Emit
CHECK_DEADLOCK FALSE
