------------------------------ MODULE MC_Loader ------------------------------
(* Exhaustive check of the implementation-shaped acceptance predicates against *)
(* the contract at word size W, over all field values:                          *)
(*   header  : HeaderAccept => the model segment and the tensor-data offset lie *)
(*             within the file (unbounded) - an invariant;                      *)
(*   fromdata: try_from_data accepts (shape, dataLen);                          *)
(*   rtenoff : the .rten offset path returns ok / err / panic.                  *)
(* For fromdata / rtenoff the wrapping transcription is EXPECTED to accept      *)
(* shapes whose unbounded product differs from the data length: each such case  *)
(* is printed as a CANDIDATE; the harness scales power-of-two candidates to     *)
(* 64 bits and runs them on the real loaders; only Trace_Loader decides.        *)
EXTENDS Loader, TLC, Json

CONSTANTS W, Dims, MaxRank, HL
VARIABLES kind, shape, dlen, mo, ml, tdo, fs

RECURSIVE Shapes(_)
Shapes(n) == IF n = 0 THEN {<<>>}
             ELSE LET s == Shapes(n - 1) IN s \cup {Append(x, d) : x \in {y \in s : Len(y) = n - 1}, d \in Dims}

Init == \/ /\ kind = "header" /\ shape = <<>> /\ dlen = 0
           /\ fs \in 0..(W \div 2 - 1)      \* a buffer length is at most isize::MAX
           /\ mo \in 0..(W - 1) /\ ml \in 0..(W - 1) /\ tdo \in {0, HL - 1, HL, W \div 2, W - 1}
        \/ /\ kind \in {"fromdata", "rtenoff"} /\ shape \in Shapes(MaxRank) /\ dlen \in 0..(W - 1)
           /\ mo = 0 /\ ml = 0 /\ tdo = 0 /\ fs = 0
Next == UNCHANGED <<kind, shape, dlen, mo, ml, tdo, fs>>

HeaderSafe == (kind = "header" /\ HeaderAccept(mo, ml, tdo, fs, HL, W)) =>
                /\ mo + ml <= fs          \* file_data[offset..offset + len] is in bounds
                /\ tdo <= fs
\* rtenoff: storage of dlen bytes, element size 1 or 2, offset 0
Breaks ==
  \/ kind = "fromdata" /\ AcceptFromData(shape, dlen, W) /\ ProdN(shape) # dlen
  \/ kind = "rtenoff" /\ \E es \in {1, 2} :
        LET o == RtenOutcome(shape, es, 0, dlen, W) IN
        o = "panic" \/ (o = "ok" /\ ProdN(shape) * es > dlen)
Emit == Breaks => PrintT(<<"REPLAY", ToJson([kind |-> kind, shape |-> shape, dlen |-> dlen, w |-> W])>>)
=============================================================================
