------------------------------- MODULE Loader -------------------------------
(* C05 - Loading untrusted model bytes is safe, bounded and well-formed.      *)
(*                                                                            *)
(* Statement: "For any byte string presented as an ONNX or .rten model (from  *)
(* a buffer or a file), loading terminates and returns either a model or an   *)
(* error, without undefined behaviour, panics or out-of-bounds reads. Every   *)
(* constant in a successfully loaded model has an element count that fits in  *)
(* memory and matches its backing data, so that running the model cannot read *)
(* outside that data."                                                        *)
(*                                                                            *)
(* Part 1: the contract, over unbounded naturals (Word limbs).                *)
(* Part 2: implementation-shaped acceptance predicates at a small word size W *)
(* (rten-tensor Layout::min_data_len / try_from_data, rten_loader's           *)
(* constant_data_from_storage_offset, Header::from_buf), model-checked        *)
(* against the contract by MC_Loader.                                         *)
EXTENDS Naturals, Integers, Sequences, Word

\* ------------------------------------------------------------ the contract
\* Loading returns a model or an error (never a panic, an abort or a hang).
LegalLoadOutcome(o) == o \in {"ok", "err"}

\* Memory reserved while loading is proportional to the bytes present in the
\* file: largest single allocation requested during a load of an n-byte file
\* (the constant covers the operator registry, graph tables and the decoder's
\* buffers).  Reported as DRIFT when exceeded (rten documents that it does not
\* bound memory); an allocation failure or capacity-overflow panic is a
\* violation of LegalLoadOutcome by itself.
LoadAllocBound(n) == 64 * n + 16777216
BoundedLoadAlloc(maxalloc, n) == WLe(maxalloc, FromNat(LoadAllocBound(n)))

\* A constant of a loaded model: `shape` (sequence of Words), `count` = the
\* number of elements the tensor reports, `backing` = number of elements of
\* the storage slice behind it.
ElemCount(shape) == WProd(shape)                       \* unbounded product
FitsMemory(shape) == WLt(ElemCount(shape), WPow2(63))  \* < isize::MAX + 1 elements
MatchesBacking(shape, count, backing) == ElemCount(shape) = backing /\ ElemCount(shape) = count
WellFormedConstant(shape, count, backing) == FitsMemory(shape) /\ MatchesBacking(shape, count, backing)

\* ------------------------------------------- implementation-shaped (ints, mod W)
RECURSIVE ProdN(_)
ProdN(s) == IF s = <<>> THEN 1 ELSE Head(s) * ProdN(Tail(s))
RECURSIVE ProdWrap(_, _)
ProdWrap(s, W) == IF s = <<>> THEN 1 ELSE (Head(s) * ProdWrap(Tail(s), W)) % W
\* contiguous strides as DynLayout::from_shape computes them (wrapping products)
StrideWrap(s, i, W) == ProdWrap(SubSeq(s, i + 1, Len(s)), W)
RECURSIVE SumTerms(_, _, _)
SumTerms(s, i, W) == IF i > Len(s) THEN 0
                     ELSE ((((s[i] - 1) * StrideWrap(s, i, W)) % W) + SumTerms(s, i + 1, W)) % W
\* Layout::min_data_len
MinDataLenWrap(s, W) == IF \E i \in 1..Len(s) : s[i] = 0 THEN 0 ELSE (SumTerms(s, 1, W) + 1) % W
\* TensorBase::try_from_data: layout.min_data_len() == data.len()
AcceptFromData(s, dataLen, W) == MinDataLenWrap(s, W) = dataLen

\* rten_loader::constant_data_from_storage_offset: n = product (wrapping),
\* byte_len = n * size_of::<T>(), storage.get(offset..offset + byte_len), then
\* from_data(shape, elements) which PANICS on a length mismatch.
RtenSlice(s, esize, off, storageLen, W) ==
  LET n == ProdWrap(s, W) bl == (n * esize) % W end == (off + bl) % W
  IN [ok |-> off <= end /\ end <= storageLen, elems |-> bl \div esize]
RtenOutcome(s, esize, off, storageLen, W) ==
  LET sl == RtenSlice(s, esize, off, storageLen, W) IN
  IF ~sl.ok THEN "err"
  ELSE IF AcceptFromData(s, sl.elems, W) THEN "ok" ELSE "panic"

\* rten_model_file::Header::from_buf (saturating add)
SatAdd(a, b, W) == IF a + b > W - 1 THEN W - 1 ELSE a + b
HeaderAccept(mo, ml, tdo, fs, hl, W) ==
  /\ mo >= hl /\ mo <= fs /\ SatAdd(mo, ml, W) <= fs /\ tdo >= hl /\ tdo <= fs
=============================================================================
