CONSTANTS W = 32  MaxFile = 7  MaxDepth = 2  Wrapping = FALSE
INIT Init
NEXT Next
INVARIANTS Monotone InBounds Linear Terminates
CHECK_DEADLOCK FALSE
