CONSTANTS W = 32  MaxFile = 6  MaxDepth = 2  MaxVar = 3  Wrapping = FALSE  EndOf = "checked_add"
INIT Init
NEXT Next
INVARIANTS Monotone InBounds OverlongIsError InLimit BoundedAlloc Linear Terminates
CHECK_DEADLOCK FALSE
