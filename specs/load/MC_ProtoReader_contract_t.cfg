CONSTANTS W = 32  MaxFile = 8  MaxDepth = 3  MaxVar = 3  Wrapping = FALSE  EndOf = "checked_add"
INIT Init
NEXT Next
INVARIANTS Monotone InBounds OverlongIsError InLimit BoundedAlloc Linear Terminates
CHECK_DEADLOCK FALSE
