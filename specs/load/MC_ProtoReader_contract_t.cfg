CONSTANTS W = 64  MaxFile = 10  MaxDepth = 3  Wrapping = FALSE
INIT Init
NEXT Next
INVARIANTS Monotone InBounds Linear Terminates
CHECK_DEADLOCK FALSE
