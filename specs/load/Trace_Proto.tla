---------------------------- MODULE Trace_Proto ----------------------------
(* C38 - trace validation of the real rten-onnx protobuf decoder.             *)
(*                                                                            *)
(* The harness (vh-load proto) runs every input through                        *)
(*   traced_buf / traced_file / traced_sniff : ModelProto::decode and          *)
(*     is_onnx_model over a TracingReader that sits beneath the crate's        *)
(*     LimitReader and logs every primitive reader operation (positions and    *)
(*     lengths as base-2^15 limbs), and                                        *)
(*   parse_buf / parse_file / sniff / model_load : black box,                  *)
(* each run in a child process (CPU-time limit, address-space limit), so that  *)
(* panics, aborts and non-termination are outcome records.                     *)
(* Every predicate below is ProtoContract evaluated on what the code did.      *)
EXTENDS TraceLib, ProtoContract

VARIABLES l, nbad, c, api, cnt, cause, cb, cs, lv, st
vars == <<l, nbad, c, api, cnt, cause, cb, cs, lv, st>>

NoCase == [ev |-> "none"]
\* cause: first illegal operation of the current traced run; cb / cs: the cause
\* seen by the traced decode (buffer or file) / the traced sniff of this input,
\* which name the cause of a failing black-box run of the same input.
Init == /\ l = 1 /\ nbad = NoBad /\ c = NoCase /\ api = "" /\ cnt = 0 /\ cause = "" /\ cb = "" /\ cs = ""
        /\ lv = FALSE
        /\ st = [cases |-> 0, runs |-> 0, ops |-> 0, overlong_sites |-> 0, load_unattributed |-> 0,
                 straddle_cases |-> 0, straddle_overruns |-> 0, straddle_accepted |-> 0, alloc_over |-> 0]

e == Rec[l]
N == FromNat(c.n)

\* An encoded varint with ten or more continuation bytes followed by another
\* byte (the class of inputs on which varint::read_varint does not return).
LongVarint(b) == \E i \in 1..(Len(b) - 10) : \A j \in 0..9 : b[i + j] >= 128

\* Why an operation is illegal for this input, from the logged operands.
OpCause(o) ==
  IF o.k = "skip" /\ WIsNeg64(o.len) THEN "skip len>=2^63"
  ELSE IF o.k = "skip" /\ ~InBoundsW(o.p0, o.len, N) THEN "skip len>remaining"
  ELSE IF o.k \in {"bytes", "string", "bytes_begin", "string_begin"} /\ WIsNeg64(o.len) THEN "read len>=2^63"
  ELSE IF o.k \in {"bytes", "string", "bytes_begin", "string_begin"} /\ ~InBoundsW(o.p0, o.len, N) THEN "read len>remaining"
  ELSE ""

\* The mutated / cut length-delimited field declares more bytes than remain.
Over == c.site.kind \notin {"none", "region"} /\ ~InBoundsW(c.site.p, c.site.len, N)

First(a, b) == IF a # "" THEN a ELSE b
\* o: the outcome of the run being judged
RunCause(o) ==
  CASE api \in {"traced_buf", "traced_file", "traced_sniff"} -> cause
    [] api \in {"parse_buf", "parse_file"} -> cb
    [] api = "sniff" -> cs
    \* Model::load sniffs first (a sniff that does not return preempts
    \* everything), then decodes; a panic / abort of the decode is named by
    \* the traced decode of the same input
    [] OTHER -> IF o = "panic" /\ cb = "read len>=2^63" THEN cb
                ELSE IF o = "abort" /\ cb = "read len>remaining" THEN cb
                ELSE IF cs = "skip len>=2^63" THEN cs ELSE First(cb, cs)
CauseNow(o) == IF RunCause(o) # "" THEN RunCause(o)
               ELSE IF lv THEN "varint with >=10 continuation bytes"
               ELSE IF c.gen = "deepnest" THEN "deep nesting"
               ELSE IF c.site.kind = "region" THEN "varint straddles the end of a region"
               ELSE ""

\* build: the cargo profile of the binary that produced the case ("release":
\* overflow checks off, "checked": overflow checks and debug assertions on)
Sig(class, why) == [api |-> api, class |-> class, cause |-> why, build |-> c.build]

\* Straddle family: a varint starts inside the region [site.p, site.p + site.len)
\* (an embedded message or packed field) and ends after it.  ProtoReader.tla:
\* the reader lets the varint through (1-byte check) and must refuse whatever
\* comes next through that region's reader; a strict reader reports an error.
\* The property allows a message or an error, so a decode that returns a
\* message here is counted (DRIFT), not flagged.
Straddle == c.site.kind = "region"
REnd == WAdd(c.site.p, c.site.len)
DecodeApi == api \in {"traced_buf", "traced_file", "parse_buf", "parse_file"}
Ctx == [case |-> [id |-> c.id, n |-> c.n, gen |-> c.gen, lenclass |-> c.lenclass, site |-> c.site, build |-> c.build],
        event |-> e]

Case == /\ e.ev = "case"
        /\ c' = e /\ api' = "" /\ cnt' = 0 /\ cause' = "" /\ cb' = "" /\ cs' = ""
        /\ lv' = LongVarint(e.b)
        /\ st' = [st EXCEPT !.cases = @ + 1,
                            !.straddle_cases = @ + (IF e.site.kind = "region" THEN 1 ELSE 0),
                            !.overlong_sites = @ + (IF e.site.kind \notin {"none", "region"} /\ ~InBoundsW(e.site.p, e.site.len, FromNat(e.n)) THEN 1 ELSE 0)]
        /\ UNCHANGED nbad

Run == /\ e.ev = "run"
       /\ api' = e.api /\ cnt' = 0 /\ cause' = ""
       /\ st' = [st EXCEPT !.runs = @ + 1]
       /\ UNCHANGED <<nbad, c, cb, cs, lv>>

IsBegin(o) == o.k \in {"bytes_begin", "string_begin"}

Op == /\ e.ev = "op"
      /\ cnt' = IF IsBegin(e) THEN cnt ELSE cnt + 1
      /\ cause' = First(cause, OpCause(e))
      /\ cb' = IF api \in {"traced_buf", "traced_file"} THEN First(cb, OpCause(e)) ELSE cb
      /\ cs' = IF api = "traced_sniff" THEN First(cs, OpCause(e)) ELSE cs
      /\ st' = [st EXCEPT !.ops = @ + 1,
                          !.straddle_overruns = @ + (IF Straddle /\ api = "traced_buf" /\ e.k = "varint" /\ e.ok
                                                        /\ WLt(e.p0, REnd) /\ WLt(REnd, e.p1) THEN 1 ELSE 0)]
      /\ UNCHANGED <<c, api, lv>>
      /\ IF IsBegin(e) THEN UNCHANGED nbad
         ELSE LET mono == MonotoneW(e.p0, e.p1)
                  inb == (e.ok /\ e.k \in {"skip", "bytes", "string"}) => InBoundsW(e.p0, e.len, N)
                  b1 == Flag(nbad, mono, Sig("position moved backwards", OpCause(e)), Ctx)
              IN nbad' = Flag(b1, inb, Sig("overlong length accepted", OpCause(e)), Ctx)

\* Model::load runs more than the decoder (sniffing, then the graph loader,
\* which C05 judges); its failures are attributed to the decoder only when the
\* traced runs of the same input exhibited a decoder-level cause.
Attributed == api # "model_load" \/ CauseNow(e.outcome) # "" \/ Over
\* is_onnx_model is a heuristic with no error channel: its answer for a
\* truncated field is not judged, only that it answers.
JudgesOverlong == api \notin {"traced_sniff", "sniff"}

End == /\ e.ev = "end"
       /\ UNCHANGED <<c, api, cnt, cause, cb, cs, lv>>
       /\ LET legal == LegalOutcome(e.outcome) \/ e.outcome = "oplimit" \/ ~Attributed
              linear == cnt <= OpBound(c.n)
              trunc == (Over /\ JudgesOverlong) => e.outcome # "ok"
              b1 == Flag(nbad, legal, Sig(e.outcome, CauseNow(e.outcome)), Ctx)
              b2 == Flag(b1, linear, Sig("nonlinear", CauseNow(e.outcome)), Ctx)
          IN nbad' = Flag(b2, trunc, Sig("overlong field accepted", "site:" \o c.site.kind), Ctx)
       /\ st' = [st EXCEPT !.load_unattributed =
                   @ + (IF ~Attributed /\ ~LegalOutcome(e.outcome) THEN 1 ELSE 0),
                          !.alloc_over = @ + (IF BoundedAllocW(e.maxalloc, c.n) THEN 0 ELSE 1),
                          !.straddle_accepted =
                   @ + (IF Straddle /\ DecodeApi /\ e.outcome = "ok" THEN 1 ELSE 0)]

Next == /\ l <= NRec /\ l' = l + 1 /\ (Case \/ Run \/ Op \/ End)

Report == l = NRec + 1 =>
            /\ ReportBad(nbad)
            /\ Stat("cases", st.cases) /\ Stat("runs", st.runs) /\ Stat("ops", st.ops)
            /\ Stat("overlong_sites", st.overlong_sites)
            /\ Stat("load_unattributed", st.load_unattributed)
            /\ Stat("straddle_cases", st.straddle_cases) /\ Stat("straddle_overruns", st.straddle_overruns)
            /\ Stat("straddle_accepted", st.straddle_accepted) /\ Stat("alloc_over", st.alloc_over)
=============================================================================
