--------------------------- MODULE ProtoContract ---------------------------
(* C38 - contract of the protobuf reader the ONNX decoder drives, as pure     *)
(* predicates over unbounded naturals (Word = base-2^15 limbs, see Word.tla). *)
(* Shared by the model-checked state machine (ProtoReader.tla, small ints)    *)
(* and by the trace validation of the real decoder (Trace_Proto.tla, limbs).  *)
(*                                                                            *)
(* Property statement: "Decoding any byte string as an ONNX message (from a   *)
(* buffer or a file) finishes in time linear in the input size and returns a  *)
(* message or an error; field lengths larger than the remaining input are     *)
(* errors."                                                                   *)
EXTENDS Naturals, Sequences, Word

\* "finishes in time linear in the input size": the number of primitive reader
\* operations (read_varint / read_i32 / read_i64 / read_bytes / read_string /
\* skip that reach the underlying reader) for an input of n bytes.  Every
\* field costs at most 3 operations (tag, value-or-length, body) and consumes
\* at least 1 byte, every open message costs one more failed read at the end
\* of the input; ProtoReader.tla checks OpBound for every decoder behaviour
\* over a contract-abiding reader.
OpBound(n) == 4 * n + 16

\* Memory reserved while decoding is proportional to the bytes PRESENT in the
\* input, not to a length the input merely declares: the largest single
\* allocation requested during a decode of an n-byte input.  (The constant
\* covers the decoder's fixed-size buffers: BufReader 8 KiB, up to 1 MiB that
\* ValueReader::read_bytes allocates without verifying first.)  The property
\* text demands termination, linear time and "message or error"; it does not
\* bound memory, so an excess is reported as DRIFT unless it ends in an
\* allocation failure (abort) or a capacity-overflow panic, which are
\* violations by themselves.
AllocBound(n) == 64 * n + 4194304
BoundedAllocW(maxalloc, n) == WLe(maxalloc, FromNat(AllocBound(n)))

\* "returns a message or an error"
LegalOutcome(o) == o \in {"ok", "err"}

\* The reader position never moves backwards (otherwise the decoder re-reads
\* input, which is how it fails to terminate).
MonotoneW(p0, p1) == WLe(p0, p1)

\* "field lengths larger than the remaining input are errors": an operation on
\* `len` bytes at position p0 may succeed only if p0 + len <= n in unbounded
\* arithmetic.
InBoundsW(p0, len, n) == WLe(WAdd(p0, len), n)
=============================================================================
