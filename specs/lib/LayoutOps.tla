----------------------------- MODULE LayoutOps -----------------------------
(* Implementation-shaped layout algebra: a transcription of the arithmetic   *)
(* in rten-tensor/src/layout.rs (slice_layout, broadcast_strides, merge_axes, *)
(* permute/move_axis, insert_axis, squeezed, split, index_axis, slice_axis)   *)
(* on concrete layouts  [shape, strides, base]  where `base` is the offset of  *)
(* the view's first storage element inside the root storage.  Exact integer   *)
(* arithmetic (small values only).  Dimension numbers and indices are 0-based  *)
(* as in the Rust API; TLA+ sequences are 1-based.                             *)
(* Used by: Overlap (closure of contiguous layouts, C08), Construct (expected  *)
(* offset sets of view chains, C06), TensorStore (concrete layer, C09).        *)
EXTENDS Layout

L(shape, strides, base) == [shape |-> shape, strides |-> strides, base |-> base]
Rank(l) == Len(l.shape)
ContigL(shape) == L(shape, RowMajorStrides(shape), 0)
LEmpty(l) == IsEmpty(l.shape)
LMinDataLen(l) == MinDataLen(l.shape, l.strides)
LOffsets(l) == Offsets(l.shape, l.strides, l.base)
LOffsetSet(l) == OffsetSet(l.shape, l.strides, l.base)
LOffset(l, idx) == Offset(idx, l.strides, l.base)
ValidIndex(shape, idx) == Len(idx) = Len(shape) /\ \A i \in DOMAIN idx : idx[i] >= 0 /\ idx[i] < shape[i]

InsertAt(s, i, v) == [j \in 1..(Len(s) + 1) |-> IF j < i THEN s[j] ELSE IF j = i THEN v ELSE s[j - 1]]
Reverse(s) == [i \in 1..Len(s) |-> s[Len(s) + 1 - i]]

\* ---------------------------------------------------------------- permute
\* is_valid_permutation
IsPerm(n, p) == Len(p) = n /\ \A d \in 0..(n - 1) : Cardinality({i \in DOMAIN p : p[i] = d}) = 1
PermuteL(l, p) == L([i \in 1..Len(p) |-> l.shape[p[i] + 1]], [i \in 1..Len(p) |-> l.strides[p[i] + 1]], l.base)
TransposeL(l) == L(Reverse(l.shape), Reverse(l.strides), l.base)
\* DynLayout::move_axis: remove at `from`, insert at `to`
MoveAxisOk(l, from, to) == from >= 0 /\ to >= 0 /\ from < Rank(l) /\ to < Rank(l)
MoveAxisL(l, from, to) ==
  L(InsertAt(RemoveAt(l.shape, from + 1), to + 1, l.shape[from + 1]),
    InsertAt(RemoveAt(l.strides, from + 1), to + 1, l.strides[from + 1]), l.base)

\* ------------------------------------------------------------------ slice
\* A slice item is  [idx: BOOLEAN, start, end: Int, hasEnd: BOOLEAN, step: Int]
\* (SliceItem::Index(start) when idx, else SliceItem::Range(SliceRange{start,end,step})).
FullRange == [idx |-> FALSE, start |-> 0, end |-> 0, hasEnd |-> FALSE, step |-> 1]
IdxItem(i) == [idx |-> TRUE, start |-> i, end |-> 0, hasEnd |-> FALSE, step |-> 1]
RngItem(a, b, s) == [idx |-> FALSE, start |-> a, end |-> b, hasEnd |-> TRUE, step |-> s]
RngFrom(a, s) == [idx |-> FALSE, start |-> a, end |-> 0, hasEnd |-> FALSE, step |-> s]
ItemAt(items, d) == IF d <= Len(items) THEN items[d] ELSE FullRange

FromStart(i, size) == IF i >= 0 THEN i ELSE size + i          \* SliceRange::offset_from_start
\* SliceRange::resolve for step > 0 (a negative step is rejected by slice_layout
\* in every case: either resolve fails or `step.try_into::<usize>()` does)
RStart(it, size) == FromStart(it.start, size)
REnd(it, size) == IF it.hasEnd THEN FromStart(it.end, size) ELSE size
RangeOk(it, size) ==
  /\ it.step > 0
  /\ RStart(it, size) >= 0 /\ RStart(it, size) <= size
  /\ REnd(it, size) >= 0 /\ REnd(it, size) <= size
REndC(it, size) == MaxI(REnd(it, size), RStart(it, size))      \* canonical empty range
CeilDiv(a, b) == (a + b - 1) \div b
RangeSize(it, size) == CeilDiv(REndC(it, size) - RStart(it, size), it.step)
IndexOk(it, size) == FromStart(it.start, size) >= 0 /\ FromStart(it.start, size) < size

ItemOk(it, size) == IF it.idx THEN IndexOk(it, size) ELSE RangeOk(it, size)
\* slice_layout / slice_dyn succeed
SliceOk(l, items) ==
  /\ Len(items) <= Rank(l)
  /\ \A d \in 1..Rank(l) : ItemOk(ItemAt(items, d), l.shape[d])

KeptDims(l, items) == SelectSeq([d \in 1..Rank(l) |-> d], LAMBDA d : ~ItemAt(items, d).idx)
RECURSIVE SliceOffR(_, _, _)
SliceOffR(l, items, d) ==
  IF d = 0 THEN 0
  ELSE LET it == ItemAt(items, d)
           first == IF it.idx THEN FromStart(it.start, l.shape[d]) ELSE RStart(it, l.shape[d])
       IN l.strides[d] * first + SliceOffR(l, items, d - 1)
SliceL(l, items) ==
  LET kept == KeptDims(l, items)
      shape == [i \in 1..Len(kept) |-> RangeSize(ItemAt(items, kept[i]), l.shape[kept[i]])]
      strides == [i \in 1..Len(kept) |-> l.strides[kept[i]] * ItemAt(items, kept[i]).step]
      off == IF IsEmpty(shape) THEN 0 ELSE SliceOffR(l, items, Rank(l))
  IN L(shape, strides, l.base + off)

\* MutLayout::index_axis (asserts axis < ndim, index < size)
IndexAxisOk(l, axis, index) == axis >= 0 /\ axis < Rank(l) /\ index >= 0 /\ index < l.shape[axis + 1]
IndexAxisL(l, axis, index) ==
  LET shape == RemoveAt(l.shape, axis + 1) IN
  L(shape, RemoveAt(l.strides, axis + 1),
    l.base + (IF IsEmpty(shape) THEN 0 ELSE l.strides[axis + 1] * index))

\* MutLayout::slice_axis
SliceAxisOk(l, axis, a, b) == axis >= 0 /\ axis < Rank(l) /\ a <= b /\ b <= l.shape[axis + 1] /\ a >= 0
SliceAxisL(l, axis, a, b) ==
  LET shape == SetAt(l.shape, axis + 1, b - a) IN
  L(shape, l.strides, l.base + (IF IsEmpty(shape) THEN 0 ELSE a * l.strides[axis + 1]))

\* MutLayout::split (asserts axis < ndim, mid <= size)
SplitOk(l, axis, mid) == axis >= 0 /\ axis < Rank(l) /\ mid >= 0 /\ mid <= l.shape[axis + 1]
SplitLeftL(l, axis, mid) == L(SetAt(l.shape, axis + 1, mid), l.strides, l.base)
SplitRightL(l, axis, mid) ==
  LET shape == SetAt(l.shape, axis + 1, l.shape[axis + 1] - mid) IN
  \* (an empty right half is given the zero-length storage range end..end)
  L(shape, l.strides, l.base + (IF IsEmpty(shape) THEN LMinDataLen(l) ELSE mid * l.strides[axis + 1]))

\* -------------------------------------------------------------- broadcast
\* Layout::can_broadcast_to + broadcast_strides
BroadcastOk(l, target) ==
  /\ Rank(l) <= Len(target)
  /\ LET pad == Len(target) - Rank(l) IN
     \A i \in 1..Rank(l) : l.shape[i] = target[i + pad] \/ l.shape[i] = 1
BroadcastL(l, target) ==
  LET pad == Len(target) - Rank(l) IN
  L(target,
    [i \in 1..Len(target) |->
       IF i <= pad THEN 0
       ELSE IF l.shape[i - pad] = 1 /\ target[i] > 1 THEN 0 ELSE l.strides[i - pad]],
    l.base)

\* ------------------------------------------------- insert / remove / squeeze
\* DynLayout::insert_axis: stride of the new size-1 dim is stride*size of the
\* dim with the largest stride (the LAST such dim: Iterator::max_by_key), or 1.
RECURSIVE ArgMaxStrideR(_, _, _)
ArgMaxStrideR(strides, i, best) ==
  IF i > Len(strides) THEN best
  ELSE ArgMaxStrideR(strides, i + 1, IF best = 0 \/ strides[i] >= strides[best] THEN i ELSE best)
InsertAxisOk(l, d) == d >= 0 /\ d <= Rank(l)
InsertAxisL(l, d) ==
  LET m == ArgMaxStrideR(l.strides, 1, 0)
      ns == IF m = 0 THEN 1 ELSE l.strides[m] * l.shape[m]
  IN L(InsertAt(l.shape, d + 1, 1), InsertAt(l.strides, d + 1, ns), l.base)
RemoveAxisOk(l, d) == d >= 0 /\ d < Rank(l) /\ l.shape[d + 1] = 1
RemoveAxisL(l, d) == L(RemoveAt(l.shape, d + 1), RemoveAt(l.strides, d + 1), l.base)
SqueezeL(l) ==
  LET keep == SelectSeq([d \in 1..Rank(l) |-> d], LAMBDA d : l.shape[d] # 1)
  IN L([i \in 1..Len(keep) |-> l.shape[keep[i]]], [i \in 1..Len(keep) |-> l.strides[keep[i]]], l.base)

\* ------------------------------------------------------------- merge_axes
\* layout.rs merge_axes: walk from the innermost dim outwards; an outer dim is
\* merged into the current inner dim if its size is 1 or its stride equals
\* inner_stride * inner_size.  Result built innermost-first, then reversed.
RECURSIVE MergeR(_, _, _)
\* acc: sequence of <<size, stride>> innermost-first; d: next outer dim to visit
MergeR(l, d, acc) ==
  IF d = 0 THEN acc
  ELSE LET cur == acc[Len(acc)]
           osz == l.shape[d]  ost == l.strides[d]
       IN IF osz = 1 \/ ost = cur[2] * cur[1]
          THEN MergeR(l, d - 1, SetAt(acc, Len(acc), <<cur[1] * osz, cur[2]>>))
          ELSE MergeR(l, d - 1, Append(acc, <<osz, ost>>))
MergeAxesL(l) ==
  IF Rank(l) = 0 THEN l
  ELSE LET acc == Reverse(MergeR(l, Rank(l) - 1, <<<<l.shape[Rank(l)], l.strides[Rank(l)]>>>>))
       IN L([i \in 1..Len(acc) |-> acc[i][1]], [i \in 1..Len(acc) |-> acc[i][2]], l.base)


\* ------------------------------------------------- operation records (traces)
\* A view operation is logged as  [op: STRING, items: Seq(slice item), args: Seq(Int)]:
\*   slice(items)  permute(args = order)  transpose  move_axis(from, to)
\*   index_axis(axis, index)  slice_axis(axis, a, b)  split_left / split_right(axis, mid)
\*   broadcast(args = target shape)  reshape_view(args = new shape)
\*   squeeze  insert_axis(d)  remove_axis(d)  merge_axes  nd_view  as_dyn  view
A(o, i) == o.args[i]
\* reshaped_for_view / reshaped_mut: is_contiguous() and equal element counts
RECURSIVE ContigCheckR(_, _, _)
ContigCheckR(l, i, product) ==
  IF i = 0 THEN TRUE
  ELSE IF l.shape[i] = 1 THEN ContigCheckR(l, i - 1, product)
  ELSE IF l.strides[i] # product THEN FALSE
  ELSE ContigCheckR(l, i - 1, product * l.shape[i])
IsContiguousL(l) == ContigCheckR(l, Rank(l), 1)
NonNeg(s) == \A i \in DOMAIN s : s[i] >= 0

OpOkL(l, o) ==
  CASE o.op = "slice" -> SliceOk(l, o.items)
    [] o.op = "permute" -> IsPerm(Rank(l), o.args)
    [] o.op \in {"transpose", "squeeze", "merge_axes", "nd_view", "as_dyn", "view"} -> TRUE
    [] o.op = "move_axis" -> Len(o.args) = 2 /\ MoveAxisOk(l, A(o, 1), A(o, 2))
    [] o.op = "index_axis" -> IndexAxisOk(l, A(o, 1), A(o, 2))
    [] o.op = "slice_axis" -> SliceAxisOk(l, A(o, 1), A(o, 2), A(o, 3))
    [] o.op \in {"split_left", "split_right"} -> SplitOk(l, A(o, 1), A(o, 2))
    [] o.op = "broadcast" -> NonNeg(o.args) /\ BroadcastOk(l, o.args)
    [] o.op = "reshape_view" -> NonNeg(o.args) /\ IsContiguousL(l) /\ Prod(o.args) = Prod(l.shape)
    [] o.op = "insert_axis" -> InsertAxisOk(l, A(o, 1))
    [] o.op = "remove_axis" -> RemoveAxisOk(l, A(o, 1))

ApplyOpL(l, o) ==
  CASE o.op = "slice" -> SliceL(l, o.items)
    [] o.op = "permute" -> PermuteL(l, o.args)
    [] o.op = "transpose" -> TransposeL(l)
    [] o.op = "move_axis" -> MoveAxisL(l, A(o, 1), A(o, 2))
    [] o.op = "index_axis" -> IndexAxisL(l, A(o, 1), A(o, 2))
    [] o.op = "slice_axis" -> SliceAxisL(l, A(o, 1), A(o, 2), A(o, 3))
    [] o.op = "split_left" -> SplitLeftL(l, A(o, 1), A(o, 2))
    [] o.op = "split_right" -> SplitRightL(l, A(o, 1), A(o, 2))
    [] o.op = "broadcast" -> BroadcastL(l, o.args)
    [] o.op = "reshape_view" -> L(o.args, RowMajorStrides(o.args), l.base)
    [] o.op = "squeeze" -> SqueezeL(l)
    [] o.op = "insert_axis" -> InsertAxisL(l, A(o, 1))
    [] o.op = "remove_axis" -> RemoveAxisL(l, A(o, 1))
    [] o.op = "merge_axes" -> MergeAxesL(l)
    [] o.op \in {"nd_view", "as_dyn", "view"} -> l

\* --------------------------------------------------------- all permutations
RECURSIVE PermsOf(_)
PermsOf(S) == IF S = {} THEN {<<>>}
              ELSE UNION {{<<x>> \o p : p \in PermsOf(S \ {x})} : x \in S}
Perms(n) == PermsOf(0..(n - 1))
=============================================================================
