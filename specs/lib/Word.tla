------------------------------- MODULE Word -------------------------------
(* Unbounded naturals for TLC (whose integers are 32-bit Java ints).        *)
(* A Word is a little-endian sequence of base-2^15 limbs in canonical form   *)
(* (no most-significant zero limb; zero is <<>>), so that equal numbers are   *)
(* equal sequences and sets of Words can be counted with Cardinality.         *)
(* The harness logs 64-bit quantities in exactly this form (vcommon::limbs).  *)
(* All intermediate products stay below 2^31: limb*limb + carry < 2^30+2^16.  *)
EXTENDS Naturals, Integers, Sequences

WB == 32768
WZero == <<>>
WOne == <<1>>

RECURSIVE WNorm(_)
WNorm(s) == IF s = <<>> THEN s
            ELSE IF s[Len(s)] = 0 THEN WNorm(SubSeq(s, 1, Len(s) - 1)) ELSE s

\* Word of a TLC integer 0 <= n < 2^31.
RECURSIVE FromNat(_)
FromNat(n) == IF n = 0 THEN <<>> ELSE <<n % WB>> \o FromNat(n \div WB)

WLimb(a, i) == IF i <= Len(a) THEN a[i] ELSE 0

\* A Word fits a TLC int comfortably (< 2^30) iff it has at most two limbs.
WIsSmall(a) == Len(a) <= 2
ToNat(a) == WLimb(a, 1) + WB * WLimb(a, 2)

RECURSIVE WAddR(_, _, _, _)
WAddR(a, b, i, c) ==
  IF i > Len(a) /\ i > Len(b) THEN (IF c = 0 THEN <<>> ELSE <<c>>)
  ELSE LET s == WLimb(a, i) + WLimb(b, i) + c
       IN <<s % WB>> \o WAddR(a, b, i + 1, s \div WB)
WAdd(a, b) == WAddR(a, b, 1, 0)

\* a - b for a >= b.
RECURSIVE WSubR(_, _, _, _)
WSubR(a, b, i, br) ==
  IF i > Len(a) THEN <<>>
  ELSE LET d == a[i] - WLimb(b, i) - br
       IN IF d < 0 THEN <<d + WB>> \o WSubR(a, b, i + 1, 1)
          ELSE <<d>> \o WSubR(a, b, i + 1, 0)
WSub(a, b) == WNorm(WSubR(a, b, 1, 0))

RECURSIVE WMulLimbR(_, _, _, _)
WMulLimbR(a, d, i, c) ==
  IF i > Len(a) THEN FromNat(c)
  ELSE LET p == a[i] * d + c
       IN <<p % WB>> \o WMulLimbR(a, d, i + 1, p \div WB)
WMulLimb(a, d) == IF d = 0 \/ a = <<>> THEN <<>> ELSE WMulLimbR(a, d, 1, 0)

WShift(a, k) == IF a = <<>> THEN a ELSE [i \in 1..k |-> 0] \o a   \* a * 2^(15k)

RECURSIVE WMulR(_, _, _)
WMulR(a, b, j) ==
  IF j > Len(b) THEN <<>>
  ELSE WAdd(WShift(WMulLimb(a, b[j]), j - 1), WMulR(a, b, j + 1))
WMul(a, b) == IF a = <<>> \/ b = <<>> THEN <<>> ELSE WMulR(a, b, 1)

RECURSIVE WCmpR(_, _, _)
WCmpR(a, b, i) == IF i = 0 THEN 0
                  ELSE IF a[i] < b[i] THEN 0 - 1
                  ELSE IF a[i] > b[i] THEN 1
                  ELSE WCmpR(a, b, i - 1)
\* -1, 0, 1 (canonical inputs).
WCmp(a, b) == IF Len(a) < Len(b) THEN 0 - 1
              ELSE IF Len(a) > Len(b) THEN 1
              ELSE WCmpR(a, b, Len(a))
WLt(a, b) == WCmp(a, b) < 0
WLe(a, b) == WCmp(a, b) <= 0
WEq(a, b) == a = b

\* a mod 2^64  (64 = 4*15 + 4).
Wrap64(a) == IF Len(a) < 5 THEN a
             ELSE WNorm([i \in 1..5 |-> IF i = 5 THEN a[5] % 16 ELSE a[i]])
\* Does a fit in 64 bits?
Fits64(a) == Wrap64(a) = a

\* 2^n as a Word.
WPow2(n) == LET q == n \div 15  r == n % 15
            IN [i \in 1..(q + 1) |-> IF i = q + 1 THEN 2 ^ r ELSE 0]
W2p64 == WPow2(64)
WMax64 == WSub(W2p64, WOne)

\* Two's-complement reading of a 64-bit word as a signed value: sign and magnitude.
WIsNeg64(a) == ~WLt(a, WPow2(63))
WMag64(a) == IF WIsNeg64(a) THEN WSub(W2p64, a) ELSE a

RECURSIVE WSum(_)
WSum(s) == IF s = <<>> THEN WZero ELSE WAdd(Head(s), WSum(Tail(s)))
RECURSIVE WProd(_)
WProd(s) == IF s = <<>> THEN WOne ELSE WMul(Head(s), WProd(Tail(s)))

\* Sequence of ints -> sequence of Words and back (when small).
WSeq(s) == [i \in 1..Len(s) |-> FromNat(s[i])]
WAllSmall(ws) == \A i \in 1..Len(ws) : WIsSmall(ws[i])
NatSeq(ws) == [i \in 1..Len(ws) |-> ToNat(ws[i])]

\* Is x a well-formed Word (as read from JSON)?
IsWord(x) == /\ \A i \in 1..Len(x) : x[i] \in 0..(WB - 1)
             /\ (Len(x) > 0 => x[Len(x)] # 0)
=============================================================================
