------------------------------ MODULE Tensor ------------------------------
(* Dense tensors as TLA+ values, and the index arithmetic every operator in  *)
(* OnnxOps.tla rests on (core validated with TLC, DESIGN.md Appendix D).     *)
(*                                                                           *)
(* A tensor is a record                                                      *)
(*     [shape |-> <<d1, .., dr>>,   dims, naturals; <<>> is a scalar          *)
(*      data  |-> <<x1, .., xn>>,   the n = d1*..*dr elements, ROW-MAJOR      *)
(*      dtype |-> "f32" | "i32" | "i8" | "u8"]   rten's element types         *)
(* Elements are TLA+ integers whatever the dtype: an f32 tensor holds the     *)
(* mathematical integer value of each element (only integer-valued float     *)
(* data is modelled, DESIGN 2.5 / 6.2).  ONNX i64 and bool are "i32" and f64  *)
(* is "f32", as in rten.  Index tuples are 0-based; sequences are 1-based.    *)
(*                                                                           *)
(* All operators are pure.  Nothing here checks argument validity: callers    *)
(* (OnnxOps) guard with their own definedness predicates.                     *)
EXTENDS Layout, TLC
\* Layout gives Naturals, Integers, Sequences, FiniteSets and
\*   Prod, Unravel, Dot, Indices, IsEmpty, RemoveAt, SetAt, Take, Drop,
\*   RowMajorStrides, MinI, MaxI.

DTypes == {"f32", "i32", "i8", "u8"}

\* Number of elements of a shape.
Size(shape) == Prod(shape)
Rank(t) == Len(t.shape)
NumEl(t) == Prod(t.shape)

\* Row-major linear position (0-based) of a 0-based index tuple.
RECURSIVE RavelR(_, _, _)
RavelR(idx, shape, i) == IF i = 0 THEN 0 ELSE RavelR(idx, shape, i - 1) * shape[i] + idx[i]
Ravel(idx, shape) == RavelR(idx, shape, Len(shape))
\* (Unravel(lin, shape) is its inverse, from Layout.)

\* Element at a 0-based index tuple.
At(t, idx) == t.data[Ravel(idx, t.shape) + 1]

\* Sequences built as [i \in 1..n |-> e] are normalised eagerly with TLCEval: TLC
\* would otherwise keep them as closures and re-evaluate e at every use.
Mk(shape, dtype, data) == [shape |-> shape, dtype |-> dtype, data |-> data]
Scalar(dtype, v) == Mk(<<>>, dtype, <<v>>)
Vec(dtype, s) == Mk(<<Len(s)>>, dtype, s)

\* The tensor of the given shape whose element at index tuple idx is F(idx).
FromFn(shape, dtype, F(_)) ==
  LET sh == TLCEval([i \in 1..Len(shape) |-> shape[i]])
  IN Mk(sh, dtype, TLCEval([k \in 1..Prod(sh) |-> F(Unravel(k - 1, sh))]))

\* Same elements, other element type / other shape (same size).
WithDType(t, dtype) == Mk(t.shape, dtype, t.data)
WithShape(t, shape) == Mk(TLCEval([i \in 1..Len(shape) |-> shape[i]]), t.dtype, t.data)
MapT(F(_), t, dtype) == Mk(t.shape, dtype, TLCEval([k \in 1..Len(t.data) |-> F(t.data[k])]))

WellFormed(t) ==
  /\ \A i \in 1..Len(t.shape) : t.shape[i] \in Nat
  /\ Len(t.data) = Prod(t.shape)
  /\ t.dtype \in DTypes

\* Representable values of each element type (f32: integers that are exact).
InRange(dtype, v) ==
  CASE dtype = "i8" -> v >= -128 /\ v <= 127
    [] dtype = "u8" -> v >= 0 /\ v <= 255
    [] dtype = "i32" -> TRUE          \* TLC integers are themselves 32-bit
    [] dtype = "f32" -> v >= -16777216 /\ v <= 16777216

---------------------------------------------------------------------------
\* Sequence / integer helpers (0-based index tuples are ordinary sequences).
RECURSIVE SeqSumR(_, _)
SeqSumR(s, i) == IF i = 0 THEN 0 ELSE SeqSumR(s, i - 1) + s[i]
SeqSum(s) == SeqSumR(s, Len(s))
InsertAt(s, i, v) == [j \in 1..(Len(s) + 1) |-> IF j < i THEN s[j] ELSE IF j = i THEN v ELSE s[j - 1]]
\* s[a..b] (1-based, inclusive), <<>> if b < a.
SubSeq1(s, a, b) == [j \in 1..(IF b >= a THEN b - a + 1 ELSE 0) |-> s[a + j - 1]]
IsPerm(p, n) == Len(p) = n /\ {p[i] : i \in 1..Len(p)} = 0..(n - 1)
AbsI(x) == IF x < 0 THEN -x ELSE x
SgnI(x) == IF x < 0 THEN -1 ELSE IF x > 0 THEN 1 ELSE 0
\* Division truncating toward zero (C, Rust); divisor # 0.
TruncDiv(a, b) == SgnI(a) * SgnI(b) * (AbsI(a) \div AbsI(b))
TruncRem(a, b) == a - b * TruncDiv(a, b)              \* sign of the dividend (C fmod, Rust %)
\* Floor division / modulus for any non-zero divisor (Python, numpy).
FloorDiv(a, b) == IF b > 0 THEN a \div b ELSE (-a) \div (-b)
FloorMod(a, b) == a - b * FloorDiv(a, b)              \* sign of the divisor
CeilDiv(a, b) == -FloorDiv(-a, b)
\* Normalise a possibly negative axis / index against an extent n.
Norm(i, n) == IF i < 0 THEN i + n ELSE i
Clamp(x, lo, hi) == IF x < lo THEN lo ELSE IF x > hi THEN hi ELSE x

---------------------------------------------------------------------------
\* Numpy-style (multidirectional) broadcasting, as referenced by the ONNX
\* operator documentation (docs/Broadcasting.md).
PadLeft(s, n) == [i \in 1..n |-> IF i <= n - Len(s) THEN 1 ELSE s[i - (n - Len(s))]]
Broadcastable(a, b) ==
  LET n == MaxI(Len(a), Len(b)) pa == PadLeft(a, n) pb == PadLeft(b, n)
  IN \A i \in 1..n : pa[i] = pb[i] \/ pa[i] = 1 \/ pb[i] = 1
BroadcastShape(a, b) ==
  LET n == MaxI(Len(a), Len(b)) pa == PadLeft(a, n) pb == PadLeft(b, n)
  IN TLCEval([i \in 1..n |-> IF pa[i] = 1 THEN pb[i] ELSE pa[i]])
\* Unidirectional: a can be broadcast TO exactly shape b.
BroadcastableTo(a, b) == Len(a) <= Len(b) /\ Broadcastable(a, b) /\ BroadcastShape(a, b) = b
\* Index into an operand of shape s for index tuple idx of the broadcast result.
BIdx(idx, s) == LET k == Len(idx) - Len(s) IN [i \in 1..Len(s) |-> IF s[i] = 1 THEN 0 ELSE idx[i + k]]
BAt(t, idx) == At(t, BIdx(idx, t.shape))

\* Elementwise binary operator with broadcasting; result dtype given.
Binary(Op(_, _), a, b, dtype) ==
  LET F(idx) == Op(BAt(a, idx), BAt(b, idx))
  IN FromFn(BroadcastShape(a.shape, b.shape), dtype, F)
\* t broadcast against a target shape (ONNX Expand semantics).
BroadcastTo(t, shape) ==
  LET F(idx) == BAt(t, idx) IN FromFn(BroadcastShape(t.shape, shape), t.dtype, F)
=============================================================================
