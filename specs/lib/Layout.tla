------------------------------ MODULE Layout ------------------------------
(* Strided layouts in unbounded arithmetic: shape, strides (in elements),   *)
(* base offset.  Indices are 0-based tuples; sequences are 1-based.          *)
EXTENDS Naturals, Integers, Sequences, FiniteSets

RECURSIVE Prod(_)
Prod(s) == IF s = <<>> THEN 1 ELSE Head(s) * Prod(Tail(s))

RECURSIVE UnravelR(_, _, _)
UnravelR(lin, shape, i) ==
  IF i = 0 THEN <<>> ELSE Append(UnravelR(lin \div shape[i], shape, i - 1), lin % shape[i])
\* Row-major index tuple of linear position lin (0-based) in shape.
Unravel(lin, shape) == UnravelR(lin, shape, Len(shape))

RECURSIVE Dot(_, _)
Dot(idx, strides) ==
  IF idx = <<>> THEN 0 ELSE Head(idx) * Head(strides) + Dot(Tail(idx), Tail(strides))

\* Storage offset of an index tuple.
Offset(idx, strides, base) == base + Dot(idx, strides)

\* Storage offsets of all elements in row-major (logical) order.
Offsets(shape, strides, base) ==
  [k \in 1..Prod(shape) |-> Offset(Unravel(k - 1, shape), strides, base)]

\* All valid index tuples.
Indices(shape) == {Unravel(k - 1, shape) : k \in 1..Prod(shape)}

OffsetSet(shape, strides, base) == {Offset(i, strides, base) : i \in Indices(shape)}

\* No two distinct indices map to the same offset.
Injective(shape, strides) ==
  Cardinality(OffsetSet(shape, strides, 0)) = Prod(shape)

IsEmpty(shape) == \E i \in DOMAIN shape : shape[i] = 0

\* Minimum storage length needed: max offset + 1 (0 if empty).
RECURSIVE MaxOff(_, _)
MaxOff(shape, strides) ==
  IF shape = <<>> THEN 0 ELSE (Head(shape) - 1) * Head(strides) + MaxOff(Tail(shape), Tail(strides))
MinDataLen(shape, strides) == IF IsEmpty(shape) THEN 0 ELSE MaxOff(shape, strides) + 1

\* Sequence helpers
RemoveAt(s, i) == [j \in 1..(Len(s) - 1) |-> IF j < i THEN s[j] ELSE s[j + 1]]
SetAt(s, i, v) == [j \in 1..Len(s) |-> IF j = i THEN v ELSE s[j]]
Take(s, n) == [j \in 1..n |-> s[j]]
Drop(s, n) == [j \in 1..(Len(s) - n) |-> s[j + n]]
RowMajorStrides(shape) == [i \in 1..Len(shape) |-> Prod(Drop(shape, i))]
IsContiguous(shape, strides) ==
  \A i \in 1..Len(shape) : shape[i] = 1 \/ IsEmpty(shape) \/ strides[i] = RowMajorStrides(shape)[i]
MinI(a, b) == IF a < b THEN a ELSE b
MaxI(a, b) == IF a > b THEN a ELSE b
=============================================================================
