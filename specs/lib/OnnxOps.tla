------------------------------ MODULE OnnxOps ------------------------------
(* Executable reference semantics of the EXACT subset of the ONNX operators  *)
(* (ai.onnx, opset 21 forms) on integer-valued tensors, written from the     *)
(* ONNX operator documentation (docs/Operators.md, docs/Broadcasting.md),    *)
(* NOT from rten's src/ops.  Tensors are Tensor.tla records; ONNX int64 and   *)
(* bool are dtype "i32" (bool = 0/1), double/float16 are "f32", as in rten.   *)
(*                                                                           *)
(* Conventions (other specs extend this module - keep them):                 *)
(*  * One pure operator per ONNX operator, named Onnx<Operator>, taking        *)
(*    tensors and already-defaulted attribute values, returning a tensor (or   *)
(*    a sequence of tensors for multi-output operators).  It may assume its   *)
(*    arguments satisfy the matching definedness predicate Def<Operator>.     *)
(*  * Def<Operator>(..) is TRUE exactly when the ONNX documentation defines   *)
(*    the result AND this module can compute it exactly.  Inputs the          *)
(*    documentation leaves undefined / implementation-defined (division by    *)
(*    zero, out-of-range indices, duplicate scatter targets with              *)
(*    reduction=none, results that overflow the element type, ...) are        *)
(*    excluded here, each with a comment.                                     *)
(*  * OnnxEval(op, attrs, ins) is the dispatcher used by trace specs:         *)
(*      attrs : record; every attribute is a sequence, <<>> = not set,        *)
(*              <<v>> = set to v (v an integer, string, sequence of integers  *)
(*              or tensor record); float attributes carry integer values;     *)
(*      ins   : sequence of records [p, shape, dtype, data, den]; p = FALSE     *)
(*              marks an omitted optional input; den (normally 1) is a common *)
(*              denominator of `data` (only Resize `scales` uses den > 1);    *)
(*    result [st |-> "ok", outs |-> <<tensors>>] or st = "undefined" (ONNX     *)
(*    does not define the case / not exact) or st = "unmodelled" (operator or *)
(*    attribute outside this module).  Only st = "ok" is ever judged.         *)
EXTENDS Tensor

Ok(outs) == [st |-> "ok", outs |-> outs]
Ok1(t) == [st |-> "ok", outs |-> <<t>>]
Undefined == [st |-> "undefined", outs |-> <<>>]
Unmodelled == [st |-> "unmodelled", outs |-> <<>>]

\* Results must be representable in the element type: i8/u8/i32 wrap-around
\* and f32 rounding beyond 2^24 are not part of the exact subset.
AllInRange(t) == \A k \in 1..Len(t.data) : InRange(t.dtype, t.data[k])
Checked(t) == IF AllInRange(t) THEN Ok1(t) ELSE Undefined
IsBool(t) == t.dtype = "i32" /\ \A k \in 1..Len(t.data) : t.data[k] \in {0, 1}
IsIdx(t) == t.dtype = "i32"            \* ONNX int64 (or int32) index tensors
B2I(b) == IF b THEN 1 ELSE 0

RECURSIVE IPow(_, _)
IPow(x, n) == IF n = 0 THEN 1 ELSE x * IPow(x, n - 1)

\* Left fold of f over 0..n-1.
RECURSIVE FoldN(_, _, _)
FoldN(F(_, _), n, acc) == IF n = 0 THEN acc ELSE F(FoldN(F, n - 1, acc), n - 1)

---------------------------------------------------------------------------
(* Elementwise arithmetic with multidirectional broadcasting.               *)
DefBinary(a, b) == a.dtype = b.dtype /\ Broadcastable(a.shape, b.shape)
OnnxAdd(a, b) == Binary(LAMBDA x, y : x + y, a, b, a.dtype)
OnnxSub(a, b) == Binary(LAMBDA x, y : x - y, a, b, a.dtype)
OnnxMul(a, b) == Binary(LAMBDA x, y : x * y, a, b, a.dtype)
\* Div: integer division truncates toward zero; float division is modelled
\* only where the quotient is an integer.  Division by zero is undefined.
DefDiv(a, b) ==
  /\ DefBinary(a, b)
  /\ \A k \in 1..Len(b.data) : b.data[k] # 0
  /\ a.dtype = "f32" =>
       LET s == BroadcastShape(a.shape, b.shape) IN
       \A k \in 1..Prod(s) : LET i == Unravel(k - 1, s) IN TruncRem(BAt(a, i), BAt(b, i)) = 0
OnnxDiv(a, b) == Binary(TruncDiv, a, b, a.dtype)
\* Mod: fmod=0 -> sign of the divisor (integer types only); fmod=1 -> C fmod,
\* sign of the dividend.  Zero divisor undefined.
DefMod(a, b, fmod) ==
  /\ DefBinary(a, b)
  /\ \A k \in 1..Len(b.data) : b.data[k] # 0
  /\ (a.dtype = "f32" => fmod = 1)
OnnxMod(a, b, fmod) == IF fmod = 1 THEN Binary(TruncRem, a, b, a.dtype) ELSE Binary(FloorMod, a, b, a.dtype)
\* Pow: Z = X^Y with the type of X.  Exact subset: exponent >= 0 (0^0 = 1).
\* (bounds keep the powers inside 32-bit TLC integers and f32-exact)
DefPow(a, b) ==
  /\ Broadcastable(a.shape, b.shape)
  /\ \A k \in 1..Len(b.data) : b.data[k] >= 0
  /\ \/ \A k \in 1..Len(a.data) : AbsI(a.data[k]) <= 1
     \/ (\A k \in 1..Len(a.data) : AbsI(a.data[k]) <= 2) /\ (\A k \in 1..Len(b.data) : b.data[k] <= 23)
     \/ (\A k \in 1..Len(a.data) : AbsI(a.data[k]) <= 10) /\ (\A k \in 1..Len(b.data) : b.data[k] <= 7)
OnnxPow(a, b) == Binary(IPow, a, b, a.dtype)

OnnxNeg(x) == MapT(LAMBDA v : -v, x, x.dtype)
OnnxAbs(x) == MapT(AbsI, x, x.dtype)
OnnxSign(x) == MapT(SgnI, x, x.dtype)
OnnxRelu(x) == MapT(LAMBDA v : MaxI(v, 0), x, x.dtype)
OnnxIdentity(x) == x

\* Variadic Min / Max / Sum / Mean (1..n inputs, broadcast together).
RECURSIVE DefVariadicR(_, _, _)
DefVariadicR(ts, i, shape) ==
  IF i > Len(ts) THEN TRUE
  ELSE /\ ts[i].dtype = ts[1].dtype /\ Broadcastable(shape, ts[i].shape)
       /\ DefVariadicR(ts, i + 1, BroadcastShape(shape, ts[i].shape))
DefVariadic(ts) == Len(ts) >= 1 /\ DefVariadicR(ts, 1, <<>>)
RECURSIVE VariadicR(_, _, _)
VariadicR(Op(_, _), ts, i) == IF i = 1 THEN ts[1] ELSE Binary(Op, VariadicR(Op, ts, i - 1), ts[i], ts[1].dtype)
\* A single input is still broadcast against nothing: identity.
OnnxMin(ts) == VariadicR(MinI, ts, Len(ts))
OnnxMax(ts) == VariadicR(MaxI, ts, Len(ts))
OnnxSum(ts) == VariadicR(LAMBDA x, y : x + y, ts, Len(ts))
\* Mean is exact only where every sum is divisible by the number of inputs.
DefMean(ts) == DefVariadic(ts) /\ \A k \in 1..Len(OnnxSum(ts).data) : OnnxSum(ts).data[k] % Len(ts) = 0
OnnxMean(ts) == MapT(LAMBDA v : TruncDiv(v, Len(ts)), OnnxSum(ts), ts[1].dtype)

\* Clip(input, min?, max?) = Min(max, Max(input, min)); min/max are scalars
\* (rank 0).  The documentation (opset 13) covers min > max: result is max.
NoT == [none |-> TRUE]
IsT(t) == "shape" \in DOMAIN t
DefClip(x, lo, hi) ==
  /\ IsT(lo) => (lo.shape = <<>> /\ lo.dtype = x.dtype)
  /\ IsT(hi) => (hi.shape = <<>> /\ hi.dtype = x.dtype)
OnnxClip(x, lo, hi) ==
  LET F(v) == LET v1 == IF IsT(lo) THEN MaxI(v, lo.data[1]) ELSE v
              IN IF IsT(hi) THEN MinI(v1, hi.data[1]) ELSE v1
  IN MapT(F, x, x.dtype)

\* Comparisons: bool result ("i32" 0/1).
OnnxEqual(a, b) == Binary(LAMBDA x, y : B2I(x = y), a, b, "i32")
OnnxGreater(a, b) == Binary(LAMBDA x, y : B2I(x > y), a, b, "i32")
OnnxGreaterOrEqual(a, b) == Binary(LAMBDA x, y : B2I(x >= y), a, b, "i32")
OnnxLess(a, b) == Binary(LAMBDA x, y : B2I(x < y), a, b, "i32")
OnnxLessOrEqual(a, b) == Binary(LAMBDA x, y : B2I(x <= y), a, b, "i32")
\* Logical operators on bool tensors.
DefLogical(a, b) == IsBool(a) /\ IsBool(b) /\ Broadcastable(a.shape, b.shape)
OnnxAnd(a, b) == Binary(LAMBDA x, y : B2I(x = 1 /\ y = 1), a, b, "i32")
OnnxOr(a, b) == Binary(LAMBDA x, y : B2I(x = 1 \/ y = 1), a, b, "i32")
OnnxXor(a, b) == Binary(LAMBDA x, y : B2I(x # y), a, b, "i32")
OnnxNot(x) == MapT(LAMBDA v : 1 - v, x, "i32")
\* Where(condition, X, Y), three-way broadcast.
DefWhere(c, x, y) ==
  /\ IsBool(c) /\ x.dtype = y.dtype
  /\ Broadcastable(x.shape, y.shape) /\ Broadcastable(c.shape, BroadcastShape(x.shape, y.shape))
OnnxWhere(c, x, y) ==
  LET s == BroadcastShape(c.shape, BroadcastShape(x.shape, y.shape))
      F(idx) == IF BAt(c, idx) = 1 THEN BAt(x, idx) ELSE BAt(y, idx)
  IN FromFn(s, x.dtype, F)

\* Cast.  `to` is the ONNX TensorProto.DataType code.  rten stores int64 and
\* bool as i32, double/float16 as f32.  Exact subset: the value is
\* representable in the target type (float -> int out of range is undefined in
\* ONNX; narrowing integer wrap-around is not modelled).  Cast to bool: x # 0.
CastTarget(to) ==
  CASE to = 1 -> "f32" [] to = 10 -> "f32" [] to = 11 -> "f32"
    [] to = 2 -> "u8" [] to = 3 -> "i8" [] to = 6 -> "i32" [] to = 7 -> "i32" [] to = 9 -> "i32"
    [] OTHER -> "none"
DefCast(x, to) ==
  /\ CastTarget(to) # "none"
  /\ to # 9 => \A k \in 1..Len(x.data) : InRange(CastTarget(to), x.data[k])
OnnxCast(x, to) ==
  IF to = 9 THEN MapT(LAMBDA v : B2I(v # 0), x, "i32") ELSE WithDType(x, CastTarget(to))

---------------------------------------------------------------------------
(* Shape-only operators.                                                    *)
\* Shape(data, start, end): dims[start:end] with Python slice clamping.
OnnxShape(x, start, end) ==
  LET r == Rank(x)
      s == Clamp(Norm(start, r), 0, r)
      e == Clamp(Norm(end, r), 0, r)
  IN Vec("i32", SubSeq1(x.shape, s + 1, e))
OnnxSize(x) == Scalar("i32", NumEl(x))

\* Reshape(data, shape, allowzero).
ReshapeDim(x, shape, az, i) == IF shape[i] = 0 /\ ~az THEN x.shape[i] ELSE shape[i]
ReshapeKnown(x, shape, az) ==
  LET F(acc, j) == IF shape[j + 1] = -1 THEN acc ELSE acc * ReshapeDim(x, shape, az, j + 1)
  IN FoldN(F, Len(shape), 1)
ReshapeOut(x, shape, az) ==
  [i \in 1..Len(shape) |-> IF shape[i] = -1 THEN NumEl(x) \div ReshapeKnown(x, shape, az)
                            ELSE ReshapeDim(x, shape, az, i)]
DefReshape(x, shape, az) ==
  LET negs == {i \in 1..Len(shape) : shape[i] = -1} IN
  /\ \A i \in 1..Len(shape) : shape[i] >= -1
  /\ Cardinality(negs) <= 1
  /\ ~az => \A i \in 1..Len(shape) : shape[i] = 0 => i <= Rank(x)
  \* "allowzero=1 ... it is invalid to have both 0 and -1 in the shape"
  /\ (az /\ negs # {}) => \A i \in 1..Len(shape) : shape[i] # 0
  /\ negs # {} => (ReshapeKnown(x, shape, az) > 0 /\ NumEl(x) % ReshapeKnown(x, shape, az) = 0)
  /\ Prod(ReshapeOut(x, shape, az)) = NumEl(x)
OnnxReshape(x, shape, az) == WithShape(x, ReshapeOut(x, shape, az))

\* Squeeze(data, axes?) - axes absent: all dims of extent 1.
NormAxes(axes, r) == [i \in 1..Len(axes) |-> Norm(axes[i], r)]
DefAxes(axes, r) ==     \* each in [-r, r-1], no duplicates after normalisation
  /\ \A i \in 1..Len(axes) : axes[i] >= -r /\ axes[i] <= r - 1
  /\ \A i, j \in 1..Len(axes) : i # j => Norm(axes[i], r) # Norm(axes[j], r)
AxisSet(axes, r) == {Norm(axes[i], r) : i \in 1..Len(axes)}
RECURSIVE KeepDims(_, _, _)
\* dims of shape whose 0-based position is not in drop
KeepDims(shape, drop, i) ==
  IF i > Len(shape) THEN <<>>
  ELSE (IF (i - 1) \in drop THEN <<>> ELSE <<shape[i]>>) \o KeepDims(shape, drop, i + 1)
DefSqueeze(x, axes) == DefAxes(axes, Rank(x)) /\ \A a \in AxisSet(axes, Rank(x)) : x.shape[a + 1] = 1
OnnxSqueeze(x, axes) == WithShape(x, KeepDims(x.shape, AxisSet(axes, Rank(x)), 1))
OnnxSqueezeAll(x) == WithShape(x, KeepDims(x.shape, {i - 1 : i \in {j \in 1..Rank(x) : x.shape[j] = 1}}, 1))
\* Unsqueeze(data, axes): axes refer to the OUTPUT rank.
DefUnsqueeze(x, axes) == DefAxes(axes, Rank(x) + Len(axes))
OnnxUnsqueeze(x, axes) ==
  LET ro == Rank(x) + Len(axes)
      as == AxisSet(axes, ro)
      \* number of non-inserted output positions strictly before position i (1-based)
      Before(i) == Cardinality({j \in 1..i : (j - 1) \notin as})
  IN WithShape(x, [i \in 1..ro |-> IF (i - 1) \in as THEN 1 ELSE x.shape[Before(i)]])
\* Flatten(input, axis): 2-D (d0*..*d(axis-1), d(axis)*..*d(r-1)).
DefFlatten(x, axis) == axis >= -Rank(x) /\ axis <= Rank(x)
OnnxFlatten(x, axis) ==
  LET a == Norm(axis, Rank(x)) IN WithShape(x, <<Prod(Take(x.shape, a)), Prod(Drop(x.shape, a))>>)

---------------------------------------------------------------------------
(* Data movement.                                                           *)
\* Transpose(data, perm): output dim i is input dim perm[i].
DefTranspose(x, perm) == IsPerm(perm, Rank(x))
OnnxTranspose(x, perm) ==
  LET r == Rank(x)
      inv == [j \in 1..r |-> CHOOSE i \in 1..r : perm[i] + 1 = j]
      F(idx) == At(x, [j \in 1..r |-> idx[inv[j]]])
  IN FromFn([i \in 1..r |-> x.shape[perm[i] + 1]], x.dtype, F)
ReversePerm(r) == [i \in 1..r |-> r - i]

\* Expand(input, shape): two-way broadcast of input.shape with shape.
DefExpand(x, shape) == (\A i \in 1..Len(shape) : shape[i] >= 0) /\ Broadcastable(x.shape, shape)
OnnxExpand(x, shape) == BroadcastTo(x, shape)

\* Tile(input, repeats).
DefTile(x, reps) == Len(reps) = Rank(x) /\ \A i \in 1..Len(reps) : reps[i] >= 0
OnnxTile(x, reps) ==
  LET F(idx) == At(x, [i \in 1..Rank(x) |-> idx[i] % x.shape[i]])
  IN FromFn([i \in 1..Rank(x) |-> x.shape[i] * reps[i]], x.dtype, F)

\* Elements start..start+n-1 along 0-based axis a.
SliceAxis(x, a, start, n) ==
  LET F(idx) == At(x, SetAt(idx, a + 1, idx[a + 1] + start))
  IN FromFn(SetAt(x.shape, a + 1, n), x.dtype, F)

\* Concat(inputs, axis).
DefConcat(ts, axis) ==
  LET r == Rank(ts[1]) IN
  /\ Len(ts) >= 1 /\ r >= 1 /\ axis >= -r /\ axis <= r - 1
  /\ \A k \in 1..Len(ts) :
       /\ ts[k].dtype = ts[1].dtype /\ Rank(ts[k]) = r
       /\ \A d \in 1..r : d # Norm(axis, r) + 1 => ts[k].shape[d] = ts[1].shape[d]
OnnxConcat(ts, axis) ==
  LET r == Rank(ts[1])
      a == Norm(axis, r)
      ext == [k \in 1..Len(ts) |-> ts[k].shape[a + 1]]
      off == [k \in 1..Len(ts) |-> SeqSum(Take(ext, k - 1))]
      \* input holding output coordinate c along the axis
      Which(c) == CHOOSE k \in 1..Len(ts) : off[k] <= c /\ c < off[k] + ext[k]
      F(idx) == LET k == Which(idx[a + 1]) IN At(ts[k], SetAt(idx, a + 1, idx[a + 1] - off[k]))
  IN FromFn(SetAt(ts[1].shape, a + 1, SeqSum(ext)), ts[1].dtype, F)

\* Split(input, split?, axis, num_outputs?).  Sizes given: must sum to the
\* extent.  Otherwise num_outputs equal chunks; if not evenly divisible the
\* last chunk is smaller (chunk = ceil(dim / n); defined here only when the
\* last chunk is still positive).
EvenSplit(dim, n) ==
  IF dim % n = 0 THEN [k \in 1..n |-> dim \div n]
  ELSE LET c == dim \div n + 1 IN [k \in 1..n |-> IF k < n THEN c ELSE dim - c * (n - 1)]
DefSplitSizes(x, axis, sizes) ==
  LET r == Rank(x) IN
  /\ r >= 1 /\ axis >= -r /\ axis <= r - 1
  /\ \A k \in 1..Len(sizes) : sizes[k] >= 0
  /\ SeqSum(sizes) = x.shape[Norm(axis, r) + 1]
DefSplitEven(x, axis, n) ==
  LET r == Rank(x) IN
  /\ r >= 1 /\ axis >= -r /\ axis <= r - 1 /\ n >= 1
  /\ LET dim == x.shape[Norm(axis, r) + 1] IN dim % n = 0 \/ EvenSplit(dim, n)[n] > 0
OnnxSplit(x, axis, sizes) ==
  LET a == Norm(axis, Rank(x))
  IN [k \in 1..Len(sizes) |-> SliceAxis(x, a, SeqSum(Take(sizes, k - 1)), sizes[k])]

\* Slice(data, starts, ends, axes?, steps?) - the documented clamping rules.
SliceDim(dim, s, e, st) ==
  IF dim = 0 THEN [start |-> 0, step |-> st, n |-> 0]
  ELSE IF st > 0
  THEN LET s1 == Clamp(Norm(s, dim), 0, dim) e1 == Clamp(Norm(e, dim), 0, dim)
       IN [start |-> s1, step |-> st, n |-> MaxI(0, CeilDiv(e1 - s1, st))]
  ELSE LET s1 == Clamp(Norm(s, dim), 0, dim - 1) e1 == Clamp(Norm(e, dim), -1, dim - 1)
       IN [start |-> s1, step |-> st, n |-> MaxI(0, CeilDiv(e1 - s1, st))]
\* (For a negative step on an axis of extent 0 the documented clamp interval
\* [0, dim-1] is empty: left undefined here.)
DefSlice(x, starts, ends, axes, steps) ==
  /\ Len(starts) = Len(ends) /\ Len(axes) = Len(starts) /\ Len(steps) = Len(starts)
  /\ DefAxes(axes, Rank(x))
  /\ \A i \in 1..Len(steps) : steps[i] # 0
  /\ \A i \in 1..Len(steps) : steps[i] < 0 => x.shape[Norm(axes[i], Rank(x)) + 1] > 0
OnnxSlice(x, starts, ends, axes, steps) ==
  LET r == Rank(x)
      ax == NormAxes(axes, r)
      sd == [d \in 1..r |->
               IF \E i \in 1..Len(ax) : ax[i] = d - 1
               THEN LET i == CHOOSE i \in 1..Len(ax) : ax[i] = d - 1
                    IN SliceDim(x.shape[d], starts[i], ends[i], steps[i])
               ELSE [start |-> 0, step |-> 1, n |-> x.shape[d]]]
      F(idx) == At(x, [d \in 1..r |-> sd[d].start + idx[d] * sd[d].step])
  IN FromFn([d \in 1..r |-> sd[d].n], x.dtype, F)
Iota(n) == [i \in 1..n |-> i - 1]
Ones(n) == [i \in 1..n |-> 1]

---------------------------------------------------------------------------
(* Gather / scatter.                                                        *)
IdxInRange(v, s) == v >= -s /\ v <= s - 1
DefGather(x, ind, axis) ==
  LET r == Rank(x) IN
  /\ r >= 1 /\ axis >= -r /\ axis <= r - 1 /\ IsIdx(ind)
  /\ \A k \in 1..Len(ind.data) : IdxInRange(ind.data[k], x.shape[Norm(axis, r) + 1])
OnnxGather(x, ind, axis) ==
  LET r == Rank(x) a == Norm(axis, r) q == Rank(ind) s == x.shape[a + 1]
      F(idx) == LET k == Norm(At(ind, SubSeq1(idx, a + 1, a + q)), s)
                IN At(x, Take(idx, a) \o <<k>> \o Drop(idx, a + q))
  IN FromFn(Take(x.shape, a) \o ind.shape \o Drop(x.shape, a + 1), x.dtype, F)

DefGatherElements(x, ind, axis) ==
  LET r == Rank(x) IN
  /\ r >= 1 /\ Rank(ind) = r /\ axis >= -r /\ axis <= r - 1 /\ IsIdx(ind)
  /\ \A d \in 1..r : d # Norm(axis, r) + 1 => ind.shape[d] <= x.shape[d]
  /\ \A k \in 1..Len(ind.data) : IdxInRange(ind.data[k], x.shape[Norm(axis, r) + 1])
OnnxGatherElements(x, ind, axis) ==
  LET a == Norm(axis, Rank(x)) s == x.shape[a + 1]
      F(idx) == At(x, SetAt(idx, a + 1, Norm(At(ind, idx), s)))
  IN FromFn(ind.shape, x.dtype, F)

DefGatherND(x, ind, b) ==
  LET r == Rank(x) q == Rank(ind) IN
  /\ r >= 1 /\ q >= 1 /\ IsIdx(ind) /\ b >= 0 /\ b < MinI(q, r)
  /\ ind.shape[q] >= 1 /\ ind.shape[q] <= r - b
  /\ \A d \in 1..b : ind.shape[d] = x.shape[d]
  /\ \A k \in 1..Len(ind.data) :
       IdxInRange(ind.data[k], x.shape[b + ((k - 1) % ind.shape[q]) + 1])
OnnxGatherND(x, ind, b) ==
  LET q == Rank(ind) kk == ind.shape[q]
      F(idx) == LET ip == Take(idx, q - 1)
                    tup == [j \in 1..kk |-> Norm(At(ind, ip \o <<j - 1>>), x.shape[b + j])]
                IN At(x, Take(idx, b) \o tup \o Drop(idx, q - 1))
  IN FromFn(Take(ind.shape, q - 1) \o Drop(x.shape, b + kk), x.dtype, F)

\* Scatter reductions.
Reduce2(red, old, new) ==
  CASE red = "none" -> new [] red = "add" -> old + new [] red = "mul" -> old * new
    [] red = "min" -> MinI(old, new) [] red = "max" -> MaxI(old, new)
ScatterReductions == {"none", "add", "mul", "min", "max"}
\* keeps repeated products inside 32-bit TLC integers (and f32-exact)
MulSafe(x, upd) ==
  \/ \A k \in 1..Len(upd.data) : AbsI(upd.data[k]) <= 1
  \/ /\ Len(upd.data) <= 8 /\ \A k \in 1..Len(upd.data) : AbsI(upd.data[k]) <= 4
     /\ \A k \in 1..Len(x.data) : AbsI(x.data[k]) <= 100

\* ScatterElements(data, indices, updates, axis, reduction).  With
\* reduction=none duplicate targets make the result order-dependent
\* (documented as undefined): excluded.
ScatterElTarget(x, ind, a, p) ==     \* target index tuple of the p-th (1-based) update
  LET idx == Unravel(p - 1, ind.shape) IN SetAt(idx, a + 1, Norm(ind.data[p], x.shape[a + 1]))
DefScatterElements(x, ind, upd, axis, red) ==
  LET r == Rank(x) a == Norm(axis, r) IN
  /\ r >= 1 /\ Rank(ind) = r /\ upd.shape = ind.shape /\ upd.dtype = x.dtype /\ IsIdx(ind)
  /\ axis >= -r /\ axis <= r - 1 /\ red \in ScatterReductions
  /\ \A d \in 1..r : d # a + 1 => ind.shape[d] <= x.shape[d]
  /\ \A k \in 1..Len(ind.data) : IdxInRange(ind.data[k], x.shape[a + 1])
  /\ red = "none" => \A p1, p2 \in 1..Len(ind.data) :
        p1 # p2 => ScatterElTarget(x, ind, a, p1) # ScatterElTarget(x, ind, a, p2)
  /\ red = "mul" => MulSafe(x, upd)
OnnxScatterElements(x, ind, upd, axis, red) ==
  LET a == Norm(axis, Rank(x))
      tg == TLCEval([p \in 1..Len(ind.data) |-> ScatterElTarget(x, ind, a, p)])
      F(idx) == LET G(acc, j) == IF tg[j + 1] = idx THEN Reduce2(red, acc, upd.data[j + 1]) ELSE acc
                IN FoldN(G, Len(tg), At(x, idx))
  IN FromFn(x.shape, x.dtype, F)

\* ScatterND(data, indices, updates, reduction).  Indices non-negative (the
\* documentation does not define negative ones); duplicates excluded for none.
ScatterNDTuple(ind, m) ==            \* m-th (1-based) index tuple
  LET kk == ind.shape[Rank(ind)] IN [j \in 1..kk |-> ind.data[(m - 1) * kk + j]]
DefScatterND(x, ind, upd, red) ==
  LET r == Rank(x) q == Rank(ind) kk == ind.shape[q] m == Prod(Take(ind.shape, q - 1)) IN
  /\ r >= 1 /\ q >= 1 /\ IsIdx(ind) /\ upd.dtype = x.dtype /\ red \in ScatterReductions
  /\ kk >= 1 /\ kk <= r
  /\ upd.shape = Take(ind.shape, q - 1) \o Drop(x.shape, kk)
  /\ \A k \in 1..Len(ind.data) : ind.data[k] >= 0 /\ ind.data[k] < x.shape[((k - 1) % kk) + 1]
  /\ red = "none" => \A m1, m2 \in 1..m : m1 # m2 => ScatterNDTuple(ind, m1) # ScatterNDTuple(ind, m2)
  /\ red = "mul" => MulSafe(x, upd)
OnnxScatterND(x, ind, upd, red) ==
  LET q == Rank(ind) kk == ind.shape[q] m == Prod(Take(ind.shape, q - 1))
      tails == Drop(x.shape, kk)
      tg == TLCEval([j \in 1..m |-> ScatterNDTuple(ind, j)])
      F(idx) == LET pre == Take(idx, kk)
                    off == Ravel(Drop(idx, kk), tails)
                    G(acc, j) == IF tg[j + 1] = pre
                                 THEN Reduce2(red, acc, upd.data[j * Prod(tails) + off + 1]) ELSE acc
                IN FoldN(G, m, At(x, idx))
  IN FromFn(x.shape, x.dtype, F)

\* Pad(data, pads, constant_value?, axes?, mode).  pads = begins ++ ends for
\* the listed axes.  Negative pads (cropping) are modelled for mode=constant
\* only; reflect needs pad <= dim-1 (one reflection), edge/wrap need dim >= 1.
PadModes == {"constant", "reflect", "edge", "wrap"}
DefPad(x, pads, cval, axes, mode) ==
  LET r == Rank(x) n == Len(axes) IN
  /\ mode \in PadModes /\ DefAxes(axes, r) /\ Len(pads) = 2 * n
  /\ IsT(cval) => (cval.dtype = x.dtype /\ NumEl(cval) = 1)
  /\ \A i \in 1..n :
       LET dim == x.shape[Norm(axes[i], r) + 1] b == pads[i] e == pads[n + i] IN
       /\ dim + b + e >= 0
       /\ mode = "constant" => (b >= -dim /\ e >= -dim)
       /\ mode # "constant" => (b >= 0 /\ e >= 0)
       /\ mode = "reflect" => (b <= dim - 1 /\ e <= dim - 1)
       /\ mode \in {"edge", "wrap"} => (dim >= 1 \/ (b = 0 /\ e = 0))
OnnxPad(x, pads, cval, axes, mode) ==
  LET r == Rank(x) n == Len(axes)
      ax == NormAxes(axes, r)
      Beg(d) == IF \E i \in 1..n : ax[i] = d - 1 THEN pads[CHOOSE i \in 1..n : ax[i] = d - 1] ELSE 0
      End(d) == IF \E i \in 1..n : ax[i] = d - 1 THEN pads[n + (CHOOSE i \in 1..n : ax[i] = d - 1)] ELSE 0
      beg == TLCEval([d \in 1..r |-> Beg(d)])
      cv == IF IsT(cval) THEN cval.data[1] ELSE 0
      Src(c, dim) ==
        CASE mode = "constant" -> c
          [] mode = "edge" -> Clamp(c, 0, dim - 1)
          [] mode = "reflect" -> IF c < 0 THEN -c ELSE IF c >= dim THEN 2 * (dim - 1) - c ELSE c
          [] mode = "wrap" -> FloorMod(c, dim)
      F(idx) ==
        LET src == [d \in 1..r |-> Src(idx[d] - beg[d], x.shape[d])]
        IN IF \A d \in 1..r : src[d] >= 0 /\ src[d] < x.shape[d] THEN At(x, src) ELSE cv
  IN FromFn([d \in 1..r |-> x.shape[d] + Beg(d) + End(d)], x.dtype, F)

---------------------------------------------------------------------------
(* Reductions.                                                              *)
\* Reduce*(data, axes?, keepdims, noop_with_empty_axes).  `axes` here is the
\* already-resolved list (absent or empty and not noop = all axes).
ReduceKinds == {"ReduceSum", "ReduceProd", "ReduceMin", "ReduceMax", "ReduceSumSquare", "ReduceL1", "ReduceMean"}
RedShape(x, as, keep) ==
  IF keep THEN [d \in 1..Rank(x) |-> IF (d - 1) \in as THEN 1 ELSE x.shape[d]]
  ELSE KeepDims(x.shape, as, 1)
\* The input index tuples reduced into output index oidx.
RedDims(x, as) == KeepDims(x.shape, {e \in 0..(Rank(x) - 1) : e \notin as}, 1)   \* extents of the reduced axes
RedGroup(x, as, keep, oidx) ==
  LET r == Rank(x)
      rdims == RedDims(x, as)
      \* position of dim d among kept / reduced dims
      KPos(d) == Cardinality({e \in 1..d : (e - 1) \notin as})
      RPos(d) == Cardinality({e \in 1..d : (e - 1) \in as})
  IN [j \in 1..Prod(rdims) |->
        LET ri == Unravel(j - 1, rdims)
        IN [d \in 1..r |-> IF (d - 1) \in as THEN ri[RPos(d)]
                            ELSE IF keep THEN oidx[d] ELSE oidx[KPos(d)]]]
RedElem(kind, v) ==
  CASE kind = "ReduceSumSquare" -> v * v [] kind = "ReduceL1" -> AbsI(v) [] OTHER -> v
RedCombine(kind, a, b) ==
  CASE kind = "ReduceProd" -> a * b [] kind = "ReduceMin" -> MinI(a, b) [] kind = "ReduceMax" -> MaxI(a, b)
    [] OTHER -> a + b
RedFold(kind, x, grp) ==
  LET n == Len(grp)
      G(acc, j) == RedCombine(kind, acc, RedElem(kind, At(x, grp[j + 2])))
  IN IF n = 0 THEN (IF kind = "ReduceProd" THEN 1 ELSE 0)
     ELSE LET s == FoldN(G, n - 1, RedElem(kind, At(x, grp[1])))
          IN IF kind = "ReduceMean" THEN TruncDiv(s, n) ELSE s
\* Min/Max/Mean over an empty set are infinities / NaN: not in the exact
\* subset.  Mean only where the group sum is divisible by the group size.
DefReduce(kind, x, axes, keep) ==
  LET r == Rank(x) as == AxisSet(axes, r)
      cnt == Prod(RedDims(x, as)) IN
  /\ kind \in ReduceKinds /\ DefAxes(axes, r)
  /\ kind \in {"ReduceMin", "ReduceMax", "ReduceMean"} => cnt > 0
  \* keep products inside 32-bit TLC integers (and f32-exact)
  /\ kind = "ReduceProd" =>
       \/ \A k \in 1..Len(x.data) : AbsI(x.data[k]) <= 1
       \/ cnt <= 20 /\ \A k \in 1..Len(x.data) : AbsI(x.data[k]) <= 2
       \/ cnt <= 10 /\ \A k \in 1..Len(x.data) : AbsI(x.data[k]) <= 4
       \/ cnt <= 3 /\ \A k \in 1..Len(x.data) : AbsI(x.data[k]) <= 100
  /\ kind = "ReduceMean" =>
       LET os == RedShape(x, as, keep) IN
       \A k \in 1..Prod(os) :
         LET grp == RedGroup(x, as, keep, Unravel(k - 1, os))
             G(acc, j) == acc + At(x, grp[j + 1])
         IN FoldN(G, Len(grp), 0) % cnt = 0
OnnxReduce(kind, x, axes, keep) ==
  LET as == AxisSet(axes, Rank(x))
      F(oidx) == RedFold(kind, x, RedGroup(x, as, keep, oidx))
  IN FromFn(RedShape(x, as, keep), x.dtype, F)

\* ArgMax / ArgMin(data, axis, keepdims, select_last_index) -> int64.
DefArg(x, axis) == Rank(x) >= 1 /\ axis >= -Rank(x) /\ axis <= Rank(x) - 1 /\ x.shape[Norm(axis, Rank(x)) + 1] >= 1
OnnxArg(ismax, x, axis, keep, last) ==
  LET a == Norm(axis, Rank(x)) n == x.shape[a + 1]
      Better(v, w) == IF ismax THEN v > w ELSE v < w
      F(oidx) ==
        LET full == IF keep THEN oidx ELSE InsertAt(oidx, a + 1, 0)
            V(j) == At(x, SetAt(full, a + 1, j))
            G(best, j) == IF Better(V(j), V(best)) \/ (last /\ V(j) = V(best)) THEN j ELSE best
        IN FoldN(G, n, 0)
  IN FromFn(RedShape(x, {a}, keep), "i32", F)

\* CumSum(x, axis, exclusive, reverse).
DefCumSum(x, axis) == Rank(x) >= 1 /\ axis >= -Rank(x) /\ axis <= Rank(x) - 1
OnnxCumSum(x, axis, excl, rev) ==
  LET a == Norm(axis, Rank(x)) n == x.shape[a + 1]
      F(idx) ==
        LET i == idx[a + 1]
            In(j) == IF rev THEN (IF excl THEN j > i ELSE j >= i) ELSE (IF excl THEN j < i ELSE j <= i)
            G(acc, j) == IF In(j) THEN acc + At(x, SetAt(idx, a + 1, j)) ELSE acc
        IN FoldN(G, n, 0)
  IN FromFn(x.shape, x.dtype, F)

\* TopK(X, K, axis, largest, sorted=1) -> (Values, Indices).  Ties: "the
\* element with the lower index will appear first".  sorted=0 leaves the
\* order unspecified and is not modelled.
DefTopK(x, k, axis) ==
  Rank(x) >= 1 /\ axis >= -Rank(x) /\ axis <= Rank(x) - 1 /\ k >= 0 /\ k <= x.shape[Norm(axis, Rank(x)) + 1]
OnnxTopK(x, k, axis, largest) ==
  LET a == Norm(axis, Rank(x)) n == x.shape[a + 1]
      \* index (along the axis) of the element of rank p (0-based) in the lane of idx
      Sel(idx, p) ==
        LET V(j) == At(x, SetAt(idx, a + 1, j))
            Before(i, j) == (IF largest THEN V(i) > V(j) ELSE V(i) < V(j)) \/ (V(i) = V(j) /\ i < j)
        IN CHOOSE j \in 0..(n - 1) : Cardinality({i \in 0..(n - 1) : Before(i, j)}) = p
      FI(idx) == Sel(idx, idx[a + 1])
      FV(idx) == At(x, SetAt(idx, a + 1, Sel(idx, idx[a + 1])))
      os == SetAt(x.shape, a + 1, k)
  IN <<FromFn(os, x.dtype, FV), FromFn(os, "i32", FI)>>

---------------------------------------------------------------------------
(* Generators and index producers.                                          *)
\* Trilu(input, k?, upper).
DefTrilu(x) == Rank(x) >= 2
OnnxTrilu(x, k, upper) ==
  LET r == Rank(x)
      F(idx) == LET i == idx[r - 1] j == idx[r]
                IN IF (IF upper THEN j - i >= k ELSE j - i <= k) THEN At(x, idx) ELSE 0
  IN FromFn(x.shape, x.dtype, F)

\* Range(start, limit, delta): max(ceil((limit-start)/delta), 0) elements.
DefRange(s, l, d) == s.dtype = l.dtype /\ d.dtype = s.dtype /\ NumEl(s) = 1 /\ NumEl(l) = 1 /\ NumEl(d) = 1 /\ d.data[1] # 0
OnnxRange(s, l, d) ==
  LET n == MaxI(CeilDiv(l.data[1] - s.data[1], d.data[1]), 0)
  IN Vec(s.dtype, TLCEval([i \in 1..n |-> s.data[1] + (i - 1) * d.data[1]]))

\* OneHot(indices, depth, values=[off, on], axis=-1).
DefOneHot(ind, depth, vals, axis) ==
  /\ NumEl(depth) = 1 /\ depth.data[1] >= 1 /\ vals.shape = <<2>>
  /\ axis >= -(Rank(ind) + 1) /\ axis <= Rank(ind)
OnnxOneHot(ind, depth, vals, axis) ==
  LET dp == depth.data[1] a == Norm(axis, Rank(ind) + 1)
      F(idx) == LET v == At(ind, RemoveAt(idx, a + 1))
                    vn == IF v < 0 THEN v + dp ELSE v
                IN IF vn = idx[a + 1] THEN vals.data[2] ELSE vals.data[1]
  IN FromFn(InsertAt(ind.shape, a + 1, dp), vals.dtype, F)

\* NonZero(X) -> int64 [rank, count], index tuples in row-major order.
DefNonZero(x) == Rank(x) >= 1
OnnxNonZero(x) ==
  LET RECURSIVE NZ(_)
      NZ(k) == IF k > Len(x.data) THEN <<>> ELSE (IF x.data[k] # 0 THEN <<k>> ELSE <<>>) \o NZ(k + 1)
      pos == NZ(1)
      n == Len(pos)
      F(idx) == Unravel(pos[idx[2] + 1] - 1, x.shape)[idx[1] + 1]
  IN FromFn(<<Rank(x), n>>, "i32", F)

\* EyeLike(input, dtype?, k).
DefEyeLike(x) == Rank(x) = 2
OnnxEyeLike(x, dtype, k) ==
  LET F(idx) == B2I(idx[2] - idx[1] = k) IN FromFn(x.shape, dtype, F)

\* ConstantOfShape(input, value).
DefConstantOfShape(sh) == Rank(sh) = 1 /\ \A i \in 1..Len(sh.data) : sh.data[i] >= 0
OnnxConstantOfShape(sh, val) == LET F(idx) == val.data[1] IN FromFn(sh.data, val.dtype, F)

\* DepthToSpace(input[N,C,H,W], blocksize, mode).
DefDepthToSpace(x, b, mode) ==
  Rank(x) = 4 /\ b >= 1 /\ x.shape[2] % (b * b) = 0 /\ mode \in {"DCR", "CRD"}
OnnxDepthToSpace(x, b, mode) ==
  LET c2 == x.shape[2] \div (b * b)
      F(idx) ==
        LET h == idx[3] \div b bh == idx[3] % b w == idx[4] \div b bw == idx[4] % b
            ch == IF mode = "DCR" THEN (bh * b + bw) * c2 + idx[2] ELSE idx[2] * b * b + bh * b + bw
        IN At(x, <<idx[1], ch, h, w>>)
  IN FromFn(<<x.shape[1], c2, x.shape[3] * b, x.shape[4] * b>>, x.dtype, F)

---------------------------------------------------------------------------
(* Matrix products.                                                         *)
\* MatMul(A, B): numpy.matmul - 1-D operands are promoted ([K] -> [1,K] /
\* [K,1]) and the added dimension removed again; leading (batch) dimensions
\* broadcast.
MMPromA(a) == IF Rank(a) = 1 THEN WithShape(a, <<1, a.shape[1]>>) ELSE a
MMPromB(b) == IF Rank(b) = 1 THEN WithShape(b, <<b.shape[1], 1>>) ELSE b
DefMatMul(a, b) ==
  /\ Rank(a) >= 1 /\ Rank(b) >= 1
  /\ LET pa == MMPromA(a) pb == MMPromB(b) IN
     /\ pa.shape[Rank(pa)] = pb.shape[Rank(pb) - 1]
     /\ Broadcastable(Take(pa.shape, Rank(pa) - 2), Take(pb.shape, Rank(pb) - 2))
\* Batched product of already promoted operands; element function given so that
\* MatMulInteger can subtract zero points.
BatchedMatMul(pa, pb, dtype, EA(_, _), EB(_, _)) ==
  LET ra == Rank(pa) rb == Rank(pb)
      ba == Take(pa.shape, ra - 2) bb == Take(pb.shape, rb - 2)
      bs == BroadcastShape(ba, bb) nb == Len(bs)
      kk == pa.shape[ra]
      F(idx) == LET bt == Take(idx, nb) i == idx[nb + 1] j == idx[nb + 2]
                    ia == BIdx(bt, ba) ib == BIdx(bt, bb)
                    G(acc, k) == acc + EA(ia \o <<i, k>>, i) * EB(ib \o <<k, j>>, j)
                IN FoldN(G, kk, 0)
  IN FromFn(bs \o <<pa.shape[ra - 1], pb.shape[rb]>>, dtype, F)
MatMulSqueeze(a, b, t) ==
  LET s1 == IF Rank(b) = 1 THEN Take(t.shape, Rank(t) - 1) ELSE t.shape
      s2 == IF Rank(a) = 1 THEN RemoveAt(s1, Len(s1) - (IF Rank(b) = 1 THEN 0 ELSE 1)) ELSE s1
  IN WithShape(t, s2)
OnnxMatMul(a, b) ==
  LET pa == MMPromA(a) pb == MMPromB(b)
  IN MatMulSqueeze(a, b, BatchedMatMul(pa, pb, a.dtype, LAMBDA ix, i : At(pa, ix), LAMBDA ix, j : At(pb, ix)))

\* Gemm(A, B, C?, alpha, beta, transA, transB) with integer alpha / beta;
\* C is unidirectionally broadcast to (M, N).
GemmA(a, ta) == IF ta THEN <<a.shape[2], a.shape[1]>> ELSE a.shape
DefGemm(a, b, c, ta, tb) ==
  /\ Rank(a) = 2 /\ Rank(b) = 2 /\ a.dtype = b.dtype
  /\ GemmA(a, ta)[2] = GemmA(b, tb)[1]
  /\ IsT(c) => (c.dtype = a.dtype /\ BroadcastableTo(c.shape, <<GemmA(a, ta)[1], GemmA(b, tb)[2]>>))
OnnxGemm(a, b, c, alpha, beta, ta, tb) ==
  LET m == GemmA(a, ta)[1] n == GemmA(b, tb)[2] kk == GemmA(a, ta)[2]
      F(idx) == LET G(acc, k) == acc + At(a, IF ta THEN <<k, idx[1]>> ELSE <<idx[1], k>>)
                                     * At(b, IF tb THEN <<idx[2], k>> ELSE <<k, idx[2]>>)
                IN alpha * FoldN(G, kk, 0) + (IF IsT(c) THEN beta * BAt(c, idx) ELSE 0)
  IN FromFn(<<m, n>>, a.dtype, F)

\* MatMulInteger(A, B, a_zero_point?, b_zero_point?) -> int32.  Zero points:
\* scalar / one element (per tensor), or for 2-D inputs a vector per row of A /
\* per column of B.
IsQ(t) == t.dtype \in {"u8", "i8"}
DefZeroPoint(zp, t, n) ==
  IsT(zp) => (zp.dtype = t.dtype /\ (NumEl(zp) = 1 \/ (Rank(t) = 2 /\ zp.shape = <<n>>)))
ZP(zp, i) == IF ~IsT(zp) THEN 0 ELSE IF NumEl(zp) = 1 THEN zp.data[1] ELSE zp.data[i + 1]
DefMatMulInteger(a, b, az, bz) ==
  /\ IsQ(a) /\ IsQ(b) /\ DefMatMul(a, b)
  /\ DefZeroPoint(az, a, MMPromA(a).shape[Rank(MMPromA(a)) - 1])
  /\ DefZeroPoint(bz, b, MMPromB(b).shape[Rank(MMPromB(b))])
OnnxMatMulInteger(a, b, az, bz) ==
  LET pa == MMPromA(a) pb == MMPromB(b)
  IN MatMulSqueeze(a, b, BatchedMatMul(pa, pb, "i32", LAMBDA ix, i : At(pa, ix) - ZP(az, i), LAMBDA ix, j : At(pb, ix) - ZP(bz, j)))

---------------------------------------------------------------------------
(* Convolution and pooling on [N, C, spatial...] tensors.                   *)
\* Effective begin/end padding for each spatial axis.
ConvPads(auto, ins, ks, strides, dil, pads) ==
  LET n == Len(ins)
      Tot(i) == LET out == CeilDiv(ins[i], strides[i])
                IN MaxI((out - 1) * strides[i] + ((ks[i] - 1) * dil[i] + 1) - ins[i], 0)
  IN CASE auto = "NOTSET" -> [b |-> Take(pads, n), e |-> Drop(pads, n)]
       [] auto = "VALID" -> [b |-> [i \in 1..n |-> 0], e |-> [i \in 1..n |-> 0]]
       [] auto = "SAME_UPPER" -> [b |-> [i \in 1..n |-> Tot(i) \div 2], e |-> [i \in 1..n |-> Tot(i) - Tot(i) \div 2]]
       [] auto = "SAME_LOWER" -> [b |-> [i \in 1..n |-> Tot(i) - Tot(i) \div 2], e |-> [i \in 1..n |-> Tot(i) \div 2]]
ConvOutDims(ins, ks, strides, dil, pd, ceil) ==
  [i \in 1..Len(ins) |->
     LET num == ins[i] + pd.b[i] + pd.e[i] - ((ks[i] - 1) * dil[i] + 1)
     IN (IF ceil THEN CeilDiv(num, strides[i]) ELSE FloorDiv(num, strides[i])) + 1]
DefWindow(ins, ks, strides, dil, pads, auto) ==
  LET n == Len(ins) IN
  /\ auto \in {"NOTSET", "VALID", "SAME_UPPER", "SAME_LOWER"}
  /\ Len(ks) = n /\ Len(strides) = n /\ Len(dil) = n /\ Len(pads) = 2 * n
  /\ \A i \in 1..n : ks[i] >= 1 /\ strides[i] >= 1 /\ dil[i] >= 1 /\ ins[i] >= 1
  /\ \A i \in 1..(2 * n) : pads[i] >= 0
  /\ auto # "NOTSET" => \A i \in 1..(2 * n) : pads[i] = 0
  \* the (dilated) kernel fits into the padded input at least once
  /\ LET pd == ConvPads(auto, ins, ks, strides, dil, pads) IN
     \A i \in 1..n : ins[i] + pd.b[i] + pd.e[i] >= (ks[i] - 1) * dil[i] + 1
\* Input position of kernel offset kk for output position o (may be outside).
WinPos(o, kk, strides, dil, pb) == [i \in 1..Len(o) |-> o[i] * strides[i] - pb[i] + kk[i] * dil[i]]
InBounds(pos, ins) == \A i \in 1..Len(pos) : pos[i] >= 0 /\ pos[i] < ins[i]

\* Conv(X, W, B?) with group; ConvInteger subtracts zero points (XV/WV).
DefConv(x, w, bias, ks_attr, strides, dil, group, pads, auto) ==
  /\ Rank(x) >= 3 /\ Rank(w) = Rank(x) /\ group >= 1
  /\ x.shape[2] = w.shape[2] * group /\ w.shape[1] % group = 0
  /\ (ks_attr # <<>> => ks_attr = Drop(w.shape, 2))
  /\ IsT(bias) => bias.shape = <<w.shape[1]>>
  /\ DefWindow(Drop(x.shape, 2), Drop(w.shape, 2), strides, dil, pads, auto)
ConvGeneric(x, w, dtype, strides, dil, group, pads, auto, XV(_), WV(_, _), BV(_)) ==
  LET ins == Drop(x.shape, 2) ks == Drop(w.shape, 2)
      pd == ConvPads(auto, ins, ks, strides, dil, pads)
      pb == TLCEval(pd.b)
      cg == w.shape[2] mg == w.shape[1] \div group
      kdims == <<cg>> \o ks
      F(idx) ==
        LET m == idx[2] g == m \div mg o == Drop(idx, 2)
            G(acc, j) == LET ck == Unravel(j, kdims) c == ck[1] kk == Drop(ck, 1)
                             pos == WinPos(o, kk, strides, dil, pb)
                         IN IF InBounds(pos, ins)
                            THEN acc + XV(At(x, <<idx[1], g * cg + c>> \o pos)) * WV(At(w, <<m, c>> \o kk), m)
                            ELSE acc
        IN FoldN(G, Prod(kdims), BV(m))
  IN FromFn(<<x.shape[1], w.shape[1]>> \o ConvOutDims(ins, ks, strides, dil, pd, FALSE), dtype, F)
OnnxConv(x, w, bias, strides, dil, group, pads, auto) ==
  ConvGeneric(x, w, x.dtype, strides, dil, group, pads, auto,
              LAMBDA v : v, LAMBDA v, m : v, LAMBDA m : IF IsT(bias) THEN bias.data[m + 1] ELSE 0)
\* ConvInteger(x, w, x_zero_point?, w_zero_point?) -> int32; padding contributes
\* (x_zero_point - x_zero_point) = 0.
DefConvInteger(x, w, xz, wz, ks_attr, strides, dil, group, pads, auto) ==
  /\ IsQ(x) /\ IsQ(w) /\ DefConv(x, w, NoT, ks_attr, strides, dil, group, pads, auto)
  /\ IsT(xz) => (xz.dtype = x.dtype /\ NumEl(xz) = 1)
  /\ IsT(wz) => (wz.dtype = w.dtype /\ (NumEl(wz) = 1 \/ wz.shape = <<w.shape[1]>>))
OnnxConvInteger(x, w, xz, wz, strides, dil, group, pads, auto) ==
  ConvGeneric(x, w, "i32", strides, dil, group, pads, auto,
              LAMBDA v : v - ZP(xz, 0), LAMBDA v, m : v - ZP(wz, m), LAMBDA m : 0)

\* ConvTranspose(X, W[C, M/group, k..], B?), explicit pads and output_padding.
\* (auto_pad SAME_* and output_shape are not modelled.)
DefConvTranspose(x, w, bias, ks_attr, strides, dil, group, pads, opad) ==
  LET n == Rank(x) - 2 ins == Drop(x.shape, 2) ks == Drop(w.shape, 2) IN
  /\ Rank(x) >= 3 /\ Rank(w) = Rank(x) /\ group >= 1
  /\ x.shape[2] = w.shape[1] /\ x.shape[2] % group = 0
  /\ (ks_attr # <<>> => ks_attr = ks)
  /\ IsT(bias) => bias.shape = <<w.shape[2] * group>>
  /\ Len(strides) = n /\ Len(dil) = n /\ Len(pads) = 2 * n /\ Len(opad) = n
  /\ \A i \in 1..n : /\ strides[i] >= 1 /\ dil[i] >= 1 /\ ins[i] >= 1 /\ ks[i] >= 1
                     /\ opad[i] >= 0 /\ opad[i] < MaxI(strides[i], dil[i])
                     /\ pads[i] >= 0 /\ pads[n + i] >= 0
                     /\ strides[i] * (ins[i] - 1) + opad[i] + ((ks[i] - 1) * dil[i] + 1) - pads[i] - pads[n + i] >= 1
OnnxConvTranspose(x, w, bias, strides, dil, group, pads, opad) ==
  LET n == Rank(x) - 2 ins == Drop(x.shape, 2) ks == Drop(w.shape, 2)
      cg == x.shape[2] \div group mg == w.shape[2]
      kdims == <<cg>> \o ks
      os == [i \in 1..n |-> strides[i] * (ins[i] - 1) + opad[i] + ((ks[i] - 1) * dil[i] + 1) - pads[i] - pads[n + i]]
      F(idx) ==
        LET mo == idx[2] g == mo \div mg m == mo % mg o == Drop(idx, 2)
            G(acc, j) ==
              LET ck == Unravel(j, kdims) c == g * cg + ck[1] kk == Drop(ck, 1)
                  \* o = i*stride - pad_begin + k*dilation  =>  i = (o + pad_begin - k*dilation) / stride
                  num == [i \in 1..n |-> o[i] + pads[i] - kk[i] * dil[i]]
              IN IF \A i \in 1..n : num[i] >= 0 /\ num[i] % strides[i] = 0 /\ num[i] \div strides[i] < ins[i]
                 THEN acc + At(x, <<idx[1], c>> \o [i \in 1..n |-> num[i] \div strides[i]]) * At(w, <<c, m>> \o kk)
                 ELSE acc
        IN FoldN(G, Prod(kdims), IF IsT(bias) THEN bias.data[mo + 1] ELSE 0)
  IN FromFn(<<x.shape[1], mg * group>> \o os, x.dtype, F)

\* MaxPool / AveragePool(X, kernel_shape, strides, pads, dilations, auto_pad,
\* ceil_mode, count_include_pad).  Output extent per axis (ONNX text):
\*   floor_or_ceil((in + pad_begin + pad_end - ((k-1)*d + 1)) / stride) + 1
\* and, with ceil_mode = 1, "sliding windows that would start in the right
\* padded region are ignored": the last window must start inside the input or
\* the begin padding, i.e. (out-1)*stride < in + pad_begin, otherwise it is
\* dropped.  A window must contain at least one input element.  AveragePool is
\* exact only where the window sum is divisible by the divisor.
PoolOutDims(ins, ks, strides, dil, pd, ceil) ==
  LET base == ConvOutDims(ins, ks, strides, dil, pd, ceil)
  IN [i \in 1..Len(ins) |->
        IF ceil /\ (base[i] - 1) * strides[i] >= ins[i] + pd.b[i] THEN base[i] - 1 ELSE base[i]]
PoolOut(x, ks, strides, dil, pads, auto, ceil) ==
  LET ins == Drop(x.shape, 2) IN PoolOutDims(ins, ks, strides, dil, ConvPads(auto, ins, ks, strides, dil, pads), ceil)
\* input positions covered by the window of output position o
PoolWindow(ins, ks, strides, dil, pb, o) ==
  LET RECURSIVE W(_)
      W(j) == IF j = Prod(ks) THEN <<>>
              ELSE LET pos == WinPos(o, Unravel(j, ks), strides, dil, pb)
                   IN (IF InBounds(pos, ins) THEN <<pos>> ELSE <<>>) \o W(j + 1)
  IN W(0)
DefPool(x, ks, strides, dil, pads, auto, ceil) ==
  LET ins == Drop(x.shape, 2) n == Len(ins) IN
  /\ Rank(x) >= 3 /\ DefWindow(ins, ks, strides, dil, pads, auto)
  /\ LET pd == ConvPads(auto, ins, ks, strides, dil, pads)
         os == PoolOutDims(ins, ks, strides, dil, pd, ceil) IN
     /\ \A i \in 1..n : os[i] >= 1
     /\ \A i \in 1..n : pd.b[i] < (ks[i] - 1) * dil[i] + 1 /\ pd.e[i] < (ks[i] - 1) * dil[i] + 1
     /\ \A k \in 1..Prod(os) : PoolWindow(ins, ks, strides, dil, pd.b, Unravel(k - 1, os)) # <<>>
PoolGeneric(x, ks, strides, dil, pads, auto, ceil, Agg(_, _)) ==
  LET ins == Drop(x.shape, 2)
      pd == ConvPads(auto, ins, ks, strides, dil, pads)
      pb == TLCEval(pd.b) pe == TLCEval(pd.e)
      F(idx) == LET o == Drop(idx, 2)
                    win == PoolWindow(ins, ks, strides, dil, pb, o)
                    vals == [j \in 1..Len(win) |-> At(x, <<idx[1], idx[2]>> \o win[j])]
                    \* number of window cells inside the PADDED input (count_include_pad divisor)
                    padded == Cardinality({j \in 0..(Prod(ks) - 1) :
                                LET pos == WinPos(o, Unravel(j, ks), strides, dil, pb)
                                IN \A i \in 1..Len(pos) : pos[i] >= -pb[i] /\ pos[i] < ins[i] + pe[i]})
                IN Agg(vals, padded)
  IN FromFn(<<x.shape[1], x.shape[2]>> \o PoolOutDims(ins, ks, strides, dil, pd, ceil), x.dtype, F)
SeqMax(v) == LET G(acc, j) == MaxI(acc, v[j + 2]) IN FoldN(G, Len(v) - 1, v[1])
OnnxMaxPool(x, ks, strides, dil, pads, auto, ceil) ==
  PoolGeneric(x, ks, strides, dil, pads, auto, ceil, LAMBDA vals, padded : SeqMax(vals))
AvgDivisor(vals, padded, cip) == IF cip THEN padded ELSE Len(vals)
\* With count_include_pad=1 and ceil_mode=1 a window may reach beyond the padded
\* input; whether those cells count is not settled by the documentation: such
\* cases are left undefined.
DefAveragePool(x, ks, strides, dil, pads, auto, ceil, cip) ==
  /\ DefPool(x, ks, strides, dil, pads, auto, ceil)
  /\ (cip /\ ceil) =>
       LET ins == Drop(x.shape, 2)
           pd == ConvPads(auto, ins, ks, strides, dil, pads)
           os == PoolOutDims(ins, ks, strides, dil, pd, ceil)
       IN \A i \in 1..Len(ins) : (os[i] - 1) * strides[i] + (ks[i] - 1) * dil[i] + 1 <= ins[i] + pd.b[i] + pd.e[i]
  /\ LET t == PoolGeneric(x, ks, strides, dil, pads, auto, ceil,
                          LAMBDA vals, padded : SeqSum(vals) % AvgDivisor(vals, padded, cip))
     IN \A k \in 1..Len(t.data) : t.data[k] = 0
OnnxAveragePool(x, ks, strides, dil, pads, auto, ceil, cip) ==
  PoolGeneric(x, ks, strides, dil, pads, auto, ceil,
              LAMBDA vals, padded : TruncDiv(SeqSum(vals), AvgDivisor(vals, padded, cip)))
\* GlobalMaxPool / GlobalAveragePool: over all spatial axes, keeping them as 1.
DefGlobalPool(x) == Rank(x) >= 3 /\ \A i \in 3..Rank(x) : x.shape[i] >= 1
SpatialAxes(x) == [i \in 1..(Rank(x) - 2) |-> i + 1]
OnnxGlobalMaxPool(x) == OnnxReduce("ReduceMax", x, SpatialAxes(x), TRUE)
DefGlobalAveragePool(x) == DefGlobalPool(x) /\ DefReduce("ReduceMean", x, SpatialAxes(x), TRUE)
OnnxGlobalAveragePool(x) == OnnxReduce("ReduceMean", x, SpatialAxes(x), TRUE)

---------------------------------------------------------------------------
(* Einsum without ellipsis.  The equation is given parsed: terms[k] is the    *)
(* sequence of subscript labels (integers, e.g. character codes) of input k,  *)
(* out the output labels, or implicit = TRUE for the form without "->",       *)
(* whose output labels are those appearing exactly once, in sorted order.     *)
RECURSIVE SortedSeq(_)
SortedSeq(S) == IF S = {} THEN <<>> ELSE LET m == CHOOSE a \in S : \A b \in S : a <= b IN <<m>> \o SortedSeq(S \ {m})
EinsumLabels(terms) == UNION {{terms[k][i] : i \in 1..Len(terms[k])} : k \in 1..Len(terms)}
EinsumCount(terms, l) == SeqSum([k \in 1..Len(terms) |-> Cardinality({i \in 1..Len(terms[k]) : terms[k][i] = l})])
EinsumImplicitOut(terms) == SortedSeq({l \in EinsumLabels(terms) : EinsumCount(terms, l) = 1})
EinsumDim(ts, terms, l) ==
  LET k == CHOOSE k \in 1..Len(terms) : \E i \in 1..Len(terms[k]) : terms[k][i] = l
      i == CHOOSE i \in 1..Len(terms[k]) : terms[k][i] = l
  IN ts[k].shape[i]
DefEinsum(ts, terms, out) ==
  /\ Len(ts) >= 1 /\ Len(terms) = Len(ts)
  /\ \A k \in 1..Len(ts) : Len(terms[k]) = Rank(ts[k]) /\ ts[k].dtype = ts[1].dtype
  \* every occurrence of a label has the same extent (no broadcasting of 1)
  /\ \A k \in 1..Len(ts) : \A i \in 1..Len(terms[k]) : ts[k].shape[i] = EinsumDim(ts, terms, terms[k][i])
  /\ \A i, j \in 1..Len(out) : i # j => out[i] # out[j]
  /\ \A i \in 1..Len(out) : out[i] \in EinsumLabels(terms)
OnnxEinsum(ts, terms, out) ==
  LET contracted == SortedSeq(EinsumLabels(terms) \ {out[i] : i \in 1..Len(out)})
      cdims == [j \in 1..Len(contracted) |-> EinsumDim(ts, terms, contracted[j])]
      Pos(sq, l) == CHOOSE i \in 1..Len(sq) : sq[i] = l
      F(idx) ==
        LET G(acc, j) ==
              LET ci == Unravel(j, cdims)
                  Val(l) == IF \E i \in 1..Len(out) : out[i] = l THEN idx[Pos(out, l)] ELSE ci[Pos(contracted, l)]
                  P(acc2, k) == acc2 * At(ts[k + 1], [i \in 1..Len(terms[k + 1]) |-> Val(terms[k + 1][i])])
              IN acc + FoldN(P, Len(ts), 1)
        IN FoldN(G, Prod(cdims), 0)
  IN FromFn([i \in 1..Len(out) |-> EinsumDim(ts, terms, out[i])], ts[1].dtype, F)

---------------------------------------------------------------------------
(* Resize, mode = nearest: pure index arithmetic in exact rationals.         *)
\* A scale is a pair [n, d] = n/d > 0.  With `sizes` the scale of an axis is
\* out/in; with `scales` it is the given value and out = floor(in * scale).
\* rten (like any float implementation) evaluates the coordinate transform in
\* f32: it is exact - and therefore comparable - when the scale is a power of
\* two (and, for align_corners, when (in-1)/(out-1) is); other ratios are left
\* undefined here.
IsPow2Ratio(a, b) == a > 0 /\ b > 0 /\ \E k \in 0..10 : a = b * IPow(2, k) \/ b = a * IPow(2, k)
CoordModes == {"half_pixel", "pytorch_half_pixel", "asymmetric", "align_corners"}
NearestModes == {"round_prefer_floor", "round_prefer_ceil", "floor", "ceil"}
\* original coordinate of output position xo as a rational [p, q], q > 0
ResizeCoord(cm, xo, in, out, sc) ==
  CASE cm = "half_pixel" -> [p |-> (2 * xo + 1) * sc.d - sc.n, q |-> 2 * sc.n]
    [] cm = "pytorch_half_pixel" -> IF out > 1 THEN [p |-> (2 * xo + 1) * sc.d - sc.n, q |-> 2 * sc.n] ELSE [p |-> 0, q |-> 1]
    [] cm = "asymmetric" -> [p |-> xo * sc.d, q |-> sc.n]
    [] cm = "align_corners" -> IF out = 1 THEN [p |-> 0, q |-> 1] ELSE [p |-> xo * (in - 1), q |-> out - 1]
NearestIndex(nm, c, in) ==
  LET i == CASE nm = "floor" -> FloorDiv(c.p, c.q)
             [] nm = "ceil" -> CeilDiv(c.p, c.q)
             [] nm = "round_prefer_floor" -> CeilDiv(2 * c.p - c.q, 2 * c.q)      \* ceil(x - 1/2)
             [] nm = "round_prefer_ceil" -> FloorDiv(2 * c.p + c.q, 2 * c.q)      \* floor(x + 1/2)
  IN Clamp(i, 0, in - 1)
DefResizeNearest(x, outs, scs, cm, nm) ==
  /\ cm \in CoordModes /\ nm \in NearestModes
  /\ Len(outs) = Rank(x) /\ Len(scs) = Rank(x)
  /\ \A i \in 1..Rank(x) :
       /\ x.shape[i] >= 1 /\ outs[i] >= 1 /\ scs[i].n >= 1 /\ scs[i].d >= 1
       /\ cm # "align_corners" => IsPow2Ratio(scs[i].n, scs[i].d)
       /\ cm = "align_corners" => (outs[i] = 1 \/ x.shape[i] = 1 \/ IsPow2Ratio(x.shape[i] - 1, outs[i] - 1))
OnnxResizeNearest(x, outs, scs, cm, nm) ==
  LET F(idx) == At(x, [i \in 1..Rank(x) |->
                         NearestIndex(nm, ResizeCoord(cm, idx[i], x.shape[i], outs[i], scs[i]), x.shape[i])])
  IN FromFn(outs, x.dtype, F)

---------------------------------------------------------------------------
(* More elementwise / layout operators.                                     *)
\* PRelu(X, slope): slope unidirectionally broadcast to X; LeakyRelu(alpha).
DefPRelu(x, sl) == sl.dtype = x.dtype /\ BroadcastableTo(sl.shape, x.shape)
OnnxPRelu(x, sl) == LET F(idx) == IF At(x, idx) < 0 THEN At(x, idx) * BAt(sl, idx) ELSE At(x, idx) IN FromFn(x.shape, x.dtype, F)
OnnxLeakyRelu(x, alpha) == MapT(LAMBDA v : IF v < 0 THEN alpha * v ELSE v, x, x.dtype)
\* ReverseSequence(input, sequence_lens, batch_axis, time_axis).
DefReverseSequence(x, lens, ba, ta) ==
  /\ Rank(x) >= 2 /\ {ba, ta} = {0, 1} /\ IsIdx(lens) /\ lens.shape = <<x.shape[ba + 1]>>
  /\ \A k \in 1..Len(lens.data) : lens.data[k] >= 0 /\ lens.data[k] <= x.shape[ta + 1]
OnnxReverseSequence(x, lens, ba, ta) ==
  LET F(idx) == LET n == lens.data[idx[ba + 1] + 1] t == idx[ta + 1]
                IN At(x, IF t < n THEN SetAt(idx, ta + 1, n - 1 - t) ELSE idx)
  IN FromFn(x.shape, x.dtype, F)
\* DequantizeLinear(x, x_scale, x_zero_point?, axis): (x - zp) * scale, integer
\* scales only; per-tensor (one element) or per-axis (1-D along `axis`).
QParam(t, x, axis, idx) == IF NumEl(t) = 1 THEN t.data[1] ELSE t.data[idx[Norm(axis, Rank(x)) + 1] + 1]
DefQParam(t, x, axis) ==
  \/ NumEl(t) = 1 /\ Rank(t) <= 1
  \/ Rank(t) = 1 /\ Rank(x) >= 1 /\ axis >= -Rank(x) /\ axis <= Rank(x) - 1 /\ t.shape = <<x.shape[Norm(axis, Rank(x)) + 1]>>
DefDequantizeLinear(x, sc, zp, axis) ==
  /\ x.dtype \in {"u8", "i8", "i32"} /\ sc.dtype = "f32" /\ DefQParam(sc, x, axis)
  /\ IsT(zp) => (zp.dtype = x.dtype /\ zp.shape = sc.shape)
OnnxDequantizeLinear(x, sc, zp, axis) ==
  LET F(idx) == (At(x, idx) - (IF IsT(zp) THEN QParam(zp, x, axis, idx) ELSE 0)) * QParam(sc, x, axis, idx)
  IN FromFn(x.shape, "f32", F)
\* QuantizeLinear(x, y_scale, y_zero_point?, axis): saturate(round_half_even(x / scale) + zp),
\* positive integer scales; output type = type of zero point (default uint8).
RoundHalfEven(p, q) ==       \* q > 0
  LET f == FloorDiv(p, q) rem2 == 2 * (p - f * q)
  IN IF rem2 < q THEN f ELSE IF rem2 > q THEN f + 1 ELSE IF f % 2 = 0 THEN f ELSE f + 1
\* `den` is the common denominator of the logged x (x = x.data / den), so that
\* exact ties x / scale = k + 1/2 can be expressed; ties go to the EVEN integer
\* BEFORE the zero point is added.
DefQuantizeLinear(x, sc, zp, axis) ==
  /\ x.dtype = "f32" /\ sc.dtype = "f32" /\ DefQParam(sc, x, axis)
  /\ \A k \in 1..Len(sc.data) : sc.data[k] >= 1
  /\ IsT(zp) => (zp.dtype \in {"u8", "i8"} /\ zp.shape = sc.shape)
OnnxQuantizeLinearD(x, den, sc, zp, axis) ==
  LET dt == IF IsT(zp) THEN zp.dtype ELSE "u8"
      lo == IF dt = "u8" THEN 0 ELSE -128
      hi == IF dt = "u8" THEN 255 ELSE 127
      F(idx) == Clamp(RoundHalfEven(At(x, idx), den * QParam(sc, x, axis, idx)) + (IF IsT(zp) THEN QParam(zp, x, axis, idx) ELSE 0), lo, hi)
  IN FromFn(x.shape, dt, F)
OnnxQuantizeLinear(x, sc, zp, axis) == OnnxQuantizeLinearD(x, 1, sc, zp, axis)
\* DynamicQuantizeLinear(x) -> (y: uint8, y_scale, y_zero_point), x = x.data / den:
\*   range [lo, hi] = [min(0, min x), max(0, max x)],  y_scale = (hi - lo) / 255,
\*   y_zero_point = round_half_even(saturate(0 - lo / y_scale)),
\*   y = saturate(round_half_even(x / y_scale) + y_zero_point).
\* Exact (and judged) only where y_scale is a power of two.  y_scale is
\* returned as the rational [n, d].
DQLo(x) == LET G(acc, j) == MinI(acc, x.data[j + 1]) IN FoldN(G, Len(x.data), 0)
DQHi(x) == LET G(acc, j) == MaxI(acc, x.data[j + 1]) IN FoldN(G, Len(x.data), 0)
DefDynamicQuantizeLinear(x, den) ==
  /\ x.dtype = "f32" /\ den >= 1 /\ Len(x.data) >= 1
  /\ DQHi(x) - DQLo(x) > 0
  /\ IsPow2Ratio(DQHi(x) - DQLo(x), 255 * den)
OnnxDynamicQuantizeLinear(x, den) ==
  LET lo == DQLo(x) sn == DQHi(x) - lo sd == 255 * den
      zp == Clamp(RoundHalfEven((-lo) * sd, den * sn), 0, 255)
      y == MapT(LAMBDA v : Clamp(RoundHalfEven(v * sd, den * sn) + zp, 0, 255), x, "u8")
  IN [y |-> y, scale |-> [n |-> sn, d |-> sd], zp |-> Scalar("u8", zp)]

---------------------------------------------------------------------------
(* Sequence operators.  A sequence is a TLA+ sequence of tensors of one      *)
(* element type; positions are Python list positions (negative = from back). *)
DefSeq(sq) == \A k \in 1..Len(sq) : sq[k].dtype = sq[1].dtype
OnnxSequenceAt(sq, pos) == sq[Norm(pos, Len(sq)) + 1]                   \* pos in [-n, n-1]
OnnxSequenceLength(sq) == Scalar("i32", Len(sq))
\* SequenceInsert: pos in [-n, n] (n appends; omitted = append)
OnnxSequenceInsert(sq, t, pos) == LET p == Norm(pos, Len(sq)) IN InsertAt(sq, p + 1, t)
\* SequenceErase: pos in [-n, n-1] (omitted = last)
OnnxSequenceErase(sq, pos) == RemoveAt(sq, Norm(pos, Len(sq)) + 1)
\* ConcatFromSequence(seq, axis, new_axis): Concat, or stack along a new axis.
DefConcatFromSequence(sq, axis, newaxis) ==
  /\ Len(sq) >= 1 /\ DefSeq(sq)
  /\ IF newaxis
     THEN /\ \A k \in 1..Len(sq) : sq[k].shape = sq[1].shape
          /\ axis >= -(Rank(sq[1]) + 1) /\ axis <= Rank(sq[1])
     ELSE DefConcat(sq, axis)
OnnxConcatFromSequence(sq, axis, newaxis) ==
  IF newaxis
  THEN LET a == Norm(axis, Rank(sq[1]) + 1) IN OnnxConcat([k \in 1..Len(sq) |-> OnnxUnsqueeze(sq[k], <<a>>)], a)
  ELSE OnnxConcat(sq, axis)
\* SplitToSequence(input, split?, axis, keepdims): split omitted -> pieces of
\* extent 1 (squeezed if keepdims=0); scalar split -> equal chunks, last one
\* smaller; 1-D split -> the given sizes.
ChunkSizes(dim, c) == [k \in 1..CeilDiv(dim, c) |-> MinI(c, dim - (k - 1) * c)]
DefSplitToSequence(x, axis) == Rank(x) >= 1 /\ axis >= -Rank(x) /\ axis <= Rank(x) - 1
OnnxSplitToSequenceOnes(x, axis, keep) ==
  LET a == Norm(axis, Rank(x)) parts == OnnxSplit(x, axis, Ones(x.shape[a + 1]))
  IN IF keep THEN parts ELSE [k \in 1..Len(parts) |-> OnnxSqueeze(parts[k], <<a>>)]

---------------------------------------------------------------------------
(* Dispatcher.                                                              *)
\* Operators whose (first) output is an ONNX bool tensor.  rten stores bool as
\* i32; the weakest reading of "bool represented as i32" is C truthiness, so
\* trace specs compare such outputs through v # 0 (the reference itself always
\* produces 0/1).
OnnxBoolOutput(op, attrs) ==
  \/ op \in {"Equal", "Greater", "GreaterOrEqual", "Less", "LessOrEqual", "And", "Or", "Xor", "Not", "IsInf", "IsNaN"}
  \* (Dropout's second output, the mask, is bool as well; its first is not: handled by exact 0/1 comparison)
  \/ op = "Cast" /\ "to" \in DOMAIN attrs /\ attrs["to"] = <<9>>
AHas(attrs, name) == name \in DOMAIN attrs /\ Len(attrs[name]) > 0
AOpt(attrs, name, default) == IF AHas(attrs, name) THEN attrs[name][1] ELSE default
TensorOf(i) == Mk(i.shape, i.dtype, i.data)

OnnxEval(op, attrs, ins) ==
  LET N == Len(ins)
      Has(k) == k <= N /\ ins[k].p
      T(k) == TensorOf(ins[k])
      TOpt(k) == IF Has(k) THEN T(k) ELSE NoT
      All == [k \in 1..N |-> T(k)]
      AllPresent == \A k \in 1..N : ins[k].p
      A(name, d) == AOpt(attrs, name, d)
      G(def, t) == IF def THEN Checked(t) ELSE Undefined
      GM(def, ts) == IF def /\ \A k \in 1..Len(ts) : AllInRange(ts[k]) THEN Ok(ts) ELSE Undefined
      Need(n) == \A k \in 1..n : Has(k)
      \* 1-D int64 list input as a sequence
      L(k) == ins[k].data
      IsList(k) == Has(k) /\ Len(ins[k].shape) = 1 /\ ins[k].dtype = "i32"
      Scal(k) == ins[k].data[1]
      IsScal(k) == Has(k) /\ Len(ins[k].data) = 1
      \* common denominator of a logged input (1 unless the harness logs fractions)
      Den(k) == IF "den" \in DOMAIN ins[k] THEN ins[k].den ELSE 1
      Fractional == \E k \in 1..N : ins[k].p /\ Den(k) # 1
  IN
  \* only the operators below understand fractional inputs
  IF Fractional /\ op \notin {"Resize", "Round", "Floor", "Ceil", "Cast", "QuantizeLinear", "DynamicQuantizeLinear"} THEN Undefined ELSE
  CASE op \in {"Add", "Sub", "Mul"} ->
         IF ~Need(2) THEN Undefined ELSE
         G(DefBinary(T(1), T(2)),
           CASE op = "Add" -> OnnxAdd(T(1), T(2)) [] op = "Sub" -> OnnxSub(T(1), T(2)) [] op = "Mul" -> OnnxMul(T(1), T(2)))
    [] op = "Div" -> IF ~Need(2) THEN Undefined ELSE G(DefDiv(T(1), T(2)), OnnxDiv(T(1), T(2)))
    [] op = "Mod" -> IF ~Need(2) THEN Undefined ELSE
         G(DefMod(T(1), T(2), A("fmod", 0)), OnnxMod(T(1), T(2), A("fmod", 0)))
    [] op = "Pow" -> IF ~Need(2) THEN Undefined ELSE G(DefPow(T(1), T(2)), OnnxPow(T(1), T(2)))
    [] op = "Neg" -> IF ~Need(1) THEN Undefined ELSE G(TRUE, OnnxNeg(T(1)))
    [] op = "Abs" -> IF ~Need(1) THEN Undefined ELSE G(TRUE, OnnxAbs(T(1)))
    [] op = "Sign" -> IF ~Need(1) THEN Undefined ELSE G(TRUE, OnnxSign(T(1)))
    [] op = "Relu" -> IF ~Need(1) THEN Undefined ELSE G(TRUE, OnnxRelu(T(1)))
    [] op = "Identity" -> IF ~Need(1) THEN Undefined ELSE G(TRUE, OnnxIdentity(T(1)))
    [] op \in {"Min", "Max", "Sum", "Mean"} ->
         IF N = 0 \/ ~AllPresent THEN Undefined ELSE
         (CASE op = "Min" -> G(DefVariadic(All), OnnxMin(All))
            [] op = "Max" -> G(DefVariadic(All), OnnxMax(All))
            [] op = "Sum" -> G(DefVariadic(All), OnnxSum(All))
            [] op = "Mean" -> G(DefMean(All), OnnxMean(All)))
    [] op = "Clip" -> IF ~Need(1) THEN Undefined ELSE
         G(DefClip(T(1), TOpt(2), TOpt(3)), OnnxClip(T(1), TOpt(2), TOpt(3)))
    [] op \in {"Equal", "Greater", "GreaterOrEqual", "Less", "LessOrEqual"} ->
         IF ~Need(2) THEN Undefined ELSE
         G(DefBinary(T(1), T(2)),
           CASE op = "Equal" -> OnnxEqual(T(1), T(2)) [] op = "Greater" -> OnnxGreater(T(1), T(2))
             [] op = "GreaterOrEqual" -> OnnxGreaterOrEqual(T(1), T(2)) [] op = "Less" -> OnnxLess(T(1), T(2))
             [] op = "LessOrEqual" -> OnnxLessOrEqual(T(1), T(2)))
    [] op \in {"And", "Or", "Xor"} ->
         IF ~Need(2) THEN Undefined ELSE
         G(DefLogical(T(1), T(2)),
           CASE op = "And" -> OnnxAnd(T(1), T(2)) [] op = "Or" -> OnnxOr(T(1), T(2)) [] op = "Xor" -> OnnxXor(T(1), T(2)))
    [] op = "Not" -> IF ~Need(1) THEN Undefined ELSE G(IsBool(T(1)), OnnxNot(T(1)))
    [] op = "Where" -> IF ~Need(3) THEN Undefined ELSE G(DefWhere(T(1), T(2), T(3)), OnnxWhere(T(1), T(2), T(3)))
    [] op = "Cast" -> IF ~Need(1) \/ ~AHas(attrs, "to") THEN Undefined ELSE
         IF CastTarget(A("to", 0)) = "none" THEN Unmodelled
         ELSE IF Den(1) = 1 THEN G(DefCast(T(1), A("to", 0)), OnnxCast(T(1), A("to", 0)))
         \* fractional float input x = data / den: float -> integer truncates toward zero,
         \* float -> bool is x # 0; float -> float would not be an integer: not judged
         ELSE IF T(1).dtype # "f32" \/ Den(1) < 1 \/ CastTarget(A("to", 0)) = "f32" THEN Undefined
         ELSE LET tr == MapT(LAMBDA v : TruncDiv(v, Den(1)), T(1), "f32") IN
              IF A("to", 0) = 9 THEN G(TRUE, OnnxCast(T(1), 9)) ELSE G(DefCast(tr, A("to", 0)), OnnxCast(tr, A("to", 0)))
    [] op = "Shape" -> IF ~Need(1) THEN Undefined ELSE
         G(TRUE, OnnxShape(T(1), A("start", 0), A("end", Rank(T(1)))))
    [] op = "Size" -> IF ~Need(1) THEN Undefined ELSE G(TRUE, OnnxSize(T(1)))
    [] op = "Reshape" -> IF ~Need(2) \/ ~IsList(2) THEN Undefined ELSE
         G(DefReshape(T(1), L(2), A("allowzero", 0) = 1), OnnxReshape(T(1), L(2), A("allowzero", 0) = 1))
    [] op = "Squeeze" -> IF ~Need(1) THEN Undefined ELSE
         IF Has(2) THEN (IF ~IsList(2) THEN Undefined ELSE G(DefSqueeze(T(1), L(2)), OnnxSqueeze(T(1), L(2))))
         ELSE G(TRUE, OnnxSqueezeAll(T(1)))
    [] op = "Unsqueeze" -> IF ~Need(2) \/ ~IsList(2) THEN Undefined ELSE
         G(DefUnsqueeze(T(1), L(2)), OnnxUnsqueeze(T(1), L(2)))
    [] op = "Flatten" -> IF ~Need(1) THEN Undefined ELSE
         G(DefFlatten(T(1), A("axis", 1)), OnnxFlatten(T(1), A("axis", 1)))
    [] op = "Transpose" -> IF ~Need(1) THEN Undefined ELSE
         LET perm == A("perm", ReversePerm(Rank(T(1)))) IN G(DefTranspose(T(1), perm), OnnxTranspose(T(1), perm))
    [] op = "Expand" -> IF ~Need(2) \/ ~IsList(2) THEN Undefined ELSE
         G(DefExpand(T(1), L(2)), OnnxExpand(T(1), L(2)))
    [] op = "Tile" -> IF ~Need(2) \/ ~IsList(2) THEN Undefined ELSE G(DefTile(T(1), L(2)), OnnxTile(T(1), L(2)))
    [] op = "Concat" -> IF N = 0 \/ ~AllPresent \/ ~AHas(attrs, "axis") THEN Undefined ELSE
         G(DefConcat(All, A("axis", 0)), OnnxConcat(All, A("axis", 0)))
    [] op = "Split" -> IF ~Need(1) THEN Undefined ELSE
         \* exactly one of the `split` input and the `num_outputs` attribute
         IF Has(2) = AHas(attrs, "num_outputs") THEN Undefined
         ELSE IF Has(2)
         THEN (IF ~IsList(2) THEN Undefined
               ELSE GM(DefSplitSizes(T(1), A("axis", 0), L(2)), OnnxSplit(T(1), A("axis", 0), L(2))))
         ELSE LET n == A("num_outputs", 0) ax == A("axis", 0) IN
              IF ~DefSplitEven(T(1), ax, n) THEN Undefined
              ELSE Ok(OnnxSplit(T(1), ax, EvenSplit(T(1).shape[Norm(ax, Rank(T(1))) + 1], n)))
    [] op = "Slice" -> IF ~Need(3) \/ ~IsList(2) \/ ~IsList(3) THEN Undefined ELSE
         IF (Has(4) /\ ~IsList(4)) \/ (Has(5) /\ ~IsList(5)) THEN Undefined ELSE
         LET axes == IF Has(4) THEN L(4) ELSE Iota(Len(L(2)))
             steps == IF Has(5) THEN L(5) ELSE Ones(Len(L(2)))
         IN G(DefSlice(T(1), L(2), L(3), axes, steps), OnnxSlice(T(1), L(2), L(3), axes, steps))
    [] op = "Gather" -> IF ~Need(2) THEN Undefined ELSE
         G(DefGather(T(1), T(2), A("axis", 0)), OnnxGather(T(1), T(2), A("axis", 0)))
    [] op = "GatherElements" -> IF ~Need(2) THEN Undefined ELSE
         G(DefGatherElements(T(1), T(2), A("axis", 0)), OnnxGatherElements(T(1), T(2), A("axis", 0)))
    [] op = "GatherND" -> IF ~Need(2) THEN Undefined ELSE
         G(DefGatherND(T(1), T(2), A("batch_dims", 0)), OnnxGatherND(T(1), T(2), A("batch_dims", 0)))
    [] op = "ScatterElements" -> IF ~Need(3) THEN Undefined ELSE
         LET red == A("reduction", "none") ax == A("axis", 0) IN
         G(DefScatterElements(T(1), T(2), T(3), ax, red), OnnxScatterElements(T(1), T(2), T(3), ax, red))
    [] op = "ScatterND" -> IF ~Need(3) THEN Undefined ELSE
         LET red == A("reduction", "none") IN
         G(DefScatterND(T(1), T(2), T(3), red), OnnxScatterND(T(1), T(2), T(3), red))
    [] op = "Pad" -> IF ~Need(2) \/ ~IsList(2) \/ (Has(4) /\ ~IsList(4)) THEN Undefined ELSE
         LET axes == IF Has(4) THEN L(4) ELSE Iota(Rank(T(1)))
             mode == A("mode", "constant")
         IN G(DefPad(T(1), L(2), TOpt(3), axes, mode), OnnxPad(T(1), L(2), TOpt(3), axes, mode))
    [] op \in ReduceKinds -> IF ~Need(1) \/ (Has(2) /\ ~IsList(2)) THEN Undefined ELSE
         LET given == IF Has(2) THEN L(2) ELSE <<>>
             keep == A("keepdims", 1) = 1
             noop == A("noop_with_empty_axes", 0) = 1
         IN IF given = <<>> /\ noop
            \* no-op: output = input; for SumSquare / L1 the documentation is
            \* ambiguous about applying the elementwise part: not judged.
            THEN (IF op \in {"ReduceSumSquare", "ReduceL1"} THEN Undefined ELSE G(TRUE, T(1)))
            ELSE LET axes == IF given = <<>> THEN Iota(Rank(T(1))) ELSE given
                 IN G(DefReduce(op, T(1), axes, keep), OnnxReduce(op, T(1), axes, keep))
    [] op \in {"ArgMax", "ArgMin"} -> IF ~Need(1) THEN Undefined ELSE
         G(DefArg(T(1), A("axis", 0)),
           OnnxArg(op = "ArgMax", T(1), A("axis", 0), A("keepdims", 1) = 1, A("select_last_index", 0) = 1))
    [] op = "CumSum" -> IF ~Need(2) \/ ~IsScal(2) THEN Undefined ELSE
         G(DefCumSum(T(1), Scal(2)), OnnxCumSum(T(1), Scal(2), A("exclusive", 0) = 1, A("reverse", 0) = 1))
    [] op = "TopK" -> IF ~Need(2) \/ ~IsScal(2) THEN Undefined ELSE
         IF A("sorted", 1) # 1 THEN Unmodelled ELSE
         GM(DefTopK(T(1), Scal(2), A("axis", -1)), OnnxTopK(T(1), Scal(2), A("axis", -1), A("largest", 1) = 1))
    [] op = "Trilu" -> IF ~Need(1) \/ (Has(2) /\ ~IsScal(2)) THEN Undefined ELSE
         G(DefTrilu(T(1)), OnnxTrilu(T(1), IF Has(2) THEN Scal(2) ELSE 0, A("upper", 1) = 1))
    [] op = "Range" -> IF ~Need(3) THEN Undefined ELSE G(DefRange(T(1), T(2), T(3)), OnnxRange(T(1), T(2), T(3)))
    [] op = "OneHot" -> IF ~Need(3) THEN Undefined ELSE
         G(DefOneHot(T(1), T(2), T(3), A("axis", -1)), OnnxOneHot(T(1), T(2), T(3), A("axis", -1)))
    [] op = "NonZero" -> IF ~Need(1) THEN Undefined ELSE G(DefNonZero(T(1)), OnnxNonZero(T(1)))
    [] op = "EyeLike" -> IF ~Need(1) THEN Undefined ELSE
         LET dt == IF AHas(attrs, "dtype") THEN CastTarget(A("dtype", 0)) ELSE T(1).dtype IN
         IF dt = "none" THEN Unmodelled ELSE G(DefEyeLike(T(1)), OnnxEyeLike(T(1), dt, A("k", 0)))
    [] op = "ConstantOfShape" -> IF ~Need(1) THEN Undefined ELSE
         LET val == A("value", Vec("f32", <<0>>)) IN
         G(DefConstantOfShape(T(1)) /\ NumEl(val) = 1, OnnxConstantOfShape(T(1), TensorOf(val)))
    [] op = "DepthToSpace" -> IF ~Need(1) \/ ~AHas(attrs, "blocksize") THEN Undefined ELSE
         G(DefDepthToSpace(T(1), A("blocksize", 1), A("mode", "DCR")),
           OnnxDepthToSpace(T(1), A("blocksize", 1), A("mode", "DCR")))
    [] op = "MatMul" -> IF ~Need(2) THEN Undefined ELSE
         G(DefMatMul(T(1), T(2)) /\ T(1).dtype = T(2).dtype, OnnxMatMul(T(1), T(2)))
    [] op = "Gemm" -> IF ~Need(2) THEN Undefined ELSE
         LET ta == A("transA", 0) = 1 tb == A("transB", 0) = 1 IN
         G(DefGemm(T(1), T(2), TOpt(3), ta, tb),
           OnnxGemm(T(1), T(2), TOpt(3), A("alpha", 1), A("beta", 1), ta, tb))
    [] op = "MatMulInteger" -> IF ~Need(2) THEN Undefined ELSE
         G(DefMatMulInteger(T(1), T(2), TOpt(3), TOpt(4)), OnnxMatMulInteger(T(1), T(2), TOpt(3), TOpt(4)))
    [] op \in {"Conv", "ConvInteger", "ConvTranspose"} -> IF ~Need(2) \/ Rank(T(1)) < 3 THEN Undefined ELSE
         LET n == Rank(T(1)) - 2
             strides == A("strides", Ones(n))
             dil == A("dilations", Ones(n))
             pads == A("pads", [i \in 1..(2 * n) |-> 0])
             auto == A("auto_pad", "NOTSET")
             grp == A("group", 1)
             ksa == A("kernel_shape", <<>>)
         IN (CASE op = "Conv" ->
                   G(DefConv(T(1), T(2), TOpt(3), ksa, strides, dil, grp, pads, auto) /\ T(1).dtype = T(2).dtype,
                     OnnxConv(T(1), T(2), TOpt(3), strides, dil, grp, pads, auto))
              [] op = "ConvInteger" ->
                   G(DefConvInteger(T(1), T(2), TOpt(3), TOpt(4), ksa, strides, dil, grp, pads, auto),
                     OnnxConvInteger(T(1), T(2), TOpt(3), TOpt(4), strides, dil, grp, pads, auto))
              [] op = "ConvTranspose" ->
                   IF auto \notin {"NOTSET", "VALID"} \/ AHas(attrs, "output_shape") THEN Unmodelled ELSE
                   LET opad == A("output_padding", [i \in 1..n |-> 0])
                       pads2 == IF auto = "VALID" THEN [i \in 1..(2 * n) |-> 0] ELSE pads IN
                   G(DefConvTranspose(T(1), T(2), TOpt(3), ksa, strides, dil, grp, pads2, opad) /\ T(1).dtype = T(2).dtype,
                     OnnxConvTranspose(T(1), T(2), TOpt(3), strides, dil, grp, pads2, opad)))
    [] op \in {"MaxPool", "AveragePool"} ->
         IF ~Need(1) \/ Rank(T(1)) < 3 \/ ~AHas(attrs, "kernel_shape") THEN Undefined ELSE
         IF A("storage_order", 0) # 0 THEN Unmodelled ELSE
         LET n == Rank(T(1)) - 2
             ks == A("kernel_shape", <<>>)
             strides == A("strides", Ones(n))
             dil == A("dilations", Ones(n))
             pads == A("pads", [i \in 1..(2 * n) |-> 0])
             auto == A("auto_pad", "NOTSET")
             ceil == A("ceil_mode", 0) = 1
         IN IF op = "MaxPool"
            THEN G(DefPool(T(1), ks, strides, dil, pads, auto, ceil), OnnxMaxPool(T(1), ks, strides, dil, pads, auto, ceil))
            ELSE LET cip == A("count_include_pad", 0) = 1 IN
                 G(DefAveragePool(T(1), ks, strides, dil, pads, auto, ceil, cip),
                   OnnxAveragePool(T(1), ks, strides, dil, pads, auto, ceil, cip))
    [] op = "GlobalMaxPool" -> IF ~Need(1) THEN Undefined ELSE G(DefGlobalPool(T(1)), OnnxGlobalMaxPool(T(1)))
    [] op = "GlobalAveragePool" -> IF ~Need(1) THEN Undefined ELSE
         G(DefGlobalAveragePool(T(1)), OnnxGlobalAveragePool(T(1)))
    [] op = "Resize" -> IF ~Need(1) THEN Undefined ELSE
         IF A("mode", "nearest") # "nearest" \/ AHas(attrs, "axes") \/ A("antialias", 0) # 0
            \/ A("keep_aspect_ratio_policy", "stretch") # "stretch" \/ Has(2) THEN Unmodelled ELSE
         LET x == T(1) r == Rank(x)
             cm == A("coordinate_transformation_mode", "half_pixel")
             nm == A("nearest_mode", "round_prefer_floor")
         IN IF cm \notin CoordModes \/ nm \notin NearestModes THEN Unmodelled
            ELSE IF Has(3) = Has(4) THEN Undefined                      \* exactly one of scales / sizes
            ELSE IF Has(4)
            THEN (IF ~IsList(4) \/ Len(L(4)) # r THEN Undefined ELSE
                  LET scs == [i \in 1..r |-> [n |-> L(4)[i], d |-> x.shape[i]]] IN
                  G(DefResizeNearest(x, L(4), scs, cm, nm), OnnxResizeNearest(x, L(4), scs, cm, nm)))
            ELSE (IF Len(ins[3].shape) # 1 \/ Len(L(3)) # r \/ ins[3].dtype # "f32" \/ ins[3].den < 1 THEN Undefined ELSE
                  \* scales are logged as integers over the common denominator ins[3].den
                  IF \E i \in 1..r : L(3)[i] < 1 THEN Undefined ELSE
                  LET scs == [i \in 1..r |-> [n |-> L(3)[i], d |-> ins[3].den]]
                      outs == [i \in 1..r |-> (x.shape[i] * L(3)[i]) \div ins[3].den]
                  IN G(DefResizeNearest(x, outs, scs, cm, nm), OnnxResizeNearest(x, outs, scs, cm, nm)))
    [] op = "CastLike" -> IF ~Need(2) THEN Undefined ELSE
         G(\A k \in 1..Len(T(1).data) : InRange(T(2).dtype, T(1).data[k]), WithDType(T(1), T(2).dtype))
    [] op = "Scatter" -> IF ~Need(3) THEN Undefined ELSE
         G(DefScatterElements(T(1), T(2), T(3), A("axis", 0), "none"), OnnxScatterElements(T(1), T(2), T(3), A("axis", 0), "none"))
    [] op \in {"Ceil", "Floor", "Round"} -> IF ~Need(1) \/ Den(1) < 1 THEN Undefined ELSE
         \* x = data / den; Round is round-half-to-even
         G(T(1).dtype = "f32",
           MapT(LAMBDA v : CASE op = "Ceil" -> CeilDiv(v, Den(1)) [] op = "Floor" -> FloorDiv(v, Den(1))
                             [] op = "Round" -> RoundHalfEven(v, Den(1)), T(1), "f32"))
    [] op \in {"IsInf", "IsNaN"} -> IF ~Need(1) THEN Undefined ELSE
         G(T(1).dtype = "f32", MapT(LAMBDA v : 0, T(1), "i32"))                   \* logged values are finite
    [] op = "PRelu" -> IF ~Need(2) THEN Undefined ELSE G(DefPRelu(T(1), T(2)), OnnxPRelu(T(1), T(2)))
    [] op = "LeakyRelu" -> IF ~Need(1) \/ ~AHas(attrs, "alpha") THEN Undefined ELSE
         G(T(1).dtype = "f32", OnnxLeakyRelu(T(1), A("alpha", 0)))
    [] op = "ReverseSequence" -> IF ~Need(2) THEN Undefined ELSE
         G(DefReverseSequence(T(1), T(2), A("batch_axis", 1), A("time_axis", 0)),
           OnnxReverseSequence(T(1), T(2), A("batch_axis", 1), A("time_axis", 0)))
    [] op = "DequantizeLinear" -> IF ~Need(2) THEN Undefined ELSE
         G(DefDequantizeLinear(T(1), T(2), TOpt(3), A("axis", 1)), OnnxDequantizeLinear(T(1), T(2), TOpt(3), A("axis", 1)))
    [] op = "QuantizeLinear" -> IF ~Need(2) THEN Undefined ELSE
         G(DefQuantizeLinear(T(1), T(2), TOpt(3), A("axis", 1)) /\ Den(1) >= 1 /\ Den(2) = 1,
           OnnxQuantizeLinearD(T(1), Den(1), T(2), TOpt(3), A("axis", 1)))
    [] op = "DynamicQuantizeLinear" -> IF ~Need(1) \/ ~DefDynamicQuantizeLinear(T(1), Den(1)) THEN Undefined ELSE
         LET q == OnnxDynamicQuantizeLinear(T(1), Den(1)) IN
         \* y_scale can be logged only when it is an integer; the harness states how many
         \* outputs it requested (_nout) and requests y alone otherwise
         IF q.scale.n % q.scale.d = 0 THEN Ok(<<q.y, Scalar("f32", q.scale.n \div q.scale.d), q.zp>>)
         ELSE IF A("_nout", 3) = 1 THEN Ok(<<q.y>>) ELSE Undefined
    [] op = "Einsum" ->
         \* the harness logs the parsed equation as pseudo-attributes _terms / _out / _implicit
         IF N = 0 \/ ~AllPresent \/ ~AHas(attrs, "_terms") THEN Unmodelled ELSE
         LET terms == A("_terms", <<>>)
             out == IF A("_implicit", 0) = 1 THEN EinsumImplicitOut(terms) ELSE A("_out", <<>>)
         IN G(DefEinsum(All, terms, out), OnnxEinsum(All, terms, out))
    [] op \in {"SequenceConstruct", "SequenceAt", "SequenceLength", "SequenceInsert", "SequenceErase", "ConcatFromSequence"} ->
         \* the first _nseq inputs are the elements of the input sequence (SequenceConstruct: all inputs)
         LET ns == IF op = "SequenceConstruct" THEN N ELSE A("_nseq", 0)
             sq == [k \in 1..ns |-> T(k)]
             n == ns
         IN IF ns > N \/ (\E k \in 1..ns : ~ins[k].p) \/ ns = 0 \/ ~DefSeq(sq) THEN Undefined ELSE
            (CASE op = "SequenceConstruct" -> Ok(sq)
               [] op = "SequenceLength" -> Ok1(OnnxSequenceLength(sq))
               [] op = "SequenceAt" ->
                    IF ~IsScal(ns + 1) \/ Scal(ns + 1) < -n \/ Scal(ns + 1) > n - 1 THEN Undefined
                    ELSE Ok1(OnnxSequenceAt(sq, Scal(ns + 1)))
               [] op = "SequenceInsert" ->
                    IF ~Has(ns + 1) \/ T(ns + 1).dtype # sq[1].dtype THEN Undefined
                    ELSE IF ~Has(ns + 2) THEN Ok(OnnxSequenceInsert(sq, T(ns + 1), n))
                    ELSE IF ~IsScal(ns + 2) \/ Scal(ns + 2) < -n \/ Scal(ns + 2) > n THEN Undefined
                    ELSE Ok(OnnxSequenceInsert(sq, T(ns + 1), Scal(ns + 2)))
               [] op = "SequenceErase" ->
                    IF ~Has(ns + 1) THEN Ok(OnnxSequenceErase(sq, n - 1))
                    ELSE IF ~IsScal(ns + 1) \/ Scal(ns + 1) < -n \/ Scal(ns + 1) > n - 1 THEN Undefined
                    ELSE Ok(OnnxSequenceErase(sq, Scal(ns + 1)))
               [] op = "ConcatFromSequence" ->
                    IF ~AHas(attrs, "axis") THEN Undefined ELSE
                    G(DefConcatFromSequence(sq, A("axis", 0), A("new_axis", 0) = 1),
                      OnnxConcatFromSequence(sq, A("axis", 0), A("new_axis", 0) = 1)))
    [] op = "SplitToSequence" -> IF ~Need(1) \/ ~DefSplitToSequence(T(1), A("axis", 0)) THEN Undefined ELSE
         LET x == T(1) ax == A("axis", 0) dim == x.shape[Norm(ax, Rank(x)) + 1] IN
         IF ~Has(2) THEN Ok(OnnxSplitToSequenceOnes(x, ax, A("keepdims", 1) = 1))
         ELSE IF ins[2].dtype # "i32" THEN Undefined
         ELSE IF Len(ins[2].shape) = 0
         THEN (IF Scal(2) < 1 THEN Undefined ELSE Ok(OnnxSplit(x, ax, ChunkSizes(dim, Scal(2)))))
         ELSE IF Len(ins[2].shape) = 1 /\ DefSplitSizes(x, ax, L(2)) THEN Ok(OnnxSplit(x, ax, L(2)))
         ELSE Undefined
    [] op = "Dropout" -> IF ~Need(1) THEN Undefined ELSE
         \* inference mode (training_mode absent or false): output = data, mask = all true
         IF Has(3) /\ (~IsScal(3) \/ Scal(3) # 0) THEN Unmodelled
         ELSE Ok(<<T(1), MapT(LAMBDA v : 1, T(1), "i32")>>)
    [] OTHER -> Unmodelled
=============================================================================
