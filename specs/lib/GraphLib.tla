------------------------------ MODULE GraphLib ------------------------------
(* Dataflow graphs as rten sees them.  A graph is a record                    *)
(*   [kind  |-> <<"value"|"const"|"op", ...>>      node i has kind[i]         *)
(*    ins   |-> <<seq of node ids or 0, ...>>      (0 = omitted input)        *)
(*    outs  |-> <<seq of node ids or 0, ...>>      (0 = unused output)        *)
(*    caps  |-> <<set of value ids captured by the op's subgraphs, ...>>      *)
(*    captured |-> set of value ids this graph captures from a parent]        *)
(* Node ids are 1..Len(kind).  ins/outs/caps are <<>>/{} for non-operators.   *)
EXTENDS Naturals, Integers, Sequences, FiniteSets

None == 0
RangeOf(s) == {s[i] : i \in DOMAIN s}
NoDupSeq(s) == \A i, j \in DOMAIN s : i # j => s[i] # s[j]

Nodes(g) == 1..Len(g.kind)
Ops(g) == {n \in Nodes(g) : g.kind[n] = "op"}
Values(g) == {n \in Nodes(g) : g.kind[n] = "value"}
Consts(g) == {n \in Nodes(g) : g.kind[n] = "const"}

\* Everything an operator needs before it can run: inputs + subgraph captures.
Deps(g, o) == (RangeOf(g.ins[o]) \cup g.caps[o]) \ {None}
Outs(g, o) == RangeOf(g.outs[o]) \ {None}
Producers(g, v) == {o \in Ops(g) : v \in Outs(g, o)}
HasProducer(g, v) == Producers(g, v) # {}
Producer(g, v) == CHOOSE o \in Producers(g, v) : TRUE

\* Least fixpoint helper.
RECURSIVE Lfp(_, _)
Lfp(F(_), S) == LET T == S \cup F(S) IN IF T = S THEN S ELSE Lfp(F, T)
=============================================================================
