------------------------------ MODULE SymExpr ------------------------------
(* Reference semantics of rten-shape-inference symbolic integer expressions *)
(* (rten-shape-inference/src/sym_expr.rs).                                   *)
(*                                                                           *)
(* An expression is a record tree                                            *)
(*   [op, v, s, pos, a]   op  \in {"Val","Var","Neg"} \cup BinOps            *)
(*                        v   constant (op = "Val", else 0)                  *)
(*                        s   symbol name (op = "Var", else "")              *)
(*                        pos symbol declared positive, i.e. >= 0            *)
(*                        a   sequence of operand trees (0, 1 or 2)          *)
(* Nodes may carry additional fields (annotations); only the five above are  *)
(* read here.                                                                *)
(*                                                                           *)
(* Eval is CHECKED 32-bit arithmetic: the result is undefined (ok = FALSE,   *)
(* `why` says why) on division by zero ("div0"), on i32 overflow of any      *)
(* intermediate result ("ovf"), on a Broadcast whose operands break its      *)
(* documented contract ("bcast") and on a symbol without a value ("unbound").*)
(* Overflow is detected by comparisons, so TLC's own (32-bit, trapping)      *)
(* integers never overflow.  EvalMax is the same with Broadcast = Max and no *)
(* contract check.  EvalW is the two's-complement WRAPPING evaluation (what  *)
(* SymExpr::eval computes in a release build); it is undefined only where    *)
(* Rust has no value either (division by zero, MIN / -1).                    *)
EXTENDS Integers, Sequences, FiniteSets

MAXI == 2147483647
MINI == -2147483647 - 1

Def(x) == [ok |-> TRUE, v |-> x, why |-> ""]
Fail(w) == [ok |-> FALSE, v |-> 0, why |-> w]
\* When both operands are undefined the more definite reason wins: a division by zero
\* or an unbound symbol is certain, whereas after an overflow the unbounded value is unknown.
Worse(a, b) == IF "div0" \in {a, b} THEN "div0"
               ELSE IF "unbound" \in {a, b} THEN "unbound"
               ELSE IF "bcast" \in {a, b} THEN "bcast"
               ELSE IF "ovf" \in {a, b} THEN "ovf" ELSE ""

MaxI(a, b) == IF a >= b THEN a ELSE b
MinI(a, b) == IF a <= b THEN a ELSE b

\* ---------------------------------------------------------------- checked
AddOK(a, b) == IF b >= 0 THEN a <= MAXI - b ELSE a >= MINI - b
SubOK(a, b) == IF b >= 0 THEN a >= MINI + b ELSE a <= MAXI + b
NegOK(a) == a # MINI

MulOK(a, b) ==
  IF a = 0 \/ b = 0 THEN TRUE
  ELSE IF a = 1 \/ b = 1 THEN TRUE
  ELSE IF a = MINI \/ b = MINI THEN FALSE          \* |other| >= 2 or other = -1
  ELSE IF a > 0 /\ b > 0 THEN a <= MAXI \div b
  ELSE IF a < 0 /\ b < 0 THEN (-a) <= MAXI \div (-b)
  ELSE \* signs differ, product >= -2^31  <=>  p * n <= 2^31 where p > 1 or n > 1
       LET p == IF a > 0 THEN a ELSE b
           n == IF a > 0 THEN -b ELSE -a              \* n >= 1, p >= 1
           q == MAXI \div p                           \* floor((2^31 - 1) / p)
           lim == IF MAXI % p = p - 1 THEN q + 1 ELSE q   \* floor(2^31 / p)
       IN n <= lim

\* Rust `/` on i32: truncation toward zero.  Requires b # 0 and not (a = MINI /\ b = -1).
TruncDiv(a, b) ==
  IF b = MINI THEN (IF a = MINI THEN 1 ELSE 0)
  ELSE LET d == IF b > 0 THEN b ELSE -b                \* |b|
           fl == a \div d                             \* floor(a / |b|)
           tq == IF a < 0 /\ a % d # 0 THEN fl + 1 ELSE fl   \* trunc(a / |b|)
       IN IF b > 0 THEN tq ELSE -tq                   \* tq = 2^31 only for MINI / -1 (excluded)
\* Remainder with the sign of the dividend (Rust `%`).
TruncRem(a, b) == a - TruncDiv(a, b) * b    \* |TruncDiv * b| <= |a|: no overflow

DivOK(a, b) == b # 0 /\ ~(a = MINI /\ b = -1)

\* rten's div_ceil (copy of i32::div_ceil): true ceiling of the rational a / b.
CeilDiv(a, b) ==
  LET d == TruncDiv(a, b)
      exact == (b = MINI /\ (a = MINI \/ a = 0)) \/ (b # MINI /\ a % (IF b > 0 THEN b ELSE -b) = 0)
      samesign == (a >= 0) = (b >= 0)      \* (lhs ^ rhs) >> 31 = 0
  IN IF ~exact /\ samesign THEN d + 1 ELSE d

\* Broadcast(a, b) "behaves like Max, except it implies that both expressions are
\* positive [>= 0, the module's convention] and either equal or 1".  Outside that
\* contract there is no specified value.  The pair {0, 1} satisfies the wording but
\* Max gives 1 where tensor broadcasting gives 0: it is treated as unspecified too
\* (weakest reading; see BroadcastAmbiguous).
BroadcastAmbiguous(a, b) == (a = 0 /\ b = 1) \/ (a = 1 /\ b = 0)
BroadcastOK(a, b) == a >= 0 /\ b >= 0 /\ (a = b \/ a = 1 \/ b = 1) /\ ~BroadcastAmbiguous(a, b)

DivFail(x, y) == IF y = 0 THEN Fail("div0") ELSE Fail("ovf")      \* MIN / -1
BinChecked(op, x, y, contract) ==
  CASE op = "Add" -> IF AddOK(x, y) THEN Def(x + y) ELSE Fail("ovf")
    [] op = "Sub" -> IF SubOK(x, y) THEN Def(x - y) ELSE Fail("ovf")
    [] op = "Mul" -> IF MulOK(x, y) THEN Def(x * y) ELSE Fail("ovf")
    [] op = "Div" -> IF DivOK(x, y) THEN Def(TruncDiv(x, y)) ELSE DivFail(x, y)
    [] op = "DivCeil" -> IF DivOK(x, y) THEN Def(CeilDiv(x, y)) ELSE DivFail(x, y)
    [] op = "Max" -> Def(MaxI(x, y))
    [] op = "Min" -> Def(MinI(x, y))
    [] op = "Broadcast" -> IF contract /\ ~BroadcastOK(x, y) THEN Fail("bcast") ELSE Def(MaxI(x, y))

\* --------------------------------------------------------------- wrapping
\* Two's-complement wrapping arithmetic on i32 without overflowing TLC's ints.
WAdd(a, b) == IF AddOK(a, b) THEN a + b
              ELSE IF a > 0 THEN (a - MAXI - 1) + (b - MAXI - 1)     \* a + b - 2^32
              ELSE (a + MAXI + 1) + (b + MAXI + 1)                   \* a + b + 2^32
WNeg(a) == IF a = MINI THEN MINI ELSE -a
WSub(a, b) == IF SubOK(a, b) THEN a - b
              ELSE IF b = MINI THEN WAdd(a, MINI)                    \* -MINI wraps to MINI
              ELSE WAdd(a, -b)
\* 16-bit halves of the two's-complement bit pattern.
Lo16(a) == a % 65536
Hi16(a) == (a \div 65536) % 65536
\* (x * y) mod 2^16 and the carry (x * y) div 2^16 mod 2^16 for 0 <= x, y < 2^16.
MulLow(x, y) ==
  LET t1 == x * (y \div 256)
      t0 == x * (y % 256)
  IN (((t1 % 256) * 256) + t0) % 65536
MulCarry(x, y) ==
  LET t1 == x * (y \div 256)          \* < 2^24, weight 2^8
      t0 == x * (y % 256)             \* < 2^24
      low == ((t1 % 256) * 256) + t0  \* < 2^16 + 2^24
  IN ((t1 \div 256) + (low \div 65536)) % 65536
FromHalves(h, l) == IF h >= 32768 THEN (h - 65536) * 65536 + l ELSE h * 65536 + l
WMul(a, b) ==
  IF MulOK(a, b) THEN a * b
  ELSE LET al == Lo16(a) ah == Hi16(a) bl == Lo16(b) bh == Hi16(b)
           l == MulLow(al, bl)
           h == (MulCarry(al, bl) + MulLow(ah, bl) + MulLow(al, bh)) % 65536
       IN FromHalves(h, l)

BinWrap(op, x, y) ==
  CASE op = "Add" -> Def(WAdd(x, y))
    [] op = "Sub" -> Def(WSub(x, y))
    [] op = "Mul" -> Def(WMul(x, y))
    [] op = "Div" -> IF DivOK(x, y) THEN Def(TruncDiv(x, y)) ELSE DivFail(x, y)
    [] op = "DivCeil" -> IF DivOK(x, y) THEN Def(CeilDiv(x, y)) ELSE DivFail(x, y)
    [] op \in {"Max", "Broadcast"} -> Def(MaxI(x, y))      \* eval() treats Broadcast as max
    [] op = "Min" -> Def(MinI(x, y))

\* ------------------------------------------------------------- evaluation
BinOps == {"Add", "Sub", "Mul", "Div", "DivCeil", "Max", "Min", "Broadcast"}

\* mode: "contract" (checked, Broadcast contract enforced), "max" (checked, Broadcast = Max),
\*       "wrap" (wrapping, Broadcast = Max)
RECURSIVE EvalM(_, _, _)
EvalM(e, env, mode) ==
  CASE e.op = "Val" -> Def(e.v)
    [] e.op = "Var" -> IF e.s \in DOMAIN env THEN Def(env[e.s]) ELSE Fail("unbound")
    [] e.op = "Neg" ->
         LET x == EvalM(e.a[1], env, mode) IN
         IF ~x.ok THEN x
         ELSE IF mode = "wrap" THEN Def(WNeg(x.v))
         ELSE IF NegOK(x.v) THEN Def(-x.v) ELSE Fail("ovf")
    [] OTHER ->
         LET x == EvalM(e.a[1], env, mode)
             y == EvalM(e.a[2], env, mode) IN
         IF ~x.ok \/ ~y.ok THEN Fail(Worse(x.why, y.why))
         ELSE IF mode = "wrap" THEN BinWrap(e.op, x.v, y.v)
         ELSE BinChecked(e.op, x.v, y.v, mode = "contract")

Eval(e, env) == EvalM(e, env, "contract")
EvalMax(e, env) == EvalM(e, env, "max")
EvalW(e, env) == EvalM(e, env, "wrap")

\* --------------------------------------------------------------- structure
Val(c) == [op |-> "Val", v |-> c, s |-> "", pos |-> FALSE, a |-> <<>>]
Var(n, p) == [op |-> "Var", v |-> 0, s |-> n, pos |-> p, a |-> <<>>]
Neg(x) == [op |-> "Neg", v |-> 0, s |-> "", pos |-> FALSE, a |-> <<x>>]
Bin(o, x, y) == [op |-> o, v |-> 0, s |-> "", pos |-> FALSE, a |-> <<x, y>>]

\* Strip annotations.
RECURSIVE Plain(_)
Plain(e) == [op |-> e.op, v |-> e.v, s |-> e.s, pos |-> e.pos,
             a |-> [i \in 1..Len(e.a) |-> Plain(e.a[i])]]

RECURSIVE Syms(_)
\* Set of <<name, positive>> pairs of the symbols of e.
Syms(e) == IF e.op = "Var" THEN {<<e.s, e.pos>>}
           ELSE UNION {Syms(e.a[i]) : i \in 1..Len(e.a)}

RECURSIVE Size(_)
Size(e) == IF Len(e.a) = 0 THEN 1
           ELSE IF Len(e.a) = 1 THEN 1 + Size(e.a[1])
           ELSE 1 + Size(e.a[1]) + Size(e.a[2])

\* All assignments of the symbol set `syms` (pairs <<name, positive>>): values from
\* lo..hi, restricted to >= 0 for a name that is declared positive anywhere.
Envs(syms, lo, hi) ==
  LET names == {p[1] : p \in syms}
      isPos(n) == <<n, TRUE>> \in syms
  IN {f \in [names -> lo..hi] : \A n \in names : isPos(n) => f[n] >= 0}

\* Trees of depth <= d over the leaf set L.
RECURSIVE Trees(_, _, _)
Trees(L, ops, d) ==
  IF d = 0 THEN L
  ELSE LET T == Trees(L, ops, d - 1) IN
       T \cup {Neg(t) : t \in T} \cup {Bin(o, x, y) : o \in ops, x \in T, y \in T}
=============================================================================
