---------------------------- MODULE TraceLib ----------------------------
(* Plumbing shared by all trace-validation specs.                          *)
(* The trace is NDJSON, path in env var TRACE.  Trace specs keep their      *)
(* state O(1) in the trace length and print offending records at once.      *)
EXTENDS Naturals, Integers, Sequences, FiniteSets, TLC, Json, IOUtils

Rec == ndJsonDeserialize(IOEnv.TRACE)
NRec == Len(Rec)

Range(s) == {s[i] : i \in DOMAIN s}
NoDup(s) == \A i, j \in DOMAIN s : i # j => s[i] # s[j]
HasField(r, f) == f \in DOMAIN r

\* Case-batch judging.  `bad` is a function: signature -> number of failed
\* predicates with that signature (its domain is bounded by the number of
\* distinct signatures, so the state stays O(1) in the trace length).  The
\* first record of every signature is printed at the moment it is judged.
NoBad == <<>>
Flag(bad, ok, sig, rec) ==
  IF ok THEN bad
  ELSE IF sig \in DOMAIN bad
       THEN [bad EXCEPT ![sig] = @ + 1]
       ELSE Print(<<"BADCASE", ToJson(sig), ToJson(rec)>>, bad @@ (sig :> 1))

\* Printed once at the end of the trace.
ReportBad(bad) ==
  /\ \A s \in DOMAIN bad : Print(<<"BADSIG", ToJson(s), bad[s]>>, TRUE)
  /\ Print(<<"BADTOTAL", Cardinality(DOMAIN bad)>>, TRUE)

\* Acceptance: every line consumed (one state per line plus the initial state).
Accepted == \/ TLCGet("stats").diameter - 1 = NRec
            \/ Print(<<"UNMATCHED", TLCGet("stats").diameter>>, FALSE)

Stat(name, n) == Print(<<"STAT", name, n>>, TRUE)
=============================================================================
