CONSTANTS
  Vs = {4, 8, 16}
  Fns = {"simd_map", "simd_apply_1", "simd_apply_2", "simd_apply_4", "fold", "fold_unroll_2", "fold_unroll_4", "iter_pad", "f16_to_f32", "f32_to_f16", "quantize"}
SPECIFICATION Spec
INVARIANTS InBounds MaskedTail WriterSync Monotone ExactlyOnce CallCount
PROPERTY Termination
CHECK_DEADLOCK FALSE
