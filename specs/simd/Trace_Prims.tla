----------------------------- MODULE Trace_Prims -----------------------------
(* Trace validation for C18, primitives part.                                *)
(*                                                                          *)
(* The harness (vh-simd prims) evaluates every rten-simd primitive through   *)
(* SimdOp::eval on each available ISA (generic, avx2, avx512) and logs the    *)
(* operands and what every ISA produced.  This spec                          *)
(*  - recomputes every INTEGER / bit-level lane from SimdInt (the scalar      *)
(*    definition) and compares it with each ISA's lane ("int" predicates);    *)
(*  - recomputes float lanes that are discrete functions of the bit pattern   *)
(*    (neg, abs, comparisons, min/max, conversions) from SimdFloat;           *)
(*  - for float arithmetic, whose IEEE rounding cannot be evaluated in TLA+,  *)
(*    judges the cross-ISA relation out(isa) = out(generic) on bit patterns   *)
(*    (NaN compared as a class), the generic ISA being the scalar definition. *)
(* A panic of a primitive is an outcome ("st" = "panic") and is judged: no    *)
(* primitive documents a panic for in-range operands.                         *)
EXTENDS TraceLib, SimdInt, SimdFloat

VARIABLES l, nbad, nlanes, nskip

e == Rec[l]
B(x) == IF x THEN 1 ELSE 0

\* ------------------------------------------------------------ integer lanes
\* The expected lanes are computed ONCE per event (the op is dispatched outside the
\* lane loop) and compared with every ISA's lanes.
N == Len(e.a)
Map1(F(_)) == [i \in 1..N |-> F(e.a[i])]
Map2(F(_, _)) == [i \in 1..N |-> F(e.a[i], e.b[i])]
Map3(F(_, _, _)) == [i \in 1..N |-> F(e.a[i], e.b[i], e.c[i])]

IntExpect ==
  LET t == TY(e.ty) k == e.k op == e.op IN
  CASE op = "add" -> Map2(LAMBDA x, y : Add(t, x, y))
    [] op = "sub" -> Map2(LAMBDA x, y : Sub(t, x, y))
    [] op = "mul" -> Map2(LAMBDA x, y : Mul(t, x, y))
    [] op = "min" -> Map2(Min)
    [] op = "max" -> Map2(Max)
    [] op = "and" -> Map2(LAMBDA x, y : And(t, x, y))
    [] op = "or" -> Map2(LAMBDA x, y : Or(t, x, y))
    [] op = "xor" -> Map2(LAMBDA x, y : Xor(t, x, y))
    [] op = "eq" -> Map2(LAMBDA x, y : B(Eq(x, y)))
    [] op = "ge" -> Map2(LAMBDA x, y : B(Ge(x, y)))
    [] op = "gt" -> Map2(LAMBDA x, y : B(Gt(x, y)))
    [] op = "lt" -> Map2(LAMBDA x, y : B(Lt(x, y)))
    [] op = "le" -> Map2(LAMBDA x, y : B(Le(x, y)))
    [] op = "not" -> Map1(LAMBDA x : Not(t, x))
    [] op = "neg" -> Map1(LAMBDA x : Neg(t, x))
    [] op = "abs" -> Map1(LAMBDA x : Abs(t, x))
    [] op = "shl" -> Map1(LAMBDA x : Shl(t, x, k))
    [] op = "shr" -> Map1(LAMBDA x : Shr(t, x, k))
    [] op = "mul_add" -> Map3(LAMBDA x, y, z : MulAdd(t, x, y, z))
    [] op = "clamp" -> Map3(Clamp)
    \* the harness builds the mask as (c > 0) on same-width SIGNED integer lanes
    [] op = "select" -> Map3(LAMBDA x, y, z : Select(x, y, IF e.ty = "f16" THEN z > 0 /\ z < 32768 ELSE z > 0))
    \* poly_eval(x, [c0, c1, c2]) = x*c0 + x^2*c1 + x^3*c2 with c0 = y, c1 = z, c2 = 3
    [] op = "poly" -> Map3(LAMBDA x, y, z :
                             LET x2 == Mul(t, x, x) x3 == Mul(t, x2, x)
                             IN Add(t, Add(t, Mul(t, x, y), Mul(t, x2, z)), Mul(t, x3, 3)))

\* Is lane i judged at all (documented domain)?
IntJudged(i) ==
  CASE e.op = "abs" -> AbsDefined(TY(e.ty), e.a[i])
    [] e.op = "clamp" -> e.b[i] <= e.c[i]     \* min > max: not specified by the documentation
    [] OTHER -> TRUE

\* Lanes of operand sequence s (unary ops carry empty b / c).
At(s, i) == IF Len(s) = 0 THEN 0 ELSE s[i]
Min0(S) == IF S = {} THEN 0 ELSE CHOOSE m \in S : \A o \in S : m <= o

\* Lanes of `got` that are judged and differ from `exp` (fast path: equal sequences).
BadLanes(got, exp, Judged(_), Same(_, _)) ==
  IF got = exp THEN {}
  ELSE IF Len(got) # Len(exp) THEN {1}
  ELSE {i \in 1..Len(exp) : Judged(i) /\ ~Same(got[i], exp[i])}

LaneSig(j, class) == [ev |-> e.ev, ty |-> e.ty, op |-> e.op, isa |-> e.isas[j], class |-> class]
\* What is printed for a failing lane: the operands of the first bad lane only.
LaneRec(j, i, want) ==
  [ev |-> e.ev, ty |-> e.ty, op |-> e.op, k |-> e.k, isa |-> e.isas[j], seq |-> e.seq, lane |-> i,
   a |-> IF i = 0 THEN 0 ELSE e.a[i], b |-> IF i = 0 THEN 0 ELSE At(e.b, i), c |-> IF i = 0 THEN 0 ELSE At(e.c, i),
   got |-> IF i = 0 \/ e.st[j] # "ok" \/ i > Len(e.out[j]) THEN 0 ELSE e.out[j][i], want |-> want, st |-> e.st[j]]

\* Judge ISA j of the event: a panic is an outcome; otherwise the set S of deviating lanes.
JudgeOne(bad, j, S(_), Want(_, _)) ==
  IF j > Len(e.isas) THEN bad
  ELSE IF e.st[j] # "ok" THEN Flag(bad, FALSE, LaneSig(j, e.st[j]), LaneRec(j, 0, 0))
  ELSE LET s == S(j) IN
       Flag(bad, s = {}, LaneSig(j, "lane_value"), LaneRec(j, Min0(s), Want(j, Min0(s))))
\* At most three ISAs per event.
JudgeIsas(bad, S(_), Want(_, _)) ==
  JudgeOne(JudgeOne(JudgeOne(bad, 1, S, Want), 2, S, Want), 3, S, Want)

Lane ==
  /\ e.ev = "lane"
  /\ LET exp == IntExpect IN
     nbad' = JudgeIsas(nbad, LAMBDA j : BadLanes(e.out[j], exp, IntJudged, LAMBDA p, q : p = q),
                       LAMBDA j, i : exp[i])
  /\ nlanes' = nlanes + N * Len(e.isas)
  /\ UNCHANGED nskip

\* ------------------------------------------------------- whole-vector events
VecExpect ==
  LET ty == TY(e.ty) a == e.a b == e.b v == e.v IN
  CASE e.op = "sum" -> <<Sum(ty, a)>>
    [] e.op = "first_n" -> [i \in 1..v |-> B(FirstN(v, e.k)[i])]
    [] e.op = "splat" -> Splat(v, a[1])
    [] e.op = "zero" -> Splat(v, 0)
    [] e.op = "one" -> Splat(v, 1)
    [] e.op = "broadcast_lane" -> Splat(v, a[e.k + 1])
    \* fold_splat(x, accum, wrapping_add): accum = b[1]
    [] e.op = "fold_splat" -> Splat(v, Add(ty, b[1], Sum(ty, a)))
    \* load_pad of the first k elements: first k lanes, zero padding, then the mask
    [] e.op = "load_pad" -> [i \in 1..(2 * v) |-> IF i <= v THEN (IF i <= e.k THEN a[i] ELSE 0)
                                                  ELSE B(i - v <= e.k)]
    [] e.op = "mask_ops" ->
         LET m1 == [i \in 1..v |-> a[i] > 0] m2 == [i \in 1..v |-> b[i] > 0] IN
         <<B(MaskAny(m1)), B(MaskAll(m1)), B(~MaskAny(m1))>> \o [i \in 1..v |-> B(MaskAnd(m1, m2)[i])]
           \o [i \in 1..v |-> B(m1[i])] \o [i \in 1..v |-> B(m2[i])]
    [] e.op = "extend_low" -> ExtendLow(a)
    [] e.op = "extend_high" -> ExtendHigh(a)
    [] e.op = "interleave_low" -> InterleaveLow(a, b)
    [] e.op = "interleave_high" -> InterleaveHigh(a, b)
    [] e.op = "concat_low" -> ConcatLow(a, b)
    [] e.op = "concat_high" -> ConcatHigh(a, b)
    [] e.op = "narrow_saturate" -> NarrowSat(TY(IF e.ty = "i32" THEN "i16" ELSE "u8"), a, b)

VecSig(class) == [ev |-> e.ev, ty |-> e.ty, op |-> e.op, isa |-> e.isa, class |-> class]

Vec ==
  /\ e.ev = "vec"
  /\ nbad' = IF e.st # "ok" THEN Flag(nbad, FALSE, VecSig(e.st), e)
             ELSE Flag(nbad, e.out = VecExpect, VecSig("vector_value"), e)
  /\ nlanes' = nlanes + Len(e.out)
  /\ UNCHANGED nskip

\* ------------------------------------------------------------- float lanes
\* Every value is a bit pattern (i32).  "class" of the relation judged per op:
\*   "exact"  - the op is a discrete function of the bit patterns defined in
\*              SimdFloat; every ISA must produce exactly that (NaN results as a class
\*              where the op produces a float from arithmetic on a NaN);
\*   "cross"  - IEEE arithmetic: out(isa) must equal out(generic) (NaN as a class);
\*   "fused"  - NumOps::mul_add documents "may use one or two roundings": generic (two
\*              roundings) is not compared with the FMA ISAs; avx2 and avx512 (both fused:
\*              "will use fused multiply-add instructions if available") must agree.
\* Lanes outside the documented domain (lib.rs: "some operations may have different
\* behaviors in edge cases on different platforms", in the spirit of WebAssembly
\* relaxed SIMD: NaN / signed-zero operands of min/max/clamp, out-of-range or NaN
\* float->int conversion) are counted in nskip and not judged.
FKind(op) ==
  CASE op \in {"neg", "abs", "not", "and", "or", "xor", "select", "eq", "ge", "gt", "lt", "le",
               "min", "max", "clamp", "to_float", "to_int_trunc", "to_int_round", "round_ties_even"} -> "exact"
    [] op \in {"mul_add", "mul_sub_from"} -> "fused"
    [] OTHER -> "cross"

FJudged(i) ==
  LET op == e.op x == e.a[i] y == At(e.b, i) z == At(e.c, i) IN
  CASE op \in {"min", "max"} -> MinMaxDefined(x, y)
    [] op = "clamp" -> /\ ~IsNaN(x) /\ ~IsNaN(y) /\ ~IsNaN(z) /\ FLe(y, z)
                       /\ MinMaxDefined(x, y) /\ MinMaxDefined(FMax(x, y), z)
    [] op \in {"to_int_trunc", "to_int_round"} -> ToIntDefined(x)
    [] OTHER -> TRUE

I32T == TY("i32")
\* Lanes outside the judged domain get the placeholder 0 (never compared).
FExpect ==
  LET op == e.op IN
  CASE op = "neg" -> Map1(FNeg)
    [] op = "abs" -> Map1(FAbs)
    [] op = "not" -> Map1(LAMBDA x : Not(I32T, x))
    [] op = "and" -> Map2(LAMBDA x, y : And(I32T, x, y))
    [] op = "or" -> Map2(LAMBDA x, y : Or(I32T, x, y))
    [] op = "xor" -> Map2(LAMBDA x, y : Xor(I32T, x, y))
    [] op = "select" -> Map3(LAMBDA x, y, z : Select(x, y, z > 0))
    [] op = "eq" -> Map2(LAMBDA x, y : B(FEq(x, y)))
    [] op = "ge" -> Map2(LAMBDA x, y : B(FGe(x, y)))
    [] op = "gt" -> Map2(LAMBDA x, y : B(FGt(x, y)))
    [] op = "lt" -> Map2(LAMBDA x, y : B(FLt(x, y)))
    [] op = "le" -> Map2(LAMBDA x, y : B(FLe(x, y)))
    [] op = "min" -> Map2(LAMBDA x, y : IF MinMaxDefined(x, y) THEN FMin(x, y) ELSE 0)
    [] op = "max" -> Map2(LAMBDA x, y : IF MinMaxDefined(x, y) THEN FMax(x, y) ELSE 0)
    [] op = "clamp" -> [i \in 1..N |-> IF FJudged(i) THEN FMin(FMax(e.a[i], e.b[i]), e.c[i]) ELSE 0]
    [] op = "to_float" -> Map1(I32ToF32)
    [] op = "to_int_trunc" -> Map1(LAMBDA x : IF ToIntDefined(x) THEN F32ToI32Trunc(x) ELSE 0)
    [] op = "to_int_round" -> Map1(LAMBDA x : IF ToIntDefined(x) THEN F32ToI32Round(x) ELSE 0)
    [] op = "round_ties_even" -> Map1(F32RoundTiesEven)

\* Result equality: exact bits, or both NaN when the result is a float.
FloatResult(op) == op \notin {"eq", "ge", "gt", "lt", "le", "to_int_trunc", "to_int_round"}
SameF(p, q) == p = q \/ (FloatResult(e.op) /\ IsNaN(p) /\ IsNaN(q))

IsaIndex(name) == IF \E j \in 1..Len(e.isas) : e.isas[j] = name
                  THEN CHOOSE j \in 1..Len(e.isas) : e.isas[j] = name ELSE 0

\* Reference ISA for ISA j under the op's relation (0 = no reference: not judged).
FRefIsa(j) ==
  LET kind == FKind(e.op) g == IsaIndex("generic") a2 == IsaIndex("avx2") IN
  CASE kind = "cross" -> IF j = g THEN 0 ELSE g
    [] kind = "fused" -> IF e.isas[j] = "avx512" /\ a2 # 0 THEN a2 ELSE 0
    [] OTHER -> 0

FSkipped == IF e.op \in {"min", "max", "clamp", "to_int_trunc", "to_int_round"}
            THEN Cardinality({i \in 1..N : ~FJudged(i)}) ELSE 0

FLane ==
  /\ e.ev = "flane"
  /\ IF FKind(e.op) = "exact"
     THEN LET exp == FExpect IN
          nbad' = JudgeIsas(nbad, LAMBDA j : BadLanes(e.out[j], exp, FJudged, SameF), LAMBDA j, i : exp[i])
     ELSE nbad' = JudgeIsas(nbad,
                    LAMBDA j : LET r == FRefIsa(j) IN
                               IF r = 0 \/ e.st[r] # "ok" THEN {}
                               ELSE BadLanes(e.out[j], e.out[r], FJudged, SameF),
                    LAMBDA j, i : e.out[FRefIsa(j)][i])
  /\ nlanes' = nlanes + N * Len(e.isas)
  /\ nskip' = nskip + FSkipped

\* --------------------------------------------- f16 <-> f32 conversion vectors
CvtExpect ==
  LET a == e.a b == e.b v == e.v IN
  CASE e.op = "narrow_f16" -> [i \in 1..(2 * v) |-> F32ToF16(IF i <= v THEN a[i] ELSE b[i - v])]
    [] e.op = "extend_f16_low" -> [i \in 1..(v \div 2) |-> F16ToF32(a[i])]
    [] e.op = "extend_f16_high" -> [i \in 1..(v \div 2) |-> F16ToF32(a[v \div 2 + i])]

CvtSame(p, q) == IF e.op = "narrow_f16" THEN p = q \/ (IsNaN16(p) /\ IsNaN16(q))
                 ELSE p = q \/ (IsNaN(p) /\ IsNaN(q))
Cvt ==
  /\ e.ev = "cvt"
  /\ LET sig(class) == [ev |-> e.ev, ty |-> "f16", op |-> e.op, isa |-> e.isa, class |-> class] IN
     nbad' = IF e.st # "ok" THEN Flag(nbad, FALSE, sig(e.st), e)
             ELSE LET x == CvtExpect IN
                  Flag(nbad, Len(e.out) = Len(x) /\ \A i \in 1..Len(x) : CvtSame(e.out[i], x[i]),
                       sig("vector_value"), e)
  /\ nlanes' = nlanes + Len(e.out)
  /\ UNCHANGED nskip

Meta == e.ev = "meta" /\ UNCHANGED <<nbad, nlanes, nskip>>

Init == l = 1 /\ nbad = NoBad /\ nlanes = 0 /\ nskip = 0
Next == l <= NRec /\ l' = l + 1 /\ (Meta \/ Lane \/ Vec \/ FLane \/ Cvt)

Report == l = NRec + 1 =>
            /\ ReportBad(nbad)
            /\ Stat("lanes_judged", nlanes)
            /\ Stat("lanes_outside_documented_domain", nskip)
=============================================================================
