----------------------------- MODULE Trace_Bounds -----------------------------
(* Trace validation for C18, slice part: "for all slice lengths ... Masked     *)
(* loads and stores for partial vectors never read or write outside the given *)
(* slices", and results of the slice-level operations.                         *)
(*                                                                            *)
(* The harness (vh-simd bounds) runs every case in a child process on buffers  *)
(* placed flush against PROT_NONE guard pages ("hi": slice ends at the guard   *)
(* page, "lo": slice starts right after one).  An out-of-slice access kills    *)
(* the child; the parent records st = "abort" (with the signal).  A store      *)
(* into the slack on the non-flush side shows up as sentinel damage ("dmg").   *)
(*                                                                            *)
(* "mem" events: slice helpers of rten-simd with the closure x -> x + 1 over   *)
(*   marker inputs; the markers, the expected chunks, padding, results and     *)
(*   untouched memory are all computed HERE from (fn, ty, v, n).               *)
(* "vm" events: every public rten-vecmath operation on every ISA; bounds,      *)
(*   relations between ISAs on bit patterns, and the scalar definition where   *)
(*   it is a discrete function or the data is exact (small integers).          *)
EXTENDS TraceLib, SimdInt, SimdFloat

VARIABLES l, nbad, ncase, nvm

e == Rec[l]
B(x) == IF x THEN 1 ELSE 0
MinN(a, b) == IF a < b THEN a ELSE b

\* ------------------------------------------------------------------ markers
\* (same formulas as harness/vh-simd/src/mem.rs: the harness fills memory with
\* them, the spec recomputes them; a mismatch shows up as a failed predicate)
InMarker(p) == ((p * 7 + 3) % 97) + 1           \* position p (0-based): 1..97, never 0
DstMarker(p) == 101 + (p % 20)
StoreMarker(j) == 50 + (j % 50)

T == TY(IF e.ty = "f16" THEN "u16" ELSE IF e.ty = "f32" THEN "i32" ELSE e.ty)
\* logged representation of the small integer m in element type e.ty
Val(m) == IF e.ty = "f32" THEN I32ToF32(m) ELSE m
\* wrapping of an integer sum into the lane type (f32 / i32 sums stay small)
WrapT(s) == IF T.bits = 32 THEN s ELSE WrapSmall(T, s)

n == e.n
v == e.v
NCh == (n + v - 1) \div v
Inp == [i \in 1..n |-> Val(InMarker(i - 1))]
DInit == [i \in 1..n |-> Val(DstMarker(i - 1))]
Mapped == [i \in 1..n |-> Val(InMarker(i - 1) + 1)]          \* closure: x + 1
\* chunk k (0-based) of the input, padded with zeros ("padded with zeros" in the docs)
Chunk(k) == [j \in 1..v |-> IF k * v + j <= n THEN Val(InMarker(k * v + j - 1)) ELSE 0]
MaskN(k) == [j \in 1..v |-> B(j <= k)]
StoreVec(first) == [j \in 1..v |-> Val(StoreMarker(first + j - 1))]

\* The user function was called once per chunk, each chunk exactly once, tail padded.
\* (Order of calls is not part of the contract of simd_map / simd_apply / fold.)
ChunksCovered ==
  /\ Len(e.calls) = NCh
  /\ \A k \in 0..(NCh - 1) : \E j \in 1..Len(e.calls) : e.calls[j] = Chunk(k)
\* Iterators yield in order.
ChunksInOrder(cnt) == e.calls = [k \in 1..cnt |-> Chunk(k - 1)]

RECURSIVE LaneSumR(_, _, _)
\* sum over positions p = j, j+v, j+2v, ... < n of (mult * marker + 1)
LaneSumR(p, mult, acc) == IF p >= n THEN acc ELSE LaneSumR(p + v, mult, acc + mult * InMarker(p) + 1)
LaneSums(mult) == [j \in 1..v |-> Val(WrapT(LaneSumR(j - 1, mult, 0)))]

Aux1(x) == Len(e.aux) >= 1 /\ e.aux[1] = x

\* Schedule predicate (what the closure / iterator consumer saw) per function.
MemSchedule ==
  CASE e.fn \in {"simd_map_inplace", "simd_map_srcdst", "simd_apply_1", "simd_apply_2", "simd_apply_4",
                 "fold", "fold_unroll_2", "fold_unroll_4", "fold_n", "fold_n_unroll"} -> ChunksCovered
    [] e.fn = "iter" ->
         /\ Aux1(n \div v)
         /\ IF n % v = 0 THEN ChunksInOrder(n \div v) /\ e.masks = <<>>
            ELSE ChunksInOrder(n \div v + 1) /\ e.masks = <<MaskN(n % v)>>
    [] e.fn = "iter_pad" -> Aux1(NCh) /\ ChunksInOrder(NCh)
    [] e.fn \in {"load_pad", "mask_copy"} -> e.masks = <<MaskN(MinN(n, v))>>
    [] OTHER -> TRUE

\* Result predicate: returned values and memory afterwards.
MemResult ==
  LET same == e.src_after = Inp
      dsame == e.dst_after = DInit IN
  CASE e.fn \in {"simd_map_inplace", "simd_apply_1", "simd_apply_2", "simd_apply_4"} ->
         e.src_after = Mapped /\ dsame /\ Aux1(n)
    [] e.fn = "unary_map_mut" -> e.src_after = Mapped /\ dsame
    [] e.fn \in {"simd_map_srcdst", "unary_map"} -> same /\ e.dst_after = Mapped /\ Aux1(n)
    [] e.fn \in {"iter", "iter_pad"} -> same /\ dsame
    [] e.fn \in {"fold", "fold_unroll_2", "fold_unroll_4"} -> same /\ dsame /\ e.out = LaneSums(1)
    [] e.fn \in {"fold_n", "fold_n_unroll"} -> same /\ dsame /\ e.out = LaneSums(1) \o LaneSums(2)
    [] e.fn = "load" -> n >= v /\ same /\ dsame /\ e.out = Chunk(0)
    [] e.fn = "load_many_2" -> n >= 2 * v /\ same /\ dsame /\ e.out = Chunk(0) \o Chunk(1)
    [] e.fn = "load_pad" -> same /\ dsame /\ e.out = Chunk(0)
    [] e.fn = "store" ->
         n >= v /\ dsame /\ e.src_after = [i \in 1..n |-> IF i <= v THEN StoreVec(0)[i] ELSE Inp[i]]
    [] e.fn = "store_uninit" ->
         n >= v /\ same /\ Aux1(v) /\ e.dst_after = [i \in 1..n |-> IF i <= v THEN StoreVec(0)[i] ELSE DInit[i]]
    [] e.fn = "store_many_2" ->
         /\ n >= 2 * v /\ same /\ Aux1(2 * v)
         /\ e.dst_after = [i \in 1..n |-> IF i <= 2 * v THEN Val(StoreMarker(i - 1)) ELSE DInit[i]]
    [] e.fn = "mask_copy" ->
         /\ same /\ e.out = Chunk(0)
         /\ e.dst_after = [i \in 1..n |-> IF i <= MinN(n, v) THEN Inp[i] ELSE DInit[i]]
    [] e.fn \in {"writer", "writer_vecs"} -> same /\ e.dst_after = Inp /\ Aux1(n)

\* Documented precondition panics ("Panics if xs.len() < self.len() [* N]"; the
\* store wrappers assert the same): a panic there is the specified outcome.
PanicAllowed ==
  \/ e.fn \in {"load", "store", "store_uninit"} /\ n < v
  \/ e.fn \in {"load_many_2", "store_many_2"} /\ n < 2 * v

MemClass ==
  CASE e.st \in {"abort", "timeout"} -> e.st                  \* out-of-slice access (guard page) / hang
    [] e.st = "panic" -> IF PanicAllowed THEN "" ELSE "panic"
    [] e.dmg # <<>> -> "store_outside_slice"
    [] ~MemSchedule -> "schedule"
    [] ~MemResult -> "result"
    [] OTHER -> ""

Mem ==
  /\ e.ev = "mem"
  /\ LET c == MemClass IN
     nbad' = Flag(nbad, c = "", [ev |-> "mem", fn |-> e.fn, ty |-> e.ty, isa |-> e.isa, class |-> c],
                  [case |-> [fam |-> "mem", fn |-> e.fn, ty |-> e.ty, isa |-> e.isa, n |-> e.n, place |-> e.place],
                   st |-> e.st, sig |-> e.sig, seq |-> e.seq, dmg |-> e.dmg])
  /\ ncase' = ncase + 1 /\ UNCHANGED nvm

\* --------------------------------------------------------------- vm events
NIsa == Len(e.isas)
Ok(j) == e.st[j] = "ok"
IsaIx(name) == IF \E j \in 1..NIsa : e.isas[j] = name THEN CHOOSE j \in 1..NIsa : e.isas[j] = name ELSE 0
InPlace == e.variant = "inplace"

\* How results of different ISAs relate (decided from the crate documentation):
\*  "all"  lane-wise op built from IEEE add/sub/mul/div/compare/select only: every ISA equal
\*  "x86"  lane-wise op using NumOps::mul_add ("may use one or two roundings": generic is
\*         unfused, AVX2/AVX-512 fused): only avx2 = avx512 is required
\*  "none" reductions whose association depends on the vector width (sum.rs: "very slightly
\*         different results because the additions are happening in a different order"),
\*         softmax / log-softmax (contain such a reduction): bounds and exact-data checks only
\*  Sin / Cos are NOT lane-wise when a vector contains |x| >= 48000 (sin_cos.rs LARGE_THRESHOLD:
\*  the whole vector then falls back to scalar evaluation, so a lane's result depends on its
\*  neighbours and hence on the vector width): judged only when no element is that large.
LargeSinCos(b) == ~IsNaN(b) /\ Abs31(b) >= 1195081728          \* 48000.0 = 0x473B8000
Relation ==
  CASE e.op \in {"leaky_relu", "normalize_scale"} -> "all"
    [] e.op \in {"erf", "gelu", "approx_gelu", "exp", "sigmoid", "silu", "swish", "elu", "tanh",
                 "normalize_const", "normalize_full"} -> "x86"
    [] e.op \in {"sin", "cos"} -> IF \E i \in 1..n : LargeSinCos(e.inp[i]) THEN "none" ELSE "x86"
    [] OTHER -> "none"

SameBits(p, q) == p = q \/ (IsNaN(p) /\ IsNaN(q))
SameSeq(p, q) == p = q \/ (Len(p) = Len(q) /\ \A i \in 1..Len(p) : SameBits(p[i], q[i]))
\* value equality of non-NaN floats (+0 = -0), used against exact integer results
SameVal(p, q) == ~IsNaN(p) /\ ~IsNaN(q) /\ Key(p) = Key(q)

RefIsa(j) ==
  CASE Relation = "all" -> IF e.isas[j] = "generic" THEN 0 ELSE IsaIx("generic")
    [] Relation = "x86" -> IF e.isas[j] = "avx512" THEN IsaIx("avx2") ELSE 0
    [] OTHER -> 0
CrossOK(j) == LET r == RefIsa(j) IN r = 0 \/ ~Ok(r) \/ SameSeq(e.out[j], e.out[r])

\* ---- scalar definitions on exact data
IntOf(b) == F32ToI32Trunc(b)                     \* inputs of class "ints" are integer-valued
SumSeq(F(_), s, k) == LET f[i \in 0..k] == IF i = 0 THEN 0 ELSE f[i - 1] + F(s[i]) IN f[k]
Param(k) == e.params[k]

NormExpect(i) ==
  LET x == IntOf(e.inp[i]) pre == IntOf(Param(1)) sc == IntOf(Param(2)) bias == IntOf(Param(3))
      es == IF e.op = "normalize_const" THEN 1 ELSE IntOf(e.extra_in[i])
      eb == IF e.op = "normalize_full" THEN IntOf(e.extra_in[n + i]) ELSE 0
  IN I32ToF32((x - pre) * sc * es + bias + eb)

AnyNaN(s) == \E i \in 1..Len(s) : IsNaN(s[i])
KeyMax(s) == CHOOSE m \in {Key(s[i]) : i \in 1..Len(s)} : \A i \in 1..Len(s) : Key(s[i]) <= m
KeyMin(s) == CHOOSE m \in {Key(s[i]) : i \in 1..Len(s)} : \A i \in 1..Len(s) : Key(s[i]) >= m
PosInf == InfBits
NegInf == SetSign(InfBits, TRUE)

\* ---- quantize: y = saturate(round(x * inv_scale) + zero_point)  (quantize.rs doc)
\* Judged where |x * inv_scale| < 2^30 and x is not NaN (out-of-range float->int conversion
\* differs between ISAs and between the vector body and the scalar tail).
QDomain(x) == ExpF(x) < 255 /\ ExpF(x) + ExpF(Param(1)) <= 282
\* x * inv_scale as bits, for the power-of-two scales the harness uses (exact)
QScaled(x) ==
  CASE Param(1) = 1065353216 -> x                                     \* 1.0
    [] Param(1) = 1056964608 -> IF ExpF(x) >= 2 THEN SetSign(Abs31(x) - 8388608, x < 0) ELSE 0   \* 0.5
QExact == Param(1) \in {1065353216, 1056964608}
QExpect(x) == Clamp(F32ToI32Round(QScaled(x)) + Param(2), 0, 255)
QDefined(x) == QDomain(x) /\ (Param(1) = 1065353216 \/ ExpF(x) >= 2 \/ Abs31(x) = 0)

\* Scalar-definition predicate for ISA j (TRUE where the definition is not evaluated here).
ExactOK(j) ==
  LET o == e.out[j] IN
  CASE e.op \in {"normalize_const", "normalize_scale", "normalize_full"} ->
         Len(o) = n /\ \A i \in 1..n : SameVal(o[i], NormExpect(i))
    [] e.op = "sum" /\ e.dclass = "ints" -> SameVal(o[1], I32ToF32(SumSeq(IntOf, e.inp, n)))
    [] e.op = "sum_abs" /\ e.dclass = "ints" ->
         SameVal(o[1], I32ToF32(SumSeq(LAMBDA b : IntOf(FAbs(b)), e.inp, n)))
    [] e.op = "sum_square" /\ e.dclass = "ints" ->
         SameVal(o[1], I32ToF32(SumSeq(LAMBDA b : IntOf(b) * IntOf(b), e.inp, n)))
    [] e.op = "sum_square_sub" /\ e.dclass = "ints" ->
         SameVal(o[1], I32ToF32(SumSeq(LAMBDA b : (IntOf(b) - IntOf(Param(1))) * (IntOf(b) - IntOf(Param(1))), e.inp, n)))
    \* MinMax: "(+infinity, -infinity)" for an empty slice; NaN inputs are not specified
    [] e.op = "min_max" ->
         IF n = 0 THEN o = <<PosInf, NegInf>>
         ELSE AnyNaN(e.inp) \/ (~IsNaN(o[1]) /\ Key(o[1]) = KeyMin(e.inp) /\ ~IsNaN(o[2]) /\ Key(o[2]) = KeyMax(e.inp))
    \* MaxNum / MinNum: "propagating NaNs"; identity for an empty slice
    [] e.op = "max_num" ->
         IF n = 0 THEN o = <<NegInf>>
         ELSE IF AnyNaN(e.inp) THEN IsNaN(o[1]) ELSE ~IsNaN(o[1]) /\ Key(o[1]) = KeyMax(e.inp)
    [] e.op = "min_num" ->
         IF n = 0 THEN o = <<PosInf>>
         ELSE IF AnyNaN(e.inp) THEN IsNaN(o[1]) ELSE ~IsNaN(o[1]) /\ Key(o[1]) = KeyMin(e.inp)
    [] e.op = "f16_to_f32" ->
         Len(o) = n /\ \A i \in 1..n : SameBits(o[i], F16ToF32(e.extra_in[i]))
    [] e.op = "f32_to_f16" ->
         Len(o) = n /\ \A i \in 1..n : LET w == F32ToF16(e.inp[i]) IN o[i] = w \/ (IsNaN16(o[i]) /\ IsNaN16(w))
    [] e.op = "quantize" ->
         /\ Len(o) = n
         /\ QExact => \A i \in 1..n : QDefined(e.inp[i]) => o[i] = QExpect(e.inp[i])
         \* every ISA agrees with every other on the judged domain
         /\ \A r \in 1..NIsa : (r < j /\ Ok(r)) => \A i \in 1..n : QDomain(e.inp[i]) => o[i] = e.out[r][i]
    [] OTHER -> TRUE

LenOK(j) ==
  IF e.variant = "reduce" THEN TRUE
  ELSE Len(e.aux[j]) >= 1 /\ e.aux[j][1] = n /\ Len(e.out[j]) = n

\* MaxNum / MinNum document "propagating NaNs": a lost NaN gets its own class.
NaNLost(j) == e.op \in {"max_num", "min_num"} /\ n > 0 /\ AnyNaN(e.inp) /\ ~IsNaN(e.out[j][1])

VmClass(j) ==
  CASE e.st[j] \in {"abort", "timeout", "panic"} -> e.st[j]
    [] e.dmg[j] # <<>> -> "store_outside_slice"
    [] ~InPlace /\ e.src_after[j] # e.inp -> "input_modified"
    [] ~LenOK(j) -> "result_length"
    [] NaNLost(j) -> "nan_not_propagated"
    [] ~ExactOK(j) -> "scalar_definition"
    [] ~CrossOK(j) -> "isa_mismatch"
    [] OTHER -> ""

VmOne(bad, j) ==
  IF j > NIsa THEN bad
  ELSE LET c == VmClass(j) IN
       Flag(bad, c = "", [ev |-> "vm", op |-> e.op, isa |-> e.isas[j], class |-> c],
            [case |-> [fam |-> "vm", op |-> e.op, variant |-> e.variant, dclass |-> e.dclass, isa |-> e.isas[j],
                       n |-> e.n, place |-> e.place],
             st |-> e.st[j], sig |-> e.sig[j], seq |-> e.seq, dmg |-> e.dmg[j]])

Vm ==
  /\ e.ev = "vm"
  /\ nbad' = VmOne(VmOne(VmOne(nbad, 1), 2), 3)
  /\ nvm' = nvm + NIsa /\ UNCHANGED ncase

Meta == e.ev = "meta" /\ UNCHANGED <<nbad, ncase, nvm>>

Init == l = 1 /\ nbad = NoBad /\ ncase = 0 /\ nvm = 0
Next == l <= NRec /\ l' = l + 1 /\ (Meta \/ Mem \/ Vm)

Report == l = NRec + 1 =>
            /\ ReportBad(nbad)
            /\ Stat("mem_cases", ncase)
            /\ Stat("vm_runs", nvm)
=============================================================================
