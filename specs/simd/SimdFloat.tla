----------------------------- MODULE SimdFloat -----------------------------
(* Float primitives of rten-simd that are DISCRETE functions of the IEEE-754  *)
(* bit pattern, defined on the bit pattern itself: an f32 is its 32 bits read *)
(* as a two's-complement i32 (what the harness logs), an f16 is 0..65535.     *)
(*                                                                          *)
(* Covered: sign operations, ordered comparisons, min/max on their           *)
(* documented domain, round-to-nearest-even to an integral value, float<->int *)
(* conversion, f16<->f32 conversion (round to nearest, ties to even,          *)
(* overflow to infinity: rten-vecmath/src/convert.rs F32ToF16 doc).           *)
(* NOT covered (cannot be evaluated in TLA+ at reasonable cost): correctly    *)
(* rounded add/sub/mul/div/fma - those are judged across ISAs only.           *)
EXTENDS SimdInt

\* magnitude bits (sign cleared), 0 .. 2^31-1
Abs31(b) == IF b >= 0 THEN b ELSE (b + MaxI32) + 1
SetSign(mag, neg) == IF neg THEN (mag - MaxI32) - 1 ELSE mag
ExpF(b) == Abs31(b) \div 8388608
ManF(b) == Abs31(b) % 8388608
InfBits == 2139095040                       \* 0x7F800000
IsNaN(b) == Abs31(b) > InfBits
IsZeroF(b) == Abs31(b) = 0
FNeg(b) == IF b >= 0 THEN (b - MaxI32) - 1 ELSE (b + MaxI32) + 1
FAbs(b) == Abs31(b)

\* Order key on non-NaN values: sign-magnitude -> integer order; -0 and +0 both map to 0.
Key(b) == IF b >= 0 THEN b ELSE -Abs31(b)
Ord(x, y) == ~IsNaN(x) /\ ~IsNaN(y)
FEq(x, y) == Ord(x, y) /\ Key(x) = Key(y)
FLt(x, y) == Ord(x, y) /\ Key(x) < Key(y)
FLe(x, y) == Ord(x, y) /\ Key(x) <= Key(y)
FGt(x, y) == Ord(x, y) /\ Key(x) > Key(y)
FGe(x, y) == Ord(x, y) /\ Key(x) >= Key(y)

\* "Return the minimum/maximum of x and y for each lane".  With a NaN operand, or
\* with zeros of opposite sign, the ISAs legitimately differ (x86 min/max return the
\* second operand, Rust's f32::min the non-NaN one): not judged.
MinMaxDefined(x, y) == Ord(x, y) /\ ~(IsZeroF(x) /\ IsZeroF(y) /\ x # y)
FMin(x, y) == IF Key(x) <= Key(y) THEN x ELSE y
FMax(x, y) == IF Key(x) >= Key(y) THEN x ELSE y

RECURSIVE Log2R(_, _)
Log2R(n, p) == IF n < 2 THEN p ELSE Log2R(n \div 2, p + 1)
Log2(n) == Log2R(n, 0)                       \* floor(log2 n), n >= 1

\* q rounded to nearest, ties to even, where the exact value is q + r / 2^f  (f >= 1).
RoundQ(q, r, f) ==
  LET half == Pow2(f - 1) IN
  IF r > half \/ (r = half /\ q % 2 = 1) THEN q + 1 ELSE q

\* ---- f32 -> integral f32 (round_ties_even); NaN stays NaN (compared as a class)
F32RoundTiesEven(b) ==
  LET e == ExpF(b) m == ManF(b) neg == b < 0 IN
  IF e >= 150 THEN b                           \* |x| >= 2^23, infinities, NaN
  ELSE IF e < 126 THEN SetSign(0, neg)         \* |x| < 0.5
  ELSE IF e = 126 THEN SetSign(IF m = 0 THEN 0 ELSE 1065353216, neg)   \* 0.5 -> 0, (0.5,1) -> 1
  ELSE LET f == 150 - e                        \* fraction bits, 1..23
           sig == 8388608 + m
           q == RoundQ(sig \div Pow2(f), sig % Pow2(f), f)
           top == Pow2(24 - f)                  \* q in [2^(23-f), 2^(24-f)]
       IN IF q = top THEN SetSign((e + 1) * 8388608, neg)
          ELSE SetSign(e * 8388608 + (q - Pow2(23 - f)) * Pow2(f), neg)

\* ---- f32 -> i32.  Judged for |x| < 2^31 only (NaN and out-of-range values differ
\* between ISAs: x86 gives 0x80000000, Rust's `as i32` saturates / gives 0).
ToIntDefined(b) == Abs31(b) < 1325400064       \* 0x4F000000 = 2^31
F32ToI32Trunc(b) ==
  LET e == ExpF(b) sig == 8388608 + ManF(b)
      mag == IF e < 127 THEN 0
             ELSE IF e >= 150 THEN sig * Pow2(e - 150) ELSE sig \div Pow2(150 - e)
  IN IF b < 0 THEN -mag ELSE mag
F32ToI32Round(b) ==
  LET e == ExpF(b) m == ManF(b) sig == 8388608 + m
      mag == IF e < 126 THEN 0
             ELSE IF e = 126 THEN (IF m = 0 THEN 0 ELSE 1)
             ELSE IF e >= 150 THEN sig * Pow2(e - 150)
             ELSE RoundQ(sig \div Pow2(150 - e), sig % Pow2(150 - e), 150 - e)
  IN IF b < 0 THEN -mag ELSE mag

\* ---- i32 -> f32, round to nearest even
I32ToF32(x) ==
  IF x = 0 THEN 0
  ELSE IF x = MinI32 THEN SetSign(158 * 8388608, TRUE)        \* -2^31
  ELSE LET neg == x < 0
           mag == IF neg THEN -x ELSE x
           p == Log2(mag)
       IN IF p <= 23 THEN SetSign((127 + p) * 8388608 + (mag - Pow2(p)) * Pow2(23 - p), neg)
          ELSE LET f == p - 23
                   q == RoundQ(mag \div Pow2(f), mag % Pow2(f), f)
               IN IF q = 16777216 THEN SetSign((128 + p) * 8388608, neg)
                  ELSE SetSign((127 + p) * 8388608 + (q - 8388608), neg)

\* ---- f16 (0..65535) <-> f32
IsNaN16(h) == (h % 32768) > 31744
F16ToF32(h) ==
  LET neg == h >= 32768
      e == (h \div 1024) % 32
      m == h % 1024
  IN IF e = 0
     THEN IF m = 0 THEN SetSign(0, neg)
          ELSE LET p == Log2(m) IN            \* subnormal: m * 2^-24
               SetSign((103 + p) * 8388608 + (m - Pow2(p)) * Pow2(23 - p), neg)
     ELSE IF e = 31
     THEN IF m = 0 THEN SetSign(InfBits, neg)
          ELSE SetSign(InfBits + 4194304, neg)               \* a quiet NaN (NaNs compare as a class)
     ELSE SetSign((e + 112) * 8388608 + m * 8192, neg)

F32ToF16(b) ==
  LET neg == b < 0
      e == ExpF(b)
      m == ManF(b)
      sig == 8388608 + m
      u == e - 127
      mag == IF IsNaN(b) THEN 32256                         \* 0x7E00 (class)
             ELSE IF e = 255 \/ u >= 16 THEN 31744          \* infinity / overflow
             ELSE IF e = 0 THEN 0
             ELSE IF u >= -14
                  THEN (u + 15) * 1024 + (RoundQ(sig \div 8192, sig % 8192, 13) - 1024)
             ELSE LET sh == (-u) - 1 IN                     \* result in units of 2^-24
                  IF sh > 25 THEN 0 ELSE RoundQ(sig \div Pow2(sh), sig % Pow2(sh), sh)
  IN IF neg THEN mag + 32768 ELSE mag
=============================================================================
