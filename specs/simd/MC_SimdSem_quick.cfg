CONSTANT HiSet = {0, 1, 2, 63, 64, 127, 128, 129, 191, 192, 254, 255}
INIT Init
NEXT Next
INVARIANTS Pairs8OK Shifts8OK Grid32OK Shifts32OK Small32OK Mul16OK F16OK CvtOK
CHECK_DEADLOCK FALSE
