------------------------------ MODULE SimdInt ------------------------------
(* Lane semantics of the INTEGER primitives of rten-simd, written from the   *)
(* trait documentation in rten-simd/src/ops.rs (BitOps, NumOps, IntOps,      *)
(* SignedIntOps, Extend, Interleave, Concat, NarrowSaturate, MaskOps).       *)
(*                                                                          *)
(* A lane of element type ty \in {"i8","u8","i16","u16","i32"} is its        *)
(* NUMERIC value (signed for iN, unsigned for uN).  All operators are pure   *)
(* and never leave the range of TLC's 32-bit integers: 32-bit results are    *)
(* computed with explicit overflow tests and 8-bit limbs.                    *)
(*                                                                          *)
(* Readings (weakest reading that is still what the documentation says):     *)
(*  - add/sub/mul/neg/shift_left/sum wrap (ops.rs: "If the sum overflows,    *)
(*    it will wrap"; the crate's own tests expect x.wrapping_mul(y)).         *)
(*  - abs(MIN) is NOT judged: "Compute the absolute value" has no            *)
(*    representable answer there (AbsDefined).                               *)
(*  - shift amounts are only used in 0..bits-1.                              *)
(*  - shift_right is arithmetic for signed, logical for unsigned types.      *)
EXTENDS Integers, Sequences

MinI32 == -2147483647 - 1
MaxI32 == 2147483647

Pow2Tab == <<1, 2, 4, 8, 16, 32, 64, 128, 256, 512, 1024, 2048, 4096, 8192, 16384, 32768,
             65536, 131072, 262144, 524288, 1048576, 2097152, 4194304, 8388608, 16777216,
             33554432, 67108864, 134217728, 268435456, 536870912, 1073741824>>
Pow2(k) == Pow2Tab[k + 1]        \* k \in 0..30

\* Type descriptor: computed once per event, passed to every lane operator as `t`.
Bits(ty) == CASE ty \in {"i8", "u8"} -> 8 [] ty \in {"i16", "u16", "f16"} -> 16 [] ty \in {"i32", "f32"} -> 32
Signed(ty) == ty \in {"i8", "i16", "i32", "f32"}
Lo(ty) == CASE ty = "i8" -> -128 [] ty = "i16" -> -32768 [] ty \in {"i32", "f32"} -> MinI32 [] OTHER -> 0
Hi(ty) == CASE ty = "i8" -> 127 [] ty = "u8" -> 255 [] ty = "i16" -> 32767
            [] ty \in {"u16", "f16"} -> 65535 [] ty \in {"i32", "f32"} -> MaxI32
\* f32 / f16 vectors support the bit-level operations (BitOps) on their bit patterns:
\* f32 patterns are handled as i32, f16 patterns as u16.
TY(ty) == [name |-> ty, bits |-> Bits(ty), signed |-> Signed(ty), lo |-> Lo(ty), hi |-> Hi(ty),
           mod |-> IF Bits(ty) = 32 THEN 0 ELSE Pow2(Bits(ty))]
InRange(t, x) == t.lo <= x /\ x <= t.hi

\* Two's-complement wrap of an integer that fits TLC's ints, for 8/16-bit types.
WrapSmall(t, x) == ((x - t.lo) % t.mod) + t.lo

\* ---- 32-bit wrapping arithmetic without overflowing TLC ----
Add32(x, y) ==
  IF y > 0 /\ x > MaxI32 - y THEN ((x - MaxI32) - 1) + ((y - MaxI32) - 1)
  ELSE IF y < 0 /\ x < MinI32 - y THEN ((x + MaxI32) + 1) + ((y + MaxI32) + 1)
  ELSE x + y
Sub32(x, y) ==
  IF y < 0 /\ x > MaxI32 + y THEN ((x - MaxI32) - 1) - ((y + MaxI32) + 1)
  ELSE IF y > 0 /\ x < MinI32 + y THEN ((x + MaxI32) + 1) - ((y - MaxI32) - 1)
  ELSE x - y

\* Byte i (0..3) of the two's-complement representation (floor div / mod).
Byte(x, i) == (x \div Pow2(8 * i)) % 256
\* Signed 32-bit value from 4 little-endian bytes / from two 16-bit halves.
FromBytes(b0, b1, b2, b3) ==
  b0 + 256 * b1 + 65536 * b2 + 16777216 * (IF b3 >= 128 THEN b3 - 256 ELSE b3)
FromHalves(h, l) == l + 65536 * (IF h >= 32768 THEN h - 65536 ELSE h)
\* (a * b) mod 2^16 for a, b in 0..65535 (partial products stay below 2^24).
M16(a, b) == (a * (b % 256) + ((a * (b \div 256)) % 256) * 256) % 65536
\* Low 32 bits of x * y from the unsigned 16-bit halves of the operands:
\*   xl*yl = t0 + 256*t1 with t0 = xl*(yl mod 256), t1 = xl*(yl div 256)  (both < 2^24)
Mul32H(xl, xh, yl, yh) ==
  LET t1 == xl * (yl \div 256)
      lw == xl * (yl % 256) + (t1 % 256) * 256
  IN FromHalves((lw \div 65536 + t1 \div 256 + M16(xh, yl) + M16(xl, yh)) % 65536, lw % 65536)
Mul32(x, y) == Mul32H(x % 65536, (x \div 65536) % 65536, y % 65536, (y \div 65536) % 65536)

Add(t, x, y) == IF t.bits = 32 THEN Add32(x, y) ELSE WrapSmall(t, x + y)
Sub(t, x, y) == IF t.bits = 32 THEN Sub32(x, y) ELSE WrapSmall(t, x - y)
Mul(t, x, y) ==
  CASE t.bits = 8 -> WrapSmall(t, x * y)
    [] t.bits = 16 -> WrapSmall(t, M16(x % 65536, y % 65536))
    [] t.bits = 32 -> Mul32(x, y)
MulAdd(t, a, b, c) == Add(t, Mul(t, a, b), c)     \* NumOps::mul_add on integers
Neg(t, x) == Sub(t, 0, x)
AbsDefined(t, x) == x # t.lo
Abs(t, x) == IF x < 0 THEN Neg(t, x) ELSE x

Min(x, y) == IF x <= y THEN x ELSE y
Max(x, y) == IF x >= y THEN x ELSE y
Clamp(x, lo, hi) == Min(Max(x, lo), hi)

\* Comparisons give a mask lane: TRUE / FALSE.
Eq(x, y) == x = y
Gt(x, y) == x > y
Ge(x, y) == x >= y
Lt(x, y) == x < y
Le(x, y) == x <= y
Select(x, y, m) == IF m THEN x ELSE y

\* ---- shifts ----
ShlSmall(t, x, k) == WrapSmall(t, x * Pow2(k))
Shl32(x, k) ==
  IF k = 0 THEN x
  ELSE IF k = 31 THEN (IF x % 2 = 1 THEN MinI32 ELSE 0)
  ELSE LET m == 31 - k
           u == x % Pow2(m)
           s == (x \div Pow2(m)) % 2
       IN IF s = 1 THEN ((u * Pow2(k)) - MaxI32) - 1 ELSE u * Pow2(k)
Shl(t, x, k) == IF t.bits = 32 THEN Shl32(x, k) ELSE ShlSmall(t, x, k)
\* floor division = arithmetic shift for signed values, logical for unsigned.
Shr(t, x, k) == IF k = 31 THEN (IF x < 0 THEN -1 ELSE 0) ELSE x \div Pow2(k)

\* ---- bitwise ----
Not(t, x) == IF t.signed THEN (-1) - x ELSE t.hi - x
RECURSIVE BitsOp(_, _, _, _)
\* op: 1 = and, 2 = or, 3 = xor on the low n bits of the two's-complement
\* representations (floor div/mod sign-extend negative values correctly).
BitsOp(op, x, y, n) ==
  IF n = 0 THEN 0
  ELSE LET a == x % 2  b == y % 2
           r == CASE op = 1 -> a * b [] op = 2 -> (IF a + b > 0 THEN 1 ELSE 0) [] op = 3 -> (a + b) % 2
       IN r + 2 * BitsOp(op, x \div 2, y \div 2, n - 1)
\* 4-bit tables of the bitwise definition (constants: evaluated once), used bytewise.
NibTab == [op \in 1..3 |-> [a \in 0..15 |-> [b \in 0..15 |-> BitsOp(op, a, b, 4)]]]
ByteOp(op, a, b) == NibTab[op][a % 16][b % 16] + 16 * NibTab[op][a \div 16][b \div 16]     \* a, b in 0..255
BitOp(t, op, x, y) ==
  CASE t.bits = 8 ->
         LET r == ByteOp(op, x % 256, y % 256) IN IF t.signed /\ r >= 128 THEN r - 256 ELSE r
    [] t.bits = 16 ->
         LET r == ByteOp(op, x % 256, y % 256) + 256 * ByteOp(op, (x \div 256) % 256, (y \div 256) % 256)
         IN IF t.signed /\ r >= 32768 THEN r - 65536 ELSE r
    [] t.bits = 32 ->
         FromBytes(ByteOp(op, Byte(x, 0), Byte(y, 0)), ByteOp(op, Byte(x, 1), Byte(y, 1)),
                   ByteOp(op, Byte(x, 2), Byte(y, 2)), ByteOp(op, Byte(x, 3), Byte(y, 3)))
And(t, x, y) == BitOp(t, 1, x, y)
Or(t, x, y) == BitOp(t, 2, x, y)
Xor(t, x, y) == BitOp(t, 3, x, y)

\* ---- width-changing lanes ----
\* NarrowSaturate: x.clamp(To::MIN, To::MAX) as To   (ops.rs NarrowSaturate doc)
Saturate(to, x) == Clamp(x, to.lo, to.hi)
\* Narrow truncate (crate-private, used by the x86 8-bit mul/shift): low bits.
Truncate(to, x) == WrapSmall(to, x)
\* Extend keeps the numeric value (sign extension for iN, zero extension for uN).
ExtendLane(x) == x

\* ---- whole-vector operations (v = number of lanes, sequences are 1-based) ----
Half(s) == Len(s) \div 2
ExtendLow(a) == [i \in 1..Half(a) |-> a[i]]
ExtendHigh(a) == [i \in 1..Half(a) |-> a[Half(a) + i]]
InterleaveLow(a, b) == [i \in 1..Len(a) |-> IF i % 2 = 1 THEN a[(i + 1) \div 2] ELSE b[i \div 2]]
InterleaveHigh(a, b) ==
  [i \in 1..Len(a) |-> IF i % 2 = 1 THEN a[Half(a) + (i + 1) \div 2] ELSE b[Half(a) + i \div 2]]
ConcatLow(a, b) == [i \in 1..Len(a) |-> IF i <= Half(a) THEN a[i] ELSE b[i - Half(a)]]
ConcatHigh(a, b) == [i \in 1..Len(a) |-> IF i <= Half(a) THEN a[Half(a) + i] ELSE b[i]]
\* narrow_saturate(low, high): narrowed lanes of low followed by those of high.
NarrowSat(to, lo, hi) ==
  [i \in 1..(2 * Len(lo)) |-> Saturate(to, IF i <= Len(lo) THEN lo[i] ELSE hi[i - Len(lo)])]
RECURSIVE SumW(_, _, _)
SumW(t, a, n) == IF n = 0 THEN 0 ELSE Add(t, SumW(t, a, n - 1), a[n])
Sum(t, a) == SumW(t, a, Len(a))
FirstN(v, n) == [i \in 1..v |-> i <= n]
Splat(v, x) == [i \in 1..v |-> x]
MaskAny(m) == \E i \in DOMAIN m : m[i]
MaskAll(m) == \A i \in DOMAIN m : m[i]
MaskAnd(m1, m2) == [i \in DOMAIN m1 |-> m1[i] /\ m2[i]]
=============================================================================
