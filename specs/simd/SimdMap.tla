------------------------------ MODULE SimdMap ------------------------------
(* Chunk / tail schedule of the slice-level helpers of rten-simd and of the   *)
(* SliceWriter-based conversion kernels of rten-vecmath, transcribed from     *)
(*   rten-simd/src/functional.rs   simd_map, simd_apply<UNROLL>                *)
(*   rten-simd/src/iter.rs         Iter::next / tail / fold / fold_unroll,     *)
(*                                 IterPad::next                               *)
(*   rten-simd/src/ops.rs          load_pad, first_n_mask (AVX-512 bit loop)   *)
(*   rten-vecmath/src/convert.rs   F16ToF32 (2 vectors, 1 vector, scalars)     *)
(*   rten-vecmath/src/quantize.rs  Quantize / F32ToF16 (block, scalars)        *)
(* one action per loop iteration.  A slice of length n is processed with       *)
(* vector width v; every load / store is recorded per position.                *)
(*                                                                          *)
(* Contract (the second sentence of property C18 and "all slice lengths"):     *)
(*   InBounds     no position outside 0..n-1 is ever read or written;          *)
(*   MaskedTail   a masked access touches exactly the first `rem` lanes;       *)
(*   ExactlyOnce  at termination every position 0..n-1 has been processed      *)
(*                exactly once (read once; written once by the mapping fns);   *)
(*   CallCount    the user function ran ceil(n / v) times (map-like fns);      *)
(*   WriterSync   the SliceWriter cursor equals the source cursor.             *)
EXTENDS Integers, Sequences, FiniteSets

CONSTANTS Vs,        \* vector widths to explore
          Fns        \* functions to explore

VARIABLES fn, v, n, pc, off, woff, rd, wr, calls

vars == <<fn, v, n, pc, off, woff, rd, wr, calls>>

MaxV == 16
MaxN(w) == 4 * w + 3
\* every position an access could conceivably touch (one unrolled block before / after)
Pos == (0 - MaxV)..(MaxN(MaxV) + 4 * MaxV)

Zero == [p \in Pos |-> 0]
Touch(f, S) == [p \in Pos |-> IF p \in S THEN f[p] + 1 ELSE f[p]]
Span(o, k) == o..(o + k - 1)

\* first_n_mask(k) as the AVX-512 ISA computes it: mask |= 1 << i for i in 0..k
RECURSIVE MaskBits(_)
MaskBits(k) == IF k = 0 THEN 0 ELSE MaskBits(k - 1) + 2 ^ (k - 1)
MaskLanes(k) == {i \in 0..(v - 1) : (MaskBits(k) \div (2 ^ i)) % 2 = 1}
\* positions touched by a masked access at offset o with k valid lanes
Masked(o, k) == {o + i : i \in MaskLanes(k)}

rem == n - off

Init ==
  /\ fn \in Fns /\ v \in Vs /\ n \in 0..MaxN(v)
  /\ pc = "start" /\ off = 0 /\ woff = 0 /\ rd = Zero /\ wr = Zero /\ calls = 0

\* unroll factor of the first phase
Unroll == CASE fn = "simd_apply_2" -> 2 [] fn = "simd_apply_4" -> 4
            [] fn = "fold_unroll_2" -> 2 [] fn = "fold_unroll_4" -> 4 [] OTHER -> 1
Writes == fn \in {"simd_map", "simd_apply_1", "simd_apply_2", "simd_apply_4"}
MapLike == Writes \/ fn \in {"fold", "fold_unroll_2", "fold_unroll_4", "iter_pad"}

\* ---- simd_map / simd_apply / fold / iter_pad: [unrolled blocks] full vectors, masked tail
Block(k) ==      \* k whole vectors at the cursor
  /\ rd' = Touch(rd, Span(off, k * v))
  /\ wr' = IF Writes THEN Touch(wr, Span(off, k * v)) ELSE wr
  /\ off' = off + k * v /\ calls' = calls + k /\ UNCHANGED woff

Start ==
  /\ pc = "start"
  /\ pc' = IF fn \in {"f16_to_f32", "f32_to_f16", "quantize"} THEN "wblock"
           ELSE IF Unroll > 1 THEN "unrolled" ELSE "full"
  /\ UNCHANGED <<off, woff, rd, wr, calls>>

Unrolled ==      \* chunks_exact_mut(v * UNROLL) / split_at_checked(v * UNROLL)
  /\ pc = "unrolled"
  /\ IF rem >= v * Unroll THEN Block(Unroll) /\ pc' = pc
     ELSE pc' = "full" /\ UNCHANGED <<off, woff, rd, wr, calls>>

Full ==          \* while n >= v_len / chunks_exact_mut(v) / split_at_checked(v)
  /\ pc = "full"
  /\ IF rem >= v THEN Block(1) /\ pc' = pc
     ELSE pc' = "tail" /\ UNCHANGED <<off, woff, rd, wr, calls>>

TailStep ==          \* if n > 0 { mask = first_n_mask(n); load_ptr_mask; store_ptr_mask }
  /\ pc = "tail"
  /\ IF rem > 0
     THEN LET k == IF rem < v THEN rem ELSE v IN        \* load_pad: n = xs.len().min(self.len())
          /\ rd' = Touch(rd, Masked(off, k))
          /\ wr' = IF Writes THEN Touch(wr, Masked(off, k)) ELSE wr
          /\ off' = off + k /\ calls' = calls + 1
     ELSE UNCHANGED <<off, rd, wr, calls>>
  /\ pc' = "done" /\ UNCHANGED woff

\* ---- SliceWriter kernels: blocks of B1 elements, then blocks of B2, then scalars.
\* v is the width of the SOURCE vector type.
B1 == CASE fn = "f16_to_f32" -> 2 * v       \* load_many::<2> of f16, write_vecs of 4 f32 vectors
        [] fn = "f32_to_f16" -> 2 * v       \* load_many::<2> of f32, one f16 vector
        [] fn = "quantize" -> 4 * v         \* load_many::<4> of f32, one u8 vector
B2 == IF fn = "f16_to_f32" THEN v ELSE 0    \* one remaining whole f16 vector
WBlockStep(k) ==
  /\ rd' = Touch(rd, Span(off, k)) /\ off' = off + k
  /\ wr' = Touch(wr, Span(woff, k)) /\ woff' = woff + k     \* write_vec(s) advance n_init by what they store
  /\ calls' = calls + 1
WBlock ==
  /\ pc = "wblock"
  /\ IF rem >= B1 THEN WBlockStep(B1) /\ pc' = pc
     ELSE pc' = (IF B2 > 0 THEN "wblock2" ELSE "scalar") /\ UNCHANGED <<off, woff, rd, wr, calls>>
WBlock2 ==
  /\ pc = "wblock2"
  /\ IF rem >= B2 THEN WBlockStep(B2) /\ pc' = pc
     ELSE pc' = "scalar" /\ UNCHANGED <<off, woff, rd, wr, calls>>
Scalar ==        \* for x in remainder { write_scalar(..) }
  /\ pc = "scalar"
  /\ IF rem > 0 THEN WBlockStep(1) /\ pc' = pc
     ELSE pc' = "done" /\ UNCHANGED <<off, woff, rd, wr, calls>>

Next == (Start \/ Unrolled \/ Full \/ TailStep \/ WBlock \/ WBlock2 \/ Scalar) /\ UNCHANGED <<fn, v, n>>
Spec == Init /\ [][Next]_vars /\ WF_vars(Next)

\* ------------------------------------------------------------- invariants
InSlice(p) == 0 <= p /\ p < n
InBounds == \A p \in Pos : (rd[p] > 0 \/ wr[p] > 0) => InSlice(p)
\* (state-independent apart from v: evaluated once per (fn, v, n))
MaskedTail == pc = "start" => \A k \in 0..v : MaskLanes(k) = 0..(k - 1)
WriterSync == woff = 0 \/ woff = off
Monotone == off <= n
IsWriterFn == fn \in {"f16_to_f32", "f32_to_f16", "quantize"}
ExactlyOnce ==
  pc = "done" =>
    /\ off = n
    /\ \A p \in Pos : rd[p] = (IF InSlice(p) THEN 1 ELSE 0)
    /\ (Writes \/ IsWriterFn) => \A p \in Pos : wr[p] = (IF InSlice(p) THEN 1 ELSE 0)
CallCount == (pc = "done" /\ MapLike) => calls = (n + v - 1) \div v
Termination == <>(pc = "done")
=============================================================================
