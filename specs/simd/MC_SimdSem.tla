----------------------------- MODULE MC_SimdSem -----------------------------
(* Model-checks the reference semantics themselves (SimdInt, SimdFloat):      *)
(* independent algebraic characterisations must agree with the definitions    *)
(* for EVERY pair of 8-bit values, every 16-bit value (f16 conversions) and a *)
(* boundary grid of 16/32-bit values.  One state per value of the byte `hi`;  *)
(* each invariant quantifies over the second byte.                            *)
EXTENDS SimdFloat, FiniteSets, TLC

CONSTANT HiSet       \* bytes explored (all of 0..255 in the thorough tier)
VARIABLE hi
Init == hi \in HiSet
Next == UNCHANGED hi

Byte8 == 0..255
I8 == TY("i8")  U8 == TY("u8")  I16 == TY("i16")  U16 == TY("u16")  I32 == TY("i32")
S8(b) == IF b >= 128 THEN b - 256 ELSE b            \* byte -> i8 value

\* ---- 8-bit: every pair (hi, lo), both signednesses
Types8 == {I8, U8}
V8(t, b) == IF t.signed THEN S8(b) ELSE b
Pairs8OK ==
  \A t \in Types8 : \A lo \in Byte8 :
    LET x == V8(t, hi) y == V8(t, lo) IN
    /\ InRange(t, Add(t, x, y)) /\ InRange(t, Mul(t, x, y))
    /\ Sub(t, Add(t, x, y), y) = x                       \* additive group
    /\ Add(t, x, y) = Add(t, y, x) /\ Mul(t, x, y) = Mul(t, y, x)
    /\ (Add(t, x, y) - (x + y)) % 256 = 0                \* congruent to the integer sum / product
    /\ (Mul(t, x, y) - x * y) % 256 = 0
    /\ Or(t, x, y) - And(t, x, y) = Xor(t, x, y)         \* x|y - x&y = x^y
    /\ Add(t, x, y) = Add(t, Xor(t, x, y), Shl(t, And(t, x, y), 1))   \* carry-save identity
    /\ Not(t, And(t, x, y)) = Or(t, Not(t, x), Not(t, y))           \* De Morgan
    /\ Xor(t, x, x) = 0 /\ And(t, x, x) = x /\ Or(t, x, 0) = x
    /\ Min(x, y) + Max(x, y) = x + y
    /\ Neg(t, x) = Add(t, Not(t, x), 1)                   \* two's complement
    /\ \A op \in 1..3 : BitOp(t, op, x, y) = V8(t, BitsOp(op, x, y, 8))     \* table form = bit-serial form
Shifts8OK ==
  \A t \in Types8 : \A k \in 0..7 :
    LET x == V8(t, hi) IN
    /\ Shl(t, x, k) = Mul(t, x, WrapSmall(t, 2 ^ k))
    /\ InRange(t, Shr(t, x, k))
    /\ Shr(t, x, k) * (2 ^ k) <= x /\ x < (Shr(t, x, k) + 1) * (2 ^ k)   \* floor division
    /\ (x >= 0) => Shr(t, Shl(t, Shr(t, x, k), k), k) = Shr(t, x, k)

\* ---- 16/32-bit boundary grid: Add32 / Sub32 / Mul32 / Shl32 against byte-wise definitions
Grid32 == {0, 1, -1, 2, -2, 127, 128, 255, 256, -255, -256, 32767, 32768, -32768, -32769, 65535, 65536, -65536,
           16777215, 16777216, -16777216, 1073741823, 1073741824, -1073741824, MaxI32, MaxI32 - 1, MinI32, MinI32 + 1,
           1431655765, -1431655766, 305419896, -2023406815}
\* x + hi*65793 style offsets make the grid depend on the state so all 256 states add coverage
G32 == {Add32(g, Mul32(hi, 16843009)) : g \in Grid32}
\* independent: byte-wise ripple-carry addition
RippleAdd(x, y) ==
  LET s0 == Byte(x, 0) + Byte(y, 0)
      s1 == Byte(x, 1) + Byte(y, 1) + s0 \div 256
      s2 == Byte(x, 2) + Byte(y, 2) + s1 \div 256
      s3 == Byte(x, 3) + Byte(y, 3) + s2 \div 256
  IN FromBytes(s0 % 256, s1 % 256, s2 % 256, s3 % 256)
Grid32OK ==
  \A x \in G32 : \A y \in G32 :
    /\ Add32(x, y) = RippleAdd(x, y)
    /\ Sub32(Add32(x, y), y) = x
    /\ Sub32(x, y) = Add32(x, Add32(Not(I32, y), 1))
    /\ Mul32(x, y) = Mul32(y, x)
    /\ Mul32(x, Add32(y, 1)) = Add32(Mul32(x, y), x)      \* distributivity step
    /\ Add32(x, y) = Add32(Xor(I32, x, y), Shl32(And(I32, x, y), 1))
    /\ Or(I32, x, y) = Add32(Xor(I32, x, y), And(I32, x, y))
    /\ \A op \in 1..3 : (BitOp(I32, op, x, y) - BitsOp(op, x, y, 31)) \in {0, MinI32}   \* low 31 bits bit-serial
    /\ (BitOp(I32, 3, x, y) < 0) <=> ((x < 0) # (y < 0))
    /\ Mul32(x, y) = FromBytes(Byte(Mul32(x, y), 0), Byte(Mul32(x, y), 1), Byte(Mul32(x, y), 2), Byte(Mul32(x, y), 3))
Shifts32OK ==
  \A x \in G32 : \A k \in 0..31 :
    /\ k <= 30 => Shl32(x, k) = Mul32(x, 2 ^ k)
    /\ k = 31 => Shl32(x, k) = (IF x % 2 = 1 THEN MinI32 ELSE 0)
    /\ Shr(I32, x, k) = (IF k = 31 THEN (IF x < 0 THEN -1 ELSE 0) ELSE x \div (2 ^ k))
Small32OK == \A a \in -40..40 : LET x == a * (hi + 1) y == (hi - 128) * 257 IN Mul32(x, y) = x * y
Mul16OK ==
  \A t \in {I16, U16} : \A y \in {0, 1, 255, 256, 32767, 32768, 65535, 12345, 43690} :
    LET x == IF t.signed THEN WrapSmall(t, hi * 257) ELSE hi * 257
        yy == IF t.signed THEN WrapSmall(t, y) ELSE y IN
    /\ InRange(t, Mul(t, x, yy))
    /\ (Mul(t, x, yy) - Mul32(x, yy)) % 65536 = 0

\* ---- f16 <-> f32: every f16 bit pattern h = hi*256 + lo
F16OK ==
  \A lo \in Byte8 :
    LET h == hi * 256 + lo w == F16ToF32(h) IN
    /\ IsNaN16(h) <=> IsNaN(w)
    /\ ~IsNaN16(h) => F32ToF16(w) = h                     \* exact round trip
    \* the next f32 above an f16 value still rounds back to it; the midpoint to the
    \* next f16 value rounds to the even one
    /\ (~IsNaN16(h) /\ (h % 32768) < 31743) =>
         LET w2 == F16ToF32(h + 1)
             mid == SetSign(Abs31(w) + (Abs31(w2) - Abs31(w)) \div 2, h >= 32768) IN
         /\ F32ToF16(SetSign(Abs31(w) + 1, h >= 32768)) = h
         /\ F32ToF16(mid) = (IF h % 2 = 0 THEN h ELSE h + 1)
\* ---- i32 <-> f32
CvtOK ==
  \A lo \in Byte8 :
    LET x == (hi * 256 + lo) * 251 - 8000000 IN            \* |x| < 2^24: exactly representable
    /\ F32ToI32Trunc(I32ToF32(x)) = x /\ F32ToI32Round(I32ToF32(x)) = x
    /\ F32RoundTiesEven(I32ToF32(x)) = I32ToF32(x)
    /\ (x < 8000000 - 251) => FLt(I32ToF32(x), I32ToF32(x + 251))
    /\ FNeg(I32ToF32(x)) = (IF x = 0 THEN MinI32 ELSE I32ToF32(-x))
    \* halves: x + 0.5 rounds to the even neighbour (|x| < 2^22 so x + 0.5 is representable)
    /\ (x >= 0 /\ x < 4194304) =>
         LET half == IF x = 0 THEN 1056964608                        \* 0.5
                     ELSE LET p == Log2(x) IN (127 + p) * 8388608 + (x - Pow2(p)) * Pow2(23 - p) + Pow2(22 - p)
         IN /\ F32ToI32Round(half) = (IF x % 2 = 0 THEN x ELSE x + 1)
            /\ F32ToI32Trunc(half) = x
            /\ F32RoundTiesEven(half) = I32ToF32(IF x % 2 = 0 THEN x ELSE x + 1)
=============================================================================
