----------------------------- MODULE FusionRules -----------------------------
(* Implementation-shaped model of the EXACT-family graph rewrites of rten's     *)
(* optimizer (src/optimize.rs, src/optimize/fusions.rs, pattern_matcher.rs).     *)
(* Each rule is a transcription of the fusion's MATCH CONDITIONS as the code     *)
(* evaluates them - in particular a constant is "scalar" exactly when            *)
(* ConstantPattern::matches / Graph::get_scalar_operand say so: a float tensor    *)
(* with exactly ONE ELEMENT (TensorBase::item()) that has rank 0 or whose        *)
(* consumer has another operand of KNOWN rank >= the constant's rank              *)
(* (pattern_matcher.rs broadcasts_as_scalar, since fix f0025e4; before that any   *)
(* rank was accepted, which this model reported as the const_r* candidates).      *)
(*                                                                             *)
(* Graphs are GraphEval graphs; the denotation of the fused operators            *)
(* (FusedMatMul, Reciprocal, RepeatInterleave, ReduceMean with an `axes`          *)
(* attribute, the constant of ShapeSliceToConstant) follows the documentation of  *)
(* the rten operators (src/ops/matmul.rs FusedMatMul: bias is a row vector of     *)
(* length N, gemm rejects another length; src/ops/attention.rs RepeatInterleave   *)
(* = torch.repeat_interleave).                                                  *)
(*                                                                             *)
(* State machine: Seed -> PickBucket -> PickGraph -> Apply<Rule>* -> Done.       *)
(* One Apply step = the first fusion (in the optimizer's visitor order) that      *)
(* matches at the node closest to the outputs, guarded like apply_fusion (no      *)
(* intermediate of the fused subgraph is a graph output or has another            *)
(* consumer).  Invariant Sound: at Done, GraphDenote(rewritten) =                 *)
(* GraphDenote(original) (status, shapes, dtypes AND data).  The pinned tree      *)
(* violates it; every violating graph is printed as a CANDIDATE (a complete       *)
(* model + inputs) which the engine replays on the real code through vh-opt and   *)
(* Trace_Optimize - only a candidate confirmed there counts (DESIGN 2.3 rule 3). *)
EXTENDS GraphEval, Json

CONSTANTS Families,      \* subset of {"identity", "recip", "cast", "matmuladd", "matmulscale", "repint", "reducemean", "shapeslice"}
          Depth2         \* TRUE: identity family also enumerates chains of two identity-shaped operators

VARIABLES phase, p, g, fired, nxt

vars == <<phase, p, g, fired, nxt>>

---------------------------------------------------------------------------
\* Graph construction helpers
NA == <<>>                                               \* no attributes
Nd(op, ins, outs, attrs) == [op |-> op, ins |-> ins, outs |-> outs, attrs |-> attrs]
Tn(name, dtype, shape, data) == [name |-> name, shape |-> shape, dtype |-> dtype, data |-> data, nonint |-> 0]
Iota1(n) == [i \in 1..n |-> i]
XData(shape, mult) == [i \in 1..Prod(shape) |-> mult * i]

CS == << <<>>, <<1>>, <<1, 1>>, <<2>> >>                  \* constant shapes
CV == <<0, 1, 2, -1>>                                     \* constant values
XS == << <<2>>, <<1, 2>>, <<2, 1>> >>                     \* input shapes
XS4 == << <<2>>, <<1, 2>>, <<2, 1>>, <<2, 2>> >>
Fill(shape, v) == [i \in 1..Prod(shape) |-> v]
BinOps == <<"Add", "Sub", "Mul", "Div">>

NoP == [fam |-> "", xs |-> 0, a |-> 0, b |-> 0, c |-> 0, d |-> 0, e |-> 0, f |-> 0]
NoG == [nodes |-> <<>>, inits |-> <<>>, feeds |-> <<>>, outputs |-> <<>>]

Bin(op, x, c, ord, out) == IF ord = 0 THEN Nd(op, <<x, c>>, <<out>>, NA) ELSE Nd(op, <<c, x>>, <<out>>, NA)

\* Parameter spaces (homogeneous records so that TLC can put them in sets)
P(fam, xs, a, b, c, d, e, f) == [fam |-> fam, xs |-> xs, a |-> a, b |-> b, c |-> c, d |-> d, e |-> e, f |-> f]
Buckets == {<<fam, xs>> : fam \in Families, xs \in 1..4}
Params(fam, xs) ==
  CASE fam = "identity" ->
         IF xs > 3 THEN {} ELSE
         {P(fam, xs, a, b, c, d, 0, 0) : a \in 1..4, b \in 1..4, c \in 1..4, d \in 0..1}
         \cup (IF Depth2 THEN {P(fam, xs, a, b, c, d, e, f) : a \in 1..4, b \in 1..4, c \in 1..2, d \in 0..1, e \in 1..4, f \in 1..16}
               ELSE {})
    [] fam = "recip" -> IF xs > 3 THEN {} ELSE {P(fam, xs, a, b, 0, 0, 0, 0) : a \in 1..4, b \in 1..4}
    [] fam = "cast" -> IF xs > 3 THEN {} ELSE {P(fam, xs, a, b, c, 0, 0, 0) : a \in 1..2, b \in 1..3, c \in 0..1}
    \* e = 1: near miss Sub instead of Add (never fused)
    [] fam = "matmuladd" -> {P(fam, xs, a, b, c, d, e, 0) : a \in 1..4, b \in 1..6, c \in 0..1, d \in 0..1, e \in 0..1}
    \* d = 4: near miss c / x (scalar divided BY the tensor: not a scaling); f = 1: near miss, the first
    \* intermediate of the pattern is also a graph output (apply_fusion guard)
    [] fam = "matmulscale" -> {P(fam, xs, a, b, c, d, e, f) : a \in 1..4, b \in 1..4, c \in 1..7, d \in 1..4, e \in 1..2, f \in 0..1}
    [] fam = "repint" -> {P(fam, xs, a, b, c, d, 0, 0) : a \in 0..Len(XS4[xs]), b \in 0..1, c \in 0..(Len(XS4[xs]) - 1), d \in 0..1}
    [] fam = "reducemean" -> {P(fam, xs, a, b, c, 0, 0, 0) : a \in 1..4, b \in 0..1, c \in 0..2}
    \* c = 1: near miss with an explicit `axes` input (the pattern has exactly three inputs)
    [] fam = "shapeslice" -> {P(fam, xs, a, b, c, 0, 0, 0) : a \in 0..8, b \in 0..8, c \in 0..1}

MMB == << <<2>>, <<2, 1>>, <<1, 2>>, <<2, 2>> >>          \* right-hand MatMul operand shapes
MMA == << <<2>>, <<1, 2>>, <<2, 1>>, <<2, 2>> >>          \* left-hand shapes
BiasS == << <<>>, <<1>>, <<1, 1>>, <<2>>, <<1, 2>>, <<2, 1>> >>

Build(q) ==
  CASE q.fam = "identity" ->
         LET x == Tn("x", "f32", XS[q.xs], XData(XS[q.xs], 1))
             c1 == Tn("c1", "f32", CS[q.b], Fill(CS[q.b], CV[q.c]))
             n1 == Bin(BinOps[q.a], "x", "c1", q.d, IF q.e = 0 THEN "y" ELSE "t1")
         IN IF q.e = 0 THEN [nodes |-> <<n1>>, inits |-> <<c1>>, feeds |-> <<x>>, outputs |-> <<"y">>]
            ELSE LET k == q.f - 1
                     cs2 == CS[(k % 4) + 1] cv2 == CV[((k \div 4) % 2) + 1] ord2 == (k \div 8) % 2
                     c2 == Tn("c2", "f32", cs2, Fill(cs2, cv2))
                 IN [nodes |-> <<n1, Bin(BinOps[q.e], "t1", "c2", ord2, "y")>>, inits |-> <<c1, c2>>, feeds |-> <<x>>, outputs |-> <<"y">>]
    [] q.fam = "recip" ->
         \* data 1 / -1 so that 1/x is an integer
         LET x == Tn("x", "f32", XS[q.xs], [i \in 1..Prod(XS[q.xs]) |-> IF i % 2 = 1 THEN 1 ELSE -1])
             c1 == Tn("c1", "f32", CS[q.a], Fill(CS[q.a], CV[q.b]))
         IN [nodes |-> <<Nd("Div", <<"c1", "x">>, <<"y">>, NA)>>, inits |-> <<c1>>, feeds |-> <<x>>, outputs |-> <<"y">>]
    [] q.fam = "cast" ->
         LET dt == IF q.a = 1 THEN "f32" ELSE "i32"
             to == <<1, 6, 7>>[q.b]
             x == Tn("x", dt, XS[q.xs], XData(XS[q.xs], 1))
         IN IF q.c = 0
            THEN [nodes |-> <<Nd("Cast", <<"x">>, <<"y">>, "to" :> <<to>>)>>, inits |-> <<>>, feeds |-> <<x>>, outputs |-> <<"y">>]
            ELSE [nodes |-> <<Nd("Neg", <<"x">>, <<"t1">>, NA), Nd("Cast", <<"t1">>, <<"y">>, "to" :> <<to>>)>>,
                  inits |-> <<>>, feeds |-> <<x>>, outputs |-> <<"y">>]
    [] q.fam = "matmuladd" ->
         LET ash == MMA[q.xs] bsh == MMB[q.a]
             x == Tn("x", "f32", ash, XData(ash, 1))
             w == Tn("w", "f32", bsh, XData(bsh, 1))
             bias == Tn("c1", "f32", BiasS[q.b], XData(BiasS[q.b], 10))
         IN [nodes |-> <<Nd("MatMul", <<"x", "w">>, <<"t1">>, NA), Bin(IF q.e = 1 THEN "Sub" ELSE "Add", "t1", "c1", q.d, "y")>>,
             inits |-> <<w, bias>>, feeds |-> <<x>>,
             outputs |-> IF q.c = 1 THEN <<"y", "t1">> ELSE <<"y">>]
    [] q.fam = "matmulscale" ->
         LET ash == MMA[q.xs] bsh == MMB[q.a]
             x == Tn("x", "f32", ash, XData(ash, 4))
             cs == CS[q.b]
             \* (c / x uses a constant every data value divides, so that the original stays exact)
             sc == Tn("c1", "f32", cs, Fill(cs, IF q.d = 4 THEN (IF q.e = 1 THEN 48 ELSE 96) ELSE IF q.e = 1 THEN 2 ELSE 4))
             Sc(v, out) == CASE q.d = 1 -> Nd("Mul", <<v, "c1">>, <<out>>, NA)
                             [] q.d = 2 -> Nd("Mul", <<"c1", v>>, <<out>>, NA)
                             [] q.d = 3 -> Nd("Div", <<v, "c1">>, <<out>>, NA)
                             [] q.d = 4 -> Nd("Div", <<"c1", v>>, <<out>>, NA)
             L == q.c % 2 = 1  R == (q.c \div 2) % 2 = 1  O == q.c \div 4 = 1
             pre == (IF L THEN <<Sc("x", "t1")>> ELSE <<>>) \o (IF R THEN <<Sc("w2", "t2")>> ELSE <<>>)
             mm == Nd("MatMul", <<IF L THEN "t1" ELSE "x", IF R THEN "t2" ELSE "w2">>, <<IF O THEN "t3" ELSE "y">>, NA)
             post == IF O THEN <<Sc("t3", "y")>> ELSE <<>>
             \* the right operand is a second graph input so that its scaling is not constant-folded
             w2 == Tn("w2", "f32", bsh, XData(bsh, 4))
             nodes == pre \o <<mm>> \o post
         IN [nodes |-> nodes, inits |-> <<sc>>, feeds |-> <<x, w2>>,
             outputs |-> IF q.f = 1 /\ Len(nodes) >= 2 THEN <<"y", nodes[1].outs[1]>> ELSE <<"y">>]
    [] q.fam = "repint" ->
         LET xsh == XS4[q.xs] r == Len(xsh)
             x == Tn("x", "f32", xsh, XData(xsh, 1))
             uax == q.a                                           \* 0-based position of the new axis
             esh == InsertAt(xsh, uax + 1, 2)                       \* shape after Expand (2 repeats)
             es == IF q.b = 0 THEN esh ELSE [i \in 1..(r + 1) |-> IF i = uax + 1 THEN 2 ELSE 1]
             osh == [i \in 1..r |-> IF i = q.c + 1 THEN 2 * xsh[i] ELSE xsh[i]]
         IN [nodes |-> <<Nd("Unsqueeze", <<"x", "c1">>, <<"t1">>, NA), Nd("Expand", <<"t1", "c2">>, <<"t2">>, NA),
                         Nd("Reshape", <<"t2", "c3">>, <<"y">>, NA)>>,
             inits |-> <<Tn("c1", "i32", <<1>>, <<uax>>), Tn("c2", "i32", <<r + 1>>, es), Tn("c3", "i32", <<r>>, osh)>>,
             feeds |-> <<x>>, outputs |-> IF q.d = 1 THEN <<"y", "t2">> ELSE <<"y">>]
    [] q.fam = "reducemean" ->
         LET xsh == << <<2>>, <<1, 2>>, <<2, 1>>, <<2, 2>> >>[q.xs]
             x == Tn("x", "f32", xsh, XData(xsh, 4))
             ax == << <<>>, <<0>>, <<-1>>, <<0, -1>> >>[q.a]
             at == ("keepdims" :> <<q.b>>) @@ (IF q.c = 2 THEN <<>> ELSE ("noop_with_empty_axes" :> <<q.c>>))
         IN [nodes |-> <<Nd("ReduceMean", <<"x", "c1">>, <<"y">>, at)>>,
             inits |-> <<Tn("c1", "i32", <<Len(ax)>>, ax)>>, feeds |-> <<x>>, outputs |-> <<"y">>]
    [] q.fam = "shapeslice" ->
         LET xsh == << <<2>>, <<1, 2>>, <<2, 1>>, <<2, 2, 3>> >>[q.xs]
             x == Tn("x", "f32", xsh, XData(xsh, 1))
         IN [nodes |-> <<Nd("Shape", <<"x">>, <<"t1">>, NA),
                         Nd("Slice", IF q.c = 1 THEN <<"t1", "c1", "c2", "c3">> ELSE <<"t1", "c1", "c2">>, <<"y">>, NA)>>,
             inits |-> <<Tn("c1", "i32", <<1>>, <<q.a - 4>>), Tn("c2", "i32", <<1>>, <<q.b - 4>>), Tn("c3", "i32", <<1>>, <<0>>)>>,
             feeds |-> <<x>>, outputs |-> <<"y">>]

---------------------------------------------------------------------------
\* Denotation including the fused operators
FusedEval(n, ins) ==
  LET T(k) == TensorOf(ins[k]) IN
  CASE n.op = "Reciprocal" ->
         IF T(1).dtype = "f32" /\ \A k \in 1..Len(T(1).data) : T(1).data[k] \in {1, -1} THEN Ok1(T(1)) ELSE Undefined
    [] n.op = "FusedMatMul" ->
         \* alpha = an/ad (rational); optional third input: bias, fused as a row vector when b is a
         \* matrix with as many columns, otherwise added with broadcasting (src/ops/matmul.rs)
         LET a == T(1) b == T(2)
             an == AOpt(n.attrs, "alpha_n", 1) ad == AOpt(n.attrs, "alpha_d", 1)
         IN IF ~(DefMatMul(a, b) /\ a.dtype = b.dtype) THEN Undefined ELSE
            LET r == OnnxMatMul(a, b)
                scaled == IF \A k \in 1..Len(r.data) : (an * r.data[k]) % ad = 0
                          THEN [st |-> "ok", t |-> MapT(LAMBDA v : (an * v) \div ad, r, r.dtype)]
                          ELSE [st |-> "inexact", t |-> r]
            IN IF scaled.st # "ok" THEN Undefined
               ELSE IF Len(ins) < 3 \/ ~ins[3].p THEN Ok1(scaled.t)
               ELSE LET bias == T(3) IN
                    IF Rank(bias) = 1 /\ Broadcastable(scaled.t.shape, bias.shape) THEN Ok1(OnnxAdd(scaled.t, bias))
                    ELSE Undefined
    [] n.op = "RepeatInterleave" ->
         LET t == T(1) axis == AOpt(n.attrs, "axis", 0) reps == AOpt(n.attrs, "repeats", 1)
             os == [i \in 1..Rank(t) |-> IF i = axis + 1 THEN t.shape[i] * reps ELSE t.shape[i]]
             F(idx) == At(t, [i \in 1..Len(idx) |-> IF i = axis + 1 THEN idx[i] \div reps ELSE idx[i]])
         IN IF axis >= Rank(t) THEN Undefined ELSE Ok1(FromFn(os, t.dtype, F))
    [] n.op = "ReduceMeanAttr" ->
         \* rten ReduceMean { axes: Some(v), keep_dims, noop_with_empty_axes }
         LET t == T(1) v == AOpt(n.attrs, "axes", <<>>) keep == AOpt(n.attrs, "keepdims", 1) = 1
             noop == AOpt(n.attrs, "noop_with_empty_axes", 0) = 1
             axes == IF v = <<>> THEN Iota(Rank(t)) ELSE v
         IN IF v = <<>> /\ noop THEN Ok1(t)
            ELSE IF DefReduce("ReduceMean", t, axes, keep) THEN Checked(OnnxReduce("ReduceMean", t, axes, keep)) ELSE Undefined
    [] OTHER -> NodeEval(n, ins)

RECURSIVE EvalNodesF(_, _, _)
EvalNodesF(nodes, i, s) ==
  IF i > Len(nodes) \/ s.st # "ok" THEN s
  ELSE LET n == nodes[i]
           unbound == \E k \in 1..Len(n.ins) : n.ins[k] # "" /\ n.ins[k] \notin DOMAIN s.env
       IN IF unbound THEN [s EXCEPT !.st = "unbound"]
          ELSE LET ins == [k \in 1..Len(n.ins) |-> IF n.ins[k] = "" THEN AbsentIn ELSE AsIn(s.env[n.ins[k]])]
                   r == FusedEval(n, ins)
               IN IF r.st # "ok" THEN [s EXCEPT !.st = r.st]
                  ELSE EvalNodesF(nodes, i + 1, [s EXCEPT !.env = (n.outs[1] :> r.outs[1]) @@ @])

StateOf(gr) == EvalNodesF(gr.nodes, 1, [st |-> "ok", env |-> BindAll(BindAll(<<>>, gr.inits, 1), gr.feeds, 1)])
Denote(gr) ==
  LET s == StateOf(gr) IN
  IF s.st # "ok" THEN [st |-> s.st, outs |-> <<>>]
  ELSE IF \E k \in 1..Len(gr.outputs) : gr.outputs[k] \notin DOMAIN s.env THEN [st |-> "unbound", outs |-> <<>>]
  ELSE [st |-> "ok", outs |-> [k \in 1..Len(gr.outputs) |-> s.env[gr.outputs[k]]]]

---------------------------------------------------------------------------
\* Graph queries as the fusions use them
RangeS(sq) == {sq[i] : i \in DOMAIN sq}
InitNames(gr) == {gr.inits[i].name : i \in 1..Len(gr.inits)}
IsConst(gr, v) == v \in InitNames(gr)
ConstOf(gr, v) == LET i == CHOOSE i \in 1..Len(gr.inits) : gr.inits[i].name = v IN gr.inits[i]
\* Graph::get_scalar_operand::<f32> / ConstantPattern::matches: a float constant with exactly one
\* element which, if its rank is > 0, is consumed together with another operand of known rank >= its
\* own (broadcasts_as_scalar); `others` = the other operands of the consuming operator.
IsOneF(gr, v) == IsConst(gr, v) /\ ConstOf(gr, v).dtype = "f32" /\ Len(ConstOf(gr, v).data) = 1
ScalarVal(gr, v) == ConstOf(gr, v).data[1]
ProducerIdx(gr, v) == IF \E i \in 1..Len(gr.nodes) : v \in RangeS(gr.nodes[i].outs)
                      THEN CHOOSE i \in 1..Len(gr.nodes) : v \in RangeS(gr.nodes[i].outs) ELSE 0
Consumers(gr, v) == {i \in 1..Len(gr.nodes) : v \in RangeS(gr.nodes[i].ins)}
IsOutput(gr, v) == v \in RangeS(gr.outputs)
\* apply_fusion guard: intermediates (outputs of removed nodes other than the final outputs) must
\* have no consumer outside the removed set and must not be graph outputs
GuardOk(gr, removed, finalOuts) ==
  \A i \in removed : \A v \in RangeS(gr.nodes[i].outs) \ finalOuts :
      ~IsOutput(gr, v) /\ Consumers(gr, v) \subseteq removed
\* shape / dtype of a value "as shape inference knows it" (the model assumes inference on and exact)
ShapeOf(gr, v) == StateOf(gr).env[v].shape
DTypeOf(gr, v) == StateOf(gr).env[v].dtype
Known(gr, v) == StateOf(gr).st = "ok" /\ v \in DOMAIN StateOf(gr).env
BroadcastsAsScalar(gr, ndim, others) ==
  ndim = 0 \/ \E o \in others : Known(gr, o) /\ Len(ShapeOf(gr, o)) >= ndim
IsScalarF(gr, v, others) == IsOneF(gr, v) /\ BroadcastsAsScalar(gr, Len(ConstOf(gr, v).shape), others \ {v})
ConstIs(gr, v, val, others) == IsScalarF(gr, v, others) /\ ScalarVal(gr, v) = val

\* Graph surgery
\* replace node `at` by `new` (a sequence of nodes), dropping the other nodes in `removed`
Splice(gr, removed, at, new) ==
  LET F[i \in 0..Len(gr.nodes)] ==
        IF i = 0 THEN <<>>
        ELSE IF i = at THEN F[i - 1] \o new
        ELSE IF i \in removed THEN F[i - 1]
        ELSE Append(F[i - 1], gr.nodes[i])
  IN [gr EXCEPT !.nodes = F[Len(gr.nodes)]]
RenameIn(gr, old, new) ==
  [gr EXCEPT !.nodes = [i \in 1..Len(gr.nodes) |->
                          [gr.nodes[i] EXCEPT !.ins = [k \in 1..Len(@) |-> IF @[k] = old THEN new ELSE @[k]]]]]
\* Fusion::Identity { input_id, output_id } (optimize.rs:294)
ApplyIdentityFusion(gr, at, x) ==
  LET y == gr.nodes[at].outs[1] IN
  IF IsOutput(gr, y) THEN Splice(gr, {at}, at, <<Nd("Identity", <<x>>, <<y>>, NA)>>)
  ELSE RenameIn(Splice(gr, {at}, at, <<>>), y, x)
AddInit(gr, t) == [gr EXCEPT !.inits = Append(@, t)]

---------------------------------------------------------------------------
\* The rules.  Each returns [ok |-> FALSE] or [ok |-> TRUE, g |-> rewritten graph].
No == [ok |-> FALSE, g |-> NoG]
Yes(gr) == [ok |-> TRUE, g |-> gr]

\* IdentityFusion (fusions.rs:433): Identity(x), x + 0, x - 0, x * 1, x / 1; Add and Mul commutative
IdentityRule(gr, at) ==
  LET n == gr.nodes[at] IN
  IF Len(n.outs) # 1 THEN No
  \* (Identity(x) feeding a graph output is "fused" into the same Identity node again by the code: no change)
  ELSE IF n.op = "Identity" THEN (IF IsOutput(gr, n.outs[1]) THEN No ELSE Yes(ApplyIdentityFusion(gr, at, n.ins[1])))
  ELSE IF n.op \in {"Add", "Sub", "Mul", "Div"} /\ Len(n.ins) = 2 THEN
         LET unit == IF n.op \in {"Add", "Sub"} THEN 0 ELSE 1 IN
         IF ConstIs(gr, n.ins[2], unit, {n.ins[1]}) THEN Yes(ApplyIdentityFusion(gr, at, n.ins[1]))
         ELSE IF n.op \in {"Add", "Mul"} /\ ConstIs(gr, n.ins[1], unit, {n.ins[2]}) THEN Yes(ApplyIdentityFusion(gr, at, n.ins[2]))
         ELSE No
  ELSE No

\* CastElimination (fusions.rs:487): input dtype known and equal to the target
CastRule(gr, at) ==
  LET n == gr.nodes[at] IN
  IF n.op # "Cast" \/ ~AHas(n.attrs, "to") \/ ~Known(gr, n.ins[1]) THEN No
  ELSE IF DTypeOf(gr, n.ins[1]) = CastTarget(n.attrs["to"][1]) THEN Yes(ApplyIdentityFusion(gr, at, n.ins[1]))
  ELSE No

\* ReciprocalFusion (fusions.rs:349): 1. / x
ReciprocalRule(gr, at) ==
  LET n == gr.nodes[at] IN
  IF n.op = "Div" /\ Len(n.ins) = 2 /\ ConstIs(gr, n.ins[1], 1, {n.ins[2]}) THEN Yes(Splice(gr, {at}, at, <<Nd("Reciprocal", <<n.ins[2]>>, n.outs, NA)>>))
  ELSE No

\* ReduceMeanAxesFusion (fusions.rs:372): ReduceMean(x, axes const vector) -> ReduceMean<axes>(x),
\* keep_dims and noop_with_empty_axes copied (the latter since fix 2156f65; it was `false` before,
\* which this model reported as candidates mc_reducemean/empty_axes_noop1)
ReduceMeanRule(gr, at) ==
  LET n == gr.nodes[at] IN
  IF n.op = "ReduceMean" /\ Len(n.ins) = 2 /\ IsConst(gr, n.ins[2]) /\ Len(ConstOf(gr, n.ins[2]).shape) = 1
     /\ ConstOf(gr, n.ins[2]).dtype = "i32"
  THEN Yes(Splice(gr, {at}, at, <<Nd("ReduceMeanAttr", <<n.ins[1]>>, n.outs,
                                      ("axes" :> <<ConstOf(gr, n.ins[2]).data>>) @@ ("keepdims" :> <<AOpt(n.attrs, "keepdims", 1)>>)
                                      @@ ("noop_with_empty_axes" :> <<AOpt(n.attrs, "noop_with_empty_axes", 0)>>))>>))
  ELSE No

\* MatMulAddFusion: Add(MatMul(a, b), bias) either way round, bias a constant of rank 1 whose length
\* equals the number of columns of b when b's shape is known (b a matrix; since fix 2e97826)
MatMulAddRule(gr, at) ==
  LET n == gr.nodes[at]
      Try(mmv, biasv) ==
        LET pi == ProducerIdx(gr, mmv) IN
        IF pi # 0 /\ gr.nodes[pi].op = "MatMul" /\ Len(gr.nodes[pi].ins) = 2 /\ IsConst(gr, biasv)
           /\ Len(ConstOf(gr, biasv).shape) = 1
           /\ (Known(gr, gr.nodes[pi].ins[2]) =>
                 LET bs == ShapeOf(gr, gr.nodes[pi].ins[2]) IN Len(bs) >= 2 /\ bs[Len(bs)] = ConstOf(gr, biasv).shape[1])
           /\ GuardOk(gr, {pi, at}, RangeS(n.outs))
        THEN Yes(Splice(gr, {pi, at}, at, <<Nd("FusedMatMul", <<gr.nodes[pi].ins[1], gr.nodes[pi].ins[2], biasv>>, n.outs, NA)>>))
        ELSE No
  IN IF n.op # "Add" \/ Len(n.ins) # 2 THEN No
     ELSE IF Try(n.ins[1], n.ins[2]).ok THEN Try(n.ins[1], n.ins[2]) ELSE Try(n.ins[2], n.ins[1])

\* MatMulScaleFusion (fusions.rs:855).  Scale factors are rationals [n, d].
ScaleOf(gr, n) ==      \* get_scale_factor: [ok, sn, sd, input]
  IF n.op \notin {"Mul", "Div"} \/ Len(n.ins) # 2 THEN [ok |-> FALSE, sn |-> 1, sd |-> 1, input |-> ""]
  ELSE LET l == IsScalarF(gr, n.ins[1], {n.ins[2]}) r == IsScalarF(gr, n.ins[2], {n.ins[1]}) IN
       IF n.op = "Mul" /\ l /\ ~r THEN [ok |-> TRUE, sn |-> ScalarVal(gr, n.ins[1]), sd |-> 1, input |-> n.ins[2]]
       ELSE IF n.op = "Mul" /\ ~l /\ r THEN [ok |-> TRUE, sn |-> ScalarVal(gr, n.ins[2]), sd |-> 1, input |-> n.ins[1]]
       ELSE IF n.op = "Div" /\ ~l /\ r /\ ScalarVal(gr, n.ins[2]) # 0
            THEN [ok |-> TRUE, sn |-> 1, sd |-> ScalarVal(gr, n.ins[2]), input |-> n.ins[1]]
       ELSE [ok |-> FALSE, sn |-> 1, sd |-> 1, input |-> ""]
MatMulScaleRule(gr, at) ==
  LET n == gr.nodes[at]
      post == IF n.op \in {"Mul", "Div"} THEN ScaleOf(gr, n) ELSE [ok |-> TRUE, sn |-> 1, sd |-> 1, input |-> ""]
      mi == IF n.op \in {"Mul", "Div"} THEN (IF post.ok THEN ProducerIdx(gr, post.input) ELSE 0) ELSE at
  IN IF ~post.ok \/ mi = 0 THEN No
     ELSE LET mm == gr.nodes[mi] IN
     IF mm.op # "MatMul" \/ Len(mm.ins) # 2 THEN No ELSE
     LET li == ProducerIdx(gr, mm.ins[1]) ri == ProducerIdx(gr, mm.ins[2])
         ls == IF li # 0 THEN ScaleOf(gr, gr.nodes[li]) ELSE [ok |-> FALSE, sn |-> 1, sd |-> 1, input |-> ""]
         rs == IF ri # 0 THEN ScaleOf(gr, gr.nodes[ri]) ELSE [ok |-> FALSE, sn |-> 1, sd |-> 1, input |-> ""]
         lin == IF ls.ok THEN ls.input ELSE mm.ins[1]
         rin == IF rs.ok THEN rs.input ELSE mm.ins[2]
         an == post.sn * (IF ls.ok THEN ls.sn ELSE 1) * (IF rs.ok THEN rs.sn ELSE 1)
         ad == post.sd * (IF ls.ok THEN ls.sd ELSE 1) * (IF rs.ok THEN rs.sd ELSE 1)
         removed == {at, mi} \cup (IF ls.ok THEN {li} ELSE {}) \cup (IF rs.ok THEN {ri} ELSE {})
     IN IF an = ad THEN No                                  \* alpha == 1.0: NoEffect
        ELSE IF ~GuardOk(gr, removed, RangeS(n.outs)) THEN No
        ELSE Yes(Splice(gr, removed, at, <<Nd("FusedMatMul", <<lin, rin>>, n.outs, ("alpha_n" :> <<an>>) @@ ("alpha_d" :> <<ad>>))>>))

\* RepeatInterleaveFusion: Reshape(Expand(Unsqueeze(x, axes const), *), *): exactly one axis of x is
\* enlarged by an integer factor, the Unsqueeze inserts its single new axis directly after it and the
\* Expand output is x's shape with `repeats` at the new axis (since fix 5deb06d; before only the shapes
\* of x and of the Reshape output were examined: candidates tile / cross_axis)
RepeatInterleaveRule(gr, at) ==
  LET n == gr.nodes[at] IN
  IF n.op # "Reshape" \/ Len(n.ins) # 2 THEN No ELSE
  LET ei == ProducerIdx(gr, n.ins[1]) IN
  IF ei = 0 \/ gr.nodes[ei].op # "Expand" \/ Len(gr.nodes[ei].ins) # 2 THEN No ELSE
  LET ui == ProducerIdx(gr, gr.nodes[ei].ins[1]) IN
  IF ui = 0 \/ gr.nodes[ui].op # "Unsqueeze" \/ Len(gr.nodes[ui].ins) # 2 \/ ~IsConst(gr, gr.nodes[ui].ins[2]) THEN No ELSE
  LET x == gr.nodes[ui].ins[1] y == n.outs[1] IN
  IF ~Known(gr, x) \/ ~Known(gr, y) THEN No ELSE
  LET is == ShapeOf(gr, x) os == ShapeOf(gr, y)
      diff == {i \in 1..Len(is) : is[i] # os[i]}
  IN IF Len(is) # Len(os) \/ Cardinality(diff) # 1 THEN No
     ELSE LET i == CHOOSE i \in diff : TRUE IN
          LET axc == ConstOf(gr, gr.nodes[ui].ins[2])
              newax == IF axc.data[1] < 0 THEN axc.data[1] + Len(is) + 1 ELSE axc.data[1]
              t2 == gr.nodes[ei].outs[1]
          IN
          IF is[i] = 0 \/ os[i] % is[i] # 0 THEN No
          ELSE IF axc.dtype # "i32" \/ axc.shape # <<1>> \/ newax # i THEN No         \* new axis directly after axis i - 1
          ELSE IF Known(gr, t2) /\ ShapeOf(gr, t2) # InsertAt(is, i + 1, os[i] \div is[i]) THEN No
          ELSE IF ~GuardOk(gr, {ui, ei, at}, RangeS(n.outs)) THEN No
          ELSE Yes(Splice(gr, {ui, ei, at}, at,
                          <<Nd("RepeatInterleave", <<x>>, n.outs, ("axis" :> <<i - 1>>) @@ ("repeats" :> <<os[i] \div is[i]>>))>>))

\* ShapeSliceToConstant (fusions.rs:1192): Slice(Shape(x), starts, ends) with exactly three inputs,
\* one-element constant starts / ends; SliceRange::new(start, Some(end), 1).clamp(ndim)
ClampIdx(i, nd) == LET j == IF i < 0 THEN i + nd ELSE i IN IF j < 0 THEN 0 ELSE IF j > nd THEN nd ELSE j
ShapeSliceRule(gr, at) ==
  LET n == gr.nodes[at] IN
  IF n.op # "Slice" \/ Len(n.ins) # 3 THEN No ELSE
  LET si == ProducerIdx(gr, n.ins[1]) IN
  IF si = 0 \/ gr.nodes[si].op # "Shape" \/ AHas(gr.nodes[si].attrs, "start") \/ AHas(gr.nodes[si].attrs, "end") THEN No ELSE
  LET x == gr.nodes[si].ins[1] IN
  IF ~Known(gr, x) \/ ~IsConst(gr, n.ins[2]) \/ ~IsConst(gr, n.ins[3]) THEN No ELSE
  LET st == ConstOf(gr, n.ins[2]) en == ConstOf(gr, n.ins[3]) IN
  IF st.shape # <<1>> \/ en.shape # <<1>> \/ st.dtype # "i32" \/ en.dtype # "i32" THEN No ELSE
  LET dims == ShapeOf(gr, x) nd == Len(dims)
      a == ClampIdx(st.data[1], nd) b == ClampIdx(en.data[1], nd)
      sel == IF b > a THEN SubSeq(dims, a + 1, b) ELSE <<>>
      cname == "k" \o n.outs[1]
      g1 == AddInit(RenameIn(Splice(gr, {at}, at, <<>>), n.outs[1], cname), Tn(cname, "i32", <<Len(sel)>>, sel))
  IN \* Fusion::Constant: the value is replaced by a constant in consumers and in the graph outputs
     Yes([g1 EXCEPT !.outputs = [k \in 1..Len(@) |-> IF @[k] = n.outs[1] THEN cname ELSE @[k]]])

RuleNames == <<"ShapeSlice", "Cast", "Identity", "Reciprocal", "ReduceMeanAxes", "MatMulAdd", "MatMulScale", "RepeatInterleave">>
RuleAt(name, gr, at) ==
  CASE name = "ShapeSlice" -> ShapeSliceRule(gr, at)
    [] name = "Cast" -> CastRule(gr, at)
    [] name = "Identity" -> IdentityRule(gr, at)
    [] name = "Reciprocal" -> ReciprocalRule(gr, at)
    [] name = "ReduceMeanAxes" -> ReduceMeanRule(gr, at)
    [] name = "MatMulAdd" -> MatMulAddRule(gr, at)
    [] name = "MatMulScale" -> MatMulScaleRule(gr, at)
    [] name = "RepeatInterleave" -> RepeatInterleaveRule(gr, at)

\* The next fusion the optimizer applies: nodes from the outputs backwards, visitors in order.
Applicable(gr) == {<<at, k>> \in (1..Len(gr.nodes)) \X (1..Len(RuleNames)) : RuleAt(RuleNames[k], gr, at).ok}
NextFusion(gr) ==
  LET A == Applicable(gr)
      at == CHOOSE at \in {x[1] : x \in A} : \A x \in A : x[1] <= at
      k == CHOOSE k \in {x[2] : x \in {z \in A : z[1] = at}} : \A x \in {z \in A : z[1] = at} : k <= x[2]
  IN [at |-> at, rule |-> RuleNames[k]]

---------------------------------------------------------------------------
\* `nxt` caches the next fusion of the current graph (rule name and rewritten graph), computed once
\* per state: [rule |-> "" ] when no fusion applies.
NoNext == [rule |-> "", g |-> NoG]
Plan(gr) == IF Applicable(gr) = {} THEN NoNext
            ELSE LET nf == NextFusion(gr) IN [rule |-> nf.rule, g |-> RuleAt(nf.rule, gr, nf.at).g]

Init == phase = "seed" /\ p = NoP /\ g = NoG /\ fired = <<>> /\ nxt = NoNext

PickBucket == /\ phase = "seed"
              /\ \E bk \in Buckets : p' = [NoP EXCEPT !.fam = bk[1], !.xs = bk[2]]
              /\ phase' = "bucket" /\ UNCHANGED <<g, fired, nxt>>

PickGraph == /\ phase = "bucket"
             /\ \E q \in Params(p.fam, p.xs) : p' = q /\ g' = Build(q) /\ nxt' = Plan(Build(q))
             /\ phase' = "opt" /\ UNCHANGED fired

Apply(name) == /\ phase = "opt"
               /\ nxt.rule = name
               /\ Len(fired) < 4
               /\ g' = nxt.g
               /\ nxt' = Plan(nxt.g)
               /\ fired' = Append(fired, name)
               /\ UNCHANGED <<phase, p>>

ApplyShapeSlice == Apply("ShapeSlice")
ApplyCast == Apply("Cast")
ApplyIdentity == Apply("Identity")
ApplyReciprocal == Apply("Reciprocal")
ApplyReduceMeanAxes == Apply("ReduceMeanAxes")
ApplyMatMulAdd == Apply("MatMulAdd")
ApplyMatMulScale == Apply("MatMulScale")
ApplyRepeatInterleave == Apply("RepeatInterleave")

Finish == /\ phase = "opt"
          /\ nxt.rule = "" \/ Len(fired) >= 4
          /\ phase' = "done" /\ UNCHANGED <<p, g, fired, nxt>>

Next == \/ PickBucket \/ PickGraph \/ Finish
        \/ ApplyShapeSlice \/ ApplyCast \/ ApplyIdentity \/ ApplyReciprocal \/ ApplyReduceMeanAxes
        \/ ApplyMatMulAdd \/ ApplyMatMulScale \/ ApplyRepeatInterleave

Spec == Init /\ [][Next]_vars

---------------------------------------------------------------------------
\* The property of the rewrite system: denotation preserved (only graphs whose ORIGINAL
\* denotation is defined and exact are judged).
Orig == Build(p)
Preserved == LET d0 == Denote(Orig) d1 == Denote(g) IN d0.st # "ok" \/ d1 = d0

\* Replayable description of a candidate: the ORIGINAL model and its inputs, as a vh-opt case.
NodeJ(n) == [op |-> n.op, ins |-> n.ins, outs |-> n.outs, attrs |-> n.attrs @@ ("_mc" :> <<>>)]
TensJ(t) == [name |-> t.name, shape |-> t.shape, dtype |-> t.dtype, data |-> t.data, nonint |-> 0, bits |-> <<>>]
\* Pattern class of a graph, named like the harness's template families name theirs.
RankName(r) == CASE r = 0 -> "const_r0" [] r = 1 -> "const_r1" [] r = 2 -> "const_r2" [] OTHER -> "const_r3"
ConstClass(sh) == IF Prod(sh) = 1 THEN RankName(Len(sh)) ELSE "const_n2"
PClass(q) ==
  \* (a chain is classed by its higher-rank one-element constant)
  CASE q.fam = "identity" ->
         IF q.e = 0 THEN ConstClass(CS[q.b])
         ELSE LET s1 == CS[q.b] s2 == CS[((q.f - 1) % 4) + 1]
                  r1 == IF Prod(s1) = 1 THEN Len(s1) ELSE -1
                  r2 == IF Prod(s2) = 1 THEN Len(s2) ELSE -1
              IN IF r1 < 0 /\ r2 < 0 THEN "const_n2" ELSE RankName(IF r1 >= r2 THEN r1 ELSE r2)
    [] q.fam = "recip" -> ConstClass(CS[q.a])
    [] q.fam = "cast" -> "cast"
    [] q.fam = "matmuladd" ->
         LET bs == BiasS[q.b] bsh == MMB[q.a] n == IF Len(bsh) = 1 THEN 1 ELSE bsh[2]
             dot == IF Len(MMA[q.xs]) = 1 /\ Len(bsh) = 1 THEN "dot_" ELSE ""
         IN IF q.e = 1 THEN "nm_sub" ELSE IF Len(bs) # 1 THEN "bias_rank"
            ELSE dot \o (IF bs[1] = n THEN "bias_vec_n" ELSE IF bs[1] = 1 THEN "bias_vec_1" ELSE "bias_vec_other")
    [] q.fam = "matmulscale" -> IF q.d = 4 THEN "nm_c_div_x" ELSE IF q.f = 1 THEN "nm_dup_output" ELSE ConstClass(CS[q.b])
    \* new axis right after the multiplied axis: interleave; right before it: tile (the same thing for an
    \* axis of extent 1); anywhere else the Reshape moves elements across axes
    [] q.fam = "repint" -> IF q.a = q.c + 1 \/ (q.a = q.c /\ XS4[q.xs][q.c + 1] = 1) THEN "interleave"
                           ELSE IF q.a = q.c THEN "tile" ELSE "cross_axis"
    [] q.fam = "reducemean" -> IF q.a = 1 THEN (IF q.c = 1 THEN "empty_axes_noop1" ELSE "empty_axes_noop0") ELSE "axes"
    [] q.fam = "shapeslice" -> IF q.c = 1 THEN "nm_axes" ELSE "plain"
CaseJ(q, gr, rules) ==
  [fam |-> "mc_" \o q.fam, pat |-> "", variant |-> PClass(q), tol |-> "std",
   nodes |-> [i \in 1..Len(gr.nodes) |-> NodeJ(gr.nodes[i])],
   inits |-> [i \in 1..Len(gr.inits) |-> TensJ(gr.inits[i])],
   inputs |-> [i \in 1..Len(gr.feeds) |-> [name |-> gr.feeds[i].name, dtype |-> gr.feeds[i].dtype, hasdecl |-> TRUE,
                                           decl |-> gr.feeds[i].shape, syms |-> [k \in 1..Len(gr.feeds[i].shape) |-> ""]]],
   feeds |-> [i \in 1..Len(gr.feeds) |-> TensJ(gr.feeds[i])],
   outputs |-> gr.outputs, rules |-> rules, params |-> q]

\* Always TRUE.  A violated rewrite (original denotation defined and exact, rewritten one different)
\* is printed as a CANDIDATE for replay on the real code; every enumerated graph is printed as one
\* short REWRITTEN line (family, rules applied, status of the original denotation, preserved?) which
\* the engine counts (non-vacuity).
Sound == phase = "done" =>
           LET d0 == Denote(Orig)
               ok == d0.st # "ok" \/ Denote(g) = d0
           IN /\ PrintT(<<"REWRITTEN", ToJson([fam |-> p.fam, rules |-> fired, st |-> d0.st, ok |-> ok])>>)
              /\ (ok \/ PrintT(<<"CANDIDATE", ToJson(CaseJ(p, Orig, fired))>>))
=============================================================================
