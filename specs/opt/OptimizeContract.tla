-------------------------- MODULE OptimizeContract --------------------------
(* Contract of C01 "Graph optimization preserves model semantics".            *)
(*                                                                           *)
(* The property is differential.  A model is loaded under six configurations  *)
(*   1 (optimize off, inference off) = BASELINE                               *)
(*   2 (off, on)   3 (off, strict)   4 (on, off)   5 (on, on)   6 (on, strict) *)
(* and run on one conforming input set; result[k] is a record                 *)
(*   [outcome |-> "ok" | "loaderr" | "runerr" | "panic_load" | "panic_run",    *)
(*    outs    |-> sequence of output records [shape, dtype, data, nonint,      *)
(*                bits, adq]]                                                  *)
(* (outputs requested by position, Model::output_ids).                         *)
(*                                                                           *)
(* Statement -> predicate (Judge below):                                      *)
(*  * "the outputs have the same shape, element type and values (bit-exact    *)
(*    for integers, within a small tolerance for floats, identical NaN         *)
(*    positions) whether the model was loaded with optimization off, on, or    *)
(*    shape inference off/on/strict": if the baseline is Ok(o), every other    *)
(*    configuration k must be Ok(o') with Equiv(o, o').                        *)
(*  * "Optimization may only turn a failing run into a successful one, never  *)
(*    change a successful result": a failing baseline (load error, run error,  *)
(*    panic) constrains nothing; a configuration that fails (error OR panic)   *)
(*    while the baseline succeeded violates the property,                      *)
(*  * EXCEPT a LOAD error of a strict-inference configuration (3, 6):          *)
(*    ShapeInferenceMode::Strict is documented (src/model.rs) as "The model    *)
(*    will fail to load if shape inference cannot infer the shapes or types of *)
(*    any values", so that outcome is the documented behaviour of the mode,    *)
(*    not a changed result.  It is counted (strict_load_rejections), never     *)
(*    flagged.  (Weakest reading that still says what the statement says.)     *)
(*                                                                           *)
(* Float tolerance (DESIGN 6.2).  TLA+ does no float arithmetic; the spec      *)
(* computes the ULP distance itself from the logged bit patterns, and uses the  *)
(* harness projection `adq` (absolute difference in units of 1e-9, -1 when a   *)
(* side is not finite) for the absolute bound.  Two f32 elements are Close iff  *)
(*   both NaN, or neither NaN and (ULP distance <= U or 0 <= adq <= A)         *)
(* with (U, A) = (64, 10^4)  i.e. < 1e-5 relative or 1e-5 absolute  ("std"),   *)
(*             = (8192, 10^6) i.e. < 1e-3 relative or 1e-3 absolute ("loose"). *)
(* "loose" applies only to cases in which the generator deliberately moved a   *)
(* pattern constant by 5e-5: the constant matcher (ConstantPattern::matches,   *)
(* CONST_TOLERANCE = 1e-4) treats such a constant as the pattern's own value   *)
(* by design, so the fused result may differ by that relative amount.          *)
(* On integer-valued data every real rewriting error changes a value by >= 1   *)
(* unit, far outside either bound.  +0 and -0 are equal values.                *)
EXTENDS Naturals, Integers, Sequences, FiniteSets

Baseline == 1
Configs == 1..6
StrictConfigs == {3, 6}
CfgName(k) == CASE k = 1 -> "off_off" [] k = 2 -> "off_on" [] k = 3 -> "off_strict"
                [] k = 4 -> "on_off" [] k = 5 -> "on_on" [] k = 6 -> "on_strict"

TolUlp(tol) == IF tol = "loose" THEN 8192 ELSE 64
TolAbs(tol) == IF tol = "loose" THEN 1000000 ELSE 10000

---------------------------------------------------------------------------
\* f32 bit patterns are logged reinterpreted as i32.
\* Magnitude bits (sign cleared), computed without leaving 32-bit range.
Mag(b) == IF b >= 0 THEN b ELSE (b + 2147483647) + 1
IsNaNBits(b) == Mag(b) > 2139095040                  \* 0x7F800000
\* Monotone key: k(a) <= k(b) iff a <= b as floats (for non-NaN); +0 and -0 both map to 0.
Key(b) == IF b >= 0 THEN b ELSE -Mag(b)
UlpWithin(a, b, n) ==
  LET ka == Key(a) kb == Key(b) IN
  IF (ka >= 0) = (kb >= 0) \/ ka = 0 \/ kb = 0
  THEN (IF ka >= kb THEN ka - kb ELSE kb - ka) <= n
  ELSE LET p == IF ka > 0 THEN ka ELSE kb            \* opposite signs: both must be tiny
           q == IF ka > 0 THEN -kb ELSE -ka
       IN p <= n /\ q <= n /\ p + q <= n

CloseF(a, b, adq, tol) ==
  IF IsNaNBits(a) \/ IsNaNBits(b) THEN IsNaNBits(a) /\ IsNaNBits(b)
  ELSE \/ a = b
       \/ UlpWithin(a, b, TolUlp(tol))
       \/ (adq >= 0 /\ adq <= TolAbs(tol))

\* First difference class between a baseline output o and another output p ("" = equivalent).
OutDiff(o, p, tol) ==
  IF o.shape # p.shape THEN "shape"
  ELSE IF o.dtype # p.dtype THEN "dtype"
  ELSE IF o.dtype # "f32" THEN (IF o.data = p.data THEN "" ELSE "data")
  ELSE IF Len(o.bits) # Len(p.bits) \/ Len(p.adq) # Len(p.bits) THEN "data"
  ELSE IF \E i \in 1..Len(o.bits) : IsNaNBits(o.bits[i]) # IsNaNBits(p.bits[i]) THEN "nan"
  ELSE IF \A i \in 1..Len(o.bits) : CloseF(o.bits[i], p.bits[i], p.adq[i], tol) THEN "" ELSE "data"

RECURSIVE OutsDiffR(_, _, _, _)
OutsDiffR(os, ps, tol, i) ==
  IF i > Len(os) THEN ""
  ELSE LET d == OutDiff(os[i], ps[i], tol) IN IF d # "" THEN d ELSE OutsDiffR(os, ps, tol, i + 1)
OutsDiff(os, ps, tol) == IF Len(os) # Len(ps) THEN "count" ELSE OutsDiffR(os, ps, tol, 1)

\* Verdict for configuration k given all results: "" (conforms / not constrained),
\* "strict_reject" (documented, counted only) or a violation class.
Judge(result, k, tol) ==
  IF result[Baseline].outcome # "ok" THEN ""
  ELSE LET r == result[k] IN
       CASE r.outcome = "ok" -> OutsDiff(result[Baseline].outs, r.outs, tol)
         [] r.outcome = "loaderr" /\ k \in StrictConfigs -> "strict_reject"
         [] OTHER -> r.outcome            \* loaderr, runerr, panic_load, panic_run

\* The contract: no configuration changes a successful baseline result.
Preserves(result, tol) == \A k \in Configs \ {Baseline} : Judge(result, k, tol) \in {"", "strict_reject"}
=============================================================================
