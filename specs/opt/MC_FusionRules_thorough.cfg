CONSTANTS
  Families = {"identity", "recip", "cast", "matmuladd", "matmulscale", "repint", "reducemean", "shapeslice"}
  Depth2 = TRUE
INIT Init
NEXT Next
INVARIANT Sound
CHECK_DEADLOCK FALSE
