--------------------------- MODULE Trace_Optimize ---------------------------
(* Trace validation for C01.  The harness (vh-opt) logs per run                *)
(*   case: the complete model (nodes, attributes, initializers, graph inputs    *)
(*         with declared shapes, outputs) and the input tensors (`feeds`);      *)
(*   ret : for each of the six configurations the outcome, the outputs, the     *)
(*         operators left in the loaded graph (`ops`, `delta` against the       *)
(*         unoptimised graph) and the result of requesting the outputs by name. *)
(* Judged here:                                                                *)
(*  (1) OptimizeContract.Judge for configurations 2..6 against the baseline    *)
(*      (class = shape | dtype | data | nan | count | loaderr | runerr |        *)
(*      panic_load | panic_run).  These are the property's violations.          *)
(*  (2) `byname`: the same outputs requested through Model::node_id(<declared   *)
(*      output name>) instead of Model::output_ids() must succeed with the same *)
(*      values whenever they do so in the baseline (class byname_fail /         *)
(*      byname_differs): a run that succeeds unoptimised must not fail          *)
(*      optimised; the graph-output ids are state the property names.           *)
(*  (3) reference: when GraphEval.GraphDenote is "ok" the BASELINE outputs      *)
(*      are compared with it exactly.  A disagreement is reported under class   *)
(*      "ref_*" with kind = "reference": the property is differential, so the   *)
(*      engine reports these as DRIFT of the reference / operator defects seen  *)
(*      in all configurations (C15's subject), never as C01 violations.         *)
(* Signature = family, sub-pattern (`pat`), pattern class (`pclass`: the          *)
(* perturbation the generator applied to the fusion's canonical pattern; "" for   *)
(* random DAGs), class,                                                          *)
(* the group of configurations that fail (`where`), the operator-set change of   *)
(* the first failing one (`delta`) and, for error outcomes, the error message    *)
(* with names and numbers removed (`msg`).                                       *)
EXTENDS TraceLib, GraphEval

VARIABLES l, bad, cur, cnt

C == INSTANCE OptimizeContract

NoCase == [fam |-> "none"]
Counters == [cases |-> 0, base_ok |-> 0, base_fail |-> 0, judged_cfgs |-> 0, strict_rejects |-> 0,
             ref_ok |-> 0, ref_unjudged |-> 0, changed |-> 0, aborted |-> 0, opt_rescued |-> 0]
Init == l = 1 /\ bad = NoBad /\ cur = NoCase /\ cnt = Counters

e == Rec[l]

Case == /\ e.ev = "case"
        /\ cur.fam = "none"
        /\ cur' = e
        /\ cnt' = [cnt EXCEPT !.cases = @ + 1]
        /\ UNCHANGED bad

\* Which configurations fail, as a group name (part of the signature).
Where(F) ==
  CASE F = {4, 5, 6} -> "opt_all"
    [] F = {5, 6} -> "opt_infer"
    [] F = {4} -> "opt_noinfer"
    [] F = {5} -> "opt_infer_on"
    [] F = {6} -> "opt_infer_strict"
    [] F = {4, 5} -> "opt_off_on"
    [] F = {4, 6} -> "opt_off_strict"
    [] F \cap {2, 3} # {} -> "unoptimised"
    [] OTHER -> "other"

\* `byname` = "same_ids" (the named outputs ARE Model::output_ids), "ran" (other ids: outputs in
\* bn_outs), or "err: .." / "panic: ..".  Judged only when the request works in the baseline.
ByNameClass(r, k, tol) ==
  IF r[1].outcome # "ok" \/ r[1].byname # "same_ids" \/ r[k].outcome # "ok" THEN ""
  ELSE IF r[k].byname = "same_ids" THEN ""
  ELSE IF r[k].byname = "ran" THEN (IF C!OutsDiff(r[1].outs, r[k].bn_outs, tol) = "" THEN "" ELSE "byname_differs")
  ELSE "byname_fail"

RECURSIVE FlagAll(_, _, _)
\* items: sequence of [ok, sig, rec]
FlagAll(b, items, i) == IF i > Len(items) THEN b ELSE FlagAll(Flag(b, items[i].ok, items[i].sig, items[i].rec), items, i + 1)

Ret ==
  /\ e.ev = "ret"
  /\ cur.fam # "none" /\ e.id = cur.id
  /\ cur' = NoCase
  /\ IF e.aborted THEN
       /\ cnt' = [cnt EXCEPT !.aborted = @ + 1]
       /\ UNCHANGED bad
     ELSE
       LET r == e.cfgs
           tol == cur.tol
           verdict == [k \in 2..6 |-> C!Judge(r, k, tol)]
           Failing == {k \in 2..6 : verdict[k] \notin {"", "strict_reject"}}
           kf == IF Failing = {} THEN 0 ELSE CHOOSE k \in Failing : \A j \in Failing : k <= j
           \* (by-name is judged only where the by-position verdict is clean: a replaced output
           \*  value makes the two requests differ as a consequence)
           bn == [k \in 2..6 |-> IF verdict[k] = "" THEN ByNameClass(r, k, tol) ELSE ""]
           BnFailing == {k \in 2..6 : bn[k] # ""}
           kb == IF BnFailing = {} THEN 0 ELSE CHOOSE k \in BnFailing : \A j \in BnFailing : k <= j
           ref == GraphDenote(cur)
           refd == IF ref.st = "ok" /\ r[1].outcome = "ok" THEN RefDiffAll(ref.outs, r[1].outs) ELSE ""
           side == IF ref.st # "ok" \/ r[1].outcome # "ok" THEN "noref" ELSE IF refd = "" THEN "base_eq_ref" ELSE "base_ne_ref"
           \* random DAGs carry no pattern class (their `variant` only describes the graph)
           Sig(kind, cls, F, k) == [kind |-> kind, fam |-> cur.fam, pat |-> cur.pat,
                                    pclass |-> IF cur.fam = "dag" THEN "" ELSE cur.variant, class |-> cls,
                                    where |-> Where(F), delta |-> IF k = 0 THEN "" ELSE r[k].delta,
                                    msg |-> IF k = 0 THEN "" ELSE IF cls \in {"byname_fail", "byname_differs"} THEN "" ELSE r[k].mclass]
           info == [case |-> cur, ret |-> e, refside |-> side,
                    verdicts |-> [k \in 1..5 |-> verdict[k + 1]]]
           items == << [ok |-> Failing = {}, sig |-> Sig("contract", IF kf = 0 THEN "" ELSE verdict[kf], Failing, kf), rec |-> info],
                       [ok |-> BnFailing = {}, sig |-> Sig("contract", IF kb = 0 THEN "" ELSE bn[kb], BnFailing, kb), rec |-> info],
                       [ok |-> refd = "", sig |-> Sig("reference", "ref_" \o refd, {}, 0),
                        rec |-> [case |-> cur, ret |-> e, refside |-> side, expected |-> ref.outs]] >>
       IN
       /\ bad' = FlagAll(bad, items, 1)
       /\ cnt' = [cnt EXCEPT
            !.base_ok = @ + (IF r[1].outcome = "ok" THEN 1 ELSE 0),
            !.base_fail = @ + (IF r[1].outcome # "ok" THEN 1 ELSE 0),
            !.judged_cfgs = @ + (IF r[1].outcome = "ok" THEN 5 ELSE 0),
            !.strict_rejects = @ + Cardinality({k \in 2..6 : verdict[k] = "strict_reject"}),
            !.ref_ok = @ + (IF ref.st = "ok" /\ r[1].outcome = "ok" THEN 1 ELSE 0),
            !.ref_unjudged = @ + (IF ref.st # "ok" THEN 1 ELSE 0),
            !.changed = @ + (IF e.changed THEN 1 ELSE 0),
            !.opt_rescued = @ + (IF r[1].outcome # "ok" /\ \E k \in 4..6 : r[k].outcome = "ok" THEN 1 ELSE 0)]

Next == /\ l <= NRec /\ l' = l + 1 /\ (Case \/ Ret)

Report == l = NRec + 1 =>
            /\ ReportBad(bad)
            /\ Stat("cases", cnt.cases)
            /\ Stat("base_ok", cnt.base_ok)
            /\ Stat("base_fail", cnt.base_fail)
            /\ Stat("judged_cfgs", cnt.judged_cfgs)
            /\ Stat("strict_rejects", cnt.strict_rejects)
            /\ Stat("ref_ok", cnt.ref_ok)
            /\ Stat("ref_unjudged", cnt.ref_unjudged)
            /\ Stat("changed", cnt.changed)
            /\ Stat("aborted", cnt.aborted)
            /\ Stat("opt_rescued", cnt.opt_rescued)
=============================================================================
