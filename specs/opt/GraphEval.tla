------------------------------ MODULE GraphEval ------------------------------
(* Reference denotation of a small ONNX graph on the exact subset: every node  *)
(* is evaluated with OnnxOps.OnnxEval (written from the ONNX documentation) in *)
(* the logged (topological) order.  The result is "ok" only if EVERY node is    *)
(* "ok" (defined by ONNX and exactly computable on integer-valued data);        *)
(* anything else (a transcendental operator, a subgraph, a non-integer float    *)
(* attribute or tensor, an ONNX-undefined case) makes the whole graph           *)
(* "unjudged by the reference": it is then judged differentially only.          *)
(*                                                                             *)
(* A graph description (logged by the harness, or built by FusionRules):        *)
(*   nodes  : << [op, ins (names, "" = omitted), outs (names), attrs] >>        *)
(*   inits  : << [name, shape, dtype, data, nonint] >>                          *)
(*   feeds  : << [name, shape, dtype, data, nonint] >>   graph inputs           *)
(*   outputs: << names >>                                                      *)
EXTENDS OnnxOps

AbsentIn == [p |-> FALSE, shape |-> <<>>, dtype |-> "", data |-> <<>>, den |-> 1]
AsIn(t) == [p |-> TRUE, shape |-> t.shape, dtype |-> t.dtype, data |-> t.data, den |-> 1]

RECURSIVE BindAll(_, _, _)
BindAll(env, ts, i) == IF i > Len(ts) THEN env ELSE BindAll((ts[i].name :> Mk(ts[i].shape, ts[i].dtype, ts[i].data)) @@ env, ts, i + 1)

\* Operators this module adds to / restricts in OnnxOps (own module: OnnxOps is not edited).
NodeEval(n, ins) ==
  IF "_inexact" \in DOMAIN n.attrs /\ n.attrs["_inexact"] # <<>> THEN Unmodelled
  ELSE IF n.op = "Constant" THEN
         (IF AHas(n.attrs, "value") THEN Ok1(TensorOf(n.attrs["value"][1])) ELSE Unmodelled)
  \* Cast to BOOL: rten keeps bool as i32 without normalising (C15 territory): not modelled here
  ELSE IF n.op = "Cast" /\ AOpt(n.attrs, "to", 0) = 9 THEN Unmodelled
  ELSE OnnxEval(n.op, n.attrs, ins)

RECURSIVE EvalNodes(_, _, _)
EvalNodes(nodes, i, s) ==
  IF i > Len(nodes) \/ s.st # "ok" THEN s
  ELSE LET n == nodes[i]
           unbound == \E k \in 1..Len(n.ins) : n.ins[k] # "" /\ n.ins[k] \notin DOMAIN s.env
       IN IF unbound THEN [s EXCEPT !.st = "unbound"]       \* e.g. a value captured from an outer scope
          ELSE LET ins == [k \in 1..Len(n.ins) |-> IF n.ins[k] = "" THEN AbsentIn ELSE AsIn(s.env[n.ins[k]])]
                   r == NodeEval(n, ins)
               IN IF r.st # "ok" THEN [s EXCEPT !.st = r.st]
                  ELSE IF Len(r.outs) < Len(n.outs) THEN [s EXCEPT !.st = "unmodelled"]
                  ELSE EvalNodes(nodes, i + 1,
                         [s EXCEPT !.env = [k \in {n.outs[j] : j \in 1..Len(n.outs)} \ {""} |->
                                              r.outs[CHOOSE j \in 1..Len(n.outs) : n.outs[j] = k]] @@ @])

AllExactData(ts) == \A i \in 1..Len(ts) : ts[i].nonint = 0

\* [st |-> "ok", outs |-> <<tensors>>] or st = "inexact" | "undefined" | "unmodelled" | "unbound"
GraphDenote(g) ==
  IF ~AllExactData(g.inits) \/ ~AllExactData(g.feeds) THEN [st |-> "inexact", outs |-> <<>>]
  ELSE LET env0 == BindAll(BindAll(<<>>, g.inits, 1), g.feeds, 1)
           s == EvalNodes(g.nodes, 1, [st |-> "ok", env |-> env0])
       IN IF s.st # "ok" THEN [st |-> s.st, outs |-> <<>>]
          ELSE IF \E k \in 1..Len(g.outputs) : g.outputs[k] \notin DOMAIN s.env THEN [st |-> "unbound", outs |-> <<>>]
          ELSE [st |-> "ok", outs |-> [k \in 1..Len(g.outputs) |-> s.env[g.outputs[k]]]]

\* Does an output record logged by the harness equal the reference tensor exactly?
\* (bool-valued operators are 0/1 in both; f32 must be integer-valued)
RefDiff(t, o) ==
  IF o.shape # t.shape THEN "shape"
  ELSE IF o.dtype # t.dtype THEN "dtype"
  ELSE IF o.nonint # 0 \/ o.data # t.data THEN "data"
  ELSE ""
RECURSIVE RefDiffAllR(_, _, _)
RefDiffAllR(ts, os, i) ==
  IF i > Len(ts) THEN "" ELSE LET d == RefDiff(ts[i], os[i]) IN IF d # "" THEN d ELSE RefDiffAllR(ts, os, i + 1)
RefDiffAll(ts, os) == IF Len(ts) # Len(os) THEN "count" ELSE RefDiffAllR(ts, os, 1)
=============================================================================
