CONSTANTS MaxOps = 5  MaxPrompt = 2  KVModes = {TRUE, FALSE}  SampledToks = {7, 8}
INIT Init
NEXT Step
INVARIANTS PrevIsHistory PositionsContiguous ExactlyOnce CacheHandOff WholePendingSubmitted Emit
CHECK_DEADLOCK FALSE
