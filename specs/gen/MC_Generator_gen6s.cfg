CONSTANTS MaxOps = 6  PromptLens = {0, 1}  KVModes = {TRUE, FALSE}  SampledToks = {7}
INIT Init
NEXT Step
INVARIANTS Emit
CHECK_DEADLOCK FALSE
