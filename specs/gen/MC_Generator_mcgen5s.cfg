CONSTANTS MaxOps = 5  PromptLens = {0, 1}  KVModes = {TRUE, FALSE}  SampledToks = {7}
INIT Init
NEXT Step
INVARIANTS PrevIsHistory PositionsContiguous ExactlyOnce CacheHandOff WholePendingSubmitted Emit
CHECK_DEADLOCK FALSE
