CONSTANTS MaxOps = 1000000  PromptLens = {}  KVModes = {TRUE, FALSE}  SampledToks = {}
INIT TInit
NEXT TNext
INVARIANT Report
POSTCONDITION Accepted
CHECK_DEADLOCK FALSE
