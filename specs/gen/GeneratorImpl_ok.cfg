CONSTANTS MaxOps = 5  MaxPrompt = 2  KVModes = {TRUE, FALSE}  SampledToks = {7}
INIT Init
NEXT ImplStep
INVARIANTS PositionsContiguous ExactlyOnce CacheHandOff WholePendingSubmitted
CHECK_DEADLOCK FALSE
