CONSTANTS MaxOps = 4  PromptLens = {0, 1, 2}  KVModes = {TRUE, FALSE}  SampledToks = {7}
INIT Init
NEXT Step
INVARIANTS PrevIsHistory PositionsContiguous ExactlyOnce CacheHandOff WholePendingSubmitted Emit
CHECK_DEADLOCK FALSE
