------------------------------ MODULE Samplers ------------------------------
(* Contracts of the rten-generate samplers (C33) over sparse score vectors    *)
(* [ids, key] (key = position of the f32 score in the IEEE total order, see   *)
(* Filters.tla).  Domain (the property's quantifier): non-empty vectors with  *)
(* distinct ids, no NaN, no +inf; for multinomial at least one finite score.  *)
EXTENDS Naturals, Integers, Sequences, FiniteSets

PInf == 2139095040                  \* key of +inf
NInf == 0 - 2139095041              \* key of -inf
Norm(x) == IF x = 0 - 1 THEN 0 ELSE x          \* -0.0 and +0.0 are the same score
Elems(s) == {s[i] : i \in DOMAIN s}

InDomain(v) == /\ Len(v.ids) >= 1 /\ Len(v.ids) = Len(v.key)
               /\ \A i \in DOMAIN v.key : v.key[i] >= NInf /\ v.key[i] < PInf
HasFinite(v) == \E i \in DOMAIN v.key : v.key[i] > NInf

\* "Arg-max sampling returns the ID of a maximal score"
MaxKey(v) == CHOOSE m \in {Norm(v.key[i]) : i \in DOMAIN v.key} :
               \A i \in DOMAIN v.key : m >= Norm(v.key[i])
ArgMaxIds(v) == {v.ids[i] : i \in {j \in DOMAIN v.ids : Norm(v.key[j]) = MaxKey(v)}}
ArgMaxOk(v, id) == id \in ArgMaxIds(v)

\* "multinomial sampling returns only IDs present in the candidate set with
\*  non-zero probability": softmax gives probability zero exactly to the scores
\*  -inf (a finite score far below the maximum has a tiny but non-zero
\*  probability, whatever f32 rounds it to)
Support(v) == {v.ids[i] : i \in {j \in DOMAIN v.ids : v.key[j] # NInf}}
MultinomialOk(v, id) == id \in Support(v)

\* why an id is not acceptable (for signatures)
Why(v, id) ==
  IF id \notin Elems(v.ids) THEN "not_a_candidate"
  ELSE IF v.ids[1] = id THEN "zero_probability_first_entry"
  ELSE "zero_probability_other_entry"
=============================================================================
