CONSTANTS MaxOps = 5  PromptLens = {0, 1}  KVModes = {TRUE, FALSE}  SampledToks = {7}  OffsetRule = "add_fed"
INIT Init
NEXT ImplStep
INVARIANTS PrevIsHistory PositionsContiguous ExactlyOnce CacheHandOff WholePendingSubmitted RecordedIsPrefix
CHECK_DEADLOCK FALSE
