---------------------------- MODULE GeneratorImpl ----------------------------
(* Implementation-shaped transcription of rten-generate/src/generator.rs      *)
(* (generate_impl, generate_next_token, with_prompt/append_prompt/            *)
(* clear_prompt) over the variables of the Generator contract:                *)
(*   pending = self.input_ids, pos = self.input_offset,                       *)
(*   prev = self.prev_tokens, ver = identity of the tensor in self.kv_cache.  *)
(* TLC checks the contract's invariants on it.  A counterexample found here   *)
(* is only a *candidate*; it counts once the real code reproduces it in the   *)
(* replayed trace (Trace_Generator).                                          *)
EXTENDS Generator

\* generate_impl(generate_logits): the submission uses
\*   input_positions = input_offset .. input_offset + input_ids.len()
\* (input_offset only advances when there is a KV cache), the cache tensors are
\* taken out of self.kv_cache and replaced by the model's outputs, and
\*   if self.prev_tokens.is_empty() { self.prev_tokens.extend(self.input_ids) }
\*   if !self.kv_cache.is_empty() { input_offset += len; input_ids.clear() }
ImplRun(logits, s) ==
  /\ runs' = Append(runs, [sub |-> [i \in 1..Len(pending) |->
                                      [tok |-> pending[i].tok, uid |-> pending[i].uid, pos |-> pos + i - 1]],
                           cacheIn |-> ver,
                           out |-> IF logits THEN <<[tok |-> s, uid |-> nuid]>> ELSE <<>>])
  /\ ver' = ver + 1
  /\ prev' = (IF prev = <<>> THEN TokOf(pending) ELSE prev) \o (IF logits THEN <<s>> ELSE <<>>)
  \* the rec flag is not part of the implementation; it is kept as the contract
  \* defines it so that the shared invariants can be evaluated
  /\ pending' = PendingAfter(pending, kv, logits, s, nuid)
  /\ pos' = IF kv THEN pos + Len(pending) ELSE pos
  /\ nuid' = nuid + (IF logits THEN 1 ELSE 0)

ImplProcessPrompt == /\ Live /\ ImplRun(FALSE, 0) /\ Log("process", <<>>)
                     /\ UNCHANGED <<kv, cleared, done>>
ImplNext(s) == /\ Live /\ pending # <<>> /\ ImplRun(TRUE, s) /\ Log("next", <<>>)
               /\ UNCHANGED <<kv, cleared, done>>

ImplStep == \/ \E len \in 0..MaxPrompt : WithPrompt(FreshToks(nuid, len))
            \/ \E len \in 0..MaxPrompt : AppendPrompt(FreshToks(nuid, len))
            \/ ClearPrompt \/ ImplProcessPrompt \/ NextEmpty
            \/ \E s \in SampledToks : ImplNext(s)
=============================================================================
