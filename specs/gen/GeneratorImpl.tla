---------------------------- MODULE GeneratorImpl ----------------------------
(* Implementation-shaped transcription of rten-generate/src/generator.rs      *)
(* (generate_impl, generate_next_token, with_prompt / append_prompt /         *)
(* clear_prompt) over the variables of the Generator contract:                *)
(*   pending = self.input_ids (rec flags of the leading entries =             *)
(*             self.recorded_input_ids), pos = self.input_offset,             *)
(*   prev = self.prev_tokens, ver = identity of the tensors in self.kv_cache. *)
(* TLC checks the contract's invariants on it.  A counterexample found here   *)
(* is only a *candidate*; it counts once the real code reproduces it in the   *)
(* replayed trace (Trace_Generator).                                          *)
(*                                                                            *)
(* OffsetRule selects how input_offset advances after a run with a KV cache:  *)
(*   "add_fed"  : input_offset += input_ids.len()      (the code)             *)
(*   "prev_len" : input_offset  = prev_tokens.len()    (a tempting rewrite;   *)
(*                wrong once a sampled token was dropped before being fed)    *)
EXTENDS Generator

CONSTANT OffsetRule

\* self.recorded_input_ids: number of leading input_ids already in prev_tokens
RecordedCount(es) == Cardinality({i \in DOMAIN es : es[i].rec})
\* the implementation keeps a count, which is adequate only if the recorded
\* entries are a prefix of input_ids
RecordedIsPrefix == \A i \in DOMAIN pending : pending[i].rec => \A j \in 1..i : pending[j].rec

\* generate_impl(generate_logits):
\*   input_positions = input_offset .. input_offset + input_ids.len()
\*   cache tensors are taken out of self.kv_cache, replaced by the model's outputs
\*   prev_tokens.extend(&input_ids[recorded_input_ids..]); recorded_input_ids = input_ids.len()
\*   if !kv_cache.is_empty() { input_offset <rule>; input_ids.clear(); recorded_input_ids = 0 }
\* generate_next_token: prev_tokens.push(t); input_ids.push(t); recorded_input_ids += 1
ImplRun(logits, s) ==
  LET fed == Len(pending)
      prevAfterImpl == prev \o TokOf(SubSeq(pending, RecordedCount(pending) + 1, fed))
  IN
  /\ runs' = Append(runs, [sub |-> [i \in 1..fed |->
                                      [tok |-> pending[i].tok, uid |-> pending[i].uid, pos |-> pos + i - 1]],
                           cacheIn |-> ver,
                           out |-> IF logits THEN <<[tok |-> s, uid |-> nuid]>> ELSE <<>>])
  /\ ver' = ver + 1
  /\ prev' = prevAfterImpl \o (IF logits THEN <<s>> ELSE <<>>)
  /\ pending' = PendingAfter(pending, kv, logits, s, nuid)
  /\ pos' = IF ~kv THEN pos
            ELSE IF OffsetRule = "add_fed" THEN pos + fed
            ELSE Len(prevAfterImpl)
  /\ nuid' = nuid + (IF logits THEN 1 ELSE 0)

ImplProcessPrompt == /\ Live /\ ImplRun(FALSE, 0) /\ Log("process", <<>>)
                     /\ UNCHANGED <<kv, cleared, done>>
ImplNext(s) == /\ Live /\ pending # <<>> /\ ImplRun(TRUE, s) /\ Log("next", <<>>)
               /\ UNCHANGED <<kv, cleared, done>>

\* with_prompt: input_ids = prompt; recorded_input_ids = 0
\* append_prompt: input_ids.extend(prompt)
\* clear_prompt: input_ids.clear(); recorded_input_ids = 0
\* (the contract actions are literally these assignments)
ImplStep == \/ \E len \in PromptLens : WithPrompt(FreshToks(nuid, len))
            \/ \E len \in PromptLens : AppendPrompt(FreshToks(nuid, len))
            \/ ClearPrompt \/ ImplProcessPrompt \/ NextEmpty
            \/ \E s \in SampledToks : ImplNext(s)
=============================================================================
