------------------------------ MODULE Generator ------------------------------
(* Contract of rten_generate::Generator as seen by the model it drives (C32). *)
(*                                                                            *)
(* A history is any sequence of the public calls that touch the token         *)
(* history, the pending input or the KV cache:  with_prompt(p) (builder style *)
(* `g = g.with_prompt(p)`, callable at any time: it *sets* the pending list,  *)
(* dropping what was pending), append_prompt(p), clear_prompt, process_prompt,*)
(* next.  (with_constant_input / with_varying_input / with_sampler /          *)
(* with_logits_filter only configure what accompanies a run; they are         *)
(* exercised as harness variants, not as actions.)                            *)
(* The generator owns a list of *pending* tokens (prompt()).                  *)
(* A run of the model (next / process_prompt) submits the pending tokens:     *)
(*   - model with KV cache: the pending tokens only, at the next contiguous   *)
(*     positions; afterwards nothing is pending (but the token next produced);*)
(*   - model without KV cache: the model is stateless, so the whole pending   *)
(*     list (which then is the whole conversation) at positions 0..n-1; the   *)
(*     list stays pending.                                                    *)
(* The KV cache handed to the model is the one the model returned last, and   *)
(* the next position is the number of tokens that cache holds (what           *)
(* kv_cache_len() reports) -- NOT the number of tokens in prev_tokens(): a    *)
(* sampled token that is dropped by clear_prompt / with_prompt before it was  *)
(* fed is part of prev_tokens() but not of the cache.                         *)
(* prev (prev_tokens()) is the sequence of token instances in the order in    *)
(* which they were first submitted to, or produced by, the model.             *)
(*                                                                            *)
(* History variables (runs, cleared, nuid, hist) exist so that the property   *)
(* can be stated over everything the model ever received (invariants below)   *)
(* and so that TLC can emit every bounded history for replay.                 *)
EXTENDS Naturals, Integers, Sequences, FiniteSets

CONSTANTS MaxOps,       \* bound on the number of calls in a history
          PromptLens,   \* the lengths prompts may have
          KVModes,      \* subset of BOOLEAN: model with / without KV-cache inputs
          SampledToks   \* token values the model may produce (environment's choice)

VARIABLES kv,        \* does the model have KV-cache inputs (fixed per behaviour)
          pending,   \* sequence of [tok, uid, rec]: prompt(); rec = already in prev
          pos,       \* KV case: number of tokens the cache holds = next position
          ver,       \* version of the cache the model returned last (= number of runs)
          prev,      \* prev_tokens()
          runs,      \* history: one record per model run
          nuid,      \* history: number of token instances created so far
          cleared,   \* history: uids dropped by clear_prompt
          hist,      \* history: the calls made so far
          done       \* the history ended in a call whose outcome the contract leaves open

gvars == <<kv, pending, pos, ver, prev, runs, nuid, cleared, hist, done>>

\* ---------------------------------------------------------------- pure parts
TokOf(es) == [i \in DOMAIN es |-> es[i].tok]
UidSet(es) == {es[i].uid : i \in DOMAIN es}

\* token instances for a prompt p (a sequence of token values), uids n, n+1, ..
Entries(p, n) == [i \in 1..Len(p) |-> [tok |-> p[i], uid |-> n + i - 1, rec |-> FALSE]]

\* what the model must receive when the pending list es is submitted
Submission(es, isKv, at) ==
  [i \in 1..Len(es) |-> [tok |-> es[i].tok, uid |-> es[i].uid,
                         pos |-> IF isKv THEN at + i - 1 ELSE i - 1]]

\* pending tokens that are not yet part of prev (prompt tokens never submitted)
Unrecorded(es) == SelectSeq(es, LAMBDA x : ~x.rec)
Recorded(es) == [i \in DOMAIN es |-> [es[i] EXCEPT !.rec = TRUE]]

\* what a run appends to prev: new prompt tokens, then the produced token
PrevDelta(es, logits, s) == TokOf(Unrecorded(es)) \o (IF logits THEN <<s>> ELSE <<>>)

\* pending list after a run
PendingAfter(es, isKv, logits, s, n) ==
  (IF isKv THEN <<>> ELSE Recorded(es))
    \o (IF logits THEN <<[tok |-> s, uid |-> n, rec |-> TRUE]>> ELSE <<>>)

FreshToks(n, len) == [i \in 1..len |-> 10 + n + i - 1]

\* --------------------------------------------------------------------- init
Init == /\ kv \in KVModes
        /\ pending = <<>> /\ pos = 0 /\ ver = 0 /\ prev = <<>>
        /\ runs = <<>> /\ nuid = 0 /\ cleared = {} /\ hist = <<>> /\ done = FALSE

Live == ~done /\ Len(hist) < MaxOps
Log(op, p) == hist' = Append(hist, [op |-> op, toks |-> p])

\* ------------------------------------------------------------------ actions
\* with_prompt "sets the ... prompt": whatever was pending (a sampled token not
\* yet fed, appended prompts) is dropped, exactly as by clear_prompt
WithPrompt(p) ==
  /\ Live
  /\ pending' = Entries(p, nuid) /\ nuid' = nuid + Len(p)
  /\ cleared' = cleared \cup UidSet(pending)
  /\ Log("with_prompt", p)
  /\ UNCHANGED <<kv, pos, ver, prev, runs, done>>

AppendPrompt(p) ==
  /\ Live
  /\ pending' = pending \o Entries(p, nuid) /\ nuid' = nuid + Len(p)
  /\ Log("append", p)
  /\ UNCHANGED <<kv, pos, ver, prev, runs, cleared, done>>

ClearPrompt ==
  /\ Live
  /\ pending' = <<>> /\ cleared' = cleared \cup UidSet(pending)
  /\ Log("clear", <<>>)
  /\ UNCHANGED <<kv, pos, ver, prev, runs, nuid, done>>

\* one run of the model; logits = TRUE for next (the model produces token s)
Run(logits, s) ==
  /\ runs' = Append(runs, [sub |-> Submission(pending, kv, pos), cacheIn |-> ver,
                           out |-> IF logits THEN <<[tok |-> s, uid |-> nuid]>> ELSE <<>>])
  /\ ver' = ver + 1
  /\ prev' = prev \o PrevDelta(pending, logits, s)
  /\ pending' = PendingAfter(pending, kv, logits, s, nuid)
  /\ pos' = IF kv THEN pos + Len(pending) ELSE 0
  /\ nuid' = nuid + (IF logits THEN 1 ELSE 0)

ProcessPrompt ==
  /\ Live /\ Run(FALSE, 0) /\ Log("process", <<>>)
  /\ UNCHANGED <<kv, cleared, done>>

Next(s) ==
  /\ Live /\ pending # <<>> /\ Run(TRUE, s) /\ Log("next", <<>>)
  /\ UNCHANGED <<kv, cleared, done>>

\* next() with nothing pending: the model is asked for the logits of the last
\* of zero positions.  The property statement does not say what happens (the
\* real code panics when it slices the empty logits); the history ends here.
NextEmpty ==
  /\ Live /\ pending = <<>> /\ done' = TRUE /\ Log("next", <<>>)
  /\ UNCHANGED <<kv, pending, pos, ver, prev, runs, nuid, cleared>>

Step == \/ \E len \in PromptLens : WithPrompt(FreshToks(nuid, len))
        \/ \E len \in PromptLens : AppendPrompt(FreshToks(nuid, len))
        \/ ClearPrompt \/ ProcessPrompt \/ NextEmpty
        \/ \E s \in SampledToks : Next(s)

Spec == Init /\ [][Step]_gvars

\* what kv_cache_len() must report: Some(tokens in the cache) / None (= -1)
KvLen == IF kv THEN pos ELSE 0 - 1

\* ------------------------------------------------- the property (invariants)
RECURSIVE Events(_)
\* everything submitted to / produced by the model, in order
Events(rs) ==
  IF rs = <<>> THEN <<>>
  ELSE LET r == Head(rs) IN
       [i \in DOMAIN r.sub |-> [k |-> "sub", tok |-> r.sub[i].tok, uid |-> r.sub[i].uid, pos |-> r.sub[i].pos]]
         \o [i \in DOMAIN r.out |-> [k |-> "prod", tok |-> r.out[i].tok, uid |-> r.out[i].uid, pos |-> 0 - 1]]
         \o Events(Tail(rs))
Subs(rs) == SelectSeq(Events(rs), LAMBDA x : x.k = "sub")

RECURSIVE FirstOcc(_, _)
\* token values of the first occurrence of every token instance, in order
FirstOcc(ev, seen) ==
  IF ev = <<>> THEN <<>>
  ELSE IF Head(ev).uid \in seen THEN FirstOcc(Tail(ev), seen)
       ELSE <<Head(ev).tok>> \o FirstOcc(Tail(ev), seen \cup {Head(ev).uid})

Distinct(s) == \A i, j \in DOMAIN s : i # j => s[i] # s[j]

\* "the recorded previous tokens equal every token submitted to or produced by
\*  the model, in order"
PrevIsHistory == prev = FirstOcc(Events(runs), {})

\* "at contiguous position indices (when it has a KV cache)"; a stateless model
\* gets every submission at positions 0..n-1
PositionsContiguous ==
  /\ kv => /\ \A i \in DOMAIN Subs(runs) : Subs(runs)[i].pos = i - 1
           /\ pos = Len(Subs(runs))
  /\ ~kv => \A r \in DOMAIN runs : \A i \in DOMAIN runs[r].sub : runs[r].sub[i].pos = i - 1

\* "the model receives each pending token exactly once": every token instance
\* ever created is submitted, still pending, or was cleared -- and with a KV
\* cache never submitted twice nor pending after it was submitted
ExactlyOnce ==
  LET subU == {e.uid : e \in {Events(runs)[i] : i \in DOMAIN Events(runs)}}
      pendU == UidSet(pending)
  IN /\ subU \cup pendU \cup cleared = 0..(nuid - 1)
     /\ kv => /\ Distinct([i \in DOMAIN Subs(runs) |-> Subs(runs)[i].uid])
              /\ {pending[i].uid : i \in {j \in DOMAIN pending : ~pending[j].rec}} \cap subU = {}
     \* a pending token is marked recorded iff the model has seen / produced it
     /\ \A i \in DOMAIN pending : pending[i].rec <=> pending[i].uid \in subU

\* "the cache passed in is the one it last returned"
CacheHandOff == /\ \A i \in DOMAIN runs : runs[i].cacheIn = i - 1
                /\ ver = Len(runs)

\* a run submits the whole pending list (nothing is held back or reordered)
WholePendingSubmitted ==
  \A r \in DOMAIN runs : Distinct([i \in DOMAIN runs[r].sub |-> runs[r].sub[i].uid])
=============================================================================
