CONSTANTS Modes = {"topk"}
  KLen = 5  Keys <- K5
  PLen = 0  Nums = {}
  PNums = {}
  CLen = 0  CNums = {}  CPNums = {}  Ks = {}
INIT Init
NEXT Next
INVARIANTS ContractAcceptsRef ContractRejectsNearMiss Emit
CHECK_DEADLOCK FALSE
