INIT TInit
NEXT TNext
INVARIANT Report
POSTCONDITION Accepted
CHECK_DEADLOCK FALSE
