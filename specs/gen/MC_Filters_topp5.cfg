CONSTANTS Modes = {"topp"}
  KLen = 0  Keys <- K5
  PLen = 5  Nums = {0, 64, 128, 256, 512}
  PNums = {0, 1, 64, 128, 192, 256, 320, 384, 512, 640, 768, 896, 1023, 1024}
  CLen = 0  CNums = {}  CPNums = {}  Ks = {}
INIT Init
NEXT Next
INVARIANTS ContractAcceptsRef ContractRejectsNearMiss Emit
CHECK_DEADLOCK FALSE
