CONSTANTS MaxLen = 3
INIT Init
NEXT Next
INVARIANTS ContractSane Emit
CHECK_DEADLOCK FALSE
