CONSTANTS MaxOps = 6  PromptLens = {0, 1, 2}  KVModes = {TRUE, FALSE}  SampledToks = {7}
INIT Init
NEXT Step
INVARIANTS PrevIsHistory PositionsContiguous ExactlyOnce CacheHandOff WholePendingSubmitted
CHECK_DEADLOCK FALSE
