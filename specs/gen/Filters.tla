------------------------------- MODULE Filters -------------------------------
(* Contracts of the rten-generate logit filters (C31), as pure predicates over *)
(* sparse score vectors.                                                       *)
(*                                                                             *)
(* A vector is a record [ids, key, num, exact]:                                *)
(*   ids[i]  token id (distinct),                                              *)
(*   key[i]  the score as its position in the IEEE-754 total order: the f32    *)
(*           bit pattern b mapped by  b ^ ((b >> 31) >>> 1)  (exactly the key  *)
(*           f32::total_cmp compares), a signed 32-bit integer, so             *)
(*             -NaN < -inf < negative < -0.0 < +0.0 < positive < +inf < +NaN   *)
(*           is the integer order and equal keys are identical bit patterns,   *)
(*   num[i]  when `exact`: the score is exactly num[i] / 1024 (a dyadic        *)
(*           probability), so sums can be formed exactly with integers.        *)
(*                                                                             *)
(* Reading choices (weakest reading that is still what C31 says):              *)
(*  - "ties and NaNs handled by total order": scores are compared by the total *)
(*    order, except that -0.0 and +0.0 count as the same score (they are equal *)
(*    as numbers; a filter may keep either).                                   *)
(*  - top-K output must be sorted descending (the statement says so); top-P    *)
(*    output is judged as a set (the statement does not say "sorted").         *)
(*  - "shortest prefix reaching the threshold" is judged on probability mass:  *)
(*    entries of probability zero carry no mass and may be kept.               *)
EXTENDS Naturals, Integers, Sequences, FiniteSets

PInf == 2139095040                  \* key of +inf
NInf == 0 - 2139095041              \* key of -inf
IsNaN(x) == x > PInf \/ x < NInf
HasNaN(v) == \E i \in DOMAIN v.key : IsNaN(v.key[i])

Norm(x) == IF x = 0 - 1 THEN 0 ELSE x          \* -0.0 counts as +0.0
\* a >= b in the total order (strict = FALSE: zero signs ignored)
Ge(a, b, strict) == IF strict THEN a >= b ELSE Norm(a) >= Norm(b)

Elems(s) == {s[i] : i \in DOMAIN s}
AllDistinct(s) == \A i, j \in DOMAIN s : i # j => s[i] # s[j]
MinNat(a, b) == IF a < b THEN a ELSE b
N(v) == Len(v.ids)

RECURSIVE SumSeq(_)
SumSeq(s) == IF s = <<>> THEN 0 ELSE Head(s) + SumSeq(Tail(s))
RECURSIVE MinSeq(_)
MinSeq(s) == IF Len(s) = 1 THEN s[1] ELSE LET m == MinSeq(Tail(s)) IN IF Head(s) < m THEN Head(s) ELSE m

WellFormed(o) == Len(o.ids) = Len(o.key)

\* every output entry is an input entry (same id, same score bits)
FromInput(v, o) ==
  \A j \in DOMAIN o.ids : \E i \in DOMAIN v.ids : v.ids[i] = o.ids[j] /\ v.key[i] = o.key[j]

\* o is a "top set" of v: no entry left out beats an entry kept
TopSetOk(v, o, strict) ==
  /\ WellFormed(o) /\ AllDistinct(o.ids) /\ FromInput(v, o)
  /\ \A i \in DOMAIN v.ids : v.ids[i] \notin Elems(o.ids) =>
        \A j \in DOMAIN o.ids : Ge(o.key[j], v.key[i], strict)

SortedDesc(o, strict) == \A j \in 1..(Len(o.key) - 1) : Ge(o.key[j], o.key[j + 1], strict)

\* ---------------------------------------------------------------- top-K
\* "keeps exactly min(K, n) candidates whose scores are the K largest (ties and
\*  NaNs handled by total order) sorted in descending order"     (DESIGN B.3)
TopKOkS(v, k, o, strict) ==
  /\ TopSetOk(v, o, strict)
  /\ Len(o.ids) = MinNat(k, N(v))
  /\ SortedDesc(o, strict)
TopKOk(v, k, o) == TopKOkS(v, k, o, FALSE)

\* ---------------------------------------------------------------- top-P
IndexOf(s, x) == CHOOSE i \in DOMAIN s : s[i] = x
\* exact numerators of the kept entries, looked up in the input by id
KeptNum(v, o) == [j \in DOMAIN o.ids |-> v.num[IndexOf(v.ids, o.ids[j])]]

\* the exact contract applies to sub-distributions on the 1/1024 grid
ExactDomain(v) == v.exact /\ Len(v.num) = N(v) /\ (\A i \in DOMAIN v.num : v.num[i] >= 0) /\ SumSeq(v.num) <= 1024

\* "keeps the shortest highest-probability prefix reaching the threshold and
\*  never returns an empty set for non-empty input"; pnum = ceil(1024 * p)
TopPExactOk(v, pnum, o) ==
  /\ TopSetOk(v, o, FALSE)
  /\ N(v) > 0 => Len(o.ids) > 0
  /\ LET kept == KeptNum(v, o)
         mass == SelectSeq(kept, LAMBDA x : x > 0)      \* entries that carry probability
     IN \* reaches the threshold (or nothing more could be added)
        /\ SumSeq(kept) >= pnum \/ Len(o.ids) = N(v)
        \* shortest: without its least massive entry it would not reach it
        /\ Len(mass) <= 1 \/ SumSeq(kept) - MinSeq(mass) < pnum

\* scores that are not probabilities on the grid (negative, NaN, inf, arbitrary
\* floats): only what the statement says for every input
TopPWeakOk(v, o) == TopSetOk(v, o, FALSE) /\ (N(v) > 0 => Len(o.ids) > 0)

\* normalize(true): the returned scores are probabilities, not the input scores,
\* so only the ids are judged: they form a top set of the input, non-empty
TopPNormOk(v, o) ==
  /\ AllDistinct(o.ids) /\ Elems(o.ids) \subseteq Elems(v.ids)
  /\ N(v) > 0 => Len(o.ids) > 0
  /\ \A i \in DOMAIN v.ids : v.ids[i] \notin Elems(o.ids) =>
        \A j \in DOMAIN o.ids : Ge(v.key[IndexOf(v.ids, o.ids[j])], v.key[i], FALSE)

\* ------------------------------------------------------- reference results
\* (used to validate the contracts themselves in MC_Filters: the contract must
\*  accept the textbook result and reject near misses)
RECURSIVE InsertDesc(_, _, _)
\* insert index x into the index sequence s, ordered by key descending (stable)
InsertDesc(s, x, key) ==
  IF s = <<>> THEN <<x>>
  ELSE IF key[Head(s)] >= key[x] THEN <<Head(s)>> \o InsertDesc(Tail(s), x, key)
       ELSE <<x>> \o s
RECURSIVE SortIdx(_, _)
SortIdx(n, key) == IF n = 0 THEN <<>> ELSE InsertDesc(SortIdx(n - 1, key), n, key)

Pick(v, idx) == [ids |-> [j \in DOMAIN idx |-> v.ids[idx[j]]],
                 key |-> [j \in DOMAIN idx |-> v.key[idx[j]]],
                 num |-> IF v.exact THEN [j \in DOMAIN idx |-> v.num[idx[j]]] ELSE <<>>,
                 exact |-> v.exact]
RefTopK(v, k) == Pick(v, SubSeq(SortIdx(N(v), v.key), 1, MinNat(k, N(v))))

RECURSIVE PrefixLen(_, _, _, _)
\* shortest non-empty prefix of nums (descending) whose sum reaches pnum, else all
PrefixLen(nums, pnum, taken, acc) ==
  IF taken = Len(nums) THEN taken
  ELSE IF taken >= 1 /\ acc >= pnum THEN taken
       ELSE PrefixLen(nums, pnum, taken + 1, acc + nums[taken + 1])
RefTopP(v, pnum) ==
  LET idx == SortIdx(N(v), v.key)
      nums == [j \in DOMAIN idx |-> v.num[idx[j]]]
  IN Pick(v, SubSeq(idx, 1, PrefixLen(nums, pnum, 0, 0)))
=============================================================================
