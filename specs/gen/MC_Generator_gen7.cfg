CONSTANTS MaxOps = 7  MaxPrompt = 2  KVModes = {TRUE, FALSE}  SampledToks = {7}
INIT Init
NEXT Step
INVARIANTS Emit
CHECK_DEADLOCK FALSE
