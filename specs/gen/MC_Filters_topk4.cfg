CONSTANTS Modes = {"topk"}
  KLen = 4  Keys <- K9
  PLen = 0  Nums = {}
  PNums = {}
  CLen = 0  CNums = {}  CPNums = {}  Ks = {}
INIT Init
NEXT Next
INVARIANTS ContractAcceptsRef ContractRejectsNearMiss Emit
CHECK_DEADLOCK FALSE
