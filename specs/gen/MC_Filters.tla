----------------------------- MODULE MC_Filters -----------------------------
(* Model checking of the filter contracts themselves over small input spaces *)
(* (the contract accepts the textbook result and rejects near misses), and   *)
(* generation of every case of those spaces for replay on the real filters.  *)
EXTENDS Filters, TLC, Json

CONSTANTS Modes,    \* subset of {"topk", "topp", "chain"}: which case spaces to enumerate
          KLen, Keys,           \* "topk": vectors of 0..KLen scores over the alphabet Keys (total-order keys), K in 0..n+2
          PLen, Nums, PNums,    \* "topp": 0..PLen numerators (score = num/1024), thresholds ceil(1024 p)
          CLen, CNums, CPNums, Ks  \* "chain": two-stage chains over 0..CLen numerators

VARIABLE c

\* score alphabets (negative numbers cannot be written in a cfg file)
\*      -NaN             -inf             -1.0          -0.0   +0.0  0.5          1.0         +inf        +NaN
K9 == {0 - 2143289345, 0 - 2139095041, 0 - 1065353217, 0 - 1, 0, 1056964608, 1065353216, 2139095040, 2143289344}
K5 == {0 - 2143289345, 0 - 1, 0, 1065353216, 2143289344}

\* total-order key of the f32 value num/1024 for the numerators used here
KeyOfNum(n) == CASE n = 0 -> 0
                 [] n = 64 -> 1031798784      \* 0.0625
                 [] n = 128 -> 1040187392     \* 0.125
                 [] n = 192 -> 1044381696     \* 0.1875
                 [] n = 256 -> 1048576000     \* 0.25
                 [] n = 384 -> 1052770304     \* 0.375
                 [] n = 512 -> 1056964608     \* 0.5
                 [] n = 768 -> 1061158912     \* 0.75
                 [] n = 1024 -> 1065353216    \* 1.0

SeqsOver(S, maxLen) == UNION {[1..n -> S] : n \in 0..maxLen}
F(name, k, pnum) == [f |-> name, k |-> k, pnum |-> pnum, norm |-> FALSE]

KeyCase(s, chain) == [key |-> s, num |-> <<>>, exact |-> FALSE, chain |-> chain]
NumCase(s, chain) == [key |-> [i \in DOMAIN s |-> KeyOfNum(s[i])], num |-> s, exact |-> TRUE, chain |-> chain]

TopKCases ==
  {KeyCase(s, <<F("top_k", k, 0)>>) : <<s, k>> \in {x \in SeqsOver(Keys, KLen) \X (0..(KLen + 2)) : x[2] <= Len(x[1]) + 2}}
TopPCases ==
  {NumCase(s, <<F("top_p", 0, p)>>) : <<s, p>> \in {x \in SeqsOver(Nums, PLen) \X PNums : SumSeq(x[1]) <= 1024}}
ChainCases ==
  LET S == {s \in SeqsOver(CNums, CLen) : SumSeq(s) <= 1024} IN
    {NumCase(s, <<F("top_p", 0, p), F("top_k", k, 0)>>) : <<s, p, k>> \in S \X CPNums \X Ks}
    \cup {NumCase(s, <<F("top_k", k, 0), F("top_p", 0, p)>>) : <<s, p, k>> \in S \X CPNums \X Ks}
    \cup {NumCase(s, <<F("top_k", k, 0), F("top_k", k2, 0)>>) : <<s, k, k2>> \in S \X Ks \X Ks}
Cases == (IF "topk" \in Modes THEN TopKCases ELSE {})
           \cup (IF "topp" \in Modes THEN TopPCases ELSE {})
           \cup (IF "chain" \in Modes THEN ChainCases ELSE {})

Init == c \in Cases
Next == UNCHANGED c

Vec(cs) == [ids |-> [i \in DOMAIN cs.key |-> i - 1], key |-> cs.key, num |-> cs.num, exact |-> cs.exact]

Ref(v, f) == IF f.f = "top_k" THEN RefTopK(v, f.k) ELSE RefTopP(v, f.pnum)
Ok(v, f, o) == IF f.f = "top_k" THEN TopKOk(v, f.k, o) ELSE ExactDomain(v) /\ TopPExactOk(v, f.pnum, o)

RECURSIVE RefChainOk(_, _)
\* the textbook result of every stage satisfies that stage's contract
RefChainOk(v, chain) ==
  IF chain = <<>> THEN TRUE
  ELSE LET o == Ref(v, Head(chain)) IN Ok(v, Head(chain), o) /\ RefChainOk(o, Tail(chain))

ContractAcceptsRef == RefChainOk(Vec(c), c.chain)

DropLast(o) == [o EXCEPT !.ids = SubSeq(@, 1, Len(@) - 1), !.key = SubSeq(@, 1, Len(@) - 1)]
Reversed(o) == [o EXCEPT !.ids = [j \in DOMAIN @ |-> @[Len(@) + 1 - j]], !.key = [j \in DOMAIN @ |-> @[Len(@) + 1 - j]]]
\* the reference result with entry number i of the input appended
Plus(v, o, i) == [o EXCEPT !.ids = Append(@, v.ids[i]), !.key = Append(@, v.key[i])]
ReplaceLast(v, o, i) == Plus(v, DropLast(o), i)

\* near misses of the first stage are rejected
ContractRejectsNearMiss ==
  LET v == Vec(c)  f == c.chain[1]  o == Ref(v, f)  m == Len(o.ids)
      out == {i \in DOMAIN v.ids : v.ids[i] \notin Elems(o.ids)}
  IN IF f.f = "top_k"
     THEN /\ m >= 1 => ~TopKOk(v, f.k, DropLast(o))                                   \* too few
          /\ \A i \in out : ~TopKOk(v, f.k, Plus(v, o, i))                             \* too many
          /\ (m >= 2 /\ Norm(o.key[1]) # Norm(o.key[m])) => ~TopKOk(v, f.k, Reversed(o))   \* unsorted
          /\ m >= 1 => \A i \in out : Norm(v.key[i]) < Norm(o.key[m]) => ~TopKOk(v, f.k, ReplaceLast(v, o, i))  \* not the largest
     ELSE /\ (m >= 2 /\ v.num[IndexOf(v.ids, o.ids[m])] > 0) => ~TopPExactOk(v, f.pnum, DropLast(o))  \* does not reach p
          /\ \A i \in out : v.num[i] > 0 /\ (\A j \in out : v.num[j] <= v.num[i])
                              => ~TopPExactOk(v, f.pnum, Plus(v, o, i))                \* not the shortest
          /\ N(v) > 0 => ~TopPExactOk(v, f.pnum, [o EXCEPT !.ids = <<>>, !.key = <<>>])  \* empty

Emit == PrintT(<<"REPLAY", ToJson(c)>>)
=============================================================================
