CONSTANTS Modes = {"chain"}
  KLen = 0  Keys <- K5
  PLen = 0  Nums = {}
  PNums = {}
  CLen = 4  CNums = {0, 128, 256, 512}  CPNums = {0, 128, 512, 768, 1024}  Ks = {0, 1, 2, 3, 5}
INIT Init
NEXT Next
INVARIANTS ContractAcceptsRef ContractRejectsNearMiss Emit
CHECK_DEADLOCK FALSE
