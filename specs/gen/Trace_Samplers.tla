--------------------------- MODULE Trace_Samplers ---------------------------
(* Trace validation for C33.  A case is a sampler, a seed and a sequence of   *)
(* input vectors vs.  `seq` records hold what two samplers created with the   *)
(* same seed returned for the same sequence of inputs (rounds over vs);       *)
(* `pick` records hold the distinct ids the sampler returned for vs[i] over   *)
(* many further draws (with counts).  All judging is done here.               *)
EXTENDS Samplers, TraceLib

VARIABLES l, nbad, ncase, k, ndraws, npanic, noutside,
          okIds,     \* per input vector of the case: the ids the contract allows
          judged     \* per input vector: is it in the property's domain

e == Rec[l]
TInit == l = 1 /\ nbad = NoBad /\ ncase = 0 /\ k = [ev |-> "none"] /\ ndraws = 0 /\ npanic = 0 /\ noutside = 0
         /\ okIds = <<>> /\ judged = <<>>

\* the property's domain
Judged(v, sampler) == InDomain(v) /\ (sampler = "multinomial" => HasFinite(v))
\* ArgMaxOk / MultinomialOk as sets, computed once per case
Allowed(v, sampler) == IF sampler = "argmax" THEN ArgMaxIds(v) ELSE Support(v)
Cls(v, sampler, id) == IF sampler = "argmax" THEN (IF id \in Elems(v.ids) THEN "not_maximal" ELSE "not_a_candidate")
                       ELSE Why(v, id)

Case == /\ e.ev = "case"
        /\ k' = e /\ ncase' = ncase + 1
        /\ judged' = [i \in DOMAIN e.vs |-> Judged(e.vs[i], e.sampler)]
        /\ okIds' = [i \in DOMAIN e.vs |-> IF Judged(e.vs[i], e.sampler) THEN Allowed(e.vs[i], e.sampler) ELSE {}]
        /\ noutside' = IF \A i \in DOMAIN e.vs : Judged(e.vs[i], e.sampler) THEN noutside ELSE noutside + 1
        /\ UNCHANGED <<nbad, ndraws, npanic>>

Doc == [case |-> [ev |-> k.ev, sampler |-> k.sampler, seed |-> k.seed, dense |-> k.dense, src |-> k.src,
                  draws |-> k.draws, rounds |-> k.rounds, useeds |-> k.useeds, vs |-> k.vs], event |-> e]

\* "with a fixed seed returns the same sequence for the same inputs"
SeqRec ==
  /\ e.ev = "seq"
  /\ LET nv == Len(k.vs)
         ix(j) == ((j - 1) % nv) + 1
         vecOf(j) == k.vs[ix(j)]
         allJudged == \A i \in DOMAIN judged : judged[i]
         bad == {j \in DOMAIN e.a : e.a[j] \notin okIds[ix(j)]}
         b1 == Flag(nbad, (e.outcome = "ok" /\ allJudged) => e.a = e.b,
                    [sampler |-> k.sampler, check |-> "determinism", cls |-> "same_seed_same_inputs"], Doc)
         b2 == Flag(b1, (e.outcome = "ok" /\ allJudged) => bad = {},
                    [sampler |-> k.sampler, check |-> "candidate",
                     cls |-> IF bad = {} THEN "" ELSE LET j == CHOOSE x \in bad : TRUE IN Cls(vecOf(j), k.sampler, e.a[j])], Doc)
     IN nbad' = b2
  /\ ndraws' = ndraws + Len(e.a)
  /\ npanic' = IF e.outcome = "ok" THEN npanic ELSE npanic + 1
  /\ UNCHANGED <<ncase, k, noutside, okIds, judged>>

\* validity of everything returned for vs[e.i]
Pick ==
  /\ e.ev = "pick"
  /\ LET v == k.vs[e.i]
         bad == Elems(e.ids) \ okIds[e.i]
     IN nbad' = Flag(nbad, (e.outcome = "ok" /\ judged[e.i]) => bad = {},
                     [sampler |-> k.sampler, check |-> "candidate",
                      cls |-> IF bad = {} THEN "" ELSE Cls(v, k.sampler, CHOOSE id \in bad : TRUE)], Doc)
  /\ ndraws' = ndraws + e.total
  /\ npanic' = IF e.outcome = "ok" THEN npanic ELSE npanic + 1
  /\ UNCHANGED <<ncase, k, noutside, okIds, judged>>

\* controlled draws: e.ids[j] is what a fresh Multinomial::with_seed(k.useeds[j])
\* returned for vs[e.i]; its uniform draw (first f32 of that seed) has the bit
\* pattern e.ubits[j] -- the seeds are chosen so that the draws include the
\* largest and smallest values f32 draws can take (rounding gap above the sum
\* of the probabilities, first candidate).  Whatever the draw and whatever the
\* summation order, the id must be a candidate with non-zero probability.
UDraw ==
  /\ e.ev = "udraw"
  /\ LET v == k.vs[e.i]
         bad == Elems(e.ids) \ okIds[e.i]
     IN nbad' = Flag(nbad, (e.outcome = "ok" /\ judged[e.i]) => (bad = {} /\ Len(e.ids) = Len(k.useeds)),
                     [sampler |-> k.sampler, check |-> "candidate",
                      cls |-> IF bad = {} THEN "" ELSE Cls(v, k.sampler, CHOOSE id \in bad : TRUE)], Doc)
  /\ ndraws' = ndraws + Len(e.ids)
  /\ npanic' = IF e.outcome = "ok" THEN npanic ELSE npanic + 1
  /\ UNCHANGED <<ncase, k, noutside, okIds, judged>>

TNext == /\ l <= NRec /\ l' = l + 1 /\ (Case \/ SeqRec \/ Pick \/ UDraw)

Report == l = NRec + 1 =>
            /\ ReportBad(nbad)
            /\ Stat("cases", ncase) /\ Stat("draws", ndraws)
            /\ Stat("panics", npanic) /\ Stat("cases_outside_domain", noutside)
=============================================================================
