---------------------------- MODULE MC_Samplers ----------------------------
(* Sanity of the sampler contracts over a small input space and enumeration  *)
(* of that space for replay on the real samplers.                            *)
EXTENDS Samplers, TLC, Json
CONSTANTS MaxLen
VARIABLE c
\*        -inf            -1.0            -0.0   +0.0  1.0         30.0
A6 == {0 - 2139095041, 0 - 1065353217, 0 - 1, 0, 1065353216, 1106247680}
Vecs == UNION {[1..n -> A6] : n \in 1..MaxLen}
Cases == {[sampler |-> s, key |-> k] : <<s, k>> \in {x \in {"argmax", "multinomial"} \X Vecs :
                                          x[1] = "multinomial" => \E i \in DOMAIN x[2] : x[2][i] > NInf}}
Init == c \in Cases
Next == UNCHANGED c
V == [ids |-> [i \in DOMAIN c.key |-> 2 * i + 1], key |-> c.key]

\* the contracts are satisfiable, pick only candidates, and are not vacuous
ContractSane ==
  /\ InDomain(V)
  /\ ArgMaxIds(V) # {} /\ ArgMaxIds(V) \subseteq Elems(V.ids)
  /\ \A i \in DOMAIN V.ids : ArgMaxOk(V, V.ids[i]) <=> (\A j \in DOMAIN V.ids : Norm(V.key[i]) >= Norm(V.key[j]))
  /\ (HasFinite(V) <=> Support(V) # {}) /\ Support(V) \subseteq Elems(V.ids)
  /\ \A i \in DOMAIN V.ids : MultinomialOk(V, V.ids[i]) <=> V.key[i] > NInf
  /\ ~ArgMaxOk(V, 0) /\ ~MultinomialOk(V, 0)
Emit == PrintT(<<"REPLAY", ToJson(c)>>)
=============================================================================
