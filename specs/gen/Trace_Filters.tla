---------------------------- MODULE Trace_Filters ----------------------------
(* Trace validation for C31.  A case is an input vector and a chain of        *)
(* filters.  The harness applies the filters one by one (`stage` records:     *)
(* what filter i returned for the output of filter i-1) and once as a         *)
(* rten_generate::filter::Chain (`chain` record).  Every stage is judged      *)
(* against the contract of its filter in Filters.tla, evaluated here from the *)
(* logged input and output; the chain must equal the composition.             *)
(* A panic is an outcome like any other: C31 says no filter panics.           *)
EXTENDS Filters, TraceLib

VARIABLES l, nbad, ncase, k,
          cur,       \* input of the next stage = what the previous stage really returned
          broken,    \* a stage of this case panicked
          nstage, nexact, nrelaxed

e == Rec[l]
NoVec == [ids |-> <<>>, key |-> <<>>, num |-> <<>>, exact |-> FALSE]

TInit == /\ l = 1 /\ nbad = NoBad /\ ncase = 0 /\ k = [ev |-> "none"] /\ cur = NoVec /\ broken = FALSE
         /\ nstage = 0 /\ nexact = 0 /\ nrelaxed = 0

Case == /\ e.ev = "case"
        /\ k' = e /\ cur' = e.v /\ broken' = FALSE /\ ncase' = ncase + 1
        /\ UNCHANGED <<nbad, nstage, nexact, nrelaxed>>

TopKClass(v, kk) == IF kk > N(v) /\ N(v) > 0 THEN "k_gt_n"
                    ELSE IF HasNaN(v) THEN "nan" ELSE "plain"
TopPClass(v, f) == IF f.norm THEN "normalized" ELSE IF ExactDomain(v) THEN "exact" ELSE "weak"
Class(v, f) == CASE f.f = "top_k" -> TopKClass(v, f.k)
                 [] f.f = "top_p" -> TopPClass(v, f)
                 [] OTHER -> "any"

\* the contract of filter f for input v and output o, in two parts so that the
\* signature says what failed: "shape" (how many entries, which ids, scores
\* copied from the input; for top-P the whole contract) and "order" (top-K
\* only: the kept scores are the largest and sorted descending)
Shape(v, f, o) ==
  CASE f.f = "top_k" -> /\ WellFormed(o) /\ AllDistinct(o.ids) /\ FromInput(v, o)
                        /\ Len(o.ids) = MinNat(f.k, N(v))
    [] f.f = "top_p" -> IF f.norm THEN TopPNormOk(v, o)
                        ELSE IF ExactDomain(v) THEN TopPExactOk(v, f.pnum, o)
                        ELSE TopPWeakOk(v, o)
    [] OTHER -> TRUE      \* temperature, token-id filter: C31 only says they do not panic
Order(v, f, o) == f.f = "top_k" => TopKOk(v, f.k, o)

Stage ==
  /\ e.ev = "stage"
  /\ LET f == k.chain[e.i]
         cls == Class(cur, f)
         doc == [case |-> k, stage |-> e.i, input |-> cur, event |-> e]
         b1 == Flag(nbad, e.outcome = "ok", [f |-> f.f, check |-> "panic", cls |-> cls], doc)
         b2 == Flag(b1, e.outcome = "ok" => Shape(cur, f, e.v), [f |-> f.f, check |-> "contract", cls |-> cls], doc)
         b3 == Flag(b2, (e.outcome = "ok" /\ Shape(cur, f, e.v)) => Order(cur, f, e.v), [f |-> f.f, check |-> "order", cls |-> cls], doc)
     IN /\ nbad' = b3
        /\ cur' = IF e.outcome = "ok" THEN e.v ELSE cur
        /\ broken' = (broken \/ e.outcome # "ok")
        /\ nexact' = IF f.f = "top_p" /\ ~f.norm /\ ExactDomain(cur) THEN nexact + 1 ELSE nexact
        \* results that are right only because -0.0 and +0.0 count as the same score
        /\ nrelaxed' = IF f.f = "top_k" /\ e.outcome = "ok" /\ (\E i \in DOMAIN cur.key : cur.key[i] = 0 - 1)
                          /\ TopKOk(cur, f.k, e.v) /\ ~TopKOkS(cur, f.k, e.v, TRUE)
                       THEN nrelaxed + 1 ELSE nrelaxed
  /\ nstage' = nstage + 1
  /\ UNCHANGED <<ncase, k>>

\* "chained filters behave as their composition"
ChainRec ==
  /\ e.ev = "chain"
  /\ LET doc == [case |-> k, composition |-> cur, event |-> e]
         ok == IF broken THEN e.outcome # "ok"
               ELSE e.outcome = "ok" /\ e.v.ids = cur.ids /\ e.v.key = cur.key
     IN nbad' = Flag(nbad, ok, [f |-> "chain", check |-> "composition",
                                cls |-> IF broken THEN "stage_panicked" ELSE "all_stages_ok"], doc)
  /\ UNCHANGED <<ncase, k, cur, broken, nstage, nexact, nrelaxed>>

TNext == /\ l <= NRec /\ l' = l + 1 /\ (Case \/ Stage \/ ChainRec)

Report == l = NRec + 1 =>
            /\ ReportBad(nbad)
            /\ Stat("cases", ncase) /\ Stat("stages", nstage)
            /\ Stat("topp_exact", nexact) /\ Stat("zero_sign_relaxed", nrelaxed)
=============================================================================
