CONSTANTS Modes = {"topk", "topp", "chain"}
  KLen = 3  Keys <- K9
  PLen = 4  Nums = {0, 128, 256, 512}
  PNums = {0, 1, 128, 256, 384, 512, 640, 768, 1023, 1024}
  CLen = 3  CNums = {0, 256, 512}  CPNums = {0, 256, 512, 768, 1024}  Ks = {0, 1, 2, 4}
INIT Init
NEXT Next
INVARIANTS ContractAcceptsRef ContractRejectsNearMiss Emit
CHECK_DEADLOCK FALSE
