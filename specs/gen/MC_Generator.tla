---------------------------- MODULE MC_Generator ----------------------------
EXTENDS Generator, TLC, Json

\* Behaviour generator: print each maximal history once (with the model kind).
Emit == (done \/ Len(hist) = MaxOps) => PrintT(<<"REPLAY", ToJson([kv |-> kv, ops |-> hist])>>)
=============================================================================
