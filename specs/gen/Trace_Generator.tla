--------------------------- MODULE Trace_Generator ---------------------------
(* Trace validation for C32.  Each case is a call history replayed on a real  *)
(* rten_generate::Generator over the recording mock model.  The abstract      *)
(* state is that of the Generator contract; every `op` record is explained by *)
(* the contract action of the same name, and what the real code did (the      *)
(* mock's submission log, prev_tokens()) is judged against what the contract  *)
(* action specifies.  The state always advances on the specified successor.   *)
EXTENDS Generator, TraceLib

VARIABLES l, nbad, ncase, k,
          prevObs,   \* prev_tokens() as observed after the previous call of the case
          nopen,     \* next() calls with nothing pending (outcome left open)
          nacc       \* accessor cross-checks (prompt(), kv_cache_len(), mask) that disagree

e == Rec[l]

TInit == /\ l = 1 /\ nbad = NoBad /\ ncase = 0 /\ k = [ev |-> "none"]
         /\ prevObs = <<>> /\ nopen = 0 /\ nacc = 0
         /\ kv = FALSE /\ pending = <<>> /\ pos = 0 /\ ver = 0 /\ prev = <<>>
         /\ runs = <<>> /\ nuid = 0 /\ cleared = {} /\ hist = <<>> /\ done = FALSE

Case == /\ e.ev = "case"
        /\ k' = e /\ ncase' = ncase + 1 /\ prevObs' = <<>>
        /\ kv' = e.kv /\ pending' = <<>> /\ pos' = 0 /\ ver' = 0 /\ prev' = <<>>
        /\ runs' = <<>> /\ nuid' = 0 /\ cleared' = {} /\ hist' = <<>> /\ done' = FALSE
        /\ UNCHANGED <<nbad, nopen, nacc>>

\* ---- what the contract specifies for a run from the current state ----
ExpIds == TokOf(pending)
ExpPos == LET sub == Submission(pending, kv, pos) IN [i \in DOMAIN sub |-> sub[i].pos]
ExpCache == TokOf(Subs(runs))        \* tokens the cache must hold (KV case)

\* x = what the mock found in KV-cache input number i (len = -1: input absent)
SlotOk(x, i, cache) ==
  /\ x.len = pos
  /\ Len(x.toks) = k.heads /\ \A h \in DOMAIN x.toks : x.toks[h] = cache
  /\ \A v \in Range(x.vers) : v = ver      \* every row comes from the cache returned last
  /\ \A t \in Range(x.tags) : t = i - 1    \* and from the same layer / key-value slot

\* class of the prev_tokens step, for the signature
PrevClass(isRun) ==
  IF ~isRun THEN "no_run"
  ELSE IF Unrecorded(pending) = <<>> THEN "no_new_prompt"
  ELSE IF prevObs = <<>> THEN "initial_prompt"
  ELSE "prompt_after_recorded_history"

Mode == IF kv THEN "kv" ELSE "no_kv"
Sig(check, cls) == [op |-> e.op, check |-> check, cls |-> cls]
Doc(delta) == [case |-> k, event |-> e,
               expect |-> [ids |-> ExpIds, pos |-> ExpPos, cache |-> ExpCache, ver |-> ver,
                           prev |-> prevObs \o delta]]

\* calls that must not run the model
Quiet ==
  LET d == Doc(<<>>)
      b1 == Flag(nbad, e.outcome = "ok", Sig("outcome", Mode), d)
      b2 == Flag(b1, e.runs = <<>>, Sig("runs", Mode), d)
      b3 == Flag(b2, e.outcome = "ok" => e.prev = prevObs, Sig("prev_tokens", PrevClass(FALSE)), d)
  IN /\ nbad' = b3
     /\ prevObs' = IF e.outcome = "ok" THEN e.prev ELSE prevObs
     /\ UNCHANGED nopen

\* calls that run the model once, submitting the pending tokens
Judged(logits) ==
  LET r == e.runs
      one == Len(r) = 1
      s == IF one /\ logits THEN r[1].chosen ELSE 0      \* the token the model produced
      delta == PrevDelta(pending, logits, s)
      cache == ExpCache
      d == Doc(delta)
      b1 == Flag(nbad, e.outcome = "ok", Sig("outcome", Mode), d)
      b2 == Flag(b1, one, Sig("runs", Mode), d)
      b3 == Flag(b2, one => r[1].ids = ExpIds, Sig("submitted_ids", Mode), d)
      b4 == Flag(b3, one => (r[1].pos = ExpPos /\ r[1].cpos = ExpPos), Sig("positions", Mode), d)
      b5 == Flag(b4, one => IF kv THEN /\ Len(r[1].kv_in) = k.slots
                                       /\ \A i \in DOMAIN r[1].kv_in : SlotOk(r[1].kv_in[i], i, cache)
                            ELSE r[1].kv_in = <<>>,
                 Sig("kv_cache", Mode), d)
      b6 == Flag(b5, e.outcome = "ok" => e.prev = prevObs \o delta, Sig("prev_tokens", PrevClass(TRUE)), d)
  IN /\ nbad' = b6
     /\ prevObs' = IF e.outcome = "ok" THEN e.prev ELSE prevObs
     /\ UNCHANGED nopen

ProducedTok == IF Len(e.runs) = 1 THEN e.runs[1].chosen ELSE 0

Op == /\ e.ev = "op"
      /\ UNCHANGED <<ncase, k>>
      /\ CASE e.op = "with_prompt" -> WithPrompt(e.toks) /\ Quiet
           [] e.op = "append" -> AppendPrompt(e.toks) /\ Quiet
           [] e.op = "clear" -> ClearPrompt /\ Quiet
           [] e.op = "process" -> ProcessPrompt /\ Judged(FALSE)
           [] e.op = "next" ->
                IF pending = <<>>
                THEN NextEmpty /\ nopen' = nopen + 1 /\ UNCHANGED <<nbad, prevObs>>
                ELSE Next(ProducedTok) /\ Judged(TRUE)
      \* accessors (not part of the property; a disagreement is reported as drift)
      /\ nacc' = IF e.outcome = "ok" /\ ~done'
                    /\ (\/ e.prompt # TokOf(pending')
                        \/ e.kvlen # (IF kv THEN pos' ELSE 0 - 1)
                        \/ \E i \in DOMAIN e.runs : e.runs[i].mask # (IF kv THEN pos' ELSE Len(e.runs[i].ids)))
                 THEN nacc + 1 ELSE nacc

TNext == /\ l <= NRec /\ l' = l + 1 /\ (Case \/ Op)

Report == l = NRec + 1 =>
            /\ ReportBad(nbad)
            /\ Stat("cases", ncase)
            /\ Stat("next_on_empty", nopen)
            /\ Stat("accessor_mismatch", nacc)
=============================================================================
