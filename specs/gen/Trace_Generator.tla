--------------------------- MODULE Trace_Generator ---------------------------
(* Trace validation for C32.  Each case is a call history replayed on a real  *)
(* rten_generate::Generator over the recording mock model.  The abstract      *)
(* state is that of the Generator contract; every `op` record is explained by *)
(* the contract action of the same name, and what the real code did (the      *)
(* mock's submission log, prev_tokens(), kv_cache_len()) is judged against    *)
(* what the contract action specifies.  The state always advances on the      *)
(* specified successor.                                                       *)
(*                                                                            *)
(* Histories are replayed in lexicographic order; a case whose first `keep`   *)
(* calls equal those of the previous case (same model variant) carries `op`   *)
(* records only for the calls after them: those first calls were judged in    *)
(* the previous case, and the contract state reached after them is restored   *)
(* from `saved` (one snapshot per call of the current path, so its size is    *)
(* bounded by the history length, not by the trace length).                   *)
EXTENDS Generator, TraceLib

VARIABLES l, nbad, ncase, k,
          prevObs,   \* prev_tokens() as observed after the previous call of the case
          saved,     \* saved[d + 1] = snapshot after d calls of the current path
          nopen,     \* next() calls with nothing pending (outcome left open)
          nacc,      \* cross-checks outside the property (prompt(), mask, constant input) that disagree
          nops

e == Rec[l]

Snapshot(pe, po, ve, pr, ru, nu, cl, dn, ob) ==
  [pending |-> pe, pos |-> po, ver |-> ve, prev |-> pr, runs |-> ru, nuid |-> nu, cleared |-> cl, done |-> dn, obs |-> ob]
Fresh == Snapshot(<<>>, 0, 0, <<>>, <<>>, 0, {}, FALSE, <<>>)

TInit == /\ l = 1 /\ nbad = NoBad /\ ncase = 0 /\ k = [ev |-> "none"]
         /\ prevObs = <<>> /\ nopen = 0 /\ nacc = 0 /\ nops = 0 /\ saved = <<Fresh>>
         /\ kv = FALSE /\ pending = <<>> /\ pos = 0 /\ ver = 0 /\ prev = <<>>
         /\ runs = <<>> /\ nuid = 0 /\ cleared = {} /\ hist = <<>> /\ done = FALSE

Case == /\ e.ev = "case"
        /\ k' = e /\ ncase' = ncase + 1
        /\ LET \* keep > 0 only continues the previous case of the same pass
               d == IF e.keep = 0 \/ e.kv # kv THEN 0
                    ELSE IF e.keep + 1 <= Len(saved) THEN e.keep ELSE Len(saved) - 1
               s == IF d = 0 THEN Fresh ELSE saved[d + 1]
           IN /\ saved' = IF d = 0 THEN <<Fresh>> ELSE SubSeq(saved, 1, d + 1)
              /\ kv' = e.kv /\ pending' = s.pending /\ pos' = s.pos /\ ver' = s.ver /\ prev' = s.prev
              /\ runs' = s.runs /\ nuid' = s.nuid /\ cleared' = s.cleared /\ done' = s.done
              /\ prevObs' = s.obs /\ hist' = <<>>
        /\ UNCHANGED <<nbad, nopen, nacc, nops>>

\* ---- what the contract specifies for a run from the current state ----
ExpIds == TokOf(pending)
ExpPos == LET sub == Submission(pending, kv, pos) IN [i \in DOMAIN sub |-> sub[i].pos]
ExpFirst == IF kv THEN pos ELSE 0
ExpCache == TokOf(Subs(runs))        \* tokens the cache must hold (KV case)

\* x = what the mock found in its KV-cache inputs (lens[i] = -1: input absent)
CacheOk(x, cache) ==
  IF ~kv THEN x.lens = <<>>
  ELSE /\ Len(x.lens) = k.slots /\ \A i \in DOMAIN x.lens : x.lens[i] = pos
       /\ \A i \in DOMAIN x.rows : x.rows[i] = cache      \* every head of every cache holds exactly the tokens fed so far
       /\ \A i \in DOMAIN x.vers : x.vers[i] = ver        \* every row comes from the cache returned last
       /\ \A i \in DOMAIN x.tags : x.tags[i][1] = x.tags[i][2]   \* and from the same layer / key-value slot

\* class of the prev_tokens step, for the signature
PrevClass(isRun) ==
  IF ~isRun THEN "no_run"
  ELSE IF Unrecorded(pending) = <<>> THEN "no_new_prompt"
  ELSE IF prevObs = <<>> THEN "initial_prompt"
  ELSE "prompt_after_recorded_history"

Mode == IF kv THEN "kv" ELSE "no_kv"
\* has a token the model produced been dropped unfed (clear_prompt / with_prompt)?
Dropped == IF \E i \in DOMAIN runs : \E j \in DOMAIN runs[i].out : runs[i].out[j].uid \in cleared
           THEN "after_dropped_sampled_token" ELSE "plain"
Sig(check, cls) == [op |-> e.op, check |-> check, cls |-> cls]
Doc(delta) == [case |-> k, event |-> e,
               expect |-> [ids |-> ExpIds, pos |-> ExpPos, cache |-> ExpCache, ver |-> ver,
                           prev |-> prevObs \o delta]]

\* calls that must not run the model
Quiet(kvlenAfter) ==
  LET d == Doc(<<>>)
      b1 == Flag(nbad, e.outcome = "ok", Sig("outcome", Mode), d)
      b2 == Flag(b1, e.runs = <<>>, Sig("runs", Mode), d)
      b3 == Flag(b2, e.outcome = "ok" => e.prev = prevObs, Sig("prev_tokens", PrevClass(FALSE)), d)
      b4 == Flag(b3, e.outcome = "ok" => e.kvlen = kvlenAfter, Sig("kv_cache_len", Mode), d)
  IN /\ nbad' = b4
     /\ prevObs' = IF e.outcome = "ok" THEN e.prev ELSE prevObs
     /\ UNCHANGED nopen

\* calls that run the model once, submitting the pending tokens
Judged(logits, kvlenAfter) ==
  LET r == e.runs
      one == Len(r) = 1
      s == IF one /\ logits THEN r[1].chosen ELSE 0      \* the token the model produced
      delta == PrevDelta(pending, logits, s)
      cache == ExpCache
      n == Len(pending)
      d == Doc(delta)
      b1 == Flag(nbad, e.outcome = "ok", Sig("outcome", Mode), d)
      b2 == Flag(b1, one, Sig("runs", Mode), d)
      b3 == Flag(b2, one => r[1].ids = ExpIds, Sig("submitted_ids", Mode), d)
      \* position_ids, cache_position and the range handed to a varying input
      b4 == Flag(b3, one => /\ r[1].pos = ExpPos /\ r[1].cpos = ExpPos
                            /\ r[1].aux # <<>> => r[1].aux = <<ExpFirst, ExpFirst + n>>,
                 Sig("positions", Dropped), d)
      b5 == Flag(b4, one => CacheOk(r[1].kv_in, cache), Sig("kv_cache", Mode), d)
      b6 == Flag(b5, e.outcome = "ok" => e.prev = prevObs \o delta, Sig("prev_tokens", PrevClass(TRUE)), d)
      b7 == Flag(b6, e.outcome = "ok" => e.kvlen = kvlenAfter, Sig("kv_cache_len", Mode), d)
  IN /\ nbad' = b7
     /\ prevObs' = IF e.outcome = "ok" THEN e.prev ELSE prevObs
     /\ UNCHANGED nopen

ProducedTok == IF Len(e.runs) = 1 THEN e.runs[1].chosen ELSE 0
KvLenIf(p) == IF kv THEN p ELSE 0 - 1

Op == /\ e.ev = "op"
      /\ UNCHANGED <<ncase, k>>
      /\ nops' = nops + 1
      /\ CASE e.op = "with_prompt" -> WithPrompt(e.toks) /\ Quiet(KvLenIf(pos))
           [] e.op = "append" -> AppendPrompt(e.toks) /\ Quiet(KvLenIf(pos))
           [] e.op = "clear" -> ClearPrompt /\ Quiet(KvLenIf(pos))
           [] e.op = "process" -> ProcessPrompt /\ Judged(FALSE, KvLenIf(pos + Len(pending)))
           [] e.op = "next" ->
                IF pending = <<>>
                THEN NextEmpty /\ nopen' = nopen + 1 /\ UNCHANGED <<nbad, prevObs>>
                ELSE Next(ProducedTok) /\ Judged(TRUE, KvLenIf(pos + Len(pending)))
      /\ saved' = Append(saved, Snapshot(pending', pos', ver', prev', runs', nuid', cleared', done', prevObs'))
      \* cross-checks that are not part of the property (a disagreement is reported as drift)
      /\ nacc' = IF e.outcome = "ok" /\ ~done'
                    /\ (\/ e.prompt # TokOf(pending')
                        \/ \E i \in DOMAIN e.runs : e.runs[i].mask # (IF kv THEN pos' ELSE Len(e.runs[i].ids))
                        \/ \E i \in DOMAIN e.runs : e.runs[i].konst # (IF k.variant.extra THEN 77 ELSE 0 - 1))
                 THEN nacc + 1 ELSE nacc

TNext == /\ l <= NRec /\ l' = l + 1 /\ (Case \/ Op)

Report == l = NRec + 1 =>
            /\ ReportBad(nbad)
            /\ Stat("cases", ncase) /\ Stat("calls_judged", nops)
            /\ Stat("next_on_empty", nopen)
            /\ Stat("accessor_mismatch", nacc)
=============================================================================
