---------------------------- MODULE Trace_Prepack ----------------------------
(* Trace validation for C02 (real operators): MatMul models with constant      *)
(* weights - chained, inside If branches, shared with a transposed use - run    *)
(* with prepacking on/off, optimisation on/off and different thread pools.      *)
(* The expected outputs are integer matrix products computed here.              *)
EXTENDS TraceLib

VARIABLES l, bad, c, nruns
Init == l = 1 /\ bad = NoBad /\ c = [ev |-> "none"] /\ nruns = 0
e == Rec[l]

\* row-major matrices as sequences
RECURSIVE DotR(_, _, _, _, _, _, _)
DotR(a, b, i, j, kk, K, N) == IF kk = 0 THEN 0 ELSE a[(i - 1) * K + kk] * b[(kk - 1) * N + j] + DotR(a, b, i, j, kk - 1, K, N)
MatMul(a, M, K, b, N) == [p \in 1..(M * N) |-> DotR(a, b, ((p - 1) \div N) + 1, ((p - 1) % N) + 1, K, K, N)]
Transpose(w, R, C) == [p \in 1..(R * C) |-> w[((p - 1) % R) * C + ((p - 1) \div R) + 1]]   \* [R,C] -> [C,R]

Out(M, N, d) == [shape |-> <<M, N>>, data |-> d]
Expected(cs) ==
  LET M == cs.m K == cs.k N == cs.n IN
  CASE cs.kind = "chain" ->
         LET y == MatMul(cs.x, M, K, cs.ws[1], N)
             z == MatMul(y, M, N, cs.ws[2], N)
         IN << Out(M, N, y), Out(M, N, z) >>
    [] cs.kind = "if" ->
         LET w == IF cs.conds[1] # 0 THEN cs.ws[1] ELSE cs.ws[2]
         IN << Out(M, N, MatMul(cs.x, M, K, w, N)) >>
    [] cs.kind = "if2" ->
         LET w1 == IF cs.conds[1] # 0 THEN cs.ws[1] ELSE cs.ws[2]
             w2 == IF cs.conds[2] # 0 THEN cs.ws[3] ELSE cs.ws[4]
             y1 == MatMul(cs.x, M, K, w1, N)
         IN << Out(M, N, MatMul(y1, M, N, w2, N)) >>
    [] cs.kind = "mmint" ->
         \* MatMulInteger: (x - a_zero_point) x (w - b_zero_point[column]); one zero point = all columns
         LET xs == [p \in 1..(M * K) |-> cs.x[p] - cs.azp]
             zp(j) == IF Len(cs.bzp) = 1 THEN cs.bzp[1] ELSE cs.bzp[j]
             wsft == [p \in 1..(K * N) |-> cs.ws[1][p] - zp(((p - 1) % N) + 1)]
         IN << Out(M, N, MatMul(xs, M, K, wsft, N)) >>
    [] cs.kind = "shared" ->
         LET y == MatMul(cs.x, M, K, cs.ws[1], N)
             z == MatMul(cs.x2, M, N, Transpose(cs.ws[1], K, N), K)
         IN << Out(M, N, y), Out(M, K, z) >>

Strip(outs) == [i \in DOMAIN outs |-> [shape |-> outs[i].shape, data |-> outs[i].data]]
AllExact(outs) == \A i \in DOMAIN outs : outs[i].exact

CaseEv == e.ev = "pcase" /\ c' = e /\ UNCHANGED <<bad, nruns>>
RunEv ==
  /\ e.ev = "prun"
  /\ LET sig(check) == [prop |-> "C02", model |-> c.kind, check |-> check, prepack |-> e.prepack, optimize |-> e.optimize]
         exp == Expected(c)
         rec == [case |-> c, run |-> e]
         b1 == Flag(bad, e.res.kind = "ok", sig("run_failed_" \o e.res.kind), rec)
         b2 == Flag(b1, e.res.kind = "ok" => AllExact(e.res.outs) /\ Strip(e.res.outs) = exp, sig("output_differs_from_naive_evaluation"), rec)
         b3 == Flag(b2, e.res.kind = "ok" => AllExact(e.res.outs2) /\ Strip(e.res.outs2) = exp, sig("second_run_differs_from_naive_evaluation"), rec)
     IN bad' = b3
  /\ nruns' = nruns + 1 /\ UNCHANGED c

Next == /\ l <= NRec /\ l' = l + 1 /\ (CaseEv \/ RunEv)
Report == l = NRec + 1 => /\ ReportBad(bad) /\ Stat("runs", nruns)
=============================================================================
