----------------------------- MODULE PartialEval -----------------------------
(* Partial evaluation (C04).  SSA graphs: values 1..NI are graph inputs,       *)
(* operator i produces value NI+i from earlier values; some operators are      *)
(* non-deterministic (random generators).  partial_run(S, outs) evaluates what *)
(* can be evaluated from the inputs in S and returns "leaf" values; the        *)
(* contract is that  run((Inputs \ S) + returned, outs) = run(Inputs, outs)    *)
(* and that no non-deterministic operator is evaluated.  PruneImpl is the      *)
(* transcription of Planner::create_plan(allow_missing) + prune_plan.          *)
EXTENDS Naturals, Integers, Sequences, FiniteSets, TLC

CONSTANTS NI, NOps
VARIABLES g   \* [ops: seq of [ins: seq of value ids, caps: set of captured value ids, nondet: BOOLEAN], outs: seq of requested values, S: set of provided inputs]

NV == NI + NOps
Vals == 1..NV
Inputs == 1..NI
RangeOf(s) == {s[i] : i \in DOMAIN s}
OpOf(v) == v - NI
\* everything the operator needs: inputs and the values its subgraphs capture
InsOf(gr, v) == RangeOf(gr.ops[OpOf(v)].ins) \cup gr.ops[OpOf(v)].caps
IsOpVal(v) == v > NI

RECURSIVE Lfp(_, _)
Lfp(F(_), X) == LET Y == X \cup F(X) IN IF Y = X THEN X ELSE Lfp(F, Y)

\* ---- contract ----
\* values computable from the inputs in S by deterministic operators only
Computable(gr, S) ==
  LET Step(X) == {v \in Vals : IsOpVal(v) /\ ~gr.ops[OpOf(v)].nondet /\ InsOf(gr, v) \subseteq X}
  IN Lfp(Step, S)
\* values available in a run that is given the set G of values
Available(gr, G) == LET Step(X) == {v \in Vals : IsOpVal(v) /\ InsOf(gr, v) \subseteq X} IN Lfp(Step, G)
\* what the statement requires of the set R of returned value ids
ReturnedOk(gr, S, R) ==
  /\ R \subseteq Computable(gr, S)                                   \* only really computed values, nothing downstream of a random op
  /\ RangeOf(gr.outs) \subseteq Available(gr, (Inputs \ S) \cup R)    \* together with the remaining inputs they suffice

\* ---- implementation-shaped: create_plan(allow_missing_inputs) then prune_plan ----
\* operators needed for the requested outputs (a provided input needs nothing)
Needed(gr, S) ==
  LET Step(X) == {v \in Vals : IsOpVal(v) /\ v \notin S /\
                                (v \in RangeOf(gr.outs) \/ \E w \in X : v \in InsOf(gr, w))}
  IN Lfp(Step, {})
\* walk the plan in SSA order
RECURSIVE Prune(_, _, _, _, _, _)
Prune(gr, S, need, v, resolved, acc) ==   \* acc = [cand: set, prunedIn: set]
  IF v > NV THEN acc
  ELSE IF v \notin need THEN Prune(gr, S, need, v + 1, resolved, acc)
  ELSE IF InsOf(gr, v) \subseteq resolved /\ ~gr.ops[OpOf(v)].nondet
       THEN Prune(gr, S, need, v + 1, resolved \cup {v}, [acc EXCEPT !.cand = @ \cup {v}])
       ELSE Prune(gr, S, need, v + 1, resolved, [acc EXCEPT !.prunedIn = @ \cup (InsOf(gr, v) \cap resolved)])
PruneImpl(gr, S) ==
  LET acc == Prune(gr, S, Needed(gr, S), NI + 1, S, [cand |-> S, prunedIn |-> {}])
  IN {v \in acc.cand : v \in RangeOf(gr.outs) \/ v \in acc.prunedIn}

\* ---- the graph family ----
InSeqs(i) == UNION {[1..k -> 1..(NI + i - 1)] : k \in 1..2}
RECURSIVE OpSeqs(_)
OpSeqs(i) == IF i = 0 THEN {<<>>}
             ELSE {Append(s, [ins |-> x, caps |-> c, nondet |-> n]) :
                     s \in OpSeqs(i - 1), x \in InSeqs(i), n \in BOOLEAN,
                     c \in {{}} \cup {{v} : v \in 1..(NI + i - 1)}}
OutSeqs == {<<NV>>} \cup {<<NV, v>> : v \in Vals \ {NV}} \cup {<<v, NV>> : v \in Vals \ {NV}}
Graphs == {[ops |-> s, outs |-> o, S |-> sub] : s \in OpSeqs(NOps), o \in OutSeqs, sub \in SUBSET Inputs}

Init == g \in Graphs
Next == UNCHANGED g
\* the transcribed algorithm satisfies the contract on every graph of the family
ImplSatisfiesContract == ReturnedOk(g, g.S, PruneImpl(g, g.S))
=============================================================================
