INIT Init
NEXT Next
INVARIANT Report
POSTCONDITION Accepted
CHECK_DEADLOCK FALSE
