----------------------------- MODULE ControlFlow -----------------------------
(* Execution of plans with control-flow operators (C24): Executor.tla extended  *)
(* with nested scopes.                                                           *)
(*                                                                               *)
(* A program is a parent graph  a, b -> [pre] -> CF -> [post]  whose CF operator *)
(* is an If (one branch run once) or a Loop (body run `trip` times: one carried  *)
(* value, optional scan output); subgraph operators read values of the enclosing *)
(* graphs BY NAME (captures), may be in-place capable, and a subgraph may itself *)
(* contain a control-flow operator (nesting depth 2).  Values denote terms; an   *)
(* operator run in place overwrites the buffer of the value it takes.            *)
(*                                                                               *)
(* Transcribed from the code (implementation-shaped part):                       *)
(*  * Graph::run_plan: usage counts = one per operator input occurrence + one    *)
(*    per capture name of a subgraph operator that resolves to a node of THIS    *)
(*    graph and is not also an input (operator_dependencies; capture names are   *)
(*    collected transitively WITH duplicates, Graph::capture_names) + one per    *)
(*    requested output; take_value(v) moves v only if its remaining count is 1   *)
(*    and it is in temp_values (owned) or a by-value capture of the environment  *)
(*    this graph runs in; by_value_captures = every capture dependency that      *)
(*    take_value yields; in-place candidates likewise (count 1 and owned, or     *)
(*    captured and CaptureEnv::can_take_input).                                  *)
(*  * CaptureEnv::get_input: a name that is a real node of the creating graph    *)
(*    resolves there (temp values by reference, then by-value map, then          *)
(*    borrowed inputs); capture placeholders and unknown names go to the parent  *)
(*    environment.  can_take_input / take_input look only at the by-value map.   *)
(*  * If::run_subgraph moves the environment into the branch run;                *)
(*    Loop::run_subgraph CLONES it for every iteration, passes the initial       *)
(*    carried values as views and later ones owned, and (SkipEmptyScan) leaves   *)
(*    out scan outputs that received no element.                                 *)
(*  * at the end of a subgraph run unused by-value captures are dropped.         *)
(*                                                                               *)
(* Contract (what C24 states), checked on every program of the family:           *)
(*  ParentValuesIntact - a parent value that still has a later reader, or is a   *)
(*    requested output, holds its denotation while and after the control-flow    *)
(*    operator runs (never moved away, never overwritten);                       *)
(*  ResultEqualsInlined - every requested output equals the inlined evaluation   *)
(*    (selected branch / unrolled body on the captured values);                  *)
(*  NoFault - no read of a value that is gone, no missing output.                *)
(* The mutation constants exist so that TLC can show the invariants are not      *)
(* vacuous: CloneByValue = FALSE (Loop moves its environment into the first      *)
(* iteration), RespectCount = FALSE (by-value extraction ignores the count).     *)
EXTENDS Naturals, Integers, Sequences, FiniteSets, TLC

CONSTANTS Fam,            \* "if" | "loop" | "nest" | "all": which family Init enumerates
          MaxBody,        \* 1 | 2 operators in a subgraph ("nest": 1 | 2 inputs of the innermost operator)
          Wide,           \* 0 | 1 | 2: how many parent variants (tiny / narrow / all)
          Trips,          \* trip counts of loops
          ZeroTripScan,   \* TRUE: the family includes loops with a scan output and trip count 0
          CloneByValue, RespectCount, SkipEmptyScan

VARIABLES prog,     \* the program (constant during a behaviour)
          den,      \* inlined denotation of every parent value (computed once)
          stack,    \* frames, innermost last
          fault,    \* "none" or what went wrong
          done
vars == <<prog, den, stack, fault, done>>

Range(s) == {s[i] : i \in DOMAIN s}
Mult(s, v) == Cardinality({i \in DOMAIN s : s[i] = v})
RECURSIVE SetToSeq(_)
SetToSeq(S) == IF S = {} THEN <<>> ELSE LET x == CHOOSE x \in S : TRUE IN <<x>> \o SetToSeq(S \ {x})
RECURSIVE Flatten(_)
Flatten(ss) == IF ss = <<>> THEN <<>> ELSE Head(ss) \o Flatten(Tail(ss))

---------------------------------------------------------------------------
(* Programs.  Graph records carry what the loader derives (computed once,     *)
(* when the graph value is built): def = names defined in the graph, ph =      *)
(* capture placeholders (names its operators use that are defined further      *)
(* out), capn = Graph::capture_names (own placeholders, then those of every    *)
(* nested subgraph, duplicates kept), deps[i] = Graph::operator_dependencies   *)
(* of operator i with multiplicities: its inputs, then every capture name of   *)
(* its subgraphs that is a node of THIS graph and not also an input.           *)
OutsOfOp(o) == IF o.kind = "loop" /\ o.scan THEN {o.out, o.sout} ELSE {o.out}
G(ins, ops, outs) ==
  LET def == Range(ins) \cup UNION {OutsOfOp(ops[i]) : i \in DOMAIN ops}
      ph == UNION {Range(ops[i].ins) : i \in DOMAIN ops} \ def
      nodes == def \cup ph
  IN [ins |-> ins, ops |-> ops, outs |-> outs, def |-> def, ph |-> ph, nodes |-> nodes,
      capn |-> SetToSeq(ph) \o Flatten([i \in DOMAIN ops |-> ops[i].caps]),
      deps |-> [i \in DOMAIN ops |-> ops[i].ins \o SelectSeq(ops[i].caps, LAMBDA n : n \in nodes /\ n \notin Range(ops[i].ins))]]
NoG == G(<<>>, <<>>, <<>>)
Op(out, ins, ip) == [kind |-> "op", out |-> out, sout |-> "", ins |-> ins, inplace |-> ip,
                     body |-> NoG, els |-> NoG, trip |-> 0, scan |-> FALSE, caps |-> <<>>]
IfOp(out, cond, body, els) == [kind |-> "if", out |-> out, sout |-> "", ins |-> <<cond>>, inplace |-> FALSE,
                               body |-> body, els |-> els, trip |-> 1, scan |-> FALSE, caps |-> body.capn \o els.capn]
LoopOp(out, sout, init, body, trip, scan) == [kind |-> "loop", out |-> out, sout |-> sout, ins |-> <<init>>, inplace |-> FALSE,
                                              body |-> body, els |-> NoG, trip |-> trip, scan |-> scan, caps |-> body.capn]
IsCf(o) == o.kind # "op"
Defined(g) == g.def
Placeholders(g) == g.ph
Nodes(g) == g.nodes
Deps(g, i) == g.deps[i]
CapDeps(g, i) == Range(g.deps[i]) \ Range(g.ops[i].ins)
RECURSIVE SumMult(_, _, _)
SumMult(g, i, n) == IF i > Len(g.ops) THEN 0 ELSE Mult(g.deps[i], n) + SumMult(g, i + 1, n)
InitCount(g) == [n \in g.nodes |-> Mult(g.outs, n) + SumMult(g, 1, n)]

---------------------------------------------------------------------------
(* Inlined semantics: terms.  A graph input i denotes <<"in", i>>; a plain     *)
(* operator denotes <<"op", out, argument terms>>; an If output denotes the     *)
(* selected branch's output; a Loop's carried output the body applied `trip`    *)
(* times; its scan output <<"scan", per-iteration terms>>.                      *)
RECURSIVE DenGraph(_, _, _), DenOps(_, _, _), DenLoop(_, _, _, _, _)
\* -> environment (name -> term) after evaluating g with its inputs bound to inTerms, outer names visible
DenGraph(g, inTerms, outer) ==
  DenOps(g, 1, [n \in Range(g.ins) |-> inTerms[CHOOSE k \in DOMAIN g.ins : g.ins[k] = n]] @@ outer)
DenOps(g, i, env) ==
  IF i > Len(g.ops) THEN env
  ELSE LET o == g.ops[i] IN
       IF o.kind = "op" THEN DenOps(g, i + 1, (o.out :> <<"op", o.out, [k \in DOMAIN o.ins |-> env[o.ins[k]]]>>) @@ env)
       ELSE IF o.kind = "if" THEN DenOps(g, i + 1, (o.out :> DenGraph(o.body, <<>>, env)[o.body.outs[1]]) @@ env)
       ELSE LET r == DenLoop(o, env, env[o.ins[1]], <<>>, 0)
            IN DenOps(g, i + 1, (IF o.scan THEN (o.sout :> <<"scan", r.scans>>) ELSE <<>>) @@ (o.out :> r.carried) @@ env)
DenLoop(o, env, carried, scans, t) ==
  IF t >= o.trip THEN [carried |-> carried, scans |-> scans]
  ELSE LET e == DenGraph(o.body, <<carried>>, env)
       IN DenLoop(o, env, e[o.body.outs[1]], IF o.scan THEN Append(scans, e[o.body.outs[2]]) ELSE scans, t + 1)

---------------------------------------------------------------------------
(* The family.  Names: parent a, b, p (pre), x / s (CF outputs), q (post);     *)
(* subgraph: c (carried input), m1, m2; nested subgraph: d, n1.                 *)
InsOver(R) == {<<r>> : r \in R} \cup {<<r1, r2>> : r1 \in R, r2 \in R}
PlainOps(out, R) == {Op(out, i, ip) : i \in InsOver(R), ip \in BOOLEAN}
\* second operator of a subgraph: uses the first one's result
ChainOps(out, prev, R) == {Op(out, i, ip) : i \in {<<prev>>} \cup {<<prev, r>> : r \in R} \cup {<<r, prev>> : r \in R}, ip \in BOOLEAN}

OpSeqs1(R) == {<<o1>> : o1 \in PlainOps("m1", R)}
OpSeqs2(R) == {<<o1, o2>> : o1 \in PlainOps("m1", R), o2 \in ChainOps("m2", "m1", R)}
OpSeqs(R) == IF MaxBody = 1 THEN OpSeqs1(R) ELSE OpSeqs1(R) \cup OpSeqs2(R)
LastOut(ops) == ops[Len(ops)].out

ParentCaps == {"a", "b", "p"}
\* the branch that is NOT selected only contributes its capture names
ElseBranches == {NoG} \cup {G(<<>>, <<Op("e1", <<r>>, FALSE)>>, <<"e1">>) : r \in {"a", "p"}}

IfOps == {IfOp("x", "b", G(<<>>, ops, <<LastOut(ops)>>), els) : ops \in OpSeqs(ParentCaps), els \in ElseBranches}
\* (a one-operator body cannot return its only value as carried AND scan output: the planner
\*  rejects duplicate outputs - a separate finding, not part of this model)
LoopOps == {LoopOp("x", "s", init, G(<<"c">>, ops, <<LastOut(ops)>> \o (IF scan THEN <<"m1">> ELSE <<>>)), trip, scan) :
              init \in {"b", "p"}, ops \in OpSeqs(ParentCaps \cup {"c"}), trip \in Trips,
              scan \in IF MaxBody = 1 THEN {FALSE} ELSE BOOLEAN}
           \ ({LoopOp("x", "s", init, G(<<"c">>, ops, <<"m1", "m1">>), trip, TRUE) :
                 init \in {"b", "p"}, ops \in OpSeqs1(ParentCaps \cup {"c"}), trip \in Trips}
               \cup (IF ZeroTripScan THEN {}
                     ELSE {LoopOp("x", "s", init, G(<<"c">>, ops, <<LastOut(ops), "m1">>), 0, TRUE) :
                             init \in {"b", "p"}, ops \in OpSeqs(ParentCaps \cup {"c"})}))

\* nested: subgraph = [m1 (optional)], nested control-flow operator m2 whose body is one operator n1
InnerRefs(outerLoop, hasM1, innerLoop) ==
  {"a", "p"} \cup (IF outerLoop THEN {"c"} ELSE {}) \cup (IF hasM1 THEN {"m1"} ELSE {}) \cup (IF innerLoop THEN {"d"} ELSE {})
M1Choices == {<<>>} \cup {<<Op("m1", <<r>>, ip)>> : r \in (IF MaxBody = 1 THEN {"p"} ELSE {"a", "p"}), ip \in BOOLEAN}
InnerOps(R) == IF MaxBody = 1 THEN {Op("n1", <<r>>, ip) : r \in R, ip \in BOOLEAN} ELSE PlainOps("n1", R)
NestedIf(outerLoop, hasM1) ==
  {IfOp("m2", "b", G(<<>>, <<n1>>, <<"n1">>), NoG) : n1 \in InnerOps(InnerRefs(outerLoop, hasM1, FALSE))}
NestedLoop(outerLoop, hasM1) ==
  {LoopOp("m2", "", init, G(<<"d">>, <<n1>>, <<"n1">>), trip, FALSE) :
     init \in {"p"} \cup (IF outerLoop THEN {"c"} ELSE {}) \cup (IF hasM1 THEN {"m1"} ELSE {}),
     n1 \in InnerOps(InnerRefs(outerLoop, hasM1, TRUE)), trip \in Trips \ {0}}
NestBodies(outerLoop) ==
  {G(IF outerLoop THEN <<"c">> ELSE <<>>, m1 \o <<ncf>>, <<"m2">>) :
     m1 \in M1Choices, ncf \in NestedIf(outerLoop, TRUE) \cup NestedLoop(outerLoop, TRUE)}
  \ {G(IF outerLoop THEN <<"c">> ELSE <<>>, <<ncf>>, <<"m2">>) :
       ncf \in {n \in NestedIf(outerLoop, TRUE) \cup NestedLoop(outerLoop, TRUE) :
                  "m1" \in Range(n.ins) \cup Range(n.body.ops[1].ins)}}      \* (m1 referenced but absent)
NestOps == {IfOp("x", "b", body, NoG) : body \in NestBodies(FALSE)}
           \cup {LoopOp("x", "", init, body, trip, FALSE) : init \in {"b", "p"}, body \in NestBodies(TRUE), trip \in Trips \ {0}}

CfOps == IF Fam = "if" THEN IfOps ELSE IF Fam = "loop" THEN LoopOps ELSE IF Fam = "nest" THEN NestOps
         ELSE IfOps \cup LoopOps \cup NestOps

PreOps == IF Wide = 2 THEN {Op("p", <<"a">>, TRUE), Op("p", <<"a">>, FALSE), Op("p", <<"a", "b">>, FALSE)}
          ELSE {Op("p", <<"a">>, FALSE)}
PostOps == IF Wide = 2 THEN {<<>>} \cup {<<Op("q", <<r>>, ip)>> : r \in {"a", "p", "x"}, ip \in BOOLEAN}
           ELSE IF Wide = 1 THEN {<<>>} \cup {<<Op("q", <<r>>, TRUE)>> : r \in {"a", "p", "x"}}
           ELSE {<<>>, <<Op("q", <<"p">>, TRUE)>>, <<Op("q", <<"a">>, TRUE)>>}
OwnedSets == IF Wide = 2 THEN {{}, {"a"}, {"a", "b"}} ELSE {{}, {"a", "b"}}
ExtraSets(cf, post) == (IF Wide = 0 THEN {<<>>, <<"p">>} ELSE {<<>>, <<"a">>, <<"p">>}) \cup (IF post # <<>> /\ Wide > 0 THEN {<<"x">>} ELSE {})
                         \cup (IF cf.kind = "loop" /\ cf.scan THEN {<<"s">>} ELSE {})
\* all parent graphs around one control-flow operator
ProgramsFor(cf) == {[g |-> G(<<"a", "b">>, <<pre, cf>> \o post, <<IF post = <<>> THEN "x" ELSE "q">> \o extra), owned |-> w] :
                      pre \in PreOps, post \in PostOps, w \in OwnedSets, extra \in ExtraSets(cf, <<1>>)}
Valid(p) == LET cf == p.g.ops[2] post == SubSeq(p.g.ops, 3, Len(p.g.ops))
            IN SubSeq(p.g.outs, 2, Len(p.g.outs)) \in ExtraSets(cf, post)

---------------------------------------------------------------------------
(* Frames.                                                                    *)
\* sentinels are tuples like terms (TLC cannot compare a string with a tuple)
Absent == <<"absent">>
Clobbered == <<"clobbered">>
Missing == <<"missing">>
\* store: name -> term | "absent" | "clobbered";  where: "owned" (temp_values) | "borrowed" (inputs) | "none" | "capture"
NewFrame(g, inTerms, inWhere, bv) ==
  [g |-> g, pc |-> 1,
   store |-> [n \in Nodes(g) |-> IF n \in Range(g.ins) THEN inTerms[CHOOSE k \in DOMAIN g.ins : g.ins[k] = n] ELSE Absent],
   where |-> [n \in Nodes(g) |-> IF n \in Range(g.ins) THEN inWhere[CHOOSE k \in DOMAIN g.ins : g.ins[k] = n]
                                 ELSE IF n \in Placeholders(g) THEN "capture" ELSE "none"],
   count |-> InitCount(g),
   bv |-> bv,                 \* by-value captures of the environment this frame runs in
   lp |-> [t |-> 0, carried |-> Absent, scans |-> <<>>, master |-> <<>>]]   \* state of a Loop this frame is suspended in

\* Init enumerates the control-flow operators; Start (one successor per parent variant, so the
\* workers share the enumeration) completes the program and creates the parent frame.
Init ==
  /\ prog \in {[g |-> G(<<"a", "b">>, <<cf>>, <<>>), owned |-> {}] : cf \in CfOps}
  /\ den = <<>> /\ stack = <<>> /\ fault = "none" /\ done = FALSE

\* only loops with a scan output whose first body operator reads the carried value (a small slice
\* of the family, for the cfg that explores the zero-iteration region)
InitScanSlice == Init /\ prog.g.ops[1].scan /\ prog.g.ops[1].body.ops[1].ins = <<"c">>

Start ==
  /\ stack = <<>>
  /\ \E p \in {q \in ProgramsFor(prog.g.ops[1]) : Valid(q)} :
       /\ prog' = p
       /\ den' = DenGraph(p.g, <<<<"in", "a">>, <<"in", "b">>>>, <<>>)
       /\ stack' = <<NewFrame(p.g, <<<<"in", "a">>, <<"in", "b">>>>,
                              <<IF "a" \in p.owned THEN "owned" ELSE "borrowed", IF "b" \in p.owned THEN "owned" ELSE "borrowed">>, <<>>)>>
  /\ UNCHANGED <<fault, done>>

Top == Len(stack)
F == stack[Top]
Bad(t) == t \in {Absent, Clobbered, Missing}

\* CaptureEnv::get_input through the environment passed to frame k
RECURSIVE EnvGet(_, _)
EnvGet(k, n) ==
  IF k <= 1 THEN Missing
  ELSE LET p == stack[k - 1] IN
       IF n \in Defined(p.g)
       THEN IF p.where[n] = "owned" THEN p.store[n]
            ELSE IF n \in DOMAIN stack[k].bv THEN stack[k].bv[n]
            ELSE IF p.where[n] = "borrowed" THEN p.store[n]
            ELSE Missing
       ELSE EnvGet(k - 1, n)
EnvCanTake(k, n) == k >= 2 /\ n \in Nodes(stack[k - 1].g) /\ n \in DOMAIN stack[k].bv

\* what an operator of the top frame sees for input n
ReadArg(n) == IF F.where[n] \in {"owned", "borrowed"} THEN F.store[n]
              ELSE IF n \in Placeholders(F.g) THEN EnvGet(Top, n) ELSE Missing
\* take_value's availability test (count aside)
Takeable(n) == F.where[n] = "owned" \/ (n \in Placeholders(F.g) /\ EnvCanTake(Top, n))
TakenTerm(n) == IF F.where[n] = "owned" THEN F.store[n] ELSE F.bv[n]

\* after an operator: decrement the counts of its dependencies, release owned values nobody needs
AfterOp(f, o) ==
  LET d == Deps(f.g, f.pc)
      cnt == [n \in Nodes(f.g) |-> f.count[n] - Mult(d, n)]
  IN [f EXCEPT !.count = cnt,
               !.where = [n \in Nodes(f.g) |-> IF f.where[n] = "owned" /\ cnt[n] = 0 THEN "none" ELSE f.where[n]],
               !.store = [n \in Nodes(f.g) |-> IF f.where[n] = "owned" /\ cnt[n] = 0 THEN Absent ELSE f.store[n]],
               !.pc = f.pc + 1]

Restrict(f, S) == [n \in (DOMAIN f) \ S |-> f[n]]
SetTop(f) == [stack EXCEPT ![Top] = f]

\* ---- a plain operator of the top frame ----
RunPlain(o) ==
  LET cand == o.ins[1]
      inPlace == o.inplace /\ F.count[cand] = 1 /\ Takeable(cand)
      args == [k \in DOMAIN o.ins |-> IF inPlace /\ k = 1 THEN TakenTerm(cand) ELSE ReadArg(o.ins[k])]
      term == <<"op", o.out, args>>
      f1 == IF ~inPlace THEN F
            ELSE IF F.where[cand] = "owned"
                 THEN [F EXCEPT !.store[cand] = Clobbered, !.where[cand] = "none"]     \* its buffer now holds the output
                 ELSE [F EXCEPT !.bv = Restrict(F.bv, {cand})]
      f2 == [f1 EXCEPT !.store[o.out] = term, !.where[o.out] = "owned"]
  IN /\ stack' = SetTop(AfterOp(f2, o))
     /\ fault' = IF fault = "none" /\ \E k \in DOMAIN args : Bad(args[k]) THEN "read_of_a_value_that_is_gone" ELSE fault

\* ---- a control-flow operator of the top frame: extract by-value captures, enter the subgraph ----
IterFrame(o, carried, t, bv) ==
  NewFrame(o.body, <<carried>>, <<IF t = 0 THEN "borrowed" ELSE "owned">>, bv)

\* the parent frame `f` (suspended in Loop o, state f.lp complete) delivers the Loop's outputs
FinishLoop(f, o) ==
  LET missingScan == o.scan /\ f.lp.scans = <<>> /\ SkipEmptyScan
      f1 == [f EXCEPT !.store[o.out] = f.lp.carried, !.where[o.out] = "owned"]
      f2 == IF o.scan /\ ~missingScan THEN [f1 EXCEPT !.store[o.sout] = <<"scan", f.lp.scans>>, !.where[o.sout] = "owned"] ELSE f1
  IN [fr |-> AfterOp(f2, o), flt |-> IF missingScan THEN "fewer_outputs_than_declared" ELSE "none"]

EnterCf(o) ==
  LET byval == {n \in CapDeps(F.g, F.pc) : (RespectCount => F.count[n] = 1) /\ Takeable(n)}
      moved == [n \in byval |-> TakenTerm(n)]
      f1 == [F EXCEPT !.where = [n \in Nodes(F.g) |-> IF n \in byval /\ F.where[n] = "owned" THEN "none" ELSE F.where[n]],
                      !.store = [n \in Nodes(F.g) |-> IF n \in byval /\ F.where[n] = "owned" THEN Absent ELSE F.store[n]],
                      !.bv = Restrict(F.bv, {n \in byval : F.where[n] # "owned"})]
  IN IF o.kind = "if"
     THEN /\ stack' = Append(SetTop(f1), NewFrame(o.body, <<>>, <<>>, moved))
          /\ fault' = IF fault = "none" /\ Bad(ReadArg(o.ins[1])) THEN "read_of_a_value_that_is_gone" ELSE fault
     ELSE LET init == ReadArg(o.ins[1])
              f2 == [f1 EXCEPT !.lp = [t |-> 0, carried |-> init, scans |-> <<>>, master |-> moved]]
          IN IF o.trip = 0
             THEN LET r == FinishLoop(f2, o) IN
                  /\ stack' = SetTop(r.fr)
                  /\ fault' = IF fault # "none" THEN fault ELSE IF Bad(init) THEN "read_of_a_value_that_is_gone" ELSE r.flt
             ELSE /\ stack' = Append(SetTop(f2), IterFrame(o, init, 0, moved))
                  /\ fault' = IF fault = "none" /\ Bad(init) THEN "read_of_a_value_that_is_gone" ELSE fault

\* ---- the top frame has run all its operators: hand the outputs to the frame below ----
OutTerm(n) == IF F.where[n] = "borrowed" THEN F.store[n]                 \* copied
              ELSE IF n \in Placeholders(F.g) THEN EnvGet(Top, n)          \* copied
              ELSE IF F.where[n] = "owned" THEN F.store[n] ELSE Missing  \* temp_values.remove(..).expect(..)
Return ==
  LET outs == [k \in DOMAIN F.g.outs |-> OutTerm(F.g.outs[k])]
      p == stack[Top - 1]
      o == p.g.ops[p.pc]
      below == SubSeq(stack, 1, Top - 2)
      flt0 == IF \E k \in DOMAIN outs : Bad(outs[k]) THEN "missing_output_value" ELSE "none"
  IN IF o.kind = "if"
     THEN /\ stack' = Append(below, AfterOp([p EXCEPT !.store[o.out] = outs[1], !.where[o.out] = "owned"], o))
          /\ fault' = IF fault # "none" THEN fault ELSE flt0
     ELSE LET lp1 == [p.lp EXCEPT !.t = @ + 1, !.carried = outs[1], !.scans = IF o.scan THEN Append(@, outs[2]) ELSE @]
              p1 == [p EXCEPT !.lp = lp1]
          IN IF lp1.t < o.trip
             THEN \* next iteration: a CLONE of the by-value captures (mutation: they went into the first iteration and were dropped there)
                  /\ stack' = Append(Append(below, p1), IterFrame(o, lp1.carried, lp1.t, IF CloneByValue THEN p.lp.master ELSE <<>>))
                  /\ fault' = IF fault # "none" THEN fault ELSE flt0
             ELSE LET r == FinishLoop(p1, o) IN
                  /\ stack' = Append(below, r.fr)
                  /\ fault' = IF fault # "none" THEN fault ELSE IF flt0 # "none" THEN flt0 ELSE r.flt

Finish ==
  /\ done' = TRUE
  /\ fault' = IF fault = "none" /\ \E k \in DOMAIN F.g.outs : Bad(OutTerm(F.g.outs[k])) THEN "missing_output_value" ELSE fault
  /\ UNCHANGED stack

Step ==
  /\ ~done /\ stack # <<>>
  /\ IF F.pc <= Len(F.g.ops)
     THEN LET o == F.g.ops[F.pc] IN (IF IsCf(o) THEN EnterCf(o) ELSE RunPlain(o)) /\ UNCHANGED done
     ELSE IF Top > 1 THEN Return /\ UNCHANGED done ELSE Finish
  /\ UNCHANGED <<prog, den>>

Next == Start \/ Step
Spec == Init /\ [][Next]_vars

---------------------------------------------------------------------------
(* Invariants.                                                                *)
NoFault == fault = "none"

\* names the operators after position j of g (or its requested outputs) still read
NeededAfter(g, j, n) == n \in Range(g.outs) \/ \E i \in (j + 1)..Len(g.ops) : n \in Range(Deps(g, i))
Computed(f, n) == n \in Range(f.g.ins) \/ \E i \in 1..(f.pc - 1) : n \in OutsOfOp(f.g.ops[i])
\* the contract of C24, second half: for the PARENT frame, while it is suspended in the
\* control-flow operator (Top > 1) and at every point afterwards
ParentValuesIntact ==
  stack # <<>> /\ ~done /\ fault = "none" =>
     LET f == stack[1]
         j == IF Top > 1 THEN f.pc ELSE f.pc - 1 IN
     \A n \in Defined(f.g) : Computed(f, n) /\ NeededAfter(f.g, j, n) =>
        f.where[n] \in {"owned", "borrowed"} /\ f.store[n] = den[n]

\* first half: the requested outputs equal the inlined evaluation
ResultEqualsInlined ==
  done /\ fault = "none" => \A k \in DOMAIN prog.g.outs : OutTerm(prog.g.outs[k]) = den[prog.g.outs[k]]

\* borrowed model inputs are never moved or overwritten
BorrowedUntouched == stack # <<>> => \A n \in {"a", "b"} : n \notin prog.owned => stack[1].store[n] = <<"in", n>> /\ stack[1].where[n] = "borrowed"
CountsNonNegative == \A k \in DOMAIN stack : \A n \in Nodes(stack[k].g) : stack[k].count[n] >= 0
\* the implementation never keeps a by-value capture it also left with the parent
ByValueIsExclusive == \A k \in 2..Top : \A n \in DOMAIN stack[k].bv : n \in Defined(stack[k - 1].g) => stack[k - 1].where[n] # "owned"
=============================================================================
