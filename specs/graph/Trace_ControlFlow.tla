------------------------- MODULE Trace_ControlFlow -------------------------
(* Trace validation for C24 "Control-flow subgraphs behave like the          *)
(* equivalent inlined graph".                                                *)
(*                                                                           *)
(* The harness (vh-cf gen) generates programs with nested If / Loop, loads   *)
(* each as an ONNX model with optimisation on and off, runs it with owned    *)
(* and borrowed inputs on several input sets, and also runs the INLINED      *)
(* model (selected branch, unrolled loop) of every input set.  It logs the   *)
(* program, the inputs and what rten returned; nothing is judged there.      *)
(*                                                                           *)
(* Here the program is EVALUATED: OnnxOps.OnnxEval gives the operators, this *)
(* module adds the ONNX semantics of If and Loop (from the operator          *)
(* documentation: If runs then_branch iff cond; Loop runs the body while     *)
(* i < M and cond, feeding (i, cond, carried..) and reading (cond, carried.., *)
(* scan..); scan outputs are the per-iteration values stacked along a new    *)
(* first axis; subgraphs see the values of all enclosing scopes by name).    *)
(*                                                                           *)
(* Contract predicates (reading of the statement, weakest that still says    *)
(* what it says):                                                            *)
(*  P1 cf = inlined.  Every output of a control-flow model run equals the    *)
(*     output of the inlined model run by the same real code ("the outputs   *)
(*     equal those of evaluating the selected branch or the loop body        *)
(*     iterations directly with the captured parent values").                *)
(*  P2 cf = reference.  The same outputs equal the evaluation computed here  *)
(*     (so an error present in both real runs is seen).  The check name      *)
(*     tells which part of the statement the output belongs to: a            *)
(*     control-flow result, a captured parent value requested itself as an   *)
(*     output ("never changes a parent value that is still needed            *)
(*     afterwards"), or a value computed after the operator.                 *)
(*  P3 a control-flow model that cannot be loaded or run (error or panic)    *)
(*     although its inlined model runs has no outputs at all: flagged with   *)
(*     the class of the program feature involved and the class of the        *)
(*     message, so distinct failures have distinct signatures.               *)
(* "Inlined model" in P1 / P3 is the inlined model loaded with the SAME       *)
(* optimisation setting as the control-flow model it is compared with.       *)
(* Not judged: the shape / element type of the scan output of a loop that    *)
(* ran ZERO iterations (only that it has no elements); anything whose        *)
(* reference is undefined.  An inlined run that disagrees with the reference,*)
(* and any disagreement the control-flow run SHARES with it, is not about    *)
(* control flow (operator / optimiser properties C15, C01): reported under   *)
(* prop "drift", never a violation.                                          *)
(* Records `mcase` / `mres` (second half of this module) come from the       *)
(* spec -> impl replay of ControlFlow.tla's family on the real executor.     *)
(* Cases with st = TRUE are copies the engine corrupted on purpose (binding  *)
(* self-test); their failures carry prop "selftest".                         *)
EXTENDS TraceLib, OnnxOps

VARIABLES l, bad, cur, cnt

e == Rec[l]

---------------------------------------------------------------------------
(* Reference semantics of programs.                                          *)
\* A program graph: [ins: seq of names, inits: seq of [name, t], nodes, outs: seq of names];
\* node: [op, ins (names, "" = omitted), outs, attrs, g1, g2]; If: g1 = then, g2 = else; Loop: g1 = body.
\* Environments are functions name -> tensor; inner bindings shadow outer ones.
TOf(t) == Mk(t.shape, t.dtype, t.data)
AsIn(t) == [p |-> TRUE, shape |-> t.shape, dtype |-> t.dtype, data |-> t.data, den |-> 1]
NoIn == [p |-> FALSE]
R(st, v, fl) == [st |-> st, v |-> v, fl |-> fl]
HasDup(s) == \E i, j \in DOMAIN s : i # j /\ s[i] = s[j]

\* per-iteration scan values stacked along a new first axis (ONNX Loop)
RECURSIVE FlatData(_, _)
FlatData(ts, i) == IF i > Len(ts) THEN <<>> ELSE ts[i].data \o FlatData(ts, i + 1)
SameType(ts) == \A i \in DOMAIN ts : ts[i].shape = ts[1].shape /\ ts[i].dtype = ts[1].dtype
\* zero iterations: an empty tensor; its shape / type are not judged
EmptyScan == [shape |-> <<0>>, dtype |-> "empty", data |-> <<>>]
Stack(ts) == IF Len(ts) = 0 THEN EmptyScan ELSE Mk(<<Len(ts)>> \o ts[1].shape, ts[1].dtype, FlatData(ts, 1))

MaxIter == 16

RECURSIVE EvalGraph(_, _, _), EvalNodes(_, _, _, _), EvalNode(_, _), LoopIter(_, _, _, _, _, _, _, _)

\* -> R(st, seq of output tensors, flags)
EvalGraph(g, args, outer) ==
  IF Len(args) # Len(g.ins) THEN R("undefined", <<>>, {"arity"}) ELSE
  LET inNames == {g.ins[k] : k \in DOMAIN g.ins}
      e1 == [n \in inNames |-> args[CHOOSE k \in DOMAIN g.ins : g.ins[k] = n]] @@ outer
      ctNames == {g.inits[k].name : k \in DOMAIN g.inits}
      e2 == [n \in ctNames |-> TOf(g.inits[CHOOSE k \in DOMAIN g.inits : g.inits[k].name = n].t)] @@ e1
      r == EvalNodes(g.nodes, 1, e2, IF HasDup(g.outs) THEN {"dup_output"} ELSE {})
  IN IF r.st # "ok" THEN R(r.st, <<>>, r.fl)
     ELSE IF \E k \in DOMAIN g.outs : g.outs[k] \notin DOMAIN r.v THEN R("undefined", <<>>, r.fl \cup {"unbound"})
     ELSE R("ok", [k \in DOMAIN g.outs |-> r.v[g.outs[k]]], r.fl)

\* -> R(st, env, flags)
EvalNodes(nodes, i, env, fl) ==
  IF i > Len(nodes) THEN R("ok", env, fl)
  ELSE LET r == EvalNode(nodes[i], env)
       IN IF r.st # "ok" THEN R(r.st, env, fl \cup r.fl)
          ELSE EvalNodes(nodes, i + 1, r.v, fl \cup r.fl)

BindOuts(n, outs, env) ==
  [nm \in {n.outs[k] : k \in DOMAIN n.outs} \ {""} |-> outs[CHOOSE k \in DOMAIN n.outs : n.outs[k] = nm]] @@ env

\* -> R(st, env extended with the node's outputs, flags)
EvalNode(n, env) ==
  IF \E k \in DOMAIN n.ins : n.ins[k] # "" /\ n.ins[k] \notin DOMAIN env THEN R("undefined", env, {"unbound"})
  ELSE IF n.op = "If" THEN
    LET c == env[n.ins[1]] IN
    IF Len(c.data) # 1 THEN R("undefined", env, {}) ELSE
    LET r == EvalGraph(IF c.data[1] # 0 THEN n.g1 ELSE n.g2, <<>>, env)
    IN IF r.st # "ok" THEN R(r.st, env, r.fl)
       ELSE IF Len(r.v) < Len(n.outs) THEN R("undefined", env, r.fl)
       ELSE R("ok", BindOuts(n, r.v, env), r.fl)
  ELSE IF n.op = "Loop" THEN
    LET hasM == Len(n.ins) >= 1 /\ n.ins[1] # ""
        hasC == Len(n.ins) >= 2 /\ n.ins[2] # ""
        m == IF hasM THEN env[n.ins[1]].data[1] ELSE -1            \* -1: no trip count
        c0 == IF hasC THEN env[n.ins[2]].data[1] ELSE 1
        carried == [k \in 1..(Len(n.ins) - 2) |-> env[n.ins[k + 2]]]
        nscan == Len(n.g1.outs) - 1 - Len(carried)
    IN IF nscan < 0 \/ Len(n.g1.ins) # 2 + Len(carried) THEN R("undefined", env, {})
       ELSE LET r == LoopIter(n, env, m, c0, carried, [k \in 1..nscan |-> <<>>], 0, {})
            IN IF r.st # "ok" THEN R(r.st, env, r.fl)
               ELSE IF Len(r.v) < Len(n.outs) THEN R("undefined", env, r.fl)
               ELSE R("ok", BindOuts(n, r.v, env), r.fl)
  ELSE
    LET ins == [k \in DOMAIN n.ins |-> IF n.ins[k] = "" THEN NoIn ELSE AsIn(env[n.ins[k]])]
        r == OnnxEval(n.op, n.attrs, ins)
    IN IF r.st # "ok" \/ Len(r.outs) < Len(n.outs) THEN R("undefined", env, {})
       ELSE R("ok", BindOuts(n, r.outs, env), {})

\* -> R(st, seq of the Loop's outputs: final carried values, then stacked scan values, flags)
LoopIter(n, env, m, cond, carried, scans, t, fl) ==
  IF (m >= 0 => t < m) /\ cond # 0 THEN
    IF t >= MaxIter THEN R("undefined", <<>>, fl \cup {"no_termination"}) ELSE
    LET r == EvalGraph(n.g1, <<Scalar("i32", t), Scalar("i32", cond)>> \o carried, env)
        nc == Len(carried)
    IN IF r.st # "ok" THEN R(r.st, <<>>, fl \cup r.fl)
       ELSE IF Len(r.v[1].data) # 1 THEN R("undefined", <<>>, fl \cup r.fl)
       ELSE LoopIter(n, env, m, r.v[1].data[1], SubSeq(r.v, 2, 1 + nc),
                     [k \in DOMAIN scans |-> Append(scans[k], r.v[1 + nc + k])], t + 1, fl \cup r.fl)
  ELSE IF \E k \in DOMAIN scans : Len(scans[k]) > 0 /\ ~SameType(scans[k]) THEN R("undefined", <<>>, fl)
  ELSE R("ok", carried \o [k \in DOMAIN scans |-> Stack(scans[k])],
         fl \cup (IF t = 0 /\ Len(scans) > 0 THEN {"zero_trip_scan"} ELSE {})
            \cup (IF t = 0 THEN {"zero_trip"} ELSE {}))

\* Reference of one run: the value of every requested name (a model input or a declared output).
RefRun(prog, run) ==
  LET inT(nm) == TOf(run.inputs[CHOOSE k \in DOMAIN run.inputs : run.inputs[k].name = nm].t)
      inNames == {run.inputs[k].name : k \in DOMAIN run.inputs}
      r == EvalGraph(prog, [k \in DOMAIN prog.ins |-> inT(prog.ins[k])], <<>>)
      val(nm) == IF nm \in inNames THEN inT(nm) ELSE r.v[CHOOSE k \in DOMAIN prog.outs : prog.outs[k] = nm]
  IN IF r.st # "ok" THEN [st |-> r.st, exp |-> <<>>, fl |-> r.fl]
     ELSE [st |-> "ok", exp |-> [j \in DOMAIN run.req |-> val(run.req[j].name)], fl |-> r.fl]

---------------------------------------------------------------------------
(* Judging.                                                                  *)
Counters == [cases |-> 0, runs |-> 0, ref_undefined |-> 0, cf_runs_ok |-> 0, cf_runs_failed |-> 0,
             inl_runs_failed |-> 0, outputs_compared |-> 0, captured_outputs_compared |-> 0,
             zero_trip_runs |-> 0, died |-> 0, design_programs |-> 0]
NoCase == [ev |-> "none"]
NoCur == [c |-> NoCase, ref |-> <<>>, sdup |-> FALSE, trap |-> FALSE]
Init == l = 1 /\ bad = NoBad /\ cur = NoCur /\ cnt = Counters

\* does what rten returned for one output equal the expected tensor?
OutEq(x, o) ==
  IF x.dtype = "empty" THEN o.p /\ o.data = <<>>            \* scan output of a zero-iteration loop
  ELSE o.p /\ o.nonint = 0 /\ o.shape = x.shape /\ o.dtype = x.dtype /\ o.data = x.data
SameOut(a, b) == a.shape = b.shape /\ a.dtype = b.dtype /\ a.data = b.data /\ a.nonint = b.nonint

RoleCheck(role) ==
  CASE role = "captured" -> "captured_parent_value_differs_after_subgraph_ran"
    [] role = "cf" -> "control_flow_output_differs_from_reference"
    [] role = "after" -> "value_computed_after_control_flow_differs_from_reference"
    [] OTHER -> "other_output_differs_from_reference"
OnOff(b) == IF b THEN "on" ELSE "off"
\* ---- static program features used in finding signatures ----
IsCf(n) == n.op \in {"If", "Loop"}
InsOf(n) == {n.ins[k] : k \in DOMAIN n.ins} \ {""}
OutsOf(n) == {n.outs[k] : k \in DOMAIN n.outs} \ {""}
InitNames(g) == {g.inits[k].name : k \in DOMAIN g.inits}
Defined(g) == {g.ins[k] : k \in DOMAIN g.ins} \cup InitNames(g) \cup UNION {OutsOf(g.nodes[k]) : k \in DOMAIN g.nodes}
RECURSIVE StaticDup(_), AllInits(_), Free(_), ConstClosure(_, _, _), FoldTrap(_, _, _)
\* some subgraph of the program (executed or not) lists one value twice among its outputs
StaticDup(g) ==
  \E k \in DOMAIN g.nodes :
     LET n == g.nodes[k] IN
     \/ IsCf(n) /\ (HasDup(n.g1.outs) \/ StaticDup(n.g1))
     \/ n.op = "If" /\ (HasDup(n.g2.outs) \/ StaticDup(n.g2))
AllInits(g) == InitNames(g) \cup UNION {IF IsCf(g.nodes[k]) THEN AllInits(g.nodes[k].g1) \cup (IF g.nodes[k].op = "If" THEN AllInits(g.nodes[k].g2) ELSE {}) ELSE {}
                                        : k \in DOMAIN g.nodes}
\* names a graph (with its subgraphs) takes from enclosing scopes
SubFree(n) == IF n.op = "If" THEN Free(n.g1) \cup Free(n.g2) ELSE IF n.op = "Loop" THEN Free(n.g1) ELSE {}
Free(g) == UNION {InsOf(g.nodes[k]) \cup SubFree(g.nodes[k]) : k \in DOMAIN g.nodes} \ Defined(g)
\* names of g computable from constants alone (what constant propagation evaluates)
ConstClosure(g, i, S) ==
  IF i > Len(g.nodes) THEN S
  ELSE LET n == g.nodes[i] IN
       ConstClosure(g, i + 1, IF InsOf(n) \subseteq S /\ SubFree(n) \subseteq S THEN S \cup OutsOf(n) ELSE S)
\* a control-flow operator INSIDE a subgraph whose own inputs are all constant while its
\* subgraphs use a non-constant value of a graph further out (no node for it in g)
FoldTrap(g, d, allc) ==
  \E k \in DOMAIN g.nodes :
     LET n == g.nodes[k] IN
     IsCf(n) /\
       \/ d >= 1 /\ InsOf(n) \subseteq ConstClosure(g, 1, allc) /\ ((SubFree(n) \ Defined(g)) \ allc) # {}
       \/ FoldTrap(n.g1, d + 1, allc)
       \/ n.op = "If" /\ FoldTrap(n.g2, d + 1, allc)
YesNo(b) == IF b THEN "yes" ELSE "no"

Variant(run, name) == run[CHOOSE i \in DOMAIN run : run[i].variant = name]

\* all contract predicates of one variant of one run, folded into `b`
JudgeVariant(b, k, v) ==
  LET spec == cur.c.runs[k]
      ref == cur.ref[k]
      \* the inlined model under the same optimisation setting: whatever it shares with the
      \* control-flow model is not caused by control flow (C01 / C15 territory -> drift)
      inl == Variant(e.runs[k], IF v.opt THEN "inl_opt" ELSE "inl_noopt")
      rec(extra) == [id |-> cur.c.id, idx |-> cur.c.idx, run |-> k, variant |-> v.variant, tags |-> cur.c.tags,
                     msg |-> v.msg, got |-> v.outs, expected |-> IF ref.st = "ok" THEN ref.exp ELSE <<>>,
                     inlined |-> inl.outs, req |-> spec.req, inputs |-> spec.inputs, detail |-> extra, prog |-> cur.c.prog]
      \* (records the engine corrupted on purpose for the binding self-test are judged under their own name)
      pr == IF cur.c.st THEN "selftest" ELSE "C24"
      base(check) == [prop |-> pr, check |-> check, opt |-> OnOff(v.opt), inputs |-> IF v.owned THEN "owned" ELSE "borrowed"]
  IN
  IF v.model = "cf" THEN
    IF v.outcome = "ok" THEN
      LET n == Len(spec.req)
          \* P2: against the reference
          shared(j) == inl.outcome = "ok" /\ Len(inl.outs) = n /\ inl.outs[j].p /\ SameOut(v.outs[j], inl.outs[j])
          badRef == IF ref.st # "ok" \/ Len(v.outs) # n THEN {} ELSE {j \in 1..n : ~OutEq(ref.exp[j], v.outs[j]) /\ ~shared(j)}
          j2 == IF badRef = {} THEN 0 ELSE CHOOSE j \in badRef : \A i \in badRef : j <= i
          b1 == IF Len(v.outs) # n THEN Flag(b, FALSE, base("wrong_number_of_outputs"), rec(Len(v.outs)))
                ELSE IF j2 = 0 THEN b ELSE Flag(b, FALSE, base(RoleCheck(spec.req[j2].role)), rec(j2))
          \* P1: against the inlined model run by the real code
          badInl == IF inl.outcome # "ok" \/ Len(v.outs) # n \/ Len(inl.outs) # n THEN {}
                    ELSE {j \in 1..n : inl.outs[j].p /\ ~SameOut(v.outs[j], inl.outs[j])}
          j1 == IF badInl = {} THEN 0 ELSE CHOOSE j \in badInl : \A i \in badInl : j <= i
      IN IF j1 = 0 THEN b1 ELSE Flag(b1, FALSE, base("control_flow_model_differs_from_inlined_model"), rec(j1))
    ELSE
      \* P3: no outputs at all although the inlined model runs
      IF inl.outcome = "ok"
      THEN Flag(b, FALSE, [prop |-> pr, check |-> "control_flow_model_fails_where_inlined_model_runs",
                           outcome |-> v.outcome, opt |-> OnOff(v.opt), msgclass |-> v.mclass,
                           \* program features (which failure this can be):
                           zero_iteration_loop_with_scan_output |-> IF ref.st = "ok" THEN YesNo("zero_trip_scan" \in ref.fl) ELSE "unknown",
                           subgraph_output_listed_twice |-> YesNo(cur.sdup),
                           constant_input_control_flow_in_subgraph_uses_outer_value |-> YesNo(cur.trap)], rec(0))
      ELSE b
  ELSE
    \* inlined model: not a statement about control flow -> drift
    IF v.outcome = "ok" /\ ref.st = "ok" /\ Len(v.outs) = Len(spec.req)
    THEN LET badRef == {j \in 1..Len(spec.req) : v.outs[j].p /\ ~OutEq(ref.exp[j], v.outs[j])}
         IN IF badRef = {} THEN b
            ELSE Flag(b, FALSE, [prop |-> "drift", check |-> "inlined_model_differs_from_reference", opt |-> OnOff(v.opt)], rec(0))
    ELSE IF v.outcome # "ok"
    THEN Flag(b, FALSE, [prop |-> "drift", check |-> "inlined_model_fails", outcome |-> v.outcome, opt |-> OnOff(v.opt), msgclass |-> v.mclass], rec(0))
    ELSE b

RECURSIVE JudgeRun(_, _, _), JudgeAll(_, _)
JudgeRun(b, k, i) == IF i > Len(e.runs[k]) THEN b ELSE JudgeRun(JudgeVariant(b, k, e.runs[k][i]), k, i + 1)
JudgeAll(b, k) == IF k > Len(e.runs) THEN b ELSE JudgeAll(JudgeRun(b, k, 1), k + 1)

Case == /\ e.ev = "case"
        /\ cur' = [c |-> e, ref |-> [k \in DOMAIN e.runs |-> RefRun(e.prog, e.runs[k])],
                   sdup |-> StaticDup(e.prog), trap |-> FoldTrap(e.prog, 0, AllInits(e.prog))]
        /\ cnt' = [cnt EXCEPT !.cases = @ + 1]
        /\ UNCHANGED bad

CountWhere(P(_, _)) == Cardinality({<<k, i>> \in (DOMAIN e.runs) \X (1..8) : i \in DOMAIN e.runs[k] /\ P(k, e.runs[k][i])})

Res == /\ e.ev = "res"
       /\ cur.c.ev = "case"
       /\ IF e.kind # "done"
          THEN /\ bad' = Flag(bad, FALSE, [prop |-> "C24", check |-> "process_died", kind |-> e.kind],
                              [id |-> cur.c.id, idx |-> cur.c.idx, tags |-> cur.c.tags, prog |-> cur.c.prog, runs |-> cur.c.runs])
               /\ cnt' = [cnt EXCEPT !.died = @ + 1]
          ELSE /\ e.idx = cur.c.idx /\ Len(e.runs) = Len(cur.c.runs)
               /\ bad' = JudgeAll(bad, 1)
               /\ cnt' = [cnt EXCEPT
                    !.runs = @ + Len(e.runs),
                    !.ref_undefined = @ + Cardinality({k \in DOMAIN cur.ref : cur.ref[k].st # "ok"}),
                    !.zero_trip_runs = @ + Cardinality({k \in DOMAIN cur.ref : "zero_trip" \in cur.ref[k].fl}),
                    !.cf_runs_ok = @ + CountWhere(LAMBDA k, v : v.model = "cf" /\ v.outcome = "ok"),
                    !.cf_runs_failed = @ + CountWhere(LAMBDA k, v : v.model = "cf" /\ v.outcome # "ok"),
                    !.inl_runs_failed = @ + CountWhere(LAMBDA k, v : v.model = "inl" /\ v.outcome # "ok"),
                    !.outputs_compared = @ + CountWhere(LAMBDA k, v : v.model = "cf" /\ v.outcome = "ok" /\ cur.ref[k].st = "ok") ,
                    !.captured_outputs_compared = @ + CountWhere(LAMBDA k, v : v.model = "cf" /\ v.outcome = "ok" /\ cur.ref[k].st = "ok"
                                                         /\ \E j \in DOMAIN cur.c.runs[k].req : cur.c.runs[k].req[j].role = "captured")]
       /\ cur' = NoCur

---------------------------------------------------------------------------
(* spec -> impl: programs of the design-level family (ControlFlow.tla, emitted *)
(* by MC_ControlFlow's generator) executed on the real Graph::run with mixer   *)
(* operators and the real If / Loop operator structs (vh-cf mixers).  The      *)
(* expected value of every requested output is the INLINED evaluation with     *)
(* the mixer arithmetic: out[j] = (sum_p (p+1) * arg_p[j] + 7 k + 1) mod 65521. *)
MixK(out) == CASE out = "p" -> 1 [] out = "q" -> 2 [] out = "m1" -> 3 [] out = "m2" -> 4
               [] out = "n1" -> 5 [] out = "e1" -> 6 [] OTHER -> 9
RECURSIVE MixSum(_, _, _), MixMaxLen(_, _)
MixSum(args, j, p) == IF p = 0 THEN 0 ELSE (p + 1) * (IF Len(args[p]) = 1 THEN args[p][1] ELSE args[p][j]) + MixSum(args, j, p - 1)
MixMaxLen(args, p) == IF p = 0 THEN 1 ELSE MaxI(Len(args[p]), MixMaxLen(args, p - 1))
MixOp(out, args) == [j \in 1..MixMaxLen(args, Len(args)) |-> (MixSum(args, j, Len(args)) + 7 * MixK(out) + 1) % 65521]
MV(d) == [shape |-> <<Len(d)>>, data |-> d]
RECURSIVE MFlat(_, _)
MFlat(vs, i) == IF i > Len(vs) THEN <<>> ELSE vs[i].data \o MFlat(vs, i + 1)
MStack(vs) == [shape |-> <<Len(vs)>> \o vs[1].shape, data |-> MFlat(vs, 1)]
RECURSIVE MGraph(_, _, _), MOps(_, _, _), MLoop(_, _, _, _, _)
MGraph(g, inVals, outer) ==
  MOps(g, 1, [n \in {g.ins[k] : k \in DOMAIN g.ins} |-> inVals[CHOOSE k \in DOMAIN g.ins : g.ins[k] = n]] @@ outer)
MOps(g, i, env) ==
  IF i > Len(g.ops) THEN env
  ELSE LET o == g.ops[i] IN
       IF o.kind = "op" THEN MOps(g, i + 1, (o.out :> MV(MixOp(o.out, [k \in DOMAIN o.ins |-> env[o.ins[k]].data]))) @@ env)
       ELSE IF o.kind = "if" THEN MOps(g, i + 1, (o.out :> MGraph(o.body, <<>>, env)[o.body.outs[1]]) @@ env)
       ELSE LET r == MLoop(o, env, env[o.ins[1]], <<>>, 0)
            IN MOps(g, i + 1, (IF o.scan /\ r.scans # <<>> THEN (o.sout :> MStack(r.scans)) ELSE <<>>) @@ (o.out :> r.carried) @@ env)
MLoop(o, env, carried, scans, t) ==
  IF t >= o.trip THEN [carried |-> carried, scans |-> scans]
  ELSE LET en == MGraph(o.body, <<carried>>, env)
       IN MLoop(o, env, en[o.body.outs[1]], IF o.scan THEN Append(scans, en[o.body.outs[2]]) ELSE scans, t + 1)

MCase == /\ e.ev = "mcase"
         /\ cur' = [NoCur EXCEPT !.c = e, !.ref = MGraph(e.prog.g, <<MV(e.a), MV(e.b)>>, <<>>)]
         /\ cnt' = [cnt EXCEPT !.design_programs = @ + 1]
         /\ UNCHANGED bad
MRes == /\ e.ev = "mres" /\ cur.c.ev = "mcase" /\ e.idx = cur.c.idx
        /\ LET outs == cur.c.prog.g.outs
               okOut(k) == e.outs[k].name = outs[k] /\ outs[k] \in DOMAIN cur.ref
                           /\ e.outs[k].shape = cur.ref[outs[k]].shape /\ e.outs[k].data = cur.ref[outs[k]].data
               good == e.kind = "ok" /\ Len(e.outs) = Len(outs) /\ \A k \in DOMAIN outs : okOut(k)
               untouched == e.kind = "panic" \/ (("a" \notin {cur.c.prog.owned[k] : k \in DOMAIN cur.c.prog.owned} => e.a_after = cur.c.a)
                                               /\ ("b" \notin {cur.c.prog.owned[k] : k \in DOMAIN cur.c.prog.owned} => e.b_after = cur.c.b))
               rec == [idx |-> cur.c.idx, prog |-> cur.c.prog, a |-> cur.c.a, b |-> cur.c.b, res |-> e,
                       expected |-> [k \in DOMAIN outs |-> IF outs[k] \in DOMAIN cur.ref THEN cur.ref[outs[k]] ELSE MV(<<>>)]]
               pr == IF cur.c.st THEN "selftest" ELSE "C24"
               b1 == Flag(bad, good, [prop |-> pr, check |-> "design_family_program_on_real_executor_differs_from_inlined_evaluation", outcome |-> e.kind], rec)
           IN bad' = Flag(b1, untouched, [prop |-> pr, check |-> "design_family_program_modified_a_borrowed_input"], rec)
        /\ cur' = NoCur
        /\ UNCHANGED cnt

Next == /\ l <= NRec /\ l' = l + 1 /\ (Case \/ Res \/ MCase \/ MRes)

Report == l = NRec + 1 =>
            /\ ReportBad(bad)
            /\ Stat("cases", cnt.cases) /\ Stat("runs", cnt.runs) /\ Stat("ref_undefined", cnt.ref_undefined)
            /\ Stat("cf_runs_ok", cnt.cf_runs_ok) /\ Stat("cf_runs_failed", cnt.cf_runs_failed)
            /\ Stat("inl_runs_failed", cnt.inl_runs_failed) /\ Stat("cf_runs_compared", cnt.outputs_compared)
            /\ Stat("cf_runs_with_captured_output_compared", cnt.captured_outputs_compared)
            /\ Stat("zero_trip_runs", cnt.zero_trip_runs) /\ Stat("died", cnt.died)
            /\ Stat("design_programs_replayed", cnt.design_programs)
=============================================================================
