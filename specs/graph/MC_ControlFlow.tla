--------------------------- MODULE MC_ControlFlow ---------------------------
(* Model-checking instances of ControlFlow.tla (see the .cfg files) and the   *)
(* generator view of the same family: every program once, as JSON (the        *)
(* loader-derived fields are left out; the harness derives them again).       *)
EXTENDS ControlFlow, Json
RECURSIVE Slim(_)
SlimOp(o) == [kind |-> o.kind, out |-> o.out, sout |-> o.sout, ins |-> o.ins, inplace |-> o.inplace,
              trip |-> o.trip, scan |-> o.scan, body |-> Slim(o.body), els |-> Slim(o.els)]
Slim(g) == [ins |-> g.ins, outs |-> g.outs, ops |-> [i \in DOMAIN g.ops |-> SlimOp(g.ops[i])]]
\* as an invariant of a model-checking run: printed once per program (right after Start)
Emit == (stack # <<>> /\ Len(stack) = 1 /\ stack[1].pc = 1 /\ ~done) =>
          PrintT(<<"REPLAY", ToJson([g |-> Slim(prog.g), owned |-> prog.owned])>>)
\* generator: only the Start step (the programs are not executed by TLC in this mode)
GenNext == Start /\ PrintT(<<"REPLAY", ToJson([g |-> Slim(prog'.g), owned |-> prog'.owned])>>)
=============================================================================
