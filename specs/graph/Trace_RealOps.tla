---------------------------- MODULE Trace_RealOps ----------------------------
(* C02 / C25 on real operators (`vh-graph exec-realops`): x -> Relu -> t -> OP  *)
(* -> y0 -> Neg -> y with OP from a menu of operators that have an in-place     *)
(* path, run under a history of strategies (input owned / borrowed; t and y0     *)
(* also requested, which forbids in-place execution; thread pools; pool off;     *)
(* optimisation on/off; repeats).  No reference semantics: the contract of C02   *)
(* is that the bits of a value do not depend on the strategy, that of C25 that   *)
(* runs with the same inputs return the same bits whatever else was requested    *)
(* before, and that a borrowed input is left unchanged.                          *)
EXTENDS TraceLib

VARIABLES l, bad, c, first, kind0, nruns
Init == l = 1 /\ bad = NoBad /\ c = [ev |-> "none"] /\ first = <<>> /\ kind0 = "none" /\ nruns = 0
e == Rec[l]

CaseEv == /\ e.ev = "rcase" /\ c' = e /\ first' = <<>> /\ kind0' = "none" /\ UNCHANGED <<bad, nruns>>

Known(name) == name \in DOMAIN first
\* every requested value already seen in this case has the same shape, type and bits
SameAsBefore == \A k \in DOMAIN e.outs : Known(e.outs_req[k]) => e.outs[k] = first[e.outs_req[k]]
NewOnes == {k \in DOMAIN e.outs : ~Known(e.outs_req[k])}
Learn == [n \in (DOMAIN first) \cup {e.outs_req[k] : k \in NewOnes} |->
            IF n \in DOMAIN first THEN first[n] ELSE e.outs[CHOOSE k \in NewOnes : e.outs_req[k] = n]]

RunEv ==
  /\ e.ev = "rrun"
  /\ LET sig(prop, check) == [prop |-> prop, op |-> c.op, check |-> check, strategy |-> e.strategy]
         rec == [case |-> c, run |-> e, first |-> first]
         kindok == kind0 = "none" \/ e.kind = kind0
         b1 == Flag(bad, kindok, sig("C02", "run_outcome_depends_on_strategy"), rec)
         b2 == Flag(b1, e.kind = "ok" => SameAsBefore, sig("C02", "output_depends_on_strategy"), rec)
         b3 == Flag(b2, e.kind = "ok" => SameAsBefore, sig("C25", "same_inputs_different_value_across_runs"), rec)
         b4 == Flag(b3, e.input_intact, sig("C25", "borrowed_input_modified"), rec)
         b5 == Flag(b4, e.kind # "panic", sig("C02", "run_panicked"), rec)
     IN bad' = b5
  /\ kind0' = IF kind0 = "none" THEN e.kind ELSE kind0
  /\ first' = IF e.kind = "ok" THEN Learn ELSE first
  /\ nruns' = nruns + 1 /\ UNCHANGED c

Next == /\ l <= NRec /\ l' = l + 1 /\ (CaseEv \/ RunEv)
Report == l = NRec + 1 => /\ ReportBad(bad) /\ Stat("runs", nruns)
=============================================================================
