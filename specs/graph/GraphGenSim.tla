---------------------------- MODULE GraphGenSim ----------------------------
(* Random-walk variant of GraphGen for `tlc -simulate`: the same graph space,  *)
(* but each AddOp draws its arguments with RandomElement so that a walk costs  *)
(* one successor per step instead of enumerating every choice.                 *)
EXTENDS GraphGen

AddOpR == /\ ~done /\ Len(ops) < MaxOps /\ OutChoices # {}
          /\ LET ins == RandomElement({s \in InChoices : Len(ops) >= 0})
                 outs == RandomElement(OutChoices)
                 caps == RandomElement({c \in CapChoices : Len(ops) >= 0})
                 ip == RandomElement({b \in BOOLEAN : Len(ops) >= 0})
             IN ops' = Append(ops, [ins |-> ins, outs |-> outs, caps |-> caps, inplace |-> ip])
          /\ UNCHANGED <<captured, done>>
FinishR == /\ ~done /\ Len(ops) >= 2
           /\ captured' = RandomElement({x \in SUBSET ValIds : Cardinality(x) <= 1 /\ Len(ops) >= 0})
           /\ done' = TRUE /\ UNCHANGED ops
NextR == AddOpR \/ FinishR
=============================================================================
