------------------------------ MODULE Executor ------------------------------
(* Execution of a plan (C02, C25).  SSA graphs: NI graph inputs (values 1..NI), *)
(* operator i (1..NOps) produces value NI+i from earlier values, so the plan is *)
(* 1..NOps.  Values denote terms; an operator run in place overwrites the        *)
(* buffer of the value it takes.  The *contract* (Safe) says when that is        *)
(* harmless; ExecutorImpl's rule (the transcription of Graph::run_plan: usage    *)
(* counts incl. requested outputs, take only owned values with count 1,          *)
(* commutative operators pick the largest owned operand) must imply it.          *)
EXTENDS Naturals, Integers, Sequences, FiniteSets, TLC

CONSTANTS NI, NOps,
          CountMax,   \* usage counts are u8 in the code (NodeRefCount): 255; small values let TLC reach saturation
          StickyDec   \* TRUE (the code): a count that reached CountMax never decrements again

VARIABLES g,        \* graph: [ops |-> seq of [ins: seq of value ids, inplace: BOOLEAN, comm: BOOLEAN], outs: set of requested values, owned: set of owned graph inputs, big: set of values with the larger size]
          pc,       \* next plan step
          store,    \* value id -> "absent" | "clobbered" | term currently in its buffer
          count,    \* usage counts (implementation state)
          where     \* value id -> "owned" | "borrowed" | "none": who holds the buffer
vars == <<g, pc, store, count, where>>

NV == NI + NOps
Vals == 1..NV
RangeOf(s) == {s[i] : i \in DOMAIN s}
Occ(s, v) == Cardinality({i \in DOMAIN s : s[i] = v})

\* naive term semantics: graph input i denotes <<"in", i>>, operator i denotes <<"op", i, argument terms>>
RECURSIVE Denote(_, _)
Denote(gr, v) == IF v <= NI THEN <<"in", v>>
                 ELSE LET o == gr.ops[v - NI] IN <<"op", v - NI, [k \in DOMAIN o.ins |-> Denote(gr, o.ins[k])]>>

\* ---- the graph family (Init enumerates it) ----
InSeqs(i) == UNION {[1..k -> 1..(NI + i - 1)] : k \in 1..2}
OpChoices(i) == {[ins |-> x, inplace |-> a, comm |-> c] :
                   x \in InSeqs(i), a \in BOOLEAN, c \in BOOLEAN} \ {o \in [ins : InSeqs(i), inplace : BOOLEAN, comm : {TRUE}] : Len(o.ins) # 2}
RECURSIVE OpSeqs(_)
OpSeqs(i) == IF i = 0 THEN {<<>>} ELSE {Append(s, o) : s \in OpSeqs(i - 1), o \in OpChoices(i)}
\* the last operator's output is always requested, plus at most one other value
Graphs == {[ops |-> s, outs |-> {NV} \cup e, owned |-> w, big |-> b] :
             s \in OpSeqs(NOps), e \in {{}} \cup {{v} : v \in Vals \ {NV}},
             w \in SUBSET (1..NI), b \in SUBSET (1..NI)}

\* NodeRefCount::inc saturates at CountMax; NodeRefCount::dec leaves a saturated count alone ("sticky"):
\* a value with more uses than the counter can represent is never taken in place or released early
Sat(n) == IF n > CountMax THEN CountMax ELSE n
DecBy(c, n) == IF StickyDec /\ c = CountMax THEN c ELSE IF c >= n THEN c - n ELSE 0
InitCount(gr) == [v \in Vals |-> Sat((IF v \in gr.outs THEN 1 ELSE 0)
                                 + Cardinality({<<i, k>> \in (1..NOps) \X (1..2) : k \in DOMAIN gr.ops[i].ins /\ gr.ops[i].ins[k] = v}))]

Init == /\ g \in Graphs /\ pc = 1
        /\ store = [v \in Vals |-> IF v <= NI THEN <<"in", v>> ELSE "absent"]
        /\ count = InitCount(g)
        /\ where = [v \in Vals |-> IF v <= NI THEN (IF v \in g.owned THEN "owned" ELSE "borrowed") ELSE "none"]

\* ---- implementation-shaped choice of the value to take (Graph::run_plan) ----
SizeOf(v) == IF where[v] = "owned" THEN (IF v \in g.big THEN 2 ELSE 1) ELSE 0   \* temp_values.get(id).map(len).unwrap_or(0)
\* commutative: the LAST position with the maximal size (Iterator::max_by_key)
CommPos(o) == CHOOSE p \in DOMAIN o.ins :
                /\ \A q \in DOMAIN o.ins : SizeOf(o.ins[q]) <= SizeOf(o.ins[p])
                /\ \A q \in DOMAIN o.ins : q > p => SizeOf(o.ins[q]) < SizeOf(o.ins[p])
CandPos(o) == IF ~o.inplace THEN 0 ELSE IF o.comm THEN CommPos(o) ELSE 1
ImplTakes(o) == LET p == CandPos(o) IN
                IF p = 0 THEN 0
                ELSE IF count[o.ins[p]] = 1 /\ where[o.ins[p]] = "owned" THEN p ELSE 0

\* ---- the contract: taking the value at position p is safe iff ... ----
LaterReads(v) == \E j \in (pc + 1)..NOps : v \in RangeOf(g.ops[j].ins)
Safe(o, p) == LET v == o.ins[p] IN
              /\ where[v] = "owned"                  \* never a borrowed input or constant
              /\ Occ(o.ins, v) = 1                   \* the operator does not also read it normally
              /\ ~LaterReads(v) /\ v \notin g.outs   \* nobody needs it afterwards

Release(cnt, wh, o) ==   \* after the step: values whose count dropped to 0 go back to the pool
  [v \in Vals |-> IF wh[v] = "owned" /\ cnt[v] = 0 THEN "none" ELSE wh[v]]

Step ==
  /\ pc <= NOps
  /\ LET o == g.ops[pc] out == NI + pc p == ImplTakes(o)
         cnt2 == [v \in Vals |-> DecBy(count[v], Occ(o.ins, v))]
     IN /\ count' = cnt2
        /\ IF p = 0
           THEN /\ store' = [store EXCEPT ![out] = <<"op", pc, [k \in DOMAIN o.ins |-> store[o.ins[k]]]>>]
                /\ where' = [Release(cnt2, where, o) EXCEPT ![out] = "owned"]
           ELSE LET v == o.ins[p] IN
                \* the output is written into v's buffer: v's old content is gone
                /\ store' = [store EXCEPT ![out] = <<"op", pc, [k \in DOMAIN o.ins |-> store[o.ins[k]]]>>,
                                          ![v] = "clobbered"]
                /\ where' = [Release(cnt2, [where EXCEPT ![v] = "none"], o) EXCEPT ![out] = "owned"]
        /\ pc' = pc + 1
  /\ UNCHANGED g

Next == Step
Spec == Init /\ [][Next]_vars

\* ---- invariants ----
\* the implementation only takes what the contract allows
ImplRefinesContract == pc <= NOps => LET p == ImplTakes(g.ops[pc]) IN p # 0 => Safe(g.ops[pc], p)
\* every read sees the value's denotation (nothing was clobbered or released too early)
ReadsSeeDenotation == pc <= NOps => \A k \in DOMAIN g.ops[pc].ins :
                         LET v == g.ops[pc].ins[k] IN store[v] = Denote(g, v) /\ where[v] # "none"
\* at the end every requested output is intact; borrowed inputs were never taken
OutputsIntact == pc = NOps + 1 => \A v \in g.outs : store[v] = Denote(g, v) /\ where[v] # "none"
BorrowedUntouched == \A v \in 1..NI : v \notin g.owned => store[v] = <<"in", v>> /\ where[v] = "borrowed"
CountsNonNegative == \A v \in Vals : count[v] >= 0
=============================================================================
