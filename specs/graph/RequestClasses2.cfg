CONSTANTS Classes <- AllClasses  MaxLen = 2
INIT Init
NEXT Next
INVARIANT Emit
CHECK_DEADLOCK FALSE
