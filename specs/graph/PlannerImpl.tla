---------------------------- MODULE PlannerImpl ----------------------------
(* Implementation-shaped specification of src/graph/planner.rs, one action per *)
(* step of the code: Planner::create_plan's request checks, PlanBuilder::plan's *)
(* loop over the requested outputs, PlanBuilder::visit as an explicit stack of  *)
(* frames (depth-first traversal with the active set for cycle detection), and   *)
(* PlanBuilder::sort_plan (frontier; non-in-place operators first; every         *)
(* operator scheduled once - the `scheduled` set is the repair of the defect     *)
(* this transcription exhibits when ScheduleOnce = FALSE).  TLC checks, for      *)
(* every graph and request of the family chosen by Init, that the result         *)
(* satisfies the Planner contract and that planning terminates.                  *)
EXTENDS Planner, TLC

CONSTANTS NVals, NOpsMax, ScheduleOnce,
          Rich      \* TRUE: operators may have absent (0) operands / outputs and captures; FALSE: plain family (for 2 operators)

VARIABLES g, req,          \* the graph and the request [ins, outs, allow, capsavail]
          phase,           \* "check" | "outputs" | "visit" | "sort" | "done" | "err"
          oi,              \* index of the requested output being processed
          stack,           \* DFS frames [op, k]: k = next dependency to look at
          active, resolved, plan,
          frontier, scheduled, outplan, resolved0
vars == <<g, req, phase, oi, stack, active, resolved, plan, frontier, scheduled, outplan, resolved0>>

\* ---------- the family of graphs and requests (Init) ----------
ValIds == 1..NVals
OpId(i) == NVals + i
SeqsUpTo(S, n) == UNION {[1..k -> S] : k \in 0..n}
Opt == IF Rich THEN {0} ELSE {}
OutSeqs == {s \in UNION {[1..k -> ValIds \cup Opt] : k \in 1..2} :
              /\ s[Len(s)] # 0 /\ \A i, j \in DOMAIN s : (i # j /\ s[i] # 0) => s[i] # s[j]}
OpRecs == [ins : SeqsUpTo(ValIds \cup Opt, 2), outs : OutSeqs,
           caps : IF Rich THEN {{}} \cup {{v} : v \in ValIds} ELSE {{}}, inplace : BOOLEAN]
RECURSIVE OpLists(_)
OpLists(n) == IF n = 0 THEN {<<>>}
              ELSE {Append(s, o) : s \in OpLists(n - 1), o \in OpRecs}
\* each value has at most one producer
UniqueProducers(ops) == \A i, j \in DOMAIN ops : i # j =>
                           (RangeOf(ops[i].outs) \ {0}) \cap (RangeOf(ops[j].outs) \ {0}) = {}
MkGraph(ops, captured) ==
  [kind |-> [n \in 1..(NVals + Len(ops)) |-> IF n <= NVals THEN "value" ELSE "op"],
   ins |-> [n \in 1..(NVals + Len(ops)) |-> IF n <= NVals THEN <<>> ELSE ops[n - NVals].ins],
   outs |-> [n \in 1..(NVals + Len(ops)) |-> IF n <= NVals THEN <<>> ELSE ops[n - NVals].outs],
   caps |-> [n \in 1..(NVals + Len(ops)) |-> IF n <= NVals THEN {} ELSE ops[n - NVals].caps],
   inplace |-> [n \in 1..(NVals + Len(ops)) |-> IF n <= NVals THEN FALSE ELSE ops[n - NVals].inplace],
   captured |-> captured]
SetToSeq(S) == CHOOSE s \in [1..Cardinality(S) -> S] : RangeOf(s) = S /\ \A i, j \in DOMAIN s : i < j => s[i] < s[j]
ReqOuts == {s \in UNION {[1..k -> ValIds] : k \in 1..2} : NoDupSeq(s)}
Requests == [ins : {SetToSeq(S) : S \in SUBSET ValIds}, outs : ReqOuts, allow : BOOLEAN, capsavail : IF Rich THEN BOOLEAN ELSE {FALSE}]

Init == /\ \E n \in 1..NOpsMax : \E ops \in OpLists(n) : \E c \in (IF Rich THEN {{}} \cup {{v} : v \in ValIds} ELSE {{}}) :
             UniqueProducers(ops) /\ g = MkGraph(ops, c)
        /\ req \in Requests
        /\ phase = "check" /\ oi = 1 /\ stack = <<>> /\ active = {} /\ resolved = {} /\ plan = <<>>
        /\ frontier = <<>> /\ scheduled = {} /\ outplan = <<>> /\ resolved0 = {}

\* ---------- helpers shaped like the code ----------
\* Graph::operator_dependencies: inputs in order (with repeats), then captures not among the inputs
DepSeq(o) == LET ins == SelectSeq(g.ins[o], LAMBDA x : x # 0)
                 extra == g.caps[o] \ RangeOf(g.ins[o])
             IN ins \o (IF extra = {} THEN <<>> ELSE SetToSeq(extra))
OutsOf(o) == RangeOf(g.outs[o]) \ {0}
\* ResolvedValueSet::contains (constants are always resolved; the family has none)
Contains(rs, v) == v \in rs
SourceOf(v) == IF HasProducer(g, v) THEN Producer(g, v) ELSE 0

\* Planner::create_plan: duplicate / kind checks are trivially passed by this family (requests are
\* well-formed); malformed requests are exercised on the real code by Trace_Planner.
Check == /\ phase = "check"
         /\ resolved' = RangeOf(req.ins) \cup (IF req.capsavail THEN g.captured ELSE {})
         /\ resolved0' = RangeOf(req.ins) \cup (IF req.capsavail THEN g.captured ELSE {})
         /\ phase' = "outputs"
         /\ UNCHANGED <<g, req, oi, stack, active, plan, frontier, scheduled, outplan>>

\* PlanBuilder::plan: for each requested output ...
NextOutput ==
  /\ phase = "outputs" /\ stack = <<>>
  /\ IF oi > Len(req.outs)
     THEN \* all outputs visited: return the DFS plan, or sort it
          IF req.allow \/ plan = <<>>
          THEN phase' = "done" /\ outplan' = plan /\ UNCHANGED <<frontier, scheduled, resolved, oi, stack, active>>
          ELSE /\ phase' = "sort"
               /\ frontier' = SelectSeq(plan, LAMBDA o : \A d \in RangeOf(DepSeq(o)) : Contains(resolved0, d))
               /\ scheduled' = RangeOf(SelectSeq(plan, LAMBDA o : \A d \in RangeOf(DepSeq(o)) : Contains(resolved0, d)))
               /\ resolved' = resolved0
               /\ UNCHANGED <<outplan, oi, stack, active>>
     ELSE LET v == req.outs[oi] IN
          IF Contains(resolved, v) THEN oi' = oi + 1 /\ UNCHANGED <<phase, stack, active, frontier, scheduled, outplan, resolved>>
          ELSE IF SourceOf(v) # 0
          THEN /\ stack' = <<[op |-> SourceOf(v), k |-> 1]>> /\ active' = {SourceOf(v)}
               /\ phase' = "visit" /\ oi' = oi + 1
               /\ UNCHANGED <<frontier, scheduled, outplan, resolved>>
          ELSE IF req.allow THEN oi' = oi + 1 /\ UNCHANGED <<phase, stack, active, frontier, scheduled, outplan, resolved>>
          ELSE phase' = "err" /\ UNCHANGED <<oi, stack, active, frontier, scheduled, outplan, resolved>>
  /\ UNCHANGED <<g, req, plan, resolved0>>

\* PlanBuilder::visit, one dependency (or the epilogue) per step
Visit ==
  /\ phase = "visit"
  /\ LET top == stack[Len(stack)] deps == DepSeq(top.op) IN
     IF top.k > Len(deps)
     THEN \* epilogue: outputs become resolved, the operator joins the plan
          /\ resolved' = resolved \cup OutsOf(top.op)
          /\ plan' = Append(plan, top.op)
          /\ active' = active \ {top.op}
          /\ stack' = SubSeq(stack, 1, Len(stack) - 1)
          /\ phase' = IF Len(stack) = 1 THEN "outputs" ELSE "visit"
     ELSE LET d == deps[top.k]
              adv == [stack EXCEPT ![Len(stack)].k = top.k + 1] IN
          IF Contains(resolved, d) THEN stack' = adv /\ UNCHANGED <<resolved, plan, active, phase>>
          ELSE IF SourceOf(d) # 0
          THEN IF SourceOf(d) \in active
               THEN phase' = "err" /\ UNCHANGED <<stack, resolved, plan, active>>      \* cycle
               ELSE /\ stack' = Append(adv, [op |-> SourceOf(d), k |-> 1])
                    /\ active' = active \cup {SourceOf(d)}
                    /\ UNCHANGED <<resolved, plan, phase>>
          ELSE IF req.allow THEN stack' = adv /\ UNCHANGED <<resolved, plan, active, phase>>
          ELSE phase' = "err" /\ UNCHANGED <<stack, resolved, plan, active>>            \* missing input
  /\ UNCHANGED <<g, req, oi, frontier, scheduled, outplan, resolved0>>

\* PlanBuilder::sort_plan, one frontier pick per step
FirstNonInPlace == IF \E i \in DOMAIN frontier : ~g.inplace[frontier[i]]
                   THEN CHOOSE i \in DOMAIN frontier : ~g.inplace[frontier[i]] /\ \A j \in 1..(i - 1) : g.inplace[frontier[j]]
                   ELSE 1
\* candidates in the order the code meets them: for each output of the picked operator, the
\* dependents of that output in plan order (with multiplicity: one entry per dependency occurrence)
RECURSIVE PushCands(_, _, _, _)
PushCands(cands, fr, sch, res) ==
  IF cands = <<>> THEN [fr |-> fr, sch |-> sch]
  ELSE LET c == Head(cands)
           blocked == IF ScheduleOnce THEN c \in sch ELSE c \in RangeOf(fr)
       IN IF ~blocked /\ \A d \in RangeOf(DepSeq(c)) : Contains(res, d)
          THEN PushCands(Tail(cands), Append(fr, c), sch \cup {c}, res)
          ELSE PushCands(Tail(cands), fr, sch, res)
Dependents(v) == LET Occs(o) == SelectSeq(DepSeq(o), LAMBDA d : d = v)
                     F[i \in 0..Len(plan)] == IF i = 0 THEN <<>> ELSE F[i - 1] \o [k \in 1..Len(Occs(plan[i])) |-> plan[i]]
                 IN F[Len(plan)]
RECURSIVE CandsOf(_)
CandsOf(outs) == IF outs = <<>> THEN <<>> ELSE (IF Head(outs) = 0 THEN <<>> ELSE Dependents(Head(outs))) \o CandsOf(Tail(outs))
Sort ==
  /\ phase = "sort"
  /\ IF frontier = <<>> THEN phase' = "done" /\ UNCHANGED <<frontier, scheduled, outplan, resolved>>
     ELSE LET p == FirstNonInPlace
              o == frontier[p]
              rest == [i \in 1..(Len(frontier) - 1) |-> IF i < p THEN frontier[i] ELSE frontier[i + 1]]
              res2 == resolved \cup OutsOf(o)
              pushed == PushCands(CandsOf(g.outs[o]), rest, scheduled, res2)
          IN /\ outplan' = Append(outplan, o) /\ resolved' = res2
             /\ frontier' = pushed.fr /\ scheduled' = pushed.sch
             /\ UNCHANGED phase
  /\ Len(outplan) <= 3 * Len(plan)       \* bound the broken variant (ScheduleOnce = FALSE) so that TLC reports it instead of diverging
  /\ UNCHANGED <<g, req, oi, stack, active, plan, resolved0>>

Next == Check \/ NextOutput \/ Visit \/ Sort
Spec == Init /\ [][Next]_vars /\ WF_vars(Next)

\* ---------- what TLC checks ----------
Result == IF phase = "done" THEN [kind |-> "plan", plan |-> outplan] ELSE [kind |-> "err"]
GG == [kind |-> g.kind, ins |-> g.ins, outs |-> g.outs, caps |-> g.caps, captured |-> g.captured]
ResultOk == phase \in {"done", "err"} => PlannerOk(GG, req.ins, req.outs, req.allow, req.capsavail, Result)
\* the sorted plan is a permutation of the depth-first plan
SortIsPermutation == phase = "done" => /\ Len(outplan) = Len(plan) /\ RangeOf(outplan) = RangeOf(plan)
Terminates == <>(phase \in {"done", "err"})
=============================================================================
