CONSTANTS Fam = "if"  MaxBody = 1  Wide = 2  Trips = {0, 1, 2}  ZeroTripScan = FALSE
          CloneByValue = TRUE  RespectCount = TRUE  SkipEmptyScan = TRUE
INIT Init
NEXT Next
INVARIANTS NoFault ParentValuesIntact ResultEqualsInlined BorrowedUntouched CountsNonNegative ByValueIsExclusive
CHECK_DEADLOCK FALSE
