CONSTANTS NI = 2  NOps = 2
INIT Init
NEXT Next
INVARIANTS ImplRefinesContract ReadsSeeDenotation OutputsIntact BorrowedUntouched CountsNonNegative Emit
CHECK_DEADLOCK FALSE
