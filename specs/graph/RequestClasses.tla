--------------------------- MODULE RequestClasses ---------------------------
(* Generator of request-class histories for C26: every sequence of at most    *)
(* MaxLen request classes.  A class names what is wrong (or nothing) with a    *)
(* request; "repeat"/"reordered"/"prev_dup_*" are derived from the most recent *)
(* valid request, so that they meet the cached plan.                           *)
EXTENDS Naturals, Sequences, TLC, Json
CONSTANTS Classes, MaxLen
VARIABLES hist, done
Init == hist = <<>> /\ done = FALSE
Add == /\ ~done /\ Len(hist) < MaxLen /\ \E c \in Classes : hist' = Append(hist, c) /\ UNCHANGED done
Stop == /\ ~done /\ Len(hist) >= 1 /\ done' = TRUE /\ UNCHANGED hist
Next == Add \/ Stop
Emit == done => PrintT(<<"REPLAY", ToJson(hist)>>)
AllClasses == {"valid", "valid_partial", "valid_intermediate", "extra_input", "unknown_input", "unknown_output",
  "op_input", "op_output", "dup_input", "dup_input_extra", "dup_output", "missing_input", "wrong_dtype",
  "wrong_rank", "wrong_dim", "partial_dup_output", "partial_unknown", "partial_wrong_dtype", "run_one",
  "run_one_wrong_dtype", "repeat", "reordered", "prev_dup_input", "prev_dup_output", "prev_plus_intermediate"}
=============================================================================
