----------------------------- MODULE PlanCache -----------------------------
(* The single-entry plan cache of a Graph (C22, C26), implementation-shaped. *)
(* get_cached_plan holds the cache mutex across lookup *and* plan creation,   *)
(* so GetPlan is one atomic action; running a plan happens outside the lock.  *)
(* Requests are *sequences* of ids (the API takes slices), so duplicate ids   *)
(* and reorderings are in the space.  The transcription of                    *)
(* CachedPlan::matches compares lengths and membership only.                  *)
(*                                                                            *)
(* CheckDupsFirst = FALSE is the pinned code: the duplicate check lives in    *)
(* create_plan, i.e. only on a cache miss.  TLC then finds the behaviour      *)
(*   t1: GetPlan(<<a,b>>) (miss, cached), t2: GetPlan(<<a,a>>) (HIT)          *)
(* violating PlanFitsRequest; it was reproduced on the real code (panic in    *)
(* run_plan) and repaired.  CheckDupsFirst = TRUE is the repaired code.       *)
EXTENDS Naturals, Sequences, FiniteSets, TLC

CONSTANTS Threads, InIds, OutIds, MaxLen, ReqsPerThread, CheckDupsFirst

VARIABLES cached,   \* None or [ins: set, outs: set, nins, nouts] (the sorted id vectors of CachedPlan)
          pc,       \* thread -> "idle" | "running"
          cur,      \* thread -> current request
          got,      \* thread -> result of GetPlan: [kind: "plan", key] | [kind: "err"] | None
          left,     \* thread -> requests still to issue
          hist
vars == <<cached, pc, cur, got, left, hist>>

None == [kind |-> "none"]
RangeOf(s) == {s[i] : i \in DOMAIN s}
NoDup(s) == \A i, j \in DOMAIN s : i # j => s[i] # s[j]
SeqsUpTo(S, n) == UNION {[1..k -> S] : k \in 1..n}
Requests == {[ins |-> i, outs |-> o] : i \in SeqsUpTo(InIds, MaxLen), o \in SeqsUpTo(OutIds, MaxLen)}

WellFormed(r) == NoDup(r.ins) /\ NoDup(r.outs)
Key(r) == [ins |-> RangeOf(r.ins), outs |-> RangeOf(r.outs)]

\* CachedPlan::matches
Matches(c, r) == /\ Len(r.ins) = c.nins /\ \A i \in DOMAIN r.ins : r.ins[i] \in c.ins
                 /\ Len(r.outs) = c.nouts /\ \A i \in DOMAIN r.outs : r.outs[i] \in c.outs

Init == /\ cached = None /\ pc = [t \in Threads |-> "idle"] /\ cur = [t \in Threads |-> None]
        /\ got = [t \in Threads |-> None] /\ left = [t \in Threads |-> ReqsPerThread] /\ hist = <<>>

\* One critical section: lookup, and on a miss validation + planning + store.
GetPlan(t, r) ==
  /\ pc[t] = "idle" /\ left[t] > 0
  /\ left' = [left EXCEPT ![t] = @ - 1]
  /\ cur' = [cur EXCEPT ![t] = r]
  /\ hist' = Append(hist, [t |-> t, ins |-> r.ins, outs |-> r.outs])
  /\ IF CheckDupsFirst /\ ~WellFormed(r)
     THEN got' = [got EXCEPT ![t] = [kind |-> "err"]] /\ UNCHANGED cached
     ELSE IF cached # None /\ Matches(cached, r)
     THEN got' = [got EXCEPT ![t] = [kind |-> "plan", key |-> [ins |-> cached.ins, outs |-> cached.outs]]]
          /\ UNCHANGED cached
     ELSE IF WellFormed(r)
     THEN /\ cached' = [kind |-> "plan", ins |-> RangeOf(r.ins), outs |-> RangeOf(r.outs),
                        nins |-> Len(r.ins), nouts |-> Len(r.outs)]
          /\ got' = [got EXCEPT ![t] = [kind |-> "plan", key |-> Key(r)]]
     ELSE got' = [got EXCEPT ![t] = [kind |-> "err"]] /\ UNCHANGED cached
  /\ pc' = [pc EXCEPT ![t] = "running"]

\* Running the plan / returning the error: outside the lock, no shared state.
Finish(t) == /\ pc[t] = "running" /\ pc' = [pc EXCEPT ![t] = "idle"]
             /\ UNCHANGED <<cached, cur, got, left, hist>>

Next == \E t \in Threads : Finish(t) \/ \E r \in Requests : GetPlan(t, r)
Spec == Init /\ [][Next]_vars /\ \A t \in Threads : WF_vars(Finish(t))

\* The plan a thread executes was made for exactly its own request, and a
\* malformed request never obtains a plan.
PlanFitsRequest ==
  \A t \in Threads : pc[t] = "running" =>
     IF got[t].kind = "plan" THEN WellFormed(cur[t]) /\ got[t].key = Key(cur[t])
     ELSE ~WellFormed(cur[t])
\* No call blocks forever: the lock is never held across a run.
NoStarvation == \A t \in Threads : pc[t] = "running" ~> pc[t] = "idle"
=============================================================================
