----------------------------- MODULE PlanCache -----------------------------
(* The single-entry plan cache of a Graph (C22, C26), implementation-shaped. *)
(* get_cached_plan holds the cache mutex across lookup *and* plan creation,   *)
(* so GetPlan is one atomic action; running a plan happens outside the lock.  *)
(* Requests are *sequences* of ids (the API takes slices), so duplicate ids   *)
(* and reorderings are in the space.  MatchMode selects the transcription of  *)
(* CachedPlan::matches:                                                       *)
(*  "sorted_equal" - the code as it is: the sorted copy of the requested ids  *)
(*     equals the plan's sorted id vector (same length, same set);            *)
(*  "len_member"   - the pinned code: lengths and membership only.  The       *)
(*     duplicate check lives in create_plan, i.e. only on a cache miss, and   *)
(*     TLC finds  t1: GetPlan(<<a,b>>) (miss, cached), t2: GetPlan(<<a,a>>)   *)
(*     (HIT) violating PlanFitsRequest; reproduced on the real code (panic    *)
(*     in run_plan) and repaired;                                             *)
(*  "superset"     - a hypothetical relaxation (inputs may be a superset of   *)
(*     the cached plan's): TLC finds GetPlan(<<a>>), GetPlan(<<a,b>>) (HIT):  *)
(*     the plan recomputes b instead of using the supplied value.             *)
EXTENDS Naturals, Sequences, FiniteSets, TLC

CONSTANTS Threads, InIds, OutIds, MaxLen, ReqsPerThread, MatchMode

VARIABLES cached,   \* None or [ins: set, outs: set, nins, nouts] (the sorted id vectors of CachedPlan)
          pc,       \* thread -> "idle" | "running"
          cur,      \* thread -> current request
          got,      \* thread -> result of GetPlan: [kind: "plan", key] | [kind: "err"] | None
          left,     \* thread -> requests still to issue
          hist
vars == <<cached, pc, cur, got, left, hist>>

None == [kind |-> "none"]
RangeOf(s) == {s[i] : i \in DOMAIN s}
NoDup(s) == \A i, j \in DOMAIN s : i # j => s[i] # s[j]
SeqsUpTo(S, n) == UNION {[1..k -> S] : k \in 1..n}
Requests == {[ins |-> i, outs |-> o] : i \in SeqsUpTo(InIds, MaxLen), o \in SeqsUpTo(OutIds, MaxLen)}

WellFormed(r) == NoDup(r.ins) /\ NoDup(r.outs)
Key(r) == [ins |-> RangeOf(r.ins), outs |-> RangeOf(r.outs)]

\* CachedPlan::matches
SameIds(n, set, ids) == Len(ids) = n /\ RangeOf(ids) = set           \* sort + compare against a duplicate-free sorted vector
LenMember(n, set, ids) == Len(ids) = n /\ \A i \in DOMAIN ids : ids[i] \in set
Matches(c, r) ==
  CASE MatchMode = "sorted_equal" -> SameIds(c.nins, c.ins, r.ins) /\ SameIds(c.nouts, c.outs, r.outs)
    [] MatchMode = "len_member"   -> LenMember(c.nins, c.ins, r.ins) /\ LenMember(c.nouts, c.outs, r.outs)
    [] MatchMode = "superset"     -> NoDup(r.ins) /\ c.ins \subseteq RangeOf(r.ins) /\ SameIds(c.nouts, c.outs, r.outs)

Init == /\ cached = None /\ pc = [t \in Threads |-> "idle"] /\ cur = [t \in Threads |-> None]
        /\ got = [t \in Threads |-> None] /\ left = [t \in Threads |-> ReqsPerThread] /\ hist = <<>>

\* One critical section: lookup, and on a miss validation + planning + store.
GetPlan(t, r) ==
  /\ pc[t] = "idle" /\ left[t] > 0
  /\ left' = [left EXCEPT ![t] = @ - 1]
  /\ cur' = [cur EXCEPT ![t] = r]
  /\ hist' = Append(hist, [t |-> t, ins |-> r.ins, outs |-> r.outs])
  /\ IF cached # None /\ Matches(cached, r)
     THEN got' = [got EXCEPT ![t] = [kind |-> "plan", key |-> [ins |-> cached.ins, outs |-> cached.outs]]]
          /\ UNCHANGED cached
     ELSE IF WellFormed(r)
     THEN /\ cached' = [kind |-> "plan", ins |-> RangeOf(r.ins), outs |-> RangeOf(r.outs),
                        nins |-> Len(r.ins), nouts |-> Len(r.outs)]
          /\ got' = [got EXCEPT ![t] = [kind |-> "plan", key |-> Key(r)]]
     ELSE got' = [got EXCEPT ![t] = [kind |-> "err"]] /\ UNCHANGED cached
  /\ pc' = [pc EXCEPT ![t] = "running"]

\* Running the plan / returning the error: outside the lock, no shared state.
Finish(t) == /\ pc[t] = "running" /\ pc' = [pc EXCEPT ![t] = "idle"]
             /\ UNCHANGED <<cached, cur, got, left, hist>>

Next == \E t \in Threads : Finish(t) \/ \E r \in Requests : GetPlan(t, r)
Spec == Init /\ [][Next]_vars /\ \A t \in Threads : WF_vars(Finish(t))

\* The plan a thread executes was made for exactly its own request, and a
\* malformed request never obtains a plan.
PlanFitsRequest ==
  \A t \in Threads : pc[t] = "running" =>
     IF got[t].kind = "plan" THEN WellFormed(cur[t]) /\ got[t].key = Key(cur[t])
     ELSE ~WellFormed(cur[t])
\* No call blocks forever: the lock is never held across a run.
NoStarvation == \A t \in Threads : pc[t] = "running" ~> pc[t] = "idle"
=============================================================================
