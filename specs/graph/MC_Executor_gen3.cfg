CONSTANTS NI = 2  NOps = 3  CountMax = 255  StickyDec = TRUE
INIT Init
NEXT Next
INVARIANTS ImplRefinesContract ReadsSeeDenotation OutputsIntact BorrowedUntouched CountsNonNegative Emit
CHECK_DEADLOCK FALSE
