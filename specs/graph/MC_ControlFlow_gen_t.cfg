CONSTANTS Fam = "all"  MaxBody = 2  Wide = 0  Trips = {0, 1, 2}  ZeroTripScan = FALSE
          CloneByValue = TRUE  RespectCount = TRUE  SkipEmptyScan = TRUE
INIT Init
NEXT GenNext
CHECK_DEADLOCK FALSE
