CONSTANTS NVals = 2  NOpsMax = 1  Rich = TRUE  ScheduleOnce = FALSE
SPECIFICATION Spec
INVARIANTS ResultOk SortIsPermutation
PROPERTY Terminates
CHECK_DEADLOCK FALSE
