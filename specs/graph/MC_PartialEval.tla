--------------------------- MODULE MC_PartialEval ---------------------------
EXTENDS PartialEval, Json
SetSeq(X) == CHOOSE s \in [1..Cardinality(X) -> X] : {s[i] : i \in DOMAIN s} = X
Emit == PrintT(<<"REPLAY", ToJson([ni |-> NI, ops |-> g.ops, outs |-> g.outs, S |-> SetSeq(g.S)])>>)
=============================================================================
