--------------------------- MODULE MC_PartialEval ---------------------------
EXTENDS PartialEval, Json
SetSeq(X) == CHOOSE s \in [1..Cardinality(X) -> X] : {s[i] : i \in DOMAIN s} = X
Emit == PrintT(<<"REPLAY", ToJson([ni |-> NI, ops |-> [i \in DOMAIN g.ops |-> [ins |-> g.ops[i].ins, caps |-> SetSeq(g.ops[i].caps), nondet |-> g.ops[i].nondet]], outs |-> g.outs, S |-> SetSeq(g.S)])>>)
=============================================================================
