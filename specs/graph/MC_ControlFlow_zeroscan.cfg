CONSTANTS Fam = "loop"  MaxBody = 2  Wide = 0  Trips = {0}  ZeroTripScan = TRUE
          CloneByValue = TRUE  RespectCount = TRUE  SkipEmptyScan = TRUE
INIT InitScanSlice
NEXT Next
INVARIANTS NoFault ParentValuesIntact ResultEqualsInlined BorrowedUntouched CountsNonNegative ByValueIsExclusive
CHECK_DEADLOCK FALSE
