--------------------------- MODULE Trace_Planner ---------------------------
(* Trace validation for C03: every answer of the real planner is judged by    *)
(* the Planner contract.  Events: graph (sets the current graph), case (a     *)
(* request), res (what Graph::execution_plan returned for it).                *)
EXTENDS TraceLib, Planner

VARIABLES l, bad, g, req, nreq, nplans, nerrs

Init == /\ l = 1 /\ bad = NoBad /\ g = [kind |-> <<>>] /\ req = [ev |-> "none"]
        /\ nreq = 0 /\ nplans = 0 /\ nerrs = 0

e == Rec[l]

\* JSON arrays of captures/captured -> sets
ToSet(s) == {s[i] : i \in DOMAIN s}
GraphOf(j) == [kind |-> j.kind, ins |-> j.ins, outs |-> j.outs,
               caps |-> [i \in DOMAIN j.caps |-> ToSet(j.caps[i])],
               captured |-> ToSet(j.captured)]

GraphEv == /\ e.ev = "graph" /\ g' = GraphOf(e.g)
           /\ UNCHANGED <<bad, req, nreq, nplans, nerrs>>
CaseEv == /\ e.ev = "case" /\ req' = e /\ nreq' = nreq + 1
          /\ UNCHANGED <<bad, g, nplans, nerrs>>
ResEv ==
  /\ e.ev = "res"
  /\ LET r == e.res
         ok == PlannerOk(g, req.ins, req.outs, req.allow, req.capsavail, r)
         sig == [api |-> "execution_plan",
                 class |-> FailClass(g, req.ins, req.outs, req.allow, req.capsavail, r),
                 request |-> req.class,
                 allow_missing |-> req.allow]
     IN /\ bad' = Flag(bad, ok, sig, [graph |-> g, request |-> req, result |-> r])
        /\ nplans' = nplans + (IF r.kind = "plan" THEN 1 ELSE 0)
        /\ nerrs' = nerrs + (IF r.kind = "err" THEN 1 ELSE 0)
  /\ UNCHANGED <<g, req, nreq>>

Next == /\ l <= NRec /\ l' = l + 1 /\ (GraphEv \/ CaseEv \/ ResEv)

Report == l = NRec + 1 =>
            /\ ReportBad(bad)
            /\ Stat("requests", nreq) /\ Stat("plans", nplans) /\ Stat("errors", nerrs)
=============================================================================
