---------------------------- MODULE PlanCacheInd ----------------------------
(* PlanCache.tla (MatchMode = "sorted_equal", the code as it is) flattened to *)
(* typed variables, without history and without the per-thread request bound. *)
(* Apalache shows IndInv inductive, so PlanFitsRequest holds after any number *)
(* of requests from any interleaving; the key fact is CacheConsistent: the    *)
(* stored lengths are the cardinalities of the stored id sets, which is what  *)
(* makes "same length and same set" imply "duplicate-free and same key".      *)
(* MC_PlanCacheRef.cfg (TLC) checks that PlanCache refines this module.       *)
EXTENDS Integers, Sequences, FiniteSets

CONSTANTS
  \* @type: Set(Int);
  Threads,
  \* @type: Set(Str);
  InIds,
  \* @type: Set(Str);
  OutIds

VARIABLES
  \* @type: Bool;
  hasPlan,
  \* @type: Set(Str);
  cIns,
  \* @type: Set(Str);
  cOuts,
  \* @type: Int;
  cNins,
  \* @type: Int;
  cNouts,
  \* @type: Int -> Str;
  pc,
  \* @type: Int -> Seq(Str);
  curIns,
  \* @type: Int -> Seq(Str);
  curOuts,
  \* @type: Int -> Str;
  gotKind,
  \* @type: Int -> Set(Str);
  gotIns,
  \* @type: Int -> Set(Str);
  gotOuts
ivars == <<hasPlan, cIns, cOuts, cNins, cNouts, pc, curIns, curOuts, gotKind, gotIns, gotOuts>>

\* @type: (Seq(Str)) => Set(Str);
RangeOf(s) == {s[i] : i \in DOMAIN s}
\* @type: (Seq(Str)) => Bool;
NoDup(s) == \A i, j \in DOMAIN s : i # j => s[i] # s[j]
\* id sequences of length 1..3 (the API takes slices: duplicates and reorderings are in the space)
\* @type: (Set(Str)) => Set(Seq(Str));
Seqs(S) == {<<a>> : a \in S} \cup {<<a, b>> : a \in S, b \in S} \cup {<<a, b, c>> : a \in S, b \in S, c \in S}

\* @type: (Int, Set(Str), Seq(Str)) => Bool;
SameIds(n, set, ids) == Len(ids) = n /\ RangeOf(ids) = set

Init ==
  /\ hasPlan = FALSE /\ cIns = {} /\ cOuts = {} /\ cNins = 0 /\ cNouts = 0
  /\ pc = [t \in Threads |-> "idle"]
  /\ curIns = [t \in Threads |-> <<>>] /\ curOuts = [t \in Threads |-> <<>>]
  /\ gotKind = [t \in Threads |-> "none"]
  /\ gotIns = [t \in Threads |-> {}] /\ gotOuts = [t \in Threads |-> {}]

\* @type: (Int, Seq(Str), Seq(Str)) => Bool;
GetPlan(t, ins, outs) ==
  /\ pc[t] = "idle"
  /\ curIns' = [curIns EXCEPT ![t] = ins] /\ curOuts' = [curOuts EXCEPT ![t] = outs]
  /\ pc' = [pc EXCEPT ![t] = "running"]
  /\ IF hasPlan /\ SameIds(cNins, cIns, ins) /\ SameIds(cNouts, cOuts, outs)
     THEN /\ gotKind' = [gotKind EXCEPT ![t] = "plan"]
          /\ gotIns' = [gotIns EXCEPT ![t] = cIns] /\ gotOuts' = [gotOuts EXCEPT ![t] = cOuts]
          /\ UNCHANGED <<hasPlan, cIns, cOuts, cNins, cNouts>>
     ELSE IF NoDup(ins) /\ NoDup(outs)
     THEN /\ hasPlan' = TRUE /\ cIns' = RangeOf(ins) /\ cOuts' = RangeOf(outs)
          /\ cNins' = Len(ins) /\ cNouts' = Len(outs)
          /\ gotKind' = [gotKind EXCEPT ![t] = "plan"]
          /\ gotIns' = [gotIns EXCEPT ![t] = RangeOf(ins)] /\ gotOuts' = [gotOuts EXCEPT ![t] = RangeOf(outs)]
     ELSE /\ gotKind' = [gotKind EXCEPT ![t] = "err"]
          /\ gotIns' = [gotIns EXCEPT ![t] = {}] /\ gotOuts' = [gotOuts EXCEPT ![t] = {}]
          /\ UNCHANGED <<hasPlan, cIns, cOuts, cNins, cNouts>>

Finish(t) == /\ pc[t] = "running" /\ pc' = [pc EXCEPT ![t] = "idle"]
             /\ UNCHANGED <<hasPlan, cIns, cOuts, cNins, cNouts, curIns, curOuts, gotKind, gotIns, gotOuts>>

Next == \E t \in Threads : Finish(t) \/ \E ins \in Seqs(InIds), outs \in Seqs(OutIds) : GetPlan(t, ins, outs)
Spec == Init /\ [][Next]_ivars

PlanFitsRequest ==
  \A t \in Threads : pc[t] = "running" =>
     IF gotKind[t] = "plan"
     THEN NoDup(curIns[t]) /\ NoDup(curOuts[t]) /\ gotIns[t] = RangeOf(curIns[t]) /\ gotOuts[t] = RangeOf(curOuts[t])
     ELSE ~(NoDup(curIns[t]) /\ NoDup(curOuts[t]))

CacheConsistent == hasPlan => cNins = Cardinality(cIns) /\ cNouts = Cardinality(cOuts)

TypeOK ==
  /\ pc \in [Threads -> {"idle", "running"}]
  /\ gotKind \in [Threads -> {"none", "plan", "err"}]
  /\ cIns \subseteq InIds /\ cOuts \subseteq OutIds

IndInv == TypeOK /\ CacheConsistent /\ PlanFitsRequest
=============================================================================
