CONSTANTS NV = 4  NC = 1  MaxOps = 4  MaxIn = 3  MaxOut = 2  MaxCaps = 1  AllowNone = TRUE
INIT Init
NEXT NextR
INVARIANT Emit
CHECK_DEADLOCK FALSE
