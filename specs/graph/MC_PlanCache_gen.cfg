CONSTANTS Threads = {1}  InIds = {"a", "b"}  OutIds = {"y2", "y3"}  MaxLen = 2  ReqsPerThread = 2  MatchMode = "sorted_equal"
INIT Init
NEXT Next
INVARIANT Emit
CHECK_DEADLOCK FALSE
