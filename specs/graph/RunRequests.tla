---------------------------- MODULE RunRequests ----------------------------
(* C26: which run / partial_run / run_one requests are invalid (and must be   *)
(* answered with an error, never a panic), in terms of the loaded graph g and  *)
(* the declared metadata m of its value nodes.                                 *)
EXTENDS Planner, TLC

\* inp = [id, dtype, shape, ...]; m = [dtype: seq of "" | type name, hasshape: seq of BOOLEAN,
\*                                     shape: seq of seq of (size | -1 for symbolic)]
MetaOk(g, m, inp) ==
  LET i == inp.id IN
  (i \in Nodes(g) /\ g.kind[i] = "value") =>
     /\ (m.dtype[i] # "" => inp.dtype = m.dtype[i])
     /\ (m.hasshape[i] =>
           /\ Len(inp.shape) = Len(m.shape[i])
           /\ \A d \in 1..Len(inp.shape) : m.shape[i][d] >= 0 => inp.shape[d] = m.shape[i][d])

InIds(call) == [k \in DOMAIN call.ins |-> call.ins[k].id]

\* The statement's list: unknown / duplicated / non-value ids, missing required inputs,
\* inputs contradicting declared type, rank or fixed dimensions.
Invalid(g, m, call, outs) ==
  \/ ~WellFormedRequest(g, InIds(call), outs)
  \/ \E k \in DOMAIN call.ins : ~MetaOk(g, m, call.ins[k])
  \/ (call.api # "partial_run" /\ ~PlanExists(g, InIds(call), outs, FALSE, FALSE))

\* ---- reference semantics of the small integer operator set used by the harness model ----
MaxN(a, b) == IF a > b THEN a ELSE b
Bc(x, n) == IF Len(x) = n THEN x ELSE [i \in 1..n |-> x[1]]
Bin(Op(_, _), x, y) == LET n == MaxN(Len(x), Len(y)) IN [i \in 1..n |-> Op(Bc(x, n)[i], Bc(y, n)[i])]
PlusOp(a, b) == a + b
MinusOp(a, b) == a - b
TimesOp(a, b) == a * b
EvalOp(kind, args) ==
  CASE kind = "Add" -> Bin(PlusOp, args[1], args[2])
    [] kind = "Sub" -> Bin(MinusOp, args[1], args[2])
    [] kind = "Mul" -> Bin(TimesOp, args[1], args[2])
    [] kind = "Neg" -> [i \in DOMAIN args[1] |-> 0 - args[1][i]]
    [] kind \in {"Identity", "Cast"} -> args[1]

\* Naive evaluation: run every operator whose inputs are known, on fresh copies, until nothing changes.
RECURSIVE EvalAll(_, _, _)
EvalAll(g, opkind, env) ==
  LET ready == {o \in Ops(g) : /\ \A k \in DOMAIN g.ins[o] : g.ins[o][k] \in DOMAIN env
                               /\ g.outs[o][1] \notin DOMAIN env}
  IN IF ready = {} THEN env
     ELSE LET o == CHOOSE x \in ready : TRUE
              args == [k \in DOMAIN g.ins[o] |-> env[g.ins[o][k]]]
          IN EvalAll(g, opkind, env @@ (g.outs[o][1] :> EvalOp(opkind[o], args)))
=============================================================================
