--------------------------- MODULE Trace_Executor ---------------------------
(* Trace validation for C02 and C25: runs of TLC-generated graphs of mixer      *)
(* operators under the strategy matrix.  The expected outputs are the naive      *)
(* evaluation (every operator on fresh copies, SSA order) computed here.         *)
EXTENDS TraceLib

VARIABLES l, bad, c, seen, nruns, ninplaceable

Init == l = 1 /\ bad = NoBad /\ c = [ev |-> "none"] /\ seen = <<>> /\ nruns = 0 /\ ninplaceable = 0
e == Rec[l]

Modulus == 65521
MaxN(a, b) == IF a > b THEN a ELSE b
At1(x, j) == IF Len(x) = 1 THEN x[1] ELSE x[j]
RECURSIVE SumTerms(_, _, _, _)
SumTerms(args, coef, j, p) == IF p = 0 THEN 0 ELSE coef[p] * At1(args[p], j) + SumTerms(args, coef, j, p - 1)
RECURSIVE MaxLen(_, _)
MaxLen(args, p) == IF p = 0 THEN 1 ELSE MaxN(Len(args[p]), MaxLen(args, p - 1))

\* naive evaluation of value v given the graph inputs/constants `inp`
RECURSIVE Val(_, _, _)
Val(g, inp, v) ==
  IF v <= g.ni THEN inp[v]
  ELSE LET i == v - g.ni
           o == g.ops[i]
           args == [p \in DOMAIN o.ins |-> Val(g, inp, o.ins[p])]
           coef == [p \in DOMAIN o.ins |-> IF o.comm THEN 1 ELSE p + 1]
           n == MaxLen(args, Len(args))
       IN [j \in 1..n |-> (SumTerms(args, coef, j, Len(args)) + 7 * i + 1) % Modulus]

\* inputs of a run: constants keep the data the graph was built with
InputsOf(r) == [v \in 1..c.g.ni |-> IF v \in {c.g.consts[k] : k \in DOMAIN c.g.consts} THEN c.const_data[v] ELSE r.inputs[v]]
ExpectedOuts(r) == [k \in DOMAIN r.outs_req |-> [id |-> r.outs_req[k], data |-> Val(c.g, InputsOf(r), r.outs_req[k])]]

Case == /\ e.ev = "case" /\ c' = e /\ seen' = <<>>
        /\ ninplaceable' = ninplaceable + (IF \E i \in DOMAIN e.g.ops : e.g.ops[i].inplace THEN 1 ELSE 0)
        /\ UNCHANGED <<bad, nruns>>

Run ==
  /\ e.ev = "run"
  /\ LET exp == ExpectedOuts(e)
         key == <<e.outs_req, e.seed>>
         sig(prop, check) == [prop |-> prop, check |-> check, strategy |-> e.strategy]
         rec == [case |-> c, run |-> e]
         b1 == Flag(bad, e.res.kind = "ok" /\ e.res.outs = exp, sig("C02", "output_differs_from_naive_evaluation"), rec)
         b2 == Flag(b1, e.ref_kind = "ok" /\ e.ref_outs = exp, sig("C02", "never_in_place_reference_differs"), rec)
         b3 == Flag(b2, \A k \in DOMAIN e.res.borrowed_after : e.res.borrowed_after[k].data = e.inputs[e.res.borrowed_after[k].id],
                    sig("C25", "borrowed_input_modified"), rec)
         b4 == Flag(b3, \A k \in DOMAIN e.res.consts_after : e.res.consts_after[k].data = c.const_data[e.res.consts_after[k].id],
                    sig("C25", "constant_modified"), rec)
         b5 == Flag(b4, key \in DOMAIN seen => seen[key] = e.res.outs, sig("C25", "same_request_different_result"), rec)
     IN /\ bad' = b5
        /\ seen' = IF key \in DOMAIN seen THEN seen ELSE seen @@ (key :> e.res.outs)
  /\ nruns' = nruns + 1 /\ UNCHANGED <<c, ninplaceable>>

Next == /\ l <= NRec /\ l' = l + 1 /\ (Case \/ Run)
Report == l = NRec + 1 => /\ ReportBad(bad) /\ Stat("runs", nruns) /\ Stat("graphs_with_inplace_ops", ninplaceable)
=============================================================================
