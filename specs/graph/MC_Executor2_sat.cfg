CONSTANTS NI = 2  NOps = 2  CountMax = 2  StickyDec = TRUE
INIT Init
NEXT Next
INVARIANTS ImplRefinesContract ReadsSeeDenotation OutputsIntact BorrowedUntouched CountsNonNegative
CHECK_DEADLOCK FALSE
