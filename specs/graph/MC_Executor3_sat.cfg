CONSTANTS NI = 2  NOps = 3  CountMax = 3  StickyDec = TRUE
INIT Init
NEXT Next
INVARIANTS ImplRefinesContract ReadsSeeDenotation OutputsIntact BorrowedUntouched CountsNonNegative
CHECK_DEADLOCK FALSE
