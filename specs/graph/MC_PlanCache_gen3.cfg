CONSTANTS Threads = {1}  InIds = {"a", "b", "c"}  OutIds = {"y1", "y2", "y3"}  MaxLen = 3  ReqsPerThread = 3  MatchMode = "sorted_equal"
INIT Init
NEXT Next
INVARIANT Emit
CHECK_DEADLOCK FALSE
