CONSTANTS Fam = "if"  MaxBody = 1  Wide = 0  Trips = {1}  ZeroTripScan = FALSE
          CloneByValue = TRUE  RespectCount = FALSE  SkipEmptyScan = TRUE
INIT Init
NEXT Next
INVARIANTS NoFault ParentValuesIntact ResultEqualsInlined BorrowedUntouched CountsNonNegative ByValueIsExclusive
CHECK_DEADLOCK FALSE
