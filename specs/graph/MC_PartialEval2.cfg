CONSTANTS NI = 2  NOps = 2
INIT Init
NEXT Next
INVARIANTS ImplSatisfiesContract Emit
CHECK_DEADLOCK FALSE
