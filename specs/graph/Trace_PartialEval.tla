------------------------- MODULE Trace_PartialEval -------------------------
(* Trace validation for C04: one record per case with the full run, the        *)
(* partial run (given the inputs in S) and the composed run (remaining inputs  *)
(* + returned values) on the real Graph.                                        *)
EXTENDS TraceLib

VARIABLES l, bad, ncases, nnontrivial
Init == l = 1 /\ bad = NoBad /\ ncases = 0 /\ nnontrivial = 0
e == Rec[l]

Modulus == 65521
MaxN(a, b) == IF a > b THEN a ELSE b
At1(x, j) == IF Len(x) = 1 THEN x[1] ELSE x[j]
RECURSIVE SumTerms(_, _, _)
SumTerms(args, j, p) == IF p = 0 THEN 0 ELSE (p + 1) * At1(args[p], j) + SumTerms(args, j, p - 1)
RECURSIVE MaxLen(_, _)
MaxLen(args, p) == IF p = 0 THEN 1 ELSE MaxN(Len(args[p]), MaxLen(args, p - 1))
RECURSIVE Val(_, _, _)
Val(g, inp, v) ==
  IF v <= g.ni THEN inp[v]
  ELSE LET i == v - g.ni
           deps == g.ops[i].ins \o g.ops[i].caps     \* a capturing operator mixes its inputs, then its captured values
           args == [p \in DOMAIN deps |-> Val(g, inp, deps[p])]
           n == MaxLen(args, Len(args))
       IN [j \in 1..n |-> (SumTerms(args, j, Len(args)) + 7 * i + 1) % Modulus]

\* contract sets, as in PartialEval.tla (value ids; operator i produces value ni + i)
NVof(g) == g.ni + Len(g.ops)
InsOf(g, v) == {g.ops[v - g.ni].ins[k] : k \in DOMAIN g.ops[v - g.ni].ins} \cup {g.ops[v - g.ni].caps[k] : k \in DOMAIN g.ops[v - g.ni].caps}
RECURSIVE LfpT(_, _)
LfpT(F(_), X) == LET Y == X \cup F(X) IN IF Y = X THEN X ELSE LfpT(F, Y)
Computable(g, S) == LET Step(X) == {v \in (g.ni + 1)..NVof(g) : ~g.ops[v - g.ni].nondet /\ InsOf(g, v) \subseteq X} IN LfpT(Step, S)
Available(g, G) == LET Step(X) == {v \in (g.ni + 1)..NVof(g) : InsOf(g, v) \subseteq X} IN LfpT(Step, G)
\* values whose denotation involves a non-deterministic operator
Tainted(g) == LET Step(X) == {v \in (g.ni + 1)..NVof(g) : g.ops[v - g.ni].nondet \/ InsOf(g, v) \cap X # {}} IN LfpT(Step, {})

CaseEv ==
  /\ e.ev = "case"
  /\ LET g == e.g
         S == {g.S[k] : k \in DOMAIN g.S}
         R == {e.returned[k].id : k \in DOMAIN e.returned}
         outs == {g.outs[k] : k \in DOMAIN g.outs}
         det == outs \cap Tainted(g) = {}
         sig(check) == [api |-> "partial_run", check |-> check]
         b1 == Flag(bad, e.part_kind = "ok", sig("partial_run_failed_" \o e.part_kind), e)
         b2 == Flag(b1, e.nondet_runs = 0, sig("nondeterministic_operator_evaluated"), e)
         b3 == Flag(b2, e.part_kind = "ok" => R \subseteq Computable(g, S), sig("returned_value_not_computable_from_given_inputs"), e)
         b4 == Flag(b3, \A k \in DOMAIN e.returned :
                           e.returned[k].id \in Computable(g, S) => e.returned[k].data = Val(g, e.inputs, e.returned[k].id),
                    sig("returned_value_wrong"), e)
         b5 == Flag(b4, e.part_kind = "ok" => outs \subseteq Available(g, ((1..g.ni) \ S) \cup R),
                    sig("returned_values_do_not_suffice"), e)
         b6 == Flag(b5, (e.part_kind = "ok" /\ e.full_kind = "ok") => e.comp_kind = "ok", sig("composed_run_failed_" \o e.comp_kind), e)
         b7 == Flag(b6, (det /\ e.comp_kind = "ok" /\ e.full_kind = "ok") =>
                           /\ e.comp_outs = e.full_outs
                           /\ e.comp_outs = [k \in DOMAIN g.outs |-> Val(g, e.inputs, g.outs[k])],
                    sig("composed_run_differs_from_full_run"), e)
     IN /\ bad' = b7
        /\ nnontrivial' = nnontrivial + (IF S # {} /\ S # (1..g.ni) /\ R # {} THEN 1 ELSE 0)
  /\ ncases' = ncases + 1

\* real random generators: an optimised or partially evaluated model must not freeze them
RandomEv ==
  /\ e.ev = "random"
  /\ LET sig(check) == [api |-> e.op, check |-> check, optimize |-> e.optimize]
         b1 == Flag(bad, e.kind = "ok" => ~(e.run1_eq_run2 /\ e.run2_eq_run3), sig("random_generator_gives_identical_runs"), e)
         b2 == Flag(b1, ~e.partial_returned_random, sig("partial_run_evaluated_random_generator"), e)
     IN bad' = b2
  /\ UNCHANGED <<ncases, nnontrivial>>

Next == /\ l <= NRec /\ l' = l + 1 /\ (CaseEv \/ RandomEv)
Report == l = NRec + 1 => /\ ReportBad(bad) /\ Stat("cases", ncases) /\ Stat("proper_subset_with_leaves", nnontrivial)
=============================================================================
