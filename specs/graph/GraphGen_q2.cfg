CONSTANTS NV = 3  NC = 0  MaxOps = 2  MaxIn = 1  MaxOut = 2  MaxCaps = 0  AllowNone = FALSE
INIT Init
NEXT Next
INVARIANT Emit
CHECK_DEADLOCK FALSE
