--------------------------- MODULE MC_PlanCacheRef ---------------------------
(* TLC: PlanCache (sorted_equal) refines PlanCacheInd under the flattening    *)
(* below, and IndInv holds in every reachable state of the bounded model.     *)
EXTENDS MC_PlanCache
HasP == cached # None
Ind == INSTANCE PlanCacheInd WITH
  hasPlan <- HasP,
  cIns <- IF HasP THEN cached.ins ELSE {},
  cOuts <- IF HasP THEN cached.outs ELSE {},
  cNins <- IF HasP THEN cached.nins ELSE 0,
  cNouts <- IF HasP THEN cached.nouts ELSE 0,
  curIns <- [t \in Threads |-> IF cur[t] = None THEN <<>> ELSE cur[t].ins],
  curOuts <- [t \in Threads |-> IF cur[t] = None THEN <<>> ELSE cur[t].outs],
  gotKind <- [t \in Threads |-> got[t].kind],
  gotIns <- [t \in Threads |-> IF got[t].kind = "plan" THEN got[t].key.ins ELSE {}],
  gotOuts <- [t \in Threads |-> IF got[t].kind = "plan" THEN got[t].key.outs ELSE {}]
IndSpec == Ind!Spec
IndInvHere == Ind!IndInv
=============================================================================
