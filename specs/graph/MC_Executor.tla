---------------------------- MODULE MC_Executor ----------------------------
EXTENDS Executor, Json
SetSeq(S) == CHOOSE s \in [1..Cardinality(S) -> S] : {s[i] : i \in DOMAIN s} = S
Emit == pc = 1 => PrintT(<<"REPLAY", ToJson([ni |-> NI, ops |-> g.ops, outs |-> SetSeq(g.outs),
                                               owned |-> SetSeq(g.owned), big |-> SetSeq(g.big)])>>)
=============================================================================
