CONSTANTS NVals = 2  NOpsMax = 1  ScheduleOnce = TRUE
SPECIFICATION Spec
INVARIANTS ResultOk SortIsPermutation
PROPERTY Terminates
CHECK_DEADLOCK FALSE
