---------------------------- MODULE MC_PlanCache ----------------------------
EXTENDS PlanCache, Json
View == <<cached, pc, cur, got, left>>
\* single-thread histories for the C26 replay: print when the thread has issued all its requests
Done == \A t \in Threads : left[t] = 0 /\ pc[t] = "idle"
Emit == Done => PrintT(<<"REPLAY", ToJson([i \in DOMAIN hist |-> [ins |-> hist[i].ins, outs |-> hist[i].outs]])>>)
=============================================================================
