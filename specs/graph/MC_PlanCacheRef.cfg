CONSTANTS Threads = {1, 2}  InIds = {"a", "b"}  OutIds = {"y1", "y2"}  MaxLen = 2  ReqsPerThread = 2  MatchMode = "sorted_equal"
SPECIFICATION Spec
VIEW View
INVARIANT IndInvHere
PROPERTY IndSpec
CHECK_DEADLOCK FALSE
