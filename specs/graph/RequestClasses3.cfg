CONSTANTS Classes <- AllClasses  MaxLen = 3
INIT Init
NEXT Next
INVARIANT Emit
CHECK_DEADLOCK FALSE
