CONSTANTS Fam = "loop"  MaxBody = 1  Wide = 0  Trips = {2}  ZeroTripScan = FALSE
          CloneByValue = FALSE  RespectCount = TRUE  SkipEmptyScan = TRUE
INIT Init
NEXT Next
INVARIANTS NoFault ParentValuesIntact ResultEqualsInlined BorrowedUntouched CountsNonNegative ByValueIsExclusive
CHECK_DEADLOCK FALSE
