--------------------------- MODULE Trace_Requests ---------------------------
(* Trace validation for C22 and C26.  Events (totally ordered by the sink's    *)
(* sequence number; plan_cache events are emitted while the cache mutex is     *)
(* held): case, model, call, ret, plan_cache, hang, end.                        *)
EXTENDS TraceLib, RunRequests

VARIABLES l, bad, m, pend, mode, ncall, ninvalid, nhits, nmisses

Init == /\ l = 1 /\ bad = NoBad /\ m = [ev |-> "none"] /\ pend = <<>> /\ mode = "seq"
        /\ ncall = 0 /\ ninvalid = 0 /\ nhits = 0 /\ nmisses = 0

e == Rec[l]
ToSet(s) == {s[i] : i \in DOMAIN s}
G == [kind |-> m.g.kind, ins |-> m.g.ins, outs |-> m.g.outs,
      caps |-> [i \in DOMAIN m.g.caps |-> ToSet(m.g.caps[i])], captured |-> {}]
MapId(id) == IF id >= 100000 THEN 100001 ELSE id + 1
Counters == <<ncall, ninvalid, nhits, nmisses>>

OutsOf(call) == IF call.api = "run_one" THEN <<m.output_ids[1]>> ELSE call.outs

CaseEv == /\ e.ev \in {"case", "end"} /\ pend' = <<>> /\ mode' = (IF e.ev = "case" THEN e.mode ELSE mode)
          /\ UNCHANGED <<bad, m, Counters>>
ModelEv == /\ e.ev = "model" /\ m' = e /\ pend' = <<>> /\ UNCHANGED <<bad, mode, Counters>>
CallEv == /\ e.ev = "call"
          /\ pend' = IF e.tt \in DOMAIN pend THEN [pend EXCEPT ![e.tt] = e] ELSE pend @@ (e.tt :> e)
          /\ ncall' = ncall + 1
          /\ ninvalid' = ninvalid + (IF Invalid(G, m, e, OutsOf(e)) THEN 1 ELSE 0)
          /\ UNCHANGED <<bad, m, mode, nhits, nmisses>>

\* expected outputs of a valid `run` request by naive evaluation
GivenIdx(call) == [i \in {call.ins[k].id : k \in DOMAIN call.ins} |->
                  (CHOOSE k \in DOMAIN call.ins : call.ins[k].id = i)]
EnvOf(call) == LET gv == GivenIdx(call) IN [i \in DOMAIN gv |-> call.ins[gv[i]].data]
Expected(call) == LET env == EvalAll(G, m.opkind, EnvOf(call)) outs == OutsOf(call)
                  IN [k \in DOMAIN outs |-> env[outs[k]]]
Got(ret) == [k \in DOMAIN ret.outs |-> ret.outs[k].data]

RetEv ==
  /\ e.ev = "ret"
  /\ LET c == pend[e.tt]
         outs == OutsOf(c)
         inv == Invalid(G, m, c, outs)
         sig26 == [prop |-> "C26", api |-> c.api, class |-> c.class, outcome |-> e.kind]
         \* in a sequential history the only thing that can make a call differ from the same call made
         \* alone on a fresh model is an earlier run (C25); with several threads it is concurrency (C22)
         sig22a == [prop |-> IF mode = "seq" THEN "C25" ELSE "C22", api |-> c.api, check |-> "differs_from_call_made_alone",
                    outcome |-> e.kind, alone |-> e.alone_kind]
         sig22b == [prop |-> IF mode = "seq" THEN "C25" ELSE "C22", api |-> c.api, check |-> "differs_from_naive_evaluation", outcome |-> e.kind]
         rec == [call |-> c, ret |-> e]
         b1 == Flag(bad, inv => e.kind = "err", sig26, rec)                       \* C26
         b2 == Flag(b1, e.kind = e.alone_kind /\ e.outs = e.alone_outs, sig22a, rec)   \* C22 (a)
         b3 == Flag(b2, (~inv /\ c.api = "run" /\ e.kind = "ok") => Got(e) = Expected(c), sig22b, rec)
     IN bad' = b3
  /\ UNCHANGED <<m, pend, mode, Counters>>

\* The plan handed out under the cache mutex must be a correct plan for *this* request.
PlanCacheEv ==
  /\ e.ev = "plan_cache"
  /\ LET ins == [k \in DOMAIN e.ins |-> MapId(e.ins[k])]
         outs == [k \in DOMAIN e.outs |-> MapId(e.outs[k])]
         res == IF e.ok THEN [kind |-> "plan", plan |-> [k \in DOMAIN e.plan |-> MapId(e.plan[k])]]
                ELSE [kind |-> "err"]
         sig == [prop |-> "C22", api |-> "get_cached_plan", hit |-> e.hit,
                 check |-> FailClass(G, ins, outs, FALSE, e.subgraph, res)]
     IN bad' = Flag(bad, PlannerOk(G, ins, outs, FALSE, e.subgraph, res), sig, [event |-> e])
  /\ nhits' = nhits + (IF e.hit THEN 1 ELSE 0) /\ nmisses' = nmisses + (IF e.hit THEN 0 ELSE 1)
  /\ UNCHANGED <<m, pend, mode, ncall, ninvalid>>

\* A call that never returned (the case was killed by the watchdog).
HangEv == /\ e.ev = "hang"
          /\ bad' = Flag(bad, FALSE, [prop |-> "C22", api |-> "run", check |-> "call_blocked_or_process_died", outcome |-> e.kind], [event |-> e])
          /\ pend' = <<>> /\ UNCHANGED <<m, mode, Counters>>

Next == /\ l <= NRec /\ l' = l + 1
        /\ (CaseEv \/ ModelEv \/ CallEv \/ RetEv \/ PlanCacheEv \/ HangEv)

Report == l = NRec + 1 =>
            /\ ReportBad(bad)
            /\ Stat("calls", ncall) /\ Stat("invalid_calls", ninvalid)
            /\ Stat("cache_hits", nhits) /\ Stat("cache_misses", nmisses)
=============================================================================
