CONSTANTS NI = 2  NOps = 3
INIT Init
NEXT Next
INVARIANTS ImplSatisfiesContract Emit
CHECK_DEADLOCK FALSE
