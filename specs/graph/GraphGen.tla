------------------------------ MODULE GraphGen ------------------------------
(* Graph construction as a state machine, used as a behaviour generator for   *)
(* C03 (and reused by the executor engines).  Nodes 1..NV are value nodes,     *)
(* node NV+1.. NV+NC constants, operators are appended after them.  Each        *)
(* AddOp step chooses inputs (with repeats, constants and omitted inputs),      *)
(* outputs (each value has at most one producer; outputs may be unused),        *)
(* subgraph captures and the in-place flag.  Finish chooses which values the    *)
(* graph itself captures from a parent scope.  Exhaustive BFS enumerates every  *)
(* graph in the bounds; -simulate draws random ones.  Cyclic graphs are in the  *)
(* space: an operator may consume a value produced by itself or a later op.     *)
EXTENDS Naturals, Integers, Sequences, FiniteSets, TLC, Json

CONSTANTS NV, NC, MaxOps, MaxIn, MaxOut, MaxCaps, AllowNone

VARIABLES ops, captured, done
vars == <<ops, captured, done>>

ValIds == 1..NV
ConstIds == (NV + 1)..(NV + NC)
RangeOf(s) == {s[i] : i \in DOMAIN s}
Produced == UNION {RangeOf(ops[i].outs) \ {0} : i \in DOMAIN ops}

SeqsUpTo(S, n) == UNION {[1..k -> S] : k \in 0..n}
InChoices == SeqsUpTo(ValIds \cup ConstIds \cup (IF AllowNone THEN {0} ELSE {}), MaxIn)
OutChoices == {s \in UNION {[1..k -> ValIds \cup (IF AllowNone THEN {0} ELSE {})] : k \in 1..MaxOut} :
                 /\ \A i, j \in DOMAIN s : (i # j /\ s[i] # 0) => s[i] # s[j]
                 /\ s[Len(s)] # 0            \* trailing unused outputs are trimmed by rten
                 /\ RangeOf(s) \cap Produced = {}}
CapChoices == {c \in SUBSET ValIds : Cardinality(c) <= MaxCaps}

Init == ops = <<>> /\ captured = {} /\ done = FALSE

AddOp == /\ ~done /\ Len(ops) < MaxOps
         /\ \E ins \in InChoices, outs \in OutChoices, caps \in CapChoices, ip \in BOOLEAN :
              ops' = Append(ops, [ins |-> ins, outs |-> outs, caps |-> caps, inplace |-> ip])
         /\ UNCHANGED <<captured, done>>

Finish == /\ ~done /\ Len(ops) >= 1
          /\ \E c \in {x \in SUBSET ValIds : Cardinality(x) <= 1} : captured' = c
          /\ done' = TRUE /\ UNCHANGED ops

Next == AddOp \/ Finish
Spec == Init /\ [][Next]_vars

SetToSeq(S) == CHOOSE s \in [1..Cardinality(S) -> S] : RangeOf(s) = S
GraphJson == [nv |-> NV, nc |-> NC,
              ops |-> [i \in DOMAIN ops |-> [ins |-> ops[i].ins, outs |-> ops[i].outs,
                                              caps |-> SetToSeq(ops[i].caps), inplace |-> ops[i].inplace]],
              captured |-> SetToSeq(captured)]
Emit == done => PrintT(<<"REPLAY", ToJson(GraphJson)>>)
=============================================================================
