--------------------------- MODULE MC_PlanCacheInd ---------------------------
EXTENDS PlanCacheInd, Apalache
ConstInit == Threads = {1, 2, 3} /\ InIds = {"a", "b", "c"} /\ OutIds = {"y1", "y2", "y3"}
\* any state satisfying IndInv (current requests of length <= 3)
IndInit ==
  /\ hasPlan \in BOOLEAN /\ cIns \in SUBSET InIds /\ cOuts \in SUBSET OutIds
  /\ cNins \in 0..4 /\ cNouts \in 0..4
  /\ pc \in [Threads -> {"idle", "running"}]
  /\ gotKind \in [Threads -> {"none", "plan", "err"}]
  /\ curIns \in [Threads -> Seqs(InIds) \cup {<<>>}] /\ curOuts \in [Threads -> Seqs(OutIds) \cup {<<>>}]
  /\ gotIns \in [Threads -> SUBSET InIds] /\ gotOuts \in [Threads -> SUBSET OutIds]
  /\ IndInv
=============================================================================
