------------------------------ MODULE Planner ------------------------------
(* Contract of execution planning (C03): what any correct planner may answer  *)
(* for a graph g and a request (ins, outs, allowMissing, capsAvail).           *)
(* Pure operators; used by MC_Planner (design-level checks of the transcribed  *)
(* planner) and by Trace_Planner (judging what the real planner returned).     *)
EXTENDS GraphLib

\* Values available before any operator runs.
Given(g, ins, capsAvail) ==
  RangeOf(ins) \cup Consts(g) \cup (IF capsAvail THEN g.captured ELSE {})

\* ids exist, are values or constants, no duplicates within ins or within outs.
WellFormedRequest(g, ins, outs) ==
  /\ NoDupSeq(ins) /\ NoDupSeq(outs)
  /\ \A v \in RangeOf(ins) \cup RangeOf(outs) : v \in Nodes(g) /\ g.kind[v] \in {"value", "const"}

\* Operators some requested output transitively needs (a value that is given
\* needs nothing, even if it has a producer).
Needed(g, given, outs) ==
  LET Step(S) == {Producer(g, v) : v \in {w \in RangeOf(outs) \ given : HasProducer(g, w)}}
                 \cup {Producer(g, d) : d \in {e \in UNION {Deps(g, o) : o \in S} \ given : HasProducer(g, e)}}
  IN Lfp(Step, {})

\* A dependency that nothing can ever provide.
Unavailable(g, given, d) == d \notin given /\ ~HasProducer(g, d)

ValidPlan(g, ins, outs, allowMissing, capsAvail, p) ==
  LET given == Given(g, ins, capsAvail) IN
  /\ NoDupSeq(p) /\ RangeOf(p) \subseteq Ops(g)
  /\ \A i \in 1..Len(p) : \A d \in Deps(g, p[i]) :
        \/ d \in given
        \/ \E j \in 1..(i - 1) : d \in Outs(g, p[j])
        \/ (allowMissing /\ Unavailable(g, given, d))
  /\ \A v \in RangeOf(outs) :
        \/ v \in given
        \/ \E j \in 1..Len(p) : v \in Outs(g, p[j])
        \/ (allowMissing /\ Unavailable(g, given, v))

Minimal(g, ins, outs, capsAvail, p) ==
  RangeOf(p) \subseteq Needed(g, Given(g, ins, capsAvail), outs)

\* Does any valid plan exist?  Availability fixpoint (Kahn) over the needed operators.
PlanExists(g, ins, outs, allowMissing, capsAvail) ==
  LET given == Given(g, ins, capsAvail)
      need == Needed(g, given, outs)
      Ok(d, done) == d \in given \/ (\E o \in done : d \in Outs(g, o)) \/ (allowMissing /\ Unavailable(g, given, d))
      Step(done) == {o \in need : \A d \in Deps(g, o) : Ok(d, done)}
      sched == Lfp(Step, {})
  IN /\ sched = need
     /\ \A v \in RangeOf(outs) : Ok(v, sched)

\* The contract: result = [kind |-> "plan", plan |-> p] or [kind |-> "err"|"panic"|"timeout"].
PlannerOk(g, ins, outs, allowMissing, capsAvail, result) ==
  IF result.kind = "plan"
  THEN /\ WellFormedRequest(g, ins, outs)
       /\ ValidPlan(g, ins, outs, allowMissing, capsAvail, result.plan)
       /\ Minimal(g, ins, outs, capsAvail, result.plan)
  ELSE /\ result.kind = "err"          \* planning always terminates and never panics
       \* completeness: an error is only allowed when no valid plan exists
       /\ ~(WellFormedRequest(g, ins, outs) /\ PlanExists(g, ins, outs, allowMissing, capsAvail))

\* Which clause failed (for signatures).
FailClass(g, ins, outs, allowMissing, capsAvail, result) ==
  IF result.kind = "plan"
  THEN IF ~WellFormedRequest(g, ins, outs) THEN "plan_for_malformed_request"
       ELSE IF ~NoDupSeq(result.plan) THEN "operator_repeated"
       ELSE IF ~ValidPlan(g, ins, outs, allowMissing, capsAvail, result.plan) THEN "invalid_order_or_incomplete"
       ELSE "not_minimal"
  ELSE IF result.kind = "err" THEN "error_but_plan_exists" ELSE result.kind
=============================================================================
