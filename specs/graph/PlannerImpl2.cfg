CONSTANTS NVals = 3  NOpsMax = 2  Rich = FALSE  ScheduleOnce = TRUE
SPECIFICATION Spec
INVARIANTS ResultOk SortIsPermutation
PROPERTY Terminates
CHECK_DEADLOCK FALSE
