-------------------------- MODULE BufferPoolSplit --------------------------
(* Why alloc's search and removal must be ONE critical section.  This module *)
(* models a pool whose alloc is split in two: Find (under the mutex: choose  *)
(* the index of a fitting buffer, release the mutex) and Take (under the     *)
(* mutex again: remove whatever is at that index).  With Atomic = FALSE TLC   *)
(* finds the 2-thread interleaving in which the index is stale when it is     *)
(* used: the thread is handed a buffer that does not fit its request          *)
(* (HandedOutFits) or the index is out of range (NoStaleIndex); with          *)
(* Atomic = TRUE (a Find is immediately followed by its Take: the code as it  *)
(* is) both invariants hold.  The real pool is exercised against the same     *)
(* contract by `vh-graph pool-race` (Trace_PoolRace.tla).                     *)
EXTENDS BufferPool

CONSTANT Atomic
VARIABLES pending,   \* thread -> <<>> or <<[idx, ty, cap]>> : index chosen by Find, not yet used
          got        \* set of [b, ty, cap]: what Take handed out for which request
svars == <<vars, pending, got>>

SInit == Init /\ pending = [t \in Threads |-> <<>>] /\ got = {}
NoPending == \A t \in Threads : pending[t] = <<>>

Find(t, ty, cap, i) ==
  /\ Bounded /\ pending[t] = <<>> /\ cap * ty.size >= MinSize
  /\ Atomic => NoPending
  /\ i \in DOMAIN pool /\ CanFit(bufs[pool[i]], ty, cap)
  /\ pending' = [pending EXCEPT ![t] = <<[idx |-> i, ty |-> ty, cap |-> cap]>>]
  /\ UNCHANGED <<vars, got>>

Take(t) ==
  /\ pending[t] # <<>>
  /\ LET p == pending[t][1] IN
       /\ p.idx \in DOMAIN pool            \* (a stale index beyond the end is the NoStaleIndex violation)
       /\ held' = [held EXCEPT ![t] = @ \cup {pool[p.idx]}]
       /\ pool' = [j \in 1..(Len(pool) - 1) |-> IF j < p.idx THEN pool[j] ELSE pool[j + 1]]
       /\ got' = got \cup {[b |-> pool[p.idx], ty |-> p.ty, cap |-> p.cap]}
  /\ pending' = [pending EXCEPT ![t] = <<>>]
  /\ hist' = Append(hist, [op |-> "alloc", t |-> t])
  /\ UNCHANGED <<bufs, freed>>

\* the other operations are those of BufferPool; under Atomic nothing runs between a Find and its Take
Other(t) ==
  /\ Atomic => NoPending
  /\ \/ \E ty \in Types, cap \in Caps : AllocSmall(t, ty, cap) \/ AllocMiss(t, ty, cap)
     \/ \E b \in held[t] : Add(t, b) \/ Drop(t, b)
  /\ UNCHANGED <<pending, got>>

SNext == \E t \in Threads :
           \/ \E ty \in Types, cap \in Caps, i \in DOMAIN pool : Find(t, ty, cap, i)
           \/ Take(t)
           \/ (pending[t] = <<>> /\ Other(t))

HandedOutFits == \A g \in got : CanFit(bufs[g.b], g.ty, g.cap)
NoStaleIndex == \A t \in Threads : pending[t] # <<>> => pending[t][1].idx \in DOMAIN pool
SView == <<bufs, pool, held, freed, pending, got>>
=============================================================================
