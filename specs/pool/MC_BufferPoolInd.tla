--------------------------- MODULE MC_BufferPoolInd ---------------------------
(* Apalache instance of BufferPoolInd: constants and the symbolic pre-state.  *)
EXTENDS BufferPoolInd, Apalache

ConstInit ==
  /\ Threads = {1, 2, 3}
  /\ Types = {[name |-> "f32", size |-> 4, align |-> 4], [name |-> "u8", size |-> 1, align |-> 1],
              [name |-> "u64", size |-> 8, align |-> 8], [name |-> "u32x2", size |-> 8, align |-> 4]}
  /\ Caps = {16, 32, 40, 128}
  /\ MinSize = 128

\* any state with at most 5 buffers ever created that satisfies IndInv
IndInit ==
  /\ bufs = Gen(5)
  /\ pool = Gen(5)
  /\ held \in [Threads -> SUBSET (1..5)]
  /\ freed \in SUBSET (1..5)
  /\ IndInv
=============================================================================
