--------------------------- MODULE Trace_PoolRace ---------------------------
(* C23, free-running contention (`vh-graph pool-race`): no event sink, so no    *)
(* serialisation of the threads; each round allocates from a pool pre-filled    *)
(* with interleaved small/large buffers of two layouts, checks the capacity,    *)
(* writes a thread-unique pattern, yields, verifies it and returns the buffer.  *)
(* One record per case with the counters; the contract of BufferPool.tla         *)
(* (a handed-out buffer fits the request - AllocHit's CanFit - and is held by    *)
(* exactly one thread - ExclusiveOwnership) requires all of them to be zero.     *)
(* BufferPoolSplit.tla shows at design level which interleaving produces each.   *)
EXTENDS TraceLib

VARIABLES l, bad, nrounds
Init == l = 1 /\ bad = NoBad /\ nrounds = 0
e == Rec[l]
CaseEv ==
  /\ e.ev = "race_case"
  /\ LET sig(check) == [api |-> "pool_race", check |-> check]
         rec == [case |-> e]
         b1 == Flag(bad, e.too_small = 0, sig("alloc_returned_capacity_below_request"), rec)
         b2 == Flag(b1, e.corrupted = 0, sig("buffer_contents_changed_while_held"), rec)
         b3 == Flag(b2, e.panics = 0, sig("pool_operation_panicked"), rec)
     IN bad' = b3
  /\ nrounds' = nrounds + e.done
Next == /\ l <= NRec /\ l' = l + 1 /\ CaseEv
Report == l = NRec + 1 => /\ ReportBad(bad) /\ Stat("rounds", nrounds)
=============================================================================
