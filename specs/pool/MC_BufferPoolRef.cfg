CONSTANTS Threads = {1, 2}  Types <- MCTypes  Caps = {16, 32, 40, 128}  MinSize = 128  MaxBufs = 3  MaxOps = 100
INIT Init
NEXT Next
VIEW View
INVARIANTS IndInvHere
PROPERTIES IndSpec
CHECK_DEADLOCK FALSE
