-------------------------- MODULE Trace_BufferPool --------------------------
(* Trace validation for C23.  The trace interleaves, in the order of a global  *)
(* sequence number taken under the sink mutex (pool events while the pool      *)
(* mutex is held), the pool's own events                                        *)
(*   pool_alloc (hit: which buffer was taken / miss), pool_add (kept or not),   *)
(*   pool_free (a buffer's memory is about to be released)                      *)
(* and the holders' events                                                      *)
(*   h_alloc (what alloc returned), h_add (about to return a buffer),           *)
(*   h_drop (about to drop a buffer), pool_drop, end.                           *)
(* Abstract state: live buffers, keyed by address, with the layout they were    *)
(* created with and where they are.                                             *)
EXTENDS TraceLib

VARIABLES l, bad, live, minsize, nev, nhit, nmiss

Init == /\ l = 1 /\ bad = NoBad /\ live = <<>> /\ minsize = 0
        /\ nev = 0 /\ nhit = 0 /\ nmiss = 0

e == Rec[l]
Key(r) == <<r.ptr, r.ptr2>>
Has(k) == k \in DOMAIN live
Put(k, v) == IF Has(k) THEN [live EXCEPT ![k] = v] ELSE live @@ (k :> v)
Del(k) == [x \in (DOMAIN live) \ {k} |-> live[x]]
Where(k) == IF Has(k) THEN live[k].where ELSE "absent"
Judge(ok, class) == bad' = Flag(bad, ok, [api |-> e.ev, class |-> class], [event |-> e, where |-> IF "ptr" \in DOMAIN e THEN Where(Key(e)) ELSE "n/a"])
Keep == UNCHANGED <<minsize, nhit, nmiss>>

Case == /\ e.ev = "case" /\ live' = <<>> /\ minsize' = e.minsize
        /\ UNCHANGED <<bad, nhit, nmiss>>

\* The pool takes a pooled buffer and hands it to thread e.t.
AllocHit ==
  /\ e.ev = "pool_alloc" /\ e.hit
  /\ LET k == Key(e) IN
     IF ~Has(k) \/ live[k].where # "pool"
     THEN /\ Judge(FALSE, "handed_out_buffer_not_in_pool") /\ UNCHANGED live
     ELSE LET b == live[k] IN
          /\ Judge(/\ b.cap >= e.req                              \* adequate capacity
                   /\ e.esize * b.cap = b.lsize /\ e.ealign = b.lalign   \* layout valid for the requested type
                   /\ e.cap = b.cap /\ e.lsize = b.lsize /\ e.lalign = b.lalign,
                   "inadequate_or_wrong_layout")
          /\ live' = Put(k, [b EXCEPT !.where = "handing", !.t = e.t])
  /\ nhit' = nhit + 1 /\ UNCHANGED <<minsize, nmiss>>

\* A miss is always allowed by the property (reuse is an optimisation).
AllocMiss == /\ e.ev = "pool_alloc" /\ ~e.hit
             /\ nmiss' = nmiss + 1 /\ UNCHANGED <<bad, live, minsize, nhit>>

\* A holder received a Vec from alloc.
HAlloc ==
  /\ e.ev = "h_alloc"
  /\ LET k == Key(e) IN
     IF e.cap = 0 THEN /\ Judge(e.req = 0, "capacity_below_request") /\ UNCHANGED live
     ELSE IF Has(k)
     THEN \* must be the buffer the pool just handed to this thread
          /\ Judge(/\ live[k].where = "handing" /\ live[k].t = e.t
                   /\ e.cap = live[k].cap /\ e.cap >= e.req
                   /\ e.esize * e.cap = live[k].lsize /\ e.ealign = live[k].lalign,
                   "buffer_with_two_holders")
          /\ live' = Put(k, [live[k] EXCEPT !.where = "held", !.t = e.t])
     ELSE \* a fresh allocation
          /\ Judge(e.cap >= e.req, "capacity_below_request")
          /\ live' = Put(k, [cap |-> e.cap, lsize |-> e.esize * e.cap, lalign |-> e.ealign,
                             where |-> "held", t |-> e.t])
  /\ Keep

HAdd ==
  /\ e.ev = "h_add"
  /\ LET k == Key(e) IN
     IF e.cap = 0 THEN UNCHANGED <<bad, live>>
     ELSE /\ Judge(Has(k) /\ live[k].where = "held" /\ live[k].t = e.t, "harness_added_unknown_buffer")
          /\ live' = IF Has(k) THEN Put(k, [live[k] EXCEPT !.where = "adding"]) ELSE live
  /\ Keep

PoolAdd ==
  /\ e.ev = "pool_add"
  /\ LET k == Key(e) IN
     IF e.cap = 0 THEN UNCHANGED <<bad, live>>
     ELSE /\ Judge(Has(k) /\ live[k].where = "adding", "pool_add_of_buffer_not_being_returned")
          /\ live' = IF Has(k) THEN Put(k, [live[k] EXCEPT !.where = IF e.kept THEN "pool" ELSE "freeing"]) ELSE live
  /\ Keep

\* Memory is about to be released: the buffer must not be held or already gone.
PoolFree ==
  /\ e.ev = "pool_free"
  /\ LET k == Key(e) IN
     IF e.cap = 0 THEN UNCHANGED <<bad, live>>
     ELSE /\ Judge(Has(k) /\ live[k].where \in {"freeing", "pool_dropping"},
                   IF Has(k) THEN "freed_while_" \o live[k].where ELSE "freed_twice_or_unknown")
          /\ live' = IF Has(k) THEN Del(k) ELSE live
  /\ Keep

HDrop ==
  /\ e.ev = "h_drop"
  /\ LET k == Key(e) IN
     IF e.cap = 0 THEN UNCHANGED <<bad, live>>
     ELSE /\ Judge(Has(k) /\ live[k].where = "held", "harness_dropped_unknown_buffer")
          /\ live' = IF Has(k) THEN Del(k) ELSE live
  /\ Keep

\* The pool itself is dropped: everything still pooled must now be freed.
PoolDrop ==
  /\ e.ev = "pool_drop"
  /\ live' = [k \in DOMAIN live |-> IF live[k].where = "pool" THEN [live[k] EXCEPT !.where = "pool_dropping"] ELSE live[k]]
  /\ UNCHANGED bad /\ Keep

\* End of case: every buffer that was returned has been reused or freed exactly once.
End ==
  /\ e.ev = "end"
  /\ Judge(DOMAIN live = {}, "buffer_neither_reused_nor_freed")
  /\ live' = <<>> /\ Keep

\* A pool operation panicked in a holder thread (e.g. "alignment should match", an index out of
\* range, a poisoned mutex): an outcome the property forbids.  The rest of the case is not judged
\* (the pool's state is unknown after a panic inside a critical section): minsize = -1 marks it.
Panic ==
  /\ e.ev = "h_panic"
  /\ IF minsize = -1 THEN UNCHANGED bad
     ELSE bad' = Flag(bad, FALSE, [api |-> "h_panic", class |-> "pool_operation_panicked"], [event |-> e, where |-> "n/a"])
  /\ minsize' = -1 /\ live' = <<>> /\ UNCHANGED <<nhit, nmiss>>
Skip == /\ minsize = -1 /\ e.ev \notin {"case", "h_panic"} /\ UNCHANGED <<bad, live, minsize, nhit, nmiss>>

Next == /\ l <= NRec /\ l' = l + 1 /\ nev' = nev + 1
        /\ \/ Panic \/ Skip
           \/ /\ (minsize # -1 \/ e.ev = "case")
              /\ (Case \/ AllocHit \/ AllocMiss \/ HAlloc \/ HAdd \/ PoolAdd \/ PoolFree \/ HDrop \/ PoolDrop \/ End)

Report == l = NRec + 1 =>
            /\ ReportBad(bad)
            /\ Stat("events", nev) /\ Stat("hits", nhit) /\ Stat("misses", nmiss)
=============================================================================
