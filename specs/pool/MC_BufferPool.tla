---------------------------- MODULE MC_BufferPool ----------------------------
EXTENDS BufferPool, Json
F32 == [name |-> "f32", size |-> 4, align |-> 4]
I32 == [name |-> "i32", size |-> 4, align |-> 4]
U8 == [name |-> "u8", size |-> 1, align |-> 1]
U64 == [name |-> "u64", size |-> 8, align |-> 8]
P32 == [name |-> "u32x2", size |-> 8, align |-> 4]   \* same size as u64, different alignment
MCTypes == {F32, I32, U8, U64, P32}
MCTypes3 == {F32, I32, U64, P32}
\* hist is the only difference between many states: hide it when model checking
View == <<bufs, pool, held, freed>>
\* behaviour generator: print every complete history once (different cfg, no VIEW)
Emit == Len(hist) = MaxOps => PrintT(<<"REPLAY", ToJson(hist)>>)
=============================================================================
