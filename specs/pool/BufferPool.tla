----------------------------- MODULE BufferPool -----------------------------
(* The buffer pool (C23) as a state machine.  One action per critical section *)
(* of src/buffer_pool.rs: alloc (bypass for small requests; under the mutex:  *)
(* take a fitting buffer or miss), add (under the mutex: keep; or free when    *)
(* below the size threshold), and the holder dropping a buffer itself.         *)
(* The contract is deliberately about *any* fitting buffer; best-fit is an     *)
(* implementation choice (checked as drift in the trace spec).                 *)
EXTENDS Naturals, Integers, Sequences, FiniteSets, TLC

CONSTANTS Threads,       \* set of thread ids
          Types,         \* set of element type records [name, size, align]
          Caps,          \* capacities (in elements) a thread may request
          MinSize,       \* pool threshold in bytes
          MaxBufs,       \* bound on buffers ever created (model checking)
          MaxOps         \* bound on history length (model checking / generation)

VARIABLES bufs,     \* id -> [size, align, cap]: every buffer ever created (layout it was created with)
          pool,     \* sequence of buffer ids currently in the pool
          held,     \* thread -> set of buffer ids held
          freed,    \* set of ids that have been freed
          hist      \* history of operations (behaviour generation)
vars == <<bufs, pool, held, freed, hist>>

RangeOf(s) == {s[i] : i \in DOMAIN s}
Ids == DOMAIN bufs
LayoutBytes(b) == b.size * b.cap
\* Layout::array::<T>(b.cap) = the layout the buffer was created with
LayoutMatch(b, ty) == ty.size * b.cap = LayoutBytes(b) /\ ty.align = b.align
CanFit(b, ty, cap) == LayoutMatch(b, ty) /\ b.cap >= cap

Init == /\ bufs = <<>> /\ pool = <<>> /\ held = [t \in Threads |-> {}] /\ freed = {} /\ hist = <<>>

NewId == Len(bufs) + 1
Fresh(ty, cap) == [size |-> ty.size, align |-> ty.align, cap |-> cap]
Bounded == Len(hist) < MaxOps

\* alloc::<T>(cap): small requests bypass the pool.
AllocSmall(t, ty, cap) ==
  /\ Bounded /\ cap * ty.size < MinSize /\ Len(bufs) < MaxBufs
  /\ bufs' = Append(bufs, Fresh(ty, cap))
  /\ held' = [held EXCEPT ![t] = @ \cup {NewId}]
  /\ hist' = Append(hist, [op |-> "alloc", t |-> t, ty |-> ty.name, cap |-> cap])
  /\ UNCHANGED <<pool, freed>>

\* alloc::<T>(cap) under the mutex: hand out some fitting pooled buffer ...
AllocHit(t, ty, cap, i) ==
  /\ Bounded /\ cap * ty.size >= MinSize
  /\ i \in DOMAIN pool /\ CanFit(bufs[pool[i]], ty, cap)
  /\ held' = [held EXCEPT ![t] = @ \cup {pool[i]}]
  /\ pool' = [j \in 1..(Len(pool) - 1) |-> IF j < i THEN pool[j] ELSE pool[j + 1]]
  /\ hist' = Append(hist, [op |-> "alloc", t |-> t, ty |-> ty.name, cap |-> cap])
  /\ UNCHANGED <<bufs, freed>>

\* ... or miss when nothing fits.
AllocMiss(t, ty, cap) ==
  /\ Bounded /\ cap * ty.size >= MinSize /\ Len(bufs) < MaxBufs
  /\ ~\E i \in DOMAIN pool : CanFit(bufs[pool[i]], ty, cap)
  /\ bufs' = Append(bufs, Fresh(ty, cap))
  /\ held' = [held EXCEPT ![t] = @ \cup {NewId}]
  /\ hist' = Append(hist, [op |-> "alloc", t |-> t, ty |-> ty.name, cap |-> cap])
  /\ UNCHANGED <<pool, freed>>

\* add(buf): keep it if large enough, else free it. k = which of the thread's buffers (oldest first).
Add(t, b) ==
  /\ Bounded /\ b \in held[t]
  /\ held' = [held EXCEPT ![t] = @ \ {b}]
  /\ IF LayoutBytes(bufs[b]) >= MinSize
     THEN pool' = Append(pool, b) /\ UNCHANGED freed
     ELSE freed' = freed \cup {b} /\ UNCHANGED pool
  /\ hist' = Append(hist, [op |-> "add", t |-> t, k |-> Cardinality({x \in held[t] : x < b}) + 1])
  /\ UNCHANGED bufs

\* The holder drops a buffer without returning it.
Drop(t, b) ==
  /\ Bounded /\ b \in held[t]
  /\ held' = [held EXCEPT ![t] = @ \ {b}]
  /\ freed' = freed \cup {b}
  /\ hist' = Append(hist, [op |-> "drop", t |-> t, k |-> Cardinality({x \in held[t] : x < b}) + 1])
  /\ UNCHANGED <<bufs, pool>>

Next == \E t \in Threads :
          \/ \E ty \in Types, cap \in Caps :
               AllocSmall(t, ty, cap) \/ AllocMiss(t, ty, cap) \/ \E i \in DOMAIN pool : AllocHit(t, ty, cap, i)
          \/ \E b \in held[t] : Add(t, b) \/ Drop(t, b)

Spec == Init /\ [][Next]_vars

\* ---- the properties of C23 ----
\* every buffer is in exactly one place: the pool (once), one holder, or freed
ExclusiveOwnership ==
  /\ \A i, j \in DOMAIN pool : i # j => pool[i] # pool[j]
  /\ \A b \in Ids :
       Cardinality({t \in Threads : b \in held[t]})
         + (IF b \in RangeOf(pool) THEN 1 ELSE 0) + (IF b \in freed THEN 1 ELSE 0) = 1
\* pooled buffers are worth keeping
PoolOnlyLarge == \A b \in RangeOf(pool) : LayoutBytes(bufs[b]) >= MinSize
=============================================================================
