CONSTANTS Threads = {1, 2}  Types <- MCTypes3  Caps = {8, 16, 32}  MinSize = 128  MaxBufs = 3  MaxOps = 4
INIT Init
NEXT Next
INVARIANTS ExclusiveOwnership Emit
CHECK_DEADLOCK FALSE
