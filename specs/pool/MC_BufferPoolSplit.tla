------------------------- MODULE MC_BufferPoolSplit -------------------------
EXTENDS BufferPoolSplit
F32 == [name |-> "f32", size |-> 4, align |-> 4]
U64 == [name |-> "u64", size |-> 8, align |-> 8]
MCTypes == {F32, U64}
=============================================================================
