CONSTANTS Threads = {1, 2}  Types <- MCTypes  Caps = {32, 64}  MinSize = 128  MaxBufs = 3  MaxOps = 9  Atomic = FALSE
INIT SInit
NEXT SNext
VIEW SView
INVARIANTS ExclusiveOwnership HandedOutFits NoStaleIndex
CHECK_DEADLOCK FALSE
