---------------------------- MODULE BufferPoolInd ----------------------------
(* The buffer pool of BufferPool.tla without its history variable and without *)
(* the model-checking bounds (MaxBufs, MaxOps), typed for Apalache.           *)
(*                                                                            *)
(* Purpose: carry C23's ExclusiveOwnership / PoolOnlyLarge beyond the bounds  *)
(* TLC explores.  IndInv is shown inductive by Apalache (Init => IndInv;      *)
(* IndInv /\ Next => IndInv') for every number of operations; the data bound  *)
(* that remains is the size of the symbolic pre-state (MC_BufferPoolInd.tla). *)
(* BufferPool.tla is bound to this module by TLC: MC_BufferPoolRef.cfg checks *)
(* that every step of BufferPool is a step of BufferPoolInd (refinement with  *)
(* the identity mapping on bufs, pool, held, freed), so the actions proved    *)
(* here are the actions the trace specs replay against src/buffer_pool.rs.    *)
EXTENDS Integers, Sequences, FiniteSets

CONSTANTS
  \* @type: Set(Int);
  Threads,
  \* @type: Set({name: Str, size: Int, align: Int});
  Types,
  \* @type: Set(Int);
  Caps,
  \* @type: Int;
  MinSize

VARIABLES
  \* @type: Seq({size: Int, align: Int, cap: Int});
  bufs,
  \* @type: Seq(Int);
  pool,
  \* @type: Int -> Set(Int);
  held,
  \* @type: Set(Int);
  freed
ivars == <<bufs, pool, held, freed>>

\* @type: (Seq(Int)) => Set(Int);
RangeOf(s) == {s[i] : i \in DOMAIN s}
Ids == DOMAIN bufs
\* @type: ({size: Int, align: Int, cap: Int}) => Int;
LayoutBytes(b) == b.size * b.cap
\* @type: ({size: Int, align: Int, cap: Int}, {name: Str, size: Int, align: Int}) => Bool;
LayoutMatch(b, ty) == ty.size * b.cap = LayoutBytes(b) /\ ty.align = b.align
\* @type: ({size: Int, align: Int, cap: Int}, {name: Str, size: Int, align: Int}, Int) => Bool;
CanFit(b, ty, cap) == LayoutMatch(b, ty) /\ b.cap >= cap

Init == /\ bufs = <<>> /\ pool = <<>> /\ held = [t \in Threads |-> {}] /\ freed = {}

NewId == Len(bufs) + 1
\* @type: ({name: Str, size: Int, align: Int}, Int) => {size: Int, align: Int, cap: Int};
Fresh(ty, cap) == [size |-> ty.size, align |-> ty.align, cap |-> cap]

\* @type: (Int, {name: Str, size: Int, align: Int}, Int) => Bool;
AllocSmall(t, ty, cap) ==
  /\ cap * ty.size < MinSize
  /\ bufs' = Append(bufs, Fresh(ty, cap))
  /\ held' = [held EXCEPT ![t] = @ \cup {NewId}]
  /\ UNCHANGED <<pool, freed>>

\* @type: (Int, {name: Str, size: Int, align: Int}, Int, Int) => Bool;
AllocHit(t, ty, cap, i) ==
  /\ cap * ty.size >= MinSize
  /\ i \in DOMAIN pool /\ CanFit(bufs[pool[i]], ty, cap)
  /\ held' = [held EXCEPT ![t] = @ \cup {pool[i]}]
  /\ pool' = SubSeq(pool, 1, i - 1) \o SubSeq(pool, i + 1, Len(pool))
  /\ UNCHANGED <<bufs, freed>>

\* @type: (Int, {name: Str, size: Int, align: Int}, Int) => Bool;
AllocMiss(t, ty, cap) ==
  /\ cap * ty.size >= MinSize
  /\ ~\E i \in DOMAIN pool : CanFit(bufs[pool[i]], ty, cap)
  /\ bufs' = Append(bufs, Fresh(ty, cap))
  /\ held' = [held EXCEPT ![t] = @ \cup {NewId}]
  /\ UNCHANGED <<pool, freed>>

Add(t, b) ==
  /\ b \in held[t]
  /\ held' = [held EXCEPT ![t] = @ \ {b}]
  /\ IF LayoutBytes(bufs[b]) >= MinSize
     THEN pool' = Append(pool, b) /\ UNCHANGED freed
     ELSE freed' = freed \cup {b} /\ UNCHANGED pool
  /\ UNCHANGED bufs

Drop(t, b) ==
  /\ b \in held[t]
  /\ held' = [held EXCEPT ![t] = @ \ {b}]
  /\ freed' = freed \cup {b}
  /\ UNCHANGED <<bufs, pool>>

Next == \E t \in Threads :
          \/ \E ty \in Types, cap \in Caps :
               AllocSmall(t, ty, cap) \/ AllocMiss(t, ty, cap) \/ \E i \in DOMAIN pool : AllocHit(t, ty, cap, i)
          \/ \E b \in held[t] : Add(t, b) \/ Drop(t, b)

Spec == Init /\ [][Next]_ivars

ExclusiveOwnership ==
  /\ \A i, j \in DOMAIN pool : i # j => pool[i] # pool[j]
  /\ \A b \in Ids :
       Cardinality({t \in Threads : b \in held[t]})
         + (IF b \in RangeOf(pool) THEN 1 ELSE 0) + (IF b \in freed THEN 1 ELSE 0) = 1
PoolOnlyLarge == \A b \in RangeOf(pool) : LayoutBytes(bufs[b]) >= MinSize

\* Only ids of created buffers are anywhere: what makes a fresh id (Len(bufs)+1) new.
IdsClosed ==
  /\ DOMAIN held = Threads
  /\ \A t \in Threads : held[t] \subseteq Ids
  /\ RangeOf(pool) \subseteq Ids
  /\ freed \subseteq Ids

IndInv == IdsClosed /\ ExclusiveOwnership /\ PoolOnlyLarge
=============================================================================
