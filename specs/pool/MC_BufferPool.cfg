CONSTANTS Threads = {1, 2}  Types <- MCTypes  Caps = {16, 32, 40, 128}  MinSize = 128  MaxBufs = 3  MaxOps = 100
INIT Init
NEXT Next
VIEW View
INVARIANTS ExclusiveOwnership PoolOnlyLarge
CHECK_DEADLOCK FALSE
