--------------------------- MODULE MC_BufferPoolRef ---------------------------
(* TLC: BufferPool (with history and bounds) refines BufferPoolInd, and       *)
(* IndInv holds in every reachable state of the bounded model.                *)
EXTENDS MC_BufferPool
Ind == INSTANCE BufferPoolInd
IndSpec == Ind!Spec
IndInvHere == Ind!IndInv
=============================================================================
