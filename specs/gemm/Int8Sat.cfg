INIT Init
NEXT Next
INVARIANTS
  NoSaturationWhenBothReduced
  NoSaturationWhenLhsReduced
  NoSaturationWhenRhsReduced
  DotAgreesInReducedRange
CHECK_DEADLOCK FALSE
