----------------------------- MODULE Trace_QOps -----------------------------
(* Trace validation for C17 (operator level): single-operator ONNX models run *)
(* through rten::Model.                                                       *)
(*   MatMulInteger   Y[b,i,j] = SUM_k (A[b,i,k] - za[i]) * (B[b,k,j] - zb[j])  *)
(*   ConvInteger     ONNX reference semantics: zero points are subtracted     *)
(*                   first, positions in the padding contribute 0             *)
(*   ...ToFloat      Cast(int result) * scale, scale a power of two: exact    *)
(*   DynamicQuantizeLinear -> DequantizeLinear                                *)
(*                   |x - dq(q(x))| <= scale for every element (values are    *)
(*                   integer multiples of a unit 2^unit_log2; the input range  *)
(*                   is 255 steps so that the scale is a power of two)        *)
EXTENDS TraceLib

VARIABLES l, nbad, cur, cnt

Init == l = 1 /\ nbad = NoBad /\ cur = [id |-> "none"]
        /\ cnt = [cases |-> 0, mmi |-> 0, conv |-> 0, dql |-> 0, elems |-> 0, tofloat |-> 0, dql_nonint |-> 0]
e == Rec[l]

RECURSIVE Pow2(_)
Pow2(n) == IF n <= 0 THEN 1 ELSE 2 * Pow2(n - 1)
Abs(x) == IF x < 0 THEN -x ELSE x
Prod(s) == IF Len(s) = 0 THEN 1 ELSE IF Len(s) = 1 THEN s[1] ELSE IF Len(s) = 2 THEN s[1] * s[2]
           ELSE IF Len(s) = 3 THEN s[1] * s[2] * s[3] ELSE s[1] * s[2] * s[3] * s[4]
AllEq(z) == \A i \in 1..Len(z) : z[i] = z[1]

\* ------------------------------------------------------------ MatMulInteger
ABatch(c) == c.form \in {"a_batch", "both_batch"}
BBatch(c) == c.form \in {"b_batch", "both_batch"}
NB(c) == IF c.form = "plain" THEN 1 ELSE c.nb
AEl(c, b, i, k) == c.a[((IF ABatch(c) THEN b - 1 ELSE 0) * c.m + (i - 1)) * c.k + k]
BEl(c, b, k, j) == c.b[((IF BBatch(c) THEN b - 1 ELSE 0) * c.k + (k - 1)) * c.n + j]
Zp(kind, z, i) == CASE kind = "scalar" -> z[1] [] kind = "vector" -> z[i] [] OTHER -> 0
RECURSIVE MmiDot(_, _, _, _, _, _, _)
MmiDot(c, b, i, j, za, zb, k) ==
  IF k > c.k THEN 0
  ELSE (AEl(c, b, i, k) - za) * (BEl(c, b, k, j) - zb) + MmiDot(c, b, i, j, za, zb, k + 1)
ScaleExp(c, j) == IF c.scale_kind = "vector" THEN c.scale_log2[j] ELSE c.scale_log2[1]
MmiExpected(c) ==
  [idx \in 1..(NB(c) * c.m * c.n) |->
     LET b == (idx - 1) \div (c.m * c.n) + 1
         r == (idx - 1) % (c.m * c.n)
         i == r \div c.n + 1
         j == (r % c.n) + 1
         s == MmiDot(c, b, i, j, Zp(c.za_kind, c.za, i), Zp(c.zb_kind, c.zb, j), 1)
     IN IF c.to_float THEN s * Pow2(ScaleExp(c, j) - c.unit_log2) ELSE s]
MmiShape(c) == IF c.form = "plain" THEN <<c.m, c.n>> ELSE <<c.nb, c.m, c.n>>
MmiRows(c) == IF c.form = "a_batch" THEN c.nb * c.m ELSE c.m
MmiTrigger(c) ==
  IF (c.prepack /\ c.b_ty = "i8" /\ MmiRows(c) > 1) \/ (c.form = "b_batch" /\ c.nb > 1 /\ c.m > 1)
  THEN "prepacked_operand"
  ELSE IF (c.za_kind = "vector" /\ ~AllEq(c.za) /\ MmiRows(c) > c.mr)
          \/ (c.zb_kind = "vector" /\ ~AllEq(c.zb) /\ c.n > c.nr)
  THEN "zero_points_differ_across_panels"
  ELSE "other"
MmiSig(c, pred) ==
  [op |-> "MatMulInteger", pred |-> pred, trigger |-> MmiTrigger(c),
   a_ty |-> c.a_ty, b_ty |-> c.b_ty, to_float |-> c.to_float]

\* -------------------------------------------------------------- ConvInteger
OH(c) == (c.h + c.pt + c.pb - c.kh) \div c.sy + 1
OW(c) == (c.w + c.pl + c.pr - c.kw) \div c.sx + 1
RECURSIVE ConvSum(_, _, _, _, _, _)
ConvSum(c, n, o, y, x, t) ==
  IF t >= c.cg * c.kh * c.kw THEN 0
  ELSE LET cc == t \div (c.kh * c.kw)
           ky == (t % (c.kh * c.kw)) \div c.kw
           kx == t % c.kw
           g == (o - 1) \div c.og
           ch == g * c.cg + cc
           iy == (y - 1) * c.sy - c.pt + ky
           ix == (x - 1) * c.sx - c.pl + kx
           xv == IF iy >= 0 /\ iy < c.h /\ ix >= 0 /\ ix < c.w
                 THEN c.x[(((n - 1) * c.c + ch) * c.h + iy) * c.w + ix + 1] - Zp(c.xz_kind, c.xz, 1)
                 ELSE 0
           wv == c.wt[(((o - 1) * c.cg + cc) * c.kh + ky) * c.kw + kx + 1] - Zp(c.wz_kind, c.wz, o)
       IN xv * wv + ConvSum(c, n, o, y, x, t + 1)
ConvExpected(c) ==
  LET oh == OH(c) ow == OW(c) IN
  [idx \in 1..(c.batch * c.o * oh * ow) |->
     LET n == (idx - 1) \div (c.o * oh * ow) + 1
         r == (idx - 1) % (c.o * oh * ow)
         o == r \div (oh * ow) + 1
         r2 == r % (oh * ow)
         y == r2 \div ow + 1
         x == (r2 % ow) + 1
         s == ConvSum(c, n, o, y, x, 0)
     IN IF c.to_float THEN s * Pow2(c.scale_log2[1] - c.unit_log2) ELSE s]
ConvShape(c) == <<c.batch, c.o, OH(c), OW(c)>>
Padded(c) == c.pt + c.pl + c.pb + c.pr > 0
\* Situations that matter to the GEMM-based implementation (weights are the u8 LHS after a
\* shift of i8 values by 128, the image the i8 RHS after a shift of u8 values by -128):
EffWz(c, o) == Zp(c.wz_kind, c.wz, o) + (IF c.w_ty = "i8" THEN 128 ELSE 0)
EffXz(c) == Zp(c.xz_kind, c.xz, 1) - (IF c.x_ty = "u8" THEN 128 ELSE 0)
ConvTrigger(c) ==
  IF c.kind \in {"general", "grouped"} /\ c.batch > 1 /\ \E o \in 1..c.o : EffWz(c, o) # 0
  THEN "prepacked_kernel_with_nonzero_zero_point"
  ELSE IF Padded(c) /\ EffXz(c) # 0 THEN "padding_with_nonzero_input_zero_point"
  \* the rows added to round K = C/g*kh*kw up to a multiple of 4 are "masked" by offsets just past
  \* the image, which patches starting in the top-left padding bring back into range
  ELSE IF c.kind \in {"general", "grouped"} /\ (c.cg * c.kh * c.kw) % 4 # 0 /\ c.pt > 0 /\ c.pl > 0
          /\ \E o \in 1..c.o : EffWz(c, o) # 0
  THEN "depth_padding_rows_unmasked_in_top_left_padding"
  ELSE IF c.wz_kind = "vector" /\ ~AllEq(c.wz) /\ c.og > c.mr THEN "zero_points_differ_across_panels"
  ELSE "other"
ConvSig(c, pred) ==
  [op |-> "ConvInteger", pred |-> pred, trigger |-> ConvTrigger(c), kind |-> c.kind,
   x_ty |-> c.x_ty, w_ty |-> c.w_ty, to_float |-> c.to_float]

\* ---------------------------------- DynamicQuantizeLinear -> DequantizeLinear
\* outs: Q (u8), S (scale, in units), Z (zero point), Y (dequantized, in units)
DqlOk(c, r) ==
  LET q == r.outs[1] s == r.outs[2] z == r.outs[3] y == r.outs[4] IN
  /\ Len(q.data) = c.n /\ Len(y.data) = c.n /\ Len(s.data) = 1 /\ Len(z.data) = 1
  /\ q.shape = c.shape /\ y.shape = c.shape
  /\ \A i \in 1..c.n : q.data[i] >= 0 /\ q.data[i] <= 255
  \* within one quantization step of the input
  /\ \A i \in 1..c.n : Abs(c.x[i] - y.data[i]) <= s.data[1]
DqlNonint(r) == r.outs[2].nonint + r.outs[4].nonint
DqlSig(c, pred) == [op |-> "DynamicQuantizeLinear", pred |-> pred, kind |-> c.kind]

\* -------------------------------------------------------------------- judging
RECURSIVE FirstDiff(_, _, _)
FirstDiff(a, b, i) == IF i > Len(a) THEN 0 ELSE IF a[i] # b[i] THEN i ELSE FirstDiff(a, b, i + 1)

Small(c) ==
  CASE c.op = "MatMulInteger" ->
         [id |-> c.id, op |-> c.op, form |-> c.form, nb |-> c.nb, m |-> c.m, n |-> c.n, k |-> c.k,
          a_ty |-> c.a_ty, b_ty |-> c.b_ty, b_const |-> c.b_const, prepack |-> c.prepack, za_kind |-> c.za_kind, zb_kind |-> c.zb_kind,
          za |-> c.za, zb |-> c.zb, to_float |-> c.to_float, scale_log2 |-> c.scale_log2]
    [] c.op = "ConvInteger" ->
         [id |-> c.id, op |-> c.op, kind |-> c.kind, batch |-> c.batch, c |-> c.c, h |-> c.h, w |-> c.w, o |-> c.o,
          groups |-> c.groups, kh |-> c.kh, kw |-> c.kw, pads |-> <<c.pt, c.pl, c.pb, c.pr>>,
          strides |-> <<c.sy, c.sx>>, x_ty |-> c.x_ty, w_ty |-> c.w_ty, xz |-> c.xz, wz |-> c.wz,
          to_float |-> c.to_float]
    [] OTHER -> [id |-> c.id, op |-> c.op, kind |-> c.kind, n |-> c.n, unit_log2 |-> c.unit_log2,
                 step_log2 |-> c.step_log2]

IntSummary(c, r, exp, shape) ==
  LET ok == r.outcome = "ok" /\ Len(r.outs) = 1
      d == IF ok /\ Len(r.outs[1].data) = Len(exp) THEN FirstDiff(r.outs[1].data, exp, 1) ELSE 0 IN
  [case |-> Small(c), outcome |-> r.outcome, err |-> r.err,
   shape |-> IF ok THEN r.outs[1].shape ELSE <<>>, want_shape |-> shape,
   first_diff |-> d, got |-> IF d > 0 THEN r.outs[1].data[d] ELSE 0, want |-> IF d > 0 THEN exp[d] ELSE 0]

IntPred(r, exp, shape) ==
  IF r.outcome # "ok" THEN r.outcome
  ELSE IF Len(r.outs) # 1 \/ r.outs[1].shape # shape THEN "shape"
  ELSE IF Len(exp) > 0 /\ r.outs[1].data # exp THEN "value"
  ELSE "none"

JudgeMmi(c, r, exp) ==
  Flag(nbad, IntPred(r, exp, MmiShape(c)) = "none", MmiSig(c, IntPred(r, exp, MmiShape(c))),
       IntSummary(c, r, exp, MmiShape(c)))
JudgeConv(c, r, exp) ==
  Flag(nbad, IntPred(r, exp, ConvShape(c)) = "none", ConvSig(c, IntPred(r, exp, ConvShape(c))),
       IntSummary(c, r, exp, ConvShape(c)))
JudgeDql(c, r) ==
  LET pred == IF r.outcome # "ok" THEN r.outcome
              ELSE IF Len(r.outs) # 4 THEN "shape"
              ELSE IF DqlNonint(r) > 0 THEN "none"       \* not exactly representable: not judged (counted)
              ELSE IF ~DqlOk(c, r) THEN "bound"
              ELSE "none"
  IN Flag(nbad, pred = "none", DqlSig(c, pred),
          [case |-> Small(c), outcome |-> r.outcome, err |-> r.err,
           scale |-> IF r.outcome = "ok" /\ Len(r.outs) = 4 THEN r.outs[2].data ELSE <<>>,
           zero_point |-> IF r.outcome = "ok" /\ Len(r.outs) = 4 THEN r.outs[3].data ELSE <<>>])

Case == /\ e.ev = "case"
        /\ cur' = e
        /\ cnt' = [cnt EXCEPT !.cases = @ + 1,
                              !.mmi = IF e.op = "MatMulInteger" THEN @ + 1 ELSE @,
                              !.conv = IF e.op = "ConvInteger" THEN @ + 1 ELSE @,
                              !.dql = IF e.op = "DynamicQuantizeLinear" THEN @ + 1 ELSE @,
                              !.tofloat = IF e.op # "DynamicQuantizeLinear" /\ e.to_float THEN @ + 1 ELSE @]
        /\ UNCHANGED nbad

Ret == /\ e.ev = "ret"
       /\ e.id = cur.id
       /\ nbad' = CASE cur.op = "MatMulInteger" ->
                         JudgeMmi(cur, e, IF e.outcome = "ok" THEN MmiExpected(cur) ELSE <<>>)
                    [] cur.op = "ConvInteger" ->
                         JudgeConv(cur, e, IF e.outcome = "ok" THEN ConvExpected(cur) ELSE <<>>)
                    [] OTHER -> JudgeDql(cur, e)
       /\ cnt' = [cnt EXCEPT !.elems = @ + (IF e.outcome = "ok" /\ Len(e.outs) > 0 THEN Len(e.outs[1].data) ELSE 0),
                             !.dql_nonint = IF cur.op = "DynamicQuantizeLinear" /\ e.outcome = "ok" /\ Len(e.outs) = 4
                                               /\ DqlNonint(e) > 0 THEN @ + 1 ELSE @]
       /\ UNCHANGED cur

Info == e.ev = "info" /\ UNCHANGED <<nbad, cur, cnt>>
Next == /\ l <= NRec /\ l' = l + 1 /\ (Case \/ Ret \/ Info)
Report == l = NRec + 1 =>
            /\ ReportBad(nbad)
            /\ \A f \in DOMAIN cnt : Stat(f, cnt[f])
=============================================================================
