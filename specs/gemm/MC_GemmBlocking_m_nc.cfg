CONSTANTS
  MaxDim = 5
  MR = 2
  NR = 2
  MC = 4
  NC = 4
  KC = 2
  GB = 3
  GK = 2
  Mutant = "nc_not_multiple_of_nr"
INIT Init
NEXT Next
INVARIANTS
  TypeOK
  NoConcurrentTileWrite
  NoFault
  EveryElementInitialised
  DepthExactlyOnceInOrder
  UserBetaOnlyOnFirstDepthBlock
  BiasExactlyOnce
  BetaZeroIgnoresPrior
  PriorKeptWhenBetaNonZero
  BlocksPartitionOutput
CHECK_DEADLOCK FALSE
