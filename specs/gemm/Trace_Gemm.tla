----------------------------- MODULE Trace_Gemm -----------------------------
(* Trace validation for C16: every recorded f32 GEMM call (any kernel, shape, *)
(* layout, alpha/beta/bias, prepacked/im2col operand, batched member) must    *)
(* return exactly GemmRef!Expected2 computed here from the logged inputs, on  *)
(* integer-valued data; no output element may be left as the NaN poison the   *)
(* harness pre-filled (initialisation; beta = 0 ignores prior contents).      *)
(*                                                                            *)
(* Reading of the statement: "for any operand shapes (including zero-sized),  *)
(* ... prepacked or im2col form ... batched": a panic or an error on a valid  *)
(* request, including while prepacking a zero-sized operand, is a failure to  *)
(* compute the product and is flagged (pred = "panic" / "err").               *)
EXTENDS TraceLib, GemmRef

VARIABLES l, nbad, cur, cnt

\* `cur`: the logged members of the call in flight (at most 3: batched calls log all
\* members before the call runs, results follow in the same order), each with the
\* prefix sums of its structured operands already evaluated.
Init == l = 1 /\ nbad = NoBad /\ cur = <<>>
        /\ cnt = [cases |-> 0, rets |-> 0, gemv |-> 0, k0 |-> 0, empty |-> 0, gemm |-> 0,
                  elems |-> 0, struct |-> 0, dense |-> 0, im2col |-> 0, batches |-> 0]

e == Rec[l]

Path(c) == IF c.m = 0 \/ c.n = 0 THEN "empty"
           ELSE IF c.k = 0 THEN "k0"
           ELSE IF c.m = 1 /\ c.a_form = "unpacked" /\ c.b_form = "unpacked" THEN "gemv"
           ELSE "gemm"

\* Signature: failing predicate + call site.  Failures to compute (panic / error) are
\* classified by the step that failed and whether an operand was zero-sized; wrong or
\* uninitialised results additionally by kernel, path, operand forms, bias and beta class.
Sig(c, r, pred) ==
  IF pred \in {"panic", "err"}
  THEN [api |-> IF r.phase = "call" THEN c.api ELSE "prepack", pred |-> pred, phase |-> r.phase,
        zero |-> IF c.m * c.n * c.k = 0 THEN "zero_sized" ELSE "nonzero", msg |-> r.err]
  ELSE [api |-> c.api, kernel |-> c.kernel, path |-> Path(c), pred |-> pred,
        a_form |-> c.a_form, b_form |-> c.b_form, bias |-> c.bias_kind,
        beta |-> IF c.beta2 = 0 THEN "zero" ELSE "nonzero"]

RECURSIVE FirstDiff(_, _, _)
FirstDiff(a, b, i) == IF i > Len(a) THEN 0 ELSE IF a[i] # b[i] THEN i ELSE FirstDiff(a, b, i + 1)

Summary(c, r, exp) ==
  LET d == IF r.outcome = "ok" /\ Len(r.out2) = Len(exp) THEN FirstDiff(r.out2, exp, 1) ELSE 0 IN
  [id |-> c.id, kernel |-> c.kernel, api |-> c.api, m |-> c.m, n |-> c.n, k |-> c.k, fam |-> c.fam,
   alpha2 |-> c.alpha2, beta2 |-> c.beta2, bias_kind |-> c.bias_kind, threads |-> c.threads,
   a_form |-> c.a_form, b_form |-> c.b_form, a_layout |-> c.a_layout, b_layout |-> c.b_layout,
   outcome |-> r.outcome, err |-> r.err, nonint |-> r.nonint, outlen |-> Len(r.out2),
   first_diff |-> d,
   got2 |-> IF d > 0 THEN r.out2[d] ELSE 0,
   want2 |-> IF d > 0 THEN exp[d] ELSE 0]

Case == /\ e.ev = "case"
        /\ LET x == [c |-> e, P1 |-> StructP1(e), P2 |-> StructP2(e)]
           IN cur' = IF e.member = 0 THEN <<x>> ELSE Append(cur, x)
        /\ cnt' = [cnt EXCEPT !.cases = @ + 1, ![Path(e)] = @ + 1, ![e.fam] = @ + 1]
        /\ UNCHANGED nbad

\* One verdict per returned member; the first failing predicate names the class.
Judge(c, r, exp) ==
  LET mn == c.m * c.n
      pred == IF r.outcome # "ok" THEN r.outcome
              ELSE IF Len(r.out2) # mn THEN "length"
              ELSE IF r.nonint_count # 0 THEN "uninit_or_nonint"
              ELSE IF mn > 0 /\ r.out2 # exp THEN "value"
              ELSE "none"
  IN Flag(nbad, pred = "none", Sig(c, r, pred), Summary(c, r, exp))
Ret == /\ e.ev = "ret"
       /\ cur # <<>>
       /\ e.id = Head(cur).c.id
       /\ nbad' = Judge(Head(cur).c, e,
                        IF e.outcome = "ok"
                        THEN ExpectedWith(Head(cur).c, Head(cur).P1, Head(cur).P2) ELSE <<>>)
       /\ cnt' = [cnt EXCEPT !.rets = @ + 1, !.elems = @ + Head(cur).c.m * Head(cur).c.n]
       /\ cur' = Tail(cur)

\* A batched call with zero members has nothing to compute; it must not fail.
EmptyBatch == e.ev = "empty_batch" /\ UNCHANGED <<nbad, cur>> /\ cnt' = [cnt EXCEPT !.batches = @ + 1]
EmptyRet == /\ e.ev = "empty_ret"
            /\ nbad' = Flag(nbad, e.outcome = "ok" /\ e.len = 0,
                            [api |-> "batched", pred |-> e.outcome, path |-> "no_members"], e)
            /\ UNCHANGED <<cur, cnt>>
Info == e.ev = "info" /\ UNCHANGED <<nbad, cur, cnt>>

Next == /\ l <= NRec /\ l' = l + 1 /\ (Case \/ Ret \/ EmptyBatch \/ EmptyRet \/ Info)

Report == l = NRec + 1 =>
            /\ ReportBad(nbad)
            /\ \A f \in DOMAIN cnt : Stat(f, cnt[f])
=============================================================================
