------------------------------ MODULE GemmRef ------------------------------
(* Executable reference semantics of GEMM on exact data (DESIGN 4.8).        *)
(*                                                                           *)
(*   C = alpha * A * B + beta * C0 + bias                                    *)
(*                                                                           *)
(* Matrices are flat row-major 1-based sequences of integers.  All values    *)
(* are integers: alpha and beta are carried as alpha2 = 2*alpha and          *)
(* beta2 = 2*beta and results as 2*C, so that alpha, beta = 1/2 stay exact.  *)
(* Three ways to describe the operands (the trace logs the description, the  *)
(* products are computed here):                                              *)
(*   dense   A, B explicit;                                                  *)
(*   struct  A[i,k] = av[i]*p[k] if lo[i] <= k-1 < hi[i] else 0,             *)
(*           B[k,j] = q1[k]*v1[j] + q2[k]*v2[j]                              *)
(*           (one-hot rows, all-ones rows and bands are special cases);      *)
(*           A*B then has a closed form over prefix sums, O(K + M*N);        *)
(*   im2col  B is the virtual patch matrix of a [C,H,W] image.               *)
EXTENDS Integers, Sequences

RECURSIVE DotDenseFrom(_, _, _, _, _, _, _)
DotDenseFrom(A, B, K, N, i, j, k) ==
  IF k > K THEN 0
  ELSE A[(i - 1) * K + k] * B[(k - 1) * N + j] + DotDenseFrom(A, B, K, N, i, j, k + 1)
DotDense(A, B, K, N, i, j) == DotDenseFrom(A, B, K, N, i, j, 1)

\* Prefix sums S[x+1] = SUM_{k <= x} p[k]*q[k], x = 0..Len(p).
RECURSIVE PrefixAcc(_, _, _, _)
PrefixAcc(p, q, k, acc) ==
  IF k > Len(p) THEN acc
  ELSE PrefixAcc(p, q, k + 1, Append(acc, acc[Len(acc)] + p[k] * q[k]))
Prefix(p, q) == PrefixAcc(p, q, 1, <<0>>)

\* Elements of the structured operands (used by the small-case cross-check).
StructA(c, i, k) == IF c.lo[i] <= k - 1 /\ k - 1 < c.hi[i] THEN c.av[i] * c.p[k] ELSE 0
StructB(c, k, j) == c.q1[k] * c.v1[j] + c.q2[k] * c.v2[j]
DotStruct(c, P1, P2, i, j) ==
  c.av[i] * (  c.v1[j] * (P1[c.hi[i] + 1] - P1[c.lo[i] + 1])
             + c.v2[j] * (P2[c.hi[i] + 1] - P2[c.lo[i] + 1]))
RECURSIVE DotStructSlowFrom(_, _, _, _)
DotStructSlowFrom(c, i, j, k) ==
  IF k > c.k THEN 0 ELSE StructA(c, i, k) * StructB(c, k, j) + DotStructSlowFrom(c, i, j, k + 1)

\* Virtual im2col matrix (dilation 1): row k = (channel, ky, kx), column j = (py, px);
\* positions in the padding region are zero.
ImOH(im) == (im.h + im.pt + im.pb - im.kh) \div im.sy + 1
ImOW(im) == (im.w + im.pl + im.pr - im.kw) \div im.sx + 1
\* `pad` is the value of an element that lies in the padding region.
ImBPad(im, k, j, pad) ==
  LET k0 == k - 1
      ch == k0 \div (im.kh * im.kw)
      ky == (k0 % (im.kh * im.kw)) \div im.kw
      kx == k0 % im.kw
      ow == ImOW(im)
      py == (j - 1) \div ow
      px == (j - 1) % ow
      y == py * im.sy - im.pt + ky
      x == px * im.sx - im.pl + kx
  IN IF y >= 0 /\ y < im.h /\ x >= 0 /\ x < im.w
     THEN im.img[ch * im.h * im.w + y * im.w + x + 1]
     ELSE pad
ImB(im, k, j) == ImBPad(im, k, j, 0)
RECURSIVE DotImFrom(_, _, _, _, _, _)
DotImFrom(A, im, K, i, j, k) ==
  IF k > K THEN 0 ELSE A[(i - 1) * K + k] * ImB(im, k, j) + DotImFrom(A, im, K, i, j, k + 1)

Bias(c, i, j) == CASE c.bias_kind = "row" -> c.bias[j]
                   [] c.bias_kind = "col" -> c.bias[i]
                   [] OTHER -> 0

\* 2 * (alpha*dot + beta*C0 + bias); prior content is not looked at when beta = 0.
Out2(c, dot, i, j) ==
  c.alpha2 * dot
  + (IF c.beta2 = 0 THEN 0 ELSE c.beta2 * c.c0[(i - 1) * c.n + j])
  + 2 * Bias(c, i, j)

\* The whole expected result (2*C) as a flat sequence.  P1, P2 are the prefix sums
\* Prefix(c.p, c.q1), Prefix(c.p, c.q2) of a structured case (<<0>> otherwise).  TLC
\* re-evaluates LET definitions and lazily bound arguments at every use inside a
\* function constructor, so callers must pass P1, P2 as already evaluated values
\* (the trace spec keeps them in its state).
StructP1(c) == IF c.fam = "struct" THEN Prefix(c.p, c.q1) ELSE <<0>>
StructP2(c) == IF c.fam = "struct" THEN Prefix(c.p, c.q2) ELSE <<0>>
ExpectedWith(c, P1, P2) ==
  LET Dot(i, j) == CASE c.fam = "dense" -> DotDense(c.a, c.b, c.k, c.n, i, j)
                     [] c.fam = "struct" -> DotStruct(c, P1, P2, i, j)
                     [] c.fam = "im2col" -> DotImFrom(c.a, c.im, c.k, i, j, 1)
  IN [idx \in 1..(c.m * c.n) |->
        LET i == (idx - 1) \div c.n + 1
            j == ((idx - 1) % c.n) + 1
        IN Out2(c, Dot(i, j), i, j)]
Expected2(c) == ExpectedWith(c, StructP1(c), StructP2(c))

\* ---------------- u8 x i8 -> i32 with zero points (C17) ----------------
RECURSIVE DotZpFrom(_, _, _, _, _, _, _, _, _)
DotZpFrom(A, B, K, N, za, zb, i, j, k) ==
  IF k > K THEN 0
  ELSE (A[(i - 1) * K + k] - za) * (B[(k - 1) * N + j] - zb)
       + DotZpFrom(A, B, K, N, za, zb, i, j, k + 1)
DotZp(A, B, K, N, za, zb, i, j) == DotZpFrom(A, B, K, N, za, zb, i, j, 1)
=============================================================================
