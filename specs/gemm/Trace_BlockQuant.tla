-------------------------- MODULE Trace_BlockQuant --------------------------
(* Trace validation for C37: BlockQuantizedGemm (Float / Int8 compute), every  *)
(* f32 GemmExecutor kernel with a BlockQuantized B operand, and MatMulNBits     *)
(* models must return exactly BlockQuant!Expected on exact data.                *)
(* Requests the implementation declines with an error (explicit zero_points     *)
(* input, K that is not blocks * block_size) produce no result: counted, not    *)
(* flagged - the statement compares results, it does not demand support.        *)
EXTENDS TraceLib, BlockQuant

VARIABLES l, nbad, cur, cnt

Init == l = 1 /\ nbad = NoBad /\ cur = [c |-> [id |-> "none"], w |-> <<>>]
        /\ cnt = [cases |-> 0, judged |-> 0, declined |-> 0, elems |-> 0,
                  bqgemm |-> 0, gemm |-> 0, model |-> 0, float |-> 0, int8 |-> 0]
e == Rec[l]

Sig(c, pred) == [api |-> c.api, mode |-> c.mode, kernel |-> c.kernel, variant |-> c.variant, pred |-> pred,
                 path |-> IF c.m = 1 THEN "vector" ELSE "matrix", bs |-> c.bs]

RECURSIVE FirstDiff(_, _, _)
FirstDiff(a, b, i) == IF i > Len(a) THEN 0 ELSE IF a[i] # b[i] THEN i ELSE FirstDiff(a, b, i + 1)

Summary(c, r, exp) ==
  LET d == IF r.outcome = "ok" /\ Len(r.out) = Len(exp) THEN FirstDiff(r.out, exp, 1) ELSE 0 IN
  [id |-> c.id, api |-> c.api, mode |-> c.mode, kernel |-> c.kernel, variant |-> c.variant,
   batch |-> c.batch, m |-> c.m, n |-> c.n, k |-> c.k, bs |-> c.bs, bias_kind |-> c.bias_kind,
   outcome |-> r.outcome, err |-> r.err, shape |-> r.shape, nonint |-> r.nonint,
   first_diff |-> d, got |-> IF d > 0 THEN r.out[d] ELSE 0, want |-> IF d > 0 THEN exp[d] ELSE 0]

Declinable(c) == c.variant \in {"zero_points", "k_mismatch"}
WantShape(c) == IF c.api = "gemm" \/ (c.api = "model" /\ c.batch = 1) THEN <<c.m, c.n>> ELSE <<c.batch, c.m, c.n>>

Judge(c, r, exp) ==
  LET pred == IF r.outcome = "panic" THEN "panic"
              ELSE IF r.outcome = "err" THEN (IF Declinable(c) THEN "none" ELSE "err")
              ELSE IF r.shape # WantShape(c) \/ Len(r.out) # c.batch * c.m * c.n THEN "shape"
              ELSE IF r.out # exp THEN "value"
              ELSE "none"
  IN Flag(nbad, pred = "none", Sig(c, pred), Summary(c, r, exp))

Case == /\ e.ev = "case"
        \* the harness's output unit must be the smallest scale times the activation unit
        /\ e.out_unit_log2 - e.a_unit_log2 = SeMin(e)
        /\ cur' = [c |-> e, w |-> Dequantize(e, e.out_unit_log2 - e.a_unit_log2)]
        /\ cnt' = [cnt EXCEPT !.cases = @ + 1, ![e.api] = @ + 1, ![e.mode] = @ + 1]
        /\ UNCHANGED nbad

Ret == /\ e.ev = "ret"
       /\ e.id = cur.c.id
       /\ nbad' = Judge(cur.c, e, IF e.outcome = "ok" THEN Expected(cur.c, cur.w) ELSE <<>>)
       /\ cnt' = [cnt EXCEPT !.judged = IF e.outcome = "ok" THEN @ + 1 ELSE @,
                             !.declined = IF e.outcome = "err" /\ Declinable(cur.c) THEN @ + 1 ELSE @,
                             !.elems = IF e.outcome = "ok" THEN @ + Len(e.out) ELSE @]
       /\ UNCHANGED cur

Info == e.ev = "info" /\ UNCHANGED <<nbad, cur, cnt>>
Next == /\ l <= NRec /\ l' = l + 1 /\ (Case \/ Ret \/ Info)
Report == l = NRec + 1 =>
            /\ ReportBad(nbad)
            /\ \A f \in DOMAIN cnt : Stat(f, cnt[f])
=============================================================================
