------------------------------- MODULE Int8Sat -------------------------------
(* The saturation hazard behind GemmExecutor::may_saturate (rten-gemm/src/     *)
(* lib.rs:374, reduced_range_rng.rs): without VNNI the u8 x i8 dot product is  *)
(* computed with vpmaddubsw, which adds two adjacent u8*i8 products into a     *)
(* *saturating* i16, then vpmaddwd/vpaddd widen exactly.  The documented       *)
(* reduced range (u8 in 0..127, i8 in -64..63; limiting either operand is      *)
(* enough) must make the i16 sum exact for every pair of products.  TLC        *)
(* enumerates every (u8, i8) value: a sum of two products cannot saturate if   *)
(* twice the magnitude of every single product fits.                           *)
EXTENDS Integers

VARIABLES u, i
Init == u \in 0..255 /\ i \in -128..127
Next == UNCHANGED <<u, i>>

Sat16(x) == IF x > 32767 THEN 32767 ELSE IF x < -32768 THEN -32768 ELSE x
\* dot products of 4 (u8, i8) pairs: exact (VNNI vpdpbusd) and via vpmaddubsw
DotExact(a, b) == a[1] * b[1] + a[2] * b[2] + a[3] * b[3] + a[4] * b[4]
DotMaddubs(a, b) == Sat16(a[1] * b[1] + a[2] * b[2]) + Sat16(a[3] * b[3] + a[4] * b[4])

LhsReduced == u <= 127
RhsReduced == i >= -64 /\ i <= 63
\* Two products of this magnitude, same sign, are the worst case of a pair.
PairFits == Sat16(2 * u * i) = 2 * u * i

NoSaturationWhenBothReduced == (LhsReduced /\ RhsReduced) => PairFits
NoSaturationWhenLhsReduced == LhsReduced => PairFits
NoSaturationWhenRhsReduced == RhsReduced => PairFits
\* the same statement on the 4-element dot product with the value repeated
DotAgreesInReducedRange ==
  (LhsReduced \/ RhsReduced) => DotMaddubs(<<u, u, u, u>>, <<i, i, i, i>>) = DotExact(<<u, u, u, u>>, <<i, i, i, i>>)
\* the hazard is real outside the reduced range (so may_saturate() = true is needed there)
ASSUME DotMaddubs(<<255, 255, 0, 0>>, <<127, 127, 0, 0>>) # DotExact(<<255, 255, 0, 0>>, <<127, 127, 0, 0>>)
=============================================================================
