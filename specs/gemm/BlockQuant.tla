------------------------------ MODULE BlockQuant ------------------------------
(* Reference semantics of 4-bit block-quantized weights (ONNX Runtime           *)
(* MatMulNBits layout, rten-gemm/src/block_quant.rs): column j of the K x N      *)
(* weight matrix is stored as K/bs blocks of bs 4-bit values with one scale per  *)
(* block; the dequantized element is (q - 8) * scale (default zero point 8).     *)
(* C37: multiplying by the quantized matrix = dequantize, then ordinary matrix   *)
(* multiplication.  Scales are powers of two 2^se and activations integer        *)
(* multiples of 2^a_unit_log2, so every value is an integer number of            *)
(* 2^(a_unit_log2 + min se) units and the product is exact.                      *)
EXTENDS Integers, Sequences

RECURSIVE Pow2(_)
Pow2(n) == IF n <= 0 THEN 1 ELSE 2 * Pow2(n - 1)
RECURSIVE MinFrom(_, _, _)
MinFrom(s, i, m) == IF i > Len(s) THEN m ELSE MinFrom(s, i + 1, IF s[i] < m THEN s[i] ELSE m)
SeMin(c) == IF Len(c.se) = 0 THEN 0 ELSE MinFrom(c.se, 1, c.se[1])

Nibble(c, k, j) == c.q[(j - 1) * c.k + k]
\* Dequantized weight W[k, j] in units of the smallest scale 2^semin.
Deq(c, semin, k, j) ==
  (Nibble(c, k, j) - 8) * Pow2(c.se[(j - 1) * c.kblocks + (k - 1) \div c.bs + 1] - semin)

\* The dequantized matrix, flat column-major (W[(j-1)*K + k]).  `semin` must be an already
\* evaluated integer (TLC re-evaluates lazily bound arguments for every element).
Dequantize(c, semin) == [t \in 1..(c.n * c.k) |-> Deq(c, semin, ((t - 1) % c.k) + 1, (t - 1) \div c.k + 1)]

\* Dequantize-then-multiply: row r of the (batch*m) x K activations times column j of the
\* dequantized matrix w (an already evaluated value of Dequantize).
RECURSIVE DotFrom(_, _, _, _, _)
DotFrom(c, w, r, j, k) ==
  IF k > c.k THEN 0 ELSE c.a[(r - 1) * c.k + k] * w[(j - 1) * c.k + k] + DotFrom(c, w, r, j, k + 1)

Bias(c, i, j) == CASE c.bias_kind = "row" -> c.bias[j]
                   [] c.bias_kind = "col" -> c.bias[i]
                   [] OTHER -> 0

\* Expected output, flat [batch, m, n] row-major, in units of 2^(a_unit_log2 + SeMin).
Expected(c, w) ==
  [idx \in 1..(c.batch * c.m * c.n) |->
     LET r == (idx - 1) \div c.n + 1
         j == ((idx - 1) % c.n) + 1
         i == ((r - 1) % c.m) + 1
     IN DotFrom(c, w, r, j, 1) + Bias(c, i, j)]
=============================================================================
