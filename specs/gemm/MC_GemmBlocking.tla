--------------------------- MODULE MC_GemmBlocking ---------------------------
EXTENDS GemmBlocking
ASSUME /\ MC % MR = 0 /\ NC % NR = 0   \* row_block_size / col_block_size round up to the tile
=============================================================================
