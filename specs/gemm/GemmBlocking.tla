---------------------------- MODULE GemmBlocking ----------------------------
(* Implementation-shaped model of the loop nest of rten-gemm `gemm_impl`      *)
(* (rten-gemm/src/lib.rs) with the contract invariants of property C16.       *)
(*                                                                            *)
(*   paths    empty output (M = 0 or N = 0); K = 0; gemv (M = 1, unpacked     *)
(*            operands); general blocked gemm                                 *)
(*   gemm     column blocks of NC columns run in parallel; inside one column  *)
(*            block the depth blocks of KC run in sequence; inside one depth  *)
(*            block the row blocks of MC rows run in parallel; a (column,     *)
(*            depth, row) block updates the MR x NR output tiles              *)
(*            row_start/MR .. ceil(row_end/MR), col_start/NR .. ceil(col_end/ *)
(*            NR); the kernel gets the caller's beta on the depth block that  *)
(*            starts at 0 and 1 afterwards; the bias is added after the       *)
(*            kernel on the depth block that starts at 0                      *)
(*   gemv     column blocks of GB columns in parallel; depth blocks of GK in  *)
(*            sequence with beta reset to 1 after the first; bias at the end  *)
(*                                                                            *)
(* The value of an output element is abstracted to what the property talks    *)
(* about: whether it is initialised, how much of the depth range 0..K-1 it    *)
(* has accumulated (in order), whether the prior content of the buffer still  *)
(* contributes to it, how often the caller's beta and the bias were applied.  *)
(* With beta = 0 the prior content is poison (uninitialised memory).          *)
(*                                                                            *)
(* `Mutant` switches in deliberately wrong variants of the loop nest (the     *)
(* defects named in DESIGN section 5, C16 "catches"); the check runs them to  *)
(* show that the invariants are not vacuous.                                  *)
EXTENDS Integers, Sequences, FiniteSets

CONSTANTS MaxDim,        \* M, N, K range over 0..MaxDim
          MR, NR,        \* tile
          MC, NC, KC,    \* row / column / depth block
          GB, GK,        \* gemv column / depth block
          Mutant         \* "none" or the name of a seeded defect

VARIABLES cfg,    \* [m, n, k, beta, bias, path]
          pc,     \* "run" | "done"
          elem,   \* <<i, j>> -> abstract value of output element (0-based indices)
          cols    \* column block -> progress record

vars == <<cfg, pc, elem, cols>>

Min(a, b) == IF a < b THEN a ELSE b
CeilDiv(a, b) == (a + b - 1) \div b
NBlocks(n, size) == CeilDiv(n, size)

\* beta classes: "zero", "one", "other"
Betas == {"zero", "one", "other"}
Biases == {"none", "row", "col"}

PathsOf(m, n, k) ==
  IF m = 0 \/ n = 0 THEN {"empty"}
  ELSE IF k = 0 THEN {"k0"}
  ELSE IF m = 1 THEN {"gemv", "gemm"}     \* prepacked / im2col operands take the gemm path
  ELSE {"gemm"}

Elems(m, n) == (0..(m - 1)) \X (0..(n - 1))

\* Initial abstract value: prior content is present; it counts as initialised only if
\* the caller promises so (beta # 0).
Elem0(beta) == [init |-> beta # "zero", cov |-> 0, prior |-> TRUE, nbeta |-> 0, nbias |-> 0, fault |-> "none"]

\* ------------------------------------------------------------------ kernel
\* Effect of one kernel call accumulating depth [ds, de).  `tag` says which beta the
\* kernel was given: "user" (the caller's) or "unit" (1, accumulate).
BetaOf(tag) == IF tag = "user" THEN cfg.beta ELSE "one"
Kernel(v, tag, ds, de) ==
  LET eb == BetaOf(tag)
      f1 == IF v.fault # "none" THEN v.fault
            ELSE IF eb # "zero" /\ ~v.init THEN "read_uninitialised"
            ELSE IF eb = "zero" /\ v.cov # 0 THEN "overwrote_accumulated_depth"
            ELSE IF v.cov # ds THEN "depth_out_of_order"
            ELSE IF eb = "other" /\ v.cov # 0 THEN "user_beta_scaled_partial_sum"
            ELSE "none"
  IN [v EXCEPT !.init = TRUE,
               !.cov = de,
               !.prior = IF eb = "zero" THEN FALSE ELSE @,
               !.nbeta = IF tag = "user" /\ eb # "zero" THEN @ + 1 ELSE @,
               !.fault = f1]

AddBias(v) == [v EXCEPT !.nbias = @ + 1,
                        !.fault = IF @ = "none" /\ ~v.init THEN "bias_on_uninitialised" ELSE @]

\* ------------------------------------------------------------------ gemm path
NColBlocks == NBlocks(cfg.n, IF Mutant = "nc_not_multiple_of_nr" THEN NC - 1 ELSE NC)
NRowBlocks == NBlocks(cfg.m, MC)
NDepthBlocks == NBlocks(cfg.k, KC)

\* col_block_size rounds the column block up to a multiple of NR (mutant: it does not).
NCeff == IF Mutant = "nc_not_multiple_of_nr" THEN NC - 1 ELSE NC
ColRange(c) == [lo |-> c * NCeff, hi |-> Min(c * NCeff + NCeff, cfg.n)]
RowRange(r) == [lo |-> r * MC, hi |-> Min(r * MC + MC, cfg.m)]
DepthRange(d) == [lo |-> d * KC, hi |-> Min(d * KC + KC, cfg.k)]

\* Tiles touched by block (c, r): the tile index ranges computed as in gemm_block's caller.
ColTiles(c) == (ColRange(c).lo \div NR) .. (CeilDiv(ColRange(c).hi, NR) - 1)
RowTiles(r) == (RowRange(r).lo \div MR) .. (CeilDiv(RowRange(r).hi, MR) - 1)
Tiles(c, r) == RowTiles(r) \X ColTiles(c)
\* Elements of a tile: OutputTiles::tile clips to the matrix (used_rows / used_cols).
TileElems(t) == {ij \in Elems(cfg.m, cfg.n) :
                   /\ ij[1] \div MR = t[1]
                   /\ ij[2] \div NR = t[2]}
BlockElems(c, r) == UNION {TileElems(t) : t \in Tiles(c, r)}

EffectiveBeta(c, d) ==
  CASE Mutant = "beta_every_depth_block" -> "user"
    [] OTHER -> IF DepthRange(d).lo = 0 THEN "user" ELSE "unit"

BiasOnBlock(d) ==
  CASE Mutant = "bias_every_depth_block" -> cfg.bias # "none"
    [] OTHER -> cfg.bias # "none" /\ DepthRange(d).lo = 0

GemmBlock(c, r, d) ==
  LET dr == DepthRange(d)
      es == BlockElems(c, r)
  IN [ij \in Elems(cfg.m, cfg.n) |->
        IF ij \in es
        THEN LET v1 == Kernel(elem[ij], EffectiveBeta(c, d), dr.lo, dr.hi)
             IN IF BiasOnBlock(d) THEN AddBias(v1) ELSE v1
        ELSE elem[ij]]

StartRowBlock(c, r) ==
  /\ pc = "run" /\ cfg.path = "gemm"
  /\ cols[c].d < NDepthBlocks
  /\ cols[c].rows[r] = "todo"
  /\ cols' = [cols EXCEPT ![c].rows[r] = "run"]
  /\ UNCHANGED <<cfg, pc, elem>>

FinishRowBlock(c, r) ==
  /\ pc = "run" /\ cfg.path = "gemm"
  /\ cols[c].rows[r] = "run"
  /\ elem' = GemmBlock(c, r, cols[c].d)
  /\ cols' = [cols EXCEPT ![c].rows[r] = "done"]
  /\ UNCHANGED <<cfg, pc>>

NextDepthBlock(c) ==
  /\ pc = "run" /\ cfg.path = "gemm"
  /\ cols[c].d < NDepthBlocks
  /\ \A r \in DOMAIN cols[c].rows : cols[c].rows[r] = "done"
  /\ cols' = [cols EXCEPT ![c].d = @ + 1,
                          ![c].rows = [r \in DOMAIN cols[c].rows |-> "todo"]]
  /\ UNCHANGED <<cfg, pc, elem>>

\* ------------------------------------------------------------------ gemv path
NGemvBlocks == NBlocks(cfg.n, GB)
NGemvDepth == NBlocks(cfg.k, GK)
GemvCols(c) == {ij \in Elems(cfg.m, cfg.n) : ij[2] >= c * GB /\ ij[2] < Min(c * GB + GB, cfg.n)}

GemvStep(c) ==
  /\ pc = "run" /\ cfg.path = "gemv"
  /\ cols[c].d < NGemvDepth
  /\ LET d == cols[c].d
         lo == d * GK
         hi == Min(d * GK + GK, cfg.k)
         eb == CASE Mutant = "gemv_beta_not_reset" -> "user"
                 [] OTHER -> IF d = 0 THEN "user" ELSE "unit"
     IN elem' = [ij \in Elems(cfg.m, cfg.n) |->
                   IF ij \in GemvCols(c) THEN Kernel(elem[ij], eb, lo, hi) ELSE elem[ij]]
  /\ cols' = [cols EXCEPT ![c].d = @ + 1]
  /\ UNCHANGED <<cfg, pc>>

GemvBias(c) ==
  /\ pc = "run" /\ cfg.path = "gemv"
  /\ cols[c].d = NGemvDepth
  /\ cols[c].rows[0] = "todo"
  /\ elem' = [ij \in Elems(cfg.m, cfg.n) |->
                IF ij \in GemvCols(c) /\ cfg.bias # "none" THEN AddBias(elem[ij]) ELSE elem[ij]]
  /\ cols' = [cols EXCEPT ![c].rows[0] = "done"]
  /\ UNCHANGED <<cfg, pc>>

\* ------------------------------------------------------------------ early exits
\* K = 0: the output is filled with zero (beta = 0) or scaled by beta, then the bias is added.
DepthZero ==
  /\ pc = "run" /\ cfg.path = "k0"
  /\ elem' = [ij \in Elems(cfg.m, cfg.n) |->
                LET v == elem[ij]
                    v1 == [v EXCEPT !.init = TRUE,
                                    !.prior = cfg.beta # "zero",
                                    !.nbeta = IF cfg.beta # "zero" THEN 1 ELSE 0]
                IN IF cfg.bias # "none" THEN AddBias(v1) ELSE v1]
  /\ pc' = "done"
  /\ UNCHANGED <<cfg, cols>>

EmptyOutput ==
  /\ pc = "run" /\ cfg.path = "empty"
  /\ pc' = "done"
  /\ UNCHANGED <<cfg, elem, cols>>

Finish ==
  /\ pc = "run"
  /\ \/ cfg.path = "gemm" /\ \A c \in DOMAIN cols : cols[c].d = NDepthBlocks
     \/ cfg.path = "gemv" /\ \A c \in DOMAIN cols : cols[c].d = NGemvDepth /\ cols[c].rows[0] = "done"
  /\ pc' = "done"
  /\ UNCHANGED <<cfg, elem, cols>>

\* ------------------------------------------------------------------ spec
InitCols(path, m, n) ==
  CASE path = "gemm" -> [c \in 0..(NBlocks(n, IF Mutant = "nc_not_multiple_of_nr" THEN NC - 1 ELSE NC) - 1) |->
                            [d |-> 0, rows |-> [r \in 0..(NBlocks(m, MC) - 1) |-> "todo"]]]
    [] path = "gemv" -> [c \in 0..(NBlocks(n, GB) - 1) |-> [d |-> 0, rows |-> [r \in {0} |-> "todo"]]]
    [] OTHER -> [c \in {} |-> [d |-> 0, rows |-> <<>>]]

Init ==
  \E m \in 0..MaxDim, n \in 0..MaxDim, k \in 0..MaxDim, beta \in Betas, bias \in Biases :
    \E path \in PathsOf(m, n, k) :
      /\ cfg = [m |-> m, n |-> n, k |-> k, beta |-> beta, bias |-> bias, path |-> path]
      /\ pc = "run"
      /\ elem = [ij \in Elems(m, n) |-> Elem0(beta)]
      /\ cols = InitCols(path, m, n)

Next ==
  \/ \E c \in DOMAIN cols :
       \/ \E r \in DOMAIN cols[c].rows : StartRowBlock(c, r) \/ FinishRowBlock(c, r)
       \/ NextDepthBlock(c)
       \/ GemvStep(c)
       \/ GemvBias(c)
  \/ DepthZero
  \/ EmptyOutput
  \/ Finish

Spec == Init /\ [][Next]_vars

\* ------------------------------------------------------------------ invariants (C16)
Running == {cr \in (DOMAIN cols) \X (0..MaxDim) :
              /\ cfg.path = "gemm"
              /\ cr[2] \in DOMAIN cols[cr[1]].rows
              /\ cols[cr[1]].rows[cr[2]] = "run"}

\* No two blocks that may execute at the same time touch the same output tile.
NoConcurrentTileWrite ==
  \A x \in Running, y \in Running : x # y => Tiles(x[1], x[2]) \cap Tiles(y[1], y[2]) = {}

\* No kernel read of uninitialised memory, depth blocks in order, the caller's beta never
\* applied on top of an accumulated partial sum.
NoFault == \A ij \in DOMAIN elem : elem[ij].fault = "none"

Done == pc = "done"
EveryElementInitialised == Done => \A ij \in DOMAIN elem : elem[ij].init
DepthExactlyOnceInOrder == Done => \A ij \in DOMAIN elem : elem[ij].cov = cfg.k
UserBetaOnlyOnFirstDepthBlock ==
  Done => \A ij \in DOMAIN elem : elem[ij].nbeta = IF cfg.beta = "zero" THEN 0 ELSE 1
BiasExactlyOnce ==
  Done => \A ij \in DOMAIN elem : elem[ij].nbias = IF cfg.bias = "none" THEN 0 ELSE 1
BetaZeroIgnoresPrior ==
  Done => \A ij \in DOMAIN elem : (cfg.beta = "zero") => ~elem[ij].prior
PriorKeptWhenBetaNonZero ==
  Done => \A ij \in DOMAIN elem : (cfg.beta # "zero") => elem[ij].prior

\* The column (row) blocks partition the columns (rows): every element belongs to the
\* tiles of exactly one (column block, row block) pair.
BlocksPartitionOutput ==
  cfg.path = "gemm" =>
    \A ij \in DOMAIN elem :
      Cardinality({cr \in (0..(NColBlocks - 1)) \X (0..(NRowBlocks - 1)) :
                     ij \in BlockElems(cr[1], cr[2])}) = 1

TypeOK == /\ pc \in {"run", "done"}
          /\ cfg.path \in {"empty", "k0", "gemv", "gemm"}
=============================================================================
