----------------------------- MODULE Trace_Int8 -----------------------------
(* Trace validation for C17 (kernel level): u8 x i8 -> i32 GEMM with per-row  *)
(* (A) and per-column (B) zero points must return exactly                     *)
(*    C[i,j] = SUM_k (A[i,k] - za[i]) * (B[k,j] - zb[j]) + beta*C0[i,j] + bias *)
(* computed here in integers.                                                 *)
(*                                                                            *)
(* may_saturate() contract (rten-gemm/src/lib.rs:374, reduced_range_rng.rs):  *)
(* a kernel reporting `false` is judged on every input; a kernel reporting    *)
(* `true` is judged when the inputs lie in the documented reduced range (u8   *)
(* values in [0,127] and i8 values in [-64,63]: the weakest reading of "in    *)
(* the reduced range it documents" restricts both operands).  Other cases of  *)
(* a saturating kernel are counted but not judged (except for not failing).   *)
EXTENDS TraceLib, GemmRef

VARIABLES l, nbad, cur, cnt

Init == l = 1 /\ nbad = NoBad /\ cur = [c |-> [id |-> "none"], SP |-> 0, SQ |-> 0, SPQ |-> 0]
        /\ cnt = [cases |-> 0, judged |-> 0, unjudged |-> 0, elems |-> 0, pairs |-> 0,
                  dense |-> 0, add |-> 0, im2col |-> 0, reduced |-> 0, full |-> 0]

e == Rec[l]

RECURSIVE SumFrom(_, _)
SumFrom(s, i) == IF i > Len(s) THEN 0 ELSE s[i] + SumFrom(s, i + 1)
Sum(s) == SumFrom(s, 1)
RECURSIVE MaxFrom(_, _, _)
MaxFrom(s, i, m) == IF i > Len(s) THEN m ELSE MaxFrom(s, i + 1, IF s[i] > m THEN s[i] ELSE m)
RECURSIVE MinFrom(_, _, _)
MinFrom(s, i, m) == IF i > Len(s) THEN m ELSE MinFrom(s, i + 1, IF s[i] < m THEN s[i] ELSE m)
MaxOf(s) == MaxFrom(s, 1, -1000)   \* of a possibly empty sequence of byte values
MinOf(s) == MinFrom(s, 1, 1000)

\* Are the operand values inside the documented reduced range?
Reduced(c) ==
  CASE c.fam = "dense" -> MaxOf(c.a) <= 127 /\ MinOf(c.b) >= -64 /\ MaxOf(c.b) <= 63
    [] c.fam = "im2col" -> MaxOf(c.a) <= 127 /\ MinOf(c.im.img) >= -64 /\ MaxOf(c.im.img) <= 63
    [] c.fam = "add" -> \/ c.m * c.n * c.k = 0
                        \/ /\ MaxOf(c.av) + MaxOf(c.p) <= 127
                           /\ MinOf(c.q) + MinOf(c.v) >= -64
                           /\ MaxOf(c.q) + MaxOf(c.v) <= 63

ZA(c, i) == IF c.has_za THEN c.za[i] ELSE 0
ZB(c, j) == IF c.has_zb THEN c.zb[j] ELSE 0

\* What a padded element of a quantized im2col operand is worth is not fixed at the GEMM level
\* (the statement speaks of the operators): `pad` is either the raw value 0 or the column's zero
\* point (contribution 0, the ONNX ConvInteger semantics, judged in Trace_QOps).  Both are accepted.
RECURSIVE DotImZpFrom(_, _, _, _, _, _, _, _, _)
DotImZpFrom(A, im, K, za, zb, pad, i, j, k) ==
  IF k > K THEN 0
  ELSE (A[(i - 1) * K + k] - za) * (ImBPad(im, k, j, pad) - zb)
       + DotImZpFrom(A, im, K, za, zb, pad, i, j, k + 1)

\* Additive structure A[i,k] = av[i] + p[k], B[k,j] = q[k] + v[j]:
\*   SUM_k (x + p[k]) (q[k] + y) = K*x*y + x*SQ + y*SP + SPQ,  x = av[i]-za[i], y = v[j]-zb[j].
DotAdd(c, SP, SQ, SPQ, i, j) ==
  LET x == c.av[i] - ZA(c, i)
      y == c.v[j] - ZB(c, j)
  IN c.k * x * y + x * SQ + y * SP + SPQ

Expected(c, SP, SQ, SPQ, padzp) ==
  [idx \in 1..(c.m * c.n) |->
     LET i == (idx - 1) \div c.n + 1
         j == ((idx - 1) % c.n) + 1
         dot == CASE c.fam = "dense" -> DotZp(c.a, c.b, c.k, c.n, ZA(c, i), ZB(c, j), i, j)
                  [] c.fam = "add" -> DotAdd(c, SP, SQ, SPQ, i, j)
                  [] c.fam = "im2col" -> DotImZpFrom(c.a, c.im, c.k, ZA(c, i), ZB(c, j),
                                                     IF padzp THEN ZB(c, j) ELSE 0, i, j, 1)
     IN dot + (IF c.beta = 0 THEN 0 ELSE c.beta * c.c0[idx]) + Bias(c, i, j)]

Path(c) == IF c.m = 0 \/ c.n = 0 THEN "empty"
           ELSE IF c.k = 0 THEN "k0"
           ELSE IF c.m = 1 /\ c.a_form = "unpacked" /\ c.b_form = "unpacked" THEN "gemv"
           ELSE "gemm"
\* Classes of zero-point vectors and of the situations in which they matter to the packing
\* code (int8 kernels keep the zero points in per-panel metadata of the packed operand).
ZpKind(has, z) == IF ~has \/ Len(z) = 0 THEN "none"
                  ELSE IF \A i \in 1..Len(z) : z[i] = z[1] THEN (IF z[1] = 0 THEN "zero" ELSE "uniform")
                  ELSE "varied"
ZpClass(c) == [a |-> ZpKind(c.has_za, c.za), b |-> ZpKind(c.has_zb, c.zb)]
Trigger(c) ==
  LET ka == ZpKind(c.has_za, c.za)
      kb == ZpKind(c.has_zb, c.zb)
  IN IF (c.a_form = "packed" /\ ka \in {"uniform", "varied"})
        \/ (c.b_form = "packed" /\ kb \in {"uniform", "varied"})
     THEN "prepacked_operand_with_nonzero_zero_point"
     ELSE IF (ka = "varied" /\ c.m > c.mr) \/ (kb = "varied" /\ c.n > c.nr)
     THEN "zero_points_differ_across_panels"
     ELSE "other"

Sig(c, r, pred) ==
  IF pred \in {"panic", "err"}
  THEN [api |-> IF r.phase = "call" THEN c.api ELSE "prepack", pred |-> pred, phase |-> r.phase,
        kernel |-> c.kernel, msg |-> r.err]
  ELSE [kernel |-> c.kernel, sat |-> c.sat, path |-> Path(c), pred |-> pred, trigger |-> Trigger(c)]

RECURSIVE FirstDiff(_, _, _)
FirstDiff(a, b, i) == IF i > Len(a) THEN 0 ELSE IF a[i] # b[i] THEN i ELSE FirstDiff(a, b, i + 1)

Summary(c, r, exp) ==
  LET d == IF r.outcome = "ok" /\ Len(r.out) = Len(exp) THEN FirstDiff(r.out, exp, 1) ELSE 0 IN
  [id |-> c.id, kernel |-> c.kernel, sat |-> c.sat, api |-> c.api, cls |-> c.cls, threads |-> c.threads,
   m |-> c.m, n |-> c.n, k |-> c.k, fam |-> c.fam, beta |-> c.beta, bias_kind |-> c.bias_kind,
   a_form |-> c.a_form, b_form |-> c.b_form, a_layout |-> c.a_layout, b_layout |-> c.b_layout,
   zp |-> ZpClass(c), trigger |-> Trigger(c), outcome |-> r.outcome, err |-> r.err, outlen |-> Len(r.out),
   first_diff |-> d,
   got |-> IF d > 0 THEN r.out[d] ELSE 0,
   want |-> IF d > 0 THEN exp[d] ELSE 0]

Case == /\ e.ev = "case"
        /\ cur' = [c |-> e,
                   SP |-> IF e.fam = "add" THEN Sum(e.p) ELSE 0,
                   SQ |-> IF e.fam = "add" THEN Sum(e.q) ELSE 0,
                   SPQ |-> IF e.fam = "add" THEN Prefix(e.p, e.q)[e.k + 1] ELSE 0]
        /\ cnt' = [cnt EXCEPT !.cases = @ + 1, ![e.fam] = @ + 1,
                              !.pairs = IF e.cls = "pairs" THEN @ + 1 ELSE @]
        /\ UNCHANGED nbad

Judge(c, r, judged, exp, exp2) ==
  LET mn == c.m * c.n
      pred == IF r.outcome # "ok" THEN r.outcome
              ELSE IF Len(r.out) # mn THEN "length"
              ELSE IF judged /\ mn > 0 /\ r.out # exp /\ (c.fam # "im2col" \/ r.out # exp2) THEN "value"
              ELSE "none"
  IN Flag(nbad, pred = "none", Sig(c, r, pred), Summary(c, r, exp))

Ret == /\ e.ev = "ret"
       /\ e.id = cur.c.id
       /\ LET judged == ~cur.c.sat \/ Reduced(cur.c) IN
          /\ nbad' = Judge(cur.c, e, judged,
                           IF e.outcome = "ok" /\ judged
                           THEN Expected(cur.c, cur.SP, cur.SQ, cur.SPQ, FALSE) ELSE <<>>,
                           IF e.outcome = "ok" /\ judged /\ cur.c.fam = "im2col"
                           THEN Expected(cur.c, cur.SP, cur.SQ, cur.SPQ, TRUE) ELSE <<>>)
          /\ cnt' = [cnt EXCEPT !.judged = IF judged THEN @ + 1 ELSE @,
                                !.unjudged = IF judged THEN @ ELSE @ + 1,
                                !.elems = IF judged THEN @ + cur.c.m * cur.c.n ELSE @,
                                !.reduced = IF Reduced(cur.c) THEN @ + 1 ELSE @,
                                !.full = IF Reduced(cur.c) THEN @ ELSE @ + 1]
       /\ UNCHANGED cur

Info == e.ev = "info" /\ UNCHANGED <<nbad, cur, cnt>>

Next == /\ l <= NRec /\ l' = l + 1 /\ (Case \/ Ret \/ Info)

Report == l = NRec + 1 =>
            /\ ReportBad(nbad)
            /\ \A f \in DOMAIN cnt : Stat(f, cnt[f])
=============================================================================
