CONSTANTS MaxTOf <- ThoroughT  D = 4
INIT Init
NEXT Next
INVARIANTS TotalMass ForwardAgrees CollapseSane GreedySane SlackSane Emit
CHECK_DEADLOCK FALSE
