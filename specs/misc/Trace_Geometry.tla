--------------------------- MODULE Trace_Geometry ---------------------------
(* Trace validation for C35: results of the real polygon algorithms judged    *)
(* against the Geometry contract (G1-G4), with exact integer arithmetic.      *)
(*   gcase {op, pts, eps4, scale, src}  then  gret {outcome, exact, out, msg} *)
(*   op in hull | rect | simp_polygon | simp_polyline ; points are <<x, y>>   *)
EXTENDS TraceLib, Geometry

VARIABLES l, nbad, k, cnt     \* cnt: <<hull, rect, simplify cases, results with >= 3 vertices>>

NoCase == [ev |-> "none"]
Init == l = 1 /\ nbad = NoBad /\ k = NoCase /\ cnt = <<0, 0, 0, 0>>
e == Rec[l]

Case == e.ev = "gcase" /\ k' = e /\ UNCHANGED <<nbad, cnt>>

\* failing-case class of the input, for signatures
InputClass(P) == IF Len(P) <= 1 THEN "single"
                 ELSE IF Cardinality(RangeOf(P)) < Len(P) THEN "with_duplicates"
                 ELSE IF Collinear(P) THEN "collinear" ELSE "general"
Magnitude(P) == IF MaxAbs(P, 1) <= 4096 THEN "small" ELSE "large"
\* Is the input nearly collinear: do all points lie within 1/128 of the length of
\* some segment between two input points from the line through that segment?
\* (cross^2 * 2^14 <= |ab|^4 ; evaluated only for failing cases)
NearlyCollinear(P) ==
  \E a, b \in DOMAIN P :
    LET l2 == Dist2(P[a], P[b]) IN
    \A i \in DOMAIN P :
      LET c == Cross(P[a], P[b], P[i]) IN Leq(Mul(Mul(c, c), Big(16384)), Mul(l2, l2))
SigC(pred, class) == [api |-> k.op, pred |-> pred, class |-> class, magnitude |-> Magnitude(k.pts),
                      shape |-> IF NearlyCollinear(k.pts) THEN "nearly_collinear" ELSE "well_spread"]
Sig(pred) == SigC(pred, InputClass(k.pts))
\* Narrower classes for containment failures (they are what known findings match on):
\* is a point that the hull leaves outside on the line through one of the hull's edges?
OutsideHullClass(P, H) ==
  IF H = <<>> THEN "empty_hull"
  ELSE LET out == {i \in DOMAIN P : ~HullContains(H, P[i])} IN
       IF \A i \in out : \E j \in DOMAIN H : Len(H) >= 2 /\ Side(H[j], H[Succ(H, j)], P[i]) = 0
       THEN "on_hull_edge_line" ELSE "off_hull_edge_lines"
\* is a point that the rectangle leaves outside collinear with two other distinct input points?
OutsideRectClass(P, R, S) ==
  IF Len(R) # 4 THEN "no_rectangle"
  ELSE LET out == {i \in DOMAIN P : ~RectContains(R, P[i], S, Slack64(P))} IN
       IF \A i \in out : \E a, b \in DOMAIN P :
             P[a] # P[b] /\ P[a] # P[i] /\ P[b] # P[i] /\ Side(P[a], P[b], P[i]) = 0
       THEN "collinear_with_two_inputs" ELSE "general_position"

Ret ==
  /\ e.ev = "gret" /\ k.ev = "gcase" /\ k' = k
  /\ LET P == k.pts
         Q == e.out
         rec == [case |-> k, ret |-> e]
         ok == e.outcome = "ok"
     IN
     CASE k.op = "hull" ->
            LET b0 == Flag(nbad, ok, Sig("panic"), rec)
                b1 == Flag(b0, ok => (e.exact /\ HullUsesInput(P, Q)), Sig("not_input_points"), rec)
                b2 == Flag(b1, (ok /\ e.exact) => Convex(Q), Sig("not_convex"), rec)
                okc == (ok /\ e.exact) => HullContainsAll(P, Q)
                b3 == Flag(b2, okc, SigC("point_outside_hull", IF okc THEN "" ELSE OutsideHullClass(P, Q)), rec)
            IN nbad' = b3 /\ cnt' = [cnt EXCEPT ![1] = @ + 1, ![4] = @ + (IF Len(Q) >= 3 THEN 1 ELSE 0)]
       [] k.op = "rect" ->
            \* an empty point set has no rectangle (None); otherwise there must be one
            LET b0 == Flag(nbad, e.outcome # "panic", Sig("panic"), rec)
                okr == e.outcome # "panic" =>
                         IF P = <<>> THEN e.outcome = "none"
                         ELSE ok /\ Len(Q) = 4 /\ RectContainsAll(P, Q, k.scale)
                b1 == Flag(b0, okr, SigC("point_outside_rect", IF okr THEN "" ELSE OutsideRectClass(P, Q, k.scale)), rec)
            IN nbad' = b1 /\ cnt' = [cnt EXCEPT ![2] = @ + 1]
       [] OTHER ->   \* simp_polygon, simp_polyline
            LET closed == k.op = "simp_polygon"
                b0 == Flag(nbad, ok, Sig("panic"), rec)
                b1 == Flag(b0, ok => (e.exact /\ KeepsFirst(P, Q)), Sig("first_point_dropped"), rec)
                b2 == Flag(b1, (ok /\ e.exact) => IsSubsequence(P, Q), Sig("not_a_subsequence"), rec)
                b3 == Flag(b2, (ok /\ e.exact /\ P # <<>>) => AllNearOutline(P, Q, closed, k.eps4),
                           Sig("removed_point_too_far"), rec)
            IN nbad' = b3 /\ cnt' = [cnt EXCEPT ![3] = @ + 1, ![4] = @ + (IF Len(Q) >= 3 THEN 1 ELSE 0)]

Next == /\ l <= NRec /\ l' = l + 1 /\ (Case \/ Ret)

Report == l = NRec + 1 =>
            /\ ReportBad(nbad)
            /\ Stat("hull_cases", cnt[1]) /\ Stat("rect_cases", cnt[2])
            /\ Stat("simplify_cases", cnt[3]) /\ Stat("results_with_3plus_vertices", cnt[4])
=============================================================================
