CONSTANTS MaxH = 4  MaxW = 4
INIT Init
NEXT Next
INVARIANTS CompsPartition Satisfiable OuterMostSane NotVacuous Emit
CHECK_DEADLOCK FALSE
