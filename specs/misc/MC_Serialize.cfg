CONSTANTS TensorIds = {"t1", "t2", "t3"}  MaxSteps = 4
INIT Init
NEXT Next
INVARIANTS ContractHolds ContractTight KeyRule
CHECK_DEADLOCK FALSE
