CONSTANTS RectCoords <- RT  PolyCoords <- PT  QuadCoords <- QT  Fixed = 2
INIT Init
NEXT Next
INVARIANTS BoundsSane Emit
CHECK_DEADLOCK FALSE
