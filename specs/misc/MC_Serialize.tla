---------------------------- MODULE MC_Serialize ----------------------------
(* The store state machine over a tiny universe, with a reference reader that  *)
(* satisfies the contract; TLC checks that the contract is what separates the  *)
(* allowed read results from the forbidden ones (history variable `obs`).      *)
EXTENDS Serialize, TLC

CONSTANTS TensorIds, MaxSteps
VARIABLES file,     \* [present, entries, intact]
          obs,      \* last read observation [outcome, got] (outcome "none": no observation)
          steps
vars == <<file, obs, steps>>

Entry(n, t) == [name |-> <<n>>, tensor |-> t]
EntrySeqs == UNION {[1 .. k -> {Entry(n, t) : n \in {97, 98}, t \in TensorIds}] : k \in 1 .. 2}

Absent == [present |-> FALSE, entries |-> <<>>, intact |-> FALSE]
NoObs == [outcome |-> "none", got |-> <<>>]
Init == file = Absent /\ obs = NoObs /\ steps = 0
Write == \E es \in EntrySeqs :
           /\ \A i, j \in DOMAIN es : i # j => es[i].name # es[j].name
           /\ file' = [present |-> TRUE, entries |-> es, intact |-> TRUE] /\ obs' = NoObs
Corrupt == file.present /\ file' = [file EXCEPT !.intact = FALSE] /\ obs' = NoObs
\* any reader allowed by the contract
Read == /\ file.present /\ UNCHANGED file
        /\ \/ file.intact /\ obs' = [outcome |-> "value", got |-> file.entries]
           \/ ~file.intact /\ \E o \in {"value", "error"}, es \in EntrySeqs : obs' = [outcome |-> o, got |-> es]
Next == steps < MaxSteps /\ steps' = steps + 1 /\ (Write \/ Corrupt \/ Read)

\* every observation of the reference reader satisfies S1/S2 ...
ContractHolds ==
  obs # NoObs => /\ Returns(obs.outcome)
                  /\ file.intact => ReadAllOK(file.entries, obs.outcome, obs.got)
\* ... and S1 rejects every different result on an intact file
ContractTight ==
  (file.present /\ file.intact) =>
     \A es \in EntrySeqs : ReadAllOK(file.entries, "value", es) => Tensors(es) = Tensors(file.entries)
KeyRule == /\ ExpectedKey("npz", <<97, 46, 110, 112, 121>>) = <<97>>
           /\ ExpectedKey("npz", <<46, 110, 112, 121, 46, 110, 112, 121>>) = <<46, 110, 112, 121>>
           /\ ExpectedKey("safetensors", <<97, 46, 110, 112, 121>>) = <<97, 46, 110, 112, 121>>
           /\ ExpectedKey("npz", <<110, 112, 121>>) = <<110, 112, 121>>
=============================================================================
