------------------------------ MODULE Geometry ------------------------------
(* C35 -- contracts of convex_hull, min_area_rect, simplify_polygon and        *)
(* simplify_polyline of rten-imageproc, decided with exact integer arithmetic  *)
(* (BigInt) on integer coordinates.  A point is <<x, y>>.                      *)
(*                                                                             *)
(* Readings fixed here:                                                        *)
(*  G1 "convex": every vertex of the hull lies on one and the same side of (or *)
(*     on) every edge line; this excludes self-intersecting outlines, allows   *)
(*     collinear vertices and either orientation.  A hull of fewer than three  *)
(*     vertices, or with all vertices on one line, is accepted as convex iff   *)
(*     it has no repeated vertex.                                              *)
(*  G2 "contains every input point": the point is inside or on the boundary,   *)
(*     exactly (the hull vertices are input points, so no rounding is          *)
(*     involved in the statement).                                             *)
(*  G3 "the minimum-area rectangle contains every point": the rectangle's      *)
(*     corners are f32 results, logged multiplied by a power of two S and      *)
(*     rounded; a point must be inside, or within Slack of the boundary, with  *)
(*     Slack = 1/64 + M/2^16 where M is the largest coordinate magnitude       *)
(*     (about 130 f32 ulps at magnitude M): rounding is not a violation,       *)
(*     leaving a point outside by more than that is.  Minimality of the area   *)
(*     is not part of the statement and is not checked.                        *)
(*  G4 "every removed point lies within epsilon of the simplified outline":    *)
(*     the distance to the nearest segment of the simplified polyline (closed  *)
(*     for simplify_polygon) is at most epsilon + Slack (same Slack).          *)
EXTENDS BigInt, FiniteSets

\* ---- exact primitives on integer points -----------------------------------
\* cross product (b - a) x (p - a); > 0 and < 0 are the two sides of line ab
Cross(a, b, p) == Sub(Mul(Big(b[1] - a[1]), Big(p[2] - a[2])),
                      Mul(Big(b[2] - a[2]), Big(p[1] - a[1])))
Dot(a, b, p) == Add(Mul(Big(b[1] - a[1]), Big(p[1] - a[1])),
                    Mul(Big(b[2] - a[2]), Big(p[2] - a[2])))
Dist2(a, b) == Dot(a, b, b)
Side(a, b, p) == Sign(Cross(a, b, p))

\* squared distance from p to the segment ab is <= num / den   (den > 0)
SegDist2Leq(p, a, b, num, den) ==
  LET l2 == Dist2(a, b)
      t == Dot(a, b, p)                       \* projection parameter times l2
  IN IF Sign(t) <= 0 THEN Leq(Mul(Dist2(a, p), den), num)
     ELSE IF Cmp(t, l2) >= 0 THEN Leq(Mul(Dist2(b, p), den), num)
     ELSE LET c == Cross(a, b, p)
          IN Leq(Mul(Mul(c, c), den), Mul(num, l2))

\* cyclic successor index
Succ(H, i) == IF i = Len(H) THEN 1 ELSE i + 1
Collinear(H) == \A i, j, k \in DOMAIN H : Side(H[i], H[j], H[k]) = 0
NoRepeat(H) == \A i, j \in DOMAIN H : i # j => H[i] # H[j]

\* p is inside or on the closed outline H, all of whose vertices lie on side s
\* of every edge (s = 1 or -1)
InsideOriented(H, p, s) == \A i \in DOMAIN H : s * Side(H[i], H[Succ(H, i)], p) >= 0
OnOutline(H, p) == \E i \in DOMAIN H : SegDist2Leq(p, H[i], H[Succ(H, i)], Big(0), Big(1))

\* G1
Convex(H) ==
  /\ NoRepeat(H)
  /\ \/ Len(H) < 3 \/ Collinear(H)
     \/ \E s \in {1, -1} : \A j \in DOMAIN H : InsideOriented(H, H[j], s)
\* G2
HullContains(H, p) ==
  IF H = <<>> THEN FALSE
  ELSE \/ OnOutline(H, p)
       \/ (~Collinear(H) /\ \E s \in {1, -1} : InsideOriented(H, p, s))

RangeOf(s) == {s[i] : i \in DOMAIN s}
HullUsesInput(P, H) == RangeOf(H) \subseteq RangeOf(P)
HullContainsAll(P, H) == \A i \in DOMAIN P : HullContains(H, P[i])

\* ---- slack ------------------------------------------------------------------
Abs(n) == IF n < 0 THEN -n ELSE n
RECURSIVE MaxAbs(_, _)
MaxAbs(P, i) == IF i > Len(P) THEN 0
                ELSE LET r == MaxAbs(P, i + 1)
                         a == IF Abs(P[i][1]) > Abs(P[i][2]) THEN Abs(P[i][1]) ELSE Abs(P[i][2])
                     IN IF a > r THEN a ELSE r
\* Slack in units of 1/64: 1 + M / 2^10   (= 1/64 + M / 2^16)
Slack64(P) == 1 + MaxAbs(P, 1) \div 1024

\* ---- G3: rectangle ----------------------------------------------------------
\* R: the four corners times S (integers); p times S must be inside R or within
\* Slack of its boundary.
RectContains(R, p, S, slack64) ==
  LET q == <<p[1] * S, p[2] * S>>
      num == LET k == Big(slack64 * S) IN Mul(k, k)      \* (slack * S)^2 * 64^2
  IN \/ (~Collinear(R) /\ \E s \in {1, -1} : InsideOriented(R, q, s))
     \/ \E i \in DOMAIN R : SegDist2Leq(q, R[i], R[Succ(R, i)], num, Big(4096))
RectContainsAll(P, R, S) == \A i \in DOMAIN P : RectContains(R, P[i], S, Slack64(P))

\* ---- G4: simplification -----------------------------------------------------
\* Q is a subsequence of P that keeps the first point: witnessed by strictly
\* increasing positions starting at 1 (greedy leftmost matching is complete).
RECURSIVE MatchFrom(_, _, _, _)
MatchFrom(P, Q, i, j) ==       \* can Q[j..] be matched inside P[i..] ?
  IF j > Len(Q) THEN TRUE
  ELSE IF i > Len(P) THEN FALSE
  ELSE IF P[i] = Q[j] THEN MatchFrom(P, Q, i + 1, j + 1)
  ELSE MatchFrom(P, Q, i + 1, j)
IsSubsequence(P, Q) == MatchFrom(P, Q, 1, 1)
KeepsFirst(P, Q) == P = <<>> \/ (Q # <<>> /\ Q[1] = P[1])

\* distance from p to the outline Q (closed or open) <= eps4/4 + slack64/64
NearOutline(Q, p, closed, eps4, slack64) ==
  LET k == Big(16 * eps4 + slack64)                    \* (eps + slack) * 64
      num == Mul(k, k)
      last == IF closed \/ Len(Q) = 1 THEN Len(Q) ELSE Len(Q) - 1
  IN \E i \in 1 .. last : SegDist2Leq(p, Q[i], Q[Succ(Q, i)], num, Big(4096))
\* every point of P (a fortiori every removed one) is near the outline
AllNearOutline(P, Q, closed, eps4) ==
  Q # <<>> /\ \A i \in DOMAIN P : NearOutline(Q, P[i], closed, eps4, Slack64(P))
=============================================================================
