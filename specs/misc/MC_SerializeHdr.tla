-------------------------- MODULE MC_SerializeHdr --------------------------
(* Boundary family of untrusted header numbers for C34 (spec -> impl).        *)
(* For every item size 1, 2, 4, 8 the shapes sit just below / at / above each *)
(* arithmetic boundary of the readers' computations (element count and byte   *)
(* count against 2^32, 2^63, 2^64/item size, 2^64): one huge dim, two dims    *)
(* whose product crosses, a zero dim next to huge dims (count 0, overflowing  *)
(* partial products), many dims, dims beyond 64 bits; for safetensors also    *)
(* the header-length field and data_offsets at their boundaries.  TLC checks  *)
(* that the family covers every class for every item size and that the        *)
(* contract H1-H3 never accepts a header outside class "small", then emits    *)
(* the family; the harness builds the files and reads them with the real code. *)
EXTENDS Serialize, TLC, Json, FiniteSets

VARIABLE h
ItemSizes == {1, 2, 4, 8}
L2(s) == CASE s = 1 -> 0 [] s = 2 -> 1 [] s = 4 -> 2 [] s = 8 -> 3
P(k) == WPow2(k)
W(n) == FromNat(n)
Near(w) == {WSub(w, WOne), w, WAdd(w, WOne)}
\* exponents e such that an element count of 2^e is a boundary for item size s
Exps(s) == {32 - L2(s), 32, 63 - L2(s), 63, 64 - L2(s), 64}
Rep(n, w) == [i \in 1 .. n |-> w]

Single(s) == {<<v>> : v \in UNION {Near(P(e)) : e \in Exps(s)}}
PairsAt(s, i) == UNION {{<<P(i), v>>, <<v, P(i)>>} : v \in UNION {Near(P(e - i)) : e \in {63 - L2(s), 64 - L2(s), 64}}}
Pairs(s) == UNION {PairsAt(s, i) : i \in {1, 16, 32, 33}}
Huge == {P(63), WSub(P(64), WOne), P(33)}
Zeros == UNION {{<<WZero, v>>, <<v, WZero>>, <<v, WZero, v>>, <<v, v, WZero>>, <<WZero, v, v>>, <<v, v, v, WZero, W(3)>>} : v \in Huge}
Many(s) == {Rep(n, W(2)) : n \in UNION {{e - 1, e, e + 1} : e \in {63 - L2(s), 64 - L2(s), 64}}}
             \cup {Rep(n, W(256)) : n \in {7, 8, 9}} \cup {Rep(4, P(16)), Rep(3, P(21)) \o <<W(2)>>, Rep(3, P(21)) \o <<W(3)>>}
Beyond == {<<P(64)>>, <<WAdd(P(64), WOne)>>, <<P(70)>>, <<W(2), P(64)>>, <<WZero, P(64)>>}
Small == {<<>>, <<WZero>>, <<W(3)>>, <<W(2), W(3)>>, <<W(1), W(1), W(5)>>}
Shapes(s) == Single(s) \cup Pairs(s) \cup Zeros \cup Many(s) \cup Beyond \cup Small

\* payload that follows the header: as many bytes as the WRAPPED byte count asks
\* for when that is small (so a reader whose arithmetic wraps finds what it
\* expects), else 16; and, as a second variant, none at all
WrappedBytes(dims, s) == Wrap64(WMul(Wrap64(ElemCount(dims)), W(s)))
Avails(dims, s) == LET wb == WrappedBytes(dims, s)
                       a == IF WLe(wb, W(4096)) THEN wb ELSE W(16)
                   IN {a, WZero}

\* safetensors header-length field and data_offsets variants; "kind" tells the
\* harness how to resolve a relative value against the file it builds
HLens == {[kind |-> "actual", v |-> WZero], [kind |-> "actual-1", v |-> WZero], [kind |-> "actual+1", v |-> WZero],
          [kind |-> "abs", v |-> WSub(P(64), WOne)], [kind |-> "abs", v |-> WSub(P(64), W(8))],
          [kind |-> "abs", v |-> WSub(P(64), W(9))], [kind |-> "abs", v |-> P(63)], [kind |-> "abs", v |-> WZero],
          [kind |-> "abs", v |-> P(32)]}
Offsets(B) == {<<WZero, B>>, <<B, WZero>>, <<WZero, WAdd(B, WOne)>>, <<WOne, WAdd(B, WOne)>>,
               <<WSub(P(64), WOne), WSub(B, WOne)>>, <<WSub(P(64), B), P(64)>>,
               <<WSub(WSub(P(64), WOne), B), WSub(P(64), WOne)>>, <<P(63), WAdd(P(63), B)>>,
               <<WZero, WSub(P(64), WOne)>>, <<WZero, P(64)>>, <<WSub(P(64), B), WZero>>}
ActualHLen == [kind |-> "actual", v |-> WZero]

Rec0(f, s, d, a) == [fmt |-> f, isz |-> s, dims |-> d, avail |-> a, hlen |-> ActualHLen, begin |-> WZero, end |-> a]
\* .npy, .npz members and .safetensors (data_offsets [0, payload]): every boundary shape, two payload variants
ShapeFamily(f, s) == UNION {{Rec0(f, s, d, a) : a \in Avails(d, s)} : d \in Shapes(s)}
\* .safetensors: small shape (2, 3), every header-length and data_offsets variant
OffsetFamily(s) == {[fmt |-> "safetensors", isz |-> s, dims |-> <<W(2), W(3)>>, avail |-> W(6 * s), hlen |-> hl,
                     begin |-> o[1], end |-> o[2]] : hl \in HLens, o \in Offsets(W(6 * s))}

\* two-step enumeration (format and item size first) so that TLC's workers share the family
VARIABLE stage
Seed(f, s) == [fmt |-> f, isz |-> s, dims |-> <<>>, avail |-> WZero, hlen |-> ActualHLen, begin |-> WZero, end |-> WZero]
Init == stage = 0 /\ \E f \in {"npy", "npz", "safetensors", "st-offsets"}, s \in ItemSizes : h = Seed(f, s)
Next == /\ stage = 0 /\ stage' = 1
        /\ h' \in IF h.fmt = "st-offsets" THEN OffsetFamily(h.isz) ELSE ShapeFamily(h.fmt, h.isz)

\* ---- the family covers every class, for every item size ----------------------
ClassesOf(s) == {HdrShapeClass(d, s) : d \in Shapes(s)}
Covered ==
  /\ \A s \in ItemSizes :
       {"dim_exceeds_u64", "zero_dim_partial_overflow", "elems_overflow_u64", "bytes_ge_2_63", "bytes_ge_2_32", "small"}
         \subseteq ClassesOf(s)
  /\ \A s \in {2, 4, 8} : "bytes_overflow_u64" \in ClassesOf(s)
  \* traps for wrapping arithmetic: the byte count wraps to 0 / to a small number that the payload then satisfies
  /\ \A s \in {2, 4, 8} : \E d \in Shapes(s) :
       HdrShapeClass(d, s) = "bytes_overflow_u64" /\ WrappedBytes(d, s) = WZero
  /\ \A s \in ItemSizes : \E d \in Shapes(s) :
       HdrShapeClass(d, s) = "elems_overflow_u64" /\ WLe(WrappedBytes(d, s), W(4096))
ASSUME Covered

\* ---- the contract accepts only headers whose numbers are small and consistent --
\* (the file-level numbers of safetensors are resolved by the harness; here the
\*  "actual" header length is taken as 100 bytes, which does not matter for H1-H3)
Concrete == [h EXCEPT !.hlen = IF h.hlen.kind = "abs" THEN h.hlen.v ELSE W(100)]
             @@ [flen |-> WAdd(W(108), h.avail)]
ContractSane ==
  stage = 1 =>
  LET c == Concrete IN
  \* (a zero dim makes the count 0: such headers are acceptable whatever the other dims are, if these fit)
  /\ HeaderAcceptable(c) => HdrShapeClass(c.dims, c.isz) \in {"small", "zero_dim_partial_overflow"}
  /\ HeaderAcceptable(c) => WLe(ByteCount(c.dims, c.isz), c.avail)
  /\ HeaderReadOK(c, "error") /\ ~HeaderReadOK(c, "panic") /\ ~HeaderReadOK(c, "timeout")
  /\ (~HeaderAcceptable(c)) => ~HeaderReadOK(c, "value")

Emit == stage = 1 => PrintT(<<"REPLAY", ToJson(h)>>)
=============================================================================
