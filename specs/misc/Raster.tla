------------------------------- MODULE Raster -------------------------------
(* C36 -- contract of contour tracing and of the drawing primitives of         *)
(* rten-imageproc, as executable predicates over small integer data.           *)
(*                                                                             *)
(* A mask is a sequence of h rows, each a sequence of w values; a pixel is     *)
(* <<y, x>>, 0-based; a value # 0 is foreground.                               *)
(*                                                                             *)
(* Readings fixed here (the weakest ones the statement of C36 supports):       *)
(*  R1 "adjacent to the background or image edge": some pixel of the           *)
(*     8-neighbourhood is background or lies outside the image.  (The 4-       *)
(*     neighbourhood reading is stronger; it is measured as a statistic only.) *)
(*  R2 "every foreground connected component has an outer contour": every      *)
(*     8-connected foreground component contains at least one point of some    *)
(*     traced contour -- independent of the tracer's orientation, start point  *)
(*     and of how often a pixel is repeated.  For RetrievalMode::External,     *)
(*     documented as "only the outer-most contours", the demand is restricted  *)
(*     to components that touch (4-adjacency) the background region that is    *)
(*     4-connected to the outside of the image: components enclosed in a hole  *)
(*     of another component may legitimately have no contour in that mode.     *)
(*  R3 "only modify pixels inside the image and inside the shape's bounds":    *)
(*     the set of pixels whose value changed is a subset of the image and of   *)
(*     the axis-aligned bounds of the shape inflated by the stroke width on    *)
(*     every side (Rect: top/left inclusive, bottom/right exclusive, as the    *)
(*     type documents; lines and polygons: bounding box of the vertices, both  *)
(*     ends inclusive).  A panic modifies nothing further and is not forbidden *)
(*     by the statement; it is counted, not flagged.                           *)
EXTENDS Naturals, Integers, Sequences, FiniteSets

Pixels(h, w) == (0 .. h - 1) \X (0 .. w - 1)
InImage(p, h, w) == p[1] >= 0 /\ p[1] < h /\ p[2] >= 0 /\ p[2] < w
At(m, p) == m[p[1] + 1][p[2] + 1]
Fg(m, h, w) == {p \in Pixels(h, w) : At(m, p) # 0}

D8 == {<<dy, dx>> : dy \in -1 .. 1, dx \in -1 .. 1} \ {<<0, 0>>}
D4 == {<<-1, 0>>, <<1, 0>>, <<0, -1>>, <<0, 1>>}
Nb(p, D) == {<<p[1] + d[1], p[2] + d[2]>> : d \in D}

\* Least fixpoint: the pixels of A reachable from the seed set S (S \subseteq A)
\* by steps in D that stay inside A.
RECURSIVE GrowF(_, _, _, _)
GrowF(S, fr, A, D) ==      \* fr: the pixels added in the previous round
  LET new == (UNION {Nb(p, D) : p \in fr} \cap A) \ S
  IN IF new = {} THEN S ELSE GrowF(S \cup new, new, A, D)
Grow(S, A, D) == GrowF(S, S, A, D)

\* The 8-connected components of a pixel set, as a set of sets.
RECURSIVE Comps(_)
Comps(F) ==
  IF F = {} THEN {}
  ELSE LET p == CHOOSE q \in F : TRUE
           C == Grow({p}, F, D8)
       IN {C} \cup Comps(F \ C)

\* --- contour contract -------------------------------------------------------
\* R1: p is a foreground pixel with a background / out-of-image pixel among D.
BorderPoint(m, h, w, p, D) ==
  /\ InImage(p, h, w) /\ At(m, p) # 0
  /\ \E q \in Nb(p, D) : ~InImage(q, h, w) \/ At(m, q) = 0

\* Pixels of all components that contain at least one of the points P.
Traced(F, P) == Grow(P \cap F, F, D8)

\* Background that is 4-connected to the outside of the image (computed on the
\* image padded by one background pixel on every side).
OuterBackground(F, h, w) ==
  LET PP == (-1 .. h) \X (-1 .. w)
      frame == PP \ Pixels(h, w)
  IN Grow(frame, PP \ F, D4)

\* Pixels of the components that are not enclosed by another component.
OuterMost(F, h, w) ==
  LET ob == OuterBackground(F, h, w)
  IN Grow({p \in F : Nb(p, D4) \cap ob # {}}, F, D8)

\* R2
ComponentsTraced(F, h, w, P, mode) ==
  IF mode = "external" THEN OuterMost(F, h, w) \subseteq Traced(F, P)
  ELSE Traced(F, P) = F

\* --- drawing contract (R3) --------------------------------------------------
InBox(p, y0, x0, y1, x1) == y0 <= p[1] /\ p[1] <= y1 /\ x0 <= p[2] /\ p[2] <= x1

Min2(a, b) == IF a < b THEN a ELSE b
Max2(a, b) == IF a > b THEN a ELSE b
MinOf(S) == CHOOSE a \in S : \A b \in S : a <= b
MaxOf(S) == CHOOSE a \in S : \A b \in S : a >= b
Ys(pts) == {pts[i][1] : i \in DOMAIN pts}
Xs(pts) == {pts[i][2] : i \in DOMAIN pts}

\* op: the primitive; pts: <<<<top,left>>, <<bottom,right>>>> for rectangles,
\* the two end points for a line, the vertices for a polygon; sw: stroke width.
\* Bounds = <<y0, x0, y1, x1>>, all inclusive; pts must be non-empty.
Bounds(op, pts, sw) ==
  CASE op = "fill_rect" ->
         <<pts[1][1], pts[1][2], pts[2][1] - 1, pts[2][2] - 1>>
    [] op = "stroke_rect" ->
         \* For an inverted rectangle (bottom < top or right < left; such a Rect is
         \* "empty" and the statement does not say what its bounds are) the bounds
         \* are taken over the sorted coordinates: the weakest reading.
         <<Min2(pts[1][1], pts[2][1]) - sw, Min2(pts[1][2], pts[2][2]) - sw,
           Max2(pts[1][1], pts[2][1]) - 1 + sw, Max2(pts[1][2], pts[2][2]) - 1 + sw>>
    [] op = "fill_iter" ->
         <<MinOf(Ys(pts)), MinOf(Xs(pts)), MaxOf(Ys(pts)), MaxOf(Xs(pts))>>
    [] OTHER ->   \* draw_line, draw_polygon, painter_polygon
         <<MinOf(Ys(pts)) - sw, MinOf(Xs(pts)) - sw, MaxOf(Ys(pts)) + sw, MaxOf(Xs(pts)) + sw>>
InBounds(p, b) == InBox(p, b[1], b[2], b[3], b[4])
\* a shape without vertices has no pixels
AllInShapeBounds(P, op, pts, sw) ==
  IF pts = <<>> THEN P = {} ELSE LET b == Bounds(op, pts, sw) IN \A p \in P : InBounds(p, b)

\* Position of the (un-inflated) shape relative to an h x w image: used only to
\* classify failing cases.
ShapeClass(op, pts, h, w) ==
  IF pts = <<>> THEN "empty"
  ELSE LET excl == IF op \in {"fill_rect", "stroke_rect"} THEN 1 ELSE 0
           y0 == MinOf(Ys(pts))  y1 == MaxOf(Ys(pts)) - excl
           x0 == MinOf(Xs(pts))  x1 == MaxOf(Xs(pts)) - excl
       IN IF y0 >= 0 /\ x0 >= 0 /\ y1 < h /\ x1 < w THEN "inside"
          ELSE IF y1 < 0 \/ x1 < 0 \/ y0 >= h \/ x0 >= w THEN "disjoint"
          ELSE "overlaps"

\* Degeneracy of the shape itself (classification for signatures only).
ShapeKind(op, pts) ==
  IF pts = <<>> THEN "empty"
  ELSE LET dy == MaxOf(Ys(pts)) - MinOf(Ys(pts))
           dx == MaxOf(Xs(pts)) - MinOf(Xs(pts))
       IN IF op \in {"fill_rect", "stroke_rect"} /\ (pts[2][1] < pts[1][1] \/ pts[2][2] < pts[1][2]) THEN "inverted"
          ELSE IF dy = 0 /\ dx = 0 THEN "point"
          ELSE IF dx = 0 THEN "zero_width"
          ELSE IF dy = 0 THEN "zero_height"
          ELSE "regular"
=============================================================================
