CONSTANTS Alphabet <- A4  NC = 3  D = 4  MaxT = 4  Widths = {1, 2, 3, 40}  TailLen = 9
INIT Init
NEXT Next
INVARIANTS Distinct Sound ExactWhenWide PositionsSane NoHazardWhenWide
CHECK_DEADLOCK FALSE
