CONSTANTS Alphabet <- A8q  NC = 3  D = 8  MaxT = 6  Widths = {3, 4}  TailLen = 1
INIT Init
NEXT Next
CONSTRAINT Promising
INVARIANTS Emit
CHECK_DEADLOCK FALSE
