--------------------------------- MODULE Ctc ---------------------------------
(* C39 -- exact CTC semantics with rational weights.                           *)
(*                                                                             *)
(* W is a T x C matrix (sequence of T rows) of numerators n >= 0 over a common *)
(* denominator D: the probability of label c (0 = blank, column c + 1) at time *)
(* t is W[t][c + 1] / D.  All quantities below are "scaled": probabilities     *)
(* times D^T, so they are integers.                                            *)
(*                                                                             *)
(* Readings fixed here:                                                        *)
(*  K1 greedy: "the collapsed arg-max path": SOME path that takes a label of   *)
(*     maximal probability at every step (ties may be broken either way),      *)
(*     collapsed (repeats not separated by a blank merged, blanks removed),    *)
(*     each label with the position of its first occurrence; the score is the  *)
(*     sum of the log probabilities on that path, i.e. exp(score) * D^T is the *)
(*     product of the row maxima.                                              *)
(*  K2 beam: label sequences pairwise distinct.                                *)
(*  K3 beam: every score is finite -- except that a hypothesis whose label     *)
(*     sequence has exact probability 0 may carry the exact score -infinity.   *)
(*  K4 beam: exp(score) never exceeds the exact probability of the label       *)
(*     sequence (sum over ALL alignments).                                     *)
(*  K5 beam: exp(score) equals it when the beam is at least as wide as the     *)
(*     number of distinct label sequences of length <= T over the C-1 labels   *)
(*     (then no correct search can have pruned anything).                      *)
(*  Scores are f32: the harness logs round(exp(score) * D^T * 2^10); K1, K4,   *)
(*  K5 allow the relative slack 2^-10 plus one unit of that rounding.          *)
EXTENDS Naturals, Integers, Sequences, FiniteSets, FiniteSetsExt

Blank == 0
Paths(T, C) == [1 .. T -> 0 .. C - 1]

\* Collapse an alignment: steps <<label, position (0-based) of first occurrence>>
RECURSIVE CollapseFrom(_, _, _)
CollapseFrom(pi, t, last) ==
  IF t > Len(pi) THEN <<>>
  ELSE LET c == pi[t] IN
       IF c = last \/ c = Blank THEN CollapseFrom(pi, t + 1, c)
       ELSE <<<<c, t - 1>>>> \o CollapseFrom(pi, t + 1, c)
Collapse(pi) == CollapseFrom(pi, 1, Blank)
LabelsOf(steps) == [i \in DOMAIN steps |-> steps[i][1]]

RECURSIVE PathWeightFrom(_, _, _)
PathWeightFrom(W, pi, t) == IF t > Len(pi) THEN 1 ELSE W[t][pi[t] + 1] * PathWeightFrom(W, pi, t + 1)
PathWeight(W, pi) == PathWeightFrom(W, pi, 1)

\* The definition: scaled probability of label sequence l = sum over all
\* alignments that collapse to l of the product of their weights.
SeqProb(W, C, l) ==
  MapThenSumSet(LAMBDA pi : IF LabelsOf(Collapse(pi)) = l THEN PathWeight(W, pi) ELSE 0,
                Paths(Len(W), C))

\* The same quantity by the CTC forward recursion over the blank-extended label
\* sequence (MC_Ctc checks Forward = SeqProb on every small matrix; the trace
\* spec uses it for matrices too large for enumerating C^T alignments).
Ext(l) == [s \in 1 .. 2 * Len(l) + 1 |-> IF s % 2 = 1 THEN Blank ELSE l[s \div 2]]
RECURSIVE Alpha(_, _, _, _)
Alpha(W, x, t, s) ==     \* scaled probability of the alignments of W[1..t] that end in state s of x
  IF s < 1 THEN 0
  ELSE IF t = 0 THEN 0
  ELSE IF t = 1 THEN (IF s <= 2 THEN W[1][x[s] + 1] ELSE 0)
  ELSE LET skip == IF s > 2 /\ x[s] # Blank /\ x[s] # x[s - 2] THEN Alpha(W, x, t - 1, s - 2) ELSE 0
       IN (Alpha(W, x, t - 1, s) + Alpha(W, x, t - 1, s - 1) + skip) * W[t][x[s] + 1]
Forward(W, l) ==
  LET x == Ext(l)  T == Len(W)  S == Len(x)
  IN IF T = 0 THEN (IF l = <<>> THEN 1 ELSE 0)
     ELSE Alpha(W, x, T, S) + (IF S > 1 THEN Alpha(W, x, T, S - 1) ELSE 0)

\* ---- greedy ------------------------------------------------------------------
RowMax(r) == CHOOSE m \in {r[i] : i \in DOMAIN r} : \A i \in DOMAIN r : r[i] <= m
ArgMaxSet(r) == {c \in 0 .. Len(r) - 1 : r[c + 1] = RowMax(r)}
RECURSIVE ArgMaxFrom(_, _)
ArgMaxFrom(W, t) == IF t > Len(W) THEN {<<>>}
                    ELSE {<<c>> \o rest : c \in ArgMaxSet(W[t]), rest \in ArgMaxFrom(W, t + 1)}
\* all paths that take a label of maximal weight at every step
ArgMaxPaths(W, C) == ArgMaxFrom(W, 1)
RECURSIVE MaxProdFrom(_, _)
MaxProdFrom(W, t) == IF t > Len(W) THEN 1 ELSE RowMax(W[t]) * MaxProdFrom(W, t + 1)
MaxProd(W) == MaxProdFrom(W, 1)

\* ---- score comparison ---------------------------------------------------------
\* logged = round(exp(score) * D^T * 1024); exact = scaled probability (integer)
\* logged <= exact * 2^10 * (1 + 2^-10) + 1   and   logged >= exact * 2^10 * (1 - 2^-10) - 1
\* (exact <= 2^20, so every operand stays below 2^31)
LeqAbove(logged, exact) == logged <= exact * 1024 + exact + 1
GeqBelow(logged, exact) == logged + 1 >= exact * 1024 - exact

\* number of distinct label sequences of length <= T over C - 1 labels
RECURSIVE Pow(_, _)
Pow(b, n) == IF n = 0 THEN 1 ELSE b * Pow(b, n - 1)
RECURSIVE NumLabelSeqs(_, _)
NumLabelSeqs(T, C) == IF T = 0 THEN 1 ELSE Pow(C - 1, T) + NumLabelSeqs(T - 1, C)

\* exact scaled probability, by the definition when the alignments are few
Prob(W, C, l) == IF Pow(C, Len(W)) <= 300 THEN SeqProb(W, C, l) ELSE Forward(W, l)

AllLabelSeqs(T, C) == UNION {[1 .. n -> 1 .. C - 1] : n \in 0 .. T}
=============================================================================
