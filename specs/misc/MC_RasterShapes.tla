-------------------------- MODULE MC_RasterShapes --------------------------
(* Generator of the shape-coordinate grid for the drawing primitives          *)
(* (spec -> impl), and sanity checks of the bounds predicate R3.              *)
(* A shape is built vertex by vertex; complete shapes are emitted.            *)
EXTENDS Raster, TLC, Json

CONSTANTS RectCoords,   \* coordinates used for rectangles and lines (2 points)
          PolyCoords,   \* coordinates used for triangles
          QuadCoords    \* coordinates used for quadrilaterals (incl. self-intersecting)
VARIABLES kind, pts
vars == <<kind, pts>>

\* coordinate sets for the cfg files (a cfg cannot contain negative numbers);
\* the harness draws on a 5 x 7 image, so all of them reach outside on every side
RQ == {-3, -1, 0, 2, 4, 6, 9}
PQ == {-3, 0, 4, 9}
QQ == {-2, 5}
RT == -3 .. 9
PT == {-3, -1, 0, 3, 6, 9}
QT == {-2, 2, 8}

Need(k) == CASE k \in {"rect", "line"} -> 2 [] k = "tri" -> 3 [] k = "quad" -> 4
CoordsOf(k) == CASE k \in {"rect", "line"} -> RectCoords [] k = "tri" -> PolyCoords [] k = "quad" -> QuadCoords

Init == kind \in {"rect", "line", "tri", "quad"} /\ pts = <<>>
Next == /\ Len(pts) < Need(kind) /\ kind' = kind
        /\ \E y \in CoordsOf(kind), x \in CoordsOf(kind) : pts' = Append(pts, <<y, x>>)

Complete == Len(pts) = Need(kind)
OpsOf(k) == IF k = "rect" THEN {"fill_rect", "stroke_rect"}
            ELSE IF k = "line" THEN {"draw_line"}
            ELSE {"draw_polygon", "painter_polygon", "fill_iter"}

BoxIn(a, b) == b[1] <= a[1] /\ b[2] <= a[2] /\ a[3] <= b[3] /\ a[4] <= b[4]
\* R3 bounds: monotone in the stroke width, contain the shape's own vertices
\* (lines, polygons) resp. exactly the pixels of the Rect, and agree with the
\* classification used in signatures.
BoundsSane ==
  Complete =>
    \A op \in OpsOf(kind) :
      LET b0 == Bounds(op, pts, 0) IN
      /\ \A sw \in 1 .. 3 : BoxIn(b0, Bounds(op, pts, sw)) /\ BoxIn(Bounds(op, pts, sw - 1), Bounds(op, pts, sw))
      /\ op \notin {"fill_rect", "stroke_rect"} => \A i \in DOMAIN pts : InBounds(pts[i], b0)
      /\ op = "fill_rect" => b0 = <<pts[1][1], pts[1][2], pts[2][1] - 1, pts[2][2] - 1>>
      /\ AllInShapeBounds({<<b0[1], b0[2]>>, <<b0[3], b0[4]>>}, op, pts, 0) = (b0[1] <= b0[3] /\ b0[2] <= b0[4])
      /\ ~AllInShapeBounds({<<b0[3] + 1, b0[4]>>}, op, pts, 0) /\ ~AllInShapeBounds({<<b0[1], b0[2] - 1>>}, op, pts, 0)
      \* classification: "disjoint" boxes share no pixel with the 5 x 7 image, "inside" boxes lie in it
      /\ ShapeClass(op, pts, 5, 7) = "disjoint" => (b0[3] < 0 \/ b0[4] < 0 \/ b0[1] >= 5 \/ b0[2] >= 7)
      /\ ShapeClass(op, pts, 5, 7) = "inside" => (b0[1] >= 0 /\ b0[2] >= 0 /\ b0[3] < 5 /\ b0[4] < 7)

\* Polygons of zero width and non-zero height make the real Polygon::fill_iter
\* spin for about 2^32 steps per scan line (found by this check; reported as a
\* timeout outcome).  Every such case costs the harness a watchdog timeout, so
\* only a few representatives are replayed: those whose first Fixed vertices sit
\* in the corner of the coordinate grid.
CONSTANT Fixed
Cmin == CHOOSE a \in CoordsOf(kind) : \A b \in CoordsOf(kind) : a <= b
ZeroWidth == /\ kind \in {"tri", "quad"}
             /\ \A i \in DOMAIN pts : pts[i][2] = pts[1][2]
             /\ \E i \in DOMAIN pts : pts[i][1] # pts[1][1]
Replayed == ZeroWidth => \A i \in 1 .. Fixed : pts[i] = <<Cmin, Cmin>>

Emit == (Complete /\ Replayed) =>
          PrintT(<<"REPLAY", ToJson([kind |-> IF kind \in {"tri", "quad"} THEN "poly" ELSE kind, pts |-> pts])>>)
=============================================================================
