INIT Init
NEXT Next
INVARIANTS ContractSane Emit
CHECK_DEADLOCK FALSE
