------------------------------- MODULE BigInt -------------------------------
(* Exact signed integers beyond TLC's 32-bit range.                            *)
(* A big integer is a record [s |-> sign in {-1,0,1}, m |-> magnitude], the    *)
(* magnitude being a little-endian sequence of base-2^15 limbs without         *)
(* leading (most significant) zero limbs; zero is [s |-> 0, m |-> <<>>].       *)
(* Limb products stay below 2^30 and every intermediate below 2^31.            *)
EXTENDS Naturals, Integers, Sequences

Base == 32768

RECURSIVE NatLimbs(_)
NatLimbs(n) == IF n = 0 THEN <<>> ELSE <<n % Base>> \o NatLimbs(n \div Base)

\* from a native integer, |n| < 2^31
Big(n) == IF n = 0 THEN [s |-> 0, m |-> <<>>]
          ELSE IF n > 0 THEN [s |-> 1, m |-> NatLimbs(n)]
          ELSE [s |-> -1, m |-> NatLimbs(-n)]

RECURSIVE Strip(_)
Strip(m) == IF m = <<>> THEN m
            ELSE IF m[Len(m)] = 0 THEN Strip(SubSeq(m, 1, Len(m) - 1)) ELSE m

Limb(m, i) == IF i <= Len(m) THEN m[i] ELSE 0
MaxLen(a, b) == IF Len(a) > Len(b) THEN Len(a) ELSE Len(b)

\* magnitude comparison: -1, 0, 1
RECURSIVE CmpFrom(_, _, _)
CmpFrom(a, b, i) == IF i = 0 THEN 0
                    ELSE IF a[i] < b[i] THEN -1
                    ELSE IF a[i] > b[i] THEN 1
                    ELSE CmpFrom(a, b, i - 1)
CmpMag(a, b) == IF Len(a) < Len(b) THEN -1
                ELSE IF Len(a) > Len(b) THEN 1
                ELSE CmpFrom(a, b, Len(a))

RECURSIVE AddFrom(_, _, _, _, _)
AddFrom(a, b, i, n, carry) ==
  IF i > n THEN (IF carry = 0 THEN <<>> ELSE <<carry>>)
  ELSE LET t == Limb(a, i) + Limb(b, i) + carry
       IN <<t % Base>> \o AddFrom(a, b, i + 1, n, t \div Base)
AddMag(a, b) == AddFrom(a, b, 1, MaxLen(a, b), 0)

\* a - b for magnitudes with a >= b
RECURSIVE SubFrom(_, _, _, _)
SubFrom(a, b, i, borrow) ==
  IF i > Len(a) THEN <<>>
  ELSE LET t == a[i] - Limb(b, i) - borrow
       IN IF t < 0 THEN <<t + Base>> \o SubFrom(a, b, i + 1, 1)
          ELSE <<t>> \o SubFrom(a, b, i + 1, 0)
SubMag(a, b) == Strip(SubFrom(a, b, 1, 0))

\* magnitude times one limb d (0 <= d < Base)
RECURSIVE MulLimbFrom(_, _, _, _)
MulLimbFrom(a, d, i, carry) ==
  IF i > Len(a) THEN (IF carry = 0 THEN <<>> ELSE <<carry>>)
  ELSE LET t == a[i] * d + carry
       IN <<t % Base>> \o MulLimbFrom(a, d, i + 1, t \div Base)

RECURSIVE MulFrom(_, _, _)
\* a * (b[i..]) ; shifting by one limb = prepending a zero limb
MulFrom(a, b, i) ==
  IF i > Len(b) THEN <<>>
  ELSE LET rest == MulFrom(a, b, i + 1)
           sh == IF rest = <<>> THEN <<>> ELSE <<0>> \o rest
       IN AddMag(MulLimbFrom(a, b[i], 1, 0), sh)
MulMag(a, b) == IF a = <<>> \/ b = <<>> THEN <<>> ELSE Strip(MulFrom(a, b, 1))

Neg(x) == [s |-> -x.s, m |-> x.m]
Add(x, y) ==
  IF x.s = 0 THEN y ELSE IF y.s = 0 THEN x
  ELSE IF x.s = y.s THEN [s |-> x.s, m |-> AddMag(x.m, y.m)]
  ELSE LET c == CmpMag(x.m, y.m)
       IN IF c = 0 THEN [s |-> 0, m |-> <<>>]
          ELSE IF c > 0 THEN [s |-> x.s, m |-> SubMag(x.m, y.m)]
          ELSE [s |-> y.s, m |-> SubMag(y.m, x.m)]
Sub(x, y) == Add(x, Neg(y))
Mul(x, y) == IF x.s = 0 \/ y.s = 0 THEN [s |-> 0, m |-> <<>>]
             ELSE [s |-> x.s * y.s, m |-> MulMag(x.m, y.m)]
Sign(x) == x.s
\* -1, 0, 1 as x < y, x = y, x > y
Cmp(x, y) == Sign(Sub(x, y))
Leq(x, y) == Cmp(x, y) <= 0

\* back to a native integer (only for values known to be small)
RECURSIVE MagVal(_, _)
MagVal(m, i) == IF i > Len(m) THEN 0 ELSE m[i] + Base * MagVal(m, i + 1)
Val(x) == x.s * MagVal(x.m, 1)
=============================================================================
