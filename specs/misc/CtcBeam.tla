------------------------------ MODULE CtcBeam ------------------------------
(* C39 -- the CTC prefix beam search itself as a state machine, with exact    *)
(* integer arithmetic (probabilities scaled by D^t), the pruning step         *)
(* explicit.  One step consumes one row of the input matrix.                  *)
(*                                                                            *)
(*   beam : set of [labs, pos, pb, pnb]  -- label prefix, positions of first  *)
(*          occurrence, scaled probability of the alignments of the rows so   *)
(*          far that collapse to labs and end in a blank (pb) / a label (pnb) *)
(*                                                                            *)
(* Two uses:                                                                  *)
(*  - model checking (MC_CtcBeam_mc.cfg): this implementation-shaped search   *)
(*    refines the contract of Ctc.tla -- label prefixes distinct (K2), every  *)
(*    score <= the exact probability by the forward recursion (K4), equality  *)
(*    when the beam is at least as wide as the number of label sequences (K5);*)
(*  - generation (MC_CtcBeam_gen*.cfg): TLC searches the input matrices, row  *)
(*    by row over a small alphabet of exact distributions, for runs in which  *)
(*    a prefix S is PRUNED while a longer prefix S+x and S's parent stay in   *)
(*    the beam, S is RE-CREATED later (so its recorded positions differ from  *)
(*    the ones stored inside S+x) and then EXTENDED by x while the old S+x is *)
(*    still in the beam: the step that must merge two states whose label      *)
(*    prefixes agree but whose positions do not (`Hazard`).  Such histories   *)
(*    need narrow beams and >= 4 rows and are practically never sampled at    *)
(*    random; the matrices are emitted and replayed on the real decoder.      *)
EXTENDS Ctc, TLC, Json

CONSTANTS Alphabet,   \* set of rows: C positive numerators summing to D
          NC, D,      \* number of columns (labels incl. blank), denominator
          MaxT, Widths,
          TailLen        \* how many more rows are explored after the first hazard
VARIABLES W, K, beam, hzAt, amb
vars == <<W, K, beam, hzAt, amb>>

Labs(b) == {s.labs : s \in b}
Front(l) == SubSeq(l, 1, Len(l) - 1)
Last(l) == l[Len(l)]
Tot(s) == s.pb + s.pnb

\* probability mass that extending state s by label c contributes to prefix s.labs \o <<c>>
ExtMass(s, c, r) == (IF s.labs # <<>> /\ Last(s.labs) = c THEN s.pb ELSE s.pb + s.pnb) * r[c + 1]

\* all candidate states after consuming row r at position t (0-based); states
\* that produce the same label prefix are merged, an existing state keeps its positions
Candidates(b, r, t) ==
  LET ls == Labs(b) \cup {Append(s.labs, c) : s \in b, c \in 1 .. NC - 1}
      Cand(l) ==
        LET self == {s \in b : s.labs = l}
            par == IF l = <<>> THEN {} ELSE {s \in b : s.labs = Front(l)}
            sumSelfB == IF self = {} THEN 0 ELSE LET s == CHOOSE x \in self : TRUE IN Tot(s) * r[1]
            sumSelfN == IF self = {} \/ l = <<>> THEN 0 ELSE LET s == CHOOSE x \in self : TRUE IN s.pnb * r[Last(l) + 1]
            sumPar == IF par = {} THEN 0 ELSE LET s == CHOOSE x \in par : TRUE IN ExtMass(s, Last(l), r)
            ps == IF self # {} THEN (CHOOSE x \in self : TRUE).pos
                  ELSE Append((CHOOSE x \in par : TRUE).pos, t)
        IN [labs |-> l, pos |-> ps, pb |-> sumSelfB, pnb |-> sumSelfN + sumPar]
  IN {x \in {Cand(l) : l \in ls} : Tot(x) > 0}

\* the K most probable candidates; a tie at the cut makes the choice implementation defined
Better(cs, x) == Cardinality({y \in cs : Tot(y) > Tot(x)})
TopK(cs, k) == {x \in cs : Better(cs, x) < k}
TieAtCut(cs, k) == Cardinality(TopK(cs, k)) > k

\* the merge that needs care: two states whose label prefixes agree (s2 = s1 + one label) but whose
\* recorded positions do not -- s1 was pruned and re-created after s2 had been built from the old s1
Hazard(b) == \E s1, s2 \in b :
               /\ Len(s2.labs) = Len(s1.labs) + 1 /\ Front(s2.labs) = s1.labs
               /\ SubSeq(s2.pos, 1, Len(s1.pos)) # s1.pos

Init == /\ W = <<>> /\ K \in Widths /\ hzAt = 0 /\ amb = FALSE
        /\ beam = {[labs |-> <<>>, pos |-> <<>>, pb |-> 1, pnb |-> 0]}
Step(r) == LET t == Len(W)
               cs == Candidates(beam, r, t)
           IN /\ W' = Append(W, r) /\ K' = K
              /\ beam' = TopK(cs, K)
              /\ amb' = (amb \/ TieAtCut(cs, K))
              /\ hzAt' = IF hzAt = 0 /\ Hazard(beam) THEN t + 1 ELSE hzAt
Next == /\ Len(W) < MaxT /\ ~amb
        /\ (hzAt = 0 \/ Len(W) < hzAt + TailLen)
        /\ \E r \in Alphabet : Step(r)

\* ---- search guidance: a branch is worth extending only if the beam holds a "ghost": a prefix whose
\* parent prefix was pruned (while the grand-parent is still there to re-create it), or a hazard already happened
Ghost(b) == \E s2 \in b : /\ Len(s2.labs) >= 1 /\ Front(s2.labs) \notin Labs(b)
                          /\ (Len(s2.labs) = 1 \/ Front(Front(s2.labs)) \in Labs(b))
Promising == Len(W) < 2 \/ hzAt > 0 \/ Ghost(beam) \/ Hazard(beam)

\* ---- the search refines the contract (model checking) ------------------------------------------------
Distinct == \A s1, s2 \in beam : s1.labs = s2.labs => s1 = s2                                    \* K2
Sound == \A s \in beam : Tot(s) <= Forward(W, s.labs)                                              \* K4
ExactWhenWide == K >= NumLabelSeqs(Len(W), NC) => \A s \in beam : Tot(s) = Forward(W, s.labs)      \* K5
PositionsSane == \A s \in beam : /\ Len(s.pos) = Len(s.labs)
                                 /\ \A i \in DOMAIN s.pos : s.pos[i] < Len(W) /\ (i > 1 => s.pos[i - 1] < s.pos[i])
\* hazards need pruning: they never occur when nothing can be pruned
NoHazardWhenWide == K >= NumLabelSeqs(MaxT, NC) => hzAt = 0

\* ---- generation: every input whose run contains the hazardous merge, with the width that produces it
\* and a width at which nothing is pruned (control, exact scores demanded there)
Emit == (hzAt > 0 /\ ~amb) =>
          PrintT(<<"REPLAY", ToJson([T |-> Len(W), C |-> NC, D |-> D, w |-> W,
                                     beams |-> <<K, NumLabelSeqs(Len(W), NC)>>, hazard_at |-> hzAt])>>)
=============================================================================
