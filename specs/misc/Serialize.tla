------------------------------ MODULE Serialize ------------------------------
(* C34 -- a tensor file as a small state machine.                              *)
(*                                                                             *)
(*   Write(entries)  the file now holds the named tensors, intact              *)
(*   Corrupt         arbitrary bytes are changed: the file is no longer intact *)
(*   Read            returns Value(entries) or Error                           *)
(*                                                                             *)
(* Contract (the statement of C34):                                            *)
(*  S1 a read of an intact file returns a value that holds exactly the         *)
(*     tensors written: shape, element type and elements (bit patterns);       *)
(*  S2 a read of any file returns a value or an error: it never panics,        *)
(*     aborts or hangs.                                                        *)
(*  (S2 is refined for numbers read from untrusted headers by H1-H4 below.)    *)
(* A tensor is [dtype, shape, elems]; elems are bit patterns (limb sequences   *)
(* in traces, opaque here).  Entry names are sequences of code points; an .npz *)
(* archive documents that one trailing ".npy" of a name is dropped.            *)
(* Names are not part of S1 beyond identifying which tensor is which: S1       *)
(* compares the set of tensors; a changed key is counted, not flagged.         *)
EXTENDS Naturals, Sequences, FiniteSets, Word

Outcomes == {"value", "error", "panic", "abort", "timeout"}

\* S2
Returns(outcome) == outcome \in {"value", "error"}

Tensors(entries) == {entries[i].tensor : i \in DOMAIN entries}
\* S1 for a whole-file read
ReadAllOK(written, outcome, got) == outcome = "value" /\ Tensors(got) = Tensors(written)
\* S1 for reading one named entry
ReadOneOK(written, name, outcome, got) ==
  /\ outcome = "value" /\ Len(got) = 1
  /\ \E i \in DOMAIN written : written[i].name = name /\ written[i].tensor = got[1].tensor

\* ---- untrusted header numbers (exact arithmetic over Word limbs) ---------------
\* The readers compute, from numbers found in the file, an element count (product
\* of the shape dims), a byte count (element count x item size) and - for
\* safetensors - header and data offsets.  Whatever the machine arithmetic does
\* (wrap, saturate, trap), S2 demands value-or-error, and a VALUE may be returned
\* only if, in exact arithmetic, the numbers describe the bytes that are there:
\*  H1 every dim, the element count and the byte count fit in 64 bits;
\*  H2 .npy (also as a member of an .npz): byte count <= payload bytes that follow
\*     the header (trailing bytes are tolerated, as numpy does);
\*  H3 .safetensors: 8 + header length <= file length, begin <= end <= length of
\*     the data section (file length - 8 - header length), byte count = end - begin;
\*  H4 the value returned has exactly the shape and element type of the header.
\* A header is [fmt, isz (item size), dims, avail] plus, for safetensors,
\* [hlen, begin, end, flen]; all numbers are Words.
RECURSIVE WProdFrom(_, _)
WProdFrom(dims, i) == IF i > Len(dims) THEN WOne ELSE WMul(dims[i], WProdFrom(dims, i + 1))
ElemCount(dims) == WProdFrom(dims, 1)
ByteCount(dims, isz) == WMul(ElemCount(dims), FromNat(isz))
DimsFit(dims) == \A i \in DOMAIN dims : Fits64(dims[i])
CountsFit(h) == DimsFit(h.dims) /\ Fits64(ElemCount(h.dims)) /\ Fits64(ByteCount(h.dims, h.isz))   \* H1
NpyAcceptable(h) == CountsFit(h) /\ WLe(ByteCount(h.dims, h.isz), h.avail)                          \* H1, H2
StAcceptable(h) ==                                                                                    \* H1, H3
  /\ CountsFit(h)
  /\ WLe(WAdd(FromNat(8), h.hlen), h.flen)
  /\ WLe(h.begin, h.end)
  /\ WLe(WAdd(WAdd(FromNat(8), h.hlen), h.end), h.flen)
  /\ ByteCount(h.dims, h.isz) = WSub(h.end, h.begin)
HeaderAcceptable(h) == IF h.fmt = "safetensors" THEN StAcceptable(h) ELSE NpyAcceptable(h)
\* what a reader may answer to a crafted header: never a panic; a value only if acceptable
HeaderReadOK(h, outcome) == Returns(outcome) /\ (outcome = "value" => HeaderAcceptable(h))
\* product of the non-zero dims (a zero dim makes the count 0 although partial products may overflow)
RECURSIVE WProdNZFrom(_, _)
WProdNZFrom(dims, i) == IF i > Len(dims) THEN WOne
                        ELSE IF dims[i] = WZero THEN WProdNZFrom(dims, i + 1)
                        ELSE WMul(dims[i], WProdNZFrom(dims, i + 1))
\* classification of the shape numbers (used to generate boundary families and in signatures)
HdrShapeClass(dims, isz) ==
  IF ~DimsFit(dims) THEN "dim_exceeds_u64"
  ELSE IF ElemCount(dims) = WZero /\ ~Fits64(WProdNZFrom(dims, 1)) THEN "zero_dim_partial_overflow"
  ELSE IF ~Fits64(ElemCount(dims)) THEN "elems_overflow_u64"
  ELSE IF ~Fits64(ByteCount(dims, isz)) THEN "bytes_overflow_u64"
  ELSE IF ~WLt(ByteCount(dims, isz), WPow2(63)) THEN "bytes_ge_2_63"
  ELSE IF ~WLt(ByteCount(dims, isz), WPow2(32)) THEN "bytes_ge_2_32"
  ELSE "small"

Npy == <<46, 110, 112, 121>>     \* ".npy"
HasSuffix(s, suf) == Len(s) >= Len(suf) /\ SubSeq(s, Len(s) - Len(suf) + 1, Len(s)) = suf
\* the key under which an entry is documented to come back
ExpectedKey(fmt, name) ==
  IF fmt = "npz" /\ HasSuffix(name, Npy) THEN SubSeq(name, 1, Len(name) - 4) ELSE name
KeysPreserved(fmt, written, got) ==
  {ExpectedKey(fmt, written[i].name) : i \in DOMAIN written} = {got[i].name : i \in DOMAIN got}
=============================================================================
