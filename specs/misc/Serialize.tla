------------------------------ MODULE Serialize ------------------------------
(* C34 -- a tensor file as a small state machine.                              *)
(*                                                                             *)
(*   Write(entries)  the file now holds the named tensors, intact              *)
(*   Corrupt         arbitrary bytes are changed: the file is no longer intact *)
(*   Read            returns Value(entries) or Error                           *)
(*                                                                             *)
(* Contract (the statement of C34):                                            *)
(*  S1 a read of an intact file returns a value that holds exactly the         *)
(*     tensors written: shape, element type and elements (bit patterns);       *)
(*  S2 a read of any file returns a value or an error: it never panics,        *)
(*     aborts or hangs.                                                        *)
(* A tensor is [dtype, shape, elems]; elems are bit patterns (limb sequences   *)
(* in traces, opaque here).  Entry names are sequences of code points; an .npz *)
(* archive documents that one trailing ".npy" of a name is dropped.            *)
(* Names are not part of S1 beyond identifying which tensor is which: S1       *)
(* compares the set of tensors; a changed key is counted, not flagged.         *)
EXTENDS Naturals, Sequences, FiniteSets

Outcomes == {"value", "error", "panic", "abort", "timeout"}

\* S2
Returns(outcome) == outcome \in {"value", "error"}

Tensors(entries) == {entries[i].tensor : i \in DOMAIN entries}
\* S1 for a whole-file read
ReadAllOK(written, outcome, got) == outcome = "value" /\ Tensors(got) = Tensors(written)
\* S1 for reading one named entry
ReadOneOK(written, name, outcome, got) ==
  /\ outcome = "value" /\ Len(got) = 1
  /\ \E i \in DOMAIN written : written[i].name = name /\ written[i].tensor = got[1].tensor

Npy == <<46, 110, 112, 121>>     \* ".npy"
HasSuffix(s, suf) == Len(s) >= Len(suf) /\ SubSeq(s, Len(s) - Len(suf) + 1, Len(s)) = suf
\* the key under which an entry is documented to come back
ExpectedKey(fmt, name) ==
  IF fmt = "npz" /\ HasSuffix(name, Npy) THEN SubSeq(name, 1, Len(name) - 4) ELSE name
KeysPreserved(fmt, written, got) ==
  {ExpectedKey(fmt, written[i].name) : i \in DOMAIN written} = {got[i].name : i \in DOMAIN got}
=============================================================================
