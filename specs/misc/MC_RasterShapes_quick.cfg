CONSTANTS RectCoords <- RQ  PolyCoords <- PQ  QuadCoords <- QQ  Fixed = 2
INIT Init
NEXT Next
INVARIANTS BoundsSane Emit
CHECK_DEADLOCK FALSE
