---------------------------- MODULE Trace_Raster ----------------------------
(* Trace validation for C36: what the real find_contours / drawing            *)
(* primitives did is judged against the Raster contract (R1-R3).              *)
(*   cmask {h, w, mask, mode, layout, src}   then  cret {outcome, msg, contours}   *)
(*   dcase {op, h, w, pts, sw}               then  dret {outcome, msg, changed}    *)
EXTENDS TraceLib, Raster

VARIABLES l, nbad, k, cnt
\* cnt: <<contour cases, draw cases, draw panics, contour points, contour points
\*        that are not 4-adjacent to background/edge (stronger reading, informational)>>

NoCase == [ev |-> "none"]
Init == l = 1 /\ nbad = NoBad /\ k = NoCase /\ cnt = <<0, 0, 0, 0, 0>>

e == Rec[l]

Case == /\ e.ev \in {"cmask", "dcase"} /\ k' = e /\ UNCHANGED <<nbad, cnt>>

CSig(pred) == [api |-> "find_contours", mode |-> k.mode, pred |-> pred]
ContourRet ==
  /\ e.ev = "cret" /\ k.ev = "cmask" /\ k' = k
  /\ LET F == Fg(k.mask, k.h, k.w)
         P == UNION {Range(e.contours[i]) : i \in DOMAIN e.contours}
         rec == [case |-> k, ret |-> e]
         b1 == Flag(nbad, e.outcome = "ok", CSig("panic"), rec)
         \* R1 every traced point is a foreground pixel next to background or the edge
         b2 == Flag(b1, \A p \in P : BorderPoint(k.mask, k.h, k.w, p, D8), CSig("point_not_on_border"), rec)
         \* R2 every (outer-most, in external mode) component carries a contour point
         b3 == Flag(b2, e.outcome = "ok" => ComponentsTraced(F, k.h, k.w, P, k.mode),
                    CSig("component_without_contour"), rec)
     IN /\ nbad' = b3
        /\ cnt' = [cnt EXCEPT ![1] = @ + 1, ![4] = @ + Cardinality(P),
                              ![5] = @ + Cardinality({p \in P \cap F : ~BorderPoint(k.mask, k.h, k.w, p, D4)})]

WidthClass(sw) == IF sw = 0 THEN "w0" ELSE IF sw = 1 THEN "w1" ELSE "wide"
DSig(pred) == [api |-> k.op, sw |-> WidthClass(k.sw), pred |-> pred,
               pos |-> ShapeClass(k.op, k.pts, k.h, k.w), shape |-> ShapeKind(k.op, k.pts)]
DrawRet ==
  /\ e.ev = "dret" /\ k.ev = "dcase" /\ k' = k
  /\ LET ch == Range(e.changed)
         rec == [case |-> k, ret |-> e]
         \* R3, whether or not the call panicked part-way
         b1 == Flag(nbad, k.op = "fill_iter" \/ \A p \in ch : InImage(p, k.h, k.w), DSig("outside_image"), rec)
         b2 == Flag(b1, AllInShapeBounds(ch, k.op, k.pts, k.sw), DSig("outside_shape_bounds"), rec)
     IN /\ nbad' = b2
        /\ cnt' = [cnt EXCEPT ![2] = @ + 1, ![3] = @ + (IF e.outcome = "ok" THEN 0 ELSE 1)]

Next == /\ l <= NRec /\ l' = l + 1 /\ (Case \/ ContourRet \/ DrawRet)

Report == l = NRec + 1 =>
            /\ ReportBad(nbad)
            /\ Stat("contour_cases", cnt[1]) /\ Stat("draw_cases", cnt[2])
            /\ Stat("draw_panics", cnt[3]) /\ Stat("contour_points", cnt[4])
            /\ Stat("points_not_4adjacent", cnt[5])
=============================================================================
