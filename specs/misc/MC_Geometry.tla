---------------------------- MODULE MC_Geometry ----------------------------
(* Model checking of the Geometry contract on EVERY point sequence of up to   *)
(* MaxN points in a G x G grid (duplicates and collinear sets included), and  *)
(* generation of those sequences as test vectors for the real code.           *)
EXTENDS Geometry, TLC, Json

CONSTANTS G, MaxN
VARIABLE pts

Init == pts = <<>>
Next == /\ Len(pts) < MaxN
        /\ \E x \in 0 .. G - 1, y \in 0 .. G - 1 : pts' = Append(pts, <<x, y>>)

\* ---- BigInt agrees with native arithmetic where the latter is possible, and
\* satisfies ring identities on operands far beyond 32 bits.
NCross(a, b, p) == (b[1] - a[1]) * (p[2] - a[2]) - (b[2] - a[2]) * (p[1] - a[1])
NDot(a, b, p) == (b[1] - a[1]) * (p[1] - a[1]) + (b[2] - a[2]) * (p[2] - a[2])
BigAgrees ==
  \A i, j, k \in DOMAIN pts :
    /\ Val(Cross(pts[i], pts[j], pts[k])) = NCross(pts[i], pts[j], pts[k])
    /\ Val(Dot(pts[i], pts[j], pts[k])) = NDot(pts[i], pts[j], pts[k])

Pow(x, n) == IF n = 1 THEN x ELSE IF n = 2 THEN Mul(x, x) ELSE Mul(Mul(x, x), x)
BigIdentities ==
  \A a \in {Big(2147483647), Big(-2147483647), Big(32768), Big(32767), Big(-1), Big(0),
            Pow(Big(1073741789), 3), Neg(Pow(Big(65535), 3))} :
  \A b \in {Big(2147483646), Big(-32768), Big(1), Big(0), Pow(Big(2147483629), 2)} :
    /\ Mul(Add(a, b), Sub(a, b)) = Sub(Mul(a, a), Mul(b, b))
    /\ Add(a, b) = Add(b, a) /\ Mul(a, b) = Mul(b, a)
    /\ Sub(Add(a, b), b) = a
    /\ Cmp(a, b) = -Cmp(b, a)
    /\ (Cmp(a, b) > 0) = (Sign(Sub(a, b)) = 1)
    /\ Mul(Pow(a, 2), b) = Mul(a, Mul(a, b))
ASSUME BigIdentities
ASSUME Val(Mul(Big(46341), Big(-46340))) = -2147441940 /\ Val(Big(-2147483647)) = -2147483647

\* ---- reference hull (gift wrapping, exact): witnesses that the hull contract
\* is satisfiable, and that it is not vacuous.
S == RangeOf(pts)
LexMin == CHOOSE p \in S : \A q \in S : p[1] < q[1] \/ (p[1] = q[1] /\ p[2] <= q[2])
Between(a, q, r) == Sign(Dot(a, q, r)) >= 0 /\ Leq(Dot(a, q, r), Dist2(a, q))
WrapNext(cur) == CHOOSE q \in S \ {cur} :
                   \A r \in S : Side(cur, q, r) >= 0 /\ (Side(cur, q, r) = 0 => Between(cur, q, r))
RECURSIVE March(_, _)
March(cur, acc) == LET nxt == WrapNext(cur) IN
                   IF nxt = LexMin THEN acc ELSE March(nxt, Append(acc, nxt))
RefHull == IF S = {} THEN <<>>
           ELSE IF Cardinality(S) = 1 THEN <<LexMin>>
           ELSE March(LexMin, <<LexMin>>)
Without(H, i) == SubSeq(H, 1, i - 1) \o SubSeq(H, i + 1, Len(H))

HullSatisfiable ==
  LET H == RefHull IN
  /\ Convex(H) /\ HullUsesInput(pts, H) /\ HullContainsAll(pts, H)
  /\ \A i \in DOMAIN H : ~HullContainsAll(pts, Without(H, i))     \* every vertex is needed
  /\ (Len(H) >= 4 /\ ~Collinear(H)) =>                             \* a crossed outline is not convex
        ~Convex(<<H[2], H[1]>> \o SubSeq(H, 3, Len(H)))

\* ---- rectangle: the bounding box contains every point, a shifted one does not
BBox(d) == LET xs == {p[1] : p \in S} ys == {p[2] : p \in S}
               x0 == CHOOSE a \in xs : \A b \in xs : a <= b   x1 == CHOOSE a \in xs : \A b \in xs : a >= b
               y0 == CHOOSE a \in ys : \A b \in ys : a <= b   y1 == CHOOSE a \in ys : \A b \in ys : a >= b
           IN <<<<x0 + d, y0>>, <<x1 + d, y0>>, <<x1 + d, y1>>, <<x0 + d, y1>>>>
RectSatisfiable ==
  pts # <<>> => /\ RectContainsAll(pts, BBox(0), 1)
                /\ RectContainsAll(pts, [i \in 1 .. 4 |-> <<BBox(0)[i][1] * 16, BBox(0)[i][2] * 16>>], 16)
                /\ ~RectContainsAll(pts, BBox(1), 1)

\* ---- simplification: keeping everything is always allowed; keeping only the
\* first point is allowed exactly when every point is within epsilon (+ slack)
SimplifySatisfiable ==
  pts # <<>> =>
    /\ IsSubsequence(pts, pts) /\ KeepsFirst(pts, pts)
    /\ AllNearOutline(pts, pts, TRUE, 0) /\ AllNearOutline(pts, pts, FALSE, 0)
    /\ AllNearOutline(pts, <<pts[1]>>, TRUE, 8 * G)
    /\ AllNearOutline(pts, <<pts[1]>>, FALSE, 0) = (S = {pts[1]})
    /\ (Len(pts) >= 2 /\ pts[2] # pts[1]) => ~IsSubsequence(pts, <<pts[2], pts[1]>>) \/ pts[1] \in RangeOf(SubSeq(pts, 3, Len(pts)))

Emit == PrintT(<<"REPLAY", ToJson([pts |-> pts])>>)
=============================================================================
