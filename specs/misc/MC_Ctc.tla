------------------------------- MODULE MC_Ctc -------------------------------
(* Model checking of the CTC semantics on EVERY matrix with T <= MaxT rows,   *)
(* C in Cs columns and row numerators summing to D, and generation of those   *)
(* matrices as test vectors (spec -> impl).                                   *)
EXTENDS Ctc, TLC, Json

CONSTANTS MaxTOf,   \* function: number of columns C |-> largest T explored for that C
          D
VARIABLES C, W
Cs == DOMAIN MaxTOf
QuickT == (2 :> 3) @@ (3 :> 3)
ThoroughT == (1 :> 4) @@ (2 :> 5) @@ (3 :> 4) @@ (4 :> 2)
vars == <<C, W>>

RowSum(r) == LET RECURSIVE S(_) S(i) == IF i > Len(r) THEN 0 ELSE r[i] + S(i + 1) IN S(1)
Rows(c) == {r \in [1 .. c -> 0 .. D] : RowSum(r) = D}

Init == C \in Cs /\ W = <<>>
\* To keep the deepest level affordable, the 4th row of a 3-column matrix is
\* drawn from the rows whose blank weight is 1/4 or 2/4 (7 of the 15 rows).
RowsAt(c, t) == IF c = 3 /\ t = 4 THEN {r \in Rows(c) : r[1] \in {1, 2}} ELSE Rows(c)
Next == /\ Len(W) < MaxTOf[C] /\ C' = C
        /\ \E r \in RowsAt(C, Len(W) + 1) : W' = Append(W, r)

T == Len(W)
\* every alignment collapses to exactly one label sequence: total mass D^T
TotalMass ==
  MapThenSumSet(LAMBDA l : SeqProb(W, C, l), AllLabelSeqs(T, C)) = Pow(D, T)
\* the forward recursion computes the definition
ForwardAgrees == \A l \in AllLabelSeqs(T, C) : Forward(W, l) = SeqProb(W, C, l)
\* Collapse produces only sequences counted by NumLabelSeqs, strictly increasing positions
CollapseSane ==
  /\ Cardinality(AllLabelSeqs(T, C)) = NumLabelSeqs(T, C)
  /\ \A pi \in Paths(T, C) :
       LET s == Collapse(pi) IN
       /\ LabelsOf(s) \in AllLabelSeqs(T, C)
       /\ \A i \in DOMAIN s : pi[s[i][2] + 1] = s[i][1] /\ (i > 1 => s[i - 1][2] < s[i][2])
\* greedy: the arg-max path's weight never exceeds the probability of its label sequence
GreedySane ==
  /\ ArgMaxPaths(W, C) # {}
  /\ ArgMaxPaths(W, C) = {pi \in Paths(T, C) : \A t \in DOMAIN W : W[t][pi[t] + 1] = RowMax(W[t])}
  /\ \A pi \in ArgMaxPaths(W, C) :
       PathWeight(W, pi) = MaxProd(W) /\ MaxProd(W) <= SeqProb(W, C, LabelsOf(Collapse(pi)))
\* slack comparisons: exact value accepted, a value 1% off rejected
SlackSane ==
  \A l \in AllLabelSeqs(T, C) :
    LET p == SeqProb(W, C, l) IN
    /\ LeqAbove(p * 1024, p) /\ GeqBelow(p * 1024, p)
    /\ p > 0 => ~LeqAbove(p * 1024 + p * 11 + 2, p) /\ ~GeqBelow(p * 1024 - p * 11 - 2, p)

Emit == PrintT(<<"REPLAY", ToJson([T |-> T, C |-> C, D |-> D, w |-> W])>>)
=============================================================================
