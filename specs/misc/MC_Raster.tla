----------------------------- MODULE MC_Raster -----------------------------
(* Model checking of the Raster contract operators over EVERY mask up to      *)
(* MaxH x MaxW, and generation of those masks as test vectors for the real    *)
(* find_contours (spec -> impl).                                              *)
EXTENDS Raster, TLC, Json

CONSTANTS MaxH, MaxW
VARIABLES h, w, mask
vars == <<h, w, mask>>

\* Masks are built row by row, so that every reachable state is one mask
\* (h = number of rows so far) and every mask up to MaxH x MaxW is reached once.
Init == h = 0 /\ w \in 0 .. MaxW /\ mask = <<>>
Next == /\ h < MaxH /\ h' = h + 1 /\ w' = w
        /\ \E row \in [1 .. w -> {0, 1}] : mask' = Append(mask, row)

F == Fg(mask, h, w)
Border(D) == {p \in F : BorderPoint(mask, h, w, p, D)}

\* The component operator yields a partition of the foreground into maximal
\* 8-connected sets.
CompsPartition ==
  LET cs == Comps(F) IN
  /\ UNION cs = F
  /\ \A c \in cs : c # {} /\ \A d \in cs : c = d \/ c \cap d = {}
  /\ \A c \in cs : \A p \in c : Nb(p, D8) \cap F \subseteq c

\* The contract is satisfiable, under both readings of "adjacent": every
\* component contains a border point, so the contour made of all border points
\* of a mask is accepted in both modes.
Satisfiable ==
  /\ \A c \in Comps(F) : c \cap Border(D4) # {}
  /\ Border(D4) \subseteq Border(D8)
  /\ ComponentsTraced(F, h, w, Border(D8), "list")
  /\ ComponentsTraced(F, h, w, Border(D4), "external")

\* Outer-most pixels form a union of components, non-empty for non-empty masks,
\* and the external demand is never stronger than the list demand.
OuterMostSane ==
  LET om == OuterMost(F, h, w) IN
  /\ om \subseteq F /\ (F # {} => om # {})
  /\ \A c \in Comps(F) : c \subseteq om \/ c \cap om = {}
  /\ \A P \in {Border(D8), {}, F} :
        ComponentsTraced(F, h, w, P, "list") => ComponentsTraced(F, h, w, P, "external")

\* A contour that misses a component is rejected (the contract is not vacuous).
NotVacuous ==
  \A c \in Comps(F) : ~ComponentsTraced(F, h, w, F \ c, "list")

Emit == PrintT(<<"REPLAY", ToJson([h |-> h, w |-> w, mask |-> mask])>>)
=============================================================================
