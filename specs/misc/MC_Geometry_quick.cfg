CONSTANTS G = 3  MaxN = 4
INIT Init
NEXT Next
INVARIANTS BigAgrees HullSatisfiable RectSatisfiable SimplifySatisfiable Emit
CHECK_DEADLOCK FALSE
