----------------------------- MODULE MC_CtcBeam -----------------------------
EXTENDS CtcBeam
\* alphabets of exact distributions over (blank, label 1, label 2); all weights positive
A8 == {<<6, 1, 1>>, <<1, 6, 1>>, <<1, 1, 6>>, <<4, 3, 1>>, <<4, 1, 3>>, <<1, 4, 3>>, <<1, 3, 4>>, <<2, 3, 3>>, <<3, 1, 4>>, <<3, 4, 1>>}
\* the six rows of A8 that take part in most hazardous runs (measured), for the quick tier
A8q == {<<1, 1, 6>>, <<1, 6, 1>>, <<2, 3, 3>>, <<1, 3, 4>>, <<1, 4, 3>>, <<3, 4, 1>>}
A4 == {<<2, 1, 1>>, <<1, 2, 1>>, <<1, 1, 2>>}
=============================================================================
