------------------------------ MODULE Trace_Ctc ------------------------------
(* Trace validation for C39: hypotheses returned by the real CtcDecoder are   *)
(* judged against the exact CTC semantics of Ctc.tla (K1-K5).                 *)
(*   ccase {api, T, C, D, w, beam, nbest, layout, src}                        *)
(*   cret  {outcome, msg, hyps: [{labels, pos, cls, score}]}                  *)
(*   api: greedy | beam (decode_beam) | beam_nbest (decode_beam_nbest)        *)
(*   cls: fin | neginf | posinf | nan | huge ; score = round(exp(s)*D^T*2^10) *)
EXTENDS TraceLib, Ctc

VARIABLES l, nbad, k, cnt   \* cnt: <<greedy cases, beam cases, hypotheses judged, beam cases wide enough for K5>>

NoCase == [ev |-> "none"]
Init == l = 1 /\ nbad = NoBad /\ k = NoCase /\ cnt = <<0, 0, 0, 0>>
e == Rec[l]

Case == e.ev = "ccase" /\ k' = e /\ UNCHANGED <<nbad, cnt>>

StepsOf(h) == [i \in DOMAIN h.labels |-> <<h.labels[i], h.pos[i]>>]
Wide == k.beam >= NumLabelSeqs(k.T, k.C)
\* Failing-case class (evaluated only for failing cases): is the beam wider than
\* the number of label sequences that have non-zero probability after some
\* prefix W[1..t] of the input, i.e. wider than the set of live candidates a
\* search that has pruned nothing can hold at that step?
LiveCandidates(t) ==
  LET Wt == SubSeq(k.w, 1, t)
  IN Cardinality({ls \in AllLabelSeqs(t, k.C) : Forward(Wt, ls) > 0})
RECURSIVE ExceedsFrom(_)
ExceedsFrom(t) == IF t > k.T THEN FALSE ELSE k.beam > LiveCandidates(t) \/ ExceedsFrom(t + 1)
Sig(pred) == [api |-> k.api, pred |-> pred,
              beam |-> IF k.api = "greedy" THEN "none"
                       ELSE IF k.beam > k.C \/ ExceedsFrom(1) THEN "exceeds_live_candidates"
                       ELSE "within_live_candidates"]

Ret ==
  /\ e.ev = "cret" /\ k.ev = "ccase" /\ k' = k
  /\ LET W == k.w
         H == e.hyps
         rec == [case |-> k, ret |-> e]
         ok == e.outcome = "ok"
         b0 == Flag(nbad, ok, Sig("panic"), rec)
     IN
     IF k.api = "greedy" THEN
       LET h == H[1]
           \* K1
           okPath == ok => (Len(H) = 1 /\ \E pi \in ArgMaxPaths(W, k.C) : Collapse(pi) = StepsOf(h))
           okScore == ok => (h.cls = "fin" /\ LeqAbove(h.score, MaxProd(W)) /\ GeqBelow(h.score, MaxProd(W)))
           b1 == Flag(b0, okPath, Sig("not_collapsed_argmax_path"), rec)
           b2 == Flag(b1, okScore, Sig("score_not_sum_of_logprobs"), rec)
       IN nbad' = b2 /\ cnt' = [cnt EXCEPT ![1] = @ + 1, ![3] = @ + 1]
     ELSE
       LET exact == [i \in DOMAIN H |-> Prob(W, k.C, H[i].labels)]
           \* K2
           b1 == Flag(b0, \A i, j \in DOMAIN H : i # j => H[i].labels # H[j].labels, Sig("duplicate_label_sequences"), rec)
           \* K3
           b2 == Flag(b1, \A i \in DOMAIN H : H[i].cls = "fin" \/ (H[i].cls = "neginf" /\ exact[i] = 0),
                      Sig("score_not_finite"), rec)
           \* K4
           b3 == Flag(b2, \A i \in DOMAIN H : H[i].cls = "fin" => LeqAbove(H[i].score, exact[i]),
                      Sig("score_exceeds_exact_probability"), rec)
           \* K5
           b4 == Flag(b3, Wide => \A i \in DOMAIN H : H[i].cls = "fin" => GeqBelow(H[i].score, exact[i]),
                      Sig("score_not_exact_without_pruning"), rec)
       IN nbad' = b4 /\ cnt' = [cnt EXCEPT ![2] = @ + 1, ![3] = @ + Len(H), ![4] = @ + (IF Wide THEN 1 ELSE 0)]

Next == /\ l <= NRec /\ l' = l + 1 /\ (Case \/ Ret)

Report == l = NRec + 1 =>
            /\ ReportBad(nbad)
            /\ Stat("greedy_cases", cnt[1]) /\ Stat("beam_cases", cnt[2])
            /\ Stat("hypotheses", cnt[3]) /\ Stat("beam_cases_nothing_pruned", cnt[4])
=============================================================================
