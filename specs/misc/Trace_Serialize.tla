-------------------------- MODULE Trace_Serialize --------------------------
(* Trace validation for C34: the store state machine of Serialize.tla is      *)
(* followed event by event (sequential style within a case) and every read    *)
(* of the real rten-serialize readers is judged by S1 / S2.                   *)
(*   scase {idx, fmt, via_file}                                               *)
(*   sop {op}                        the operation about to run (flushed)     *)
(*   swrite {entries, outcome, msg, nbytes}                                   *)
(*   sread {how: all|one, name, outcome, msg, entries}                        *)
(*   scorrupt {what, nbytes}                                                  *)
(*   sdone | slost {outcome: timeout|abort}   (worker killed while in `sop`)  *)
EXTENDS TraceLib, Serialize

VARIABLES l, nbad, fmt, cidx, file, pending, cnt
\* file: [present, entries, intact]; pending: the op announced by the last sop
\* cnt: <<cases, intact reads, corrupted reads, corrupted reads that returned a value, keys changed, write errors>>

Absent == [present |-> FALSE, entries |-> <<>>, intact |-> FALSE]
Init == l = 1 /\ nbad = NoBad /\ fmt = "" /\ cidx = 0 /\ file = Absent /\ pending = "" /\ cnt = <<0, 0, 0, 0, 0, 0>>
e == Rec[l]

DType(entries) == IF Len(entries) = 0 THEN "none" ELSE entries[1].tensor.dtype
\* "__metadata__" is the key the safetensors format reserves for its metadata map
MetadataName == <<95, 95, 109, 101, 116, 97, 100, 97, 116, 97, 95, 95>>
NameClass == IF file.present /\ \E i \in DOMAIN file.entries : file.entries[i].name = MetadataName
             THEN "has___metadata__" ELSE "ordinary"
Sig(pred, state) == [fmt |-> fmt, pred |-> pred, file |-> state, names |-> NameClass]

Case == /\ e.ev = "scase" /\ fmt' = e.fmt /\ cidx' = e.idx /\ file' = Absent /\ pending' = ""
        /\ cnt' = [cnt EXCEPT ![1] = @ + 1] /\ UNCHANGED nbad
Op == e.ev = "sop" /\ pending' = e.op /\ UNCHANGED <<nbad, fmt, cidx, file, cnt>>

Write ==
  /\ e.ev = "swrite" /\ pending' = "" /\ UNCHANGED <<fmt, cidx>>
  /\ file' = IF e.outcome = "ok" THEN [present |-> TRUE, entries |-> e.entries, intact |-> TRUE] ELSE Absent
  \* writing must not panic either; an error from the writer is counted, not flagged
  /\ nbad' = Flag(nbad, e.outcome # "panic", Sig("write_panics", "none"), [idx |-> cidx, write |-> e])
  /\ cnt' = [cnt EXCEPT ![6] = @ + (IF e.outcome = "error" THEN 1 ELSE 0)]

Corrupt == /\ e.ev = "scorrupt" /\ file.present /\ file' = [file EXCEPT !.intact = FALSE]
           /\ pending' = "" /\ UNCHANGED <<nbad, fmt, cidx, cnt>>

Read ==
  /\ e.ev = "sread" /\ file.present /\ pending' = "" /\ UNCHANGED <<fmt, cidx, file>>
  /\ LET rec == [idx |-> cidx, read |-> e, written |-> file.entries, intact |-> file.intact]
         st == IF file.intact THEN "intact" ELSE "corrupted"
         b1 == Flag(nbad, Returns(e.outcome), Sig("read_panics", st), rec)                     \* S2
         b2 == Flag(b1, file.intact => IF e.how = "all" THEN ReadAllOK(file.entries, e.outcome, e.entries)
                                       ELSE ReadOneOK(file.entries, e.name, e.outcome, e.entries),
                    Sig(IF e.outcome = "value" THEN "read_back_differs" ELSE "read_back_fails", st), rec)   \* S1
     IN /\ nbad' = b2
        /\ cnt' = [cnt EXCEPT
              ![2] = @ + (IF file.intact THEN 1 ELSE 0),
              ![3] = @ + (IF file.intact THEN 0 ELSE 1),
              ![4] = @ + (IF ~file.intact /\ e.outcome = "value" THEN 1 ELSE 0),
              ![5] = @ + (IF file.intact /\ e.how = "all" /\ e.outcome = "value" /\ fmt # "npy"
                             /\ ~KeysPreserved(fmt, file.entries, e.entries) THEN 1 ELSE 0)]

Done == e.ev = "sdone" /\ pending' = "" /\ UNCHANGED <<nbad, fmt, cidx, file, cnt>>
\* the worker was killed (hang) or died (abort) while running the pending operation
Lost == /\ e.ev = "slost" /\ pending' = "" /\ UNCHANGED <<fmt, cidx, file, cnt>>
        /\ nbad' = Flag(nbad, FALSE,
                        Sig(IF pending = "write" THEN "write_" \o e.outcome ELSE "read_" \o e.outcome,
                            IF ~file.present THEN "none" ELSE IF file.intact THEN "intact" ELSE "corrupted"),
                        [idx |-> cidx, lost |-> e, pending |-> pending])

Next == /\ l <= NRec /\ l' = l + 1 /\ (Case \/ Op \/ Write \/ Corrupt \/ Read \/ Done \/ Lost)

Report == l = NRec + 1 =>
            /\ ReportBad(nbad)
            /\ Stat("cases", cnt[1]) /\ Stat("intact_reads", cnt[2]) /\ Stat("corrupted_reads", cnt[3])
            /\ Stat("corrupted_reads_returning_value", cnt[4]) /\ Stat("keys_changed", cnt[5])
            /\ Stat("write_errors", cnt[6])
=============================================================================
