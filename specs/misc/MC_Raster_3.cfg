CONSTANTS MaxH = 3  MaxW = 3
INIT Init
NEXT Next
INVARIANTS CompsPartition Satisfiable OuterMostSane NotVacuous Emit
CHECK_DEADLOCK FALSE
