CONSTANTS MaxN = 5  MaxN1 = 2  MaxLimit = 8  MaxOverlap = 5  Build = TRUE
INIT Init
NEXT Next
INVARIANTS DoneIsOk UnsatNeverDone RefIsOk Covered SizeBound
CHECK_DEADLOCK FALSE
