CONSTANTS K = 2  MaxLen = 6  MaxMerges = 3  AnyOrder = TRUE
INIT Init
NEXT Next
INVARIANTS TypeOK ExpandInv Progress TerminalIsRef GranularityAgree NoMergeLeft Emit
CHECK_DEADLOCK FALSE
