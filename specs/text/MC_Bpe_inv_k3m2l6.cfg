CONSTANTS K = 3  MaxLen = 6  MaxMerges = 2  AnyOrder = TRUE
INIT Init
NEXT Next
INVARIANTS TypeOK ExpandInv Progress TerminalIsRef GranularityAgree NoMergeLeft
CHECK_DEADLOCK FALSE
