CONSTANTS MaxN = 14  MaxN1 = 3  MaxLimit = 18  MaxOverlap = 10  Build = FALSE
INIT Init
NEXT Next
INVARIANTS RefIsOk Emit
CHECK_DEADLOCK FALSE
