CONSTANTS MaxBytes = 3
INIT Init
NEXT Next
INVARIANTS ComposeOk ComposableNeeded
CHECK_DEADLOCK FALSE
