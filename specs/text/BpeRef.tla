------------------------------ MODULE BpeRef ------------------------------
(* Reference semantics of Byte Pair Encoding merging (C28, C27).           *)
(* A symbol is a small integer (a byte, or an abstract letter 1..K); a     *)
(* piece is a non-empty sequence of symbols; a token sequence is a         *)
(* sequence of pieces; a merge table is a sequence of pairs <<x, y>> of    *)
(* pieces, the index in the table being the rank (1 = lowest = first).     *)
EXTENDS Naturals, Integers, Sequences, FiniteSets

Cat(p) == p[1] \o p[2]                      \* piece produced by merge entry p

\* Initial tokenisation: one piece per input symbol.
Singles(input) == [i \in 1..Len(input) |-> <<input[i]>>]

\* Expand(tokens): the symbols the token sequence stands for.
RECURSIVE Expand(_)
Expand(t) == IF t = <<>> THEN <<>> ELSE Head(t) \o Expand(Tail(t))

\* Rank of the adjacent pair (x, y); 0 = not in the table.  Tables hold
\* distinct pairs, so the rank is unique.
RankOf(m, x, y) ==
  IF \E i \in DOMAIN m : m[i] = <<x, y>> THEN CHOOSE i \in DOMAIN m : m[i] = <<x, y>> ELSE 0

\* Ranks of all adjacent pairs present in t that the table can merge.
PresentRanks(m, t) == {RankOf(m, t[i], t[i + 1]) : i \in 1..(Len(t) - 1)} \ {0}
CanMerge(m, t) == PresentRanks(m, t) # {}
MinOf(S) == CHOOSE r \in S : \A q \in S : r <= q
LowestPair(m, t) == m[MinOf(PresentRanks(m, t))]

\* Merge every non-overlapping occurrence of (x, y), scanning left to right.
RECURSIVE MergeAllOcc(_, _, _)
MergeAllOcc(t, x, y) ==
  IF Len(t) < 2 THEN t
  ELSE IF t[1] = x /\ t[2] = y THEN <<x \o y>> \o MergeAllOcc(SubSeq(t, 3, Len(t)), x, y)
  ELSE <<t[1]>> \o MergeAllOcc(Tail(t), x, y)

\* Merge only the leftmost occurrence of (x, y).
RECURSIVE MergeFirstOcc(_, _, _)
MergeFirstOcc(t, x, y) ==
  IF Len(t) < 2 THEN t
  ELSE IF t[1] = x /\ t[2] = y THEN <<x \o y>> \o SubSeq(t, 3, Len(t))
  ELSE <<t[1]>> \o MergeFirstOcc(Tail(t), x, y)

(* One step of the reference procedure.  The property text ("repeatedly    *)
(* merges the lowest-ranked adjacent pair (left to right among equal       *)
(* pairs) until no merge applies") admits two granularities:               *)
(*   "one": a step merges ONE occurrence - the leftmost occurrence of the  *)
(*          lowest-ranked pair present - and ranks are re-evaluated;       *)
(*   "all": a step merges all non-overlapping occurrences of the lowest-   *)
(*          ranked pair present, left to right, then ranks are re-evaluated*)
(* MC_Bpe checks that both reach the same terminal state for every table   *)
(* whose entries only use symbols and products of EARLIER entries          *)
(* (WellOrdered, what BPE training produces); they can differ on other     *)
(* tables, where the conformance check accepts either (weakest reading).   *)
Step(mode, m, t) ==
  LET p == LowestPair(m, t) IN
  IF mode = "one" THEN MergeFirstOcc(t, p[1], p[2]) ELSE MergeAllOcc(t, p[1], p[2])

RECURSIVE Run(_, _, _)
Run(mode, m, t) == IF CanMerge(m, t) THEN Run(mode, m, Step(mode, m, t)) ELSE t

\* The reference result for an input symbol sequence.
Ref(mode, m, input) == Run(mode, m, Singles(input))

Products(m) == {Cat(m[i]) : i \in DOMAIN m}
ProductsBefore(m, i) == {Cat(m[j]) : j \in 1..(i - 1)}
IsSingle(x) == Len(x) = 1
\* every component is a symbol or the product of some entry (what Bpe::new needs
\* when the vocabulary is derived from the merge list)
Closed(m) == \A i \in DOMAIN m : \A c \in 1..2 : IsSingle(m[i][c]) \/ m[i][c] \in Products(m)
WellOrdered(m) == \A i \in DOMAIN m : \A c \in 1..2 : IsSingle(m[i][c]) \/ m[i][c] \in ProductsBefore(m, i)
Distinct(m) == \A i, j \in DOMAIN m : i # j => m[i] # m[j]

\* Every piece of t is in the vocabulary derived from the table.
InVocab(m, t) == \A i \in DOMAIN t : IsSingle(t[i]) \/ t[i] \in Products(m)
=============================================================================
