----------------------------- MODULE MC_OffsetMap -----------------------------
(* Design-level check of the OffsetMap contract on abstract texts: a text is *)
(* a sequence of character lengths; only boundaries matter.  Checks that the *)
(* contract composes (what Sequence relies on) and records the one gap:      *)
(* the contract allows an offset equal to the length of the stage input (the *)
(* end boundary, e.g. Replace inserting at the end), which Compose cannot    *)
(* index - ComposableNeeded is the witness.                                  *)
EXTENDS Naturals, Integers, Sequences, FiniteSets, TLC

CONSTANTS MaxBytes    \* texts of at most MaxBytes bytes, characters of 1..3 bytes

RECURSIVE Sum(_)
Sum(s) == IF s = <<>> THEN 0 ELSE Head(s) + Sum(Tail(s))
RECURSIVE Texts(_)
Texts(n) == {<<>>} \cup (IF n = 0 THEN {} ELSE {<<c>> \o t : c \in 1..3, t \in Texts(n - 1)})
AllTexts == {t \in Texts(MaxBytes) : Sum(t) <= MaxBytes}
Bounds(t) == {Sum(SubSeq(t, 1, i)) : i \in 0..Len(t)}         \* character boundaries incl. 0 and the end
NBytes(t) == Sum(t)
Mono(m) == \A i \in 1..(Len(m) - 1) : m[i] <= m[i + 1]
\* maps from a text of nb bytes into text a that satisfy the contract
OkMaps(a, nb) == {m \in [1..nb -> Bounds(a)] : Mono(m)}
Composable(m1, m2) == \A j \in DOMAIN m2 : m2[j] < Len(m1)
Compose(m1, m2) == [j \in DOMAIN m2 |-> m1[m2[j] + 1]]

VARIABLES a, b, nc, m1, m2
Init == /\ a \in AllTexts /\ b \in AllTexts /\ nc \in 0..MaxBytes
        /\ m1 \in OkMaps(a, NBytes(b)) /\ m2 \in OkMaps(b, nc)
Next == UNCHANGED <<a, b, nc, m1, m2>>

\* the contract is closed under composition wherever the composition is defined
ComposeOk == Composable(m1, m2) => (LET m == Compose(m1, m2) IN (\A j \in DOMAIN m : m[j] \in Bounds(a)) /\ Mono(m))
\* a contract-conforming stage map may use the end boundary, which is then not composable
ComposableNeeded == (\A j \in DOMAIN m2 : m2[j] # NBytes(b)) => Composable(m1, m2)
=============================================================================
