CONSTANTS MaxN = 6  MaxN1 = 2  MaxLimit = 10  MaxOverlap = 7  Build = TRUE
INIT Init
NEXT Next
INVARIANTS DoneIsOk UnsatNeverDone RefIsOk Covered SizeBound
CHECK_DEADLOCK FALSE
