CONSTANTS MaxN = 7  MaxN1 = 2  MaxLimit = 9  MaxOverlap = 6  Build = FALSE
INIT Init
NEXT Next
INVARIANTS RefIsOk Emit
CHECK_DEADLOCK FALSE
