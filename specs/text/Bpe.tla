-------------------------------- MODULE Bpe --------------------------------
(* BPE merging as a state machine (C28; invariant ExpandInv is the core of  *)
(* the C27 round trip).  One behaviour = one (merge table, input, mode).    *)
EXTENDS BpeRef, TLC

CONSTANTS K,          \* alphabet = 1..K
          MaxLen,     \* inputs: all strings over the alphabet of length 0..MaxLen
          MaxMerges,  \* tables: all closed tables of 0..MaxMerges distinct pairs
          AnyOrder    \* TRUE: every permutation of a well-ordered table; FALSE: well-ordered only

VARIABLES merges, input, tokens, mode, steps
vars == <<merges, input, tokens, mode, steps>>

Alphabet == 1..K
RECURSIVE Strings(_)
Strings(n) == IF n = 0 THEN {<<>>} ELSE {<<>>} \cup {<<a>> \o s : a \in Alphabet, s \in Strings(n - 1)}

\* Well-ordered tables of exactly n entries: each entry pairs symbols and
\* products of earlier entries, and is not already in the table.
RECURSIVE WellTables(_)
WellTables(n) ==
  IF n = 0 THEN {<<>>}
  ELSE UNION { LET toks == {<<a>> : a \in Alphabet} \cup Products(t) IN
               {Append(t, <<x, y>>) : <<x, y>> \in {p \in toks \X toks : \A i \in DOMAIN t : t[i] # p}}
             : t \in WellTables(n - 1) }
Perms(n) == {f \in [1..n -> 1..n] : \A i, j \in 1..n : i # j => f[i] # f[j]}
Tables(n) == IF AnyOrder THEN {[i \in 1..n |-> t[f[i]]] : t \in WellTables(n), f \in Perms(n)}
             ELSE WellTables(n)
AllTables == UNION {Tables(n) : n \in 0..MaxMerges}

Init == /\ merges \in AllTables
        /\ input \in Strings(MaxLen)
        /\ mode \in {"one", "all"}
        /\ tokens = Singles(input)
        /\ steps = 0

\* The only action: merge the lowest-ranked adjacent pair that is present.
MergeStep == /\ CanMerge(merges, tokens)
             /\ tokens' = Step(mode, merges, tokens)
             /\ steps' = steps + 1
             /\ UNCHANGED <<merges, input, mode>>

Next == MergeStep
Spec == Init /\ [][Next]_vars

Terminal == ~CanMerge(merges, tokens)

\* ---- invariants ----
TypeOK == Distinct(merges) /\ Closed(merges) /\ InVocab(merges, tokens)
ExpandInv == Expand(tokens) = input                       \* merging never changes the bytes
Progress == Len(tokens) + steps <= Len(input)             \* every step removes >= 1 token: termination
TerminalIsRef == Terminal => tokens = Ref(mode, merges, input)   \* machine = pure reference function
\* both granularities agree on well-ordered tables (checked in the initial states)
GranularityAgree == (steps = 0 /\ WellOrdered(merges)) => Ref("one", merges, input) = Ref("all", merges, input)
\* no pair of the terminal state is mergeable (the "until no merge applies" clause)
NoMergeLeft == Terminal => \A i \in 1..(Len(tokens) - 1) : RankOf(merges, tokens[i], tokens[i + 1]) = 0
=============================================================================
