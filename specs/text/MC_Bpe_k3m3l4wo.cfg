CONSTANTS K = 3  MaxLen = 4  MaxMerges = 3  AnyOrder = FALSE
INIT Init
NEXT Next
INVARIANTS TypeOK ExpandInv Progress TerminalIsRef GranularityAgree NoMergeLeft Emit
CHECK_DEADLOCK FALSE
