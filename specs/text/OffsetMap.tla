------------------------------ MODULE OffsetMap ------------------------------
(* Contract of Normalizer::normalize's offset map (C30).                     *)
(*   src     bytes of the input text (well-formed UTF-8)                     *)
(*   norm    bytes of the normalized text                                    *)
(*   off     the reported map: off[j] = source byte offset (0-based) of      *)
(*           normalized byte j (1-based position j, i.e. byte offset j-1)    *)
EXTENDS Utf8

LenOk(norm, off) == Len(off) = Len(norm)            \* every normalized byte position has an offset
Utf8Ok(norm) == WellFormed(norm)                    \* "the normalized text is valid UTF-8"
\* "a source byte offset that is a character boundary in the input" (the end of the input is a boundary)
BoundaryOk(src, off) == \A j \in DOMAIN off : IsBoundary(src, off[j])
MonotoneOk(off) == NonDecreasing(off)               \* "non-decreasing along the normalized text"
MapOk(src, norm, off) == LenOk(norm, off) /\ Utf8Ok(norm) /\ BoundaryOk(src, off) /\ MonotoneOk(off)

\* Positions whose offset is not a boundary, and the failing-case class used in signatures:
\* "bytewise_inside_char" = each such position is a continuation byte that was copied from the source
\* and mapped to its own (interior) source position.
BadPositions(src, off) == {j \in DOMAIN off : ~IsBoundary(src, off[j])}
BoundaryClass(src, norm, off) ==
  IF \A j \in BadPositions(src, off) :
       /\ j <= Len(norm) /\ off[j] >= 0 /\ off[j] < Len(src)
       /\ IsCont(norm[j]) /\ norm[j] = src[off[j] + 1]
  THEN "bytewise_inside_char" ELSE "other"

(* Composition as Sequence::normalize does it: stage 2 maps positions of its *)
(* output C to offsets in its input B, stage 1 maps positions of B to        *)
(* offsets in A; the composed map is m1[m2[j]] with the OFFSET m2[j] used as *)
(* a 0-based index into m1.                                                  *)
Composable(m1, m2) == \A j \in DOMAIN m2 : m2[j] >= 0 /\ m2[j] < Len(m1)
Compose(m1, m2) == [j \in DOMAIN m2 |-> m1[m2[j] + 1]]
=============================================================================
