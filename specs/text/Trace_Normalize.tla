---------------------------- MODULE Trace_Normalize ----------------------------
(* Trace validation for C30: every (normalizer configuration, text) run on   *)
(* the real rten_text normalizers is judged by the OffsetMap contract, with  *)
(* the character boundaries of the source and the UTF-8 structure of the     *)
(* normalized bytes computed here from the logged bytes.                     *)
EXTENDS TraceLib, OffsetMap

VARIABLES l, nbad, k, ncase, njudged, nerror, nchanged, nmultibyte

e == Rec[l]
NoCase == [ev |-> "none"]

Bytewise == {"bert_noop", "replace"}        \* stages that copy unmatched bytes with the identity map
\* normalizer class used in signatures
Kind == IF k.top # "sequence" THEN k.top
        ELSE IF \A i \in DOMAIN k.stages : k.stages[i] \in Bytewise THEN "sequence_of_bytewise_stages_only"
        ELSE "sequence_with_charwise_stage"
HasReplace == IF \E i \in DOMAIN k.stages : k.stages[i] = "replace" THEN "yes" ELSE "no"
Sig(pred, class) == [api |-> "Normalizer::normalize", normalizer |-> Kind, pred |-> pred, class |-> class]

Init == /\ l = 1 /\ nbad = NoBad /\ k = NoCase /\ ncase = 0 /\ njudged = 0 /\ nerror = 0
        /\ nchanged = 0 /\ nmultibyte = 0

Case == /\ e.ev = "case"
        /\ k' = e /\ ncase' = ncase + 1
        /\ nmultibyte' = nmultibyte + (IF \E i \in DOMAIN e.src : e.src[i] >= 128 THEN 1 ELSE 0)
        /\ UNCHANGED <<nbad, njudged, nerror, nchanged>>

Skip == e.ev = "skip" /\ UNCHANGED <<nbad, k, ncase, njudged, nerror, nchanged, nmultibyte>>

Ret ==
  /\ e.ev = "ret" /\ k.ev = "case"
  /\ UNCHANGED <<k, ncase, nmultibyte>>
  /\ LET rec == [case |-> k, ret |-> e] IN
     IF e.out = "error"
     THEN \* Err(NormalizeError) is the documented error channel (regex failure): no map to judge
          /\ nerror' = nerror + 1 /\ UNCHANGED <<nbad, njudged, nchanged>>
     ELSE IF e.out = "panic"
     THEN \* no normalized text and no offset map for a valid text and configuration
          /\ nbad' = Flag(nbad, FALSE, [api |-> "Normalizer::normalize", normalizer |-> Kind, pred |-> "panic",
                                        class |-> e.msg_class, has_replace |-> HasReplace], rec)
          /\ njudged' = njudged + 1 /\ UNCHANGED <<nerror, nchanged>>
     ELSE
       LET src == k.src norm == e.norm off == e.offsets
           b1 == Flag(nbad, LenOk(norm, off), Sig("length", "other"), rec)
           b2 == Flag(b1, Utf8Ok(norm), Sig("utf8", "other"), rec)
           b3 == Flag(b2, BoundaryOk(src, off), Sig("boundary", BoundaryClass(src, norm, off)), rec)
           b4 == Flag(b3, MonotoneOk(off), Sig("monotone", "other"), rec)
       IN /\ nbad' = b4
          /\ njudged' = njudged + 1
          /\ nchanged' = nchanged + (IF norm # src THEN 1 ELSE 0)
          /\ UNCHANGED nerror

Next == /\ l <= NRec /\ l' = l + 1 /\ (Case \/ Ret \/ Skip)

Report == l = NRec + 1 =>
            /\ ReportBad(nbad)
            /\ Stat("cases", ncase)
            /\ Stat("judged", njudged)
            /\ Stat("errors_not_judged", nerror)
            /\ Stat("text_changed_by_normalizer", nchanged)
            /\ Stat("cases_with_multibyte_text", nmultibyte)
=============================================================================
