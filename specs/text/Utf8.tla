------------------------------- MODULE Utf8 -------------------------------
(* UTF-8 structure over sequences of byte values (0..255), used by the C27  *)
(* and C30 trace specs to compute character boundaries themselves.          *)
EXTENDS Naturals, Integers, Sequences

IsCont(b) == b >= 128 /\ b <= 191                 \* continuation byte 10xxxxxx

\* Byte offset o (0-based, 0..Len) is a character boundary of the well-formed text t:
\* the end of the text, or the position of a byte that starts a character.
IsBoundary(t, o) == o >= 0 /\ o <= Len(t) /\ (o = Len(t) \/ ~IsCont(t[o + 1]))

\* Length of the character that starts with lead byte b (0 = not a lead byte).
CharLen(b) == IF b < 128 THEN 1
              ELSE IF b >= 194 /\ b <= 223 THEN 2
              ELSE IF b >= 224 /\ b <= 239 THEN 3
              ELSE IF b >= 240 /\ b <= 244 THEN 4 ELSE 0

(* Well-formed UTF-8 (Unicode 15, table 3-7): lead byte, the right number   *)
(* of continuation bytes, no overlong forms, no surrogates, <= U+10FFFF.    *)
SecondOk(b1, b2) ==
  IF b1 = 224 THEN b2 >= 160 /\ b2 <= 191
  ELSE IF b1 = 237 THEN b2 >= 128 /\ b2 <= 159
  ELSE IF b1 = 240 THEN b2 >= 144 /\ b2 <= 191
  ELSE IF b1 = 244 THEN b2 >= 128 /\ b2 <= 143
  ELSE IsCont(b2)
RECURSIVE WellFormedFrom(_, _)
WellFormedFrom(t, i) ==          \* i = 1-based index of the next character
  IF i > Len(t) THEN TRUE
  ELSE LET n == CharLen(t[i]) IN
       /\ n > 0 /\ i + n - 1 <= Len(t)
       /\ (n >= 2 => SecondOk(t[i], t[i + 1]))
       /\ \A j \in (i + 2)..(i + n - 1) : IsCont(t[j])
       /\ WellFormedFrom(t, i + n)
WellFormed(t) == (\A i \in DOMAIN t : t[i] >= 0 /\ t[i] <= 255) /\ WellFormedFrom(t, 1)

NonDecreasing(s) == \A i \in 1..(Len(s) - 1) : s[i] <= s[i + 1]

RECURSIVE Flatten(_)
Flatten(ss) == IF ss = <<>> THEN <<>> ELSE Head(ss) \o Flatten(Tail(ss))
=============================================================================
