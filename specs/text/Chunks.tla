------------------------------- MODULE Chunks -------------------------------
(* Window construction as a state machine: AddWindow appends ANY window the  *)
(* per-step clauses of the contract allow; Finish closes a sequence that     *)
(* covers the encoding.  Its reachable `done` states are exactly the window  *)
(* sequences a conforming encode_chunks may return (up to the length bound). *)
EXTENDS ChunksRef, TLC

CONSTANTS MaxN,        \* tokens in the windowed sequence: 0..MaxN
          MaxN1,       \* tokens in the first sequence of a pair: 0..MaxN1
          MaxLimit,    \* max_chunk_len: None or 0..MaxLimit
          MaxOverlap,  \* overlap: 0..MaxOverlap
          Build        \* TRUE: explore window sequences; FALSE: parameters only (generator)

VARIABLES n, n1, pair, cls, sep, limit, ov,   \* the request
          wins, done
vars == <<n, n1, pair, cls, sep, limit, ov, wins, done>>

W == Capacity(n, n1, pair, cls, sep, limit)

Init == /\ n \in 0..MaxN /\ pair \in BOOLEAN
        /\ n1 \in (IF pair THEN 0..MaxN1 ELSE {0})
        /\ cls \in BOOLEAN /\ sep \in BOOLEAN
        /\ limit \in {NoLimit} \cup 0..MaxLimit
        /\ ov \in 0..MaxOverlap
        /\ wins = <<>> /\ done = FALSE

AddWindow(lo, hi) ==
  /\ Build /\ ~done /\ Len(wins) <= n             \* bound: more than n+1 windows never needed
  /\ 0 <= lo /\ lo < hi /\ hi <= n /\ hi - lo <= W
  /\ IF wins = <<>> THEN lo = 0 ELSE lo = wins[Len(wins)].hi - ov
  /\ wins' = Append(wins, [lo |-> lo, hi |-> hi])
  /\ UNCHANGED <<n, n1, pair, cls, sep, limit, ov, done>>

Finish ==
  /\ Build /\ ~done
  /\ IF wins = <<>> THEN (n = 0 \/ W <= 0) ELSE wins[Len(wins)].hi = n
  /\ done' = TRUE
  /\ UNCHANGED <<n, n1, pair, cls, sep, limit, ov, wins>>

Next == Finish \/ \E lo \in 0..MaxN, hi \in 1..MaxN : AddWindow(lo, hi)
Spec == Init /\ [][Next]_vars

\* ---- invariants ----
DoneIsOk == done => ChunksOk(n, W, ov, wins)                 \* the machine builds only conforming sequences
UnsatNeverDone == ~Satisfiable(n, W, ov) => ~done            \* closed form "unsatisfiable" is right
RefIsOk == Satisfiable(n, W, ov) => ChunksOk(n, W, ov, RefWins(n, W, ov))   \* closed form "satisfiable" is right
\* every token of a finished sequence is inside some window (coverage really follows)
Covered == done => \A t \in 0..(n - 1) : (wins # <<>>) => \E i \in 1..Len(wins) : wins[i].lo <= t /\ t < wins[i].hi
\* every window plus the special tokens (and the first sequence of a pair) fits the requested limit
SizeBound == \A i \in 1..Len(wins) : (wins[i].hi - wins[i].lo) + Overhead(pair, cls, sep) + (IF pair THEN n1 ELSE 0) <= limit \/ limit = NoLimit
=============================================================================
