--------------------------- MODULE Trace_Roundtrip ---------------------------
(* Trace validation for C27: byte-level BPE tokenizers on seeded Unicode     *)
(* text.  From the logged input bytes the spec computes the UTF-8 character  *)
(* boundaries itself and judges: decode(encode(t)) = t; offsets are          *)
(* non-decreasing and on character boundaries; the slices the offsets        *)
(* delimit (and the slices Encoded::text_for_token_range returns)            *)
(* concatenate back to the input.                                            *)
EXTENDS TraceLib, Utf8

VARIABLES l, nbad, k, ncase, njudged, nerror, nmultibyte, ntokens

e == Rec[l]
NoCase == [ev |-> "none"]

T == k.text
NoRegex == IF \E i \in DOMAIN k.pretok : k.pretok[i] = "bytelevel_noregex" THEN "yes" ELSE "no"
Sig(pred, class) == [api |-> "Tokenizer::encode/decode", pred |-> pred, class |-> class, bytelevel_noregex |-> NoRegex]

WithoutByte(t, b) == SelectSeq(t, LAMBDA x : x # b)

\* slices delimited by the token offsets: token i covers [off[i], off[i+1]), the last one runs to the end of the input
SliceOf(off, n, i) == SubSeq(T, off[i] + 1, IF i < n THEN off[i + 1] ELSE Len(T))
InRange(off) == \A i \in DOMAIN off : off[i] >= 0 /\ off[i] <= Len(T)

Init == /\ l = 1 /\ nbad = NoBad /\ k = NoCase /\ ncase = 0 /\ njudged = 0 /\ nerror = 0
        /\ nmultibyte = 0 /\ ntokens = 0

Case == /\ e.ev = "case"
        /\ k' = e /\ ncase' = ncase + 1
        /\ nmultibyte' = nmultibyte + (IF \E i \in DOMAIN e.text : e.text[i] >= 128 THEN 1 ELSE 0)
        /\ UNCHANGED <<nbad, njudged, nerror, ntokens>>

Skip == e.ev = "skip" /\ UNCHANGED <<nbad, k, ncase, njudged, nerror, nmultibyte, ntokens>>

Ret ==
  /\ e.ev = "ret" /\ k.ev = "case"
  /\ UNCHANGED <<k, ncase, nmultibyte>>
  /\ LET rec == [case |-> k, ret |-> e] IN
     IF e.out = "error"
     THEN \* encode returned Err (the documented error channel): no ids to judge; counted
          /\ nerror' = nerror + 1 /\ UNCHANGED <<nbad, njudged, ntokens>>
     ELSE IF e.out = "panic"
     THEN /\ nbad' = Flag(nbad, FALSE, Sig("panic", "panic"), rec)
          /\ njudged' = njudged + 1 /\ UNCHANGED <<nerror, ntokens>>
     ELSE
       LET off == e.offsets
           n == e.nids
           tokOff == SubSeq(off, 1, n)                      \* one offset per token
           rtOk == e.dec_out = "ok" /\ e.dec = T
           rtClass == IF e.dec_out # "ok" THEN "decode_error"
                      ELSE IF e.dec = WithoutByte(T, 10) THEN "newlines_dropped" ELSE "other"
           monoOk == NonDecreasing(off)
           bndOk == \A i \in DOMAIN off : IsBoundary(T, off[i])
           usable == Len(off) >= n /\ InRange(off) /\ monoOk
           \* slices computed here from the offsets
           specSlices == [i \in 1..n |-> SliceOf(tokOff, n, i)]
           concatOk == usable /\ Flatten(specSlices) = T
           \* slices as returned by Encoded::text_for_token_range(i..i+1)
           apiOk == e.slices_some /\ Flatten(e.slices) = T
           sliceClass == IF n > 0 /\ Len(off) >= 1 /\ off[1] # 0 THEN "first_offset_not_zero"
                         ELSE IF n = 0 /\ T # <<>> /\ \A i \in DOMAIN T : T[i] = 10 THEN "no_tokens_for_newline_only_text"
                         ELSE "other"
           b1 == Flag(nbad, rtOk, Sig("roundtrip", rtClass), rec)
           b2 == Flag(b1, monoOk, Sig("offsets_non_decreasing", "other"), rec)
           b3 == Flag(b2, bndOk, Sig("offsets_on_char_boundaries", "other"), rec)
           b4 == Flag(b3, concatOk, Sig("slices_concatenate", sliceClass), rec)
           b5 == Flag(b4, apiOk, Sig("text_for_token_range_concatenate", sliceClass), rec)
       IN /\ nbad' = b5
          /\ njudged' = njudged + 1 /\ ntokens' = ntokens + n
          /\ UNCHANGED nerror

Next == /\ l <= NRec /\ l' = l + 1 /\ (Case \/ Ret \/ Skip)

Report == l = NRec + 1 =>
            /\ ReportBad(nbad)
            /\ Stat("cases", ncase)
            /\ Stat("judged", njudged)
            /\ Stat("encode_errors_not_judged", nerror)
            /\ Stat("cases_with_multibyte_text", nmultibyte)
            /\ Stat("tokens", ntokens)
=============================================================================
