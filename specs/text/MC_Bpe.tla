------------------------------- MODULE MC_Bpe -------------------------------
EXTENDS Bpe, Json

\* Behaviour generator: one test vector per (table, input), printed at the
\* terminal state of the "one" behaviour, with the terminal state of the
\* "all" granularity alongside.
Emit == (Terminal /\ mode = "one") =>
          PrintT(<<"REPLAY", ToJson([m |-> merges, s |-> input, one |-> tokens,
                                     all |-> Ref("all", merges, input)])>>)
=============================================================================
