----------------------------- MODULE Trace_Bpe -----------------------------
(* Trace validation for C28: every (merge table, input) vector replayed on  *)
(* a real rten_text Bpe is judged against the reference merge procedure of  *)
(* BpeRef, evaluated here from the logged table and input.                  *)
EXTENDS TraceLib, BpeRef

VARIABLES l, nbad, ncase, nmerge, nambig, nambig_one, nambig_all

e == Rec[l]

\* symbols -> bytes through the logged alphabet
ToBytes(piece) == [i \in 1..Len(piece) |-> e.alpha[piece[i]]]
PiecesBytes(t) == [i \in 1..Len(t) |-> ToBytes(t[i])]

\* "maps pieces through the vocabulary": the explicit vocabulary that was
\* handed to Bpe::new is logged as <<piece bytes, id>> pairs.  Ids range over
\* the whole u32 space (sparse / large id schemes), so an id is logged as the
\* pair <<id \div 2^16, id % 2^16>> and compared as such.
HasId(pb) == \E i \in DOMAIN e.xvocab : e.xvocab[i][1] = pb
IdOf(pb) == e.xvocab[CHOOSE i \in DOMAIN e.xvocab : e.xvocab[i][1] = pb][2]
IdsOf(t) == [i \in 1..Len(t) |-> IF HasId(ToBytes(t[i])) THEN IdOf(ToBytes(t[i])) ELSE <<0 - 1, 0 - 1>>]

DerivedIdsOk(ids, t) ==
  /\ Len(ids) = Len(t)
  /\ \A i \in DOMAIN t : IF IsSingle(t[i]) THEN ids[i] >= 0 /\ ids[i] < 256
                          ELSE \E j \in DOMAIN e.m : Cat(e.m[j]) = t[i] /\ ids[i] = 256 + (j - 1)

Init == /\ l = 1 /\ nbad = NoBad /\ ncase = 0 /\ nmerge = 0
        /\ nambig = 0 /\ nambig_one = 0 /\ nambig_all = 0

\* Accept either step granularity where they differ (see BpeRef.Step).
Matches(got, one, all) == got = one \/ got = all

Class(out, piecesOk, wo) ==
  IF out # "ok" THEN out
  ELSE IF ~piecesOk THEN (IF wo THEN "pieces_differ_wellordered_table" ELSE "pieces_differ_illordered_table")
  ELSE "ids_not_from_vocabulary"

Case ==
  /\ e.ev = "case"
  /\ LET one == Ref("one", e.m, e.s)
         all == Ref("all", e.m, e.s)
         wo == WellOrdered(e.m)
         \* explicit vocabulary: ids computed here from the logged vocabulary, and
         \* the vocabulary strings of the returned ids must be the pieces
         xPieces == e.xout = "ok" /\ Matches(e.xstrs, PiecesBytes(one), PiecesBytes(all))
         xOk == xPieces /\ Matches(e.xids, IdsOf(one), IdsOf(all))
         \* derived vocabulary: the model's own id -> string table is the vocabulary, and the ids follow the
         \* documented rule of BpeOptions::vocab (ids below 256 for single bytes; 256 + index of a merge
         \* entry that forms the piece, any such entry if several do)
         dPieces == e.dout = "ok" /\ Matches(e.dstrs, PiecesBytes(one), PiecesBytes(all))
         dOk == dPieces /\ (DerivedIdsOk(e.dids, one) \/ DerivedIdsOk(e.dids, all))
         genOk == e.one = one /\ e.all = all /\ ToBytes(e.s) = e.text
         b1 == Flag(nbad, genOk, [api |-> "generator", vocab |-> "none", class |-> "generator_mismatch"], e)
         b2 == Flag(b1, xOk, [api |-> "Tokenizer::encode/Bpe", vocab |-> "explicit",
                              class |-> Class(e.xout, xPieces, wo)], e)
         b3 == Flag(b2, dOk, [api |-> "Tokenizer::encode/Bpe", vocab |-> "derived",
                              class |-> Class(e.dout, dPieces, wo)], e)
     IN /\ nbad' = b3
        /\ ncase' = ncase + 1
        /\ nmerge' = nmerge + (IF Len(one) < Len(e.s) THEN 1 ELSE 0)
        /\ nambig' = nambig + (IF one # all THEN 1 ELSE 0)
        /\ nambig_one' = nambig_one + (IF one # all /\ e.xout = "ok" /\ e.xstrs = PiecesBytes(one) THEN 1 ELSE 0)
        /\ nambig_all' = nambig_all + (IF one # all /\ e.xout = "ok" /\ e.xstrs = PiecesBytes(all) THEN 1 ELSE 0)

Next == /\ l <= NRec /\ l' = l + 1 /\ Case

Report == l = NRec + 1 =>
            /\ ReportBad(nbad)
            /\ Stat("cases", ncase)
            /\ Stat("cases_with_merge", nmerge)
            /\ Stat("granularity_differs", nambig)
            /\ Stat("differs_code_matches_one", nambig_one)
            /\ Stat("differs_code_matches_all", nambig_all)
=============================================================================
