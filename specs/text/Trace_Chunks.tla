---------------------------- MODULE Trace_Chunks ----------------------------
(* Trace validation for C29: the chunks returned by a real                   *)
(* Tokenizer::encode_chunks are mapped to windows of the full encoding and   *)
(* judged by the ChunksRef contract.  Everything is computed here from the   *)
(* logged request, letters and vocabulary.                                   *)
EXTENDS TraceLib, ChunksRef

VARIABLES l, nbad, k, ncase, njudged, nundecided, nundecided_panic, nmulti, nfirstdropped

e == Rec[l]
NoCase == [ev |-> "none"]

\* ---- derived from the current case k (full encodings are passed down so that TLC evaluates them once) ----
IdOfByte(b) == k.vocab[CHOOSE i \in DOMAIN k.vocab : k.vocab[i][1] = b][2]
N == Len(k.l2)
Cap == Capacity(N, IF k.pair THEN Len(k.l1) ELSE 0, k.pair, k.cls, k.sep, k.limit)
Sat == Satisfiable(N, Cap, k.ov)
Specials == {k.clsid, k.sepid} \ {0 - 1}

\* content tokens of a chunk = its tokens that are not special tokens
Content(c) == SelectSeq(c, LAMBDA x : x \notin Specials)
Pos(full, x) == IF \E i \in DOMAIN full : full[i] = x THEN CHOOSE i \in DOMAIN full : full[i] = x ELSE 0
(* Window of a chunk: [lo, hi) such that the windowed part equals full[lo+1..hi]  ("each chunk's     *)
(* content tokens are a contiguous window of the full encoding"); for pairs the complete first      *)
(* sequence must precede the window of the second in every chunk.  lo = hi = -1 if there is none.   *)
WinOf(c, full1, full) ==
  LET cont == Content(c)
      p1 == SelectSeq(cont, LAMBDA x : x \in Range(full1))
      w == IF k.pair THEN SelectSeq(cont, LAMBDA x : x \notin Range(full1)) ELSE cont
      p == IF w = <<>> THEN 0 ELSE Pos(full, w[1])
  IN IF /\ p > 0 /\ p - 1 + Len(w) <= N /\ SubSeq(full, p, p - 1 + Len(w)) = w
        /\ k.pair => (p1 = full1 /\ cont = p1 \o w)
     THEN [lo |-> p - 1, hi |-> p - 1 + Len(w)] ELSE [lo |-> 0 - 1, hi |-> 0 - 1]
\* "every chunk has at most the requested number of tokens including special tokens"
FitsLimit(c) == k.limit = NoLimit \/ Len(c) <= k.limit

Sig(pred, class) == [api |-> "Tokenizer::encode_chunks", input |-> IF k.pair THEN "pair" ELSE "single",
                     pred |-> pred, class |-> class]
\* failing-case classes of a panic in the decidable domain
PanicClass ==
  IF Cap > 0 /\ N <= Cap /\ k.ov >= Cap THEN "overlap_ge_window_but_one_chunk_suffices"
  ELSE IF k.pair /\ Cap > 0 /\ N <= Cap /\ k.ov >= N THEN "overlap_ge_second_sequence_length"
  ELSE "other"
OverlapClass(wins) ==
  LET F == {i \in 1..(Len(wins) - 1) : wins[i + 1].lo # wins[i].hi - k.ov}
      last == wins[Len(wins)]
  IN IF F = {Len(wins) - 1} /\ last.hi - last.lo < Cap THEN "remainder_chunk" ELSE "full_windows"

Init == /\ l = 1 /\ nbad = NoBad /\ k = NoCase /\ ncase = 0 /\ njudged = 0 /\ nundecided = 0
        /\ nundecided_panic = 0 /\ nmulti = 0 /\ nfirstdropped = 0

Case == /\ e.ev = "case"
        /\ k' = e /\ ncase' = ncase + 1
        /\ UNCHANGED <<nbad, njudged, nundecided, nundecided_panic, nmulti, nfirstdropped>>

Ret ==
  /\ e.ev = "ret" /\ k.ev = "case"
  /\ UNCHANGED <<ncase, k>>
  /\ LET rec == [case |-> k, ret |-> e] IN
     IF ~Sat
     THEN \* outside the decidable domain: no window sequence satisfies the property; recorded only
          /\ nundecided' = nundecided + 1
          /\ nundecided_panic' = nundecided_panic + (IF e.out = "panic" THEN 1 ELSE 0)
          /\ UNCHANGED <<nbad, njudged, nmulti, nfirstdropped>>
     ELSE
       /\ njudged' = njudged + 1
       /\ UNCHANGED <<nundecided, nundecided_panic>>
       /\ IF e.out # "ok"
          THEN /\ nbad' = Flag(nbad, FALSE, Sig(e.out, IF e.out = "panic" THEN PanicClass ELSE "other"), rec)
               /\ UNCHANGED <<nmulti, nfirstdropped>>
          ELSE
            LET cs == e.chunks
                full1 == [i \in 1..Len(k.l1) |-> IdOfByte(k.l1[i])]   \* full encoding of the first sequence (pairs)
                full == [i \in 1..Len(k.l2) |-> IdOfByte(k.l2[i])]    \* full encoding of the windowed sequence
                wins == [i \in DOMAIN cs |-> WinOf(cs[i], full1, full)]
                allWin == \A i \in DOMAIN cs : wins[i].lo >= 0
                b1 == Flag(nbad, \A i \in DOMAIN cs : FitsLimit(cs[i]), Sig("size", "chunk_exceeds_limit"), rec)
                b2 == Flag(b1, allWin, Sig("window", "content_not_a_window_of_full_encoding"), rec)
                b3 == IF ~allWin THEN b2 ELSE Flag(b2, SizeOk(N, Cap, wins), Sig("size", "window_exceeds_capacity"), rec)
                b4 == IF ~allWin THEN b3 ELSE Flag(b3, CoverOk(N, wins), Sig("coverage", "first_or_last_token_not_covered"), rec)
                b5 == IF ~allWin THEN b4 ELSE Flag(b4, OverlapOk(k.ov, wins), Sig("overlap_exact", OverlapClass(wins)), rec)
                b6 == Flag(b5, NonEmptyOk(N, Cap, cs), Sig("coverage", "no_chunks_although_tokens_fit"), rec)
            IN /\ nbad' = b6
               /\ nmulti' = nmulti + (IF Len(cs) > 1 THEN 1 ELSE 0)
               \* not judged (B.2 applies the contract to the second sequence): an empty second
               \* sequence yields no chunk at all, so the first sequence appears nowhere
               /\ nfirstdropped' = nfirstdropped + (IF k.pair /\ N = 0 /\ Len(k.l1) > 0 /\ Len(cs) = 0 /\ Cap >= 0 THEN 1 ELSE 0)

Next == /\ l <= NRec /\ l' = l + 1 /\ (Case \/ Ret)

Report == l = NRec + 1 =>
            /\ ReportBad(nbad)
            /\ Stat("cases", ncase)
            /\ Stat("judged", njudged)
            /\ Stat("undecidable_not_judged", nundecided)
            /\ Stat("undecidable_panicked", nundecided_panic)
            /\ Stat("judged_multi_chunk", nmulti)
            /\ Stat("pair_empty_second_drops_first", nfirstdropped)
=============================================================================
