----------------------------- MODULE ChunksRef -----------------------------
(* Contract of Tokenizer::encode_chunks (C29), DESIGN Appendix B.2.          *)
(* A window is a record [lo, hi] standing for the half-open range [lo, hi)   *)
(* of 0-based positions in the full encoding of the windowed sequence (the   *)
(* only sequence of a single input; the second sequence of a pair).          *)
EXTENDS Naturals, Integers, Sequences, FiniteSets

NoLimit == 0 - 1                             \* EncodeOptions::max_chunk_len = None

\* Special tokens added to every chunk: [CLS] .. [SEP]  /  [CLS] .. [SEP] .. [SEP]
Overhead(pair, cls, sep) ==
  (IF cls THEN 1 ELSE 0) + (IF sep THEN (IF pair THEN 2 ELSE 1) ELSE 0)

\* Number of windowed-sequence tokens a chunk can hold: what is left of the
\* limit after the special tokens and, for pairs, the (complete) first
\* sequence that is repeated in every chunk.  Without a limit: everything.
Capacity(n, n1, pair, cls, sep, limit) ==
  IF limit = NoLimit THEN n ELSE limit - Overhead(pair, cls, sep) - (IF pair THEN n1 ELSE 0)

(* The property, on windows.  n = number of content tokens of the windowed   *)
(* sequence, w = Capacity, ov = requested overlap.                           *)
(*  - size: every window is non-empty, inside the encoding, and fits;        *)
(*  - coverage in order: the first window starts at 0, the last ends at n    *)
(*    (with exact overlaps this makes the windows cover every token, in      *)
(*    order);                                                                *)
(*  - consecutive windows overlap by exactly ov;                             *)
(*  - no windows at all only if there is nothing to cover or no token fits.  *)
SizeOk(n, w, wins) ==
  \A i \in 1..Len(wins) : /\ 0 <= wins[i].lo /\ wins[i].lo < wins[i].hi /\ wins[i].hi <= n
                           /\ wins[i].hi - wins[i].lo <= w
CoverOk(n, wins) == (n > 0 /\ Len(wins) > 0) => (wins[1].lo = 0 /\ wins[Len(wins)].hi = n)
OverlapOk(ov, wins) == \A i \in 1..(Len(wins) - 1) : wins[i + 1].lo = wins[i].hi - ov
NonEmptyOk(n, w, wins) == (Len(wins) = 0) => (n = 0 \/ w <= 0)
ChunksOk(n, w, ov, wins) ==
  SizeOk(n, w, wins) /\ CoverOk(n, wins) /\ OverlapOk(ov, wins) /\ NonEmptyOk(n, w, wins)

(* Decidable domain: is there ANY window sequence satisfying ChunksOk?       *)
(* No when more than one window is needed and the overlap is >= the window   *)
(* (exact overlap then contradicts progress).  MC_Chunks checks this closed  *)
(* form against the window-building machine of Chunks.tla.                   *)
Satisfiable(n, w, ov) == n = 0 \/ w <= 0 \/ n <= w \/ ov < w

\* One conforming window sequence (full windows, stride w - ov, last one cut at n).
RECURSIVE RefFrom(_, _, _, _)
RefFrom(lo, n, w, ov) ==
  LET hi == IF lo + w < n THEN lo + w ELSE n IN
  IF hi = n THEN <<[lo |-> lo, hi |-> hi]>> ELSE <<[lo |-> lo, hi |-> hi]>> \o RefFrom(hi - ov, n, w, ov)
RefWins(n, w, ov) ==
  IF n = 0 \/ w <= 0 THEN <<>>
  ELSE IF n <= w THEN <<[lo |-> 0, hi |-> n]>>
  ELSE RefFrom(0, n, w, ov)          \* only meaningful when ov < w
=============================================================================
