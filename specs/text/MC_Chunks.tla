------------------------------ MODULE MC_Chunks ------------------------------
EXTENDS Chunks, Json

\* Generator: one request per initial state, with the decidable-domain flag
\* and one conforming window sequence for reference.
Emit == (wins = <<>> /\ ~done) =>
  PrintT(<<"REPLAY", ToJson([n |-> n, n1 |-> n1, pair |-> pair, cls |-> cls, sep |-> sep,
                             limit |-> limit, ov |-> ov, sat |-> Satisfiable(n, W, ov),
                             ref |-> IF Satisfiable(n, W, ov) THEN RefWins(n, W, ov) ELSE <<>>])>>)
=============================================================================
