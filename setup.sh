#!/bin/sh
# Build the harness once (offline) and syntax-check every spec. Run in /verif.
set -e
cd "$(dirname "$0")"
export CARGO_NET_OFFLINE=true
( cd harness && cargo build --release --offline --workspace 2>&1 | tail -3 )
log=$(mktemp)
scratch=$(mktemp -d)
trap 'rm -rf "$log" "$scratch"' EXIT
for f in specs/*/*.tla; do
  d=$(dirname "$f")
  b=$(basename "$f")
  if grep -Eq '^EXTENDS.*[ ,]Apalache([ ,]|$)' "$f"; then
    # Typed modules for the Apalache runs of the thorough tier: the `Apalache` module
    # ships inside apalache.jar, not on SANY's library path, so Apalache's own
    # front end (which embeds SANY) parses them.
    ( cd "$d" && apalache-mc parse --out-dir="$scratch" "$b" >"$log" 2>&1 ) || { cat "$log"; echo "apalache parse failed: $f"; exit 1; }
  else
    ( cd "$d" && java -cp /opt/veriftools/tla/tla2tools.jar:/opt/veriftools/tla/CommunityModules-deps.jar -DTLA-Library=../lib tla2sany.SANY "$b" >"$log" 2>&1 ) || { cat "$log"; echo "SANY failed: $f"; exit 1; }
  fi
done
echo "setup ok"
