#!/bin/sh
# Build the harness once (offline) and syntax-check every spec. Run in /verif.
set -e
cd "$(dirname "$0")"
export CARGO_NET_OFFLINE=true
( cd harness && cargo build --release --offline --workspace 2>&1 | tail -3 )
for f in specs/*/*.tla; do
  d=$(dirname "$f")
  ( cd "$d" && java -cp /opt/veriftools/tla/tla2tools.jar:/opt/veriftools/tla/CommunityModules-deps.jar -DTLA-Library=../lib tla2sany.SANY "$(basename "$f")" >/tmp/sany.$$ 2>&1 ) || { cat /tmp/sany.$$; echo "SANY failed: $f"; rm -f /tmp/sany.$$; exit 1; }
done
rm -f /tmp/sany.$$
echo "setup ok"
