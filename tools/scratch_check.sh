#!/bin/sh
# tools/scratch_check.sh <worktree> <scratch-dir> <property> [tier]
# Run a check against a scratch worktree of /repo instead of /repo itself (used to validate candidate
# repairs and seeded mutations without touching /repo). Creates <scratch-dir>/harness as a copy of
# /verif/harness whose path dependencies point at <worktree>; work/, evidence/, replays/ go to <scratch-dir>.
# Optional: VERIF_KNOWN=<file> to use an alternative known-findings file.
set -e
WT=$(cd "$1" && pwd); SC="$2"; PID="$3"; TIER="${4:-quick}"
mkdir -p "$SC"
if [ ! -d "$SC/harness" ]; then
  mkdir -p "$SC/harness"
  (cd /verif/harness && tar cf - --exclude=target . ) | (cd "$SC/harness" && tar xf -)
  find "$SC/harness" -name Cargo.toml -exec sed -i "s#path = \"/repo#path = \"$WT#g" {} +
fi
cd /verif && VERIF_HARNESS="$SC/harness" VERIF_OUT="$SC" ./check "$PID" --tier "$TIER"
