#!/bin/sh
# tools/confirm_mutation2.sh <pid> <demo file in /tmp/mut-<pid>/demo> <dir in worktree to install it in> "<cargo test args>" [check ids...]
# Like confirm_mutation.sh, for demonstrations that are separate integration-test files: the file is installed for the
# with/without runs and REMOVED for the workspace run, so the workspace run is exactly the existing suite with the change.
PID="$1"; DF="$2"; DDIR="$3"; DEMO="$4"; shift 4
WT=/tmp/mw-$PID; M=/tmp/mut-$PID; export CARGO_TARGET_DIR=/tmp/cf-target-$PID
LOG=$M/confirm.log; : > $LOG
cd $WT
git apply --check -R $M/patch.diff 2>/dev/null || git apply $M/patch.diff
mkdir -p $DDIR; cp $M/demo/$DF $DDIR/$DF
echo "== demo WITH change (expect failure)" >> $LOG
cargo test --offline -j 8 $DEMO >> $LOG 2>&1; echo "exit=$?" >> $LOG
git apply -R $M/patch.diff
echo "== demo WITHOUT change (expect pass)" >> $LOG
cargo test --offline -j 8 $DEMO >> $LOG 2>&1; echo "exit=$?" >> $LOG
git apply $M/patch.diff
rm -f $DDIR/$DF
echo "== existing workspace tests WITH change (expect all ok)" >> $LOG
cargo test --workspace --offline --no-fail-fast -j 8 2>&1 | grep -E "^test result|FAILED|failed|panicked|^error|Running" | grep -B1 -E "^test result|FAILED|failed|panicked|^error" >> $LOG; echo "exit=$?" >> $LOG
rm -rf $CARGO_TARGET_DIR
unset CARGO_TARGET_DIR
for c in "$@"; do
  echo "== check $c against the changed worktree" >> $LOG
  /verif/tools/scratch_check.sh $WT /tmp/sc-$PID $c quick 2>&1 | cut -c1-300 | tail -25 >> $LOG; echo "exit=$?" >> $LOG
done
rm -rf /tmp/sc-$PID/harness/target
grep -E "^== |^exit=|^test result: F|VIOLATION|OK: property|FAILED:" $LOG | cut -c1-200
