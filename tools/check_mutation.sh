#!/bin/sh
# tools/check_mutation.sh <pid> <check ids...>: run checks against the changed worktree /tmp/mw-<pid> (log appended to /tmp/mut-<pid>/confirm.log)
PID="$1"; shift; WT=/tmp/mw-$PID; LOG=/tmp/mut-$PID/confirm.log
export CARGO_TARGET_DIR=/tmp/sc-common-target
for c in "$@"; do
  echo "== check $c against the changed worktree" >> $LOG
  /verif/tools/scratch_check.sh $WT /tmp/sc-$PID $c quick 2>&1 | cut -c1-300 | tail -25 >> $LOG; echo "exit=$?" >> $LOG
done
rm -rf /tmp/cf-target-$PID
grep -E "^== |^exit=|VIOLATION|OK: property|FAILED:|TOOL-ERROR" $LOG | cut -c1-200 | tail -12
