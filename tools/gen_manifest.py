#!/usr/bin/env python3
"""Assemble MANIFEST.json from manifest.d/*.json fragments (one per claimed property),
manifest.d/_base.json and manifest.d/_not_applicable.json; validate against the schema."""
import glob
import json
import os
import subprocess
import sys

ROOT = os.path.dirname(os.path.dirname(os.path.abspath(__file__)))
base = json.load(open(os.path.join(ROOT, "manifest.d", "_base.json")))
na = json.load(open(os.path.join(ROOT, "manifest.d", "_not_applicable.json")))
checks = []
for f in sorted(glob.glob(os.path.join(ROOT, "manifest.d", "C*.json"))):
    c = json.load(open(f))
    pid = c["property_id"]
    c.setdefault("quick_cmd", "./check %s --tier quick" % pid)
    c.setdefault("thorough_cmd", "./check %s --tier thorough" % pid)
    c.setdefault("evidence_file", "evidence/%s.json" % pid)
    c.setdefault("replay_cmd_template", "./check %s --replay {path}" % pid)
    checks.append(c)
claimed = {c["property_id"] for c in checks}
props = [json.loads(l)["id"] for l in open(os.path.join(ROOT, "properties.jsonl"))]
not_app = []
for p in props:
    if p in claimed:
        continue
    reason = na.get(p, "check not built yet; no claim is made for this property in the current state of /verif")
    not_app.append({"property_id": p, "reason": reason})
try:
    hooks = subprocess.check_output(
        ["git", "-C", "/repo", "log", "--format=%H %s", "2be5214..HEAD"], text=True).splitlines()
except Exception:
    hooks = []
base["hooks"]["source_commits"] = [h.split()[0] for h in hooks if h.split(" ", 1)[1].startswith("verif-hook:")]
m = dict(base)
m["checks"] = checks
m["not_applicable"] = not_app
json.dump(m, open(os.path.join(ROOT, "MANIFEST.json"), "w"), indent=1)
try:
    import jsonschema
    jsonschema.validate(m, json.load(open("/root/.vp/MANIFEST.schema.json")))
    print("MANIFEST.json valid: %d checks, %d not_applicable" % (len(checks), len(not_app)))
except ImportError:
    print("MANIFEST.json written (jsonschema not available to validate)")
