#!/usr/bin/env python3
"""Print the prompt for an independent mutation agent for property <id> (only the property text + a worktree)."""
import json, sys
pid = sys.argv[1]
wt = "/tmp/mw-%s" % pid
p = [json.loads(l) for l in open('/verif/properties.jsonl') if json.loads(l)['id'] == pid][0]
anch = p['anchors']
print(f"""You are given a scratch git worktree of the Rust project robertknight/rten at {wt} (a Rust ONNX-derived inference engine: graph planner/optimizer, SIMD GEMM kernels, ~100 tensor operators, a strided tensor library, tokenizers, text generation). Work ONLY inside {wt} and in /tmp/mut-{pid}/ (create it). Do not look at or touch /repo, /verif or any other directory; do not use git commands that affect other worktrees.

Here is a semantic property the project is supposed to satisfy:

  Title: {p['title']}
  Statement: {p['statement']}
  Quantified over: {p['quantifier']['text']}
  Why the existing tests cannot settle it: {p['why_tests_cant']}
  Relevant files: {', '.join(anch['files'])}
  Mechanisms meant to make it hold: {'; '.join(m['name'] + ' (' + m.get('where','') + ')' for m in anch.get('mechanism', []))}

YOUR TASK: produce ONE realistic change to the project's source code (the kind of regression a well-meaning developer could introduce: an optimisation, a refactoring slip, an off-by-one, a dropped or weakened check, a wrong index, a condition inverted in a rare branch, two cooperating sites that each look fine alone ...) such that:
  (a) the project still compiles and the existing test suite still passes: run `cd {wt} && CARGO_TARGET_DIR=/tmp/mut-{pid}/target cargo test --workspace --offline -j 6 2>&1 | grep -E "^test result|FAILED|panicked"` — all "test result" lines must be ok (compare with the unmodified tree if something fails for unrelated reasons);
  (b) the property above is violated by the changed code;
  (c) the violation needs something specific to manifest — a particular interleaving, a fault at a particular point, a multi-step sequence of operations, an unusual input or configuration, or two cooperating sites — NOT something that ordinary use would expose at once (e.g. do not simply break a function for all inputs).
Do not change or delete existing tests. Do not touch code inside `#[cfg(rten_verif)]` blocks or files named verif.rs (leave them exactly as they are). Keep the change small (a few lines to a few dozen).

Then write a DEMONSTRATION: a small Rust test or program (e.g. a new file under the relevant crate's `tests/` directory or a `#[test]` appended in a new test module, or an example binary) that exercises the public API (or crate-internal API if necessary) and FAILS with your change but PASSES on the unmodified code. Verify both: run it with the change applied; then save the change with `git -C {wt} diff -- <changed source files> > /tmp/mut-{pid}/patch.diff`, revert it with `git -C {wt} apply -R /tmp/mut-{pid}/patch.diff` (keep the demonstration), run again, and re-apply with `git -C {wt} apply /tmp/mut-{pid}/patch.diff`. NEVER use `git stash` (the stash is shared between worktrees).

Deliver in /tmp/mut-{pid}/:
  - patch.diff : `git -C {wt} diff` of the source change ONLY (without the demonstration),
  - demo/ : the demonstration file(s) plus demo/README.md saying exactly where to put them and the command to run,
  - meta.json : {{"property": "{pid}", "summary": "<what was changed>", "needs": "<what specific input/sequence/interleaving is needed for it to manifest>", "files": [...], "ran": ["<commands you ran and their outcome>"]}}.
Finally remove your build output (`rm -rf /tmp/mut-{pid}/target`) and report in a few lines what you changed, why the existing tests miss it, and how the demonstration shows the violation.""")
