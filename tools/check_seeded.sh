#!/bin/sh
# tools/check_seeded.sh <seeded-id> <base-commit> <check ids...>: apply seeded/<id>/patch.diff to a fresh worktree of /repo at
# <base-commit> and run the given checks against it (quick tier). Prints the verdict lines.
ID="$1"; BASE="$2"; shift 2; WT=/tmp/cs-$ID
git -C /repo worktree remove --force $WT >/dev/null 2>&1
git -C /repo worktree add -f $WT $BASE >/dev/null 2>&1
(cd $WT && git apply /verif/seeded/$ID/patch.diff) || { echo "patch does not apply to $BASE"; exit 2; }
export CARGO_TARGET_DIR=/tmp/sc-common-target
for c in "$@"; do
  echo "== $ID: check $c"
  /verif/tools/scratch_check.sh $WT /tmp/cs-sc-$ID $c quick 2>&1 | grep -E "VIOLATION|signature=|OK: property|FAILED:|TOOL-ERROR|KNOWN-FINDING" | cut -c1-220 | head -8
done
git -C /repo worktree remove --force $WT; rm -rf /tmp/cs-sc-$ID
