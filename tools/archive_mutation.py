#!/usr/bin/env python3
"""tools/archive_mutation.py <pid> <caught_by comma list or 'none'> "<note>": copy /tmp/mut-<pid> into seeded/<pid>-mN/
with meta.json extended by what the main session confirmed and which checks caught it."""
import json, os, re, shutil, sys
pid, caught, note = sys.argv[1], sys.argv[2], sys.argv[3]
src = '/tmp/mut-%s' % pid
pid = pid.rstrip('bcd')      # second-round scratch directories are /tmp/mut-<pid>b
n = 1
while os.path.exists('/verif/seeded/%s-m%d' % (pid, n)):
    n += 1
dst = '/verif/seeded/%s-m%d' % (pid, n)
os.makedirs(dst)
shutil.copy(os.path.join(src, 'patch.diff'), dst)
shutil.copytree(os.path.join(src, 'demo'), os.path.join(dst, 'demo'))
meta = json.load(open(os.path.join(src, 'meta.json')))
log = open(os.path.join(src, 'confirm.log')).read() if os.path.exists(os.path.join(src, 'confirm.log')) else ''
sections = re.split(r'^== ', log, flags=re.M)
conf = {}
for s in sections:
    if s.startswith('demo WITH change'):
        conf['demo_with_change'] = 'fails' if 'exit=101' in s or 'test result: FAILED' in s else 'UNEXPECTED: passes'
    elif s.startswith('demo WITHOUT change'):
        conf['demo_without_change'] = 'passes' if 'exit=0' in s and 'test result: FAILED' not in s else 'UNEXPECTED: fails'
    elif s.startswith('existing workspace tests'):
        ok = len(re.findall(r'^test result: ok', s, flags=re.M)); bad = len(re.findall(r'^test result: FAILED', s, flags=re.M))
        conf['existing_tests_with_change'] = '%d test binaries ok, %d failed' % (ok, bad)
viol = sorted(set(re.findall(r'signature=(\{.*?\}) cases', log)))
meta['breaks_property'] = pid
meta['confirmed_by_main_session'] = conf
meta['caught_by'] = [] if caught == 'none' else caught.split(',')
meta['violation_signatures_reported'] = viol[:12]
meta['main_session_ran'] = ['tools/confirm_mutation.sh (demo with/without the change, cargo test --workspace with the change)',
                            'tools/scratch_check.sh <worktree> ... <check> quick for each check in caught_by']
meta['note'] = note
json.dump(meta, open(os.path.join(dst, 'meta.json'), 'w'), indent=1)
print(dst, conf, 'caught_by', meta['caught_by'], len(viol), 'signatures')
