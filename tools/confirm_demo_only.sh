#!/bin/sh
# tools/confirm_demo_only.sh <pid> "<install>" "<uninstall>" "<cargo test args>": re-run only the demonstration with / without the change
# (appends to /tmp/mut-<pid>/confirm_demo.log); used when the first confirmation could not install the demonstration.
PID="$1"; INST="$2"; UNINST="$3"; DEMO="$4"
WT=/tmp/mw-$PID; M=/tmp/mut-$PID; export CARGO_TARGET_DIR=/tmp/cf-target-$PID
LOG=$M/confirm_demo.log; : > $LOG
cd $WT
git checkout -q -- . ; git clean -fdq
git apply $M/patch.diff || exit 2
mkdir -p tests; for d in rten-tensor rten-gemm rten-onnx rten-text rten-generate rten-imageproc rten-serialize; do [ -d $d ] && mkdir -p $d/tests; done
sh -c "$INST" >> $LOG 2>&1
echo "== demo WITH change (expect failure)" >> $LOG
cargo test --offline -j 8 $DEMO >> $LOG 2>&1; echo "exit=$?" >> $LOG
git apply -R $M/patch.diff
echo "== demo WITHOUT change (expect pass)" >> $LOG
cargo test --offline -j 8 $DEMO >> $LOG 2>&1; echo "exit=$?" >> $LOG
git apply $M/patch.diff
sh -c "$UNINST" >> $LOG 2>&1
rm -rf $CARGO_TARGET_DIR
grep -E "^== |^exit=|^test result" $LOG
