#!/bin/sh
# tools/confirm_mutation.sh <pid> "<cargo test args selecting the demo>" <skip-filter> [check ids...]
# Confirms a seeded change left in /tmp/mw-<pid> (patch applied + demonstration installed, patch in /tmp/mut-<pid>/patch.diff):
#  (1) the demonstration fails with the change, (2) passes without it, (3) the existing workspace tests pass with it,
#  then runs the given checks against the changed worktree (tools/scratch_check.sh). Log: /tmp/mut-<pid>/confirm.log
PID="$1"; DEMO="$2"; SKIP="$3"; shift 3
WT=/tmp/mw-$PID; M=/tmp/mut-$PID; export CARGO_TARGET_DIR=/tmp/cf-target-$PID
LOG=$M/confirm.log; : > $LOG
cd $WT
echo "== demo WITH change (expect failure)" >> $LOG
cargo test --offline -j 8 $DEMO >> $LOG 2>&1; echo "exit=$?" >> $LOG
git apply -R $M/patch.diff
echo "== demo WITHOUT change (expect pass)" >> $LOG
cargo test --offline -j 8 $DEMO >> $LOG 2>&1; echo "exit=$?" >> $LOG
git apply $M/patch.diff
echo "== existing workspace tests WITH change (expect all ok)" >> $LOG
cargo test --workspace --offline --no-fail-fast -j 8 -- --skip "$SKIP" 2>&1 | grep -E "^test result|FAILED|failed|panicked|^error|Running" | grep -B1 -E "^test result|FAILED|failed|panicked|^error" >> $LOG; echo "exit=$?" >> $LOG
rm -rf $CARGO_TARGET_DIR
unset CARGO_TARGET_DIR
for c in "$@"; do
  echo "== check $c against the changed worktree" >> $LOG
  /verif/tools/scratch_check.sh $WT /tmp/sc-$PID $c quick 2>&1 | cut -c1-300 | tail -25 >> $LOG; echo "exit=$?" >> $LOG
done
rm -rf /tmp/sc-$PID/harness/target
grep -E "^== |^exit=|^test result: F|VIOLATION|OK: property|FAILED:" $LOG | cut -c1-200
