#!/usr/bin/env python3
"""tools/apply_fixes.py <fixer-dir>: git am each patch of fixes/<dir> into /repo (in order), and flip the
known findings its README.json names to status fixed with the new commit sha. Stops at the first patch
that does not apply."""
import json, os, subprocess, sys
d = os.path.join('/verif/fixes', sys.argv[1])
readme = json.load(open(os.path.join(d, 'README.json')))
patches = readme['patches'] if isinstance(readme, dict) else readme
kfp = '/verif/known_findings.json'
done = set(l.strip() for l in open(os.path.join(d, 'APPLIED')).read().splitlines()) if os.path.exists(os.path.join(d, 'APPLIED')) else set()
for p in patches:
    name = p['patch']
    if name in done:
        continue
    path = os.path.join(d, name)
    r = subprocess.run(['git', '-C', '/repo', 'am', '-3', path], capture_output=True, text=True)
    if r.returncode != 0:
        print('FAILED to apply', name, r.stdout[-500:], r.stderr[-500:])
        subprocess.run(['git', '-C', '/repo', 'am', '--abort'])
        sys.exit(1)
    sha = subprocess.check_output(['git', '-C', '/repo', 'rev-parse', '--short', 'HEAD'], text=True).strip()
    subj = subprocess.check_output(['git', '-C', '/repo', 'log', '-1', '--format=%s'], text=True).strip()
    kf = json.load(open(kfp))
    n = 0
    props = p.get('properties') or [p.get('property')]
    sigs = p.get('signatures') or []
    for f in kf['findings']:
        if f['status'] != 'known':
            continue
        for s in sigs:
            sig = s.get('signature', s) if isinstance(s, dict) else s
            prop = s.get('property') if isinstance(s, dict) and 'signature' in s else None
            if f['signature'] == sig and (prop is None or prop == f['property']) and (f['property'] in props or prop == f['property'] or len(props) == 0 or props == [None]):
                f['status'] = 'fixed'
                f['commit'] = sha
                f['what'] = 'fixed: property=%s %s %s' % (f['property'], sha, f['what'])
                n += 1
    json.dump(kf, open(kfp, 'w'), indent=1)
    with open(os.path.join(d, 'APPLIED'), 'a') as fh:
        fh.write(name + '\n')
    print('applied %s as %s (%s): %d finding(s) flipped' % (name, sha, subj[:60], n))
