#!/usr/bin/env python3
"""tools/add_finding.py <property> '<signature json>' '<what fails>' [--status known|fixed --commit SHA]
Append an entry to known_findings.json under a file lock (never called by a check at run time)."""
import fcntl
import json
import os
import sys

ROOT = os.path.dirname(os.path.dirname(os.path.abspath(__file__)))
p = os.path.join(ROOT, "known_findings.json")
prop, sig, what = sys.argv[1], json.loads(sys.argv[2]), sys.argv[3]
status, commit = "known", None
if "--status" in sys.argv:
    status = sys.argv[sys.argv.index("--status") + 1]
if "--commit" in sys.argv:
    commit = sys.argv[sys.argv.index("--commit") + 1]
with open(p + ".lock", "w") as lk:
    fcntl.flock(lk, fcntl.LOCK_EX)
    doc = json.load(open(p))
    e = {"property": prop, "status": status, "signature": sig, "what": what}
    if commit:
        e["commit"] = commit
    doc["findings"].append(e)
    tmp = p + ".tmp"
    json.dump(doc, open(tmp, "w"), indent=1)
    os.replace(tmp, p)
print("added", e)
