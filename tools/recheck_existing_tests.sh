#!/bin/sh
# tools/recheck_existing_tests.sh <seeded-id> <base-commit>: apply seeded/<id>/patch.diff (no demonstration) to a fresh
# worktree at <base-commit> and run the whole existing test suite; prints the number of ok / failed test binaries.
ID="$1"; BASE="$2"; WT=/tmp/rc-$ID
git -C /repo worktree add -f $WT $BASE >/dev/null 2>&1
cd $WT && git apply /verif/seeded/$ID/patch.diff || { echo "patch does not apply"; exit 2; }
CARGO_TARGET_DIR=/tmp/rc-target cargo test --workspace --offline --no-fail-fast -j 8 2>&1 | grep -E "^test result" > /tmp/rc-$ID.log
echo "$ID: ok=$(grep -c 'test result: ok' /tmp/rc-$ID.log) failed=$(grep -c 'test result: FAILED' /tmp/rc-$ID.log)"
git -C /repo worktree remove --force $WT
