#!/usr/bin/env python3
"""Regenerate FIXES.md (all "fix:" commits in /repo with the properties whose findings they repaired) and
FINDINGS.md (remaining known findings) from /repo's git log and known_findings.json."""
import collections, json, subprocess
log = subprocess.check_output(['git', '-C', '/repo', 'log', '--reverse', '--format=%h\t%s', '2be5214..HEAD'], text=True).splitlines()
kf = json.load(open('/verif/known_findings.json'))['findings']
by = collections.defaultdict(set)
for f in kf:
    if f['status'] == 'fixed':
        by[f.get('commit', '')[:7]].add(f['property'])
out = ['# Repairs committed to /repo ("fix:" commits), in order', '',
       'Each was first reported by the named check(s) on the pinned tree, repaired in a scratch worktree, validated with the',
       "crate's unedited tests and the check (tools/scratch_check.sh), then applied. `known_findings.json` records them as `fixed`.", '',
       '| commit | subject | properties whose findings it repaired |', '|---|---|---|']
for l in log:
    sha, subj = l.split('\t', 1)
    if subj.startswith('fix:'):
        out.append('| %s | %s | %s |' % (sha, subj[5:].strip(), ', '.join(sorted(by.get(sha[:7], []))) or '(no registered finding; found while repairing)'))
out += ['', '# Hook commits ("verif-hook:")', '']
for l in log:
    sha, subj = l.split('\t', 1)
    if subj.startswith('verif-hook:'):
        out.append('* %s %s' % (sha, subj))
open('/verif/FIXES.md', 'w').write('\n'.join(out) + '\n')
known = [f for f in kf if f['status'] == 'known']
o2 = ['# Known findings (genuine defects recorded, not repaired)', '',
      'Each is reported by its check as `KNOWN-FINDING:` (exit 0); a different violation of the same property has a different signature and is reported as a VIOLATION.', '']
for p in sorted({f['property'] for f in known}):
    o2.append('## %s' % p)
    for f in known:
        if f['property'] == p:
            o2.append('* `%s` — %s' % (json.dumps(f['signature'], sort_keys=True), f['what'][:700]))
    o2.append('')
open('/verif/FINDINGS.md', 'w').write('\n'.join(o2) + '\n')
print(len([l for l in log if '\tfix:' in l]), 'fix commits;', len(known), 'known findings')
