#!/bin/sh
# tools/confirm_mutation3.sh <pid> "<install demo: shell, run in the worktree>" "<uninstall demo: shell>" "<cargo test args>" [check ids...]
# General form of confirm_mutation2.sh (crate-internal demonstrations need a module registration as well as a file).
# The worktree is first reset to the pinned tree + patch.diff.
PID="$1"; INST="$2"; UNINST="$3"; DEMO="$4"; shift 4
WT=/tmp/mw-$PID; M=/tmp/mut-$PID; export CARGO_TARGET_DIR=/tmp/cf-target-$PID
LOG=$M/confirm.log; : > $LOG
cd $WT
git checkout -q -- . ; git clean -fdq
git apply $M/patch.diff || { echo "patch does not apply" >> $LOG; exit 2; }
mkdir -p tests; for d in rten-tensor rten-gemm rten-onnx rten-text rten-generate rten-imageproc rten-serialize rten-simd rten-base; do [ -d $d ] && mkdir -p $d/tests; done
sh -c "$INST" >> $LOG 2>&1
echo "== demo WITH change (expect failure)" >> $LOG
cargo test --offline -j 8 $DEMO >> $LOG 2>&1; echo "exit=$?" >> $LOG
git apply -R $M/patch.diff
echo "== demo WITHOUT change (expect pass)" >> $LOG
cargo test --offline -j 8 $DEMO >> $LOG 2>&1; echo "exit=$?" >> $LOG
git apply $M/patch.diff
sh -c "$UNINST" >> $LOG 2>&1
echo "-- worktree status for the workspace run: $(git status --short | tr '\n' ' ')" >> $LOG
echo "== existing workspace tests WITH change (expect all ok)" >> $LOG
cargo test --workspace --offline --no-fail-fast -j 8 2>&1 | grep -E "^test result|FAILED|failed|panicked|^error|Running" | grep -B1 -E "^test result|FAILED|failed|panicked|^error" >> $LOG; echo "exit=$?" >> $LOG
rm -rf $CARGO_TARGET_DIR
unset CARGO_TARGET_DIR
for c in "$@"; do
  echo "== check $c against the changed worktree" >> $LOG
  /verif/tools/scratch_check.sh $WT /tmp/sc-$PID $c quick 2>&1 | cut -c1-300 | tail -25 >> $LOG; echo "exit=$?" >> $LOG
done
rm -rf /tmp/sc-$PID/harness/target
grep -E "^== |^exit=|^test result: F|VIOLATION|OK: property|FAILED:" $LOG | cut -c1-200
