//! C09 engine: apply chains of layout-changing operations to real `Tensor<i32>`
//! / `TensorView<i32>` values and record, after every step, the outcome and the
//! resulting shape and logical row-major elements (read by explicit indexing,
//! not through the operations under test). The trace spec recomputes the
//! abstract result (TensorStore.tla) and compares.
//!
//! Chains come from TLC (`--chains FILE`, `{shape, ops}`) and from a seeded
//! generator on larger shapes (`--random N`). Each chain is run on several
//! source layouts with the same abstract content (contiguous, column-major,
//! storage with gaps, offset slice of a larger tensor, broadcast).

use std::mem::MaybeUninit;

use rten_tensor::prelude::*;
use rten_tensor::{SliceItem, Tensor, TensorView};
use vcommon::{Rng, Trace, Value, guarded, json};

use crate::chains::{Op, apply_view_op, random_view_op};
use crate::util::*;

fn static_name(s: &str) -> &'static str {
    const NAMES: &[&str] = &[
        "slice", "slice_copy", "permute", "transpose", "move_axis", "index_axis", "slice_axis", "split_left",
        "split_right", "broadcast", "reshape", "reshape_view", "reshape_owned", "squeeze", "insert_axis", "remove_axis",
        "merge_axes", "to_contiguous", "to_tensor", "make_contiguous", "map", "to_vec", "iter", "copy_into_slice",
        "clip_dim", "append", "append_over", "view", "nd_view", "as_dyn",
    ];
    NAMES.iter().find(|n| **n == s).copied().unwrap_or_else(|| panic!("unknown op {s}"))
}

pub fn parse_op(v: &Value) -> Op {
    Op {
        op: static_name(v["op"].as_str().unwrap()),
        items: v["items"].as_array().unwrap().iter().map(Item::from_json).collect(),
        args: v["args"].as_array().unwrap().iter().map(|x| x.as_i64().unwrap()).collect(),
    }
}

fn us(x: i64) -> usize {
    x as usize // negative arguments become huge values, which the API must reject
}

struct Log<'t> {
    tr: &'t mut Trace,
}

impl Log<'_> {
    fn step(&mut self, op: &Op, outcome: &str, shape: &[usize], data: &[i32], other: Option<(&[usize], &[i32])>) {
        let (os, od) = other.unwrap_or((&[], &[]));
        self.tr.emit(json!({"ev": "step", "op": op.to_json(), "outcome": outcome, "shape": shape, "data": data,
                            "other_shape": os, "other_data": od}));
    }
    fn fail(&mut self, op: &Op, outcome: &str) {
        self.step(op, outcome, &[], &[], None);
    }
    fn view(&mut self, op: &Op, v: &TensorView<i32>) {
        let shape = v.shape().to_vec();
        self.step(op, "ok", &shape, &read_elems(v), None);
    }
}

/// Owned tensor with the same layout as `v` when that layout is usable for
/// an owned tensor (no overlap); elements not reachable through the layout
/// hold a sentinel.
fn own(v: &TensorView<i32>) -> Tensor<i32> {
    let shape = v.shape().to_vec();
    let strides = v.strides().to_vec();
    if let Some(len) = exact_min_len(&shape, &strides, 1 << 24) {
        let mut buf = vec![-9i32; len];
        let n: usize = shape.iter().product();
        if n > 0 {
            let mut idx = vec![0usize; shape.len()];
            loop {
                let off: usize = idx.iter().zip(&strides).map(|(i, s)| i * s).sum();
                buf[off] = *v.get(idx.as_slice()).unwrap();
                if !next_index(&mut idx, &shape) {
                    break;
                }
            }
        }
        if let Ok(t) = Tensor::from_data_with_strides(&shape, buf, &strides) {
            return t;
        }
    }
    Tensor::from_data(&shape, read_elems(v))
}

const MAX_ELEMS: usize = 4000;

fn go(log: &mut Log, mut v: TensorView<i32>, ops: &[Op], rng: &mut Rng) {
    let mut k = 0;
    while k < ops.len() {
        let op = &ops[k];
        k += 1;
        let rest = &ops[k..];
        let a = &op.args;
        match op.op {
            // ---------------------------------------------------- observers
            "to_vec" | "iter" | "copy_into_slice" => {
                let r = guarded(|| match op.op {
                    "to_vec" => v.to_vec(),
                    "iter" => v.iter().copied().collect(),
                    _ => {
                        let mut buf: Vec<MaybeUninit<i32>> = vec![MaybeUninit::uninit(); v.len()];
                        v.copy_into_slice(&mut buf).to_vec()
                    }
                });
                match r {
                    Ok(d) => log.step(op, "ok", &v.shape().to_vec(), &d, None),
                    Err(_) => log.fail(op, "panic"),
                }
            }
            // ------------------------------------- results that own new storage
            "reshape" => {
                let t: Vec<usize> = a.iter().map(|x| us(*x)).collect();
                match guarded(|| v.reshaped(t.as_slice())) {
                    Ok(r) => {
                        log.view(op, &r.view());
                        return go(log, r.view(), rest, rng);
                    }
                    Err(_) => log.fail(op, "panic"),
                }
            }
            "slice_copy" => {
                let r = guarded(|| {
                    let si: Vec<SliceItem> = op.items.iter().map(|i| i.to_slice_item()).collect();
                    v.slice_copy(si.as_slice())
                });
                match r {
                    Ok(t) => {
                        log.view(op, &t.view());
                        return go(log, t.view(), rest, rng);
                    }
                    Err(_) => log.fail(op, "panic"),
                }
            }
            "to_contiguous" => match guarded(|| v.to_contiguous()) {
                Ok(c) => {
                    // Contiguous<CowTensor> derefs to the tensor
                    let t = c.into_inner();
                    log.view(op, &t.view());
                    return go(log, t.view(), rest, rng);
                }
                Err(_) => log.fail(op, "panic"),
            },
            "to_tensor" => match guarded(|| v.to_tensor()) {
                Ok(t) => {
                    log.view(op, &t.view());
                    return go(log, t.view(), rest, rng);
                }
                Err(_) => log.fail(op, "panic"),
            },
            "map" => match guarded(|| v.map(|x| *x ^ 1)) {
                Ok(t) => {
                    log.view(op, &t.view());
                    return go(log, t.view(), rest, rng);
                }
                Err(_) => log.fail(op, "panic"),
            },
            // ---------------------------------------- operations on owned tensors
            "make_contiguous" | "reshape_owned" | "clip_dim" => {
                let mut t = own(&v);
                let r = guarded(|| match op.op {
                    "make_contiguous" => t.make_contiguous(),
                    "reshape_owned" => {
                        let s: Vec<usize> = a.iter().map(|x| us(*x)).collect();
                        t.reshape(s.as_slice())
                    }
                    _ => t.clip_dim(us(a[0]), us(a[1])..us(a[2])),
                });
                match r {
                    Ok(()) => {
                        log.view(op, &t.view());
                        return go(log, t.view(), rest, rng);
                    }
                    Err(_) => log.fail(op, "panic"),
                }
            }
            "append" | "append_over" => {
                // args: axis, size of `other` along axis, variant (0: plain, 1: capacity allocated in
                // transposed order and the tensor permuted back before appending)
                let (axis, extra, variant) = (us(a[0]), us(a[1]), a[2]);
                let nd = v.ndim();
                if axis >= nd {
                    // nothing sensible to build; let the API reject it on an owned copy
                    let mut t = own(&v);
                    let other = t.clone();
                    let r = guarded(|| t.append(axis, &other).is_ok());
                    let o = match r {
                        Ok(true) => "ok",
                        Ok(false) => "err",
                        Err(_) => "panic",
                    };
                    if o == "ok" {
                        log.step(op, "ok", &t.shape().to_vec(), &read_elems(&t.view()), Some((&other.shape().to_vec(), &read_elems(&other.view()))));
                        return go(log, t.view(), rest, rng);
                    }
                    log.fail(op, o);
                    continue;
                }
                let mut oshape = v.shape().to_vec();
                oshape[axis] = extra;
                let on: usize = oshape.iter().product();
                let other = Tensor::<i32>::from_data(&oshape, (0..on as i32).map(|x| 100_000 + x).collect::<Vec<_>>());
                let mut full = v.shape().to_vec();
                full[axis] += extra;
                let r = guarded(|| {
                    let mut t = if variant == 1 && nd >= 2 {
                        // capacity laid out with the dims reversed, then viewed in the logical order
                        let rev: Vec<usize> = full.iter().rev().copied().collect();
                        let mut t = Tensor::<i32>::with_capacity(&rev, nd - 1 - axis);
                        t.transpose();
                        t
                    } else {
                        Tensor::<i32>::with_capacity(&full, axis)
                    };
                    let first = t.append(axis, &v);
                    let second = t.append(axis, &other);
                    let third = if op.op == "append_over" { Some(t.append(axis, &other).is_ok()) } else { None };
                    (t, first.is_ok(), second.is_ok(), third)
                });
                match r {
                    Ok((t, true, true, None)) => {
                        log.step(op, "ok", &t.shape().to_vec(), &read_elems(&t.view()), Some((&oshape, &read_elems(&other.view()))));
                        return go(log, t.view(), rest, rng);
                    }
                    Ok((t, true, true, Some(over))) => {
                        // the third append exceeds the capacity: it must fail and leave the tensor unchanged
                        if over {
                            // the allocator handed out more capacity than requested: not judged
                            log.fail(op, "skipped");
                            continue;
                        }
                        log.step(op, "err", &t.shape().to_vec(), &read_elems(&t.view()),
                                 Some((&oshape, &read_elems(&other.view()))));
                        return go(log, t.view(), rest, rng);
                    }
                    Ok(_) => log.fail(op, "err"),
                    Err(_) => log.fail(op, "panic"),
                }
            }
            // -------------------------------------------------------- view ops
            _ => match guarded(|| apply_view_op(&v, op)) {
                Ok(Ok(w)) => {
                    let n: usize = w.shape().iter().product();
                    if n > MAX_ELEMS {
                        // keep traces small: do not follow huge broadcasts
                        log.fail(op, "skipped");
                        continue;
                    }
                    v = w;
                    log.view(op, &v);
                }
                Ok(Err(())) => log.fail(op, "err"),
                Err(_) => log.fail(op, "panic"),
            },
        }
    }
}

/// Run one chain on a given source layout.
fn run_chain(tr: &mut Trace, case_no: u64, shape: &[usize], ops: &[Op], source: &str, rng: &mut Rng) {
    let n: usize = shape.iter().product();
    let nd = shape.len();
    // All sources present the abstract tensor Iota(shape) except "bcast"/"sliced" whose content is logged.
    let (base, view_ops): (Tensor<i32>, Vec<Op>) = match source {
        "colmajor" => {
            // element idx lives at its column-major offset
            let mut strides = vec![1usize; nd];
            for d in 1..nd {
                strides[d] = strides[d - 1] * shape[d - 1].max(1);
            }
            let mut data = vec![-9i32; n];
            if n > 0 {
                let mut idx = vec![0usize; nd];
                let mut k = 0;
                loop {
                    let off: usize = idx.iter().zip(&strides).map(|(i, s)| i * s).sum();
                    data[off] = k;
                    k += 1;
                    if !next_index(&mut idx, shape) {
                        break;
                    }
                }
            }
            match Tensor::from_data_with_strides(shape, data, &strides) {
                Ok(t) => (t, vec![]),
                Err(_) => (Tensor::from_data(shape, (0..n as i32).collect::<Vec<_>>()), vec![]),
            }
        }
        "gapped" if nd > 0 && n > 0 => {
            // row-major strides doubled: every other storage element is unused
            let mut strides = vec![2usize; nd];
            for d in (0..nd - 1).rev() {
                strides[d] = strides[d + 1] * shape[d + 1];
            }
            let len = exact_min_len(shape, &strides, 1 << 24).unwrap();
            let mut data = vec![-9i32; len];
            for k in 0..n {
                data[2 * k] = k as i32;
            }
            (Tensor::from_data_with_strides(shape, data, &strides).unwrap(), vec![])
        }
        "sliced" if nd > 0 => {
            // offset slice [1.., 1.., ...] of a tensor one larger in every dim
            let big: Vec<usize> = shape.iter().map(|s| s + 1).collect();
            let bn: usize = big.iter().product();
            let items = (0..nd).map(|_| Item { idx: false, start: 1, end: 0, has_end: false, step: 1 }).collect();
            (Tensor::from_data(&big, (0..bn as i32).collect::<Vec<_>>()), vec![Op { op: "slice", items, args: vec![] }])
        }
        "bcast" if nd > 0 && shape[0] > 1 => {
            let mut small = shape.to_vec();
            small[0] = 1;
            let sn: usize = small.iter().product();
            let target: Vec<i64> = shape.iter().map(|s| *s as i64).collect();
            (Tensor::from_data(&small, (0..sn as i32).collect::<Vec<_>>()), vec![Op::new("broadcast", target)])
        }
        _ => (Tensor::from_data(shape, (0..n as i32).collect::<Vec<_>>()), vec![]),
    };
    let mut v = base.view();
    for o in &view_ops {
        v = apply_view_op(&v, o).expect("source construction");
    }
    let case = json!({"ev": "case", "case": case_no, "source": source, "shape": v.shape(), "data": read_elems(&v),
                      "strides": v.strides(), "nops": ops.len()});
    note_current(&case);
    tr.emit(case);
    let mut log = Log { tr };
    go(&mut log, v, ops, rng);
}

const SOURCES: &[&str] = &["contig", "colmajor", "gapped", "sliced", "bcast"];

fn random_op(rng: &mut Rng, shape: &[usize], contiguous: bool) -> Op {
    let nd = shape.len();
    let wild = rng.chance(1, 6);
    match rng.below(20) {
        0 => Op::new("to_contiguous", vec![]),
        1 => Op::new("map", vec![]),
        2 => Op::new(*rng.pick(&["to_vec", "iter", "copy_into_slice"]), vec![]),
        3 => Op::new(*rng.pick(&["to_tensor", "make_contiguous"]), vec![]),
        4 | 5 => {
            let mut op = random_view_op(rng, shape, true, wild);
            while op.op != "reshape_view" {
                op = random_view_op(rng, shape, true, wild);
            }
            Op { op: if rng.chance(1, 3) { "reshape_owned" } else { "reshape" }, items: vec![], args: op.args }
        }
        6 | 7 => {
            let n = rng.below(nd + 1);
            let items = (0..n).map(|d| random_item(rng, shape[d], true)).collect();
            Op { op: "slice_copy", items, args: vec![] }
        }
        8 if nd > 0 => {
            let d = rng.below(nd);
            let a = rng.below(shape[d] + 1);
            let b = a + rng.below(shape[d] + 1 - a) + if wild { 1 } else { 0 };
            Op::new("clip_dim", vec![d as i64, a as i64, b as i64])
        }
        9 | 10 if nd > 0 => {
            let d = rng.below(nd + if wild { 1 } else { 0 });
            Op::new(if rng.chance(1, 4) { "append_over" } else { "append" }, vec![d as i64, 1 + rng.below(3) as i64, rng.below(2) as i64])
        }
        _ => random_view_op(rng, shape, contiguous, wild),
    }
}

/// Plan a random chain by running it on a scratch contiguous tensor to learn
/// the intermediate shapes (arguments are chosen relative to them).
fn random_chain(rng: &mut Rng, shape: &[usize], nops: usize) -> Vec<Op> {
    let mut ops = vec![];
    let mut cur = shape.to_vec();
    for _ in 0..nops {
        let op = random_op(rng, &cur, true);
        // learn the resulting shape
        let mut sink = Trace::create("/dev/null");
        let n: usize = cur.iter().product();
        let t = Tensor::<i32>::from_data(&cur, vec![0; n]);
        let mut probe_shape = cur.clone();
        {
            let mut lg = Log { tr: &mut sink };
            // run just this op and read the shape back from a follow-up identity op
            struct Peek;
            let _ = Peek;
            let mut r2 = Rng::new(1);
            let res = guarded(|| {
                let mut out = None;
                let v = t.view();
                peek_shape(&mut lg, v, &op, &mut r2, &mut out);
                out
            });
            if let Ok(Some(s)) = res {
                probe_shape = s;
            }
        }
        if probe_shape.iter().product::<usize>() > 600 || probe_shape.len() > 5 {
            continue;
        }
        cur = probe_shape;
        ops.push(op);
    }
    ops
}

/// Shape after applying `op` to `v` (None if rejected).
fn peek_shape(log: &mut Log, v: TensorView<i32>, op: &Op, rng: &mut Rng, out: &mut Option<Vec<usize>>) {
    // run the op followed by a marker observer; the last emitted shape is read from a tiny in-memory trace
    let a = &op.args;
    *out = match op.op {
        "to_vec" | "iter" | "copy_into_slice" | "to_contiguous" | "to_tensor" | "map" | "make_contiguous" => Some(v.shape().to_vec()),
        "reshape" | "reshape_owned" => {
            let t: Vec<usize> = a.iter().map(|x| us(*x)).collect();
            if t.iter().product::<usize>() == v.len() { Some(t) } else { None }
        }
        "slice_copy" => {
            let si: Vec<SliceItem> = op.items.iter().map(|i| i.to_slice_item()).collect();
            guarded(|| v.slice_copy(si.as_slice()).shape().to_vec()).ok()
        }
        "clip_dim" => {
            let mut s = v.shape().to_vec();
            if us(a[0]) < s.len() && a[1] <= a[2] && us(a[2]) <= s[us(a[0])] {
                s[us(a[0])] = us(a[2]) - us(a[1]);
                Some(s)
            } else {
                None
            }
        }
        "append" | "append_over" => {
            let mut s = v.shape().to_vec();
            if us(a[0]) < s.len() {
                s[us(a[0])] += us(a[1]);
                Some(s)
            } else {
                None
            }
        }
        _ => match guarded(|| apply_view_op(&v, op)) {
            Ok(Ok(w)) => Some(w.shape().to_vec()),
            _ => None,
        },
    };
    let _ = (log, rng);
}

/// `vh-tensor layout --out TRACE [--chains FILE --per-chain K] [--random N]`
pub fn main_layout() {
    let out = vcommon::arg_or("--out", "-");
    let per_chain = vcommon::arg_usize("--per-chain", 2);
    let nrandom = vcommon::arg_usize("--random", 0);
    let only = vcommon::arg_usize("--only-case", 0) as u64;
    let forced_source = vcommon::arg("--source");
    let mut tr = Trace::create(&out);
    vcommon::quiet_panics();
    let mut rng = Rng::from_env();
    let mut case_no = 0u64;
    if let Some(f) = vcommon::arg("--chains") {
        for rec in vcommon::read_json_lines(&f) {
            let shape: Vec<usize> = rec["shape"].as_array().unwrap().iter().map(|x| x.as_u64().unwrap() as usize).collect();
            let ops: Vec<Op> = rec["ops"].as_array().unwrap().iter().map(parse_op).collect();
            for j in 0..per_chain {
                case_no += 1;
                let mut crng = Rng::new(rng.next_u64());
                let mut source = if j == 0 { SOURCES[(case_no as usize / per_chain.max(1)) % SOURCES.len()] } else { *crng.pick(SOURCES) };
                if let Some(s) = &forced_source {
                    source = SOURCES.iter().find(|x| **x == s.as_str()).copied().unwrap_or("contig");
                }
                if only != 0 && only != case_no {
                    continue;
                }
                run_chain(&mut tr, case_no, &shape, &ops, source, &mut crng);
            }
        }
    }
    for _ in 0..nrandom {
        case_no += 1;
        let mut crng = Rng::new(rng.next_u64());
        if only != 0 && only != case_no {
            continue;
        }
        let rank = crng.below(6);
        let mut shape: Vec<usize> = (0..rank).map(|_| *crng.pick(&[0usize, 1, 1, 2, 2, 3, 3, 4, 5, 6])).collect();
        while shape.iter().product::<usize>() > 600 {
            let d = crng.below(shape.len());
            shape[d] = 1 + shape[d] / 2;
        }
        let nops = 1 + crng.below(5);
        let ops = random_chain(&mut crng, &shape, nops);
        let source = *crng.pick(SOURCES);
        run_chain(&mut tr, case_no, &shape, &ops, source, &mut crng);
    }
    tr.flush();
    eprintln!("cases={case_no}");
}
