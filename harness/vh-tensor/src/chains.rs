//! C06 engine, part 2: marker-tensor chains. Storage element k holds the value
//! k, so every value obtained through a safe API reveals the storage offset it
//! came from. The markers sit in the middle of a larger buffer whose guard
//! bands hold GUARD, so a modest out-of-bounds read is observable.
//!
//! * `view` cases: seeded chains of view operations (slice, permute, broadcast,
//!   index_axis, split_at, reshape, ...), after each of which the view's
//!   shape/strides/storage window and the values returned by `get()` / `[]` /
//!   weakly-checked indexing for valid and invalid indices are recorded.
//! * `mut` cases: a chain of mutable view operations followed by one way of
//!   obtaining many live `&mut` references at once (iter_mut from both ends,
//!   lanes_mut, inner_iter_mut, axis_iter_mut, axis_chunks_mut, recursive
//!   split_at_mut, get_mut); the address offset of every reference alive at the
//!   same time is recorded (address arithmetic only).
//! The harness decides nothing: Trace_Chains.tla judges the records.

use rten_tensor::prelude::*;
use rten_tensor::{SliceItem, Storage, TensorView, TensorViewMut};
use vcommon::{Rng, Trace, Value, guarded, json};

use crate::util::*;

pub const GUARD: i32 = -7;
const G: usize = 64;

/// A view operation in the form the TLA+ specs read: `{op, items, args}`.
#[derive(Clone, Debug)]
pub struct Op {
    pub op: &'static str,
    pub items: Vec<Item>,
    pub args: Vec<i64>,
}

impl Op {
    pub fn new(op: &'static str, args: Vec<i64>) -> Op {
        Op { op, items: vec![], args }
    }
    pub fn to_json(&self) -> Value {
        json!({"op": self.op, "items": self.items.iter().map(|i| i.to_json()).collect::<Vec<_>>(), "args": self.args})
    }
}

fn us(x: i64) -> usize {
    // invalid (negative) arguments are never generated for usize parameters
    x as usize
}

/// Random view operation for a view of the given shape. `wild` = allow
/// arguments that the API must reject.
pub fn random_view_op(rng: &mut Rng, shape: &[usize], contiguous: bool, wild: bool) -> Op {
    let nd = shape.len();
    loop {
        match rng.below(14) {
            0 | 1 | 2 => {
                let n = if wild && rng.chance(1, 8) { nd + 1 } else { rng.below(nd + 1) };
                let items = (0..n).map(|d| random_item(rng, shape.get(d).copied().unwrap_or(2), wild)).collect();
                return Op { op: "slice", items, args: vec![] };
            }
            3 | 4 => {
                let mut p: Vec<i64> = random_perm(rng, nd).into_iter().map(|x| x as i64).collect();
                if wild && nd > 0 && rng.chance(1, 6) {
                    p[0] = p[nd - 1]; // not a permutation unless nd == 1
                }
                return Op::new("permute", p);
            }
            5 => return Op::new("transpose", vec![]),
            6 if nd > 0 => {
                let hi = if wild { nd } else { nd - 1 };
                return Op::new("move_axis", vec![rng.range(0, hi as i64), rng.range(0, hi as i64)]);
            }
            7 if nd > 0 => {
                let axis = rng.below(nd);
                let sz = shape[axis] as i64;
                let idx = if wild { rng.range(0, sz + 1) } else if sz == 0 { continue } else { rng.range(0, sz - 1) };
                return Op::new("index_axis", vec![axis as i64, idx]);
            }
            8 if nd > 0 => {
                let axis = rng.below(nd);
                let sz = shape[axis] as i64;
                let a = rng.range(0, sz);
                let b = if wild { rng.range(0, sz + 1) } else { rng.range(a, sz) };
                return Op::new("slice_axis", vec![axis as i64, a, b]);
            }
            9 if nd > 0 => {
                let axis = rng.below(nd);
                let sz = shape[axis] as i64;
                let mid = if wild { rng.range(0, sz + 1) } else { rng.range(0, sz) };
                return Op::new(if rng.chance(1, 2) { "split_left" } else { "split_right" }, vec![axis as i64, mid]);
            }
            10 => {
                // broadcast: prepend dims, expand size-1 dims
                let extra = rng.below(2);
                let mut t: Vec<i64> = (0..extra).map(|_| rng.range(1, 3)).collect();
                for &s in shape {
                    t.push(if s == 1 && rng.chance(1, 2) { rng.range(0, 3) } else if wild && rng.chance(1, 8) { s as i64 + 1 } else { s as i64 });
                }
                if t.len() > 5 {
                    continue;
                }
                return Op::new("broadcast", t);
            }
            11 => {
                if !contiguous && !wild {
                    continue;
                }
                // reshape to a random factorisation of the element count
                let n: usize = shape.iter().product();
                let mut t = vec![];
                let mut rest = n.max(1);
                if n == 0 {
                    t = vec![0, rng.range(1, 3)];
                } else {
                    for f in [2usize, 3, 2, 5] {
                        if rest % f == 0 && rng.chance(2, 3) {
                            t.push(f as i64);
                            rest /= f;
                        }
                    }
                    t.push(rest as i64);
                    if wild && rng.chance(1, 6) {
                        t[0] += 1;
                    }
                }
                return Op::new("reshape_view", t);
            }
            12 => {
                return match rng.below(3) {
                    0 => Op::new("squeeze", vec![]),
                    1 => Op::new("merge_axes", vec![]),
                    _ => {
                        if nd >= 5 {
                            continue;
                        }
                        Op::new("insert_axis", vec![rng.range(0, nd as i64 + if wild { 1 } else { 0 })])
                    }
                };
            }
            13 if nd > 0 => {
                let ones: Vec<usize> = (0..nd).filter(|d| shape[*d] == 1).collect();
                let d = if !ones.is_empty() && !(wild && rng.chance(1, 4)) { *rng.pick(&ones) } else if wild { rng.below(nd) } else { continue };
                return Op::new("remove_axis", vec![d as i64]);
            }
            _ => continue,
        }
    }
}

/// Apply a view operation to an immutable view. Err(true) = the API reported
/// an error, panics propagate to the caller's `guarded`.
pub fn apply_view_op<'a>(v: &TensorView<'a, i32>, op: &Op) -> Result<TensorView<'a, i32>, ()> {
    let a = &op.args;
    let mut w = v.clone();
    Ok(match op.op {
        "slice" => {
            let si: Vec<SliceItem> = op.items.iter().map(|i| i.to_slice_item()).collect();
            v.try_slice_dyn(si.as_slice()).map_err(|_| ())?
        }
        "permute" => {
            let p: Vec<usize> = a.iter().map(|x| us(*x)).collect();
            v.permuted(p.as_slice())
        }
        "transpose" => v.transposed(),
        "move_axis" => {
            w.move_axis(us(a[0]), us(a[1]));
            w
        }
        "index_axis" => v.index_axis(us(a[0]), us(a[1])),
        "slice_axis" => v.slice_axis(us(a[0]), us(a[1])..us(a[2])),
        "split_left" => v.split_at(us(a[0]), us(a[1])).0,
        "split_right" => v.split_at(us(a[0]), us(a[1])).1,
        "broadcast" => {
            let t: Vec<usize> = a.iter().map(|x| us(*x)).collect();
            v.try_broadcast(t.as_slice()).map_err(|_| ())?
        }
        "reshape_view" => {
            let t: Vec<usize> = a.iter().map(|x| us(*x)).collect();
            // view-only reshape: the layout-level check used by reshaped()/reshaped_mut()
            let r = v.reshaped(t.as_slice());
            match v.data() {
                Some(d) if r.shape() == t.as_slice() && v.is_contiguous() => {
                    TensorView::from_data(t.as_slice(), d)
                }
                _ => return Err(()),
            }
        }
        "squeeze" => v.squeezed(),
        "insert_axis" => {
            w.insert_axis(us(a[0]));
            w
        }
        "remove_axis" => {
            w.remove_axis(us(a[0]));
            w
        }
        "merge_axes" => {
            w.merge_axes();
            w
        }
        "nd_view" | "as_dyn" | "view" => v.view(),
        _ => unreachable!("op {}", op.op),
    })
}

fn rel(ptr: *const i32, root: *const i32) -> i64 {
    ((ptr as isize - root as isize) / 4) as i64
}

/// Some valid and some invalid indices for `shape`.
fn probe_indices(rng: &mut Rng, shape: &[usize]) -> Vec<Vec<usize>> {
    let n: usize = shape.iter().product();
    let mut out = Vec::new();
    if n > 0 {
        if n <= 48 {
            let mut idx = vec![0usize; shape.len()];
            loop {
                out.push(idx.clone());
                if !next_index(&mut idx, shape) {
                    break;
                }
            }
        } else {
            for _ in 0..40 {
                out.push(shape.iter().map(|s| rng.below(*s)).collect());
            }
            out.push(shape.iter().map(|s| s - 1).collect());
        }
    }
    // invalid: one component == size or beyond, wrong rank
    for d in 0..shape.len() {
        let mut idx: Vec<usize> = shape.iter().map(|s| if *s == 0 { 0 } else { rng.below(*s) }).collect();
        idx[d] = shape[d] + rng.below(2);
        out.push(idx);
    }
    out.push(shape.iter().map(|s| s.saturating_sub(1)).chain([0usize]).collect());
    if !shape.is_empty() {
        out.push(shape[1..].iter().map(|s| s.saturating_sub(1)).collect());
    }
    out
}

const NONE: i32 = -1;
const PANIC: i32 = -2;

fn log_view(tr: &mut Trace, rng: &mut Rng, ev: &str, op: &Op, outcome: &str, v: &TensorView<i32>, root: *const i32) {
    let shape = v.shape().to_vec();
    let strides = v.strides().to_vec();
    let dbase = rel(v.data_ptr(), root);
    let dlen = v.storage().len();
    // Never read through a view whose layout exceeds its storage window.
    let extent = exact_min_len(&shape, &strides, 1 << 30);
    let readable = matches!(extent, Some(e) if e <= dlen);
    let mut idxs: Vec<Vec<usize>> = vec![];
    let (mut gets, mut brackets, mut weak) = (vec![], vec![], vec![]);
    if readable && outcome == "ok" {
        idxs = probe_indices(rng, &shape);
        for idx in &idxs {
            gets.push(v.get(idx.as_slice()).copied().unwrap_or(NONE));
            let valid = idx.len() == shape.len() && idx.iter().zip(&shape).all(|(i, s)| i < s);
            // `[]` on invalid indices must panic; exercise it on a few of them
            if valid || rng.chance(1, 2) {
                brackets.push(guarded(|| v[idx.as_slice()]).unwrap_or(PANIC));
            } else {
                brackets.push(NONE);
            }
            if valid {
                let wv = v.weakly_checked_view();
                weak.push(guarded(|| wv[idx.as_slice()]).unwrap_or(PANIC));
            } else {
                weak.push(NONE);
            }
        }
    }
    tr.emit(json!({"ev": ev, "op": op.to_json(), "outcome": outcome, "shape": shape, "strides": strides,
                   "dbase": dbase, "dlen": dlen, "readable": readable,
                   "idxs": idxs, "gets": gets, "brackets": brackets, "weak": weak}));
}

fn random_shape(rng: &mut Rng, max_rank: usize) -> Vec<usize> {
    let rank = rng.below(max_rank + 1);
    (0..rank).map(|_| *rng.pick(&[0usize, 1, 1, 2, 2, 3, 3, 4, 5])).collect()
}

fn view_chain(tr: &mut Trace, rng: &mut Rng, case_no: u64) {
    let shape = random_shape(rng, 4);
    let n: usize = shape.iter().product();
    let mut buf = vec![GUARD; n + 2 * G];
    for k in 0..n {
        buf[G + k] = k as i32;
    }
    let root = unsafe { buf.as_ptr().add(G) };
    let rootv = TensorView::<i32>::from_data(&shape, &buf[G..G + n]);
    let case = json!({"ev": "case", "case": case_no, "kind": "view", "n": n, "shape": shape});
    note_current(&case);
    tr.emit(case);
    let mut v = rootv.clone();
    log_view(tr, rng, "op", &Op::new("view", vec![]), "ok", &v, root);
    let nops = 1 + rng.below(5);
    for _ in 0..nops {
        let wild = rng.chance(1, 5);
        let op = random_view_op(rng, &v.shape().to_vec(), v.is_contiguous(), wild);
        match guarded(|| apply_view_op(&v, &op)) {
            Ok(Ok(w)) => {
                v = w;
                log_view(tr, rng, "op", &op, "ok", &v, root);
            }
            Ok(Err(())) => log_view(tr, rng, "op", &op, "err", &v, root),
            Err(_) => log_view(tr, rng, "op", &op, "panic", &v, root),
        }
    }
}

// ------------------------------------------------------------------ mutable

struct MutLog<'t> {
    tr: &'t mut Trace,
    root: *const i32,
}

impl MutLog<'_> {
    fn off(&self, r: &mut i32) -> i64 {
        rel(r as *mut i32 as *const i32, self.root)
    }
    fn emit(&mut self, ev: &str, op: &Op, outcome: &str, v: &TensorViewMut<i32>, offsets: Vec<i64>) {
        let dbase = rel(v.data_ptr(), self.root);
        let dlen = v.view().storage().len();
        self.tr.emit(json!({"ev": ev, "op": op.to_json(), "outcome": outcome, "shape": v.shape(), "strides": v.strides(),
                            "dbase": dbase, "dlen": dlen, "offsets": offsets}));
    }
}

/// Random way of holding many `&mut` at once on a view of `shape`.
fn random_leaf(rng: &mut Rng, shape: &[usize]) -> Op {
    let nd = shape.len();
    loop {
        match rng.below(9) {
            0 => return Op::new("iter_mut", vec![]),
            1 => return Op::new("iter_mut_both_ends", vec![rng.range(0, 3)]),
            2 if nd > 0 => return Op::new("lanes_mut", vec![rng.below(nd) as i64]),
            3 => return Op::new("inner_iter_mut", vec![rng.below(nd.min(3) + 1) as i64]),
            4 if nd > 0 => return Op::new("axis_iter_mut", vec![rng.below(nd) as i64]),
            5 if nd > 0 => return Op::new("axis_chunks_mut", vec![rng.below(nd) as i64, rng.range(1, 3)]),
            6 if nd > 0 => return Op::new("split_tree", vec![rng.range(1, 3), rng.next_u64() as i64 & 0xffff]),
            7 if shape.iter().all(|s| *s > 0) => {
                return Op::new("get_mut", shape.iter().map(|s| rng.below(*s) as i64).collect());
            }
            8 => return Op::new("iter_mut_nth_rev", vec![rng.range(0, 2)]),
            _ => continue,
        }
    }
}

/// Recursively split a mutable view into disjoint pieces, all alive at once.
fn split_tree<'a>(v: TensorViewMut<'a, i32>, depth: i64, rng: &mut Rng, out: &mut Vec<TensorViewMut<'a, i32>>) {
    if depth == 0 || v.ndim() == 0 {
        out.push(v);
        return;
    }
    let axis = rng.below(v.ndim());
    let mid = rng.below(v.size(axis) + 1);
    let (l, r) = v.split_at_mut(axis, mid);
    split_tree(l, depth - 1, rng, out);
    split_tree(r, depth - 1, rng, out);
}

fn run_leaf(log: &mut MutLog, mut v: TensorViewMut<i32>, leaf: &Op) {
    let a = &leaf.args;
    let mut offs: Vec<i64> = vec![];
    // a copy of the view's description for the record (the view itself may be consumed)
    let r = guarded(|| {
        match leaf.op {
            "iter_mut" => {
                let refs: Vec<&mut i32> = v.iter_mut().collect();
                for r in refs {
                    offs.push(log.off(r));
                }
            }
            "iter_mut_both_ends" => {
                let mut it = v.iter_mut();
                let mut refs: Vec<&mut i32> = vec![];
                let mut k = 0;
                loop {
                    let x = if k % (a[0] + 2) == 0 { it.next_back() } else { it.next() };
                    match x {
                        Some(r) => refs.push(r),
                        None => break,
                    }
                    k += 1;
                }
                for r in refs {
                    offs.push(log.off(r));
                }
            }
            "iter_mut_nth_rev" => {
                let mut it = v.iter_mut();
                let mut refs: Vec<&mut i32> = vec![];
                if let Some(r) = it.nth(us(a[0])) {
                    refs.push(r);
                }
                refs.extend(it.rev());
                for r in refs {
                    offs.push(log.off(r));
                }
            }
            "lanes_mut" => {
                let mut refs: Vec<&mut i32> = vec![];
                for lane in v.lanes_mut(us(a[0])) {
                    refs.extend(lane);
                }
                for r in refs {
                    offs.push(log.off(r));
                }
            }
            "inner_iter_mut" => {
                let mut views: Vec<TensorViewMut<i32>> = v.inner_iter_dyn_mut(us(a[0])).collect();
                let mut refs: Vec<&mut i32> = vec![];
                for w in views.iter_mut() {
                    refs.extend(w.iter_mut());
                }
                for r in refs {
                    offs.push(log.off(r));
                }
            }
            "axis_iter_mut" => {
                let mut views: Vec<TensorViewMut<i32>> = v.axis_iter_mut(us(a[0])).collect();
                let mut refs: Vec<&mut i32> = vec![];
                for w in views.iter_mut() {
                    refs.extend(w.iter_mut());
                }
                for r in refs {
                    offs.push(log.off(r));
                }
            }
            "axis_chunks_mut" => {
                let mut views: Vec<TensorViewMut<i32>> = v.axis_chunks_mut(us(a[0]), us(a[1])).collect();
                let mut refs: Vec<&mut i32> = vec![];
                for w in views.iter_mut() {
                    refs.extend(w.iter_mut());
                }
                for r in refs {
                    offs.push(log.off(r));
                }
            }
            "split_tree" => {
                let mut rng = Rng::new(a[1] as u64);
                let mut leaves = vec![];
                split_tree(v.view_mut(), a[0], &mut rng, &mut leaves);
                let mut refs: Vec<&mut i32> = vec![];
                for w in leaves.iter_mut() {
                    refs.extend(w.iter_mut());
                }
                for r in refs {
                    offs.push(log.off(r));
                }
            }
            "get_mut" => {
                let idx: Vec<usize> = a.iter().map(|x| us(*x)).collect();
                if let Some(r) = v.get_mut(idx.as_slice()) {
                    offs.push(log.off(r));
                }
            }
            _ => unreachable!(),
        }
    });
    let outcome = if r.is_ok() { "ok" } else { "panic" };
    log.emit("leaf", leaf, outcome, &v, offs);
}

/// Apply mutable view operations recursively (each view borrows its parent),
/// then run the leaf.
fn mut_chain(log: &mut MutLog, mut v: TensorViewMut<i32>, ops: &[Op], leaf: &Op) {
    let Some((op, rest)) = ops.split_first() else {
        return run_leaf(log, v, leaf);
    };
    let a = &op.args;
    macro_rules! step {
        ($e:expr) => {{
            // the API call itself may panic on invalid arguments
            let probe = guarded(|| {
                let _ = $e;
            });
            if probe.is_err() {
                log.emit("mop", op, "panic", &v, vec![]);
                return mut_chain(log, v, rest, leaf);
            }
            let w = $e;
            log.emit("mop", op, "ok", &w, vec![]);
            mut_chain(log, w, rest, leaf)
        }};
    }
    match op.op {
        "slice" => {
            let si: Vec<SliceItem> = match guarded(|| op.items.iter().map(|i| i.to_slice_item()).collect::<Vec<_>>()) {
                Ok(si) => si,
                Err(_) => {
                    log.emit("mop", op, "panic", &v, vec![]);
                    return mut_chain(log, v, rest, leaf);
                }
            };
            if v.try_slice_mut(si.as_slice()).is_err() {
                log.emit("mop", op, "err", &v, vec![]);
                return mut_chain(log, v, rest, leaf);
            }
            let w = v.try_slice_mut(si.as_slice()).unwrap();
            log.emit("mop", op, "ok", &w, vec![]);
            mut_chain(log, w, rest, leaf)
        }
        "permute" => {
            let p: Vec<usize> = a.iter().map(|x| us(*x)).collect();
            step!(v.permuted_mut(p.as_slice()))
        }
        "index_axis" => step!(v.index_axis_mut(us(a[0]), us(a[1]))),
        "slice_axis" => step!(v.slice_axis_mut(us(a[0]), us(a[1])..us(a[2]))),
        "reshape_view" => {
            let t: Vec<usize> = a.iter().map(|x| us(*x)).collect();
            if v.reshaped_mut(t.as_slice()).is_err() {
                log.emit("mop", op, "err", &v, vec![]);
                return mut_chain(log, v, rest, leaf);
            }
            let w = v.reshaped_mut(t.as_slice()).unwrap();
            log.emit("mop", op, "ok", &w, vec![]);
            mut_chain(log, w, rest, leaf)
        }
        "split_left" | "split_right" => {
            let (axis, mid) = (us(a[0]), us(a[1]));
            if axis >= v.ndim() || mid > v.size(axis) {
                // split_at_mut consumes the view, so invalid arguments are probed on a reborrow
                let r = guarded(|| {
                    let _ = v.view_mut().split_at_mut(axis, mid);
                });
                log.emit("mop", op, if r.is_err() { "panic" } else { "ok_unexpected" }, &v, vec![]);
                return mut_chain(log, v, rest, leaf);
            }
            let (l, r) = v.split_at_mut(axis, mid);
            let w = if op.op == "split_left" { l } else { r };
            log.emit("mop", op, "ok", &w, vec![]);
            mut_chain(log, w, rest, leaf)
        }
        "view" => step!(v.view_mut()),
        "as_dyn" => step!(v.as_dyn_mut()),
        _ => unreachable!("mutable op {}", op.op),
    }
}

fn random_mut_op(rng: &mut Rng, shape: &[usize], contiguous: bool) -> Op {
    loop {
        let wild = rng.chance(1, 6);
        let op = random_view_op(rng, shape, contiguous, wild);
        if matches!(op.op, "slice" | "permute" | "index_axis" | "slice_axis" | "reshape_view" | "split_left" | "split_right") {
            return op;
        }
        if rng.chance(1, 10) {
            return Op::new(if rng.chance(1, 2) { "view" } else { "as_dyn" }, vec![]);
        }
    }
}

/// The shape a mutable op produces, computed with the immutable API on a
/// scratch tensor (only used to pick sensible arguments for the next op).
fn shape_after(shape: &[usize], strides_contig: bool, op: &Op) -> (Vec<usize>, bool) {
    let n: usize = shape.iter().product();
    let data: Vec<i32> = vec![0; n];
    let t = TensorView::<i32>::from_data(shape, data.as_slice());
    let _ = strides_contig;
    match guarded(|| apply_view_op(&t, op).map(|w| (w.shape().to_vec(), w.is_contiguous()))) {
        Ok(Ok(x)) => x,
        _ => (shape.to_vec(), true),
    }
}

fn mut_case(tr: &mut Trace, rng: &mut Rng, case_no: u64) {
    let shape = random_shape(rng, 4);
    let n: usize = shape.iter().product();
    let mut buf = vec![GUARD; n + 2 * G];
    for k in 0..n {
        buf[G + k] = k as i32;
    }
    let root = unsafe { buf.as_ptr().add(G) };
    let case = json!({"ev": "case", "case": case_no, "kind": "mut", "n": n, "shape": shape});
    note_current(&case);
    tr.emit(case);
    // plan the chain on a scratch copy (shapes only), then run it on the real buffer
    let mut ops = vec![];
    let (mut cur, mut contig) = (shape.clone(), true);
    for _ in 0..rng.below(4) {
        let op = random_mut_op(rng, &cur, contig);
        let (s2, c2) = shape_after(&cur, contig, &op);
        cur = s2;
        contig = c2;
        ops.push(op);
    }
    let leaf = random_leaf(rng, &cur);
    let rootv = TensorViewMut::<i32>::from_data(&shape, &mut buf[G..G + n]);
    let mut log = MutLog { tr, root };
    log.emit("mop", &Op::new("view", vec![]), "ok", &rootv, vec![]);
    mut_chain(&mut log, rootv, &ops, &leaf);
    // the harness only takes addresses: markers and guards must be untouched
    let intact = buf[..G].iter().chain(buf[G + n..].iter()).all(|x| *x == GUARD)
        && (0..n).all(|k| buf[G + k] == k as i32);
    tr.emit(json!({"ev": "end", "intact": intact}));
}

/// `vh-tensor chains --out TRACE --views N --muts M`
pub fn main_chains() {
    let out = vcommon::arg_or("--out", "-");
    let nviews = vcommon::arg_usize("--views", 100);
    let nmuts = vcommon::arg_usize("--muts", 100);
    let mut tr = Trace::create(&out);
    vcommon::quiet_panics();
    let only = vcommon::arg_usize("--only-case", 0) as u64;
    let mut rng = Rng::from_env();
    let mut case_no = 0u64;
    // every case draws from its own generator (seeded from the run seed and the
    // case number), so a single case can be re-run with --only-case
    for i in 0..(nviews + nmuts) {
        case_no += 1;
        let mut crng = Rng::new(rng.next_u64());
        if only != 0 && only != case_no {
            continue;
        }
        if i < nviews {
            view_chain(&mut tr, &mut crng, case_no);
        } else {
            mut_case(&mut tr, &mut crng, case_no);
        }
    }
    tr.flush();
    eprintln!("cases={case_no}");
}
