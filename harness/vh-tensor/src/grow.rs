//! C06 engine, part 3: growth of OWNED tensors in place (has_capacity / append /
//! with_capacity + append / concat). These APIs build a new layout over an
//! existing Vec-backed (mutable) buffer, so accepting a grown layout that
//! overlaps itself hands out aliasing `&mut`.
//!
//! Input: the `small` vectors of MC_Construct (shape, strides as limbs). For
//! each vector, and for variants whose size-0/size-1 axes get tied or huge
//! strides, an owned tensor is built by two routes (from_data_with_strides over
//! a Vec with chosen spare capacity; with_capacity + append), then EVERY axis is
//! grown by 1 and 2 with the Vec capacity below / exactly at / above the grown
//! layout's true extent. Recorded per attempt: what has_capacity answered, what
//! append returned, the shape/strides/storage length of the result and the
//! address offsets of all `&mut` alive at once from iter_mut, axis_iter_mut and
//! lanes_mut on the RESULT (address arithmetic only). Trace_Grow.tla judges.

use rten_tensor::prelude::*;
use rten_tensor::{Storage, Tensor};
use vcommon::{Trace, Value, guarded, json};

use crate::util::*;

fn rel(p: *const i32, root: *const i32) -> i64 {
    ((p as isize - root as isize) / 4) as i64
}

/// Address offsets (relative to the tensor's data pointer) of the `&mut`
/// alive at once, obtained three ways (each guarded separately: lanes_mut and
/// axis_iter_mut assert `!is_broadcast()`). Only called when the layout's true
/// extent fits the storage. Returns the offsets and which of the three panicked.
fn live_muts(t: &mut Tensor<i32>, axis: usize) -> (Vec<i64>, Vec<i64>, Vec<i64>, Vec<bool>) {
    let root = t.data_ptr();
    let a = guarded(|| {
        let refs: Vec<&mut i32> = t.iter_mut().collect();
        refs.into_iter().map(|r| rel(r as *mut i32, root)).collect::<Vec<i64>>()
    });
    let b = guarded(|| {
        let mut views: Vec<_> = t.axis_iter_mut(axis).collect();
        let mut refs: Vec<&mut i32> = vec![];
        for w in views.iter_mut() {
            refs.extend(w.iter_mut());
        }
        refs.into_iter().map(|r| rel(r as *mut i32, root)).collect::<Vec<i64>>()
    });
    let c = guarded(|| {
        let mut refs: Vec<&mut i32> = vec![];
        for lane in t.lanes_mut(axis) {
            refs.extend(lane);
        }
        refs.into_iter().map(|r| rel(r as *mut i32, root)).collect::<Vec<i64>>()
    });
    let panics = vec![a.is_err(), b.is_err(), c.is_err()];
    (a.unwrap_or_default(), b.unwrap_or_default(), c.unwrap_or_default(), panics)
}

fn storage_len(t: &Tensor<i32>) -> usize {
    t.view().storage().len()
}

/// Grow `t` (already built) along `axis` by `extra` and record everything.
fn attempt(route: &str, mut t: Tensor<i32>, axis: usize, extra: usize, cap: usize, out: &mut Vec<Value>) {
    let shape = t.shape().to_vec();
    let strides = t.strides().to_vec();
    let new_size = shape[axis] + extra;
    let has = t.has_capacity(axis, new_size);
    let mut oshape = shape.clone();
    oshape[axis] = extra;
    let on: usize = oshape.iter().product();
    let other = Tensor::<i32>::from_data(&oshape, (0..on as i32).map(|x| 100_000 + x).collect::<Vec<_>>());
    let r = guarded(|| t.append(axis, &other).is_ok());
    let outcome = match r {
        Ok(true) => "ok",
        Ok(false) => "err",
        Err(_) => "panic",
    };
    let rshape = t.shape().to_vec();
    let rstrides = t.strides().to_vec();
    let rlen = storage_len(&t);
    // live &mut on the result, if its true extent lies inside the storage
    let fits = matches!(exact_min_len(&rshape, &rstrides, 1 << 24), Some(e) if e <= rlen);
    let collected = outcome == "ok" && fits;
    let (a, b, c, panics) = if collected { live_muts(&mut t, axis) } else { (vec![], vec![], vec![], vec![false; 3]) };
    out.push(json!({"route": route, "shapeW": words(&shape), "stridesW": words(&strides), "axis": axis, "extra": extra,
                    "cap": cap.min(SMALL_LIMIT), "has": has, "append": outcome,
                    "rshapeW": words(&rshape), "rstridesW": words(&rstrides), "rlen": rlen.min(SMALL_LIMIT), "collected": collected,
                    "iter_mut": a, "axis_iter_mut": b, "lanes_mut": c, "mut_panics": panics}));
}

/// Route A: from_data_with_strides over a Vec with `cap` capacity.
fn build_strided(shape: &[usize], strides: &[usize], cap: usize) -> Option<(Tensor<i32>, usize)> {
    let len = exact_min_len(shape, strides, 1 << 16)?;
    let mut v: Vec<i32> = Vec::with_capacity(cap.max(len));
    v.extend(0..len as i32);
    let cap = v.capacity();
    Tensor::<i32>::from_data_with_strides(shape, v, strides).ok().map(|t| (t, cap))
}

fn run_vector(tr: &mut Trace, case_no: u64, shape: &[usize], strides: &[usize]) {
    let case = json!({"ev": "case", "case": case_no, "kind": "grow", "shapeW": words(shape), "stridesW": words(strides)});
    note_current(&case);
    let nd = shape.len();
    let mut out: Vec<Value> = vec![];
    // stride variants for the size-0 / size-1 axes (their strides are arbitrary)
    let mut variants: Vec<(String, Vec<usize>)> = vec![("as_given".into(), strides.to_vec())];
    let max_other = |d: usize| strides.iter().enumerate().filter(|(i, _)| *i != d).map(|(_, s)| *s).max().unwrap_or(1);
    for d in 0..nd {
        if shape[d] <= 1 {
            let mut tie = strides.to_vec();
            tie[d] = max_other(d);
            variants.push((format!("tie{d}"), tie));
            let mut huge = strides.to_vec();
            huge[d] = 1usize << 63;
            variants.push((format!("huge{d}"), huge));
        }
    }
    variants.dedup_by(|a, b| a.1 == b.1);
    for (vname, st) in &variants {
        for axis in 0..nd {
            for extra in 1..=2usize {
                let mut grown = shape.to_vec();
                grown[axis] += extra;
                // true extent of the grown layout (may be astronomically large for the huge variants)
                let need = exact_min_len(&grown, st, 1 << 16);
                let caps: Vec<usize> = match need {
                    Some(n) => vec![n.saturating_sub(1), n, n + 2],
                    None => vec![64],
                };
                for cap in caps {
                    if let Some((t, cap)) = build_strided(shape, st, cap) {
                        attempt(&format!("from_data_with_strides/{vname}"), t, axis, extra, cap, &mut out);
                    }
                }
            }
        }
    }
    // Route B (once per shape: only for the vector that carries the contiguous strides): from_data
    // (contiguous) with spare capacity, with_capacity + append, and concat, for every axis
    let n: usize = shape.iter().product();
    let contig: Vec<usize> = (0..nd).map(|d| shape[d + 1..].iter().product()).collect();
    let route_b = strides == contig.as_slice();
    for axis in (0..nd).filter(|_| route_b) {
        for extra in 1..=2usize {
            let mut v: Vec<i32> = Vec::with_capacity(n + 8);
            v.extend(0..n as i32);
            let cap = v.capacity();
            let t = Tensor::<i32>::from_data(shape, v);
            attempt("from_data", t, axis, extra, cap, &mut out);
            // with_capacity reserving room along `e`, filled to `shape`, then grown along `axis`
            for e in 0..nd {
                let mut full = shape.to_vec();
                full[e] += if e == axis { extra } else { 1 };
                let r = guarded(|| {
                    let mut t = Tensor::<i32>::with_capacity(&full, e);
                    let piece = Tensor::<i32>::from_data(shape, (0..n as i32).collect::<Vec<_>>());
                    let ok = shape[e] == 0 || t.append(e, &piece).is_ok();
                    (t, ok)
                });
                if let Ok((t, true)) = r {
                    if t.shape() == shape {
                        let cap = full.iter().product::<usize>();
                        attempt(&format!("with_capacity{e}+append"), t, axis, extra, cap, &mut out);
                    }
                }
            }
            // concat builds a tensor with capacity and appends both parts
            let a = Tensor::<i32>::from_data(shape, (0..n as i32).collect::<Vec<_>>());
            let mut oshape = shape.to_vec();
            oshape[axis] = extra;
            let on: usize = oshape.iter().product();
            let b = Tensor::<i32>::from_data(&oshape, (0..on as i32).map(|x| 100_000 + x).collect::<Vec<_>>());
            if let Ok(Ok(mut c)) = guarded(|| Tensor::<i32>::concat(axis, &[a.view(), b.view()])) {
                let rshape = c.shape().to_vec();
                let rstrides = c.strides().to_vec();
                let rlen = storage_len(&c);
                let (x, y, z, panics) = live_muts(&mut c, axis);
                out.push(json!({"route": "concat", "shapeW": words(shape), "stridesW": words(a.strides()), "axis": axis, "extra": extra,
                                "cap": rlen.min(SMALL_LIMIT), "has": true, "append": "ok",
                                "rshapeW": words(&rshape), "rstridesW": words(&rstrides), "rlen": rlen.min(SMALL_LIMIT), "collected": true,
                                "iter_mut": x, "axis_iter_mut": y, "lanes_mut": z, "mut_panics": panics}));
            }
        }
    }
    let mut case = case;
    case["grows"] = Value::Array(out);
    tr.emit(case);
}

/// `vh-tensor grow --vectors FILE --out TRACE`
pub fn main_grow() {
    let out = vcommon::arg_or("--out", "-");
    let f = vcommon::arg("--vectors").expect("--vectors");
    let mut tr = Trace::create(&out);
    vcommon::quiet_panics();
    let mut case_no = 0u64;
    for rec in vcommon::read_json_lines(&f) {
        let shape = read_sizes(&rec, "shape");
        let strides = read_sizes(&rec, "strides");
        if shape.is_empty() || shape.len() != strides.len() {
            continue;
        }
        case_no += 1;
        run_vector(&mut tr, case_no, &shape, &strides);
    }
    tr.flush();
    eprintln!("cases={case_no}");
}
