//! C06 engine, part 1: constructors. Each test vector (shape, optional strides,
//! storage lengths) emitted by TLC (`MC_Construct`) is offered to every safe
//! rten-tensor constructor in this release build. Only the outcome and, for an
//! accepted tensor, `shape()`, `strides()`, `len()` and the storage length are
//! recorded: no element of a constructed tensor is ever read or written here,
//! because the layout may be unsafe.

use rten_tensor::errors::FromDataError;
use rten_tensor::layout::{MutLayout, OverlapPolicy};
use rten_tensor::prelude::*;
use rten_tensor::storage::{IntoStorage, Storage};
use rten_tensor::SizeArray;
use rten_tensor::{
    DynLayout, NdTensor, NdTensorView, NdTensorViewMut, Tensor, TensorBase, TensorView, TensorViewMut,
};
use vcommon::{Trace, Value, guarded, json, limbs};

use crate::util::*;

fn outcome_of<T>(r: &Result<T, FromDataError>) -> &'static str {
    match r {
        Ok(_) => "ok",
        Err(FromDataError::MayOverlap) => "overlap",
        Err(FromDataError::StorageTooShort) => "short",
        Err(FromDataError::StorageLengthMismatch) => "mismatch",
    }
}

struct Runs(Vec<Value>);

impl Runs {
    fn rejected(&mut self, ctor: &str, len: usize, mutable: bool, outcome: &str) {
        self.0.push(json!({"ctor": ctor, "len": len, "mutable": mutable, "outcome": outcome,
                           "rshapeW": [], "rstridesW": [], "rlenW": [], "rstorage": 0}));
    }
    /// Record an accepted tensor through its layout accessors only.
    fn accepted<L: Layout>(&mut self, ctor: &str, len: usize, mutable: bool, t: &L, storage_len: usize) {
        let shape: Vec<usize> = t.shape().iter().collect();
        let strides: Vec<usize> = t.strides().iter().collect();
        self.0.push(json!({"ctor": ctor, "len": len, "mutable": mutable, "outcome": "ok",
                           "rshapeW": words(&shape), "rstridesW": words(&strides),
                           "rlenW": limbs(t.len() as u64), "rstorage": storage_len.min(SMALL_LIMIT)}));
    }
    fn result<S: Storage, L: Layout + Clone>(
        &mut self,
        ctor: &str,
        len: usize,
        mutable: bool,
        r: Result<TensorBase<S, L>, FromDataError>,
    ) where
        TensorBase<S, L>: AsView,
    {
        match r {
            Ok(t) => {
                let sl = t.view().storage().len();
                self.accepted(ctor, len, mutable, &t, sl)
            }
            Err(_) => {
                let o = outcome_of(&r);
                self.rejected(ctor, len, mutable, o)
            }
        }
    }
}

macro_rules! by_rank {
    ($rank:expr, $m:ident) => {
        match $rank {
            0 => $m!(0),
            1 => $m!(1),
            2 => $m!(2),
            3 => $m!(3),
            4 => $m!(4),
            5 => $m!(5),
            _ => {}
        }
    };
}

fn run_vector(tr: &mut Trace, case_no: u64, class: &str, shape: &[usize], strides: Option<&[usize]>, lens: &[usize]) {
    let mut case = json!({"ev": "case", "case": case_no, "class": class, "shapeW": words(shape),
                          "stridesW": words(strides.unwrap_or(&[])), "strided": strides.is_some(), "lens": lens});
    note_current(&case);
    let mut runs = Runs(Vec::new());
    let rank = shape.len();
    for &len in lens {
        let mut buf: Vec<i32> = (0..len as i32).collect();
        // ---- constructors taking a shape only
        runs.result("try_from_data.vec", len, true, Tensor::<i32>::try_from_data(shape, buf.clone()));
        runs.result("try_from_data.slice", len, false, TensorView::<i32>::try_from_data(shape, &buf[..]));
        runs.result("try_from_data.mut", len, true, TensorViewMut::<i32>::try_from_data(shape, &mut buf[..]));
        macro_rules! nd_plain {
            ($n:literal) => {{
                let sh: [usize; $n] = shape.try_into().unwrap();
                runs.result("try_from_data.nd_vec", len, true, NdTensor::<i32, $n>::try_from_data(sh, buf.clone()));
                runs.result("try_from_data.nd_slice", len, false, NdTensorView::<i32, $n>::try_from_data(sh, &buf[..]));
            }};
        }
        by_rank!(rank, nd_plain);
        {
            let data = buf.clone();
            match guarded(move || Tensor::<i32>::from_data(shape, data)) {
                Ok(t) => {
                    let sl = t.view().storage().len();
                    runs.accepted("from_data.vec", len, true, &t, sl)
                }
                Err(_) => runs.rejected("from_data.vec", len, true, "rejected"),
            }
        }
        // ---- constructors taking explicit strides
        if let Some(strides) = strides {
            runs.result("from_data_with_strides.vec", len, true,
                        Tensor::<i32>::from_data_with_strides(shape, buf.clone(), strides));
            runs.result("from_data_with_strides.mut", len, true,
                        TensorViewMut::<i32>::from_data_with_strides(shape, &mut buf[..], strides));
            runs.result("from_data_with_strides.slice", len, false,
                        TensorView::<i32>::from_data_with_strides(shape, &buf[..], strides));
            runs.result("from_slice_with_strides", len, false,
                        TensorView::<i32>::from_slice_with_strides(shape, &buf[..], strides));
            macro_rules! nd_strided {
                ($n:literal) => {{
                    let sh: [usize; $n] = shape.try_into().unwrap();
                    let st: [usize; $n] = strides.try_into().unwrap();
                    runs.result("from_data_with_strides.nd_mut", len, true,
                                NdTensorViewMut::<i32, $n>::from_data_with_strides(sh, &mut buf[..], st));
                    runs.result("from_slice_with_strides.nd", len, false,
                                NdTensorView::<i32, $n>::from_slice_with_strides(sh, &buf[..], st));
                }};
            }
            by_rank!(rank, nd_strided);
            // from_storage_and_layout panics when it rejects
            let mk = || DynLayout::from_shape_and_strides(shape, strides, OverlapPolicy::AllowOverlap).unwrap();
            {
                let (data, layout) = (buf.clone(), mk());
                match guarded(move || TensorBase::from_storage_and_layout(data, layout)) {
                    Ok(t) => {
                        let sl = t.view().storage().len();
                        runs.accepted("from_storage_and_layout.vec", len, true, &t, sl)
                    }
                    Err(_) => runs.rejected("from_storage_and_layout.vec", len, true, "rejected"),
                }
            }
            {
                let layout = mk();
                let storage = (&buf[..]).into_storage();
                match guarded(move || TensorBase::from_storage_and_layout(storage, layout)) {
                    Ok(t) => {
                        let sl = t.view().storage().len();
                        runs.accepted("from_storage_and_layout.view", len, false, &t, sl)
                    }
                    Err(_) => runs.rejected("from_storage_and_layout.view", len, false, "rejected"),
                }
            }
            {
                let layout = mk();
                let storage = (&mut buf[..]).into_storage();
                match guarded(move || TensorBase::from_storage_and_layout(storage, layout)) {
                    Ok(t) => {
                        let sl = t.view().storage().len();
                        runs.accepted("from_storage_and_layout.mut", len, true, &t, sl)
                    }
                    Err(_) => runs.rejected("from_storage_and_layout.mut", len, true, "rejected"),
                }
            }
        }
    }
    // ---- shape-only allocating constructors (allocation size = the wrapping
    // element count the code computes; only run when that is small)
    let wrapped_count = shape.iter().fold(1usize, |a, s| a.wrapping_mul(*s));
    if wrapped_count <= 4096 {
        let sh = shape.to_vec();
        match guarded(move || Tensor::<i32>::zeros(sh.as_slice())) {
            Ok(t) => {
                let sl = t.view().storage().len();
                runs.accepted("zeros", wrapped_count, true, &t, sl)
            }
            Err(_) => runs.rejected("zeros", wrapped_count, true, "rejected"),
        }
        let sh = shape.to_vec();
        match guarded(move || Tensor::<i32>::from_simple_fn(sh.as_slice(), || 7)) {
            Ok(t) => {
                let sl = t.view().storage().len();
                runs.accepted("from_simple_fn", wrapped_count, true, &t, sl)
            }
            Err(_) => runs.rejected("from_simple_fn", wrapped_count, true, "rejected"),
        }
    }
    case["runs"] = Value::Array(runs.0);
    tr.emit(case);
}

/// `vh-tensor construct --vectors FILE --out TRACE`
pub fn main_construct() {
    let out = vcommon::arg_or("--out", "-");
    let f = vcommon::arg("--vectors").expect("--vectors");
    let mut tr = Trace::create(&out);
    vcommon::quiet_panics();
    let mut case_no = 0u64;
    for rec in vcommon::read_json_lines(&f) {
        let shape = read_sizes(&rec, "shape");
        let strides_all = read_sizes(&rec, "strides");
        let class = rec["class"].as_str().unwrap_or("small").to_string();
        let strided = !(strides_all.is_empty() && !shape.is_empty()) && class != "wide_plain";
        let lens: Vec<usize> = rec["lens"].as_array().unwrap().iter().map(|v| v.as_u64().unwrap() as usize).collect();
        case_no += 1;
        run_vector(&mut tr, case_no, &class, &shape, if strided { Some(&strides_all) } else { None }, &lens);
    }
    tr.flush();
    eprintln!("cases={case_no}");
}
