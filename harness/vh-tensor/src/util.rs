//! Helpers shared by the C06/C08/C09 engines (local to vh-tensor).

use rten_tensor::prelude::*;
use rten_tensor::{SliceItem, TensorView};
use vcommon::{Rng, Value, json, limbs};

/// Parse a little-endian base-2^15 limb array (Word.tla) into a u64.
/// Returns None if the value does not fit 64 bits.
pub fn word_to_u64(v: &Value) -> Option<u64> {
    let mut x: u128 = 0;
    for (i, l) in v.as_array()?.iter().enumerate() {
        let l = l.as_u64()? as u128;
        if i >= 5 {
            if l != 0 {
                return None;
            }
            continue;
        }
        x |= l << (15 * i);
    }
    if x > u64::MAX as u128 { None } else { Some(x as u64) }
}

/// Read a sequence of sizes: either `key` (ints) or `key`+"W" (limb arrays).
pub fn read_sizes(rec: &Value, key: &str) -> Vec<usize> {
    let wkey = format!("{key}W");
    if let Some(a) = rec.get(&wkey).and_then(|v| v.as_array()) {
        a.iter()
            .map(|w| word_to_u64(w).expect("word fits u64") as usize)
            .collect()
    } else {
        rec[key]
            .as_array()
            .expect("int array")
            .iter()
            .map(|v| v.as_u64().expect("nat") as usize)
            .collect()
    }
}

pub const SMALL_LIMIT: usize = 1 << 20;

pub fn all_small(xs: &[usize]) -> bool {
    xs.iter().all(|x| *x < SMALL_LIMIT)
}

pub fn words(xs: &[usize]) -> Value {
    Value::Array(xs.iter().map(|x| limbs(*x as u64)).collect())
}

/// Int array if every value is small, else `[]`.
pub fn ints_if_small(xs: &[usize], small: bool) -> Value {
    if small { json!(xs) } else { json!([]) }
}

/// Exact minimum data length of a layout (max offset + 1, 0 if empty), in
/// 128-bit arithmetic; None if it does not fit `limit`.
pub fn exact_min_len(shape: &[usize], strides: &[usize], limit: u128) -> Option<usize> {
    if shape.iter().any(|s| *s == 0) {
        return Some(0);
    }
    let mut m: u128 = 0;
    for (sz, st) in shape.iter().zip(strides) {
        m = m.checked_add((*sz as u128 - 1).checked_mul(*st as u128)?)?;
    }
    m = m.checked_add(1)?;
    if m <= limit { Some(m as usize) } else { None }
}

/// Row-major index iteration helper.
pub fn next_index(idx: &mut [usize], shape: &[usize]) -> bool {
    for d in (0..shape.len()).rev() {
        idx[d] += 1;
        if idx[d] < shape[d] {
            return true;
        }
        idx[d] = 0;
    }
    false
}

/// Logical row-major elements of a view read by explicit indexing (`get`),
/// not through iterators or copy routines.
pub fn read_elems(v: &TensorView<i32>) -> Vec<i32> {
    let shape: Vec<usize> = v.shape().to_vec();
    let n: usize = shape.iter().product();
    let mut out = Vec::with_capacity(n);
    if n == 0 {
        return out;
    }
    let mut idx = vec![0usize; shape.len()];
    loop {
        out.push(*v.get(idx.as_slice()).expect("valid index"));
        if !next_index(&mut idx, &shape) {
            break;
        }
    }
    out
}

/// A slice item in the JSON form the TLA+ specs use
/// `{idx, start, end, hasEnd, step}`.
#[derive(Clone, Debug)]
pub struct Item {
    pub idx: bool,
    pub start: isize,
    pub end: isize,
    pub has_end: bool,
    pub step: isize,
}

impl Item {
    pub fn to_json(&self) -> Value {
        json!({"idx": self.idx, "start": self.start, "end": self.end, "hasEnd": self.has_end, "step": self.step})
    }
    pub fn from_json(v: &Value) -> Item {
        Item {
            idx: v["idx"].as_bool().unwrap(),
            start: v["start"].as_i64().unwrap() as isize,
            end: v["end"].as_i64().unwrap() as isize,
            has_end: v["hasEnd"].as_bool().unwrap(),
            step: v["step"].as_i64().unwrap() as isize,
        }
    }
    /// Panics (inside rten) if step == 0.
    pub fn to_slice_item(&self) -> SliceItem {
        if self.idx {
            SliceItem::Index(self.start)
        } else {
            SliceItem::range(self.start, if self.has_end { Some(self.end) } else { None }, self.step)
        }
    }
}

/// Random slice item for a dimension of size `size`. `wild` allows
/// out-of-range endpoints and negative steps (errors in view slicing).
pub fn random_item(rng: &mut Rng, size: usize, wild: bool) -> Item {
    let sz = size as i64;
    let lo = if wild { -sz - 2 } else { -sz };
    let hi = if wild { sz + 2 } else { sz };
    match rng.below(10) {
        0 | 1 => {
            // index
            let i = if wild || sz == 0 { rng.range(-sz - 1, sz) } else { rng.range(-sz, sz - 1) };
            Item { idx: true, start: i as isize, end: 0, has_end: false, step: 1 }
        }
        2 => Item { idx: false, start: 0, end: 0, has_end: false, step: 1 },
        3 => Item {
            idx: false,
            start: rng.range(lo, hi) as isize,
            end: 0,
            has_end: false,
            step: rng.range(1, 3) as isize,
        },
        _ => {
            let mut a = rng.range(lo, hi);
            let mut b = rng.range(lo, hi);
            if !wild && rng.chance(3, 4) {
                // make most ranges non-empty: order the resolved endpoints
                let ra = if a < 0 { a + sz } else { a };
                let rb = if b < 0 { b + sz } else { b };
                if ra > rb {
                    std::mem::swap(&mut a, &mut b);
                }
            }
            let step = if wild && rng.chance(1, 6) { -rng.range(1, 2) } else { rng.range(1, 3) };
            Item { idx: false, start: a as isize, end: b as isize, has_end: true, step: step as isize }
        }
    }
}

pub fn random_perm(rng: &mut Rng, n: usize) -> Vec<usize> {
    let mut p: Vec<usize> = (0..n).collect();
    rng.shuffle(&mut p);
    p
}

pub fn panic_msg(m: &str) -> String {
    m.chars().take(100).collect()
}

/// Record the case that is about to run in a side file (`VERIF_CURRENT`), so
/// that a crash of the process can be attributed to it by the engine.
pub fn note_current(case: &Value) {
    use std::io::{Seek, SeekFrom, Write};
    use std::sync::{Mutex, OnceLock};
    static F: OnceLock<Option<Mutex<std::fs::File>>> = OnceLock::new();
    let f = F.get_or_init(|| {
        std::env::var("VERIF_CURRENT")
            .ok()
            .and_then(|p| std::fs::File::create(p).ok())
            .map(Mutex::new)
    });
    if let Some(m) = f {
        let mut f = m.lock().unwrap();
        let s = serde_json::to_string(case).unwrap();
        let _ = f.seek(SeekFrom::Start(0));
        let _ = f.write_all(s.as_bytes());
        let _ = f.write_all(b"\n");
        let _ = f.set_len(s.len() as u64 + 1);
    }
}
