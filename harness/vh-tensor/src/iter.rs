//! C07 engine: replay TLC-generated iterator histories on real rten-tensor
//! iterators over marker tensors (storage element k holds the value k) and
//! record what every call returned.

use rayon::iter::{IndexedParallelIterator, ParallelIterator};
use rten_base::iter::SplitIterator;
use rten_parallel::par_iter::ParIter;
use rten_tensor::prelude::*;
use rten_tensor::{TensorView, TensorViewMut};
use vcommon::{Rng, Trace, Value, guarded, json};

#[derive(Clone, Debug)]
pub struct LayoutSpec {
    pub shape: Vec<usize>,
    pub strides: Vec<usize>,
    pub base: usize,
    pub class: &'static str,
}

impl LayoutSpec {
    fn is_broadcast(&self) -> bool {
        self.shape
            .iter()
            .zip(&self.strides)
            .any(|(_sz, st)| *st == 0)
            && !self.shape.iter().any(|s| *s == 0)
    }
    fn data_len(&self) -> usize {
        if self.shape.iter().any(|s| *s == 0) {
            return self.base;
        }
        self.base
            + self
                .shape
                .iter()
                .zip(&self.strides)
                .map(|(sz, st)| (sz - 1) * st)
                .sum::<usize>()
            + 1
    }
}

fn l(shape: &[usize], strides: &[usize], base: usize, class: &'static str) -> LayoutSpec {
    LayoutSpec {
        shape: shape.to_vec(),
        strides: strides.to_vec(),
        base,
        class,
    }
}

/// Fixed catalogue of layout classes.
pub fn catalogue() -> Vec<LayoutSpec> {
    vec![
        l(&[2, 3], &[3, 1], 0, "contiguous"),
        l(&[6], &[1], 0, "contiguous"),
        l(&[3, 2], &[1, 3], 0, "transposed"),
        l(&[4, 3], &[1, 4], 0, "transposed"),
        l(&[2, 3], &[12, 2], 0, "stepped"),
        l(&[3], &[2], 1, "stepped"),
        l(&[2, 2], &[4, 1], 5, "offset_slice"),
        l(&[2, 3], &[0, 1], 0, "broadcast"),
        l(&[2, 3], &[1, 0], 0, "broadcast"),
        l(&[2, 2, 2], &[0, 2, 1], 0, "broadcast"),
        l(&[1, 3, 1, 2], &[6, 2, 2, 1], 0, "size1"),
        l(&[1, 1], &[1, 1], 0, "size1"),
        l(&[0, 3], &[3, 1], 0, "empty"),
        l(&[2, 0], &[0, 1], 0, "empty"),
        l(&[], &[], 0, "rank0"),
        l(&[], &[], 3, "rank0"),
        l(&[2, 2, 2], &[1, 4, 2], 0, "permuted3"),
        l(&[2, 3, 2], &[2, 4, 1], 0, "permuted3"),
        l(&[2, 2, 3], &[24, 8, 2], 1, "stepped3"),
        l(&[2, 1, 2, 2], &[1, 8, 4, 2], 0, "permuted4"),
        l(&[2, 2, 2, 2], &[1, 2, 8, 4], 0, "permuted4"),
        l(&[2, 3, 2, 2], &[40, 1, 20, 4], 2, "unmerged4"),
        l(&[2, 2, 1, 2, 2], &[16, 1, 1, 2, 4], 0, "permuted5"),
    ]
}

/// Seeded random non-overlapping layouts: pick a shape, a random order of the
/// dims, and give each dim (in that order) a stride >= the span of the
/// previous ones; optionally turn one dim into a broadcast dim.
pub fn random_layout(rng: &mut Rng) -> LayoutSpec {
    let ndim = rng.below(5);
    let shape: Vec<usize> = (0..ndim)
        .map(|_| *rng.pick(&[0usize, 1, 1, 2, 2, 2, 3, 3, 4]))
        .collect();
    let mut order: Vec<usize> = (0..ndim).collect();
    rng.shuffle(&mut order);
    let mut strides = vec![0usize; ndim];
    let mut span = 1usize;
    for &d in &order {
        let gap = 1 + rng.below(2) * rng.below(3);
        strides[d] = span * gap;
        span = strides[d] * shape[d].max(1);
    }
    let mut class = "random";
    if ndim > 0 && rng.chance(1, 5) {
        let d = rng.below(ndim);
        strides[d] = 0;
        class = "random_broadcast";
    }
    let base = if rng.chance(1, 3) { rng.below(4) } else { 0 };
    LayoutSpec {
        shape,
        strides,
        base,
        class,
    }
}

pub const KINDS: &[&str] = &[
    "iter",
    "iter_mut",
    "lanes",
    "lanes_mut",
    "inner",
    "inner_mut",
    "inner_dyn",
    "inner_dyn_mut",
    "axis",
    "axis_mut",
    "chunks",
    "chunks_mut",
    "lane",
    "lane_mut",
];

fn is_mut_kind(kind: &str) -> bool {
    kind.ends_with("_mut")
}

/// A case: iterator kind, layout, parameters.
#[derive(Clone, Debug)]
pub struct CaseSpec {
    pub kind: &'static str,
    pub layout: LayoutSpec,
    pub dim: usize,
    pub c: usize,
    pub n: usize,
}

/// Enumerate all applicable (kind, params) for a layout.
pub fn cases_for(layout: &LayoutSpec) -> Vec<CaseSpec> {
    let mut out = Vec::new();
    let nd = layout.shape.len();
    for &kind in KINDS {
        if is_mut_kind(kind) && layout.is_broadcast() {
            continue;
        }
        let mk = |dim: usize, c: usize, n: usize| CaseSpec {
            kind,
            layout: layout.clone(),
            dim,
            c,
            n,
        };
        match kind {
            "iter" | "iter_mut" => out.push(mk(0, 1, 0)),
            "lanes" | "lanes_mut" | "axis" | "axis_mut" | "lane" | "lane_mut" => {
                for d in 0..nd {
                    out.push(mk(d, 1, 0));
                }
            }
            "chunks" | "chunks_mut" => {
                for d in 0..nd {
                    for c in 1..=3 {
                        out.push(mk(d, c, 0));
                    }
                }
            }
            "inner" | "inner_mut" => {
                for n in 1..=2 {
                    if n <= nd {
                        out.push(mk(0, 1, n));
                    }
                }
            }
            "inner_dyn" | "inner_dyn_mut" => {
                for n in 0..=nd.min(3) {
                    out.push(mk(0, 1, n));
                }
            }
            _ => unreachable!(),
        }
    }
    out
}

fn vals(v: &[i32]) -> Value {
    json!(v)
}

/// Replay one history on an iterator. `conv` turns an item into its markers.
fn replay<I, F>(mut it: I, conv: F, hist: &[Value], tr: &mut Trace, pool: &rayon::ThreadPool)
where
    I: DoubleEndedIterator + ExactSizeIterator + SplitIterator + Send,
    I::Item: Send,
    F: Fn(I::Item) -> Vec<i32> + Sync + Send + Copy,
{
    tr.emit(json!({"ev": "op", "op": "len", "n": 0, "k": 0, "keep": "", "some": false,
                   "item": [], "items": [], "len": it.len()}));
    let mut terminal = false;
    for op in hist {
        let name = op["op"].as_str().unwrap();
        match name {
            "next" | "back" | "nth" => {
                let n = op.get("n").and_then(|v| v.as_u64()).unwrap_or(0) as usize;
                let r = match name {
                    "next" => it.next(),
                    "back" => it.next_back(),
                    _ => it.nth(n),
                };
                let some = r.is_some();
                let item = r.map(conv).unwrap_or_default();
                tr.emit(json!({"ev": "op", "op": name, "n": n, "k": 0, "keep": "", "some": some,
                               "item": vals(&item), "items": [], "len": it.len()}));
            }
            "split" => {
                let k = (op["k"].as_u64().unwrap() as usize).min(it.len());
                let keep = op["keep"].as_str().unwrap();
                let (left, right) = SplitIterator::split_at(it, k);
                let (kept, other) = if keep == "L" { (left, right) } else { (right, left) };
                let other_len = other.len();
                let items: Vec<Vec<i32>> = other.fold(Vec::new(), |mut acc, x| {
                    acc.push(conv(x));
                    acc
                });
                it = kept;
                tr.emit(json!({"ev": "op", "op": "split", "n": other_len, "k": k, "keep": keep, "some": false,
                               "item": [], "items": items, "len": it.len()}));
            }
            "fold" | "rdrain" | "par" | "drain" => {
                terminal = true;
                let items: Vec<Vec<i32>> = match name {
                    "fold" => it.fold(Vec::new(), |mut acc, x| {
                        acc.push(conv(x));
                        acc
                    }),
                    "rdrain" => it.rev().map(conv).collect(),
                    "par" => {
                        pool.install(|| {
                            ParIter::from(it)
                                .with_min_len(1)
                                .with_max_len(1)
                                .map(conv)
                                .collect()
                        })
                    }
                    _ => {
                        let mut v = Vec::new();
                        while let Some(x) = it.next() {
                            v.push(conv(x));
                        }
                        v
                    }
                };
                tr.emit(json!({"ev": "op", "op": name, "n": pool.current_num_threads(), "k": 0, "keep": "", "some": false,
                               "item": [], "items": items, "len": 0}));
                break;
            }
            _ => panic!("unknown op {name}"),
        }
    }
    let _ = terminal;
}

fn view_markers(v: TensorView<i32>) -> Vec<i32> {
    // Read the elements of a yielded sub-view by explicit indexing, not through
    // the iterators under test.
    let shape: Vec<usize> = v.shape().to_vec();
    let n: usize = shape.iter().product();
    let mut out = Vec::with_capacity(n);
    let mut idx = vec![0usize; shape.len()];
    for _ in 0..n {
        out.push(*v.get(idx.as_slice()).expect("index in bounds"));
        for d in (0..shape.len()).rev() {
            idx[d] += 1;
            if idx[d] < shape[d] {
                break;
            }
            idx[d] = 0;
        }
    }
    out
}

/// Run one case. Returns Err(panic message) if the code under test panicked.
pub fn run_case(case: &CaseSpec, hist: &[Value], tr: &mut Trace, case_no: u64, pool: &rayon::ThreadPool) {
    let ls = &case.layout;
    tr.emit(json!({"ev": "case", "case": case_no, "kind": case.kind, "class": ls.class,
                   "shape": ls.shape, "strides": ls.strides, "base": ls.base,
                   "dim": case.dim, "c": case.c, "n": case.n, "hist": hist}));
    let len = ls.data_len();
    let mut data: Vec<i32> = (0..len as i32).collect();
    let kind = case.kind;
    let (dim, c, n) = (case.dim, case.c, case.n);
    let shape = ls.shape.clone();
    let strides = ls.strides.clone();
    let base = ls.base;
    let r = guarded(|| {
        if is_mut_kind(kind) {
            let mut view =
                TensorViewMut::<i32>::from_data_with_strides(&shape, &mut data[base..], &strides)
                    .expect("mutable view construction");
            match kind {
                "iter_mut" => replay(view.iter_mut(), |x| vec![*x], hist, tr, pool),
                "lanes_mut" => replay(
                    view.lanes_mut(dim),
                    |lane| lane.map(|x| *x).collect(),
                    hist,
                    tr,
                    pool,
                ),
                "lane_mut" => {
                    if let Some(lane) = view.lanes_mut(dim).next() {
                        // LaneMut is not splittable; replay front/back ops only.
                        replay_lane_mut(lane, hist, tr);
                    } else {
                        tr.emit(json!({"ev": "op", "op": "nolane", "n": 0, "k": 0, "keep": "", "some": false,
                                       "item": [], "items": [], "len": 0}));
                    }
                }
                "inner_mut" => match n {
                    1 => replay(
                        view.inner_iter_mut::<1>(),
                        |v| view_markers(v.as_dyn()),
                        hist,
                        tr,
                        pool,
                    ),
                    _ => replay(
                        view.inner_iter_mut::<2>(),
                        |v| view_markers(v.as_dyn()),
                        hist,
                        tr,
                        pool,
                    ),
                },
                "inner_dyn_mut" => replay(
                    view.inner_iter_dyn_mut(n),
                    |v| view_markers(v.as_dyn()),
                    hist,
                    tr,
                    pool,
                ),
                "axis_mut" => replay(
                    view.axis_iter_mut(dim),
                    |v| view_markers(v.as_dyn()),
                    hist,
                    tr,
                    pool,
                ),
                "chunks_mut" => replay(
                    view.axis_chunks_mut(dim, c),
                    |v| view_markers(v.as_dyn()),
                    hist,
                    tr,
                    pool,
                ),
                _ => unreachable!(),
            }
        } else {
            let view = TensorView::<i32>::from_slice_with_strides(&shape, &data[base..], &strides)
                .expect("view construction");
            match kind {
                "iter" => replay(view.iter(), |x| vec![*x], hist, tr, pool),
                "lanes" => replay(
                    view.lanes(dim),
                    |lane| lane.copied().collect(),
                    hist,
                    tr,
                    pool,
                ),
                "lane" => {
                    if let Some(lane) = view.lanes(dim).next() {
                        replay_lane(lane, hist, tr);
                    } else {
                        tr.emit(json!({"ev": "op", "op": "nolane", "n": 0, "k": 0, "keep": "", "some": false,
                                       "item": [], "items": [], "len": 0}));
                    }
                }
                "inner" => match n {
                    1 => replay(
                        view.inner_iter::<1>(),
                        |v| view_markers(v.as_dyn()),
                        hist,
                        tr,
                        pool,
                    ),
                    _ => replay(
                        view.inner_iter::<2>(),
                        |v| view_markers(v.as_dyn()),
                        hist,
                        tr,
                        pool,
                    ),
                },
                "inner_dyn" => replay(
                    view.inner_iter_dyn(n),
                    |v| view_markers(v.as_dyn()),
                    hist,
                    tr,
                    pool,
                ),
                "axis" => replay(
                    view.axis_iter(dim),
                    |v| view_markers(v.as_dyn()),
                    hist,
                    tr,
                    pool,
                ),
                "chunks" => replay(
                    view.axis_chunks(dim, c),
                    |v| view_markers(v.as_dyn()),
                    hist,
                    tr,
                    pool,
                ),
                _ => unreachable!(),
            }
        }
    });
    if let Err(msg) = r {
        let msg: String = msg.chars().take(120).collect();
        tr.emit(json!({"ev": "op", "op": "panic", "n": 0, "k": 0, "keep": "", "some": false,
                       "item": [], "items": [], "len": 0, "msg": msg}));
    }
    // Mutable iteration must not have changed the markers (the harness only reads).
    let _ = data;
}

/// Lane / LaneMut are double-ended exact-size iterators but not splittable:
/// split ops in the history are skipped, `par` degrades to `fold`.
fn replay_lane<'a>(mut it: rten_tensor::iterators::Lane<'a, i32>, hist: &[Value], tr: &mut Trace) {
    tr.emit(json!({"ev": "op", "op": "len", "n": 0, "k": 0, "keep": "", "some": false,
                   "item": [], "items": [], "len": it.len()}));
    for op in hist {
        let name = op["op"].as_str().unwrap();
        match name {
            "next" | "back" | "nth" => {
                let n = op.get("n").and_then(|v| v.as_u64()).unwrap_or(0) as usize;
                let r = match name {
                    "next" => it.next(),
                    "back" => it.next_back(),
                    _ => it.nth(n),
                };
                let some = r.is_some();
                let item: Vec<i32> = r.map(|x| vec![*x]).unwrap_or_default();
                tr.emit(json!({"ev": "op", "op": name, "n": n, "k": 0, "keep": "", "some": some,
                               "item": item, "items": [], "len": it.len()}));
            }
            "split" => {}
            _ => {
                let items: Vec<Vec<i32>> = if name == "rdrain" {
                    it.rev().map(|x| vec![*x]).collect()
                } else {
                    it.fold(Vec::new(), |mut a, x| {
                        a.push(vec![*x]);
                        a
                    })
                };
                let name = if name == "rdrain" { "rdrain" } else { "fold" };
                tr.emit(json!({"ev": "op", "op": name, "n": 0, "k": 0, "keep": "", "some": false,
                               "item": [], "items": items, "len": 0}));
                break;
            }
        }
    }
}

fn replay_lane_mut<'a>(mut it: rten_tensor::iterators::LaneMut<'a, i32>, hist: &[Value], tr: &mut Trace) {
    tr.emit(json!({"ev": "op", "op": "len", "n": 0, "k": 0, "keep": "", "some": false,
                   "item": [], "items": [], "len": it.len()}));
    for op in hist {
        let name = op["op"].as_str().unwrap();
        match name {
            "next" | "back" | "nth" => {
                let n = op.get("n").and_then(|v| v.as_u64()).unwrap_or(0) as usize;
                let r = match name {
                    "next" => it.next(),
                    "back" => it.next_back(),
                    _ => it.nth(n),
                };
                let some = r.is_some();
                let item: Vec<i32> = r.map(|x| vec![*x]).unwrap_or_default();
                tr.emit(json!({"ev": "op", "op": name, "n": n, "k": 0, "keep": "", "some": some,
                               "item": item, "items": [], "len": it.len()}));
            }
            "split" => {}
            _ => {
                let items: Vec<Vec<i32>> = if name == "rdrain" {
                    it.rev().map(|x| vec![*x]).collect()
                } else {
                    it.fold(Vec::new(), |mut a, x| {
                        a.push(vec![*x]);
                        a
                    })
                };
                let name = if name == "rdrain" { "rdrain" } else { "fold" };
                tr.emit(json!({"ev": "op", "op": name, "n": 0, "k": 0, "keep": "", "some": false,
                               "item": [], "items": items, "len": 0}));
                break;
            }
        }
    }
}

/// Entry point: `vh-tensor iter --hist FILE --out TRACE [--per-hist K] [--random-layouts N]`.
pub fn main_iter() {
    let hist_file = vcommon::arg("--hist").expect("--hist");
    let out = vcommon::arg_or("--out", "-");
    let per_hist = vcommon::arg_usize("--per-hist", 0);
    let nrandom = vcommon::arg_usize("--random-layouts", 0);
    let histories = vcommon::read_json_lines(&hist_file);
    let mut rng = Rng::from_env();
    let mut layouts = catalogue();
    for _ in 0..nrandom {
        layouts.push(random_layout(&mut rng));
    }
    let mut all_cases = Vec::new();
    for ls in &layouts {
        all_cases.extend(cases_for(ls));
    }
    let mut tr = Trace::create(&out);
    vcommon::quiet_panics();
    let mut case_no = 0u64;
    let pools: Vec<rayon::ThreadPool> = [1usize, 2, 8]
        .iter()
        .map(|n| rayon::ThreadPoolBuilder::new().num_threads(*n).build().unwrap())
        .collect();
    if per_hist == 0 {
        // Every history on every case.
        for h in &histories {
            let hist = h.as_array().unwrap();
            for c in &all_cases {
                case_no += 1;
                run_case(c, hist, &mut tr, case_no, &pools[(case_no % 3) as usize]);
            }
        }
    } else {
        // Every history on `per_hist` seeded-random cases, walking the case list
        // round-robin as well so that every case is visited.
        let mut rr = 0usize;
        for h in &histories {
            let hist = h.as_array().unwrap();
            for j in 0..per_hist {
                let c = if j == 0 {
                    rr = (rr + 1) % all_cases.len();
                    &all_cases[rr]
                } else {
                    &all_cases[rng.below(all_cases.len())]
                };
                case_no += 1;
                run_case(c, hist, &mut tr, case_no, &pools[(case_no % 3) as usize]);
            }
        }
    }
    tr.flush();
    eprintln!("cases={} layouts={} kinds_x_params={}", case_no, layouts.len(), all_cases.len());
}
